(* C17 — proofs about the multiapp model: simulation of the byte-array specification by every run
   that never observes stale bytes, and the DiscardUpto theorem. *)
From V Require Import Base.Bytes App.Spec App.Single App.ListN App.SingleProofs App.Multi.
From Coq Require Import ZifyN ZifyNat ZifyBool.

(* ---------- directory and handle cache ---------- *)
Lemma dget_dset_same d i F : dget (dset d i F) i = Some F.
Proof.
  induction d as [|[j G] d IH]; simpl.
  - rewrite N.eqb_refl. reflexivity.
  - destruct (N.eqb_spec j i); simpl.
    + subst. rewrite N.eqb_refl. reflexivity.
    + destruct (N.eqb_spec j i); [contradiction|]. exact IH.
Qed.

Lemma dget_dset_other d i j F : i <> j -> dget (dset d i F) j = dget d j.
Proof.
  intros NE. induction d as [|[k G] d IH]; simpl.
  - destruct (N.eqb_spec i j); [contradiction|reflexivity].
  - destruct (N.eqb_spec k i); simpl.
    + subst. destruct (N.eqb_spec i j); [contradiction|reflexivity].
    + destruct (N.eqb_spec k j); auto.
Qed.

Lemma dget_In d i F : dget d i = Some F -> In (i, F) d.
Proof.
  induction d as [|[k G] d IH]; simpl; [discriminate|].
  destruct (N.eqb_spec k i); intros H.
  - left. congruence.
  - right. auto.
Qed.

Lemma In_dget d i F : In (i, F) d -> dget d i <> None.
Proof.
  induction d as [|[k G] d IH]; simpl; [tauto|].
  intros [H|H].
  - assert (k = i) by congruence. subst. rewrite N.eqb_refl. discriminate.
  - destruct (N.eqb_spec k i); [discriminate|auto].
Qed.

Lemma dget_filter (p : N -> bool) d i :
  dget (filter (fun '(j, _) => p j) d) i = if p i then dget d i else None.
Proof.
  induction d as [|[k G] d IH]; simpl.
  - destruct (p i); reflexivity.
  - destruct (p k) eqn:PK; simpl.
    + destruct (N.eqb_spec k i).
      * subst. rewrite PK. reflexivity.
      * exact IH.
    + destruct (N.eqb_spec k i).
      * subst. rewrite PK in *. exact IH.
      * exact IH.
Qed.

Lemma cget_cput_same c i h : cget (cput c i h) i = Some h.
Proof.
  induction c as [|[j g] c IH]; simpl.
  - rewrite N.eqb_refl. reflexivity.
  - destruct (N.eqb_spec j i); simpl.
    + subst. rewrite N.eqb_refl. reflexivity.
    + destruct (N.eqb_spec j i); [contradiction|]. exact IH.
Qed.

Lemma cget_cput_other c i j h : i <> j -> cget (cput c i h) j = cget c j.
Proof.
  intros NE. induction c as [|[k g] c IH]; simpl.
  - destruct (N.eqb_spec i j); [contradiction|reflexivity].
  - destruct (N.eqb_spec k i); simpl.
    + subst. destruct (N.eqb_spec i j); [contradiction|reflexivity].
    + destruct (N.eqb_spec k j); auto.
Qed.

Lemma cget_filter (p : N -> bool) (c : hcache) i :
  cget (filter (fun '(j, _) => p j) c) i = if p i then cget c i else None.
Proof.
  induction c as [|[k g] c IH]; simpl.
  - destruct (p i); reflexivity.
  - destruct (p k) eqn:PK; simpl.
    + destruct (N.eqb_spec k i).
      * subst. rewrite PK. reflexivity.
      * exact IH.
    + destruct (N.eqb_spec k i).
      * subst. rewrite PK in *. exact IH.
      * exact IH.
Qed.

Lemma dmax_le d c : (forall i F, In (i, F) d -> i <= c) -> forall k, dmax d = Some k -> k <= c.
Proof.
  induction d as [|[j G] d IH]; simpl; intros H k E; [discriminate|].
  assert (J : j <= c) by (apply (H j G); auto).
  destruct (dmax d) as [k'|] eqn:ED.
  - assert (k' <= c) by (apply IH; auto; intros; eapply H; eauto).
    assert (k = N.max j k') by congruence. lia.
  - congruence.
Qed.

Lemma dmax_ge d c F : In (c, F) d -> exists k, dmax d = Some k /\ c <= k.
Proof.
  induction d as [|[j G] d IH]; simpl; [tauto|].
  intros [H|H].
  - assert (j = c) by congruence. subst. destruct (dmax d) as [k'|]; eexists; split; eauto; lia.
  - destruct (IH H) as (k' & E & L). rewrite E. eexists; split; eauto. lia.
Qed.

Lemma dmax_spec d c : (forall i F, In (i, F) d -> i <= c) -> dget d c <> None -> dmax d = Some c.
Proof.
  intros H1 H2. destruct (dget d c) as [F|] eqn:E; [|congruence].
  apply dget_In in E. destruct (dmax_ge _ _ _ E) as (k & EK & L).
  pose proof (dmax_le _ _ H1 _ EK). f_equal. rewrite EK. f_equal. lia.
Qed.

(* ---------- the simulation relation ---------- *)
(* data part: the byte array cut into chunks of fileSize bytes *)
Record Rd (m : mapp) (a : log) : Prop := mkRd {
  rd_fs : 0 < m_fs m;
  rd_wf : hwf (m_app m) (cur_file m);
  rd_ex : dget (m_disk m) (m_cur m) <> None;
  rd_off : h_offset (m_app m) <= m_fs m;
  rd_lenF : forall i F, dget (m_disk m) i = Some F -> len F <= m_fs m;
  rd_len : m_cur m * m_fs m <= len (l_data a);
  rd_data : drop (m_cur m * m_fs m) (l_data a) = content (m_app m) (cur_file m);
  rd_old : forall i, i < m_cur m ->
           match dget (m_disk m) i with
           | Some F => F = slice (l_data a) (i * m_fs m) ((i + 1) * m_fs m)
           | None => (i + 1) * m_fs m <= l_disc a
           end;
  rd_cache : forall i h, cget (m_cache m) i = Some h ->
             dget (m_disk m) i <> None /\ (i < m_cur m -> rdok h (m_file m i))
}.

(* flags part *)
Record Rf (m : mapp) (a : log) : Prop := mkRf {
  rf_ro : l_ro a = m_ro m;
  rf_closed : l_closed a = m_closed m;
  rf_meta : l_meta a = m_meta m;
  rf_aro : h_ro (m_app m) = m_ro m;
  rf_acl : h_closed (m_app m) = m_closed m;
  rf_aretry : h_retry (m_app m) = m_retry m;
  rf_aauto : h_auto (m_app m) = m_auto m;
  rf_nocap : m_retry m && negb (m_auto m) = false;
  rf_cap : l_cap a = None;
  rf_buf : m_ro m = false -> 0 < m_buf m;
  rf_cl : m_closed m = true -> h_uw (m_app m) = h_fl (m_app m)
}.

Definition Rm (m : mapp) (a : log) : Prop := Rd m a /\ Rf m a.

Lemma Rd_size m a : Rd m a -> l_size a = m_offset m.
Proof.
  intros D. unfold l_size, m_offset.
  pose proof (len_content _ _ (rd_wf _ _ D)) as LC. rewrite <- (rd_data _ _ D), len_drop in LC.
  pose proof (rd_len _ _ D). lia.
Qed.

Lemma cur_file_upd m h F : cur_file (m_upd_cur m h F) = F.
Proof. unfold cur_file, m_file, m_upd_cur, m_with; cbn [m_disk m_cur]. rewrite dget_dset_same. reflexivity. Qed.

Lemma m_file_upd_other m h F i : i <> m_cur m -> m_file (m_upd_cur m h F) i = m_file m i.
Proof.
  intros NE. unfold m_file, m_upd_cur, m_with; cbn [m_disk m_cur].
  rewrite dget_dset_other by congruence. reflexivity.
Qed.

(* the current chunk's handle and file are replaced; the array may change beyond the start of
   the current chunk *)
Lemma Rd_upd_cur m a a' h' F' :
  Rd m a -> hwf h' F' -> len F' <= m_fs m -> h_offset h' <= m_fs m ->
  m_cur m * m_fs m <= len (l_data a') ->
  drop (m_cur m * m_fs m) (l_data a') = content h' F' ->
  take (m_cur m * m_fs m) (l_data a') = take (m_cur m * m_fs m) (l_data a) ->
  l_disc a <= l_disc a' ->
  Rd (m_upd_cur m h' F') a'.
Proof.
  intros D W' LF OF LN DT TK DS. destruct D.
  assert (EC : m_cur (m_upd_cur m h' F') = m_cur m) by reflexivity.
  assert (ED : m_disk (m_upd_cur m h' F') = dset (m_disk m) (m_cur m) F') by reflexivity.
  assert (EA : m_app (m_upd_cur m h' F') = h') by reflexivity.
  assert (EH : m_cache (m_upd_cur m h' F') = m_cache m) by reflexivity.
  assert (EF : m_fs (m_upd_cur m h' F') = m_fs m) by reflexivity.
  assert (CF : cur_file (m_upd_cur m h' F') = F') by apply cur_file_upd.
  constructor; rewrite ?CF, ?EC, ?ED, ?EA, ?EH, ?EF; auto.
  - rewrite dget_dset_same. discriminate.
  - intros i F. destruct (N.eq_dec (m_cur m) i) as [E|NE].
    + subst i. rewrite dget_dset_same. intros X. assert (F = F') by congruence. subst. exact LF.
    + rewrite dget_dset_other by exact NE. apply rd_lenF0.
  - intros i LT. rewrite dget_dset_other by (clear - LT; lia).
    specialize (rd_old0 i LT). destruct (dget (m_disk m) i) as [F|].
    + rewrite rd_old0.
      rewrite <- (slice_take (l_data a') _ _ (m_cur m * m_fs m)) by (clear - LT; nia).
      rewrite <- (slice_take (l_data a) _ _ (m_cur m * m_fs m)) by (clear - LT; nia).
      rewrite TK. reflexivity.
    + clear - rd_old0 DS. lia.
  - intros i h C. destruct (rd_cache0 i h C) as [EX RD]. split.
    + destruct (N.eq_dec (m_cur m) i) as [E|NE].
      * subst. rewrite dget_dset_same. discriminate.
      * rewrite dget_dset_other by exact NE. exact EX.
    + intros LT. rewrite m_file_upd_other by (clear - LT; lia). auto.
Qed.

Lemma Rf_upd_cur m a a' h' F' :
  Rf m a -> same_cfg (m_app m) h' ->
  l_ro a' = l_ro a -> l_closed a' = l_closed a -> l_meta a' = l_meta a -> l_cap a' = l_cap a ->
  (m_closed m = true -> h_uw h' = h_fl h') ->
  Rf (m_upd_cur m h' F') a'.
Proof.
  intros [] [] E1 E2 E3 E4 CL.
  constructor; unfold m_upd_cur, m_with;
    cbn [m_ro m_closed m_meta m_app m_retry m_auto m_buf]; auto; congruence.
Qed.

Definition mstep_ok (m : mapp) (a : log) (o : op) : Prop :=
  let '(m', x) := m_step m o in
  let '(a', y) := spec_step a o in
  out_match x y /\ (l_chaos a' = true \/ (l_chaos a' = false /\ Rm m' a')).

Lemma om_refl x : out_match x x. Proof. right; reflexivity. Qed.

Ltac lsimp := cbn [set_data set_marks l_data l_ro l_closed l_meta l_cap l_sy l_fl l_disc l_chaos].

Lemma msim_size m a : Rm m a -> l_chaos a = false -> mstep_ok m a Size.
Proof.
  intros [D Fl] CH. unfold mstep_ok, m_step, spec_step, m_size. rewrite CH.
  rewrite (rf_closed _ _ Fl). destruct (m_closed m) eqn:MC.
  - split; [apply om_refl|right; split; auto; split; auto].
  - unfold h_size. rewrite (rf_acl _ _ Fl), MC. rewrite (Rd_size _ _ D). unfold m_offset.
    split; [apply om_refl|right; split; auto; split; auto].
Qed.

Lemma msim_offset m a : Rm m a -> l_chaos a = false -> mstep_ok m a Offset.
Proof.
  intros [D Fl] CH. unfold mstep_ok, m_step, spec_step. rewrite CH. rewrite (Rd_size _ _ D).
  split; [apply om_refl|right; split; auto; split; auto].
Qed.

Lemma msim_meta m a : Rm m a -> l_chaos a = false -> mstep_ok m a Meta.
Proof.
  intros [D Fl] CH. unfold mstep_ok, m_step, spec_step. rewrite CH. rewrite (rf_meta _ _ Fl).
  split; [apply om_refl|right; split; auto; split; auto].
Qed.

(* Flush and Sync: an operation of the current chunk that keeps the content *)
Lemma msim_cur_keep m a h' F' a' :
  Rm m a -> hwf h' F' -> content h' F' = content (m_app m) (cur_file m) ->
  same_cfg (m_app m) h' -> len F' = N.max (len (cur_file m)) (h_offset (m_app m)) ->
  (m_closed m = true -> h_uw h' = h_fl h') ->
  l_data a' = l_data a -> l_disc a' = l_disc a ->
  l_ro a' = l_ro a -> l_closed a' = l_closed a -> l_meta a' = l_meta a -> l_cap a' = l_cap a ->
  Rm (m_upd_cur m h' F') a'.
Proof.
  intros [D Fl] W' C' S' LF CL E1 E2 E3 E4 E5 E6. split.
  - pose proof (rd_off _ _ D) as OF. pose proof (rd_ex _ _ D) as EX.
    assert (LC : len (cur_file m) <= m_fs m).
    { unfold cur_file, m_file. destruct (dget (m_disk m) (m_cur m)) as [F|] eqn:G; [|congruence].
      eapply (rd_lenF _ _ D); eauto. }
    assert (OF' : h_offset h' = h_offset (m_app m)).
    { rewrite <- (len_content _ _ W'), <- (len_content _ _ (rd_wf _ _ D)), C'. reflexivity. }
    apply (Rd_upd_cur m a a'); auto.
    + rewrite LF. clear - LC OF. lia.
    + rewrite OF'. exact OF.
    + rewrite E1. apply (rd_len _ _ D).
    + rewrite E1, C'. apply (rd_data _ _ D).
    + rewrite E1. reflexivity.
    + rewrite E2. clear. lia.
  - apply (Rf_upd_cur m a a'); auto.
Qed.

Lemma msim_flush m a : Rm m a -> l_chaos a = false -> mstep_ok m a Flush.
Proof.
  intros Rma CH. pose proof Rma as [D Fl].
  unfold mstep_ok, m_step, spec_step, m_cur_op. rewrite CH.
  rewrite (rf_closed _ _ Fl), (rf_ro _ _ Fl).
  destruct (m_closed m) eqn:MC; cbn [orb]; [split; [apply om_refl|right; split; auto]|].
  destruct (m_ro m) eqn:MR; cbn [orb]; [split; [apply om_refl|right; split; auto]|].
  unfold h_flush_op. rewrite (rf_acl _ _ Fl), (rf_aro _ _ Fl), MC, MR.
  destruct (h_flush (m_app m) (cur_file m)) as [h' F'] eqn:EF.
  destruct (h_flush_spec _ _ _ _ (rd_wf _ _ D) EF) as (W' & C' & S' & _).
  pose proof (h_flush_len _ _ _ _ (rd_wf _ _ D) EF) as LF.
  split; [apply om_refl|]. right. split; auto.
  apply (msim_cur_keep m a h' F'); auto. intros; congruence.
Qed.

Lemma msim_sync m a : Rm m a -> l_chaos a = false -> mstep_ok m a Sync.
Proof.
  intros Rma CH. pose proof Rma as [D Fl].
  unfold mstep_ok, m_step, spec_step, m_cur_op. rewrite CH.
  rewrite (rf_closed _ _ Fl), (rf_ro _ _ Fl).
  destruct (m_closed m) eqn:MC; cbn [orb]; [split; [apply om_refl|right; split; auto]|].
  destruct (m_ro m) eqn:MR; cbn [orb]; [split; [apply om_refl|right; split; auto]|].
  unfold h_sync_op. rewrite (rf_acl _ _ Fl), (rf_aro _ _ Fl), MC, MR.
  destruct (h_sync (m_app m) (cur_file m)) as [h' F'] eqn:EF.
  destruct (h_sync_spec _ _ _ _ (rd_wf _ _ D) EF) as (W' & C' & S' & _).
  pose proof (h_sync_len _ _ _ _ (rd_wf _ _ D) EF) as LF.
  split; [apply om_refl|]. right. split; auto.
  apply (msim_cur_keep m a h' F'); auto. intros; congruence.
Qed.

(* Rd only looks at the directory, the current chunk, the cache and fileSize *)
Lemma Rd_ext m m2 a :
  Rd m a -> m_disk m2 = m_disk m -> m_cur m2 = m_cur m -> m_app m2 = m_app m -> m_fs m2 = m_fs m ->
  (forall i h, cget (m_cache m2) i = Some h -> cget (m_cache m) i = Some h) ->
  Rd m2 a.
Proof.
  intros [] E1 E2 E3 E4 E5.
  assert (CF : cur_file m2 = cur_file m) by (unfold cur_file, m_file; rewrite E1, E2; reflexivity).
  assert (MF : forall i, m_file m2 i = m_file m i) by (intros; unfold m_file; rewrite E1; reflexivity).
  constructor; rewrite ?CF, ?E1, ?E2, ?E3, ?E4; auto.
  intros i h C. rewrite MF. apply rd_cache0. apply E5. exact C.
Qed.

Lemma h_switch_ro_cfg h F h' F' x :
  hwf h F -> h_closed h = false -> h_ro h = false -> h_switch_ro h F = (h', F', x) ->
  h_retry h' = h_retry h /\ h_auto h' = h_auto h /\ h_uw h' = h_fl h'.
Proof.
  intros W CL RO E. unfold h_switch_ro in E. rewrite CL, RO in E.
  destruct (h_flush h F) as [h1 F1] eqn:EF.
  destruct (h_flush_spec _ _ _ _ W EF) as (W1 & _ & S1 & _ & U1 & _).
  destruct (h_retry h1) eqn:RT.
  - destruct (h_sync h1 F1) as [h2 F2] eqn:ES.
    destruct (h_sync_spec _ _ _ _ W1 ES) as (_ & _ & S2 & _ & U2 & _).
    assert (h' = mkh (h_fo h2) (h_pos h2) (h_seek h2) [] (h_fl h2) (h_uw h2) true (h_retry h2) (h_auto h2) (h_closed h2))
      by congruence. subst h'. cbn [h_retry h_auto h_uw h_fl]. destruct S1, S2. repeat split; congruence.
  - assert (h' = mkh (h_fo h1) (h_pos h1) (h_seek h1) [] (h_fl h1) (h_uw h1) true (h_retry h1) (h_auto h1) (h_closed h1))
      by congruence. subst h'. cbn [h_retry h_auto h_uw h_fl]. destruct S1. repeat split; congruence.
Qed.

Lemma cur_file_len m a : Rd m a -> len (cur_file m) <= m_fs m.
Proof.
  intros D. pose proof (rd_ex _ _ D) as EX.
  unfold cur_file, m_file. destruct (dget (m_disk m) (m_cur m)) as [F|] eqn:G; [|congruence].
  eapply (rd_lenF _ _ D); eauto.
Qed.

Lemma msim_switchro m a : Rm m a -> l_chaos a = false -> mstep_ok m a SwitchRO.
Proof.
  intros Rma CH. pose proof Rma as [D Fl].
  unfold mstep_ok, m_step, spec_step, m_switch_ro, m_cur_op. rewrite CH.
  rewrite (rf_closed _ _ Fl), (rf_ro _ _ Fl).
  destruct (m_closed m) eqn:MC; cbn [orb]; [split; [apply om_refl|right; split; auto]|].
  destruct (m_ro m) eqn:MR; cbn [orb]; [split; [apply om_refl|right; split; auto]|].
  destruct (h_switch_ro (m_app m) (cur_file m)) as [[h' F'] x] eqn:ES.
  assert (ACL : h_closed (m_app m) = false) by (rewrite (rf_acl _ _ Fl); auto).
  assert (ARO : h_ro (m_app m) = false) by (rewrite (rf_aro _ _ Fl); auto).
  destruct (h_switch_ro_spec _ _ _ _ _ (rd_wf _ _ D) ACL ARO ES) as (X & W' & C' & RO' & CL' & FO').
  destruct (h_switch_ro_cfg _ _ _ _ _ (rd_wf _ _ D) ACL ARO ES) as (RT' & AU' & U').
  subst x. split; [apply om_refl|]. right. split; auto.
  pose proof (cur_file_len _ _ D) as LC. pose proof (rd_off _ _ D) as OF.
  assert (OF' : h_offset h' = h_offset (m_app m)).
  { rewrite <- (len_content _ _ W'), <- (len_content _ _ (rd_wf _ _ D)), C'. reflexivity. }
  split.
  - apply (Rd_ext (m_upd_cur m h' F')); auto.
    apply (Rd_upd_cur m a); lsimp; auto.
    + destruct (h_switch_ro_len _ _ _ _ _ (rd_wf _ _ D) ES) as [L|L]; [rewrite L; clear - LC OF; lia|subst; auto].
    + rewrite OF'. auto.
    + apply (rd_len _ _ D).
    + rewrite C'. apply (rd_data _ _ D).
    + clear. lia.
  - destruct Fl. constructor; lsimp; unfold m_upd_cur, m_with;
      cbn [m_ro m_closed m_meta m_app m_retry m_auto m_buf]; auto; try congruence;
      try (intros; discriminate).
Qed.

Lemma msim_close m a : Rm m a -> l_chaos a = false -> mstep_ok m a Close.
Proof.
  intros Rma CH. pose proof Rma as [D Fl].
  unfold mstep_ok, m_step, spec_step, m_close. rewrite CH.
  rewrite (rf_closed _ _ Fl).
  destruct (m_closed m) eqn:MC; [split; [apply om_refl|right; split; auto]|].
  destruct (h_close (m_app m) (cur_file m)) as [[h' F'] x] eqn:ES.
  assert (ACL : h_closed (m_app m) = false) by (rewrite (rf_acl _ _ Fl); auto).
  destruct (h_close_spec _ _ _ _ _ (rd_wf _ _ D) ACL ES) as (X & W' & C' & RO' & CL' & FO' & U' & RT' & AU' & _).
  subst x. split; [apply om_refl|]. right. split; auto.
  pose proof (cur_file_len _ _ D) as LC. pose proof (rd_off _ _ D) as OF.
  assert (OF' : h_offset h' = h_offset (m_app m)).
  { rewrite <- (len_content _ _ W'), <- (len_content _ _ (rd_wf _ _ D)), C'. reflexivity. }
  split.
  - apply (Rd_ext (m_upd_cur m h' F')); auto; [|cbn [m_cache cget]; intros; discriminate].
    apply (Rd_upd_cur m a); lsimp; auto.
    + destruct (h_close_len _ _ _ _ _ (rd_wf _ _ D) ES) as [L|L]; [rewrite L; clear - LC OF; lia|subst; auto].
    + rewrite OF'. auto.
    + apply (rd_len _ _ D).
    + rewrite C'. apply (rd_data _ _ D).
    + clear. lia.
  - destruct Fl. constructor; lsimp; unfold m_upd_cur, m_with;
      cbn [m_ro m_closed m_meta m_app m_retry m_auto m_buf]; auto; try congruence.
Qed.

Lemma msim_discard m a off : Rm m a -> l_chaos a = false -> mstep_ok m a (Discard off).
Proof.
  intros Rma CH. pose proof Rma as [D Fl].
  unfold mstep_ok, m_step, spec_step, m_discard. rewrite CH.
  rewrite (rf_closed _ _ Fl). rewrite (Rd_size _ _ D).
  destruct (m_closed m) eqn:MC; cbn [orb]; [split; [apply om_refl|right; split; auto]|].
  destruct (N.ltb_spec (m_offset m) off) as [LT|GE]; [split; [apply om_refl|right; split; auto]|].
  split; [apply om_refl|]. right. split; auto.
  set (lim := N.min (off / m_fs m) (m_cur m)).
  pose proof (rd_fs _ _ D) as FS.
  split.
  - destruct D. constructor; unfold m_with, cur_file, m_file; cbn [m_disk m_cur m_app m_cache m_fs]; lsimp; auto.
    + rewrite dget_filter.
      replace (negb (m_cur m <? lim)) with true by (symmetry; apply negb_true_iff, N.ltb_ge; unfold lim; clear; lia).
      exact rd_wf0.
    + rewrite dget_filter.
      replace (negb (m_cur m <? lim)) with true by (symmetry; apply negb_true_iff, N.ltb_ge; unfold lim; clear; lia).
      exact rd_ex0.
    + intros i F. rewrite dget_filter. destruct (negb (i <? lim)); [apply rd_lenF0|discriminate].
    + rewrite dget_filter.
      replace (negb (m_cur m <? lim)) with true by (symmetry; apply negb_true_iff, N.ltb_ge; unfold lim; clear; lia).
      exact rd_data0.
    + intros i LT. rewrite dget_filter. specialize (rd_old0 i LT).
      destruct (N.ltb_spec i lim) as [L|L]; cbn [negb].
      * assert (i + 1 <= off / m_fs m) by (unfold lim in L; clear - L; lia).
        assert ((i + 1) * m_fs m <= off).
        { transitivity (off / m_fs m * m_fs m); [apply N.mul_le_mono_r; auto|].
          rewrite N.mul_comm. apply N.mul_div_le. clear - FS. lia. }
        clear - H0. lia.
      * destruct (dget (m_disk m) i); auto. clear - rd_old0. lia.
    + intros i h. rewrite cget_filter. destruct (N.ltb_spec i lim) as [L|L]; cbn [negb]; [discriminate|].
      intros C. destruct (rd_cache0 i h C) as [EX RD]. split.
      * rewrite dget_filter. replace (negb (i <? lim)) with true by (symmetry; apply negb_true_iff, N.ltb_ge; exact L). exact EX.
      * intros LT'. rewrite dget_filter.
        replace (negb (i <? lim)) with true by (symmetry; apply negb_true_iff, N.ltb_ge; exact L).
        apply RD. exact LT'.
  - destruct Fl. constructor; lsimp; unfold m_with; cbn [m_ro m_closed m_meta m_app m_retry m_auto m_buf]; auto.
Qed.

(* ---------- Append ---------- *)
Lemma capmode_app m a : Rf m a -> capmode (m_app m) = false.
Proof. intros Fl. unfold capmode. rewrite (rf_aretry _ _ Fl), (rf_aauto _ _ Fl). apply (rf_nocap _ _ Fl). Qed.

Lemma set_data_id a : set_data a (l_data a) = a.
Proof. destruct a; reflexivity. Qed.

Lemma set_data_twice a x y : set_data (set_data a x) y = set_data a y.
Proof. reflexivity. Qed.

(* one inner Append of the part that fits into the current chunk *)
Lemma inner_append m a t h' F' x :
  Rm m a -> m_closed m = false -> m_ro m = false -> 0 < len t ->
  h_offset (m_app m) + len t <= m_fs m ->
  h_append (m_app m) (cur_file m) t = (h', F', x) ->
  x = OApp (h_offset (m_app m)) (len t) /\ Rm (m_upd_cur m h' F') (set_data a (l_data a ++ t)).
Proof.
  intros [D Fl] MC MR LT FIT EA.
  assert (ACL : h_closed (m_app m) = false) by (rewrite (rf_acl _ _ Fl); auto).
  assert (ARO : h_ro (m_app m) = false) by (rewrite (rf_aro _ _ Fl); auto).
  pose proof (rd_wf _ _ D) as W.
  destruct (h_append_spec _ _ _ _ _ _ W ACL ARO LT EA) as (W' & C' & S' & X & _).
  rewrite (capmode_app _ _ Fl) in *. cbn zeta in *. cbn [andb] in X. rewrite take_all in C'.
  split; [exact X|].
  pose proof (h_offset_content _ _ _ _ _ W W' C') as OF'.
  destruct (h_append_len _ _ _ _ _ _ W EA) as [L1 _].
  pose proof (cur_file_len _ _ D) as LC. pose proof (rd_len _ _ D) as LN.
  split.
  - apply (Rd_upd_cur m a); lsimp; auto.
    + clear - L1 LC OF' FIT. lia.
    + rewrite OF'. exact FIT.
    + rewrite len_app. clear - LN. lia.
    + rewrite drop_app_le by exact LN. rewrite (rd_data _ _ D). symmetry. exact C'.
    + apply take_app_le. exact LN.
    + clear. lia.
  - apply (Rf_upd_cur m a); auto. intros; congruence.
Qed.

(* openAppendable(create) on chunk id: either the file is there (possibly stale) or it is created *)
Lemma open_chunk_create m d id :
  (forall i F, dget d i = Some F -> len F <= m_fs m) ->
  exists d2 F2, m_open_chunk m d id true true = Some (d2, h_open F2 (m_oopts m true)) /\
    dget d2 id = Some F2 /\ len F2 <= m_fs m /\ (forall j, j <> id -> dget d2 j = dget d j).
Proof.
  intros LF. unfold m_open_chunk. destruct (dget d id) as [F|] eqn:G.
  - exists d, F. repeat split; auto. eapply LF; eauto.
  - eexists (dset d id _), _. repeat split.
    + apply dget_dset_same.
    + rewrite len_zeros. destruct (m_prealloc m); lia.
    + intros j NE. apply dget_dset_other. congruence.
Qed.

Lemma h_open_wf_rw F b r au : 0 < b -> hwf (h_open F (mko false b r au)) F.
Proof. intros B. apply (h_open_wf F (mko false b r au)). unfold opts_valid. cbn. apply N.ltb_lt. exact B. Qed.

Lemma rotate_spec m a :
  Rm m a -> m_closed m = false -> m_ro m = false -> m_fs m <= h_offset (m_app m) ->
  exists m1, m_rotate m = (m1, false) /\ Rm m1 a /\ m_cur m1 = m_cur m + 1 /\ h_offset (m_app m1) = 0 /\
             m_fs m1 = m_fs m /\ m_closed m1 = false /\ m_ro m1 = false.
Proof.
  intros [D Fl] MC MR FULL.
  assert (ACL : h_closed (m_app m) = false) by (rewrite (rf_acl _ _ Fl); auto).
  assert (ARO : h_ro (m_app m) = false) by (rewrite (rf_aro _ _ Fl); auto).
  pose proof (rd_wf _ _ D) as W. pose proof (rd_off _ _ D) as OF. pose proof (rd_fs _ _ D) as FS.
  assert (OFF : h_offset (m_app m) = m_fs m) by (clear - OF FULL; lia).
  unfold m_rotate.
  destruct (h_switch_ro (m_app m) (cur_file m)) as [[h1 F1] x] eqn:ES.
  destruct (h_switch_ro_spec _ _ _ _ _ W ACL ARO ES) as (X & W1 & C1 & RO1 & CL1 & FO1).
  destruct (h_switch_ro_cfg _ _ _ _ _ W ACL ARO ES) as (RT1 & AU1 & U1).
  subst x.
  pose proof (cur_file_len _ _ D) as LC.
  assert (LF1 : len F1 <= m_fs m).
  { destruct (h_switch_ro_len _ _ _ _ _ W ES) as [L|L]; [rewrite L; clear - LC OF; lia|subst; auto]. }
  assert (LF1' : len F1 = m_fs m).
  { pose proof (wf_fo _ _ W1). rewrite FO1, OFF in H. clear - H LF1. lia. }
  set (d1 := dset (m_disk m) (m_cur m) F1).
  assert (LD1 : forall i F, dget d1 i = Some F -> len F <= m_fs m).
  { intros i F. unfold d1. destruct (N.eq_dec (m_cur m) i) as [E|NE].
    - subst. rewrite dget_dset_same. intros G. assert (F = F1) by congruence. subst. exact LF1.
    - rewrite dget_dset_other by exact NE. apply (rd_lenF _ _ D). }
  destruct (open_chunk_create m d1 (m_cur m + 1) LD1) as (d2 & F2 & EO & G2 & LF2 & OTH).
  rewrite EO.
  set (h2 := h_open F2 (m_oopts m true)).
  assert (BUF : 0 < m_buf m) by (apply (rf_buf _ _ Fl); auto).
  assert (W2 : hwf h2 F2).
  { unfold h2, m_oopts. rewrite MR. cbn [andb negb]. apply h_open_wf_rw. exact BUF. }
  assert (CL2 : h_closed h2 = false) by reflexivity.
  assert (RO2 : h_ro h2 = false) by (unfold h2, m_oopts, h_open; cbn [h_ro o_ro]; exact MR).
  destruct (h_setoffset h2 0) as [h3 x3] eqn:E3.
  destruct (h_setoffset_spec _ _ _ _ _ W2 CL2 RO2 E3) as [(LT & _)|(_ & X3 & W3 & C3 & S3 & _)].
  { exfalso. clear - LT. lia. }
  subst x3. rewrite take_0 in C3.
  eexists. split; [reflexivity|].
  assert (SZ : len (l_data a) = (m_cur m + 1) * m_fs m).
  { pose proof (Rd_size _ _ D) as S. unfold l_size, m_offset in S. rewrite S, OFF. clear. lia. }
  assert (F1E : F1 = slice (l_data a) (m_cur m * m_fs m) ((m_cur m + 1) * m_fs m)).
  { assert (CE : content h1 F1 = F1).
    { unfold content. rewrite FO1, OFF, <- LF1', take_all.
      rewrite slice_empty by (rewrite U1; clear; lia). apply app_nil_r. }
    rewrite <- CE, C1, <- (rd_data _ _ D). unfold slice.
    rewrite take_ge; auto. rewrite len_drop, SZ. clear. lia. }
  assert (O3 : h_offset h3 = 0) by (rewrite <- (len_content _ _ W3), C3; reflexivity).
  splits; auto.
  split.
  - (* data part *)
    constructor; unfold m_with, cur_file, m_file; cbn [m_disk m_cur m_app m_cache m_fs]; auto.
    + rewrite G2. exact W3.
    + rewrite G2. discriminate.
    + rewrite O3. clear. lia.
    + intros i F. destruct (N.eq_dec i (m_cur m + 1)) as [E|NE].
      * subst. rewrite G2. intros Q. assert (F = F2) by congruence. subst. exact LF2.
      * rewrite OTH by exact NE. apply LD1.
    + rewrite SZ. clear. lia.
    + rewrite G2, C3. apply drop_ge. rewrite SZ. clear. lia.
    + intros i LT. rewrite OTH by (clear - LT; lia). unfold d1.
      destruct (N.eq_dec (m_cur m) i) as [E|NE].
      * subst i. rewrite dget_dset_same. exact F1E.
      * rewrite dget_dset_other by exact NE. apply (rd_old _ _ D). clear - LT NE. lia.
    + intros i h. destruct (N.eq_dec (m_cur m) i) as [E|NE].
      * subst i. rewrite cget_cput_same. intros Q. assert (h = h1) by congruence. subst h. split.
        -- rewrite OTH by (clear; lia). unfold d1. rewrite dget_dset_same. discriminate.
        -- intros _. rewrite OTH by (clear; lia). unfold d1. rewrite dget_dset_same.
           unfold rdok. splits; auto. rewrite FO1, OFF. auto.
      * rewrite cget_cput_other by exact NE. intros Q. destruct (rd_cache _ _ D i h Q) as [EX RD]. split.
        -- destruct (N.eq_dec i (m_cur m + 1)) as [E2|NE2]; [subst; rewrite G2; discriminate|].
           rewrite OTH by exact NE2. unfold d1. rewrite dget_dset_other by exact NE. exact EX.
        -- intros LT. assert (LT' : i < m_cur m) by (clear - LT NE; lia).
           rewrite OTH by (clear - LT'; lia). unfold d1. rewrite dget_dset_other by exact NE.
           apply RD. exact LT'.
  - (* flags part *)
    destruct S3. destruct Fl.
    constructor; unfold m_with; cbn [m_ro m_closed m_meta m_app m_retry m_auto m_buf]; auto; try congruence;
      try (intros; congruence).
Qed.

Lemma m_append_loop_spec fuel : forall m a rest n off,
  Rm m a -> m_closed m = false -> m_ro m = false -> (length rest < fuel)%nat ->
  exists m', m_append_loop fuel m rest n off =
             (m', OApp (if (n =? 0) && (0 <? len rest) then l_size a else off) (n + len rest)) /\
             Rm m' (set_data a (l_data a ++ rest)).
Proof.
  induction fuel as [|fuel IH]; intros m a rest n off Rma MC MR LE; [lia|].
  cbn [m_append_loop].
  destruct (N.eqb_spec (len rest) 0) as [Z|NZ].
  { assert (rest = []) by (apply len_0_nil; auto). subst rest.
    exists m. change (len []) with 0. rewrite N.add_0_r, andb_false_r, app_nil_r, set_data_id. split; auto. }
  assert (LR : 0 < len rest) by (clear - NZ; lia).
  pose proof Rma as [D Fl]. pose proof (rd_fs _ _ D) as FS. pose proof (rd_off _ _ D) as OF.
  (* after the optional rotation: a state with room in the current chunk *)
  assert (exists m1 avail, (if m_fs m <=? h_offset (m_app m)
                            then let '(m', e) := m_rotate m in (m', m_fs m, e)
                            else (m, m_fs m - h_offset (m_app m), false)) = (m1, avail, false) /\
            Rm m1 a /\ m_closed m1 = false /\ m_ro m1 = false /\ 0 < avail /\
            h_offset (m_app m1) + avail = m_fs m1 /\ m_fs m1 = m_fs m)
    as (m1 & avail & E1 & R1 & MC1 & MR1 & AV & FIT & FS1).
  { destruct (N.leb_spec (m_fs m) (h_offset (m_app m))) as [FULL|ROOM].
    - destruct (rotate_spec m a Rma MC MR FULL) as (m1 & ER & R1 & C1 & O1 & F1 & MC1 & MR1).
      exists m1, (m_fs m). rewrite ER. splits; auto. rewrite O1, F1. clear. lia.
    - exists m, (m_fs m - h_offset (m_app m)). splits; auto; clear - ROOM; lia. }
  rewrite E1. cbn iota.
  set (d := N.min avail (len rest)).
  assert (DP : 0 < d) by (unfold d; clear - AV LR; lia).
  assert (DL : len (take d rest) = d) by (rewrite len_take; unfold d; clear; lia).
  destruct (h_append (m_app m1) (cur_file m1) (take d rest)) as [[h' F'] x] eqn:EA.
  assert (LT : 0 < len (take d rest)) by (rewrite DL; exact DP).
  assert (FT : h_offset (m_app m1) + len (take d rest) <= m_fs m1) by (rewrite DL; unfold d; clear - FIT; lia).
  destruct (inner_append m1 a (take d rest) h' F' x R1 MC1 MR1 LT FT EA) as [X R2].
  subst x.
  set (m2 := m_upd_cur m1 h' F') in *.
  assert (MC2 : m_closed m2 = false) by exact MC1.
  assert (MR2 : m_ro m2 = false) by exact MR1.
  assert (LE2 : (length (drop d rest) < fuel)%nat).
  { unfold drop. rewrite skipn_length. assert (0 < N.to_nat d)%nat by (clear - DP; lia).
    assert (length rest <> 0)%nat by (unfold len in LR; clear - LR; lia). clear - LE H H0. lia. }
  destruct (IH m2 _ (drop d rest) (n + d)
              (if n =? 0 then h_offset (m_app m1) + m_cur m2 * m_fs m2 else off) R2 MC2 MR2 LE2)
    as (m' & EL & R').
  exists m'. rewrite EL. split.
  - f_equal. f_equal.
    + replace (n + d =? 0) with false by (symmetry; apply N.eqb_neq; clear - DP; lia). cbn [andb].
      replace (0 <? len rest) with true by (symmetry; apply N.ltb_lt; exact LR). rewrite andb_true_r.
      destruct (n =? 0); auto.
      pose proof R1 as [D1 _]. rewrite (Rd_size _ _ D1). unfold m_offset. change (m_cur m2) with (m_cur m1).
      change (m_fs m2) with (m_fs m1). clear. lia.
    + rewrite len_drop. unfold d. clear. lia.
  - cbn [set_data l_data] in R'. rewrite set_data_twice in R'.
    rewrite <- app_assoc, take_drop_cat in R'. exact R'.
Qed.

Lemma msim_append m a bs : Rm m a -> l_chaos a = false -> mstep_ok m a (Append bs).
Proof.
  intros Rma CH. pose proof Rma as [D Fl].
  unfold mstep_ok, m_step, spec_step, m_append. rewrite CH.
  rewrite (rf_closed _ _ Fl), (rf_ro _ _ Fl), (rf_cap _ _ Fl).
  destruct (m_closed m) eqn:MC; cbn [orb]; [split; [apply om_refl|right; split; auto]|].
  destruct (m_ro m) eqn:MR; cbn [orb]; [split; [apply om_refl|right; split; auto]|].
  destruct (N.eqb_spec (len bs) 0) as [Z|NZ]; [split; [apply om_refl|right; split; auto]|].
  assert (LE : (length bs < S (length bs))%nat) by lia.
  destruct (m_append_loop_spec _ m a bs 0 0 Rma MC MR LE) as (m' & EL & R').
  rewrite EL. rewrite N.eqb_refl. cbn [andb].
  replace (0 <? len bs) with true by (symmetry; apply N.ltb_lt; clear - NZ; lia).
  rewrite N.add_0_l. split; [apply om_refl|]. right. split; auto.
Qed.

(* ---------- SetOffset ---------- *)
Lemma dset_same d i F : dget d i = Some F -> dset d i F = d.
Proof.
  induction d as [|[j G] d IH]; simpl; [discriminate|].
  destruct (N.eqb_spec j i); intros H.
  - congruence.
  - rewrite IH; auto.
Qed.

Lemma Rm_marks m a x y : Rm m a -> Rm m (set_marks a x y).
Proof.
  intros [[] []]. split; constructor; lsimp; auto.
Qed.

Lemma mod_sub_chunk off fs c : 0 < fs -> c * fs <= off -> off < (c + 1) * fs -> off / fs = c /\ off mod fs = off - c * fs.
Proof.
  intros FS L1 L2.
  assert (off / fs = c).
  { symmetry. apply (N.div_unique off fs c (off - c * fs)); lia. }
  split; auto. pose proof (N.div_mod off fs). rewrite H in H0. lia.
Qed.

Lemma msim_setoffset m a off : Rm m a -> l_chaos a = false -> mstep_ok m a (SetOffset off).
Proof.
  intros Rma CH. pose proof Rma as [D Fl].
  unfold mstep_ok, m_step, spec_step. rewrite CH.
  destruct (m_setoffset m off) as [m' x] eqn:EM. unfold m_setoffset in EM.
  rewrite (rf_closed _ _ Fl), (rf_ro _ _ Fl), (Rd_size _ _ D).
  destruct (m_closed m) eqn:MC; cbn [orb].
  { assert (m' = m) by congruence. assert (x = OErr) by congruence. subst. split; [apply om_refl|right; split; auto]. }
  destruct (m_ro m) eqn:MR; cbn [orb].
  { assert (m' = m) by congruence. assert (x = OErr) by congruence. subst. split; [apply om_refl|right; split; auto]. }
  destruct (N.ltb_spec (m_offset m) off) as [GT|LE].
  { assert (m' = m) by congruence. assert (x = OErr) by congruence. subst. split; [apply om_refl|right; split; auto]. }
  destruct (N.eqb_spec off (m_offset m)) as [EQ|NE].
  { assert (m' = m) by congruence. assert (x = OOk) by congruence. subst m' x. split; [apply om_refl|right; split; auto]. }
  destruct (N.ltb_spec off (l_disc a)) as [DS|DS].
  { split; [left; reflexivity|left; reflexivity]. }
  cbn zeta.
  (* both branches of the specification differ in the marks only *)
  assert (GOAL : x = OOk /\ Rm m' (set_data a (take off (l_data a)))).
  2:{ destruct GOAL as [X R']. subst x.
      destruct (l_fl a <=? off); (split; [apply om_refl|right; split; auto]). apply Rm_marks. exact R'. }
  pose proof (rd_fs _ _ D) as FS. pose proof (rd_wf _ _ D) as W. pose proof (rd_len _ _ D) as LN.
  pose proof (Rd_size _ _ D) as SZ. unfold l_size in SZ.
  pose proof (rd_off _ _ D) as OF.
  assert (OLT : off < m_offset m) by (clear - LE NE; lia).
  assert (ACL : h_closed (m_app m) = false) by (rewrite (rf_acl _ _ Fl); auto).
  assert (ARO : h_ro (m_app m) = false) by (rewrite (rf_aro _ _ Fl); auto).
  destruct (N.eqb_spec (m_cur m) (off / m_fs m)) as [SAME|DIFF].
  - (* within the current chunk *)
    assert (CL : m_cur m * m_fs m <= off).
    { rewrite SAME. rewrite N.mul_comm. apply N.mul_div_le. clear - FS. lia. }
    assert (CU : off < (m_cur m + 1) * m_fs m) by (unfold m_offset in OLT; clear - OLT OF; lia).
    destruct (mod_sub_chunk off (m_fs m) (m_cur m) FS CL CU) as [_ MOD]. rewrite MOD in EM.
    destruct (h_setoffset (m_app m) (off - m_cur m * m_fs m)) as [h' x'] eqn:ES.
    assert (m' = m_with m (m_disk m) (m_cur m) h' (m_cache m)) by congruence. assert (x = x') by congruence. subst m' x.
    destruct (h_setoffset_spec _ _ _ _ _ W ACL ARO ES) as [(LT & _)|(_ & X & W' & C' & S' & _)].
    { exfalso. unfold m_offset in OLT. clear - LT OLT CL. lia. }
    split; auto.
    assert (MU : m_with m (m_disk m) (m_cur m) h' (m_cache m) = m_upd_cur m h' (cur_file m)).
    { unfold m_upd_cur. f_equal. symmetry. apply dset_same. unfold cur_file, m_file.
      pose proof (rd_ex _ _ D). destruct (dget (m_disk m) (m_cur m)); congruence. }
    rewrite MU.
    assert (OF' : h_offset h' = off - m_cur m * m_fs m).
    { rewrite <- (len_content _ _ W'), C', len_take, (len_content _ _ W). unfold m_offset in OLT. clear - OLT CL. lia. }
    split.
    + apply (Rd_upd_cur m a); lsimp; auto.
      * apply (cur_file_len _ _ D).
      * rewrite OF'. clear - CU. lia.
      * rewrite len_take, SZ. clear - CL LE. lia.
      * rewrite drop_take, (rd_data _ _ D). symmetry. exact C'.
      * rewrite take_take. f_equal. clear - CL. lia.
      * clear. lia.
    + apply (Rf_upd_cur m a); auto. intros; congruence.
  - (* into an earlier chunk *)
    set (id := off / m_fs m) in *.
    assert (IL : id * m_fs m <= off) by (unfold id; rewrite N.mul_comm; apply N.mul_div_le; clear - FS; lia).
    assert (IU : off < (id + 1) * m_fs m).
    { unfold id. pose proof (N.mod_lt off (m_fs m)). pose proof (N.div_mod off (m_fs m)). clear - H H0 FS. lia. }
    assert (ILT : id < m_cur m).
    { unfold m_offset in OLT. assert (id <= m_cur m) by (clear - IL OLT OF FS; nia). clear - H DIFF. lia. }
    destruct (mod_sub_chunk off (m_fs m) id FS IL IU) as [_ MOD]. rewrite MOD in EM.
    destruct (h_close (m_app m) (cur_file m)) as [[h1 F1] x1] eqn:EC.
    destruct (h_close_spec _ _ _ _ _ W ACL EC) as (X1 & W1 & C1 & _).
    subst x1.
    assert (LF1 : len F1 <= m_fs m).
    { pose proof (cur_file_len _ _ D) as LC.
      destruct (h_close_len _ _ _ _ _ W EC) as [L|L]; [rewrite L; clear - LC OF; lia|subst; auto]. }
    pose proof (rd_old _ _ D id ILT) as OLD.
    destruct (dget (m_disk m) id) as [Fi|] eqn:GI; [|exfalso; clear - OLD DS IU; lia].
    assert (GI1 : dget (dset (m_disk m) (m_cur m) F1) id = Some Fi).
    { rewrite dget_dset_other by (clear - ILT; lia). exact GI. }
    unfold m_open_chunk in EM. rewrite GI1 in EM.
    set (h2 := h_open Fi (m_oopts m true)) in *.
    assert (BUF : 0 < m_buf m) by (apply (rf_buf _ _ Fl); auto).
    assert (W2 : hwf h2 Fi).
    { unfold h2, m_oopts. rewrite MR. cbn [andb negb]. apply h_open_wf_rw. exact BUF. }
    assert (CL2 : h_closed h2 = false) by reflexivity.
    assert (RO2 : h_ro h2 = false) by (unfold h2, m_oopts, h_open; cbn [h_ro o_ro]; exact MR).
    assert (LFi : len Fi = m_fs m).
    { rewrite OLD, len_slice. assert ((id + 1) * m_fs m <= len (l_data a)) by (clear - ILT LN; nia).
      clear - H. lia. }
    destruct (h_setoffset h2 (off - id * m_fs m)) as [h3 x3] eqn:E3.
    assert (m' = m_with m (dset (m_disk m) (m_cur m) F1) id h3 (cdrop_range (m_cache m) id (m_cur m))) by congruence.
    assert (x = x3) by congruence. subst m' x.
    assert (O2 : h_offset h2 = m_fs m) by (unfold h2, h_offset, h_open; cbn [h_fo h_uw h_fl]; rewrite LFi; clear; lia).
    destruct (h_setoffset_spec _ _ _ _ _ W2 CL2 RO2 E3) as [(LT & _)|(_ & X & W3 & C3 & S3 & _)].
    { exfalso. rewrite O2 in LT. clear - LT IU. lia. }
    split; auto.
    assert (CO2 : content h2 Fi = Fi) by apply content_open.
    rewrite CO2 in C3.
    assert (O3 : h_offset h3 = off - id * m_fs m).
    { rewrite <- (len_content _ _ W3), C3, len_take, LFi. clear - IU. lia. }
    split.
    + constructor; unfold m_with, cur_file, m_file; cbn [m_disk m_cur m_app m_cache m_fs]; lsimp; auto.
      * rewrite GI1. exact W3.
      * rewrite GI1. discriminate.
      * rewrite O3. clear - IU. lia.
      * intros i F. destruct (N.eq_dec (m_cur m) i) as [E|NE2].
        -- subst. rewrite dget_dset_same. intros Q. assert (F = F1) by congruence. subst. exact LF1.
        -- rewrite dget_dset_other by exact NE2. apply (rd_lenF _ _ D).
      * rewrite len_take, SZ. clear - IL LE. lia.
      * rewrite GI1, C3, OLD, drop_take. unfold slice. rewrite take_take. f_equal. clear - IU. lia.
      * intros i LT. rewrite dget_dset_other by (clear - LT ILT; lia).
        assert (LT' : i < m_cur m) by (clear - LT ILT; lia).
        pose proof (rd_old _ _ D i LT') as O. destruct (dget (m_disk m) i); auto.
        rewrite O. symmetry. apply slice_take. clear - LT IL. nia.
      * intros i h. unfold cdrop_range. rewrite cget_filter.
        destruct ((id <=? i) && (i <? m_cur m)) eqn:RG; cbn [negb]; [discriminate|].
        intros Q. destruct (rd_cache _ _ D i h Q) as [EX RD]. split.
        -- destruct (N.eq_dec (m_cur m) i) as [E|NE2]; [subst; rewrite dget_dset_same; discriminate|].
           rewrite dget_dset_other by exact NE2. exact EX.
        -- intros LT. rewrite dget_dset_other by (clear - LT ILT; lia). apply RD. clear - LT ILT. lia.
    + destruct S3. destruct Fl.
      constructor; unfold m_with; cbn [m_ro m_closed m_meta m_app m_retry m_auto m_buf]; lsimp; auto; try congruence;
        try (intros; congruence).
Qed.

(* ---------- Reopen ---------- *)
Lemma existsb_false {A} (f : A -> bool) l : existsb f l = false -> forall x, In x l -> f x = false.
Proof.
  intros H x I. destruct (f x) eqn:E; auto.
  assert (existsb f l = true) by (apply existsb_exists; eauto). congruence.
Qed.

Lemma not_dirty m : m_dirty m = false ->
  (forall i F, In (i, F) (m_disk m) -> i <= m_cur m) /\ h_tail (m_app m) (cur_file m) = false.
Proof.
  unfold m_dirty. intros H. apply orb_false_elim in H as [H1 H2]. split; auto.
  intros i F I. pose proof (existsb_false _ _ H1 (i, F) I) as Q. cbn in Q. apply N.ltb_ge in Q. exact Q.
Qed.

Definition nocap (o : oopts) : bool := negb (o_retry o && negb (o_auto o)).

Lemma msim_reopen m a o :
  Rm m a -> l_chaos a = false -> m_risky m (Reopen o) = false -> nocap o = true -> mstep_ok m a (Reopen o).
Proof.
  intros Rma CH NRK NC. pose proof Rma as [D Fl].
  unfold mstep_ok, m_step, spec_step. rewrite CH, (rf_closed _ _ Fl).
  destruct (m_closed m) eqn:MC; cbn [negb]; [|split; [apply om_refl|right; split; auto]].
  destruct (opts_valid o) eqn:OV; cbn [negb]; [|split; [apply om_refl|right; split; auto]].
  split; [apply om_refl|]. right. split; auto.
  cbn [m_risky] in NRK. rewrite MC in NRK. cbn [andb] in NRK.
  destruct (not_dirty _ NRK) as [MAXI NT].
  pose proof (rd_ex _ _ D) as EX.
  assert (DM : dmax (m_disk m) = Some (m_cur m)) by (apply dmax_spec; auto).
  unfold m_reopen. rewrite DM. unfold m_open_chunk.
  destruct (dget (m_disk m) (m_cur m)) as [F|] eqn:G; [|congruence].
  assert (CF : cur_file m = F) by (unfold cur_file, m_file; rewrite G; reflexivity).
  pose proof (rd_wf _ _ D) as W. rewrite CF in *.
  unfold h_tail in NT. apply N.ltb_ge in NT. pose proof (wf_fo _ _ W) as FL.
  assert (EF : h_fo (m_app m) = len F) by (clear - NT FL; lia).
  assert (CO : content (m_app m) F = F).
  { unfold content. rewrite (rf_cl _ _ Fl MC), EF, take_all, slice_empty by (clear; lia). apply app_nil_r. }
  set (oo := m_oopts _ true).
  assert (OO : oo = ro_nobuf o).
  { unfold oo, m_oopts, ro_nobuf. cbn [m_ro m_buf m_retry m_auto andb]. destruct (o_ro o); reflexivity. }
  rewrite OO.
  pose proof (h_open_wf F o OV) as WO.
  pose proof (content_open F (ro_nobuf o)) as COO.
  split.
  - destruct D. rewrite CF in *. constructor; unfold m_with, cur_file, m_file; cbn [m_disk m_cur m_app m_cache m_fs cget]; auto.
    + rewrite G. exact WO.
    + rewrite <- (len_content _ _ WO), COO. eapply rd_lenF0; eauto.
    + rewrite G, COO, <- CO. exact rd_data0.
    + intros; discriminate.
  - destruct Fl. unfold nocap in NC. apply negb_true_iff in NC.
    constructor; unfold m_with; cbn [m_ro m_closed m_meta m_app m_retry m_auto m_buf]; lsimp; auto; try reflexivity.
    + unfold cap_of. rewrite NC. reflexivity.
    + intros RF. unfold opts_valid in OV. rewrite RF in OV. cbn [orb] in OV. apply N.ltb_lt in OV. exact OV.
Qed.

(* Open on a directory whose files are those of m: nothing stale, current chunk file ends at its
   fileOffset and nothing is buffered *)
Lemma reopen_core m a o :
  Rd m a -> l_meta a = m_meta m ->
  m_stale m = false -> h_fo (m_app m) = len (cur_file m) -> h_uw (m_app m) = h_fl (m_app m) ->
  opts_valid o = true -> nocap o = true ->
  Rm (m_reopen m o)
     (mklog (l_data a) (o_ro o) false (l_meta a) (cap_of o) (l_size a) (l_size a) (l_disc a) false).
Proof.
  intros D ME ST EF U OV NC.
  assert (MAXI : forall i F, In (i, F) (m_disk m) -> i <= m_cur m).
  { unfold m_stale in ST. intros i F I. pose proof (existsb_false _ _ ST (i, F) I) as Q. cbn in Q.
    apply N.ltb_ge in Q. exact Q. }
  pose proof (rd_ex _ _ D) as EX.
  assert (DM : dmax (m_disk m) = Some (m_cur m)) by (apply dmax_spec; auto).
  unfold m_reopen. rewrite DM. unfold m_open_chunk.
  destruct (dget (m_disk m) (m_cur m)) as [F|] eqn:G; [|congruence].
  assert (CF : cur_file m = F) by (unfold cur_file, m_file; rewrite G; reflexivity).
  pose proof (rd_wf _ _ D) as W. rewrite CF in *.
  assert (CO : content (m_app m) F = F).
  { unfold content. rewrite U, EF, take_all, slice_empty by (clear; lia). apply app_nil_r. }
  set (oo := m_oopts _ true).
  assert (OO : oo = ro_nobuf o).
  { unfold oo, m_oopts, ro_nobuf. cbn [m_ro m_buf m_retry m_auto andb]. destruct (o_ro o); reflexivity. }
  rewrite OO.
  pose proof (h_open_wf F o OV) as WO.
  pose proof (content_open F (ro_nobuf o)) as COO.
  split.
  - destruct D. rewrite CF in *. constructor; unfold m_with, cur_file, m_file; cbn [m_disk m_cur m_app m_cache m_fs cget]; lsimp; auto.
    + rewrite G. exact WO.
    + rewrite <- (len_content _ _ WO), COO. eapply rd_lenF0; eauto.
    + rewrite G, COO, <- CO. exact rd_data0.
    + intros; discriminate.
  - unfold nocap in NC. apply negb_true_iff in NC.
    constructor; unfold m_with; cbn [m_ro m_closed m_meta m_app m_retry m_auto m_buf]; lsimp; auto; try reflexivity.
    + unfold cap_of. rewrite NC. reflexivity.
    + intros RF. unfold opts_valid in OV. rewrite RF in OV. cbn [orb] in OV. apply N.ltb_lt in OV. exact OV.
Qed.
