(* C17 — abstract specification of an appendable: ONE growable byte array (plus the offsets the
   retryable-sync mode needs to say when the write buffer is full).  No files, no buffers, no chunks.
   This file contains definitions only. *)
From V Require Export Base.Bytes.

(* options given to Open: read-only, write-buffer size, retryableSync, autoSync *)
Record oopts := mko { o_ro : bool; o_buf : N; o_retry : bool; o_auto : bool }.

(* operations of appendable.Appendable that are modelled (compression is not) *)
Inductive op :=
| Append (bs : bytes)
| ReadAt (n off : N)          (* ReadAt(make([]byte, n), off) *)
| SetOffset (off : N)
| Flush
| Sync
| Size
| Offset
| Discard (off : N)           (* DiscardUpto *)
| SwitchRO                    (* SwitchToReadOnlyMode *)
| Close
| Reopen (o : oopts)          (* Open of the same path; only issued on a closed appendable *)
| Meta                        (* Metadata() *)
| Copy.                       (* Copy(dst), then the copy is opened read-only and read completely *)

(* observable results.  Error values are reduced to: io.EOF on reads (part of ORead),
   ErrBufferFull (OFull, because it leaves a partial append behind) and "some other error" *)
Inductive out :=
| OErr
| OOk
| OApp (off n : N)            (* Append: offset, bytes written, nil *)
| OFull (off n : N)           (* Append: offset, bytes written, ErrBufferFull *)
| ORead (bs : bytes) (eof : bool) (* ReadAt: the n returned bytes, err == io.EOF *)
| ON (n : N)                  (* Size / Offset *)
| OBytes (b : bytes)          (* Metadata *)
| OCopy (b : bytes)           (* Copy succeeded; b = everything a read-only Open of the copy holds *)
| OAny.                       (* produced by the SPECIFICATION only: result left unspecified *)

Definition slice (b : bytes) (i j : N) : bytes := take (j - i) (drop i b).

(* when retryableSync is on and autoSync is off, Append stops with ErrBufferFull when the bytes
   appended since the last successful Sync fill the write buffer *)
Definition cap_of (o : oopts) : option N :=
  if o_retry o && negb (o_auto o) then Some (o_buf o) else None.

Definition opts_valid (o : oopts) : bool := o_ro o || (0 <? o_buf o).

Record log := mklog {
  l_data : bytes;        (* THE byte array *)
  l_ro : bool;
  l_closed : bool;
  l_meta : bytes;
  l_cap : option N;      (* Some B in the ErrBufferFull mode *)
  l_sy : N;              (* size at the last Sync (lowered by rewinds) — only used with l_cap *)
  l_fl : N;              (* size at the last Flush/Sync (lowered by rewinds) — only used with l_cap *)
  l_disc : N;            (* highest offset passed to a successful DiscardUpto *)
  l_chaos : bool         (* set by SetOffset below l_disc: everything is unspecified afterwards *)
}.

Definition l_size (a : log) : N := len (l_data a).

Definition log_init (data meta : bytes) (o : oopts) : log :=
  mklog data (o_ro o) false meta (cap_of o) (len data) (len data) 0 false.

Definition set_data (a : log) (d : bytes) : log :=
  mklog d (l_ro a) (l_closed a) (l_meta a) (l_cap a) (l_sy a) (l_fl a) (l_disc a) (l_chaos a).
Definition set_marks (a : log) (sy fl : N) : log :=
  mklog (l_data a) (l_ro a) (l_closed a) (l_meta a) (l_cap a) sy fl (l_disc a) (l_chaos a).

Definition spec_step (a : log) (o : op) : log * out :=
  if l_chaos a then (a, OAny) else
  match o with
  | Append bs =>
      if l_closed a || l_ro a || (len bs =? 0) then (a, OErr) else
      match l_cap a with
      | None => (set_data a (l_data a ++ bs), OApp (l_size a) (len bs))
      | Some B =>
          let avail := B - (l_size a - l_sy a) in
          if len bs <=? avail then (set_data a (l_data a ++ bs), OApp (l_size a) (len bs))
          else (set_data a (l_data a ++ take avail bs), OFull (l_size a) avail)
      end
  | ReadAt n off =>
      if l_closed a then (a, OErr)
      else if (off <? l_disc a) || (n =? 0) then (a, OAny)
      else if l_size a <? off then (a, ORead [] true)
      else let k := N.min n (l_size a - off) in (a, ORead (slice (l_data a) off (off + k)) (k <? n))
  | SetOffset off =>
      if l_closed a || l_ro a || (l_size a <? off) then (a, OErr)
      else if off =? l_size a then (a, OOk)
      else if off <? l_disc a then
        (mklog (l_data a) (l_ro a) (l_closed a) (l_meta a) (l_cap a) (l_sy a) (l_fl a) (l_disc a) true, OAny)
      else
        let a' := set_data a (take off (l_data a)) in
        if l_fl a <=? off then (a', OOk) else (set_marks a' off off, OOk)
  | Flush =>
      if l_closed a || l_ro a then (a, OErr) else (set_marks a (l_sy a) (l_size a), OOk)
  | Sync =>
      if l_closed a || l_ro a then (a, OErr) else (set_marks a (l_size a) (l_size a), OOk)
  | Size => if l_closed a then (a, OErr) else (a, ON (l_size a))
  | Offset => (a, ON (l_size a))
  | Discard off =>
      if l_closed a || (l_size a <? off) then (a, OErr)
      else (mklog (l_data a) (l_ro a) (l_closed a) (l_meta a) (l_cap a) (l_sy a) (l_fl a)
                  (N.max (l_disc a) off) (l_chaos a), OOk)
  | SwitchRO =>
      if l_closed a || l_ro a then (a, OErr)
      else (mklog (l_data a) true false (l_meta a) (l_cap a) (l_size a) (l_size a) (l_disc a) false, OOk)
  | Close =>
      if l_closed a then (a, OErr)
      else (mklog (l_data a) (l_ro a) true (l_meta a) (l_cap a) (l_sy a)
                  (if l_ro a then l_fl a else l_size a) (l_disc a) false, OOk)
  | Reopen o =>
      if negb (l_closed a) then (a, OErr)
      else if negb (opts_valid o) then (a, OErr)      (* Options.Validate: a writer needs a buffer *)
      else (mklog (l_data a) (o_ro o) false (l_meta a) (cap_of o) (l_size a) (l_size a) (l_disc a) false, OOk)
  | Meta => (a, OBytes (l_meta a))
  | Copy =>
      (* the copy holds the byte array (Copy flushes first); after a DiscardUpto its prefix is unspecified *)
      if l_closed a then (a, OErr)
      else (set_marks a (l_sy a) (l_size a), if 0 <? l_disc a then OAny else OCopy (l_data a))
  end.

Fixpoint spec_run (a : log) (ops : list op) : list out :=
  match ops with
  | [] => []
  | o :: r => let (a', x) := spec_step a o in x :: spec_run a' r
  end.

Fixpoint spec_state (a : log) (ops : list op) : log :=
  match ops with
  | [] => a
  | o :: r => spec_state (fst (spec_step a o)) r
  end.

(* an implementation output is acceptable when the specification leaves it open or it is equal *)
Definition out_match (impl spec : out) : Prop := spec = OAny \/ impl = spec.

(* weaker, for Copy only: the copy starts with exactly the byte array (it may carry more bytes) *)
Definition out_match_c (impl spec : out) : Prop :=
  out_match impl spec \/ exists bs t, impl = OCopy (bs ++ t) /\ spec = OCopy bs.
