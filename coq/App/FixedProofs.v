(* C17 — proofs about the models of the code since 09014a8 (App/Fixed.v): with SetOffset truncating the
   file (and multiapp removing the later chunk files) no stale byte ever exists, so the refinement
   of the byte-array specification holds for EVERY operation sequence, reopen and Copy included.
   (For preallocated files the repair changes nothing and the theorems of SingleSim / MultiSim apply.) *)
From V Require Import Base.Bytes App.Spec App.Single App.ListN App.SingleProofs App.SingleSim.
From V Require Import App.Multi App.MultiProofs App.MultiRead App.MultiSim App.Fixed.
From Coq Require Import ZifyN ZifyNat ZifyBool.

(* ================= singleapp ================= *)
(* "no tail": the file ends at fileOffset *)
Definition notail (h : hnd) (F : bytes) : Prop := len F = h_fo h.

Lemma h_flush_T h F h' F' : hwf h F -> notail h F -> h_flush h F = (h', F') -> notail h' F'.
Proof.
  intros W T E. unfold notail in *.
  pose proof (h_flush_len _ _ _ _ W E) as L.
  destruct (h_flush_spec _ _ _ _ W E) as (_ & _ & _ & FO & _).
  rewrite L, FO, T. unfold h_offset. lia.
Qed.

Lemma h_sync_T h F h' F' : hwf h F -> notail h F -> h_sync h F = (h', F') -> notail h' F'.
Proof.
  intros W T E. unfold notail in *.
  pose proof (h_sync_len _ _ _ _ W E) as L.
  destruct (h_sync_spec _ _ _ _ W E) as (_ & _ & _ & FO & _).
  rewrite L, FO, T. unfold h_offset. lia.
Qed.

Lemma h_write_step_T h F rest h2 F2 k :
  hwf h F -> notail h F -> h_write_step h F rest = Some (h2, F2, k) -> notail h2 F2.
Proof.
  intros W T E. unfold h_write_step in E.
  destruct ((len (h_wbuf h) - h_uw h =? 0) && h_retry h && negb (h_auto h)); [discriminate|].
  destruct (len (h_wbuf h) - h_uw h =? 0).
  - destruct (h_retry h).
    + destruct (h_sync h F) as [h1 F1] eqn:ES. pose proof (h_sync_T _ _ _ _ W T ES) as T1.
      assert (F2 = F1) by congruence. subst F2.
      assert (FO : h_fo h2 = h_fo h1) by (inversion E; reflexivity). unfold notail in *. congruence.
    + destruct (h_flush h F) as [h1 F1] eqn:ES. pose proof (h_flush_T _ _ _ _ W T ES) as T1.
      assert (F2 = F1) by congruence. subst F2.
      assert (FO : h_fo h2 = h_fo h1) by (inversion E; reflexivity). unfold notail in *. congruence.
  - assert (F2 = F) by congruence. subst F2.
    assert (FO : h_fo h2 = h_fo h) by (inversion E; reflexivity). unfold notail in *. congruence.
Qed.

Lemma h_write_T fuel : forall h F rest n h' F' n' full,
  hwf h F -> h_ro h = false -> notail h F ->
  h_write fuel h F rest n = (h', F', n', full) -> notail h' F'.
Proof.
  induction fuel as [|fuel IH]; intros h F rest n h' F' n' full W RO T E.
  - simpl in E. assert (h' = h) by congruence. assert (F' = F) by congruence. subst. exact T.
  - cbn [h_write] in E.
    destruct (N.eqb_spec (len rest) 0) as [Z|NZ];
      [assert (h' = h) by congruence; assert (F' = F) by congruence; subst; exact T|].
    assert (LR : 0 < len rest) by (clear - NZ; lia).
    pose proof (h_write_step_spec h F rest W RO LR) as ST.
    destruct (h_write_step h F rest) as [[[h2 F2] k]|] eqn:ES;
      [|assert (h' = h) by congruence; assert (F' = F) by congruence; subst; exact T].
    destruct ST as (W2 & _ & S2 & _).
    assert (RO2 : h_ro h2 = false) by (destruct S2; congruence).
    exact (IH h2 F2 (drop k rest) (n + k) h' F' n' full W2 RO2 (h_write_step_T _ _ _ _ _ _ W T ES) E).
Qed.

Lemma h_append_T h F bs h' F' x :
  hwf h F -> notail h F -> h_append h F bs = (h', F', x) -> notail h' F'.
Proof.
  intros W T E. unfold h_append in E.
  destruct (h_closed h); [assert (h' = h) by congruence; assert (F' = F) by congruence; subst; exact T|].
  destruct (h_ro h) eqn:RO; [assert (h' = h) by congruence; assert (F' = F) by congruence; subst; exact T|].
  destruct (len bs =? 0); [assert (h' = h) by congruence; assert (F' = F) by congruence; subst; exact T|].
  destruct (h_write (length bs) h F bs 0) as [[[h1 F1] n1] full] eqn:EW.
  assert (h' = h1) by congruence. assert (F' = F1) by congruence. subst.
  eapply h_write_T; eauto.
Qed.

Lemma h_switch_ro_T h F h' F' x :
  hwf h F -> notail h F -> h_switch_ro h F = (h', F', x) -> notail h' F'.
Proof.
  intros W T E. unfold h_switch_ro in E.
  destruct (h_closed h); [assert (h' = h) by congruence; assert (F' = F) by congruence; subst; exact T|].
  destruct (h_ro h); [assert (h' = h) by congruence; assert (F' = F) by congruence; subst; exact T|].
  destruct (h_flush h F) as [h1 F1] eqn:EF.
  pose proof (h_flush_T _ _ _ _ W T EF) as T1.
  destruct (h_flush_spec _ _ _ _ W EF) as (W1 & _).
  destruct (h_retry h1).
  - destruct (h_sync h1 F1) as [h2 F2] eqn:ES. pose proof (h_sync_T _ _ _ _ W1 T1 ES) as T2.
    assert (F' = F2) by congruence. subst F'.
    assert (FO : h_fo h' = h_fo h2) by (inversion E; reflexivity). unfold notail in *. congruence.
  - assert (F' = F1) by congruence. subst F'.
    assert (FO : h_fo h' = h_fo h1) by (inversion E; reflexivity). unfold notail in *. congruence.
Qed.

Lemma h_close_T h F h' F' x :
  hwf h F -> notail h F -> h_close h F = (h', F', x) -> notail h' F'.
Proof.
  intros W T E. unfold h_close in E.
  destruct (h_closed h); [assert (h' = h) by congruence; assert (F' = F) by congruence; subst; exact T|].
  destruct (h_ro h).
  - assert (F' = F) by congruence. subst F'.
    assert (FO : h_fo h' = h_fo h) by (inversion E; reflexivity). unfold notail in *. congruence.
  - destruct (h_flush h F) as [h1 F1] eqn:EF. pose proof (h_flush_T _ _ _ _ W T EF) as T1.
    assert (F' = F1) by congruence. subst F'.
    assert (FO : h_fo h' = h_fo h1) by (inversion E; reflexivity). unfold notail in *. congruence.
Qed.

Lemma h_copy_T h F h' F' x :
  hwf h F -> notail h F -> h_copy h F = (h', F', x) -> notail h' F'.
Proof.
  intros W T E. unfold h_copy in E.
  destruct (h_closed h); [assert (h' = h) by congruence; assert (F' = F) by congruence; subst; exact T|].
  destruct (h_flush h F) as [h1 F1] eqn:EF. pose proof (h_flush_T _ _ _ _ W T EF) as T1.
  assert (F' = F1) by congruence. subst F'.
  assert (FO : h_fo h' = h_fo h1) by (inversion E; reflexivity). unfold notail in *. congruence.
Qed.

(* every operation other than SetOffset keeps "no tail" *)
Lemma s_step_T s o :
  hwf (s_h s) (s_file s) -> notail (s_h s) (s_file s) ->
  match o with SetOffset _ => False | _ => True end ->
  notail (s_h (fst (s_step s o))) (s_file (fst (s_step s o))).
Proof.
  intros W T NS. destruct o; try contradiction; cbn [s_step]; try exact T.
  - destruct (h_append (s_h s) (s_file s) bs) as [[h' F'] x] eqn:E. cbn [fst s_h s_file]. eapply h_append_T; eauto.
  - unfold h_flush_op. destruct (h_closed (s_h s)); [exact T|]. destruct (h_ro (s_h s)); [exact T|].
    destruct (h_flush (s_h s) (s_file s)) as [h' F'] eqn:E. cbn [fst s_h s_file]. eapply h_flush_T; eauto.
  - unfold h_sync_op. destruct (h_closed (s_h s)); [exact T|]. destruct (h_ro (s_h s)); [exact T|].
    destruct (h_sync (s_h s) (s_file s)) as [h' F'] eqn:E. cbn [fst s_h s_file]. eapply h_sync_T; eauto.
  - destruct (h_switch_ro (s_h s) (s_file s)) as [[h' F'] x] eqn:E. cbn [fst s_h s_file]. eapply h_switch_ro_T; eauto.
  - destruct (h_close (s_h s) (s_file s)) as [[h' F'] x] eqn:E. cbn [fst s_h s_file]. eapply h_close_T; eauto.
  - destruct (h_closed (s_h s)); [|exact T]. destruct (opts_valid o); [|exact T].
    cbn [fst s_h s_file]. reflexivity.
  - destruct (h_copy (s_h s) (s_file s)) as [[h' F'] x] eqn:E. cbn [fst s_h s_file]. eapply h_copy_T; eauto.
Qed.

Lemma notail_not_risky s o :
  hwf (s_h s) (s_file s) -> notail (s_h s) (s_file s) -> s_risky s o = false.
Proof.
  intros W T. unfold notail in T. destruct o; try reflexivity; cbn [s_risky].
  - unfold h_tail. rewrite T, N.ltb_irrefl. apply andb_false_r.
  - replace (h_offset (s_h s) <? len (s_file s)) with false; [apply andb_false_r|].
    symmetry. apply N.ltb_ge. rewrite T. unfold h_offset. lia.
Qed.

(* truncating the file at fileOffset changes neither the invariant nor the content *)
Lemma R_truncate h F m a :
  R (mks h F m) a -> R (mks h (take (h_fo h) F) m) a.
Proof.
  intros [W D RO CL M CP MK RC]. cbn [s_h s_file s_meta] in *.
  pose proof (wf_fo _ _ W) as FO.
  apply mkR'; auto.
  - destruct W. constructor; auto. rewrite len_take. lia.
  - rewrite D. unfold content. f_equal. rewrite take_take. f_equal. lia.
Qed.

Definition step_ok_fx (s : sapp) (a : log) (o : op) : Prop :=
  let '(s', x) := s_step_fx false s o in
  let '(a', y) := spec_step a o in
  out_match x y /\ (l_chaos a' = true \/
                    (l_chaos a' = false /\ R s' a' /\ notail (s_h s') (s_file s'))).

Lemma sim_step_fx s a o :
  R s a -> notail (s_h s) (s_file s) -> l_chaos a = false -> step_ok_fx s a o.
Proof.
  intros Rsa T CH. pose proof (r_wf _ _ Rsa) as W. unfold step_ok_fx.
  assert (OTHER : match o with SetOffset _ => False | _ => True end ->
                  let '(s', x) := s_step s o in let '(a', y) := spec_step a o in
                  out_match x y /\ (l_chaos a' = true \/ (l_chaos a' = false /\ R s' a' /\ notail (s_h s') (s_file s')))).
  { intros NS. pose proof (sim_step s a o Rsa CH (notail_not_risky s o W T)) as ST. unfold step_ok in ST.
    pose proof (s_step_T s o W T NS) as T'.
    destruct (s_step s o) as [s' x]. destruct (spec_step a o) as [a' y]. cbn [fst] in T'.
    destruct ST as [OM [C|[C R']]]; split; auto. }
  destruct o; try (apply OTHER; exact I).
  (* SetOffset *)
  pose proof (sim_setoffset s a off Rsa CH) as ST. unfold step_ok in ST.
  cbn [s_step_fx s_step] in *. cbn [negb andb].
  destruct (h_setoffset (s_h s) off) as [h' x] eqn:ES.
  destruct (spec_step a (SetOffset off)) as [a' y].
  destruct ST as [OM NX]. split; auto.
  destruct NX as [C|[C R']]; [left; exact C|]. right. split; auto.
  (* what the handle looks like afterwards *)
  assert (HF : (h' = s_h s) \/
               (x = OOk /\ ((h_fo (s_h s) <= off /\ h_fo h' = h_fo (s_h s)) \/ (off < h_fo (s_h s) /\ h_fo h' = off)))).
  { pose proof ES as E0. unfold h_setoffset in ES.
    destruct (h_closed (s_h s)) eqn:HC; [left; congruence|].
    destruct (h_ro (s_h s)) eqn:HR; [left; congruence|].
    destruct (h_setoffset_spec _ _ _ _ _ W HC HR E0) as [(_ & EH & _)|(_ & X & _ & _ & _ & IM & FI)]; [left; exact EH|].
    right. split; auto.
    destruct (N.le_gt_cases (h_fo (s_h s)) off) as [L|L].
    - left. split; auto. apply IM; auto.
    - right. split; auto. apply FI; auto. }
  unfold notail in T.
  destruct HF as [EH|(X & [[L FO]|[L FO]])].
  - subst h'.
    assert (NT : (off <? h_fo (s_h s)) && match x with OOk => true | _ => false end = false \/ True) by (right; exact I).
    destruct ((off <? h_fo (s_h s)) && match x with OOk => true | _ => false end) eqn:TR.
    + (* cannot happen: an unchanged handle means error or no-op at the current offset *)
      apply andb_prop in TR as [T1 T2]. apply N.ltb_lt in T1.
      split.
      * pose proof (R_truncate _ _ _ _ R') as RT. cbn [s_h s_file s_meta] in *.
        exfalso. destruct x; try discriminate.
        unfold h_setoffset in ES. destruct (h_closed (s_h s)); [discriminate|]. destruct (h_ro (s_h s)); [discriminate|].
        destruct (h_offset (s_h s) <? off); [discriminate|].
        destruct (N.eqb_spec off (h_offset (s_h s))) as [EQ|NE].
        { unfold h_offset in EQ. clear - EQ T1. lia. }
        destruct (N.leb_spec (h_fo (s_h s)) off) as [Q|Q]; [clear - Q T1; lia|].
        inversion ES. clear - H0 T1. assert (h_fo (s_h s) = off) by (rewrite <- H0 at 1; reflexivity). lia.
      * exfalso. destruct x; try discriminate.
        unfold h_setoffset in ES. destruct (h_closed (s_h s)); [discriminate|]. destruct (h_ro (s_h s)); [discriminate|].
        destruct (h_offset (s_h s) <? off); [discriminate|].
        destruct (N.eqb_spec off (h_offset (s_h s))) as [EQ|NE].
        { unfold h_offset in EQ. clear - EQ T1. lia. }
        destruct (N.leb_spec (h_fo (s_h s)) off) as [Q|Q]; [clear - Q T1; lia|].
        inversion ES. clear - H0 T1. assert (h_fo (s_h s) = off) by (rewrite <- H0 at 1; reflexivity). lia.
    + split; auto.
  - replace (off <? h_fo (s_h s)) with false by (symmetry; apply N.ltb_ge; exact L). cbn [andb].
    split; auto. unfold notail; cbn [s_h s_file]. congruence.
  - subst x. replace (off <? h_fo (s_h s)) with true by (symmetry; apply N.ltb_lt; exact L). cbn [andb].
    pose proof (R_truncate _ _ _ _ R') as RT. rewrite FO in RT. split; auto.
    unfold notail; cbn [s_h s_file]. rewrite len_take, FO. clear - L T. lia.
Qed.

Lemma single_fixed_gen : forall ops s a,
  (l_chaos a = true \/ (l_chaos a = false /\ R s a /\ notail (s_h s) (s_file s))) ->
  Forall2 out_match (s_run_fx false s ops) (spec_run a ops).
Proof.
  induction ops as [|o ops IH]; intros s a H; cbn [s_run_fx spec_run]; [constructor|].
  destruct H as [CH|(CH & Rsa & T)].
  - destruct (s_step_fx false s o) as [s' x] eqn:ES.
    assert (SP : spec_step a o = (a, OAny)) by (unfold spec_step; rewrite CH; reflexivity).
    rewrite SP. constructor; [left; reflexivity|]. apply IH; auto.
  - pose proof (sim_step_fx s a o Rsa T CH) as ST. unfold step_ok_fx in ST.
    destruct (s_step_fx false s o) as [s' x] eqn:ES. destruct (spec_step a o) as [a' y] eqn:EA.
    destruct ST as [OM NX]. constructor; auto.
Qed.

(* the repaired singleapp (not preallocated) IS the byte array: every operation sequence, every
   option combination, reopen and Copy at any point *)
Theorem single_refines_log_fixed : forall meta o ops,
  opts_valid o = true ->
  Forall2 out_match (s_run_fx false (s_create 0 meta o) ops) (spec_run (log_init (zeros 0) meta o) ops).
Proof.
  intros meta o ops OV. apply single_fixed_gen. right. splits; auto.
  - apply R_init; auto.
  - reflexivity.
Qed.

(* with preallocation the repair changes nothing *)
Theorem single_fixed_prealloc_same : forall s ops, s_run_fx true s ops = s_run s ops.
Proof.
  intros s ops; revert s. induction ops as [|o ops IH]; intros s; cbn [s_run_fx s_run]; auto.
  assert (E : s_step_fx true s o = s_step s o).
  { destruct o; reflexivity. }
  rewrite E. destruct (s_step s o). rewrite IH. reflexivity.
Qed.

(* the handle invariant along every run of the repaired model *)
Lemma s_step_fx_wf pre s o :
  hwf (s_h s) (s_file s) -> hwf (s_h (fst (s_step_fx pre s o))) (s_file (fst (s_step_fx pre s o))).
Proof.
  intros W. destruct o; try (apply (s_step_wf s _ W)).
  cbn [s_step_fx]. destruct (h_setoffset (s_h s) off) as [h' x] eqn:ES. cbn [fst s_h s_file].
  pose proof ES as E0. unfold h_setoffset in ES.
  destruct (h_closed (s_h s)) eqn:HC.
  { assert (h' = s_h s) by congruence. assert (x = OErr) by congruence. subst. rewrite andb_false_r. exact W. }
  destruct (h_ro (s_h s)) eqn:HR.
  { assert (h' = s_h s) by congruence. assert (x = OErr) by congruence. subst. rewrite andb_false_r. exact W. }
  destruct (h_setoffset_spec _ _ _ _ _ W HC HR E0) as [(_ & EH & EX)|(_ & X & W' & _ & _ & _ & FI)].
  { subst. rewrite andb_false_r. exact W. }
  subst x. rewrite andb_true_r.
  destruct (negb pre); cbn [andb]; [|exact W'].
  destruct (N.ltb_spec off (h_fo (s_h s))) as [L|L]; [|exact W'].
  destruct (FI L) as (A1 & _). pose proof (wf_fo _ _ W) as FO.
  destruct W'. constructor; auto. rewrite len_take, A1. clear - L FO. lia.
Qed.

Lemma s_state_fx_wf pre ops : forall s,
  hwf (s_h s) (s_file s) -> hwf (s_h (s_state_fx pre s ops)) (s_file (s_state_fx pre s ops)).
Proof.
  induction ops as [|o ops IH]; intros s W; cbn [s_state_fx]; auto. apply IH. apply s_step_fx_wf. exact W.
Qed.

Theorem single_buffer_indices_in_range_fixed : forall pre p meta o ops,
  opts_valid o = true ->
  let h := s_h (s_state_fx pre (s_create p meta o) ops) in
  h_fl h <= h_uw h /\ h_uw h <= len (h_wbuf h) /\ h_fl h <= h_fo h.
Proof.
  intros pre p meta o ops OV. cbn zeta.
  pose proof (s_state_fx_wf pre ops _ (s_create_wf p meta o OV)) as W.
  destruct W. splits; auto.
Qed.
