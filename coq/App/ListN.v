(* take / drop / slice over N-indexed byte lists: the algebra used by the C17 proofs *)
From V Require Import Base.Bytes App.Spec App.Single.
From Coq Require Import ZifyN ZifyNat ZifyBool.

Lemma take_0 l : take 0 l = []. Proof. reflexivity. Qed.
Lemma take_nil n : take n [] = []. Proof. unfold take; apply firstn_nil. Qed.
Lemma drop_nil n : drop n [] = []. Proof. unfold drop; apply skipn_nil. Qed.
Lemma len_nil : len [] = 0. Proof. reflexivity. Qed.
Lemma len_0_nil l : len l = 0 -> l = [].
Proof. unfold len; destruct l; simpl; auto; lia. Qed.

Lemma take_ge n l : len l <= n -> take n l = l.
Proof. unfold take, len; intros; apply firstn_all2; lia. Qed.
Lemma drop_ge n l : len l <= n -> drop n l = [].
Proof. unfold drop, len; intros; apply skipn_all2; lia. Qed.

Lemma take_drop_cat n l : take n l ++ drop n l = l.
Proof. unfold take, drop; apply firstn_skipn. Qed.

Lemma take_app_le n a b : n <= len a -> take n (a ++ b) = take n a.
Proof.
  unfold take, len; intros. rewrite firstn_app.
  replace (N.to_nat n - length a)%nat with 0%nat by lia. simpl; apply app_nil_r.
Qed.
Lemma take_app_ge n a b : len a <= n -> take n (a ++ b) = a ++ take (n - len a) b.
Proof.
  unfold take, len; intros. rewrite firstn_app.
  rewrite firstn_all2 by lia. f_equal. f_equal. lia.
Qed.
Lemma drop_app_le n a b : n <= len a -> drop n (a ++ b) = drop n a ++ b.
Proof.
  unfold drop, len; intros. rewrite skipn_app.
  replace (N.to_nat n - length a)%nat with 0%nat by lia. reflexivity.
Qed.
Lemma drop_app_ge n a b : len a <= n -> drop n (a ++ b) = drop (n - len a) b.
Proof.
  unfold drop, len; intros. rewrite skipn_app.
  rewrite skipn_all2 by lia. simpl. f_equal. lia.
Qed.

Lemma take_take n m l : take n (take m l) = take (N.min n m) l.
Proof.
  unfold take. rewrite firstn_firstn. f_equal. lia.
Qed.
Lemma skipn_skipn_nat {A} (x y : nat) (l : list A) : skipn x (skipn y l) = skipn (y + x) l.
Proof.
  revert l; induction y as [|y IH]; intros l; simpl; auto.
  destruct l; simpl; auto. apply skipn_nil.
Qed.
Lemma drop_drop n m l : drop n (drop m l) = drop (m + n) l.
Proof.
  unfold drop. rewrite skipn_skipn_nat. f_equal. lia.
Qed.
Lemma drop_take n m l : drop n (take m l) = take (m - n) (drop n l).
Proof.
  unfold drop, take. rewrite skipn_firstn_comm. f_equal. lia.
Qed.
Lemma take_drop n m l : take n (drop m l) = drop m (take (m + n) l).
Proof.
  unfold drop, take. rewrite firstn_skipn_comm. f_equal. f_equal. lia.
Qed.

Lemma len_slice b i j : len (slice b i j) = N.min (j - i) (len b - i).
Proof. unfold slice. rewrite len_take, len_drop. reflexivity. Qed.
Lemma slice_empty b i j : j <= i -> slice b i j = [].
Proof. unfold slice; intros. replace (j - i) with 0 by lia. reflexivity. Qed.
Lemma len_zeros n : len (zeros n) = n.
Proof. unfold len, zeros. rewrite repeat_length. lia. Qed.

(* slice of a concatenation *)
Lemma slice_app_l a b i j : j <= len a -> slice (a ++ b) i j = slice a i j.
Proof.
  unfold slice; intros.
  destruct (N.le_gt_cases i (len a)).
  - rewrite drop_app_le by lia. rewrite take_app_le; auto. rewrite len_drop; lia.
  - replace (j - i) with 0 by lia. reflexivity.
Qed.
Lemma slice_app_r a b i j : len a <= i -> slice (a ++ b) i j = slice b (i - len a) (j - len a).
Proof.
  unfold slice; intros. rewrite drop_app_ge by lia. f_equal. lia.
Qed.
Lemma slice_app_mid a b i j : i <= len a -> len a <= j ->
  slice (a ++ b) i j = drop i a ++ take (j - len a) b.
Proof.
  unfold slice; intros. rewrite drop_app_le by lia.
  rewrite take_app_ge by (rewrite len_drop; lia). rewrite len_drop. f_equal. f_equal. lia.
Qed.

Lemma slice_slice b i j p q : p <= q -> i + q <= j ->
  slice (slice b i j) p q = slice b (i + p) (i + q).
Proof.
  unfold slice; intros. rewrite drop_take, drop_drop, take_take. f_equal. lia.
Qed.
Lemma take_slice b i j n : take n (slice b i j) = slice b i (i + N.min n (j - i)).
Proof. unfold slice. rewrite take_take. f_equal. lia. Qed.
Lemma slice_all b : slice b 0 (len b) = b.
Proof. unfold slice. rewrite N.sub_0_r. apply take_all. Qed.
Lemma slice_take b i j n : j <= n -> slice (take n b) i j = slice b i j.
Proof.
  unfold slice; intros. rewrite drop_take, take_take. f_equal. lia.
Qed.
Lemma slice_cat b i j k : i <= j -> j <= k -> slice b i j ++ slice b j k = slice b i k.
Proof.
  unfold slice; intros.
  replace (drop j b) with (drop (j - i) (drop i b)) by (rewrite drop_drop; f_equal; lia).
  set (l := drop i b).
  replace (k - i) with ((j - i) + (k - j)) by lia.
  generalize (j - i) (k - j). clear. intros p q.
  unfold take, drop.
  rewrite <- (firstn_skipn (N.to_nat p) l) at 3.
  rewrite firstn_app. rewrite firstn_firstn.
  replace (Nat.min (N.to_nat (p + q)) (N.to_nat p)) with (N.to_nat p) by lia.
  f_equal. rewrite firstn_length.
  destruct (Nat.le_gt_cases (N.to_nat p) (length l)).
  - f_equal. lia.
  - rewrite skipn_all2 by lia. rewrite !firstn_nil. reflexivity.
Qed.

(* copy(b[i:], d) *)
Lemma len_upd b i d : i + len d <= len b -> len (upd b i d) = len b.
Proof. unfold upd; intros. rewrite !len_app, len_take, len_drop. lia. Qed.
Lemma slice_upd_ext b i d f : f <= i -> i + len d <= len b ->
  slice (upd b i d) f (i + len d) = slice b f i ++ d.
Proof.
  unfold upd; intros.
  rewrite app_assoc. rewrite slice_app_l by (rewrite len_app, len_take; lia).
  rewrite slice_app_mid by (rewrite len_take; lia).
  rewrite len_take. replace (i + len d - N.min i (len b)) with (len d) by lia.
  rewrite take_all. f_equal. unfold slice. rewrite drop_take. reflexivity.
Qed.
