(* C17 — executable model of embedded/appendable/multiapp/multi_app.go (MultiFileAppendable):
   a directory of chunk files "%08d.ext", each a singleapp file of at most fileSize bytes,
   the current chunk held open for writing, older chunks opened on demand and kept in a cache.

   Not modelled: compression, the SIEVE eviction of the handle cache (maxOpenedFiles is
   assumed large enough that nothing is evicted: a cached handle stays until SetOffset /
   DiscardUpto pops it or a rotation replaces it), the background prefetch (prefetchAheadDepth = 0,
   the default), failing OS calls.  Handles of non-current chunks are opened with the default
   4096-byte write buffer by the code; they are never written through, so the model gives them an
   empty buffer.  The write buffer shared by successive current chunks is modelled as a fresh
   zeroed buffer per chunk (its old content lies beyond wbufUnwrittenOffset and is never read).
   DiscardUpto's loop `for i := 0; i < appID && i != currAppID` is written as a filter.
   This file contains definitions only. *)
From V Require Export App.Single.

(* the directory: chunk id -> content of that chunk file (after its header) *)
Definition disk := list (N * bytes).

Fixpoint dget (d : disk) (i : N) : option bytes :=
  match d with
  | [] => None
  | (j, F) :: r => if j =? i then Some F else dget r i
  end.
Fixpoint dset (d : disk) (i : N) (F : bytes) : disk :=
  match d with
  | [] => [(i, F)]
  | (j, G) :: r => if j =? i then (j, F) :: r else (j, G) :: dset r i F
  end.
(* os.ReadDir returns names sorted; "%08d" sorts numerically *)
Fixpoint dmax (d : disk) : option N :=
  match d with
  | [] => None
  | (j, _) :: r => match dmax r with None => Some j | Some k => Some (N.max j k) end
  end.

Definition hcache := list (N * hnd).
Fixpoint cget (c : hcache) (i : N) : option hnd :=
  match c with
  | [] => None
  | (j, h) :: r => if j =? i then Some h else cget r i
  end.
Fixpoint cput (c : hcache) (i : N) (h : hnd) : hcache :=
  match c with
  | [] => [(i, h)]
  | (j, g) :: r => if j =? i then (j, h) :: r else (j, g) :: cput r i h
  end.

Record mapp := mkm {
  m_disk : disk;
  m_cur : N;              (* currAppID *)
  m_app : hnd;            (* currApp: a handle on chunk m_cur *)
  m_cache : hcache;       (* appendables: opened handles of other chunks *)
  m_fs : N;               (* fileSize (from the chunk metadata) *)
  m_meta : bytes;         (* wrapped metadata *)
  m_prealloc : bool;
  m_ro : bool;
  m_retry : bool;
  m_auto : bool;
  m_buf : N;              (* len(writeBuffer) *)
  m_closed : bool
}.

Definition m_file (m : mapp) (i : N) : bytes := match dget (m_disk m) i with Some F => F | None => [] end.
Definition cur_file (m : mapp) : bytes := m_file m (m_cur m).

Definition m_with (m : mapp) (d : disk) (cur : N) (h : hnd) (c : hcache) : mapp :=
  mkm d cur h c (m_fs m) (m_meta m) (m_prealloc m) (m_ro m) (m_retry m) (m_auto m) (m_buf m) (m_closed m).

(* the current chunk's handle and file after a singleapp call on it *)
Definition m_upd_cur (m : mapp) (h : hnd) (F : bytes) : mapp :=
  m_with m (dset (m_disk m) (m_cur m) F) (m_cur m) h (m_cache m).

(* options of openAppendable *)
Definition m_oopts (m : mapp) (active : bool) : oopts :=
  mko (m_ro m) (if active && negb (m_ro m) then m_buf m else 0) (m_retry m) (m_auto m).

(* openAppendable(name(id), createIfNotExists, activeChunk): None = os.IsNotExist *)
Definition m_open_chunk (m : mapp) (d : disk) (id : N) (create active : bool) : option (disk * hnd) :=
  match dget d id with
  | Some F => Some (d, h_open F (m_oopts m active))
  | None =>
      if create then
        let F := zeros (if m_prealloc m then m_fs m else 0) in
        Some (dset d id F, h_open F (m_oopts m active))
      else None
  end.

Definition m_offset (m : mapp) : N := m_cur m * m_fs m + h_offset (m_app m).

(* the `available <= 0` branch of Append: returns the new state and whether an error was returned *)
Definition m_rotate (m : mapp) : mapp * bool :=
  let '(h1, F1, x) := h_switch_ro (m_app m) (cur_file m) in
  match x with
  | OOk =>
      let d1 := dset (m_disk m) (m_cur m) F1 in
      let c1 := cput (m_cache m) (m_cur m) h1 in
      let cur' := m_cur m + 1 in
      match m_open_chunk m d1 cur' true true with
      | None => (m_with m d1 cur' h1 c1, true)
      | Some (d2, h2) =>
          let '(h3, x3) := h_setoffset h2 0 in
          (m_with m d2 cur' h3 c1, match x3 with OOk => false | _ => true end)
      end
  | _ => (m, true)
  end.

(* the loop of Append; `rest` is bs[n:] *)
Fixpoint m_append_loop (fuel : nat) (m : mapp) (rest : bytes) (n off : N) : mapp * out :=
  match fuel with
  | O => (m, OErr)
  | S fuel' =>
      if len rest =? 0 then (m, OApp off n) else
      let coff := h_offset (m_app m) in
      let '(m1, avail, err) :=
        if m_fs m <=? coff then let '(m', e) := m_rotate m in (m', m_fs m, e)
        else (m, m_fs m - coff, false) in
      if err then (m1, OErr) else
      let d := N.min avail (len rest) in
      let '(h', F', x) := h_append (m_app m1) (cur_file m1) (take d rest) in
      let m2 := m_upd_cur m1 h' F' in
      match x with
      | OApp offn _ =>
          m_append_loop fuel' m2 (drop d rest) (n + d) (if n =? 0 then offn + m_cur m2 * m_fs m2 else off)
      | OFull _ _ => (m2, OFull off n)       (* the bytes the current chunk did take are not counted *)
      | _ => (m1, OErr)
      end
  end.

Definition m_append (m : mapp) (bs : bytes) : mapp * out :=
  if m_closed m then (m, OErr)
  else if m_ro m then (m, OErr)
  else if len bs =? 0 then (m, OErr)
  else m_append_loop (S (length bs)) m bs 0 0.

(* appendableFor(off) for chunk id: the state (cache may grow) and the handle, None = IsNotExist *)
Definition m_handle_for (m : mapp) (id : N) : mapp * option hnd :=
  if id =? m_cur m then (m, Some (m_app m))
  else match cget (m_cache m) id with
       | Some h => (m, Some h)
       | None =>
           match m_open_chunk m (m_disk m) id false false with
           | None => (m, None)
           | Some (_, h) => (m_with m (m_disk m) (m_cur m) (m_app m) (cput (m_cache m) id h), Some h)
           end
       end.

(* the loop of ReadAt; acc = bs[:r] *)
Fixpoint m_read_loop (fuel : nat) (m : mapp) (n off : N) (acc : bytes) : mapp * out :=
  match fuel with
  | O => (m, OErr)
  | S fuel' =>
      if n <=? len acc then (m, ORead acc false) else
      let offr := off + len acc in
      let id := offr / m_fs m in
      match m_handle_for m id with
      | (m1, None) => (m1, ORead acc true)
      | (m1, Some h) =>
          match h_readat h (m_file m1 id) (n - len acc) (offr mod m_fs m) with
          | ORead d eof =>
              if eof then
                if 0 <? len d then m_read_loop fuel' m1 n off (acc ++ d) else (m1, ORead (acc ++ d) true)
              else m_read_loop fuel' m1 n off (acc ++ d)
          | _ => (m1, OErr)
          end
      end
  end.

Definition m_readat (m : mapp) (n off : N) : mapp * out :=
  if n =? 0 then (m, OErr)
  else if m_closed m then (m, OErr)
  else m_read_loop (S (S (N.to_nat n))) m n off [].

Definition cdrop_range (c : hcache) (lo hi : N) : hcache :=
  filter (fun '(i, _) => negb ((lo <=? i) && (i <? hi))) c.

Definition m_setoffset (m : mapp) (off : N) : mapp * out :=
  if m_closed m then (m, OErr)
  else if m_ro m then (m, OErr)
  else
    let cur := m_offset m in
    if cur <? off then (m, OErr)
    else if off =? cur then (m, OOk)
    else
      let id := off / m_fs m in
      if m_cur m =? id then
        let '(h', x) := h_setoffset (m_app m) (off mod m_fs m) in
        (m_with m (m_disk m) (m_cur m) h' (m_cache m), x)
      else
        (* handles of chunks id .. currAppID-1 are popped and closed *)
        let c1 := cdrop_range (m_cache m) id (m_cur m) in
        let '(h1, F1, x1) := h_close (m_app m) (cur_file m) in
        match x1 with
        | OOk =>
            let d1 := dset (m_disk m) (m_cur m) F1 in
            match m_open_chunk m d1 id false true with
            | None => (m_with m d1 (m_cur m) h1 c1, OErr)     (* io.EOF; currApp stays closed *)
            | Some (d2, h2) =>
                let '(h3, x3) := h_setoffset h2 (off mod m_fs m) in
                (m_with m d2 id h3 c1, x3)
            end
        | _ => (m_with m (m_disk m) (m_cur m) (m_app m) c1, OErr)
        end.

Definition m_discard (m : mapp) (off : N) : mapp * out :=
  if m_closed m then (m, OErr)
  else if m_offset m <? off then (m, OErr)
  else
    let lim := N.min (off / m_fs m) (m_cur m) in
    (m_with m (filter (fun '(i, _) => negb (i <? lim)) (m_disk m)) (m_cur m) (m_app m)
            (filter (fun '(i, _) => negb (i <? lim)) (m_cache m)), OOk).

Definition m_size (m : mapp) : out :=
  if m_closed m then OErr
  else match h_size (m_app m) with ON k => ON (m_cur m * m_fs m + k) | _ => OErr end.

Definition m_cur_op (m : mapp) (f : hnd -> bytes -> hnd * bytes * out) : mapp * out :=
  if m_closed m then (m, OErr)
  else if m_ro m then (m, OErr)
  else let '(h', F', x) := f (m_app m) (cur_file m) in (m_upd_cur m h' F', x).

Definition m_switch_ro (m : mapp) : mapp * out :=
  let '(m', x) := m_cur_op m h_switch_ro in
  match x with
  | OOk => (mkm (m_disk m') (m_cur m') (m_app m') (m_cache m') (m_fs m') (m_meta m') (m_prealloc m')
                true (m_retry m') (m_auto m') (m_buf m') (m_closed m'), OOk)
  | _ => (m', x)
  end.

Definition m_close (m : mapp) : mapp * out :=
  if m_closed m then (m, OErr)
  else
    let '(h', F', x) := h_close (m_app m) (cur_file m) in
    let m' := m_upd_cur m h' F' in
    (mkm (m_disk m') (m_cur m') (m_app m') [] (m_fs m') (m_meta m') (m_prealloc m')
         (m_ro m') (m_retry m') (m_auto m') (m_buf m') true, x).

(* Open on an existing directory *)
Definition m_reopen (m : mapp) (o : oopts) : mapp :=
  let m0 := mkm (m_disk m) 0 (m_app m) [] (m_fs m) (m_meta m) (m_prealloc m)
                (o_ro o) (o_retry o) (o_auto o) (o_buf o) false in
  let id := match dmax (m_disk m) with Some i => i | None => 0 end in
  match m_open_chunk m0 (m_disk m) id true true with
  | Some (d, h) => m_with m0 d id h []
  | None => m0
  end.

(* Open on a fresh path *)
Definition m_create (fs : N) (prealloc : bool) (meta : bytes) (o : oopts) : mapp :=
  let F := zeros (if prealloc then fs else 0) in
  mkm [(0, F)] 0 (h_open F (ro_nobuf o)) []
      fs meta prealloc (o_ro o) (o_retry o) (o_auto o) (o_buf o) false.

(* Copy(dst): sync of the current chunk (unless read-only), then every file of the directory is
   copied as it is.  The result is what multiapp.Open(dst, read-only) then holds: Size() bytes read
   from offset 0. *)
Definition m_copy (m : mapp) : mapp * out :=
  if m_closed m then (m, OErr)
  else
    let '(m1, x) := if m_ro m then (m, OOk)
                    else let '(h', F', x) := h_sync_op (m_app m) (cur_file m) in (m_upd_cur m h' F', x) in
    match x with
    | OOk =>
        let c := m_reopen m1 (mko true 0 (m_retry m) (m_auto m)) in
        match m_size c with
        | ON sz => (m1, if sz =? 0 then OCopy []
                        else match snd (m_readat c sz 0) with ORead bs _ => OCopy bs | _ => OCopy [] end)
        | _ => (m1, OCopy [])
        end
    | _ => (m1, OErr)
    end.

Definition m_step (m : mapp) (o : op) : mapp * out :=
  match o with
  | Append bs => m_append m bs
  | ReadAt n off => m_readat m n off
  | SetOffset off => m_setoffset m off
  | Flush => m_cur_op m h_flush_op
  | Sync => m_cur_op m h_sync_op
  | Size => (m, m_size m)
  | Offset => (m, ON (m_offset m))
  | Discard off => m_discard m off
  | SwitchRO => m_switch_ro m
  | Close => m_close m
  | Reopen o =>
      if m_closed m then if opts_valid o then (m_reopen m o, OOk) else (m, OErr)
      else (m, OErr)
  | Meta => (m, OBytes (m_meta m))
  | Copy => m_copy m
  end.

Fixpoint m_run (m : mapp) (ops : list op) : list out :=
  match ops with
  | [] => []
  | o :: r => let (m', x) := m_step m o in x :: m_run m' r
  end.

Fixpoint m_state (m : mapp) (ops : list op) : mapp :=
  match ops with
  | [] => m
  | o :: r => m_state (fst (m_step m o)) r
  end.

(* ---- where the code departs from the byte-array specification (see Single.v) ----
   SetOffset into an earlier chunk leaves the chunk files with a higher id in the directory.
   They are stale, but ReadAt walks into them when a read runs past the end of the current chunk,
   and Open takes the LAST file of the directory as the current chunk (and the file end of that
   chunk as its size, so a stale tail of the current chunk file counts too). *)
Definition m_stale (m : mapp) : bool := existsb (fun '(i, _) => m_cur m <? i) (m_disk m).

Definition m_dirty (m : mapp) : bool := m_stale m || h_tail (m_app m) (cur_file m).

(* end of the current chunk *)
Definition m_end (m : mapp) : N := (m_cur m + 1) * m_fs m.

Definition m_risky (m : mapp) (o : op) : bool :=
  match o with
  | ReadAt n off =>
      (* stale chunk files exist and the read goes past the end of the current chunk, which it
         does when that chunk is full or the read starts beyond it *)
      negb (m_closed m) && m_stale m && (m_end m <? off + n) &&
      ((m_offset m =? m_end m) || (m_end m <=? off))
  | Reopen _ => m_closed m && m_dirty m
  | Copy =>   (* the copy is a reopen of the same files (after the sync of the current chunk) *)
      negb (m_closed m) && (m_stale m || (h_offset (m_app m) <? len (cur_file m)))
  | _ => false
  end.

Fixpoint m_clean (m : mapp) (ops : list op) : bool :=
  match ops with
  | [] => true
  | o :: r => negb (m_risky m o) && m_clean (fst (m_step m o)) r
  end.
