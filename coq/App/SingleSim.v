(* C17 — singleapp: simulation of the byte-array specification, and the property theorems *)
From V Require Import Base.Bytes App.Spec App.Single App.ListN App.SingleProofs.
From Coq Require Import ZifyN ZifyNat ZifyBool.

(* ================= simulation of the byte-array specification ================= *)
Record R (s : sapp) (a : log) : Prop := mkR {
  r_wf : hwf (s_h s) (s_file s);
  r_data : l_data a = content (s_h s) (s_file s);
  r_ro : l_ro a = h_ro (s_h s);
  r_closed : l_closed a = h_closed (s_h s);
  r_meta : l_meta a = s_meta s;
  r_cap : h_ro (s_h s) = false ->
          l_cap a = if capmode (s_h s) then Some (len (h_wbuf (s_h s))) else None;
  r_marks : h_ro (s_h s) = false -> capmode (s_h s) = true ->
            l_sy a = h_fo (s_h s) - h_fl (s_h s) /\ l_fl a = h_fo (s_h s);
  r_cl : h_closed (s_h s) = true -> h_uw (s_h s) = h_fl (s_h s)
}.

Definition step_ok (s : sapp) (a : log) (o : op) : Prop :=
  let '(s', x) := s_step s o in
  let '(a', y) := spec_step a o in
  out_match x y /\ (l_chaos a' = true \/ (l_chaos a' = false /\ R s' a')).

Lemma mks_eta s : mks (s_h s) (s_file s) (s_meta s) = s.
Proof. destruct s; reflexivity. Qed.

Lemma mkR' h F m a :
  hwf h F -> l_data a = content h F -> l_ro a = h_ro h -> l_closed a = h_closed h -> l_meta a = m ->
  (h_ro h = false -> l_cap a = if capmode h then Some (len (h_wbuf h)) else None) ->
  (h_ro h = false -> capmode h = true -> l_sy a = h_fo h - h_fl h /\ l_fl a = h_fo h) ->
  (h_closed h = true -> h_uw h = h_fl h) ->
  R (mks h F m) a.
Proof. intros; constructor; auto. Qed.

(* closes the goals of mkR' that are plain rewriting; leaves data / cap / marks goals alone *)
Ltac boring :=
  match goal with
  | |- hwf _ _ => assumption
  | |- l_ro _ = _ => congruence
  | |- l_closed _ = _ => congruence
  | |- l_meta _ = _ => congruence
  | |- true = _ => congruence
  | |- false = _ => congruence
  | |- h_closed _ = true -> _ => let X := fresh in intros X; congruence
  | _ => idtac
  end.

Ltac lsimp := cbn [set_data set_marks l_data l_ro l_closed l_meta l_cap l_sy l_fl l_disc l_chaos].

Lemma om_refl x : out_match x x. Proof. right; reflexivity. Qed.

Lemma sim_append s a bs : R s a -> l_chaos a = false -> step_ok s a (Append bs).
Proof.
  intros Rsa CH. pose proof Rsa as [W D RO CL M CP MK RC]. unfold step_ok, s_step, spec_step. rewrite CH.
  destruct (h_append (s_h s) (s_file s) bs) as [[h' F'] x] eqn:EA.
  rewrite RO, CL.
  destruct (h_closed (s_h s)) eqn:HC.
  { unfold h_append in EA. rewrite HC in EA. cbn [orb].
    assert (h' = s_h s) by congruence. assert (F' = s_file s) by congruence. assert (x = OErr) by congruence.
    subst. split; [apply om_refl|]. right. split; auto. rewrite mks_eta. exact Rsa. }
  destruct (h_ro (s_h s)) eqn:HR.
  { unfold h_append in EA. rewrite HC, HR in EA. cbn [orb].
    assert (h' = s_h s) by congruence. assert (F' = s_file s) by congruence. assert (x = OErr) by congruence.
    subst. split; [apply om_refl|]. right. split; auto. rewrite mks_eta. exact Rsa. }
  cbn [orb].
  destruct (N.eqb_spec (len bs) 0) as [Z|NZ].
  { unfold h_append in EA. rewrite HC, HR in EA.
    replace (len bs =? 0) with true in EA by (symmetry; apply N.eqb_eq; auto).
    assert (h' = s_h s) by congruence. assert (F' = s_file s) by congruence. assert (x = OErr) by congruence.
    subst. split; [apply om_refl|]. right. split; auto. rewrite mks_eta. exact Rsa. }
  assert (LB : 0 < len bs) by (clear - NZ; lia).
  destruct (h_append_spec _ _ _ _ _ _ W HC HR LB EA) as (W' & C' & S' & X & MK').
  specialize (CP eq_refl). rewrite CP.
  pose proof (len_content _ _ W) as LC.
  assert (SZ : l_size a = h_offset (s_h s)) by (unfold l_size; rewrite D; exact LC).
  destruct S'.
  destruct (capmode (s_h s)) eqn:CM.
  - destruct (MK eq_refl eq_refl) as [SY FL]. destruct (MK' eq_refl) as (A1 & A2 & A3).
    cbn zeta in *.
    assert (AV : len (h_wbuf (s_h s)) - (l_size a - l_sy a) = len (h_wbuf (s_h s)) - h_uw (s_h s)).
    { rewrite SZ, SY. unfold h_offset. pose proof (wf_fl _ _ W) as Q1. pose proof (wf_flfo _ _ W) as Q2. clear - Q1 Q2. lia. }
    rewrite AV. set (avail := len (h_wbuf (s_h s)) - h_uw (s_h s)) in *.
    destruct (N.leb_spec (len bs) avail) as [LE|GT].
    + replace (N.min (len bs) avail) with (len bs) in * by (clear - LE; lia).
      rewrite N.ltb_irrefl in X. cbn [andb] in X. rewrite take_all in C'.
      split; [rewrite X, SZ; apply om_refl|]. right. split; auto.
      constructor; cbn [s_h s_file s_meta set_data l_data l_ro l_closed l_meta l_cap l_sy l_fl]; auto; try congruence;
        try (intros X; congruence).
      * intros _. rewrite (capmode_same (s_h s) h') by (constructor; auto). rewrite CM. congruence.
      * intros _ _. rewrite A1, A2. split; auto.
    + replace (N.min (len bs) avail) with avail in * by (clear - GT; lia).
      replace (avail <? len bs) with true in X by (symmetry; apply N.ltb_lt; exact GT). cbn [andb] in X.
      split; [rewrite X, SZ; apply om_refl|]. right. split; auto.
      constructor; cbn [s_h s_file s_meta set_data l_data l_ro l_closed l_meta l_cap l_sy l_fl]; auto; try congruence;
        try (intros X; congruence).
      * intros _. rewrite (capmode_same (s_h s) h') by (constructor; auto). rewrite CM. congruence.
      * intros _ _. rewrite A1, A2. split; auto.
  - cbn zeta in *. cbn [andb] in X. rewrite take_all in C'.
    split; [rewrite X, SZ; apply om_refl|]. right. split; auto.
    constructor; cbn [s_h s_file s_meta set_data l_data l_ro l_closed l_meta l_cap l_sy l_fl]; auto; try congruence;
        try (intros X; congruence).
    * intros _. rewrite (capmode_same (s_h s) h') by (constructor; auto). rewrite CM. exact CP.
    * intros _. rewrite (capmode_same (s_h s) h') by (constructor; auto). rewrite CM. discriminate.
Qed.

Lemma sim_readat s a n off :
  R s a -> l_chaos a = false -> s_risky s (ReadAt n off) = false -> step_ok s a (ReadAt n off).
Proof.
  intros Rsa CH NRK. pose proof Rsa as [W D RO CL M CP MK RC].
  unfold step_ok, s_step, spec_step. rewrite CH, CL. unfold h_readat.
  destruct (h_closed (s_h s)) eqn:HC.
  { split; [apply om_refl|]. right; auto. }
  destruct ((off <? l_disc a) || (n =? 0)) eqn:UNS.
  { split; [left; reflexivity|]. right; auto. }
  apply orb_false_elim in UNS as [_ NZ]. apply N.eqb_neq in NZ.
  assert (NP : 0 < n) by (clear - NZ; lia).
  rewrite (h_readat_spec _ _ _ _ W NP). unfold spec_read, l_size. rewrite <- D.
  destruct (len (l_data a) <? off); (split; [apply om_refl|right; auto]).
Qed.

Lemma sim_setoffset s a off : R s a -> l_chaos a = false -> step_ok s a (SetOffset off).
Proof.
  intros Rsa CH. pose proof Rsa as [W D RO CL M CP MK RC].
  unfold step_ok, s_step, spec_step. rewrite CH.
  destruct (h_setoffset (s_h s) off) as [h' x] eqn:ES.
  rewrite RO, CL.
  destruct (h_closed (s_h s)) eqn:HC.
  { unfold h_setoffset in ES. rewrite HC in ES. cbn [orb].
    assert (h' = s_h s) by congruence. assert (x = OErr) by congruence. subst.
    split; [apply om_refl|]. right. split; auto. rewrite mks_eta. exact Rsa. }
  destruct (h_ro (s_h s)) eqn:HR.
  { unfold h_setoffset in ES. rewrite HC, HR in ES. cbn [orb].
    assert (h' = s_h s) by congruence. assert (x = OErr) by congruence. subst.
    split; [apply om_refl|]. right. split; auto. rewrite mks_eta. exact Rsa. }
  cbn [orb].
  pose proof (len_content _ _ W) as LC.
  assert (SZ : l_size a = h_offset (s_h s)) by (unfold l_size; rewrite D; exact LC).
  rewrite SZ.
  destruct (h_setoffset_spec _ _ _ _ _ W HC HR ES) as [(LT & EH & EX)|(LE & EX & W' & C' & S' & IM & FI)].
  { subst. replace (h_offset (s_h s) <? off) with true by (symmetry; apply N.ltb_lt; exact LT).
    split; [apply om_refl|]. right. split; auto. rewrite mks_eta. exact Rsa. }
  replace (h_offset (s_h s) <? off) with false by (symmetry; apply N.ltb_ge; exact LE).
  subst x. destruct S'.
  assert (CMS : capmode h' = capmode (s_h s)) by (apply capmode_same; constructor; auto).
  destruct (N.eqb_spec off (h_offset (s_h s))) as [EQ|NE].
  { split; [apply om_refl|]. right. split; auto.
    apply mkR'; lsimp; boring.
    - rewrite C', D. symmetry. apply take_ge. rewrite LC. clear - EQ. lia.
    - intros _. rewrite CMS, sc_blen. apply CP. reflexivity.
    - intros _ CM'. rewrite CMS in CM'. destruct (MK eq_refl CM') as [SY FL].
      assert (FO : h_fo (s_h s) <= off) by (rewrite EQ; unfold h_offset; clear; lia).
      destruct (IM FO) as [A1 A2]. rewrite A1, A2. split; auto. }
  destruct (N.ltb_spec off (l_disc a)) as [DS|DS].
  { split; [left; reflexivity|]. left. reflexivity. }
  cbn zeta.
  destruct (N.leb_spec (l_fl a) off) as [FL|FL].
  - split; [apply om_refl|]. right. split; auto.
    apply mkR'; lsimp; boring.
    + rewrite C', D. reflexivity.
    + intros _. rewrite CMS, sc_blen. apply CP. reflexivity.
    + intros _ CM'. rewrite CMS in CM'. destruct (MK eq_refl CM') as [SY FLM].
      assert (FO : h_fo (s_h s) <= off) by (rewrite <- FLM; exact FL).
      destruct (IM FO) as [A1 A2]. rewrite A1, A2. split; auto.
  - split; [apply om_refl|]. right. split; auto.
    apply mkR'; lsimp; boring.
    + rewrite C', D. reflexivity.
    + intros _. rewrite CMS, sc_blen. apply CP. reflexivity.
    + intros _ CM'. rewrite CMS in CM'. destruct (MK eq_refl CM') as [SY FLM].
      assert (FO : off < h_fo (s_h s)) by (rewrite <- FLM; exact FL).
      destruct (FI FO) as (A1 & A2 & A3). rewrite A1, A2. split; auto. clear. lia.
Qed.

Lemma sim_flush s a : R s a -> l_chaos a = false -> step_ok s a Flush.
Proof.
  intros Rsa CH. pose proof Rsa as [W D RO CL M CP MK RC].
  unfold step_ok, s_step, spec_step, h_flush_op. rewrite CH, RO, CL.
  destruct (h_closed (s_h s)) eqn:HC.
  { cbn [orb]. split; [apply om_refl|]. right. split; auto. rewrite mks_eta. exact Rsa. }
  destruct (h_ro (s_h s)) eqn:HR.
  { cbn [orb]. split; [apply om_refl|]. right. split; auto. rewrite mks_eta. exact Rsa. }
  cbn [orb].
  destruct (h_flush (s_h s) (s_file s)) as [h' F'] eqn:EF.
  destruct (h_flush_spec _ _ _ _ W EF) as (W' & C' & S' & FO' & U' & RT' & NR').
  split; [apply om_refl|]. right. split; auto. destruct S'.
  assert (CMS : capmode h' = capmode (s_h s)) by (apply capmode_same; constructor; auto).
  pose proof (len_content _ _ W) as LC.
  apply mkR'; lsimp; boring.
  - congruence.
  - intros _. rewrite CMS, sc_blen. apply CP. reflexivity.
  - intros _ CM'. rewrite CMS in CM'. destruct (MK eq_refl CM') as [SY FLM].
    assert (RT : h_retry (s_h s) = true) by (unfold capmode in CM'; apply andb_prop in CM'; tauto).
    destruct (RT' RT) as [A1 A2]. rewrite A1. split; auto.
    unfold l_size. rewrite D, LC. congruence.
Qed.

Lemma sim_sync s a : R s a -> l_chaos a = false -> step_ok s a Sync.
Proof.
  intros Rsa CH. pose proof Rsa as [W D RO CL M CP MK RC].
  unfold step_ok, s_step, spec_step, h_sync_op. rewrite CH, RO, CL.
  destruct (h_closed (s_h s)) eqn:HC.
  { cbn [orb]. split; [apply om_refl|]. right. split; auto. rewrite mks_eta. exact Rsa. }
  destruct (h_ro (s_h s)) eqn:HR.
  { cbn [orb]. split; [apply om_refl|]. right. split; auto. rewrite mks_eta. exact Rsa. }
  cbn [orb].
  destruct (h_sync (s_h s) (s_file s)) as [h' F'] eqn:EF.
  destruct (h_sync_spec _ _ _ _ W EF) as (W' & C' & S' & FO' & U' & RT' & NR').
  split; [apply om_refl|]. right. split; auto. destruct S'.
  assert (CMS : capmode h' = capmode (s_h s)) by (apply capmode_same; constructor; auto).
  pose proof (len_content _ _ W) as LC.
  apply mkR'; lsimp; boring.
  - congruence.
  - intros _. rewrite CMS, sc_blen. apply CP. reflexivity.
  - intros _ CM'. rewrite CMS in CM'.
    assert (RT : h_retry (s_h s) = true) by (unfold capmode in CM'; apply andb_prop in CM'; tauto).
    destruct (RT' RT) as [A1 A2]. rewrite A1, FO'. unfold l_size. rewrite D, LC. split; auto. clear. lia.
Qed.

Lemma sim_size s a : R s a -> l_chaos a = false -> step_ok s a Size.
Proof.
  intros Rsa CH. pose proof Rsa as [W D RO CL M CP MK RC].
  unfold step_ok, s_step, spec_step, h_size. rewrite CH, CL.
  pose proof (len_content _ _ W) as LC.
  assert (SZ : l_size a = h_offset (s_h s)) by (unfold l_size; rewrite D; exact LC).
  destruct (h_closed (s_h s)); (split; [rewrite ?SZ; apply om_refl|right; auto]).
Qed.

Lemma sim_offset s a : R s a -> l_chaos a = false -> step_ok s a Offset.
Proof.
  intros Rsa CH. pose proof Rsa as [W D RO CL M CP MK RC].
  unfold step_ok, s_step, spec_step. rewrite CH.
  pose proof (len_content _ _ W) as LC.
  assert (SZ : l_size a = h_offset (s_h s)) by (unfold l_size; rewrite D; exact LC).
  split; [rewrite SZ; apply om_refl|right; auto].
Qed.

Lemma sim_discard s a off : R s a -> l_chaos a = false -> step_ok s a (Discard off).
Proof.
  intros Rsa CH. pose proof Rsa as [W D RO CL M CP MK RC].
  unfold step_ok, s_step, spec_step, h_discard. rewrite CH, CL.
  pose proof (len_content _ _ W) as LC.
  assert (SZ : l_size a = h_offset (s_h s)) by (unfold l_size; rewrite D; exact LC).
  rewrite SZ.
  destruct (h_closed (s_h s)) eqn:HC; cbn [orb]; [split; [apply om_refl|right; auto]|].
  destruct (h_offset (s_h s) <? off); (split; [apply om_refl|right; split; auto]).
  destruct Rsa; constructor; lsimp; auto; congruence.
Qed.

Lemma sim_switchro s a : R s a -> l_chaos a = false -> step_ok s a SwitchRO.
Proof.
  intros Rsa CH. pose proof Rsa as [W D RO CL M CP MK RC].
  unfold step_ok, s_step, spec_step. rewrite CH, RO, CL.
  destruct (h_switch_ro (s_h s) (s_file s)) as [[h' F'] x] eqn:ES.
  destruct (h_closed (s_h s)) eqn:HC.
  { unfold h_switch_ro in ES. rewrite HC in ES. cbn [orb].
    assert (h' = s_h s) by congruence. assert (F' = s_file s) by congruence. assert (x = OErr) by congruence.
    subst. split; [apply om_refl|]. right. split; auto. rewrite mks_eta. exact Rsa. }
  destruct (h_ro (s_h s)) eqn:HR.
  { unfold h_switch_ro in ES. rewrite HC, HR in ES. cbn [orb].
    assert (h' = s_h s) by congruence. assert (F' = s_file s) by congruence. assert (x = OErr) by congruence.
    subst. split; [apply om_refl|]. right. split; auto. rewrite mks_eta. exact Rsa. }
  cbn [orb].
  destruct (h_switch_ro_spec _ _ _ _ _ W HC HR ES) as (X & W' & C' & RO' & CL' & FO').
  subst x. split; [apply om_refl|]. right. split; auto.
  apply mkR'; lsimp; boring; try congruence; intros X; congruence.
Qed.

Lemma sim_close s a : R s a -> l_chaos a = false -> step_ok s a Close.
Proof.
  intros Rsa CH. pose proof Rsa as [W D RO CL M CP MK RC].
  unfold step_ok, s_step, spec_step. rewrite CH, CL.
  destruct (h_close (s_h s) (s_file s)) as [[h' F'] x] eqn:ES.
  destruct (h_closed (s_h s)) eqn:HC.
  { unfold h_close in ES. rewrite HC in ES.
    assert (h' = s_h s) by congruence. assert (F' = s_file s) by congruence. assert (x = OErr) by congruence.
    subst. split; [apply om_refl|]. right. split; auto. rewrite mks_eta. exact Rsa. }
  destruct (h_close_spec _ _ _ _ _ W HC ES) as (X & W' & C' & RO' & CL' & FO' & U' & RT' & AU' & BL' & SY').
  subst x. split; [apply om_refl|]. right. split; auto.
  assert (CMS : capmode h' = capmode (s_h s)) by (unfold capmode; congruence).
  pose proof (len_content _ _ W) as LC.
  apply mkR'; lsimp; boring.
  - congruence.
  - intros X. rewrite CMS, BL'. apply CP. congruence.
  - intros X CM'. rewrite CMS in CM'. rewrite RO' in X. destruct (MK X CM') as [SY FLM].
    assert (RT : h_retry (s_h s) = true) by (unfold capmode in CM'; apply andb_prop in CM'; tauto).
    rewrite (SY' RT). split; auto. rewrite RO, X. unfold l_size. rewrite D, LC. congruence.
Qed.

Lemma capmode_open F o : capmode (h_open F o) = o_retry o && negb (o_auto o).
Proof. reflexivity. Qed.

Lemma sim_reopen s a o :
  R s a -> l_chaos a = false -> s_risky s (Reopen o) = false -> step_ok s a (Reopen o).
Proof.
  intros Rsa CH NRK. pose proof Rsa as [W D RO CL M CP MK RC].
  unfold step_ok, s_step, spec_step. rewrite CH, CL.
  destruct (h_closed (s_h s)) eqn:HC; cbn [negb].
  2:{ split; [apply om_refl|]. right. auto. }
  destruct (opts_valid o) eqn:OV; cbn [negb].
  2:{ split; [apply om_refl|]. right. auto. }
  split; [apply om_refl|]. right. split; auto.
  cbn [s_risky] in NRK. rewrite HC in NRK. cbn [andb] in NRK. unfold h_tail in NRK. apply N.ltb_ge in NRK.
  pose proof (wf_fo _ _ W) as FOL.
  assert (EF : h_fo (s_h s) = len (s_file s)) by (clear - NRK FOL; lia).
  assert (DF : l_data a = s_file s).
  { rewrite D. unfold content. rewrite (RC eq_refl), EF, take_all.
    rewrite slice_empty by (clear; lia). apply app_nil_r. }
  apply mkR'; lsimp; boring; try reflexivity.
  - apply h_open_wf. exact OV.
  - rewrite content_open. exact DF.
  - intros RF. rewrite capmode_open.
    unfold h_open, ro_nobuf in *; cbn [h_ro o_ro o_retry o_auto o_buf h_wbuf] in *. unfold cap_of.
    rewrite RF. rewrite len_zeros. reflexivity.
  - intros _ _. unfold h_open; cbn [h_fo h_fl]. unfold l_size. rewrite DF. split; auto. clear. lia.
Qed.

Lemma sim_meta s a : R s a -> l_chaos a = false -> step_ok s a Meta.
Proof.
  intros Rsa CH. pose proof Rsa as [W D RO CL M CP MK RC].
  unfold step_ok, s_step, spec_step. rewrite CH, M. split; [apply om_refl|right; auto].
Qed.

(* Copy: the state relation is kept whatever the file holds; the copy itself starts with the byte
   array and is exactly the byte array when the file holds nothing beyond the current offset *)
Lemma sim_copy s a :
  R s a -> l_chaos a = false ->
  let '(s', x) := s_step s Copy in
  let '(a', y) := spec_step a Copy in
  out_match_c x y /\ (s_risky s Copy = false -> out_match x y) /\ l_chaos a' = false /\ R s' a'.
Proof.
  intros Rsa CH. pose proof Rsa as [W D RO CL M CP MK RC].
  unfold s_step, spec_step. rewrite CH, CL.
  destruct (h_copy (s_h s) (s_file s)) as [[h' F'] x] eqn:EC.
  destruct (h_closed (s_h s)) eqn:HC.
  { unfold h_copy in EC. rewrite HC in EC.
    assert (h' = s_h s) by congruence. assert (F' = s_file s) by congruence. assert (x = OErr) by congruence.
    subst. splits; auto; try (left; apply om_refl); try (intros; apply om_refl). rewrite mks_eta. exact Rsa. }
  destruct (h_copy_spec _ _ _ _ _ W HC EC) as (X & W' & C' & S' & FO' & U' & RT' & LF & FE).
  subst x. destruct S'.
  assert (CMS : capmode h' = capmode (s_h s)) by (apply capmode_same; constructor; auto).
  pose proof (len_content _ _ W) as LC.
  splits.
  - destruct (0 <? l_disc a); [left; left; reflexivity|].
    right. exists (l_data a), (drop (h_offset (s_h s)) F'). split; auto. rewrite D. f_equal. exact FE.
  - cbn [s_risky]. rewrite HC. cbn [negb andb]. intros NT. apply N.ltb_ge in NT.
    destruct (0 <? l_disc a); [left; reflexivity|]. right. f_equal. rewrite D, FE at 1.
    rewrite drop_ge by (rewrite LF; clear - NT; lia). apply app_nil_r.
  - lsimp. exact CH.
  - apply mkR'; lsimp; boring.
    + congruence.
    + intros X. rewrite CMS, sc_blen. apply CP. congruence.
    + intros X CM'. rewrite CMS in CM'. rewrite sc_ro in X. destruct (MK X CM') as [SY FLM].
      assert (RT : h_retry (s_h s) = true) by (unfold capmode in CM'; apply andb_prop in CM'; tauto).
      rewrite (RT' RT). split; auto. unfold l_size. rewrite D, LC. congruence.
Qed.

Lemma sim_step s a o :
  R s a -> l_chaos a = false -> s_risky s o = false -> step_ok s a o.
Proof.
  intros Rsa CH NRK. destruct o.
  - apply sim_append; auto.
  - apply sim_readat; auto.
  - apply sim_setoffset; auto.
  - apply sim_flush; auto.
  - apply sim_sync; auto.
  - apply sim_size; auto.
  - apply sim_offset; auto.
  - apply sim_discard; auto.
  - apply sim_switchro; auto.
  - apply sim_close; auto.
  - apply sim_reopen; auto.
  - apply sim_meta; auto.
  - pose proof (sim_copy s a Rsa CH) as SC. unfold step_ok.
    destruct (s_step s Copy) as [s' x]. destruct (spec_step a Copy) as [a' y].
    destruct SC as (_ & OM & CH' & R'). split; auto.
Qed.

(* ================= theorems ================= *)

(* every run that never observes a stale tail produces the outputs of the byte array *)
Lemma single_refines_gen : forall ops s a,
  (l_chaos a = true \/ (l_chaos a = false /\ R s a)) -> s_clean s ops = true ->
  Forall2 out_match (s_run s ops) (spec_run a ops).
Proof.
  induction ops as [|o ops IH]; intros s a H CLN; cbn [s_run spec_run]; [constructor|].
  cbn [s_clean] in CLN. apply andb_prop in CLN as [NRK CLN]. apply negb_true_iff in NRK.
  destruct H as [CH|[CH Rsa]].
  - destruct (s_step s o) as [s' x] eqn:ES.
    assert (SP : spec_step a o = (a, OAny)) by (unfold spec_step; rewrite CH; reflexivity).
    rewrite SP. constructor; [left; reflexivity|].
    apply IH; auto.
  - pose proof (sim_step s a o Rsa CH NRK) as ST. unfold step_ok in ST.
    destruct (s_step s o) as [s' x] eqn:ES. destruct (spec_step a o) as [a' y] eqn:EA.
    destruct ST as [OM NX]. constructor; auto.
Qed.

Lemma R_init p meta o : opts_valid o = true -> R (s_create p meta o) (log_init (zeros p) meta o).
Proof.
  intros OV. unfold s_create, log_init. apply mkR'; lsimp; try reflexivity.
  - apply h_open_wf; auto.
  - rewrite content_open. reflexivity.
  - intros RF. rewrite capmode_open.
    unfold h_open, ro_nobuf in *; cbn [h_ro o_ro o_retry o_auto o_buf h_wbuf] in *. unfold cap_of.
    rewrite RF, len_zeros. reflexivity.
  - intros _ _. unfold h_open; cbn [h_fo h_fl]. split; auto. clear. lia.
Qed.

Theorem single_refines_log_partial : forall p meta o ops,
  opts_valid o = true ->
  s_clean (s_create p meta o) ops = true ->
  Forall2 out_match (s_run (s_create p meta o) ops) (spec_run (log_init (zeros p) meta o) ops).
Proof.
  intros p meta o ops OV CLN. apply single_refines_gen; auto.
  right. split; [reflexivity|]. apply R_init; auto.
Qed.

(* the premise is satisfiable with rewinds, reopen and reads in it *)
Example single_clean_example :
  s_clean (s_create 0 [] (mko false 4 false false))
    [Append [1;2;3;4;5;6]; Flush; SetOffset 2; Append [7;8]; ReadAt 2 2; ReadAt 2 0; Flush; Append [9;10];
     Close; Reopen (mko false 4 true true); Size; ReadAt 6 0] = true.
Proof. vm_compute. reflexivity. Qed.

Lemma Forall2_nth {A B} (P : A -> B -> Prop) l l' i x y :
  Forall2 P l l' -> nth_error l i = Some x -> nth_error l' i = Some y -> P x y.
Proof.
  intros H; revert i; induction H; intros [|i]; simpl; try discriminate.
  - intros; congruence.
  - apply IHForall2.
Qed.

(* within one session (no reopen) the refinement needs no premise at all — rewinds below the flushed
   size, stale tails, preallocation included; only the CONTENT of a Copy made while the file holds
   bytes beyond the current offset is allowed to carry those bytes behind the byte array *)
Definition no_reopen (ops : list op) : bool :=
  forallb (fun o => match o with Reopen _ => false | _ => true end) ops.

Lemma om_c x y : out_match x y -> out_match_c x y. Proof. intros; left; auto. Qed.

Lemma single_session_gen : forall ops s a,
  (l_chaos a = true \/ (l_chaos a = false /\ R s a)) -> no_reopen ops = true ->
  Forall2 out_match_c (s_run s ops) (spec_run a ops).
Proof.
  induction ops as [|o ops IH]; intros s a H NR; cbn [s_run spec_run]; [constructor|].
  cbn [no_reopen forallb] in NR. apply andb_prop in NR as [NR1 NR].
  destruct H as [CH|[CH Rsa]].
  - destruct (s_step s o) as [s' x] eqn:ES.
    assert (SP : spec_step a o = (a, OAny)) by (unfold spec_step; rewrite CH; reflexivity).
    rewrite SP. constructor; [left; left; reflexivity|]. apply IH; auto.
  - assert (CASES : o = Copy \/ s_risky s o = false) by (destruct o; auto; discriminate).
    destruct CASES as [EC|NRK].
    + subst o. pose proof (sim_copy s a Rsa CH) as SC.
      destruct (s_step s Copy) as [s' x]. destruct (spec_step a Copy) as [a' y].
      destruct SC as (OM & _ & CH' & R'). constructor; auto.
    + pose proof (sim_step s a o Rsa CH NRK) as ST. unfold step_ok in ST.
      destruct (s_step s o) as [s' x] eqn:ES. destruct (spec_step a o) as [a' y] eqn:EA.
      destruct ST as [OM NX]. constructor; [apply om_c; auto|]. apply IH; auto.
Qed.

Theorem single_refines_log_session : forall p meta o ops,
  opts_valid o = true -> no_reopen ops = true ->
  Forall2 out_match_c (s_run (s_create p meta o) ops) (spec_run (log_init (zeros p) meta o) ops).
Proof.
  intros p meta o ops OV NR. apply single_session_gen; auto.
  right. split; [reflexivity|]. apply R_init; auto.
Qed.

(* ... but not every run is clean: rewind below the flushed size, close, reopen: the file was never
   truncated and Open takes the file end as the size *)
Theorem single_refines_log_refuted : exists p meta o ops,
  opts_valid o = true /\
  ~ Forall2 out_match (s_run (s_create p meta o) ops) (spec_run (log_init (zeros p) meta o) ops).
Proof.
  exists 0, [], (mko false 16 false false),
    [Append [48;49;50;51;52;53;54;55;56;57]; Flush; SetOffset 4; Close; Reopen (mko false 16 false false); Size].
  split; [reflexivity|]. intros H.
  assert (X : out_match (ON 10) (ON 4)).
  { eapply (Forall2_nth _ _ _ 5%nat); [exact H| |]; vm_compute; reflexivity. }
  destruct X as [X|X]; discriminate X.
Qed.

(* ---------- the invariant holds along EVERY run (clean or not) ---------- *)
Lemma s_step_wf s o : hwf (s_h s) (s_file s) -> hwf (s_h (fst (s_step s o))) (s_file (fst (s_step s o))).
Proof.
  intros W. destruct o; cbn [s_step]; try exact W.
  - destruct (h_append (s_h s) (s_file s) bs) as [[h' F'] x] eqn:E. cbn [fst s_h s_file].
    unfold h_append in E.
    destruct (h_closed (s_h s)) eqn:HC; [assert (h' = s_h s) by congruence; assert (F' = s_file s) by congruence; subst; auto|].
    destruct (h_ro (s_h s)) eqn:HR; [assert (h' = s_h s) by congruence; assert (F' = s_file s) by congruence; subst; auto|].
    destruct (N.eqb_spec (len bs) 0) as [Z|NZ]; [assert (h' = s_h s) by congruence; assert (F' = s_file s) by congruence; subst; auto|].
    assert (LB : 0 < len bs) by (clear - NZ; lia).
    assert (EA : h_append (s_h s) (s_file s) bs = (h', F', x)).
    { unfold h_append. rewrite HC, HR. replace (len bs =? 0) with false by (symmetry; apply N.eqb_neq; auto). exact E. }
    destruct (h_append_spec _ _ _ _ _ _ W HC HR LB EA) as (W' & _). exact W'.
  - destruct (h_setoffset (s_h s) off) as [h' x] eqn:E. cbn [fst s_h s_file].
    unfold h_setoffset in E.
    destruct (h_closed (s_h s)) eqn:HC; [assert (h' = s_h s) by congruence; subst; auto|].
    destruct (h_ro (s_h s)) eqn:HR; [assert (h' = s_h s) by congruence; subst; auto|].
    assert (ES : h_setoffset (s_h s) off = (h', x)) by (unfold h_setoffset; rewrite HC, HR; exact E).
    destruct (h_setoffset_spec _ _ _ _ _ W HC HR ES) as [(_ & EH & _)|(_ & _ & W' & _)]; [subst; auto|exact W'].
  - unfold h_flush_op.
    destruct (h_closed (s_h s)); [exact W|]. destruct (h_ro (s_h s)); [exact W|].
    destruct (h_flush (s_h s) (s_file s)) as [h' F'] eqn:E. cbn [fst s_h s_file].
    destruct (h_flush_spec _ _ _ _ W E) as (W' & _). exact W'.
  - unfold h_sync_op.
    destruct (h_closed (s_h s)); [exact W|]. destruct (h_ro (s_h s)); [exact W|].
    destruct (h_sync (s_h s) (s_file s)) as [h' F'] eqn:E. cbn [fst s_h s_file].
    destruct (h_sync_spec _ _ _ _ W E) as (W' & _). exact W'.
  - destruct (h_switch_ro (s_h s) (s_file s)) as [[h' F'] x] eqn:E. cbn [fst s_h s_file].
    pose proof E as E0. unfold h_switch_ro in E.
    destruct (h_closed (s_h s)) eqn:HC; [assert (h' = s_h s) by congruence; assert (F' = s_file s) by congruence; subst; auto|].
    destruct (h_ro (s_h s)) eqn:HR; [assert (h' = s_h s) by congruence; assert (F' = s_file s) by congruence; subst; auto|].
    destruct (h_switch_ro_spec _ _ _ _ _ W HC HR E0) as (_ & W' & _). exact W'.
  - destruct (h_close (s_h s) (s_file s)) as [[h' F'] x] eqn:E. cbn [fst s_h s_file].
    pose proof E as E0. unfold h_close in E.
    destruct (h_closed (s_h s)) eqn:HC; [assert (h' = s_h s) by congruence; assert (F' = s_file s) by congruence; subst; auto|].
    destruct (h_close_spec _ _ _ _ _ W HC E0) as (_ & W' & _). exact W'.
  - destruct (h_closed (s_h s)); [|exact W].
    destruct (opts_valid o) eqn:OV; [|exact W]. cbn [fst s_h s_file]. apply h_open_wf; auto.
  - destruct (h_copy (s_h s) (s_file s)) as [[h' F'] x] eqn:E. cbn [fst s_h s_file].
    pose proof E as E0. unfold h_copy in E.
    destruct (h_closed (s_h s)) eqn:HC; [assert (h' = s_h s) by congruence; assert (F' = s_file s) by congruence; subst; auto|].
    destruct (h_copy_spec _ _ _ _ _ W HC E0) as (_ & W' & _). exact W'.
Qed.

Lemma s_state_wf ops : forall s, hwf (s_h s) (s_file s) -> hwf (s_h (s_state s ops)) (s_file (s_state s ops)).
Proof.
  induction ops as [|o ops IH]; intros s W; cbn [s_state]; auto.
  apply IH. apply s_step_wf. exact W.
Qed.

Lemma s_create_wf p meta o : opts_valid o = true -> hwf (s_h (s_create p meta o)) (s_file (s_create p meta o)).
Proof. intros OV. unfold s_create; cbn [s_h s_file]. apply h_open_wf; auto. Qed.

(* in every state reachable by ANY run the write-buffer indices are in range (no Go slice panic) *)
Theorem single_buffer_indices_in_range : forall p meta o ops,
  opts_valid o = true ->
  let h := s_h (s_state (s_create p meta o) ops) in
  h_fl h <= h_uw h /\ h_uw h <= len (h_wbuf h) /\ h_fl h <= h_fo h.
Proof.
  intros p meta o ops OV. cbn zeta.
  pose proof (s_state_wf ops _ (s_create_wf p meta o OV)) as W.
  destruct W. splits; auto.
Qed.

(* ---------- rewind, append, read back: holds in every reachable state ---------- *)
Lemma slice_app_exact a b : slice (a ++ b) (len a) (len a + len b) = b.
Proof.
  rewrite slice_app_r by (clear; lia). rewrite N.sub_diag.
  replace (len a + len b - len a) with (len b) by (clear; lia). apply slice_all.
Qed.

Lemma rewind_append_read s n bs off :
  hwf (s_h s) (s_file s) ->
  s_run s [SetOffset n; Append bs] = [OOk; OApp off (len bs)] ->
  s_run s [SetOffset n; Append bs; ReadAt (len bs) n] = [OOk; OApp n (len bs); ORead bs false].
Proof.
  intros W H. cbn [s_run] in *. cbn [s_step] in *.
  destruct (h_setoffset (s_h s) n) as [h1 x1] eqn:E1.
  cbn [s_h s_file s_meta] in *.
  destruct (h_append h1 (s_file s) bs) as [[h2 F2] x2] eqn:E2.
  cbn [s_h s_file s_meta] in *.
  assert (X1 : x1 = OOk) by congruence. assert (X2 : x2 = OApp off (len bs)) by congruence. clear H. subst x1 x2.
  assert (HC : h_closed (s_h s) = false).
  { destruct (h_closed (s_h s)) eqn:HC; auto. unfold h_setoffset in E1. rewrite HC in E1. congruence. }
  assert (HR : h_ro (s_h s) = false).
  { destruct (h_ro (s_h s)) eqn:HR; auto. unfold h_setoffset in E1. rewrite HC, HR in E1. congruence. }
  destruct (h_setoffset_spec _ _ _ _ _ W HC HR E1) as [(_ & _ & EX)|(LE & _ & W1 & C1 & S1 & _)]; [discriminate|].
  pose proof (len_content _ _ W) as LC. pose proof (len_content _ _ W1) as LC1.
  assert (O1 : h_offset h1 = n).
  { rewrite <- LC1, C1, len_take, LC. clear - LE. lia. }
  assert (HC1 : h_closed h1 = false) by (destruct S1; congruence).
  assert (HR1 : h_ro h1 = false) by (destruct S1; congruence).
  assert (LB : 0 < len bs).
  { destruct (N.eqb_spec (len bs) 0) as [Z|NZ]; [|clear - NZ; lia].
    unfold h_append in E2. rewrite HC1, HR1 in E2.
    replace (len bs =? 0) with true in E2 by (symmetry; apply N.eqb_eq; auto). congruence. }
  destruct (h_append_spec _ _ _ _ _ _ W1 HC1 HR1 LB E2) as (W2 & C2 & S2 & X & _).
  cbn zeta in *. rewrite O1 in X.
  set (w := if capmode h1 then N.min (len bs) (len (h_wbuf h1) - h_uw h1) else len bs) in *.
  assert (WW : w = len bs /\ off = n).
  { destruct (capmode h1 && (w <? len bs)); [discriminate|]. split; congruence. }
  destruct WW as [WW OFF]. rewrite WW, take_all in C2. subst off.
  assert (HC2 : h_closed h2 = false) by (destruct S2; congruence).
  unfold h_readat. rewrite HC2.
  rewrite (h_readat_spec _ _ _ _ W2 LB). rewrite C2.
  unfold spec_read. rewrite len_app. rewrite LC1, O1.
  replace (n + len bs <? n) with false by (symmetry; apply N.ltb_ge; clear; lia).
  replace (N.min (len bs) (n + len bs - n)) with (len bs) by (clear; lia).
  rewrite N.ltb_irrefl.
  assert (LN : n = len (content h1 (s_file s))) by (rewrite LC1; auto).
  assert (SL : slice (content h1 (s_file s) ++ bs) n (n + len bs) = bs)
    by (rewrite LN; apply slice_app_exact).
  rewrite SL. reflexivity.
Qed.

(* whenever a SetOffset n and an Append bs succeed — in ANY reachable state, stale tail or not,
   flushed or still buffered — the append lands at offset n and reading |bs| bytes at n returns bs *)
Theorem single_rewind_then_append_overwrites : forall p meta o ops n bs off,
  opts_valid o = true ->
  let s := s_state (s_create p meta o) ops in
  s_run s [SetOffset n; Append bs] = [OOk; OApp off (len bs)] ->
  s_run s [SetOffset n; Append bs; ReadAt (len bs) n] = [OOk; OApp n (len bs); ORead bs false].
Proof.
  intros p meta o ops n bs off OV s H. apply (rewind_append_read s n bs off); auto.
  apply s_state_wf. apply s_create_wf. exact OV.
Qed.

Example single_rewind_premise_example :
  s_run (s_state (s_create 0 [] (mko false 4 false false)) [Append [1;2;3;4;5;6;7;8;9;10]; Flush])
        [SetOffset 2; Append [11;12;13;14;15;16]] = [OOk; OApp 2 (len [11;12;13;14;15;16])].
Proof. vm_compute. reflexivity. Qed.

(* ---------- reopen ---------- *)
Lemma flushed_state s :
  hwf (s_h s) (s_file s) ->
  let s1 := fst (s_step s Flush) in
  h_closed (s_h s1) = false ->
  h_uw (s_h s1) = h_fl (s_h s1) /\ hwf (s_h s1) (s_file s1).
Proof.
  intros W. cbn zeta. cbn [s_step]. unfold h_flush_op.
  destruct (h_closed (s_h s)) eqn:HC; cbn [fst s_h s_file]; [intros; congruence|].
  destruct (h_ro (s_h s)) eqn:HR; cbn [fst s_h s_file].
  - intros _. destruct (wf_ro _ _ W HR). split; auto; congruence.
  - destruct (h_flush (s_h s) (s_file s)) as [h' F'] eqn:E. cbn [fst s_h s_file]. intros _.
    destruct (h_flush_spec _ _ _ _ W E) as (W' & _ & _ & _ & U' & _). split; auto.
Qed.

Lemma reopen_same s1 o' n off :
  hwf (s_h s1) (s_file s1) -> h_closed (s_h s1) = false -> h_uw (s_h s1) = h_fl (s_h s1) ->
  h_tail (s_h s1) (s_file s1) = false -> opts_valid o' = true -> 0 < n ->
  let s2 := s_state s1 [Close; Reopen o'] in
  snd (s_step s2 (ReadAt n off)) = snd (s_step s1 (ReadAt n off)) /\
  snd (s_step s2 Size) = snd (s_step s1 Size).
Proof.
  intros W HC U NT OV NP. cbn zeta. cbn [s_state s_step].
  destruct (h_close (s_h s1) (s_file s1)) as [[h' F'] x] eqn:EC. cbn [fst s_h s_file s_meta].
  destruct (h_close_spec _ _ _ _ _ W HC EC) as (_ & W' & C' & RO' & CL' & FO' & U' & _).
  rewrite CL', OV. cbn [fst snd s_h s_file s_meta].
  unfold h_tail in NT. apply N.ltb_ge in NT. pose proof (wf_fo _ _ W) as FL.
  assert (EF : h_fo (s_h s1) = len (s_file s1)) by (clear - NT FL; lia).
  assert (C1 : content (s_h s1) (s_file s1) = s_file s1).
  { unfold content. rewrite U, EF, take_all, slice_empty by (clear; lia). apply app_nil_r. }
  (* Close wrote nothing *)
  assert (FF : F' = s_file s1).
  { unfold h_close in EC. rewrite HC in EC. destruct (h_ro (s_h s1)).
    - congruence.
    - unfold h_flush in EC. rewrite U, N.sub_diag in EC. cbn [N.eqb] in EC. congruence. }
  subst F'.
  pose proof (h_open_wf (s_file s1) o' OV) as WO.
  pose proof (content_open (s_file s1) (ro_nobuf o')) as CO.
  pose proof (len_content _ _ WO) as LO. pose proof (len_content _ _ W) as L1.
  split.
  - unfold h_readat. rewrite HC. change (h_closed (h_open (s_file s1) (ro_nobuf o'))) with false. cbn iota.
    rewrite (h_readat_spec _ _ _ _ WO NP), (h_readat_spec _ _ _ _ W NP).
    rewrite CO, C1. reflexivity.
  - unfold h_size. rewrite HC. change (h_closed (h_open (s_file s1) (ro_nobuf o'))) with false. cbn iota.
    rewrite <- LO, <- L1, CO, C1. reflexivity.
Qed.

(* after Flush, Close and a reopen (with any valid options) every read and the size are what they
   were before the Close — provided the file holds nothing beyond the flushed offset *)
Theorem single_reopen_same_bytes_and_size_partial : forall p meta o ops o' n off,
  opts_valid o = true -> opts_valid o' = true -> 0 < n ->
  let s1 := s_state (s_create p meta o) (ops ++ [Flush]) in
  h_closed (s_h s1) = false ->
  h_tail (s_h s1) (s_file s1) = false ->
  let s2 := s_state s1 [Close; Reopen o'] in
  snd (s_step s2 (ReadAt n off)) = snd (s_step s1 (ReadAt n off)) /\
  snd (s_step s2 Size) = snd (s_step s1 Size).
Proof.
  intros p meta o ops o' n off OV OV' NP s1 HC NT.
  assert (ST : s1 = fst (s_step (s_state (s_create p meta o) ops) Flush)).
  { unfold s1. clear. generalize (s_create p meta o). induction ops as [|x ops IH]; intros s; cbn [app s_state]; auto. }
  pose proof (s_state_wf ops _ (s_create_wf p meta o OV)) as W0.
  rewrite ST in HC. destruct (flushed_state _ W0 HC) as [U W1]. rewrite <- ST in *.
  apply reopen_same; auto.
Qed.

Example single_reopen_premise_example :
  let s1 := s_state (s_create 0 [] (mko false 4 false false)) ([Append [1;2;3;4;5;6]; SetOffset 5] ++ [Flush]) in
  h_closed (s_h s1) = false /\ h_tail (s_h s1) (s_file s1) = false.
Proof. vm_compute. split; reflexivity. Qed.

(* the proviso is needed: append 10 bytes, flush, rewind to 4, close, reopen: the size is 10 again *)
Theorem single_reopen_same_size_refuted : exists p meta o ops o',
  opts_valid o = true /\ opts_valid o' = true /\
  let s1 := s_state (s_create p meta o) (ops ++ [Flush]) in
  h_closed (s_h s1) = false /\
  snd (s_step s1 Size) = ON 4 /\
  snd (s_step (s_state s1 [Close; Reopen o']) Size) = ON 10.
Proof.
  exists 0, [], (mko false 16 false false), [Append [48;49;50;51;52;53;54;55;56;57]; Flush; SetOffset 4],
    (mko false 16 false false).
  vm_compute. repeat split; reflexivity.
Qed.
