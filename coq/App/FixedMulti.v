(* C17 — multiapp since 09014a8 (App/Fixed.v): no stale chunk file and no stale tail ever exists,
   so the refinement holds for every operation sequence. *)
From V Require Import Base.Bytes App.Spec App.Single App.ListN App.SingleProofs App.SingleSim.
From V Require Import App.Multi App.MultiProofs App.MultiRead App.MultiSim App.Fixed App.FixedProofs.
From Coq Require Import ZifyN ZifyNat ZifyBool.

Definition maxi (m : mapp) : Prop := forall i F, In (i, F) (m_disk m) -> i <= m_cur m.

Lemma maxi_stale m : maxi m -> m_stale m = false.
Proof.
  intros MX. unfold m_stale. destruct (existsb _ _) eqn:E; auto.
  apply existsb_exists in E as ((i & F) & I & L). apply N.ltb_lt in L. apply MX in I. lia.
Qed.

(* nothing stale anywhere, and not preallocated *)
Definition clean (m : mapp) : Prop :=
  maxi m /\ notail (m_app m) (cur_file m) /\ m_prealloc m = false.

Lemma In_dset d i F j G : In (i, F) (dset d j G) -> (i = j /\ F = G) \/ In (i, F) d.
Proof.
  induction d as [|[k H] d IH]; simpl.
  - intros [E|[]]. left. split; congruence.
  - destruct (N.eqb_spec k j); simpl; intros [E|I]; auto.
    + left. split; congruence.
    + destruct (IH I); auto.
Qed.

Lemma clean_not_risky m a o : Rm m a -> clean m -> m_risky m o = false.
Proof.
  intros [D Fl] (MX & T & _). pose proof (maxi_stale _ MX) as ST. unfold notail in T.
  destruct o; try reflexivity; cbn [m_risky].
  - rewrite ST. rewrite andb_false_r. reflexivity.
  - unfold m_dirty, h_tail. rewrite ST, T, N.ltb_irrefl. apply andb_false_r.
  - rewrite ST. cbn [orb].
    replace (h_offset (m_app m) <? len (cur_file m)) with false; [apply andb_false_r|].
    symmetry. apply N.ltb_ge. rewrite T. unfold h_offset. lia.
Qed.

Lemma clean_upd_cur m h F :
  clean m -> dget (m_disk m) (m_cur m) <> None -> notail h F -> clean (m_upd_cur m h F).
Proof.
  intros (MX & _ & P) EX T. unfold clean. splits; auto.
  - intros i G I. unfold m_upd_cur, m_with in I; cbn [m_disk m_cur] in *.
    apply In_dset in I as [[E _]|I]; [subst; unfold m_upd_cur, m_with; cbn; lia|].
    apply MX in I. exact I.
  - rewrite cur_file_upd. exact T.
Qed.

Lemma clean_ext m m2 :
  clean m -> m_disk m2 = m_disk m -> m_cur m2 = m_cur m -> m_app m2 = m_app m -> m_prealloc m2 = m_prealloc m ->
  clean m2.
Proof.
  intros (MX & T & P) E1 E2 E3 E4. unfold clean, maxi, cur_file, m_file in *. rewrite E1, E2, E3, E4. auto.
Qed.

(* ---------- every operation other than SetOffset keeps the state clean ---------- *)
Lemma cur_op_clean m a f :
  Rm m a -> clean m ->
  (forall h F h' F' x, hwf h F -> notail h F -> f h F = (h', F', x) -> notail h' F') ->
  clean (fst (m_cur_op m f)).
Proof.
  intros [D Fl] C HF. unfold m_cur_op.
  destruct (m_closed m); [exact C|]. destruct (m_ro m); [exact C|].
  destruct (f (m_app m) (cur_file m)) as [[h' F'] x] eqn:E. cbn [fst].
  apply clean_upd_cur; auto. apply (rd_ex _ _ D).
  destruct C as (_ & T & _). eapply HF; eauto. apply (rd_wf _ _ D).
Qed.

Lemma flush_op_T h F h' F' x : hwf h F -> notail h F -> h_flush_op h F = (h', F', x) -> notail h' F'.
Proof.
  intros W T E. unfold h_flush_op in E.
  destruct (h_closed h); [assert (h' = h) by congruence; assert (F' = F) by congruence; subst; auto|].
  destruct (h_ro h); [assert (h' = h) by congruence; assert (F' = F) by congruence; subst; auto|].
  destruct (h_flush h F) as [h1 F1] eqn:EF. assert (h' = h1) by congruence. assert (F' = F1) by congruence. subst.
  eapply h_flush_T; eauto.
Qed.

Lemma sync_op_T h F h' F' x : hwf h F -> notail h F -> h_sync_op h F = (h', F', x) -> notail h' F'.
Proof.
  intros W T E. unfold h_sync_op in E.
  destruct (h_closed h); [assert (h' = h) by congruence; assert (F' = F) by congruence; subst; auto|].
  destruct (h_ro h); [assert (h' = h) by congruence; assert (F' = F) by congruence; subst; auto|].
  destruct (h_sync h F) as [h1 F1] eqn:EF. assert (h' = h1) by congruence. assert (F' = F1) by congruence. subst.
  eapply h_sync_T; eauto.
Qed.

(* the cache-only changes of a lookup *)
Definition core_eq (m m2 : mapp) : Prop :=
  m_disk m2 = m_disk m /\ m_cur m2 = m_cur m /\ m_app m2 = m_app m /\ m_prealloc m2 = m_prealloc m /\ m_fs m2 = m_fs m.

Lemma handle_for_core m id : core_eq m (fst (m_handle_for m id)).
Proof.
  unfold m_handle_for. destruct (id =? m_cur m); [repeat split|].
  destruct (cget (m_cache m) id); [repeat split|].
  unfold m_open_chunk. destruct (dget (m_disk m) id); cbn [fst]; repeat split.
Qed.

Lemma read_loop_core fuel : forall m n off acc, core_eq m (fst (m_read_loop fuel m n off acc)).
Proof.
  induction fuel as [|fuel IH]; intros m n off acc; cbn [m_read_loop fst]; [repeat split|].
  destruct (n <=? len acc); [repeat split|].
  pose proof (handle_for_core m ((off + len acc) / m_fs m)) as HC.
  destruct (m_handle_for m ((off + len acc) / m_fs m)) as [m1 oh]. cbn [fst] in HC.
  assert (TR : forall m2, core_eq m1 m2 -> core_eq m m2).
  { intros m2 (A1 & A2 & A3 & A4 & A5). destruct HC as (B1 & B2 & B3 & B4 & B5). repeat split; congruence. }
  destruct oh as [h|]; cbn [fst]; auto.
  destruct (h_readat h (m_file m1 ((off + len acc) / m_fs m)) (n - len acc) ((off + len acc) mod m_fs m)); cbn [fst]; auto.
  destruct eof; [destruct (0 <? len bs)|]; cbn [fst]; auto.
Qed.

Lemma clean_core m m2 : clean m -> core_eq m m2 -> clean m2.
Proof. intros C (A1 & A2 & A3 & A4 & _). eapply clean_ext; eauto. Qed.

(* ---------- Append ---------- *)
Lemma inner_append_clean m a t h' F' x :
  Rm m a -> clean m -> h_append (m_app m) (cur_file m) t = (h', F', x) -> clean (m_upd_cur m h' F').
Proof.
  intros [D Fl] C E. apply clean_upd_cur; auto. apply (rd_ex _ _ D).
  destruct C as (_ & T & _). eapply h_append_T; eauto. apply (rd_wf _ _ D).
Qed.

Lemma rotate_clean m a :
  Rm m a -> clean m -> m_closed m = false -> m_ro m = false -> clean (fst (m_rotate m)).
Proof.
  intros [D Fl] (MX & T & P) MC MR.
  assert (ACL : h_closed (m_app m) = false) by (rewrite (rf_acl _ _ Fl); auto).
  assert (ARO : h_ro (m_app m) = false) by (rewrite (rf_aro _ _ Fl); auto).
  pose proof (rd_wf _ _ D) as W.
  unfold m_rotate.
  destruct (h_switch_ro (m_app m) (cur_file m)) as [[h1 F1] x] eqn:ES.
  destruct (h_switch_ro_spec _ _ _ _ _ W ACL ARO ES) as (X & _). subst x.
  set (d1 := dset (m_disk m) (m_cur m) F1).
  assert (NONE : dget d1 (m_cur m + 1) = None).
  { unfold d1. rewrite dget_dset_other by lia.
    destruct (dget (m_disk m) (m_cur m + 1)) as [G|] eqn:GG; auto.
    apply dget_In in GG. apply MX in GG. lia. }
  unfold m_open_chunk. rewrite NONE, P. change (zeros 0) with (@nil N).
  set (h2 := h_open [] (m_oopts m true)).
  assert (ES0 : h_setoffset h2 0 = (h2, OOk)).
  { unfold h_setoffset, h2, h_open, m_oopts. cbn [h_closed h_ro o_ro]. rewrite MR. reflexivity. }
  rewrite ES0. cbn [fst]. unfold clean. splits.
  - intros i G I. unfold m_with in *; cbn [m_disk m_cur] in *.
    apply In_dset in I as [[E _]|I]; [lia|]. unfold d1 in I.
    apply In_dset in I as [[E _]|I]; [lia|]. apply MX in I. lia.
  - unfold notail, cur_file, m_file, m_with; cbn [m_disk m_cur m_app]. rewrite dget_dset_same. reflexivity.
  - exact P.
Qed.

Lemma append_loop_clean fuel : forall m a rest n off,
  Rm m a -> clean m -> m_closed m = false -> m_ro m = false -> (length rest < fuel)%nat ->
  clean (fst (m_append_loop fuel m rest n off)).
Proof.
  induction fuel as [|fuel IH]; intros m a rest n off Rma C MC MR LE; [lia|].
  cbn [m_append_loop].
  destruct (N.eqb_spec (len rest) 0) as [Z|NZ]; [exact C|].
  assert (LR : 0 < len rest) by (clear - NZ; lia).
  pose proof Rma as [D Fl]. pose proof (rd_fs _ _ D) as FS. pose proof (rd_off _ _ D) as OF.
  assert (exists m1 avail, (if m_fs m <=? h_offset (m_app m)
                            then let '(m', e) := m_rotate m in (m', m_fs m, e)
                            else (m, m_fs m - h_offset (m_app m), false)) = (m1, avail, false) /\
            Rm m1 a /\ clean m1 /\ m_closed m1 = false /\ m_ro m1 = false /\ 0 < avail /\
            h_offset (m_app m1) + avail = m_fs m1)
    as (m1 & avail & E1 & R1 & C1 & MC1 & MR1 & AV & FIT).
  { destruct (N.leb_spec (m_fs m) (h_offset (m_app m))) as [FULL|ROOM].
    - destruct (rotate_spec m a Rma MC MR FULL) as (m1 & ER & R1 & CU1 & O1 & F1 & MC1 & MR1).
      pose proof (rotate_clean m a Rma C MC MR) as RC. rewrite ER in RC. cbn [fst] in RC.
      exists m1, (m_fs m). rewrite ER. splits; auto. rewrite O1, F1. clear. lia.
    - exists m, (m_fs m - h_offset (m_app m)). splits; auto; clear - ROOM; lia. }
  rewrite E1. cbn iota.
  set (d := N.min avail (len rest)).
  assert (DP : 0 < d) by (unfold d; clear - AV LR; lia).
  assert (DL : len (take d rest) = d) by (rewrite len_take; unfold d; clear; lia).
  destruct (h_append (m_app m1) (cur_file m1) (take d rest)) as [[h' F'] x] eqn:EA.
  assert (LT : 0 < len (take d rest)) by (rewrite DL; exact DP).
  assert (FT : h_offset (m_app m1) + len (take d rest) <= m_fs m1) by (rewrite DL; unfold d; clear - FIT; lia).
  destruct (inner_append m1 a (take d rest) h' F' x R1 MC1 MR1 LT FT EA) as [X R2].
  pose proof (inner_append_clean m1 a (take d rest) h' F' x R1 C1 EA) as C2.
  subst x.
  apply (IH _ _ _ _ _ R2 C2); auto.
  unfold drop. rewrite skipn_length. assert (0 < N.to_nat d)%nat by (clear - DP; lia).
  assert (length rest <> 0)%nat by (unfold len in LR; clear - LR; lia). clear - LE H H0. lia.
Qed.

(* ---------- all operations but SetOffset ---------- *)
Lemma mstep_clean m a o :
  Rm m a -> clean m -> match o with SetOffset _ => False | _ => True end -> clean (fst (m_step m o)).
Proof.
  intros Rma C NS. pose proof Rma as [D Fl]. destruct o; try contradiction; cbn [m_step fst]; auto.
  - (* Append *)
    unfold m_append. destruct (m_closed m) eqn:MC; [exact C|]. destruct (m_ro m) eqn:MR; [exact C|].
    destruct (len bs =? 0); [exact C|]. eapply append_loop_clean; eauto.
  - (* ReadAt *)
    unfold m_readat. destruct (n =? 0); [exact C|]. destruct (m_closed m); [exact C|].
    eapply clean_core; eauto. apply read_loop_core.
  - apply (cur_op_clean m a); auto. apply flush_op_T.
  - apply (cur_op_clean m a); auto. apply sync_op_T.
  - (* Discard *)
    unfold m_discard. destruct (m_closed m); [exact C|]. destruct (m_offset m <? off); [exact C|]. cbn [fst].
    destruct C as (MX & T & P). unfold clean. splits; auto.
    + intros i G I. unfold m_with in *; cbn [m_disk m_cur] in *. apply filter_In in I as [I _]. exact (MX i G I).
    + unfold notail, cur_file, m_file, m_with in *; cbn [m_disk m_cur m_app] in *. rewrite dget_filter.
      replace (negb (m_cur m <? N.min (off / m_fs m) (m_cur m))) with true; auto.
      symmetry. apply negb_true_iff, N.ltb_ge. clear. lia.
  - (* SwitchRO *)
    unfold m_switch_ro.
    pose proof (cur_op_clean m a h_switch_ro Rma C h_switch_ro_T) as CC.
    destruct (m_cur_op m h_switch_ro) as [m' x]. cbn [fst] in CC.
    destruct x; cbn [fst]; auto; eapply clean_ext; eauto.
  - (* Close *)
    unfold m_close. destruct (m_closed m); [exact C|].
    destruct (h_close (m_app m) (cur_file m)) as [[h' F'] x] eqn:E. cbn [fst].
    assert (CC : clean (m_upd_cur m h' F')).
    { apply clean_upd_cur; auto. apply (rd_ex _ _ D). destruct C as (_ & T & _).
      eapply h_close_T; eauto. apply (rd_wf _ _ D). }
    eapply clean_ext; eauto.
  - (* Reopen *)
    destruct (m_closed m); [|exact C]. destruct (opts_valid o); [|exact C]. cbn [fst].
    destruct C as (MX & T & P).
    unfold m_reopen. rewrite (dmax_spec _ _ MX (rd_ex _ _ D)). unfold m_open_chunk.
    destruct (dget (m_disk m) (m_cur m)) as [F|] eqn:G; [|exfalso; apply (rd_ex _ _ D); exact G].
    unfold clean. splits; auto.
    unfold notail, cur_file, m_file, m_with; cbn [m_disk m_cur m_app]. rewrite G. reflexivity.
  - (* Copy *)
    unfold m_copy. destruct (m_closed m); [exact C|].
    assert (C1 : clean (fst (if m_ro m then (m, OOk)
                            else let '(h', F', x) := h_sync_op (m_app m) (cur_file m) in (m_upd_cur m h' F', x)))).
    { destruct (m_ro m); [exact C|].
      destruct (h_sync_op (m_app m) (cur_file m)) as [[h' F'] x] eqn:E. cbn [fst].
      apply clean_upd_cur; auto. apply (rd_ex _ _ D). destruct C as (_ & T & _).
      eapply sync_op_T; eauto. apply (rd_wf _ _ D). }
    destruct (if m_ro m then (m, OOk)
              else let '(h', F', x) := h_sync_op (m_app m) (cur_file m) in (m_upd_cur m h' F', x)) as [m1 x].
    cbn [fst] in C1. destruct x; cbn [fst]; auto.
    destruct (m_size _); cbn [fst]; auto.
Qed.

(* ---------- SetOffset with the repair ---------- *)
(* rewinding inside the current chunk *)
Lemma cur_setoffset_fx_ok m a off :
  Rm m a -> clean m -> m_closed m = false -> m_ro m = false ->
  m_cur m * m_fs m <= off -> off < m_offset m ->
  exists m', m_cur_setoffset_fx m (m_disk m) (m_cur m) (m_app m) (m_cache m) (off - m_cur m * m_fs m) = (m', OOk) /\
             Rm m' (set_data a (take off (l_data a))) /\ clean m'.
Proof.
  intros Rma C MC MR CL OLT. pose proof Rma as [D Fl]. destruct C as (MX & T & P).
  pose proof (rd_wf _ _ D) as W. pose proof (rd_len _ _ D) as LN. pose proof (rd_off _ _ D) as OF.
  pose proof (Rd_size _ _ D) as SZ. unfold l_size in SZ.
  assert (ACL : h_closed (m_app m) = false) by (rewrite (rf_acl _ _ Fl); auto).
  assert (ARO : h_ro (m_app m) = false) by (rewrite (rf_aro _ _ Fl); auto).
  pose proof (rd_ex _ _ D) as EX.
  unfold m_cur_setoffset_fx.
  destruct (dget (m_disk m) (m_cur m)) as [F|] eqn:G; [|congruence].
  assert (CF : cur_file m = F) by (unfold cur_file, m_file; rewrite G; reflexivity).
  rewrite CF in *. unfold notail in T.
  set (local := off - m_cur m * m_fs m) in *.
  destruct (h_setoffset (m_app m) local) as [h' x] eqn:ES.
  destruct (h_setoffset_spec _ _ _ _ _ W ACL ARO ES) as [(LT & _)|(_ & X & W' & C' & S' & IM & FI)].
  { exfalso. unfold m_offset in OLT. unfold local in LT. clear - LT OLT CL. lia. }
  subst x. rewrite P. cbn [negb andb]. rewrite andb_true_r.
  set (F' := if local <? h_fo (m_app m) then take local F else F).
  assert (FACTS : hwf h' F' /\ content h' F' = take local (content (m_app m) F) /\ len F' <= len F /\ notail h' F').
  { unfold F'. destruct (N.ltb_spec local (h_fo (m_app m))) as [L|L].
    - destruct (FI L) as (A1 & A2 & A3).
      assert (LL : local <= len F) by (pose proof (wf_fo _ _ W); clear - L H; lia).
      splits.
      + destruct W'. constructor; auto. rewrite len_take, A1. clear - LL. lia.
      + rewrite <- C'. unfold content. rewrite A1, take_take. f_equal. f_equal. clear. lia.
      + rewrite len_take. clear. lia.
      + unfold notail. rewrite len_take, A1. clear - LL. lia.
    - destruct (IM L) as (A1 & A2). splits; auto; try (clear; lia). unfold notail. congruence. }
  destruct FACTS as (WF & CO & LF & NT).
  assert (MU : m_with m (if local <? h_fo (m_app m) then dset (m_disk m) (m_cur m) (take local F) else m_disk m)
                      (m_cur m) h' (m_cache m) = m_upd_cur m h' F').
  { unfold m_upd_cur, F'. destruct (local <? h_fo (m_app m)); auto. f_equal. symmetry. apply dset_same. exact G. }
  rewrite MU. eexists. split; [reflexivity|].
  assert (OF' : h_offset h' = local).
  { rewrite <- (len_content _ _ WF), CO, len_take, (len_content _ _ W). unfold m_offset in OLT. unfold local. clear - OLT CL. lia. }
  assert (LFS : len F <= m_fs m) by (eapply (rd_lenF _ _ D); eauto).
  split; [split|].
  - apply (Rd_upd_cur m a); lsimp; auto.
    + clear - LF LFS. lia.
    + rewrite OF'. unfold m_offset in OLT. unfold local. clear - OLT OF. lia.
    + rewrite len_take, SZ. clear - CL OLT. lia.
    + rewrite drop_take, (rd_data _ _ D), CF. symmetry. exact CO.
    + rewrite take_take. f_equal. clear - CL. lia.
    + clear. lia.
  - apply (Rf_upd_cur m a); auto. intros; congruence.
  - apply clean_upd_cur; auto. unfold clean. splits; auto. unfold notail. rewrite CF. exact T. rewrite G. discriminate.
Qed.

Lemma drop_ids_dget lo hi (d : disk) i :
  dget (drop_ids lo hi d) i = if negb ((lo <? i) && (i <=? hi)) then dget d i else None.
Proof. unfold drop_ids. apply (dget_filter (fun j => negb ((lo <? j) && (j <=? hi)))). Qed.

Lemma drop_ids_cget lo hi (c : hcache) i :
  cget (drop_ids lo hi c) i = if negb ((lo <? i) && (i <=? hi)) then cget c i else None.
Proof. unfold drop_ids. apply (cget_filter (fun j => negb ((lo <? j) && (j <=? hi)))). Qed.

Lemma msim_setoffset_fx m a off :
  Rm m a -> clean m -> l_chaos a = false ->
  let '(m', x) := m_setoffset_fx m off in
  let '(a', y) := spec_step a (SetOffset off) in
  out_match x y /\ (l_chaos a' = true \/ (l_chaos a' = false /\ Rm m' a' /\ clean m')).
Proof.
  intros Rma C CH. pose proof Rma as [D Fl].
  unfold spec_step. rewrite CH.
  destruct (m_setoffset_fx m off) as [m' x] eqn:EM. unfold m_setoffset_fx in EM.
  rewrite (rf_closed _ _ Fl), (rf_ro _ _ Fl), (Rd_size _ _ D).
  destruct (m_closed m) eqn:MC; cbn [orb].
  { assert (m' = m) by congruence. assert (x = OErr) by congruence. subst. split; [apply om_refl|right; auto]. }
  destruct (m_ro m) eqn:MR; cbn [orb].
  { assert (m' = m) by congruence. assert (x = OErr) by congruence. subst. split; [apply om_refl|right; auto]. }
  destruct (N.ltb_spec (m_offset m) off) as [GT|LE].
  { assert (m' = m) by congruence. assert (x = OErr) by congruence. subst. split; [apply om_refl|right; auto]. }
  destruct (N.eqb_spec off (m_offset m)) as [EQ|NE].
  { assert (m' = m) by congruence. assert (x = OOk) by congruence. subst m' x. split; [apply om_refl|right; auto]. }
  destruct (N.ltb_spec off (l_disc a)) as [DS|DS].
  { split; [left; reflexivity|left; reflexivity]. }
  cbn zeta.
  assert (GOAL : x = OOk /\ Rm m' (set_data a (take off (l_data a))) /\ clean m').
  2:{ destruct GOAL as (X & R' & C'). subst x.
      destruct (l_fl a <=? off); (split; [apply om_refl|right; splits; auto]). apply Rm_marks. exact R'. }
  pose proof (rd_fs _ _ D) as FS. pose proof (rd_wf _ _ D) as W. pose proof (rd_len _ _ D) as LN.
  pose proof (Rd_size _ _ D) as SZ. unfold l_size in SZ. pose proof (rd_off _ _ D) as OF.
  assert (OLT : off < m_offset m) by (clear - LE NE; lia).
  assert (ACL : h_closed (m_app m) = false) by (rewrite (rf_acl _ _ Fl); auto).
  destruct (N.eqb_spec (m_cur m) (off / m_fs m)) as [SAME|DIFF].
  - assert (CL : m_cur m * m_fs m <= off).
    { rewrite SAME. rewrite N.mul_comm. apply N.mul_div_le. clear - FS. lia. }
    assert (CU : off < (m_cur m + 1) * m_fs m) by (unfold m_offset in OLT; clear - OLT OF; lia).
    destruct (mod_sub_chunk off (m_fs m) (m_cur m) FS CL CU) as [_ MOD]. rewrite MOD in EM.
    destruct (cur_setoffset_fx_ok m a off Rma C MC MR CL OLT) as (m2 & E2 & R2 & C2).
    rewrite E2 in EM. assert (m' = m2) by congruence. assert (x = OOk) by congruence. subst. auto.
  - set (id := off / m_fs m) in *.
    assert (IL : id * m_fs m <= off) by (unfold id; rewrite N.mul_comm; apply N.mul_div_le; clear - FS; lia).
    assert (IU : off < (id + 1) * m_fs m).
    { unfold id. pose proof (N.mod_lt off (m_fs m)). pose proof (N.div_mod off (m_fs m)). clear - H H0 FS. lia. }
    assert (ILT : id < m_cur m).
    { unfold m_offset in OLT. assert (id <= m_cur m) by (clear - IL OLT OF FS; nia). clear - H DIFF. lia. }
    destruct (mod_sub_chunk off (m_fs m) id FS IL IU) as [_ MOD]. rewrite MOD in EM.
    destruct (h_close (m_app m) (cur_file m)) as [[h1 F1] x1] eqn:EC.
    destruct (h_close_spec _ _ _ _ _ W ACL EC) as (X1 & W1 & C1 & _). subst x1.
    assert (LF1 : len F1 <= m_fs m).
    { pose proof (cur_file_len _ _ D) as LC.
      destruct (h_close_len _ _ _ _ _ W EC) as [L|L]; [rewrite L; clear - LC OF; lia|subst; auto]. }
    pose proof (rd_old _ _ D id ILT) as OLD.
    destruct (dget (m_disk m) id) as [Fi|] eqn:GI; [|exfalso; clear - OLD DS IU; lia].
    set (d1 := dset (m_disk m) (m_cur m) F1) in *.
    assert (GI1 : dget d1 id = Some Fi) by (unfold d1; rewrite dget_dset_other by (clear - ILT; lia); exact GI).
    unfold m_open_chunk in EM. rewrite GI1 in EM.
    set (h2 := h_open Fi (m_oopts m true)) in *.
    set (c1 := cdrop_range (m_cache m) id (m_cur m)) in *.
    set (dM := drop_ids id (m_cur m) d1) in *. set (cM := drop_ids id (m_cur m) c1) in *.
    set (mM := m_with m dM id h2 cM).
    assert (EQM : m_cur_setoffset_fx m dM id h2 cM (off - id * m_fs m) =
                  m_cur_setoffset_fx mM (m_disk mM) (m_cur mM) (m_app mM) (m_cache mM) (off - m_cur mM * m_fs mM))
      by reflexivity.
    rewrite EQM in EM.
    assert (BUF : 0 < m_buf m) by (apply (rf_buf _ _ Fl); auto).
    assert (W2 : hwf h2 Fi).
    { unfold h2, m_oopts. rewrite MR. cbn [andb negb]. apply h_open_wf_rw. exact BUF. }
    assert (TOP : (id + 1) * m_fs m <= len (l_data a)) by (clear - ILT LN; nia).
    assert (LFi : len Fi = m_fs m) by (rewrite OLD, len_slice; clear - TOP; lia).
    assert (CO2 : content h2 Fi = Fi) by apply content_open.
    destruct C as (MX & T & P).
    assert (GM : forall i, i <= id -> dget dM i = dget (m_disk m) i).
    { intros i L. unfold dM. rewrite drop_ids_dget.
      replace (id <? i) with false by (symmetry; apply N.ltb_ge; exact L). cbn [andb negb].
      unfold d1. apply dget_dset_other. clear - L ILT. lia. }
    set (aM := set_data a (take ((id + 1) * m_fs m) (l_data a))).
    assert (RM : Rm mM aM).
    { split.
      - constructor; unfold mM, aM, m_with, cur_file, m_file; cbn [m_disk m_cur m_app m_cache m_fs]; lsimp; auto.
        + rewrite GM, GI by (clear; lia). exact W2.
        + rewrite GM, GI by (clear; lia). discriminate.
        + unfold h2, h_offset, h_open; cbn [h_fo h_uw h_fl]. rewrite LFi. clear. lia.
        + intros i F. unfold dM. rewrite drop_ids_dget. destruct (negb _); [|discriminate].
          unfold d1. destruct (N.eq_dec (m_cur m) i) as [E|NE2].
          * subst. rewrite dget_dset_same. intros Q. assert (F = F1) by congruence. subst. exact LF1.
          * rewrite dget_dset_other by exact NE2. apply (rd_lenF _ _ D).
        + rewrite len_take. clear - TOP. lia.
        + rewrite GM, GI by (clear; lia). rewrite CO2, OLD, drop_take. unfold slice. f_equal; try (clear; lia).
        + intros i LT. rewrite GM by (clear - LT; lia).
          assert (LT' : i < m_cur m) by (clear - LT ILT; lia).
          pose proof (rd_old _ _ D i LT') as O. destruct (dget (m_disk m) i); auto.
          rewrite O. symmetry. apply slice_take. clear - LT. nia.
        + intros i h. unfold cM. rewrite drop_ids_cget. destruct (negb ((id <? i) && (i <=? m_cur m))) eqn:KEEP; [|discriminate].
          unfold c1, cdrop_range. rewrite cget_filter.
          destruct ((id <=? i) && (i <? m_cur m)) eqn:RG; cbn [negb]; [discriminate|].
          intros Q. destruct (rd_cache _ _ D i h Q) as [EXi RD].
          assert (ILE : i < id).
          { destruct (dget (m_disk m) i) as [G|] eqn:GG; [|congruence]. apply dget_In in GG. apply MX in GG.
            apply negb_true_iff in KEEP.
            destruct (N.ltb_spec id i); destruct (N.leb_spec i (m_cur m)); destruct (N.leb_spec id i);
              destruct (N.ltb_spec i (m_cur m)); cbn in KEEP, RG; try discriminate; lia. }
          split.
          * rewrite GM by (clear - ILE; lia). exact EXi.
          * intros _. rewrite GM by (clear - ILE; lia). apply RD. clear - ILE ILT. lia.
      - destruct Fl. constructor; unfold mM, aM, m_with; cbn [m_ro m_closed m_meta m_app m_retry m_auto m_buf]; lsimp; auto;
          try (intros; congruence). }
    assert (CM : clean mM).
    { unfold clean. splits; auto.
      - intros i G I. unfold mM, m_with in *; cbn [m_disk m_cur] in *. unfold dM, drop_ids in I.
        apply filter_In in I as [I K]. apply negb_true_iff in K.
        assert (i <= m_cur m).
        { unfold d1 in I. apply In_dset in I as [[E _]|I]; [subst; clear; lia|]. apply MX in I. exact I. }
        destruct (N.ltb_spec id i); destruct (N.leb_spec i (m_cur m)); cbn in K; try discriminate; lia.
      - unfold notail, mM, m_with, cur_file, m_file; cbn [m_disk m_cur m_app]. rewrite GM, GI by (clear; lia).
        reflexivity. }
    assert (OLTM : off < m_offset mM).
    { unfold m_offset, mM, m_with; cbn [m_cur m_fs m_app]. unfold h2, h_offset, h_open; cbn [h_fo h_uw h_fl].
      rewrite LFi. clear - IU. lia. }
    destruct (cur_setoffset_fx_ok mM aM off RM CM MC MR IL OLTM) as (m2 & E2 & R2 & C2).
    rewrite E2 in EM. assert (m' = m2) by congruence. assert (x = OOk) by congruence. subst m' x.
    splits; auto.
    unfold aM in R2. cbn [set_data l_data] in R2. rewrite set_data_twice in R2.
    rewrite take_take in R2. replace (N.min off ((id + 1) * m_fs m)) with off in R2 by (clear - IU; lia). exact R2.
Qed.

Definition mstep_ok_fx (m : mapp) (a : log) (o : op) : Prop :=
  let '(m', x) := m_step_fx m o in
  let '(a', y) := spec_step a o in
  out_match x y /\ (l_chaos a' = true \/ (l_chaos a' = false /\ Rm m' a' /\ clean m')).

Lemma msim_step_fx m a o :
  Rm m a -> clean m -> l_chaos a = false ->
  match o with Reopen o' => nocap o' = true | _ => True end -> mstep_ok_fx m a o.
Proof.
  intros Rma C CH NC. unfold mstep_ok_fx.
  assert (OTHER : match o with SetOffset _ => False | _ => True end ->
                  let '(m', x) := m_step m o in let '(a', y) := spec_step a o in
                  out_match x y /\ (l_chaos a' = true \/ (l_chaos a' = false /\ Rm m' a' /\ clean m'))).
  { intros NS. pose proof (msim_step m a o Rma CH (clean_not_risky m a o Rma C) NC) as ST. unfold mstep_ok in ST.
    pose proof (mstep_clean m a o Rma C NS) as C'.
    destruct (m_step m o) as [m' x]. destruct (spec_step a o) as [a' y]. cbn [fst] in C'.
    destruct ST as [OM [K|[K R']]]; split; auto. }
  destruct o; try (apply OTHER; exact I).
  cbn [m_step_fx]. apply msim_setoffset_fx; auto.
Qed.

Lemma multi_fixed_gen : forall ops m a,
  (l_chaos a = true \/ (l_chaos a = false /\ Rm m a /\ clean m)) -> ops_nocap ops = true ->
  Forall2 out_match (m_run_fx m ops) (spec_run a ops).
Proof.
  induction ops as [|o ops IH]; intros m a H NC; cbn [m_run_fx spec_run]; [constructor|].
  cbn [ops_nocap forallb] in NC. apply andb_prop in NC as [NC1 NC].
  destruct H as [CH|(CH & Rma & C)].
  - destruct (m_step_fx m o) as [m' x] eqn:ES.
    assert (SP : spec_step a o = (a, OAny)) by (unfold spec_step; rewrite CH; reflexivity).
    rewrite SP. constructor; [left; reflexivity|]. apply IH; auto.
  - assert (NC1' : match o with Reopen o' => nocap o' = true | _ => True end) by (destruct o; auto).
    pose proof (msim_step_fx m a o Rma C CH NC1') as ST. unfold mstep_ok_fx in ST.
    destruct (m_step_fx m o) as [m' x] eqn:ES. destruct (spec_step a o) as [a' y] eqn:EA.
    destruct ST as [OM NX]. constructor; auto.
Qed.

(* the repaired multiapp (not preallocated) IS the byte array: every operation sequence — rewinds
   into earlier chunks, reopen, Copy at any point — every chunk size, no clean-state premise *)
Theorem multi_refines_log_fixed : forall fs meta o ops,
  0 < fs -> opts_valid o = true -> nocap o = true -> ops_nocap ops = true ->
  Forall2 out_match (m_run_fx (m_create fs false meta o) ops) (spec_run (log_init (zeros 0) meta o) ops).
Proof.
  intros fs meta o ops FS OV NC NCS. apply multi_fixed_gen; auto.
  right. splits; auto.
  - apply (Rm_init fs false meta o); auto.
  - unfold clean, m_create. splits; auto.
    intros i F [E|[]]. assert (i = 0) by congruence. subst. cbn. lia.
    reflexivity.
Qed.

Example multi_fixed_example :
  m_run_fx (m_create 4 false [] (mko false 16 false false))
    [Append [48;49;50;51;52;53;54;55;56;57]; SetOffset 2; ReadAt 2 4; Size; Copy; Close; Reopen (mko false 16 false false); Size]
  = [OApp 0 10; OOk; ORead [] true; ON 2; OCopy [48;49]; OOk; OOk; ON 2].
Proof. vm_compute. reflexivity. Qed.
