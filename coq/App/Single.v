(* C17 — executable model of embedded/appendable/singleapp/single_app.go (AppendableFile),
   a transliteration of the Go control flow over an explicit file image.

   The file handle (`hnd`) and the file content are kept apart because multiapp can hold
   several handles on one chunk file.  `F` is the content of the file AFTER the metadata header
   (fileBaseOffset); the header itself is represented by the `meta` bytes kept beside it.

   Not modelled: compression (only NoCompression), failing OS calls (write/seek/fsync never
   fail, so retryableSync only changes WHEN the write buffer is released), negative offsets
   (offsets are N), the read buffer size (unused by AppendableFile itself).
   Go slice expressions on the write buffer are total here (`slice`, `upd`); that their indices are
   always in range (no runtime panic) is the invariant `hwf` proved in SingleProofs.v.
   This file contains definitions only. *)
From V Require Export App.Spec.

Definition zeros (n : N) : bytes := repeat 0 (N.to_nat n).

(* copy(b[i:], d) when it fits *)
Definition upd (b : bytes) (i : N) (d : bytes) : bytes := take i b ++ d ++ drop (i + len d) b.

(* f.Write(d) at OS position pos (a hole would be zero filled) *)
Definition fwrite (F : bytes) (pos : N) (d : bytes) : bytes :=
  take pos (F ++ zeros (pos - len F)) ++ d ++ drop (pos + len d) F.

(* f.ReadAt(make([]byte, n), pos): bytes read, err == io.EOF (os.File.ReadAt returns EOF iff short) *)
Definition freadat (F : bytes) (n pos : N) : bytes * bool :=
  let d := take n (drop pos F) in (d, len d <? n).

Record hnd := mkh {
  h_fo : N;          (* fileOffset *)
  h_pos : N;         (* OS file position, relative to fileBaseOffset *)
  h_seek : bool;     (* seekRequired *)
  h_wbuf : bytes;    (* writeBuffer (its length is the buffer size; [] = nil) *)
  h_fl : N;          (* wbufFlushedOffset *)
  h_uw : N;          (* wbufUnwrittenOffset *)
  h_ro : bool;
  h_retry : bool;
  h_auto : bool;
  h_closed : bool
}.

(* Open on an existing file image: fileOffset = Seek(0, End) - fileBaseOffset.
   (Open also reads preallocSize from the COMPRESSION_FORMAT key — 0 without compression; the
   only use of preallocSize afterwards is the choice fsync/fdatasync, which is not observable.) *)
Definition h_open (F : bytes) (o : oopts) : hnd :=
  mkh (len F) (len F) false (zeros (o_buf o)) 0 0 (o_ro o) (o_retry o) (o_auto o) false.

(* a read-only Open is given no write buffer (as multiapp does) *)
Definition ro_nobuf (o : oopts) : oopts :=
  mko (o_ro o) (if o_ro o then 0 else o_buf o) (o_retry o) (o_auto o).

Definition h_offset (h : hnd) : N := h_fo h + (h_uw h - h_fl h).

Definition h_set_buf (h : hnd) (w : bytes) (fl uw : N) : hnd :=
  mkh (h_fo h) (h_pos h) (h_seek h) w fl uw (h_ro h) (h_retry h) (h_auto h) (h_closed h).

(* flush() *)
Definition h_flush (h : hnd) (F : bytes) : hnd * bytes :=
  if h_uw h - h_fl h =? 0 then (h, F) else
  let pos := if h_seek h then h_fo h else h_pos h in        (* seekIfRequired *)
  let d := slice (h_wbuf h) (h_fl h) (h_uw h) in
  let F' := fwrite F pos d in
  let n := len d in
  let fl' := h_fl h + n in
  if h_retry h
  then (mkh (h_fo h + n) (pos + n) false (h_wbuf h) fl' (h_uw h) (h_ro h) (h_retry h) (h_auto h) (h_closed h), F')
  else (mkh (h_fo h + n) (pos + n) false (h_wbuf h) 0 0 (h_ro h) (h_retry h) (h_auto h) (h_closed h), F').

(* sync(): flush, fsync (never fails here), with retryableSync the buffer is released now *)
Definition h_sync (h : hnd) (F : bytes) : hnd * bytes :=
  let '(h1, F1) := h_flush h F in
  if h_retry h1 then (h_set_buf h1 (h_wbuf h1) 0 0, F1) else (h1, F1).

(* one iteration of the loop of write(bs) with bs[n:] = rest (non-empty):
   None = `return n, ErrBufferFull`, Some (handle, file, k) = k more bytes copied into the buffer *)
Definition h_write_step (h : hnd) (F : bytes) (rest : bytes) : option (hnd * bytes * N) :=
  let B := len (h_wbuf h) in
  let avail := B - h_uw h in
  if (avail =? 0) && h_retry h && negb (h_auto h) then None else
  let '(h1, F1, avail1) :=
    if avail =? 0 then
      if h_retry h then let '(h', F') := h_sync h F in (h', F', B)
      else let '(h', F') := h_flush h F in (h', F', B)
    else (h, F, avail) in
  let k := N.min (len rest) avail1 in
  Some (h_set_buf h1 (upd (h_wbuf h1) (h_uw h1) (take k rest)) (h_fl h1) (h_uw h1 + k), F1, k).

(* write(bs): `rest` is bs[n:]; returns the handle, the file, n and whether ErrBufferFull was hit *)
Fixpoint h_write (fuel : nat) (h : hnd) (F : bytes) (rest : bytes) (n : N) : hnd * bytes * N * bool :=
  match fuel with
  | O => (h, F, n, false)
  | S fuel' =>
      if len rest =? 0 then (h, F, n, false) else
      match h_write_step h F rest with
      | None => (h, F, n, true)
      | Some (h2, F1, k) => h_write fuel' h2 F1 (drop k rest) (n + k)
      end
  end.

(* Append (NoCompression) *)
Definition h_append (h : hnd) (F : bytes) (bs : bytes) : hnd * bytes * out :=
  if h_closed h then (h, F, OErr)
  else if h_ro h then (h, F, OErr)
  else if len bs =? 0 then (h, F, OErr)
  else
    let off := h_offset h in
    let '(h', F', n, full) := h_write (length bs) h F bs 0 in
    (h', F', if full then OFull off n else OApp off n).

(* readAt *)
Definition h_readat_ (h : hnd) (F : bytes) (n off : N) : out :=
  if h_offset h <? off then ORead [] true else
  let '(d, boff, ferr) :=
    if off <? h_fo h then
      (* fbs := bs[:min(len(bs), fileOffset-off)]: the file is never read beyond fileOffset *)
      let '(d, e) := freadat F (N.min n (h_fo h - off)) off in (d, 0, e)
    else ([], off - h_fo h, false) in
  let pending := n - len d in
  if 0 <? pending then
    let avail := (h_uw h - h_fl h) - boff in
    let k := N.min pending avail in
    let d2 := if 0 <? k then slice (h_wbuf h) (h_fl h + boff) (h_fl h + boff + k) else [] in
    ORead (d ++ d2) (negb (k =? pending))
  else ORead d ferr.

(* ReadAt (NoCompression, bs != nil) *)
Definition h_readat (h : hnd) (F : bytes) (n off : N) : out :=
  if h_closed h then OErr else h_readat_ h F n off.

(* SetOffset *)
Definition h_setoffset (h : hnd) (off : N) : hnd * out :=
  if h_closed h then (h, OErr)
  else if h_ro h then (h, OErr)
  else
    let cur := h_offset h in
    if cur <? off then (h, OErr)
    else if off =? cur then (h, OOk)
    else if h_fo h <=? off then
      (h_set_buf h (h_wbuf h) (h_fl h) (h_uw h - (cur - off)), OOk)   (* in-memory change *)
    else
      (mkh off (h_pos h) true (h_wbuf h) 0 0 (h_ro h) (h_retry h) (h_auto h) (h_closed h), OOk).

Definition h_size (h : hnd) : out := if h_closed h then OErr else ON (h_offset h).

(* DiscardUpto *)
Definition h_discard (h : hnd) (off : N) : out :=
  if h_closed h then OErr else if h_offset h <? off then OErr else OOk.

Definition h_flush_op (h : hnd) (F : bytes) : hnd * bytes * out :=
  if h_closed h then (h, F, OErr) else if h_ro h then (h, F, OErr)
  else let '(h', F') := h_flush h F in (h', F', OOk).

Definition h_sync_op (h : hnd) (F : bytes) : hnd * bytes * out :=
  if h_closed h then (h, F, OErr) else if h_ro h then (h, F, OErr)
  else let '(h', F') := h_sync h F in (h', F', OOk).

(* SwitchToReadOnlyMode *)
Definition h_switch_ro (h : hnd) (F : bytes) : hnd * bytes * out :=
  if h_closed h then (h, F, OErr) else if h_ro h then (h, F, OErr)
  else
    let '(h1, F1) := h_flush h F in
    let '(h2, F2) := if h_retry h1 then h_sync h1 F1 else (h1, F1) in
    (mkh (h_fo h2) (h_pos h2) (h_seek h2) [] (h_fl h2) (h_uw h2) true (h_retry h2) (h_auto h2) (h_closed h2), F2, OOk).

(* Close *)
Definition h_close (h : hnd) (F : bytes) : hnd * bytes * out :=
  if h_closed h then (h, F, OErr)
  else
    let '(h1, F1) := if h_ro h then (h, F) else h_flush h F in
    (mkh (h_fo h1) (h_pos h1) (h_seek h1) (h_wbuf h1) (h_fl h1) (h_uw h1) (h_ro h1) (h_retry h1) (h_auto h1) true, F1, OOk).

(* Copy(dst): flush, seekRequired = true, Seek(0, start), io.Copy(dst, f) — the WHOLE physical file
   (header, then every byte of the file, also those beyond fileOffset); the OS position ends at the
   physical end.  The result is what a read-only Open of the copy then holds. *)
Definition h_copy (h : hnd) (F : bytes) : hnd * bytes * out :=
  if h_closed h then (h, F, OErr)
  else
    let '(h1, F1) := h_flush h F in
    (mkh (h_fo h1) (len F1) true (h_wbuf h1) (h_fl h1) (h_uw h1) (h_ro h1) (h_retry h1) (h_auto h1) (h_closed h1),
     F1, OCopy F1).

(* ---- the single-file appendable: one handle on one file ---- *)
Record sapp := mks { s_h : hnd; s_file : bytes; s_meta : bytes }.

(* Open on a path that does not exist: metadata header, preallocSize zero bytes, then as above *)
Definition s_create (prealloc : N) (meta : bytes) (o : oopts) : sapp :=
  let F := zeros prealloc in mks (h_open F (ro_nobuf o)) F meta.

Definition s_step (s : sapp) (o : op) : sapp * out :=
  let h := s_h s in let F := s_file s in let m := s_meta s in
  match o with
  | Append bs => let '(h', F', x) := h_append h F bs in (mks h' F' m, x)
  | ReadAt n off => (s, h_readat h F n off)
  | SetOffset off => let '(h', x) := h_setoffset h off in (mks h' F m, x)
  | Flush => let '(h', F', x) := h_flush_op h F in (mks h' F' m, x)
  | Sync => let '(h', F', x) := h_sync_op h F in (mks h' F' m, x)
  | Size => (s, h_size h)
  | Offset => (s, ON (h_offset h))
  | Discard off => (s, h_discard h off)
  | SwitchRO => let '(h', F', x) := h_switch_ro h F in (mks h' F' m, x)
  | Close => let '(h', F', x) := h_close h F in (mks h' F' m, x)
  | Reopen o =>
      if h_closed h then
        if opts_valid o then (mks (h_open F (ro_nobuf o)) F m, OOk) else (s, OErr)
      else (s, OErr)
  | Meta => (s, OBytes m)
  | Copy => let '(h', F', x) := h_copy h F in (mks h' F' m, x)
  end.

Fixpoint s_run (s : sapp) (ops : list op) : list out :=
  match ops with
  | [] => []
  | o :: r => let (s', x) := s_step s o in x :: s_run s' r
  end.

Fixpoint s_state (s : sapp) (ops : list op) : sapp :=
  match ops with
  | [] => s
  | o :: r => s_state (fst (s_step s o)) r
  end.

(* ---- where the code departs from the byte-array specification ----
   The file may hold bytes beyond fileOffset (after SetOffset below fileOffset — the file is never
   truncated — or because it was preallocated).  readAt clamps the file read to fileOffset, but
   Open takes the file end as the size, so a reopen observes the stale tail — of the file itself or
   of a Copy of it (Copy copies the physical file): *)
Definition h_tail (h : hnd) (F : bytes) : bool := h_fo h <? len F.

Definition s_risky (s : sapp) (o : op) : bool :=
  let h := s_h s in
  match o with
  | Reopen _ => h_closed h && h_tail h (s_file s)
  | Copy => negb (h_closed h) && (h_offset h <? len (s_file s))   (* the copy carries the stale tail *)
  | _ => false
  end.

(* no step of the run is risky *)
Fixpoint s_clean (s : sapp) (ops : list op) : bool :=
  match ops with
  | [] => true
  | o :: r => negb (s_risky s o) && s_clean (fst (s_step s o)) r
  end.
