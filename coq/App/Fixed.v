(* C17 — the models of singleapp / multiapp as they are since /repo commit 09014a8
   ("SetOffset below the flushed size truncates the file / removes the chunk files that follow").
   Only SetOffset differs from Single.v / Multi.v (whose `h_setoffset` branch without truncation and
   `m_setoffset` are the code BEFORE 09014a8); every other operation is the one defined there.
   These are the models the correspondence run ties to the code (Tie/C17.v, `use_fixed_models`).
   (Since 09014a8 Open also reads preallocSize from its own metadata key, so that a reopened
   preallocated file stays exempt from truncation; `pre` = the file was created preallocated.)
   This file contains definitions only. *)
From V Require Export App.Multi.

(* singleapp.SetOffset: in the branch newOffset < fileOffset the file is truncated to
   fileBaseOffset + newOffset first, unless preallocSize != 0 *)
Definition s_step_fx (pre : bool) (s : sapp) (o : op) : sapp * out :=
  match o with
  | SetOffset off =>
      let h := s_h s in
      let '(h', x) := h_setoffset h off in
      let trunc := negb pre && (off <? h_fo h) && match x with OOk => true | _ => false end in
      (mks h' (if trunc then take off (s_file s) else s_file s) (s_meta s), x)
  | _ => s_step s o
  end.

Fixpoint s_run_fx (pre : bool) (s : sapp) (ops : list op) : list out :=
  match ops with
  | [] => []
  | o :: r => let (s', x) := s_step_fx pre s o in x :: s_run_fx pre s' r
  end.

Fixpoint s_state_fx (pre : bool) (s : sapp) (ops : list op) : sapp :=
  match ops with
  | [] => s
  | o :: r => s_state_fx pre (fst (s_step_fx pre s o)) r
  end.

(* the current chunk's SetOffset with the truncation *)
Definition m_cur_setoffset_fx (m : mapp) (d : disk) (id : N) (h : hnd) (c : hcache) (local : N) : mapp * out :=
  let F := match dget d id with Some F => F | None => [] end in
  let '(h', x) := h_setoffset h local in
  let trunc := negb (m_prealloc m) && (local <? h_fo h) && match x with OOk => true | _ => false end in
  (m_with m (if trunc then dset d id (take local F) else d) id h' c, x).

Definition drop_ids (lo hi : N) {A} (l : list (N * A)) : list (N * A) :=
  filter (fun '(i, _) => negb ((lo <? i) && (i <=? hi))) l.

(* multiapp.SetOffset: after switching to an earlier chunk the chunk files that follow (up to the
   former current one) are removed, their cached handles closed *)
Definition m_setoffset_fx (m : mapp) (off : N) : mapp * out :=
  if m_closed m then (m, OErr)
  else if m_ro m then (m, OErr)
  else
    let cur := m_offset m in
    if cur <? off then (m, OErr)
    else if off =? cur then (m, OOk)
    else
      let id := off / m_fs m in
      if m_cur m =? id then
        m_cur_setoffset_fx m (m_disk m) (m_cur m) (m_app m) (m_cache m) (off mod m_fs m)
      else
        let c1 := cdrop_range (m_cache m) id (m_cur m) in
        let '(h1, F1, x1) := h_close (m_app m) (cur_file m) in
        match x1 with
        | OOk =>
            let d1 := dset (m_disk m) (m_cur m) F1 in
            match m_open_chunk m d1 id false true with
            | None => (m_with m d1 (m_cur m) h1 c1, OErr)
            | Some (d2, h2) =>
                m_cur_setoffset_fx m (drop_ids id (m_cur m) d2) id h2 (drop_ids id (m_cur m) c1) (off mod m_fs m)
            end
        | _ => (m_with m (m_disk m) (m_cur m) (m_app m) c1, OErr)
        end.

Definition m_step_fx (m : mapp) (o : op) : mapp * out :=
  match o with
  | SetOffset off => m_setoffset_fx m off
  | _ => m_step m o
  end.

Fixpoint m_run_fx (m : mapp) (ops : list op) : list out :=
  match ops with
  | [] => []
  | o :: r => let (m', x) := m_step_fx m o in x :: m_run_fx m' r
  end.
