(* C17 — proofs about the singleapp model: the handle invariant, what every operation does to
   the logical content  take fileOffset file ++ writeBuffer[flushed:unwritten],  and the
   simulation of the byte-array specification by every run that never observes a stale tail. *)
From V Require Import Base.Bytes App.Spec App.Single App.ListN.
From Coq Require Import ZifyN ZifyNat ZifyBool.

Ltac splits := repeat match goal with |- _ /\ _ => split end.

Definition content (h : hnd) (F : bytes) : bytes :=
  take (h_fo h) F ++ slice (h_wbuf h) (h_fl h) (h_uw h).

Definition capmode (h : hnd) : bool := h_retry h && negb (h_auto h).

(* invariant of a handle on its file: every Go slice expression on the write buffer is in range *)
Record hwf (h : hnd) (F : bytes) : Prop := mkwf {
  wf_fo : h_fo h <= len F;
  wf_fl : h_fl h <= h_uw h;
  wf_uw : h_uw h <= len (h_wbuf h);
  wf_pos : h_seek h = false -> h_pos h = h_fo h;
  wf_buf : h_ro h = false -> 0 < len (h_wbuf h);
  wf_nr : h_retry h = false -> h_fl h = 0;
  wf_ro : h_ro h = true -> h_uw h = 0 /\ h_fl h = 0;
  wf_flfo : h_fl h <= h_fo h
}.

Lemma len_content h F : hwf h F -> len (content h F) = h_offset h.
Proof.
  intros W. destruct W. unfold content, h_offset.
  rewrite len_app, len_take, len_slice. lia.
Qed.

Lemma fwrite_in F pos d : pos <= len F -> fwrite F pos d = take pos F ++ d ++ drop (pos + len d) F.
Proof.
  intros H. unfold fwrite. replace (pos - len F) with 0 by lia.
  change (zeros 0) with (@nil N). rewrite app_nil_r. reflexivity.
Qed.

Lemma len_fwrite F pos d : pos <= len F -> len (fwrite F pos d) = N.max (len F) (pos + len d).
Proof.
  intros H. rewrite fwrite_in by exact H. rewrite !len_app, len_take, len_drop. lia.
Qed.

Lemma take_fwrite F pos d : pos <= len F -> take (pos + len d) (fwrite F pos d) = take pos F ++ d.
Proof.
  intros H. rewrite fwrite_in by exact H. rewrite app_assoc.
  replace (pos + len d) with (len (take pos F ++ d)) by (rewrite len_app, len_take; lia).
  apply take_app_exact.
Qed.

Lemma h_open_wf F o : opts_valid o = true -> hwf (h_open F (ro_nobuf o)) F.
Proof.
  intros V. unfold opts_valid in V. unfold h_open, ro_nobuf.
  constructor; cbn [h_fo h_fl h_uw h_wbuf h_seek h_pos h_ro h_retry o_ro o_buf o_retry o_auto]; try lia; auto.
  - rewrite len_zeros. intros E. rewrite E in *. simpl in V. lia.
Qed.

Lemma content_open F o : content (h_open F o) F = F.
Proof.
  unfold content, h_open; cbn [h_fo h_fl h_uw h_wbuf].
  rewrite take_all. rewrite slice_empty by lia. apply app_nil_r.
Qed.

(* ---------- flush / sync ---------- *)
Record same_cfg (h h' : hnd) : Prop := mksame {
  sc_ro : h_ro h' = h_ro h;
  sc_retry : h_retry h' = h_retry h;
  sc_auto : h_auto h' = h_auto h;
  sc_closed : h_closed h' = h_closed h;
  sc_blen : len (h_wbuf h') = len (h_wbuf h)
}.

Lemma same_cfg_refl h : same_cfg h h. Proof. constructor; reflexivity. Qed.
Lemma same_cfg_trans a b c : same_cfg a b -> same_cfg b c -> same_cfg a c.
Proof. intros [] []; constructor; congruence. Qed.

Lemma h_flush_spec h F h' F' :
  hwf h F -> h_flush h F = (h', F') ->
  hwf h' F' /\ content h' F' = content h F /\ same_cfg h h' /\
  h_fo h' = h_offset h /\ h_uw h' = h_fl h' /\
  (h_retry h = true -> h_fo h' - h_fl h' = h_fo h - h_fl h /\ h_uw h' = h_uw h) /\
  (h_retry h = false -> h_uw h' = 0).
Proof.
  intros W E. pose proof W as W0. destruct W. unfold h_flush in E.
  destruct (N.eqb_spec (h_uw h - h_fl h) 0) as [Z|NZ].
  - assert (h' = h) by congruence. assert (F' = F) by congruence. subst.
    splits; auto using same_cfg_refl; unfold h_offset; try lia.
  - set (pos := if h_seek h then h_fo h else h_pos h) in E.
    assert (Hpos : pos = h_fo h).
    { unfold pos. destruct (h_seek h) eqn:S; auto. }
    rewrite Hpos in E. clear pos Hpos.
    set (d := slice (h_wbuf h) (h_fl h) (h_uw h)) in *.
    assert (Ld : len d = h_uw h - h_fl h) by (unfold d; rewrite len_slice; lia).
    assert (Ct : take (h_fo h + len d) (fwrite F (h_fo h) d) = take (h_fo h) F ++ d)
      by (apply take_fwrite; exact wf_fo0).
    assert (Lf : len (fwrite F (h_fo h) d) = N.max (len F) (h_fo h + len d))
      by (apply len_fwrite; exact wf_fo0).
    destruct (h_retry h) eqn:RT.
    + assert (h' = mkh (h_fo h + len d) (h_fo h + len d) false (h_wbuf h) (h_fl h + len d) (h_uw h)
                       (h_ro h) (h_retry h) (h_auto h) (h_closed h)) by congruence.
      assert (F' = fwrite F (h_fo h) d) by congruence. subst h' F'.
      splits; cbn [h_fo h_pos h_seek h_wbuf h_fl h_uw h_ro h_retry h_auto h_closed]; auto; try lia;
        try (intros; discriminate); try (unfold h_offset; lia).
      * constructor; cbn [h_fo h_pos h_seek h_wbuf h_fl h_uw h_ro h_retry h_auto h_closed]; auto; try lia;
          try (intros; discriminate).
        all: intros RO; specialize (wf_ro0 RO); lia.
      * unfold content; cbn [h_fo h_fl h_uw h_wbuf]; rewrite Ct;
        rewrite (slice_empty (h_wbuf h)) by lia; rewrite app_nil_r; reflexivity.
      * constructor; auto.
    + assert (h' = mkh (h_fo h + len d) (h_fo h + len d) false (h_wbuf h) 0 0
                       (h_ro h) (h_retry h) (h_auto h) (h_closed h)) by congruence.
      assert (F' = fwrite F (h_fo h) d) by congruence. subst h' F'.
      splits; cbn [h_fo h_pos h_seek h_wbuf h_fl h_uw h_ro h_retry h_auto h_closed]; auto; try lia;
        try (intros; discriminate); try (unfold h_offset; lia).
      * constructor; cbn [h_fo h_pos h_seek h_wbuf h_fl h_uw h_ro h_retry h_auto h_closed]; auto; try lia;
          try (intros; discriminate).
        all: intros RO; specialize (wf_ro0 RO); lia.
      * unfold content; cbn [h_fo h_fl h_uw h_wbuf]; rewrite Ct;
        rewrite (slice_empty (h_wbuf h)) by lia; rewrite app_nil_r; reflexivity.
      * constructor; auto.
Qed.

Lemma h_sync_spec h F h' F' :
  hwf h F -> h_sync h F = (h', F') ->
  hwf h' F' /\ content h' F' = content h F /\ same_cfg h h' /\
  h_fo h' = h_offset h /\ h_uw h' = h_fl h' /\
  (h_retry h = true -> h_fl h' = 0 /\ h_uw h' = 0) /\
  (h_retry h = false -> h_uw h' = 0).
Proof.
  intros W E. unfold h_sync in E.
  destruct (h_flush h F) as [h1 F1] eqn:EF.
  destruct (h_flush_spec _ _ _ _ W EF) as (W1 & C1 & S1 & FO1 & U1 & RT1 & NR1).
  destruct S1. destruct (h_retry h1) eqn:RT.
  - assert (h' = h_set_buf h1 (h_wbuf h1) 0 0) by congruence. assert (F' = F1) by congruence. subst.
    destruct W1.
    splits; unfold h_set_buf; cbn [h_fo h_pos h_seek h_wbuf h_fl h_uw h_ro h_retry h_auto h_closed]; auto; try lia;
      try congruence.
    + constructor; cbn [h_fo h_pos h_seek h_wbuf h_fl h_uw h_ro h_retry h_auto h_closed]; auto; try lia.
    + unfold content in *; cbn [h_fo h_fl h_uw h_wbuf]; rewrite <- C1;
      rewrite (slice_empty (h_wbuf h1) 0 0) by lia; rewrite (slice_empty (h_wbuf h1) (h_fl h1)) by lia;
      reflexivity.
    + constructor; cbn [h_fo h_pos h_seek h_wbuf h_fl h_uw h_ro h_retry h_auto h_closed]; congruence.
  - assert (h' = h1) by congruence. assert (F' = F1) by congruence. subst.
    splits; auto; try congruence.
    constructor; congruence.
Qed.

(* ---------- write ---------- *)
Lemma h_write_spec fuel : forall h F rest n h' F' n' full,
  hwf h F -> h_ro h = false -> (length rest <= fuel)%nat ->
  h_write fuel h F rest n = (h', F', n', full) ->
  let w := if capmode h then N.min (len rest) (len (h_wbuf h) - h_uw h) else len rest in
  hwf h' F' /\ content h' F' = content h F ++ take w rest /\ n' = n + w /\
  full = capmode h && (w <? len rest) /\ same_cfg h h' /\
  (capmode h = true -> h_fo h' = h_fo h /\ h_fl h' = h_fl h /\ h_uw h' = h_uw h + w).
Proof.
  induction fuel as [|fuel IH]; intros h F rest n h' F' n' full W RO LE E.
  - assert (rest = []) by (destruct rest; simpl in LE; [auto|lia]). subst rest.
    simpl in E. assert (h' = h) by congruence. assert (F' = F) by congruence.
    assert (n' = n) by congruence. assert (full = false) by congruence. subst.
    cbn zeta. change (len []) with 0. rewrite N.min_0_l.
    replace (if capmode h then 0 else 0) with 0 by (destruct (capmode h); auto).
    rewrite take_0, app_nil_r. splits; auto using same_cfg_refl; try lia.
    all: destruct (capmode h); auto.
  - cbn [h_write] in E.
    destruct (N.eqb_spec (len rest) 0) as [Z|NZ].
    { assert (rest = []) by (apply len_0_nil; auto). subst rest.
      assert (h' = h) by congruence. assert (F' = F) by congruence.
      assert (n' = n) by congruence. assert (full = false) by congruence. subst.
      cbn zeta. change (len []) with 0. rewrite N.min_0_l.
      replace (if capmode h then 0 else 0) with 0 by (destruct (capmode h); auto).
      rewrite take_0, app_nil_r. splits; auto using same_cfg_refl; try lia.
      all: destruct (capmode h); auto. }
    pose proof W as W0. destruct W.
    specialize (wf_buf0 RO).
    set (B := len (h_wbuf h)) in *.
    destruct (N.eqb_spec (B - h_uw h) 0) as [AZ|ANZ].
    + (* buffer full *)
      destruct (h_retry h) eqn:RT; [destruct (h_auto h) eqn:AU|]; cbn [andb negb] in E.
      * (* retryable + autosync: sync *)
        destruct (h_sync h F) as [h1 F1] eqn:ES.
        destruct (h_sync_spec _ _ _ _ W0 ES) as (W1 & C1 & S1 & FO1 & U1 & RT1 & NR1).
        destruct (RT1 RT) as [FL1 UW1].
        set (k := N.min (len rest) B) in E.
        set (h2 := h_set_buf h1 (upd (h_wbuf h1) (h_uw h1) (take k rest)) (h_fl h1) (h_uw h1 + k)) in E.
        pose proof S1 as S1'. destruct S1.
        assert (Lk : len (take k rest) = k) by (rewrite len_take; unfold k; lia).
        assert (Kpos : 0 < k) by (unfold k; lia).
        assert (KB : k <= B) by (unfold k; lia).
        assert (W2 : hwf h2 F1).
        { destruct W1. unfold h2, h_set_buf. constructor;
          cbn [h_fo h_pos h_seek h_wbuf h_fl h_uw h_ro h_retry h_auto h_closed]; auto; try lia;
          try (rewrite len_upd by (rewrite Lk; lia); lia); try congruence;
          try (intros X; rewrite sc_ro0 in X; congruence). }
        assert (C2 : content h2 F1 = content h F ++ take k rest).
        { rewrite <- C1. unfold content, h2, h_set_buf; cbn [h_fo h_fl h_uw h_wbuf].
          rewrite <- app_assoc. f_equal.
          replace (h_uw h1 + k) with (h_uw h1 + len (take k rest)) by (rewrite Lk; reflexivity).
          rewrite slice_upd_ext by (rewrite ?Lk; destruct W1; lia). reflexivity. }
        assert (S2 : same_cfg h h2).
        { unfold h2, h_set_buf. constructor; cbn [h_ro h_retry h_auto h_closed h_wbuf]; auto.
          rewrite len_upd by (rewrite Lk; lia). auto. }
        assert (LE2 : (length (drop k rest) <= fuel)%nat).
        { unfold drop. rewrite skipn_length. unfold len in *. lia. }
        assert (RO2 : h_ro h2 = false) by (destruct S2; congruence).
        specialize (IH h2 F1 (drop k rest) (n + k) h' F' n' full W2 RO2 LE2 E).
        assert (CM : capmode h = false) by (unfold capmode; rewrite RT, AU; reflexivity).
        assert (CM2 : capmode h2 = false).
        { unfold capmode. destruct S2. rewrite sc_retry1, sc_auto1, RT, AU. reflexivity. }
        rewrite CM2 in IH. cbn zeta in IH. rewrite CM. cbn zeta.
        destruct IH as (W' & C' & N' & FU' & S' & _).
        splits; auto.
        -- rewrite C', C2. rewrite <- app_assoc. f_equal.
           rewrite (take_ge (len rest)) by lia.
           rewrite (take_ge (len (drop k rest))) by lia. apply take_drop_cat.
        -- rewrite N', len_drop. lia.
        -- eapply same_cfg_trans; eauto.
        -- intros; discriminate.
      * (* retryable without autosync: ErrBufferFull *)
        assert (h' = h) by congruence. assert (F' = F) by congruence.
        assert (n' = n) by congruence. assert (full = true) by congruence. subst.
        assert (CM : capmode h = true) by (unfold capmode; rewrite RT, AU; reflexivity).
        rewrite CM. cbn zeta. fold B. replace (N.min (len rest) (B - h_uw h)) with 0 by lia.
        rewrite take_0, app_nil_r. splits; auto using same_cfg_refl; try lia.
        cbn [andb]. symmetry. apply N.ltb_lt. lia.
      * (* not retryable: flush *)
        replace (B - h_uw h =? 0) with true in E by (symmetry; apply N.eqb_eq; auto).
        cbn [andb] in E.
        destruct (h_flush h F) as [h1 F1] eqn:ES.
        destruct (h_flush_spec _ _ _ _ W0 ES) as (W1 & C1 & S1 & FO1 & U1 & RT1 & NR1).
        specialize (NR1 RT).
        set (k := N.min (len rest) B) in E.
        set (h2 := h_set_buf h1 (upd (h_wbuf h1) (h_uw h1) (take k rest)) (h_fl h1) (h_uw h1 + k)) in E.
        pose proof S1 as S1'. destruct S1.
        assert (Lk : len (take k rest) = k) by (rewrite len_take; unfold k; lia).
        assert (Kpos : 0 < k) by (unfold k; lia).
        assert (KB : k <= B) by (unfold k; lia).
        assert (FL1 : h_fl h1 = 0) by lia.
        assert (W2 : hwf h2 F1).
        { destruct W1. unfold h2, h_set_buf. constructor;
          cbn [h_fo h_pos h_seek h_wbuf h_fl h_uw h_ro h_retry h_auto h_closed]; auto; try lia;
          try (rewrite len_upd by (rewrite Lk; lia); lia); try congruence;
          try (intros X; rewrite sc_ro0 in X; congruence). }
        assert (C2 : content h2 F1 = content h F ++ take k rest).
        { rewrite <- C1. unfold content, h2, h_set_buf; cbn [h_fo h_fl h_uw h_wbuf].
          rewrite <- app_assoc. f_equal.
          replace (h_uw h1 + k) with (h_uw h1 + len (take k rest)) by (rewrite Lk; reflexivity).
          rewrite slice_upd_ext by (rewrite ?Lk; destruct W1; lia). reflexivity. }
        assert (S2 : same_cfg h h2).
        { unfold h2, h_set_buf. constructor; cbn [h_ro h_retry h_auto h_closed h_wbuf]; auto.
          rewrite len_upd by (rewrite Lk; lia). auto. }
        assert (LE2 : (length (drop k rest) <= fuel)%nat).
        { unfold drop. rewrite skipn_length. unfold len in *. lia. }
        assert (RO2 : h_ro h2 = false) by (destruct S2; congruence).
        specialize (IH h2 F1 (drop k rest) (n + k) h' F' n' full W2 RO2 LE2 E).
        assert (CM : capmode h = false) by (unfold capmode; rewrite RT; reflexivity).
        assert (CM2 : capmode h2 = false).
        { unfold capmode. destruct S2. rewrite sc_retry1, RT. reflexivity. }
        rewrite CM2 in IH. cbn zeta in IH. rewrite CM. cbn zeta.
        destruct IH as (W' & C' & N' & FU' & S' & _).
        splits; auto.
        -- rewrite C', C2. rewrite <- app_assoc. f_equal.
           rewrite (take_ge (len rest)) by lia.
           rewrite (take_ge (len (drop k rest))) by lia. apply take_drop_cat.
        -- rewrite N', len_drop. lia.
        -- eapply same_cfg_trans; eauto.
        -- intros; discriminate.
    + (* room in the buffer *)
      replace (B - h_uw h =? 0) with false in E by (symmetry; apply N.eqb_neq; auto).
      cbn [andb] in E.
      set (k := N.min (len rest) (B - h_uw h)) in E.
      set (h2 := h_set_buf h (upd (h_wbuf h) (h_uw h) (take k rest)) (h_fl h) (h_uw h + k)) in E.
      assert (Lk : len (take k rest) = k) by (rewrite len_take; unfold k; lia).
      assert (Kpos : 0 < k) by (unfold k; lia).
      assert (KB : h_uw h + k <= B) by (unfold k; lia).
      assert (W2 : hwf h2 F).
      { unfold h2, h_set_buf. constructor;
        cbn [h_fo h_pos h_seek h_wbuf h_fl h_uw h_ro h_retry h_auto h_closed]; auto; try lia;
        try (rewrite len_upd by (rewrite Lk; fold B; lia); fold B; lia); try congruence. }
      assert (C2 : content h2 F = content h F ++ take k rest).
      { unfold content, h2, h_set_buf; cbn [h_fo h_fl h_uw h_wbuf].
        rewrite <- app_assoc. f_equal.
        replace (h_uw h + k) with (h_uw h + len (take k rest)) by (rewrite Lk; reflexivity).
        rewrite slice_upd_ext by (rewrite ?Lk; fold B; lia). reflexivity. }
      assert (S2 : same_cfg h h2).
      { unfold h2, h_set_buf. constructor; cbn [h_ro h_retry h_auto h_closed h_wbuf]; auto.
        rewrite len_upd by (rewrite Lk; fold B; lia). auto. }
      assert (LE2 : (length (drop k rest) <= fuel)%nat).
      { unfold drop. rewrite skipn_length. unfold len in *. lia. }
      assert (RO2 : h_ro h2 = false) by (destruct S2; congruence).
      specialize (IH h2 F (drop k rest) (n + k) h' F' n' full W2 RO2 LE2 E).
      assert (CM2 : capmode h2 = capmode h).
      { unfold capmode. destruct S2. rewrite sc_retry0, sc_auto0. reflexivity. }
      rewrite CM2 in IH. cbn zeta in IH. cbn zeta.
      assert (B2 : len (h_wbuf h2) = B) by (destruct S2; auto).
      assert (U2 : h_uw h2 = h_uw h + k) by reflexivity.
      rewrite B2, U2, len_drop in IH.
      destruct IH as (W' & C' & N' & FU' & S' & CP').
      destruct (capmode h) eqn:CM.
      * fold B.
        assert (EQ : N.min (len rest) (B - h_uw h) = k + N.min (len rest - k) (B - (h_uw h + k)))
          by (unfold k; lia).
        splits; auto.
        -- rewrite C', C2. rewrite <- app_assoc. f_equal.
           rewrite EQ.
           set (j := N.min (len rest - k) (B - (h_uw h + k))).
           rewrite <- (take_drop_cat k rest) at 3.
           rewrite take_app_ge by (rewrite Lk; lia). rewrite Lk.
           replace (k + j - k) with j by lia. reflexivity.
        -- rewrite N'. lia.
        -- rewrite FU'. cbn [andb]. rewrite EQ.
           destruct (N.ltb_spec (N.min (len rest - k) (B - (h_uw h + k))) (len rest - k));
           destruct (N.ltb_spec (k + N.min (len rest - k) (B - (h_uw h + k))) (len rest)); auto; lia.
        -- eapply same_cfg_trans; eauto.
        -- intros _. destruct (CP' eq_refl) as (A1 & A2 & A3).
           unfold h2, h_set_buf in A1, A2; cbn [h_fo h_fl] in A1, A2.
           splits; auto. rewrite A3. lia.
      * splits; auto.
        -- rewrite C', C2. rewrite <- app_assoc. f_equal.
           rewrite (take_ge (len rest)) by lia.
           rewrite (take_ge (len rest - k)) by (rewrite len_drop; lia). apply take_drop_cat.
        -- rewrite N'. lia.
        -- eapply same_cfg_trans; eauto.
        -- intros; discriminate.
Qed.
