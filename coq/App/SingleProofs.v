(* C17 — proofs about the singleapp model: the handle invariant, what every operation does to
   the logical content  take fileOffset file ++ writeBuffer[flushed:unwritten],  and the
   simulation of the byte-array specification by every run that never observes a stale tail. *)
From V Require Import Base.Bytes App.Spec App.Single App.ListN.
From Coq Require Import ZifyN ZifyNat ZifyBool.

Ltac splits := repeat match goal with |- _ /\ _ => split end.

Definition content (h : hnd) (F : bytes) : bytes :=
  take (h_fo h) F ++ slice (h_wbuf h) (h_fl h) (h_uw h).

Definition capmode (h : hnd) : bool := h_retry h && negb (h_auto h).

(* invariant of a handle on its file: every Go slice expression on the write buffer is in range *)
Record hwf (h : hnd) (F : bytes) : Prop := mkwf {
  wf_fo : h_fo h <= len F;
  wf_fl : h_fl h <= h_uw h;
  wf_uw : h_uw h <= len (h_wbuf h);
  wf_pos : h_seek h = false -> h_pos h = h_fo h;
  wf_buf : h_ro h = false -> 0 < len (h_wbuf h);
  wf_nr : h_retry h = false -> h_fl h = 0;
  wf_ro : h_ro h = true -> h_uw h = 0 /\ h_fl h = 0;
  wf_flfo : h_fl h <= h_fo h
}.

Lemma len_content h F : hwf h F -> len (content h F) = h_offset h.
Proof.
  intros W. destruct W. unfold content, h_offset.
  rewrite len_app, len_take, len_slice. lia.
Qed.

Lemma fwrite_in F pos d : pos <= len F -> fwrite F pos d = take pos F ++ d ++ drop (pos + len d) F.
Proof.
  intros H. unfold fwrite. replace (pos - len F) with 0 by lia.
  change (zeros 0) with (@nil N). rewrite app_nil_r. reflexivity.
Qed.

Lemma len_fwrite F pos d : pos <= len F -> len (fwrite F pos d) = N.max (len F) (pos + len d).
Proof.
  intros H. rewrite fwrite_in by exact H. rewrite !len_app, len_take, len_drop. lia.
Qed.

Lemma take_fwrite F pos d : pos <= len F -> take (pos + len d) (fwrite F pos d) = take pos F ++ d.
Proof.
  intros H. rewrite fwrite_in by exact H. rewrite app_assoc.
  replace (pos + len d) with (len (take pos F ++ d)) by (rewrite len_app, len_take; lia).
  apply take_app_exact.
Qed.

Lemma h_open_wf F o : opts_valid o = true -> hwf (h_open F (ro_nobuf o)) F.
Proof.
  intros V. unfold opts_valid in V. unfold h_open, ro_nobuf.
  constructor; cbn [h_fo h_fl h_uw h_wbuf h_seek h_pos h_ro h_retry o_ro o_buf o_retry o_auto]; try lia; auto.
  - rewrite len_zeros. intros E. rewrite E in *. simpl in V. lia.
Qed.

Lemma content_open F o : content (h_open F o) F = F.
Proof.
  unfold content, h_open; cbn [h_fo h_fl h_uw h_wbuf].
  rewrite take_all. rewrite slice_empty by lia. apply app_nil_r.
Qed.

(* ---------- flush / sync ---------- *)
Record same_cfg (h h' : hnd) : Prop := mksame {
  sc_ro : h_ro h' = h_ro h;
  sc_retry : h_retry h' = h_retry h;
  sc_auto : h_auto h' = h_auto h;
  sc_closed : h_closed h' = h_closed h;
  sc_blen : len (h_wbuf h') = len (h_wbuf h)
}.

Lemma same_cfg_refl h : same_cfg h h. Proof. constructor; reflexivity. Qed.
Lemma same_cfg_trans a b c : same_cfg a b -> same_cfg b c -> same_cfg a c.
Proof. intros [] []; constructor; congruence. Qed.

Lemma h_flush_spec h F h' F' :
  hwf h F -> h_flush h F = (h', F') ->
  hwf h' F' /\ content h' F' = content h F /\ same_cfg h h' /\
  h_fo h' = h_offset h /\ h_uw h' = h_fl h' /\
  (h_retry h = true -> h_fo h' - h_fl h' = h_fo h - h_fl h /\ h_uw h' = h_uw h) /\
  (h_retry h = false -> h_uw h' = 0).
Proof.
  intros W E. pose proof W as W0. destruct W. unfold h_flush in E.
  destruct (N.eqb_spec (h_uw h - h_fl h) 0) as [Z|NZ].
  - assert (h' = h) by congruence. assert (F' = F) by congruence. subst.
    splits; auto using same_cfg_refl; unfold h_offset; try lia.
  - set (pos := if h_seek h then h_fo h else h_pos h) in E.
    assert (Hpos : pos = h_fo h).
    { unfold pos. destruct (h_seek h) eqn:S; auto. }
    rewrite Hpos in E. clear pos Hpos.
    set (d := slice (h_wbuf h) (h_fl h) (h_uw h)) in *.
    assert (Ld : len d = h_uw h - h_fl h) by (unfold d; rewrite len_slice; lia).
    assert (Ct : take (h_fo h + len d) (fwrite F (h_fo h) d) = take (h_fo h) F ++ d)
      by (apply take_fwrite; exact wf_fo0).
    assert (Lf : len (fwrite F (h_fo h) d) = N.max (len F) (h_fo h + len d))
      by (apply len_fwrite; exact wf_fo0).
    destruct (h_retry h) eqn:RT.
    + assert (h' = mkh (h_fo h + len d) (h_fo h + len d) false (h_wbuf h) (h_fl h + len d) (h_uw h)
                       (h_ro h) (h_retry h) (h_auto h) (h_closed h)) by congruence.
      assert (F' = fwrite F (h_fo h) d) by congruence. subst h' F'.
      splits; cbn [h_fo h_pos h_seek h_wbuf h_fl h_uw h_ro h_retry h_auto h_closed]; auto; try lia;
        try (intros; discriminate); try (unfold h_offset; lia).
      * constructor; cbn [h_fo h_pos h_seek h_wbuf h_fl h_uw h_ro h_retry h_auto h_closed]; auto; try lia;
          try (intros; discriminate).
        all: intros RO; specialize (wf_ro0 RO); lia.
      * unfold content; cbn [h_fo h_fl h_uw h_wbuf]; rewrite Ct;
        rewrite (slice_empty (h_wbuf h)) by lia; rewrite app_nil_r; reflexivity.
      * constructor; auto.
    + assert (h' = mkh (h_fo h + len d) (h_fo h + len d) false (h_wbuf h) 0 0
                       (h_ro h) (h_retry h) (h_auto h) (h_closed h)) by congruence.
      assert (F' = fwrite F (h_fo h) d) by congruence. subst h' F'.
      splits; cbn [h_fo h_pos h_seek h_wbuf h_fl h_uw h_ro h_retry h_auto h_closed]; auto; try lia;
        try (intros; discriminate); try (unfold h_offset; lia).
      * constructor; cbn [h_fo h_pos h_seek h_wbuf h_fl h_uw h_ro h_retry h_auto h_closed]; auto; try lia;
          try (intros; discriminate).
        all: intros RO; specialize (wf_ro0 RO); lia.
      * unfold content; cbn [h_fo h_fl h_uw h_wbuf]; rewrite Ct;
        rewrite (slice_empty (h_wbuf h)) by lia; rewrite app_nil_r; reflexivity.
      * constructor; auto.
Qed.

Lemma h_sync_spec h F h' F' :
  hwf h F -> h_sync h F = (h', F') ->
  hwf h' F' /\ content h' F' = content h F /\ same_cfg h h' /\
  h_fo h' = h_offset h /\ h_uw h' = h_fl h' /\
  (h_retry h = true -> h_fl h' = 0 /\ h_uw h' = 0) /\
  (h_retry h = false -> h_uw h' = 0).
Proof.
  intros W E. unfold h_sync in E.
  destruct (h_flush h F) as [h1 F1] eqn:EF.
  destruct (h_flush_spec _ _ _ _ W EF) as (W1 & C1 & S1 & FO1 & U1 & RT1 & NR1).
  destruct S1. destruct (h_retry h1) eqn:RT.
  - assert (h' = h_set_buf h1 (h_wbuf h1) 0 0) by congruence. assert (F' = F1) by congruence. subst.
    destruct W1.
    splits; unfold h_set_buf; cbn [h_fo h_pos h_seek h_wbuf h_fl h_uw h_ro h_retry h_auto h_closed]; auto; try lia;
      try congruence.
    + constructor; cbn [h_fo h_pos h_seek h_wbuf h_fl h_uw h_ro h_retry h_auto h_closed]; auto; try lia.
    + unfold content in *; cbn [h_fo h_fl h_uw h_wbuf]; rewrite <- C1;
      rewrite (slice_empty (h_wbuf h1) 0 0) by lia; rewrite (slice_empty (h_wbuf h1) (h_fl h1)) by lia;
      reflexivity.
    + constructor; cbn [h_fo h_pos h_seek h_wbuf h_fl h_uw h_ro h_retry h_auto h_closed]; congruence.
  - assert (h' = h1) by congruence. assert (F' = F1) by congruence. subst.
    splits; auto; try congruence.
    constructor; congruence.
Qed.

(* copy(writeBuffer[unwritten:], c); unwritten += len(c) *)
Lemma bufwrite_spec h F c :
  hwf h F -> h_ro h = false -> h_uw h + len c <= len (h_wbuf h) ->
  let h2 := h_set_buf h (upd (h_wbuf h) (h_uw h) c) (h_fl h) (h_uw h + len c) in
  hwf h2 F /\ content h2 F = content h F ++ c /\ same_cfg h h2.
Proof.
  intros W RO LE. destruct W. cbn zeta.
  assert (LU : len (upd (h_wbuf h) (h_uw h) c) = len (h_wbuf h)) by (apply len_upd; exact LE).
  splits.
  - unfold h_set_buf. constructor;
    cbn [h_fo h_pos h_seek h_wbuf h_fl h_uw h_ro h_retry h_auto h_closed]; auto.
    + lia.
    + rewrite LU. exact LE.
    + rewrite LU. exact wf_buf0.
    + intros X. congruence.
  - unfold content, h_set_buf; cbn [h_fo h_fl h_uw h_wbuf].
    rewrite <- app_assoc. f_equal. apply slice_upd_ext; auto.
  - unfold h_set_buf. constructor; cbn [h_ro h_retry h_auto h_closed h_wbuf]; auto.
Qed.

(* ---------- write ---------- *)
Lemma min_pos a b : 0 < a -> 0 < b -> 0 < N.min a b. Proof. lia. Qed.
Lemma min_le_l a b : N.min a b <= a. Proof. lia. Qed.
Lemma min_le_r a b : N.min a b <= b. Proof. lia. Qed.

(* after flush/sync of a full buffer, or with room left: one chunk of `rest` goes into the buffer *)
Lemma bufwrite_take h F rest avail :
  hwf h F -> h_ro h = false -> 0 < len rest -> 0 < avail -> h_uw h + avail <= len (h_wbuf h) ->
  let k := N.min (len rest) avail in
  let h2 := h_set_buf h (upd (h_wbuf h) (h_uw h) (take k rest)) (h_fl h) (h_uw h + k) in
  hwf h2 F /\ content h2 F = content h F ++ take k rest /\ same_cfg h h2 /\ 0 < k /\ k <= len rest.
Proof.
  intros W RO LR AV LE. cbn zeta.
  set (k := N.min (len rest) avail).
  assert (Kpos : 0 < k) by (apply min_pos; auto).
  assert (Kr : k <= len rest) by apply min_le_l.
  assert (Ka : k <= avail) by apply min_le_r.
  assert (Lk : len (take k rest) = k) by (rewrite len_take; clear - Kr; lia).
  assert (LEB : h_uw h + len (take k rest) <= len (h_wbuf h)) by (rewrite Lk; clear - Ka LE; lia).
  destruct (bufwrite_spec h F (take k rest) W RO LEB) as (W2 & C2 & S2).
  rewrite Lk in W2, C2, S2. splits; auto.
Qed.

Lemma h_write_step_spec h F rest :
  hwf h F -> h_ro h = false -> 0 < len rest ->
  match h_write_step h F rest with
  | None => capmode h = true /\ len (h_wbuf h) - h_uw h = 0
  | Some (h2, F2, k) =>
      hwf h2 F2 /\ content h2 F2 = content h F ++ take k rest /\ same_cfg h h2 /\
      0 < k /\ k <= len rest /\
      (capmode h = true -> k = N.min (len rest) (len (h_wbuf h) - h_uw h) /\
                           h_fo h2 = h_fo h /\ h_fl h2 = h_fl h /\ h_uw h2 = h_uw h + k)
  end.
Proof.
  intros W RO LR. unfold h_write_step.
  pose proof (wf_buf _ _ W RO) as BP. pose proof (wf_uw _ _ W) as UW.
  destruct (N.eqb_spec (len (h_wbuf h) - h_uw h) 0) as [AZ|ANZ].
  - destruct (h_retry h) eqn:RT; [destruct (h_auto h) eqn:AU|]; cbn [andb negb].
    + (* sync *)
      destruct (h_sync h F) as [h1 F1] eqn:ES.
      destruct (h_sync_spec _ _ _ _ W ES) as (W1 & C1 & S1 & FO1 & U1 & RT1 & NR1).
      destruct (RT1 RT) as [FL1 UW1].
      assert (RO1 : h_ro h1 = false) by (destruct S1; congruence).
      assert (LE1 : h_uw h1 + len (h_wbuf h) <= len (h_wbuf h1)) by (destruct S1; clear - UW1 sc_blen0; lia).
      destruct (bufwrite_take h1 F1 rest (len (h_wbuf h)) W1 RO1 LR BP LE1) as (W2 & C2 & S2 & K1 & K2).
      splits; auto.
      * rewrite C2, C1. reflexivity.
      * eapply same_cfg_trans; eauto.
      * unfold capmode. rewrite RT, AU. intros; discriminate.
    + split; auto. unfold capmode. rewrite RT, AU. reflexivity.
    + (* flush *)
      destruct (h_flush h F) as [h1 F1] eqn:ES.
      destruct (h_flush_spec _ _ _ _ W ES) as (W1 & C1 & S1 & FO1 & U1 & RT1 & NR1).
      specialize (NR1 RT).
      assert (RO1 : h_ro h1 = false) by (destruct S1; congruence).
      assert (LE1 : h_uw h1 + len (h_wbuf h) <= len (h_wbuf h1)) by (destruct S1; clear - NR1 sc_blen0; lia).
      destruct (bufwrite_take h1 F1 rest (len (h_wbuf h)) W1 RO1 LR BP LE1) as (W2 & C2 & S2 & K1 & K2).
      splits; auto.
      * rewrite C2, C1. reflexivity.
      * eapply same_cfg_trans; eauto.
      * unfold capmode. rewrite RT. intros; discriminate.
  - cbn [andb].
    assert (AV : 0 < len (h_wbuf h) - h_uw h) by (clear - ANZ; lia).
    assert (LE1 : h_uw h + (len (h_wbuf h) - h_uw h) <= len (h_wbuf h)) by (clear - UW; lia).
    destruct (bufwrite_take h F rest _ W RO LR AV LE1) as (W2 & C2 & S2 & K1 & K2).
    splits; auto.
Qed.

Lemma take_take_drop k j (l : bytes) : take k l ++ take j (drop k l) = take (k + j) l.
Proof.
  unfold take, drop.
  rewrite <- (firstn_skipn (N.to_nat k) l) at 3.
  rewrite firstn_app, firstn_firstn.
  replace (Nat.min (N.to_nat (k + j)) (N.to_nat k)) with (N.to_nat k) by lia.
  f_equal. rewrite firstn_length.
  destruct (Nat.le_gt_cases (N.to_nat k) (length l)).
  - f_equal. lia.
  - rewrite skipn_all2 by lia. rewrite !firstn_nil. reflexivity.
Qed.

Lemma len_drop_fuel k rest fuel :
  0 < k -> (length rest <= S fuel)%nat -> (length (drop k rest) <= fuel)%nat.
Proof. intros. unfold drop. rewrite skipn_length. lia. Qed.

Lemma capmode_same h h' : same_cfg h h' -> capmode h' = capmode h.
Proof. intros []. unfold capmode. congruence. Qed.

(* write(bs) when the buffer is never reported full: everything is appended *)
Lemma h_write_all fuel : forall h F rest n h' F' n' full,
  hwf h F -> h_ro h = false -> capmode h = false -> (length rest <= fuel)%nat ->
  h_write fuel h F rest n = (h', F', n', full) ->
  hwf h' F' /\ content h' F' = content h F ++ rest /\ n' = n + len rest /\ full = false /\ same_cfg h h'.
Proof.
  induction fuel as [|fuel IH]; intros h F rest n h' F' n' full W RO CM LE E.
  - assert (rest = []) by (destruct rest; simpl in LE; [auto|lia]). subst rest.
    simpl in E. assert (h' = h) by congruence. assert (F' = F) by congruence.
    assert (n' = n) by congruence. assert (full = false) by congruence. subst.
    rewrite app_nil_r. change (len []) with 0. rewrite N.add_0_r. splits; auto using same_cfg_refl.
  - cbn [h_write] in E.
    destruct (N.eqb_spec (len rest) 0) as [Z|NZ].
    { assert (rest = []) by (apply len_0_nil; auto). subst rest.
      assert (h' = h) by congruence. assert (F' = F) by congruence.
      assert (n' = n) by congruence. assert (full = false) by congruence. subst.
      rewrite app_nil_r. change (len []) with 0. rewrite N.add_0_r. splits; auto using same_cfg_refl. }
    assert (LR : 0 < len rest) by (clear - NZ; lia).
    pose proof (h_write_step_spec h F rest W RO LR) as ST.
    destruct (h_write_step h F rest) as [[[h2 F2] k]|].
    + destruct ST as (W2 & C2 & S2 & K1 & K2 & _).
      assert (RO2 : h_ro h2 = false) by (destruct S2; congruence).
      assert (CM2 : capmode h2 = false) by (rewrite (capmode_same _ _ S2); auto).
      pose proof (len_drop_fuel k rest fuel K1 LE) as LE2.
      destruct (IH h2 F2 (drop k rest) (n + k) h' F' n' full W2 RO2 CM2 LE2 E) as (W' & C' & N' & FU' & S').
      splits; auto.
      * rewrite C', C2, <- app_assoc. f_equal. apply take_drop_cat.
      * rewrite N', len_drop. clear - K2. lia.
      * eapply same_cfg_trans; eauto.
    + destruct ST as [CM' _]. congruence.
Qed.

(* write(bs) with retryableSync and no autoSync: stops when the buffer is full *)
Lemma h_write_cap fuel : forall h F rest n h' F' n' full,
  hwf h F -> h_ro h = false -> capmode h = true -> (length rest <= fuel)%nat ->
  h_write fuel h F rest n = (h', F', n', full) ->
  let w := N.min (len rest) (len (h_wbuf h) - h_uw h) in
  hwf h' F' /\ content h' F' = content h F ++ take w rest /\ n' = n + w /\
  full = (w <? len rest) /\ same_cfg h h' /\
  h_fo h' = h_fo h /\ h_fl h' = h_fl h /\ h_uw h' = h_uw h + w /\ F' = F.
Proof.
  induction fuel as [|fuel IH]; intros h F rest n h' F' n' full W RO CM LE E.
  - assert (rest = []) by (destruct rest; simpl in LE; [auto|lia]). subst rest.
    simpl in E. assert (h' = h) by congruence. assert (F' = F) by congruence.
    assert (n' = n) by congruence. assert (full = false) by congruence. subst.
    cbn zeta. change (len []) with 0. rewrite N.min_0_l, take_0, app_nil_r, !N.add_0_r.
    splits; auto using same_cfg_refl.
  - cbn [h_write] in E.
    destruct (N.eqb_spec (len rest) 0) as [Z|NZ].
    { assert (rest = []) by (apply len_0_nil; auto). subst rest.
      assert (h' = h) by congruence. assert (F' = F) by congruence.
      assert (n' = n) by congruence. assert (full = false) by congruence. subst.
      cbn zeta. change (len []) with 0. rewrite N.min_0_l, take_0, app_nil_r, !N.add_0_r.
      splits; auto using same_cfg_refl. }
    assert (LR : 0 < len rest) by (clear - NZ; lia).
    pose proof (h_write_step_spec h F rest W RO LR) as ST.
    unfold h_write_step in E, ST.
    destruct (N.eqb_spec (len (h_wbuf h) - h_uw h) 0) as [AZ|ANZ].
    + (* full: ErrBufferFull *)
      unfold capmode in CM. apply andb_prop in CM as [RT AU]. rewrite RT, AU in E. cbn [andb negb] in E.
      assert (h' = h) by congruence. assert (F' = F) by congruence.
      assert (n' = n) by congruence. assert (full = true) by congruence. subst.
      cbn zeta. rewrite AZ, N.min_0_r, take_0, app_nil_r, !N.add_0_r.
      splits; auto using same_cfg_refl. symmetry. apply N.ltb_lt. exact LR.
    + cbn [andb] in E, ST.
      set (k := N.min (len rest) (len (h_wbuf h) - h_uw h)) in *.
      set (h2 := h_set_buf h (upd (h_wbuf h) (h_uw h) (take k rest)) (h_fl h) (h_uw h + k)) in *.
      destruct ST as (W2 & C2 & S2 & K1 & K2 & _).
      assert (RO2 : h_ro h2 = false) by (destruct S2; congruence).
      assert (CM2 : capmode h2 = true) by (rewrite (capmode_same _ _ S2); auto).
      pose proof (len_drop_fuel k rest fuel K1 LE) as LE2.
      specialize (IH h2 F (drop k rest) (n + k) h' F' n' full W2 RO2 CM2 LE2 E).
      cbn zeta in IH.
      assert (B2 : len (h_wbuf h2) = len (h_wbuf h)) by (destruct S2; auto).
      assert (U2 : h_uw h2 = h_uw h + k) by reflexivity.
      rewrite B2, U2, len_drop in IH.
      set (j := N.min (len rest - k) (len (h_wbuf h) - (h_uw h + k))) in IH.
      assert (J0 : j = 0) by (unfold j, k; clear; lia).
      rewrite J0 in IH. rewrite take_0, app_nil_r, !N.add_0_r in IH.
      destruct IH as (W' & C' & N' & FU' & S' & A1 & A2 & A3 & A4).
      cbn zeta. splits; auto.
      * congruence.
      * rewrite FU'. clear - K2. destruct (N.ltb_spec 0 (len rest - k)); destruct (N.ltb_spec k (len rest)); auto; lia.
      * eapply same_cfg_trans; eauto.
Qed.

(* ---------- Append ---------- *)
Lemma h_append_spec h F bs h' F' x :
  hwf h F -> h_closed h = false -> h_ro h = false -> 0 < len bs ->
  h_append h F bs = (h', F', x) ->
  let w := if capmode h then N.min (len bs) (len (h_wbuf h) - h_uw h) else len bs in
  hwf h' F' /\ content h' F' = content h F ++ take w bs /\ same_cfg h h' /\
  x = (if capmode h && (w <? len bs) then OFull (h_offset h) w else OApp (h_offset h) w) /\
  (capmode h = true -> h_fo h' = h_fo h /\ h_fl h' = h_fl h /\ h_uw h' = h_uw h + w).
Proof.
  intros W CL RO LB E. unfold h_append in E. rewrite CL, RO in E.
  replace (len bs =? 0) with false in E by (symmetry; apply N.eqb_neq; clear - LB; lia).
  destruct (h_write (length bs) h F bs 0) as [[[h1 F1] n1] full] eqn:EW.
  assert (h' = h1) by congruence. assert (F' = F1) by congruence. subst h1 F1.
  assert (X : x = if full then OFull (h_offset h) n1 else OApp (h_offset h) n1) by congruence.
  clear E. destruct (capmode h) eqn:CM; cbn zeta.
  - destruct (h_write_cap _ _ _ _ _ _ _ _ _ W RO CM (le_n _) EW) as (W' & C' & N' & FU' & S' & A1 & A2 & A3 & _).
    cbn zeta in *. rewrite N.add_0_l in N'. splits; auto.
    rewrite X, FU', N'. cbn [andb]. reflexivity.
  - destruct (h_write_all _ _ _ _ _ _ _ _ _ W RO CM (le_n _) EW) as (W' & C' & N' & FU' & S').
    rewrite N.add_0_l in N'. splits; auto.
    + rewrite take_all. exact C'.
    + rewrite X, FU', N'. reflexivity.
    + intros; discriminate.
Qed.

(* ---------- readAt ---------- *)
Definition spec_read (D : bytes) (n off : N) : out :=
  if len D <? off then ORead [] true
  else let k := N.min n (len D - off) in ORead (slice D off (off + k)) (k <? n).

Lemma slice_plus b i n : slice b i (i + n) = take n (drop i b).
Proof. unfold slice. f_equal. lia. Qed.

(* read entirely below fileOffset *)
Lemma read_file_part F fo W fl uw n off :
  fo <= len F -> off + n <= fo ->
  take n (drop off F) = slice (take fo F ++ slice W fl uw) off (off + n) /\ len (take n (drop off F)) = n.
Proof.
  intros H1 H2. split.
  - rewrite slice_app_l by (rewrite len_take; lia).
    rewrite slice_take by lia. symmetry. apply slice_plus.
  - rewrite len_take, len_drop. lia.
Qed.

(* read entirely at or above fileOffset *)
Lemma read_buf_part F fo W fl uw off k :
  fo <= len F -> fo <= off -> fl + (off - fo) + k <= uw ->
  slice W (fl + (off - fo)) (fl + (off - fo) + k) = slice (take fo F ++ slice W fl uw) off (off + k).
Proof.
  intros H1 H2 H3.
  rewrite slice_app_r by (rewrite len_take; lia). rewrite len_take.
  replace (N.min fo (len F)) with fo by lia.
  rewrite slice_slice by lia. f_equal; lia.
Qed.

(* read across fileOffset: the file part is clamped to fileOffset, the rest comes from the buffer *)
Lemma read_cross_part F fo W fl uw off k :
  off <= fo -> fo <= len F -> fl + k <= uw ->
  take (fo - off) (drop off F) ++ slice W fl (fl + k) = slice (take fo F ++ slice W fl uw) off (fo + k).
Proof.
  intros H0 H1 H2.
  rewrite slice_app_mid by (rewrite len_take; lia). rewrite len_take. f_equal.
  - rewrite drop_take. reflexivity.
  - replace (fo + k - N.min fo (len F)) with k by lia.
    rewrite take_slice. f_equal. lia.
Qed.

Lemma h_readat_spec h F n off :
  hwf h F -> 0 < n ->
  h_readat_ h F n off = spec_read (content h F) n off.
Proof.
  intros W NP. pose proof (len_content _ _ W) as LC.
  unfold h_readat_, spec_read. rewrite LC.
  destruct (N.ltb_spec (h_offset h) off) as [L0|L0]; [reflexivity|].
  destruct W. unfold h_offset in *. unfold content.
  destruct (N.ltb_spec off (h_fo h)) as [L1|L1].
  - unfold freadat.
    destruct (N.ltb_spec (h_fo h) (off + n)) as [L2|L2].
    + (* across fileOffset *)
      replace (N.min n (h_fo h - off)) with (h_fo h - off) by (clear - L1 L2; lia).
      assert (LD : len (take (h_fo h - off) (drop off F)) = h_fo h - off)
        by (rewrite len_take, len_drop; clear - L1 wf_fo0; lia).
      rewrite LD.
      replace (0 <? n - (h_fo h - off)) with true by (symmetry; apply N.ltb_lt; clear - L1 L2; lia).
      set (k2 := N.min (n - (h_fo h - off)) (h_uw h - h_fl h - 0)).
      assert (K2 : h_fl h + k2 <= h_uw h) by (unfold k2; clear - wf_fl0; lia).
      assert (OF : off <= h_fo h) by (clear - L1; lia).
      pose proof (read_cross_part F (h_fo h) (h_wbuf h) (h_fl h) (h_uw h) off k2 OF wf_fo0 K2) as RC.
      replace (N.min n (h_fo h + (h_uw h - h_fl h) - off)) with (h_fo h - off + k2)
        by (unfold k2; clear - L1 L2 wf_fl0; lia).
      replace (off + (h_fo h - off + k2)) with (h_fo h + k2) by (clear - L1; lia).
      rewrite <- RC. rewrite N.add_0_r.
      f_equal.
      * f_equal. destruct (N.ltb_spec 0 k2); auto.
        rewrite slice_empty; auto. clear - H. lia.
      * unfold k2. clear - L1 L2.
        destruct (N.eqb_spec (N.min (n - (h_fo h - off)) (h_uw h - h_fl h - 0)) (n - (h_fo h - off)));
        destruct (N.ltb_spec (h_fo h - off + N.min (n - (h_fo h - off)) (h_uw h - h_fl h - 0)) n); auto; lia.
    + (* entirely in the file *)
      replace (N.min n (h_fo h - off)) with n by (clear - L2; lia).
      destruct (read_file_part F (h_fo h) (h_wbuf h) (h_fl h) (h_uw h) n off wf_fo0 L2) as [RF RL].
      rewrite RL. replace (0 <? n - n) with false by (symmetry; apply N.ltb_ge; clear; lia).
      replace (N.min n (h_fo h + (h_uw h - h_fl h) - off)) with n by (clear - L2; lia).
      rewrite <- RF. reflexivity.
  - (* entirely in the buffer *)
    change (len []) with 0. rewrite N.sub_0_r.
    replace (0 <? n) with true by (symmetry; apply N.ltb_lt; exact NP).
    set (k := N.min n (h_uw h - h_fl h - (off - h_fo h))).
    assert (K : h_fl h + (off - h_fo h) + k <= h_uw h) by (unfold k; clear - L0 L1 wf_fl0; lia).
    pose proof (read_buf_part F (h_fo h) (h_wbuf h) (h_fl h) (h_uw h) off k wf_fo0 L1 K) as RB.
    replace (N.min n (h_fo h + (h_uw h - h_fl h) - off)) with k by (unfold k; clear - L0 L1 wf_fl0; lia).
    rewrite <- RB. cbn [app]. f_equal.
    + destruct (N.ltb_spec 0 k); auto. rewrite slice_empty; auto. clear - H. lia.
    + unfold k. clear.
      destruct (N.eqb_spec (N.min n (h_uw h - h_fl h - (off - h_fo h))) n);
      destruct (N.ltb_spec (N.min n (h_uw h - h_fl h - (off - h_fo h))) n); auto; lia.
Qed.

(* ---------- SetOffset ---------- *)
Lemma take_content_mem F fo W fl uw off :
  fo <= len F -> fl <= uw -> uw <= len W -> fo <= off -> off <= fo + (uw - fl) ->
  take fo F ++ slice W fl (uw - (fo + (uw - fl) - off)) = take off (take fo F ++ slice W fl uw).
Proof.
  intros. rewrite take_app_ge by (rewrite len_take; lia). f_equal.
  rewrite len_take. rewrite take_slice. f_equal. lia.
Qed.

Lemma take_content_file F fo W fl uw off :
  fo <= len F -> off < fo ->
  take off F ++ slice W 0 0 = take off (take fo F ++ slice W fl uw).
Proof.
  intros. rewrite take_app_le by (rewrite len_take; lia).
  rewrite take_take. rewrite (slice_empty W 0 0) by lia. rewrite app_nil_r. f_equal. lia.
Qed.

Lemma h_setoffset_spec h F off h' x :
  hwf h F -> h_closed h = false -> h_ro h = false -> h_setoffset h off = (h', x) ->
  (h_offset h < off /\ h' = h /\ x = OErr) \/
  (off <= h_offset h /\ x = OOk /\ hwf h' F /\ content h' F = take off (content h F) /\ same_cfg h h' /\
   (h_fo h <= off -> h_fo h' = h_fo h /\ h_fl h' = h_fl h) /\
   (off < h_fo h -> h_fo h' = off /\ h_fl h' = 0 /\ h_uw h' = 0)).
Proof.
  intros W CL RO E. unfold h_setoffset in E. rewrite CL, RO in E.
  pose proof (len_content _ _ W) as LC.
  destruct (N.ltb_spec (h_offset h) off) as [L0|L0].
  { left. splits; auto; congruence. }
  right.
  destruct (N.eqb_spec off (h_offset h)) as [EQ|NE].
  { assert (h' = h) by congruence. assert (x = OOk) by congruence. subst h' x.
    splits; auto using same_cfg_refl.
    - rewrite take_ge; auto. rewrite LC. clear - EQ. lia.
    - intros LT. exfalso. unfold h_offset in EQ. clear - EQ LT. lia. }
  destruct W. unfold h_offset in *.
  destruct (N.leb_spec (h_fo h) off) as [L1|L1].
  - assert (h' = h_set_buf h (h_wbuf h) (h_fl h) (h_uw h - (h_fo h + (h_uw h - h_fl h) - off))) by congruence.
    assert (x = OOk) by congruence. subst h' x.
    splits.
    + exact L0.
    + reflexivity.
    + unfold h_set_buf. constructor; cbn [h_fo h_pos h_seek h_wbuf h_fl h_uw h_ro h_retry h_auto h_closed]; auto.
      * clear - L0 L1 wf_fl0. lia.
      * clear - wf_uw0. lia.
      * intros X. congruence.
    + unfold content, h_set_buf; cbn [h_fo h_fl h_uw h_wbuf]. apply take_content_mem; auto.
    + unfold h_set_buf. constructor; reflexivity.
    + intros _. split; reflexivity.
    + intros LT. exfalso. clear - LT L1. lia.
  - assert (h' = mkh off (h_pos h) true (h_wbuf h) 0 0 (h_ro h) (h_retry h) (h_auto h) (h_closed h)) by congruence.
    assert (x = OOk) by congruence. subst h' x.
    splits.
    + exact L0.
    + reflexivity.
    + constructor; cbn [h_fo h_pos h_seek h_wbuf h_fl h_uw h_ro h_retry h_auto h_closed]; auto;
        try (clear - L1 wf_fo0; lia); try (clear; lia); try (intros; discriminate);
        try (intros X; congruence).
    + unfold content; cbn [h_fo h_fl h_uw h_wbuf]. apply take_content_file; auto.
    + constructor; reflexivity.
    + intros LE. exfalso. clear - LE L1. lia.
    + intros _. cbn [h_fo h_fl h_uw]. splits; reflexivity.
Qed.

(* ---------- SwitchToReadOnlyMode / Close ---------- *)
Lemma h_switch_ro_spec h F h' F' x :
  hwf h F -> h_closed h = false -> h_ro h = false -> h_switch_ro h F = (h', F', x) ->
  x = OOk /\ hwf h' F' /\ content h' F' = content h F /\ h_ro h' = true /\ h_closed h' = false /\
  h_fo h' = h_offset h.
Proof.
  intros W CL RO E. unfold h_switch_ro in E. rewrite CL, RO in E.
  destruct (h_flush h F) as [h1 F1] eqn:EF.
  destruct (h_flush_spec _ _ _ _ W EF) as (W1 & C1 & S1 & FO1 & U1 & RT1 & NR1).
  assert (exists h2 F2, (if h_retry h1 then h_sync h1 F1 else (h1, F1)) = (h2, F2) /\
            hwf h2 F2 /\ content h2 F2 = content h F /\ same_cfg h h2 /\ h_fo h2 = h_offset h /\
            h_uw h2 = 0 /\ h_fl h2 = 0) as (h2 & F2 & E2 & W2 & C2 & S2 & FO2 & U2 & L2).
  { destruct (h_retry h1) eqn:RT.
    - destruct (h_sync h1 F1) as [h2 F2] eqn:ES. exists h2, F2.
      destruct (h_sync_spec _ _ _ _ W1 ES) as (W2 & C2 & S2 & FO2 & U2 & RT2 & NR2).
      destruct (RT2 RT). splits; auto; try congruence.
      + eapply same_cfg_trans; eauto.
      + rewrite FO2. unfold h_offset at 1. rewrite U1, FO1. clear. lia.
    - exists h1, F1. assert (RT0 : h_retry h = false) by (destruct S1; congruence).
      specialize (NR1 RT0). pose proof (wf_nr _ _ W1 RT) as Z. splits; auto. }
  rewrite E2 in E.
  assert (h' = mkh (h_fo h2) (h_pos h2) (h_seek h2) [] (h_fl h2) (h_uw h2) true (h_retry h2) (h_auto h2) (h_closed h2))
    by congruence.
  assert (F' = F2) by congruence. assert (x = OOk) by congruence. subst h' F' x.
  destruct W2. splits; cbn [h_fo h_ro h_closed]; auto.
  - constructor; cbn [h_fo h_pos h_seek h_wbuf h_fl h_uw h_ro h_retry h_auto h_closed]; auto;
      try (rewrite U2, ?L2; change (len []) with 0; clear; lia); try (intros; discriminate);
      try (rewrite L2; clear; lia).
  - rewrite <- C2. unfold content; cbn [h_fo h_fl h_uw h_wbuf]. rewrite U2, L2.
    rewrite !slice_empty by (clear; lia). reflexivity.
  - destruct S2. congruence.
Qed.

Lemma h_close_spec h F h' F' x :
  hwf h F -> h_closed h = false -> h_close h F = (h', F', x) ->
  x = OOk /\ hwf h' F' /\ content h' F' = content h F /\ h_ro h' = h_ro h /\ h_closed h' = true /\
  h_fo h' = h_offset h /\ h_uw h' = h_fl h' /\
  h_retry h' = h_retry h /\ h_auto h' = h_auto h /\ len (h_wbuf h') = len (h_wbuf h) /\
  (h_retry h = true -> h_fo h' - h_fl h' = h_fo h - h_fl h).
Proof.
  intros W CL E. unfold h_close in E. rewrite CL in E.
  assert (exists h1 F1, (if h_ro h then (h, F) else h_flush h F) = (h1, F1) /\
            hwf h1 F1 /\ content h1 F1 = content h F /\ same_cfg h h1 /\ h_fo h1 = h_offset h /\ h_uw h1 = h_fl h1 /\
            (h_retry h = true -> h_fo h1 - h_fl h1 = h_fo h - h_fl h))
    as (h1 & F1 & E1 & W1 & C1 & S1 & FO1 & U1 & RT1).
  { destruct (h_ro h) eqn:RO.
    - exists h, F. destruct (wf_ro _ _ W RO) as [A B]. splits; auto using same_cfg_refl.
      + unfold h_offset. rewrite A, B. clear. lia.
      + congruence.
    - destruct (h_flush h F) as [h1 F1] eqn:EF. exists h1, F1.
      destruct (h_flush_spec _ _ _ _ W EF) as (W1 & C1 & S1 & FO1 & U1 & RT1 & _). splits; auto.
      intros RT. apply RT1; auto. }
  rewrite E1 in E.
  assert (h' = mkh (h_fo h1) (h_pos h1) (h_seek h1) (h_wbuf h1) (h_fl h1) (h_uw h1) (h_ro h1) (h_retry h1) (h_auto h1) true)
    by congruence.
  assert (F' = F1) by congruence. assert (x = OOk) by congruence. subst h' F' x.
  destruct W1, S1. splits; cbn [h_fo h_ro h_closed h_uw h_fl]; auto.
  constructor; cbn [h_fo h_pos h_seek h_wbuf h_fl h_uw h_ro h_retry h_auto h_closed]; auto.
Qed.


(* ---------- how far the file can grow ---------- *)
Lemma h_flush_len h F h' F' :
  hwf h F -> h_flush h F = (h', F') -> len F' = N.max (len F) (h_offset h).
Proof.
  intros W E. unfold h_flush in E. pose proof (wf_fo _ _ W) as A. pose proof (wf_fl _ _ W) as B.
  pose proof (wf_uw _ _ W) as C. unfold h_offset.
  destruct (N.eqb_spec (h_uw h - h_fl h) 0) as [Z|NZ].
  - assert (F' = F) by congruence. subst. clear - A Z. lia.
  - assert (Hpos : (if h_seek h then h_fo h else h_pos h) = h_fo h).
    { destruct (h_seek h) eqn:S; auto. apply (wf_pos _ _ W); auto. }
    rewrite Hpos in E.
    assert (F' = fwrite F (h_fo h) (slice (h_wbuf h) (h_fl h) (h_uw h))) by (destruct (h_retry h); congruence).
    subst F'. rewrite len_fwrite by exact A. rewrite len_slice. clear - A B C. lia.
Qed.

Lemma h_sync_len h F h' F' :
  hwf h F -> h_sync h F = (h', F') -> len F' = N.max (len F) (h_offset h).
Proof.
  intros W E. unfold h_sync in E. destruct (h_flush h F) as [h1 F1] eqn:EF.
  assert (F' = F1) by (destruct (h_retry h1); congruence). subst. eapply h_flush_len; eauto.
Qed.

Lemma h_offset_content h F h' F' c : hwf h F -> hwf h' F' -> content h' F' = content h F ++ c ->
  h_offset h' = h_offset h + len c.
Proof. intros W W' C. rewrite <- (len_content _ _ W), <- (len_content _ _ W'), C, len_app. reflexivity. Qed.

Lemma h_write_step_len h F rest h2 F2 k :
  hwf h F -> h_ro h = false -> 0 < len rest -> h_write_step h F rest = Some (h2, F2, k) ->
  len F2 <= N.max (len F) (h_offset h2) /\ len F <= len F2.
Proof.
  intros W RO LR E.
  pose proof (h_write_step_spec h F rest W RO LR) as ST. rewrite E in ST.
  destruct ST as (W2 & C2 & _).
  pose proof (h_offset_content _ _ _ _ _ W W2 C2) as OF.
  unfold h_write_step in E.
  destruct ((len (h_wbuf h) - h_uw h =? 0) && h_retry h && negb (h_auto h)); [discriminate|].
  destruct (len (h_wbuf h) - h_uw h =? 0).
  - destruct (h_retry h).
    + destruct (h_sync h F) as [h1 F1] eqn:ES. pose proof (h_sync_len _ _ _ _ W ES) as L.
      assert (F2 = F1) by congruence. subst. clear - L OF. lia.
    + destruct (h_flush h F) as [h1 F1] eqn:ES. pose proof (h_flush_len _ _ _ _ W ES) as L.
      assert (F2 = F1) by congruence. subst. clear - L OF. lia.
  - assert (F2 = F) by congruence. subst. clear. lia.
Qed.

Lemma h_write_len fuel : forall h F rest n h' F' n' full,
  hwf h F -> h_ro h = false ->
  h_write fuel h F rest n = (h', F', n', full) ->
  len F' <= N.max (len F) (h_offset h') /\ len F <= len F'.
Proof.
  induction fuel as [|fuel IH]; intros h F rest n h' F' n' full W RO E.
  - simpl in E. assert (F' = F) by congruence. subst. clear. lia.
  - cbn [h_write] in E.
    destruct (N.eqb_spec (len rest) 0) as [Z|NZ]; [assert (F' = F) by congruence; subst; clear; lia|].
    assert (LR : 0 < len rest) by (clear - NZ; lia).
    pose proof (h_write_step_spec h F rest W RO LR) as ST.
    destruct (h_write_step h F rest) as [[[h2 F2] k]|] eqn:ES; [|assert (F' = F) by congruence; subst; clear; lia].
    destruct ST as (W2 & C2 & S2 & _).
    destruct (h_write_step_len _ _ _ _ _ _ W RO LR ES) as [L1 L2].
    assert (RO2 : h_ro h2 = false) by (destruct S2; congruence).
    destruct (IH _ _ _ _ _ _ _ _ W2 RO2 E) as [L3 L4].
    split; [|clear - L2 L4; lia].
    (* offsets only grow along the loop *)
    assert (MON : forall fuel h F rest n h' F' n' full, hwf h F -> h_ro h = false ->
              h_write fuel h F rest n = (h', F', n', full) -> h_offset h <= h_offset h').
    { clear. induction fuel as [|fuel IH]; intros h F rest n h' F' n' full W RO E.
      - simpl in E. assert (h' = h) by congruence. subst. clear. lia.
      - cbn [h_write] in E.
        destruct (N.eqb_spec (len rest) 0) as [Z|NZ]; [assert (h' = h) by congruence; subst; clear; lia|].
        assert (LR : 0 < len rest) by (clear - NZ; lia).
        pose proof (h_write_step_spec h F rest W RO LR) as ST.
        destruct (h_write_step h F rest) as [[[h2 F2] k]|] eqn:ES; [|assert (h' = h) by congruence; subst; clear; lia].
        destruct ST as (W2 & C2 & S2 & _).
        assert (RO2 : h_ro h2 = false) by (destruct S2; congruence).
        pose proof (IH _ _ _ _ _ _ _ _ W2 RO2 E) as M.
        pose proof (h_offset_content _ _ _ _ _ W W2 C2) as OF. clear - M OF. lia. }
    pose proof (MON _ _ _ _ _ _ _ _ _ W2 RO2 E) as M. clear - L1 L3 M. lia.
Qed.

Lemma h_append_len h F bs h' F' x :
  hwf h F -> h_append h F bs = (h', F', x) ->
  len F' <= N.max (len F) (h_offset h') /\ len F <= len F'.
Proof.
  intros W E. unfold h_append in E.
  destruct (h_closed h); [assert (F' = F) by congruence; subst; clear; lia|].
  destruct (h_ro h) eqn:RO; [assert (F' = F) by congruence; subst; clear; lia|].
  destruct (len bs =? 0); [assert (F' = F) by congruence; subst; clear; lia|].
  destruct (h_write (length bs) h F bs 0) as [[[h1 F1] n1] full] eqn:EW.
  assert (h' = h1) by congruence. assert (F' = F1) by congruence. subst.
  eapply h_write_len; eauto.
Qed.

Lemma h_switch_ro_len h F h' F' x :
  hwf h F -> h_switch_ro h F = (h', F', x) -> len F' = N.max (len F) (h_offset h) \/ F' = F.
Proof.
  intros W E. unfold h_switch_ro in E.
  destruct (h_closed h); [right; congruence|]. destruct (h_ro h); [right; congruence|].
  destruct (h_flush h F) as [h1 F1] eqn:EF.
  pose proof (h_flush_len _ _ _ _ W EF) as L1.
  destruct (h_flush_spec _ _ _ _ W EF) as (W1 & C1 & S1 & FO1 & U1 & _).
  destruct (h_retry h1).
  - destruct (h_sync h1 F1) as [h2 F2] eqn:ES. pose proof (h_sync_len _ _ _ _ W1 ES) as L2.
    assert (F' = F2) by congruence. subst. left.
    assert (h_offset h1 = h_offset h).
    { rewrite <- (len_content _ _ W1), <- (len_content _ _ W), C1. reflexivity. }
    clear - L1 L2 H. lia.
  - assert (F' = F1) by congruence. subst. left. exact L1.
Qed.

Lemma h_close_len h F h' F' x :
  hwf h F -> h_close h F = (h', F', x) -> len F' = N.max (len F) (h_offset h) \/ F' = F.
Proof.
  intros W E. unfold h_close in E.
  destruct (h_closed h); [right; congruence|].
  destruct (h_ro h); [right; congruence|].
  destruct (h_flush h F) as [h1 F1] eqn:EF.
  pose proof (h_flush_len _ _ _ _ W EF) as L1.
  assert (F' = F1) by congruence. subst. left. exact L1.
Qed.

(* ---------- a handle that is only read through: open, nothing buffered, file ends at fileOffset ---------- *)
Definition rdok (h : hnd) (F : bytes) : Prop :=
  h_closed h = false /\ h_fo h = len F /\ h_uw h = h_fl h.

Lemma rdok_read h F n off : rdok h F -> 0 < n -> h_readat h F n off = spec_read F n off.
Proof.
  intros (CL & FO & U) NP. unfold h_readat, h_readat_, spec_read, h_offset. rewrite CL, FO, U, N.sub_diag, N.add_0_r.
  destruct (N.ltb_spec (len F) off) as [L|L]; [reflexivity|].
  destruct (N.ltb_spec off (len F)) as [L1|L1].
  - unfold freadat.
    set (m := N.min n (len F - off)).
    assert (LD : len (take m (drop off F)) = m) by (rewrite len_take, len_drop; unfold m; clear; lia).
    rewrite LD, N.ltb_irrefl.
    destruct (N.ltb_spec 0 (n - m)) as [P|P].
    + rewrite N.sub_0_r, N.min_0_r. cbn [N.ltb N.compare]. rewrite app_nil_r. f_equal.
      * symmetry. apply slice_plus.
      * clear - P. destruct (N.eqb_spec 0 (n - m)); destruct (N.ltb_spec m n); auto; lia.
    + f_equal; [symmetry; apply slice_plus|symmetry; apply N.ltb_ge; clear - P; lia].
  - change (len []) with 0. rewrite N.sub_0_r.
    replace (0 <? n) with true by (symmetry; apply N.ltb_lt; exact NP).
    replace (0 - (off - len F)) with 0 by (clear; lia). rewrite N.min_0_r. cbn [N.ltb N.compare app].
    replace (len F - off) with 0 by (clear - L L1; lia). rewrite N.min_0_r, N.add_0_r.
    rewrite slice_empty by (clear; lia).
    f_equal. clear - NP. destruct (N.eqb_spec 0 n); destruct (N.ltb_spec 0 n); auto; lia.
Qed.

(* ---------- Copy ---------- *)
Lemma h_copy_spec h F h' F' x :
  hwf h F -> h_closed h = false -> h_copy h F = (h', F', x) ->
  x = OCopy F' /\ hwf h' F' /\ content h' F' = content h F /\ same_cfg h h' /\
  h_fo h' = h_offset h /\ h_uw h' = h_fl h' /\
  (h_retry h = true -> h_fo h' - h_fl h' = h_fo h - h_fl h) /\
  len F' = N.max (len F) (h_offset h) /\
  F' = content h F ++ drop (h_offset h) F'.
Proof.
  intros W CL E. unfold h_copy in E. rewrite CL in E.
  destruct (h_flush h F) as [h1 F1] eqn:EF.
  destruct (h_flush_spec _ _ _ _ W EF) as (W1 & C1 & S1 & FO1 & U1 & RT1 & NR1).
  pose proof (h_flush_len _ _ _ _ W EF) as L1.
  assert (h' = mkh (h_fo h1) (len F1) true (h_wbuf h1) (h_fl h1) (h_uw h1) (h_ro h1) (h_retry h1) (h_auto h1) (h_closed h1))
    by congruence.
  assert (F' = F1) by congruence. assert (x = OCopy F1) by congruence. subst h' F' x.
  assert (CC : content (mkh (h_fo h1) (len F1) true (h_wbuf h1) (h_fl h1) (h_uw h1) (h_ro h1) (h_retry h1) (h_auto h1) (h_closed h1)) F1
               = content h1 F1) by reflexivity.
  destruct W1, S1.
  splits.
  - reflexivity.
  - constructor; cbn [h_fo h_pos h_seek h_wbuf h_fl h_uw h_ro h_retry h_auto h_closed]; auto.
    intros; discriminate.
  - rewrite CC. exact C1.
  - constructor; cbn [h_ro h_retry h_auto h_closed h_wbuf]; assumption.
  - exact FO1.
  - exact U1.
  - intros RT. apply RT1; auto.
  - exact L1.
  - rewrite <- C1. unfold content. rewrite U1, slice_empty by (clear; lia). rewrite app_nil_r.
    rewrite <- FO1. symmetry. apply take_drop_cat.
Qed.
