(* C17 — multiapp: the refinement theorem and its companions *)
From V Require Import Base.Bytes App.Spec App.Single App.ListN App.SingleProofs App.Multi App.MultiProofs App.MultiRead.
From Coq Require Import ZifyN ZifyNat ZifyBool.

(* any ReadAt, specified or not, only adds handles to the cache *)
Lemma m_read_loop_pres fuel : forall m a n off acc,
  Rm m a -> Rm (fst (m_read_loop fuel m n off acc)) a.
Proof.
  induction fuel as [|fuel IH]; intros m a n off acc Rma; cbn [m_read_loop fst]; auto.
  destruct (n <=? len acc); cbn [fst]; auto.
  destruct (handle_for_spec m a ((off + len acc) / m_fs m) Rma) as (m1 & oh & EH & R1 & _).
  rewrite EH. destruct oh as [h|]; cbn [fst]; auto.
  destruct (h_readat h (m_file m1 ((off + len acc) / m_fs m)) (n - len acc) ((off + len acc) mod m_fs m)); cbn [fst]; auto.
  destruct eof; [destruct (0 <? len bs)|]; cbn [fst]; auto.
Qed.

Lemma msim_readat m a n off :
  Rm m a -> l_chaos a = false -> m_risky m (ReadAt n off) = false -> mstep_ok m a (ReadAt n off).
Proof.
  intros Rma CH NRK. pose proof Rma as [D Fl].
  unfold mstep_ok, m_step, spec_step, m_readat. rewrite CH, (rf_closed _ _ Fl).
  destruct (N.eqb_spec n 0) as [Z|NZ].
  { rewrite orb_true_r. destruct (m_closed m); (split; [|right; split; auto]); [apply om_refl|left; reflexivity]. }
  destruct (m_closed m) eqn:MC; [split; [apply om_refl|right; split; auto]|].
  rewrite orb_false_r.
  destruct (m_read_loop (S (S (N.to_nat n))) m n off []) as [m' x] eqn:EL.
  assert (R' : Rm m' a).
  { pose proof (m_read_loop_pres (S (S (N.to_nat n))) m a n off [] Rma) as P. rewrite EL in P. exact P. }
  destruct (N.ltb_spec off (l_disc a)) as [DS|DS]; [split; [left; reflexivity|right; split; auto]|].
  assert (NP : 0 < n) by (clear - NZ; lia).
  assert (NR : nrb m n off = false).
  { cbn [m_risky] in NRK. rewrite MC in NRK. cbn [negb andb] in NRK. exact NRK. }
  destruct (m_read_loop_spec (S (S (N.to_nat n))) m a n off [] Rma MC NP DS NR) as (m2 & E2 & _).
  - change (len []) with 0. rewrite N.add_0_r. rewrite slice_empty; auto. clear; lia.
  - change (len []) with 0. clear; lia.
  - left. reflexivity.
  - change (len []) with 0. clear; lia.
  - assert (X : x = spec_read (l_data a) n off) by congruence. subst x.
    unfold spec_read, l_size.
    destruct (len (l_data a) <? off); (split; [apply om_refl|right; split; auto]).
Qed.

(* ---------- Copy ---------- *)
Lemma existsb_dset (p : N -> bool) d i F :
  dget d i <> None ->
  existsb (fun '(j, _) => p j) (dset d i F) = existsb (fun '(j, _) => p j) d.
Proof.
  induction d as [|[k G] d IH]; simpl; [congruence|].
  destruct (N.eqb_spec k i); intros H; simpl.
  - subst. reflexivity.
  - rewrite IH; auto.
Qed.

Lemma stale_upd_cur m h F : dget (m_disk m) (m_cur m) <> None -> m_stale (m_upd_cur m h F) = m_stale m.
Proof.
  intros EX. unfold m_stale, m_upd_cur, m_with; cbn [m_disk m_cur].
  apply (existsb_dset (fun j => m_cur m <? j)). exact EX.
Qed.

(* the copy, opened read-only and read from 0 to its size *)
Lemma copy_read m a :
  Rm m a -> m_stale m = false -> h_fo (m_app m) = len (cur_file m) -> h_uw (m_app m) = h_fl (m_app m) ->
  l_disc a = 0 ->
  let c := m_reopen m (mko true 0 (m_retry m) (m_auto m)) in
  match m_size c with
  | ON sz => (if sz =? 0 then OCopy []
              else match snd (m_readat c sz 0) with ORead bs _ => OCopy bs | _ => OCopy [] end) = OCopy (l_data a)
  | _ => False
  end.
Proof.
  intros [D Fl] ST EF U DS. cbn zeta.
  set (o := mko true 0 (m_retry m) (m_auto m)).
  assert (OV : opts_valid o = true) by reflexivity.
  assert (NC : nocap o = true).
  { unfold nocap, o; cbn [o_retry o_auto]. rewrite (rf_nocap _ _ Fl). reflexivity. }
  pose proof (reopen_core m a o D (rf_meta _ _ Fl) ST EF U OV NC) as Rc.
  set (c := m_reopen m o) in *.
  set (ac := mklog (l_data a) (o_ro o) false (l_meta a) (cap_of o) (l_size a) (l_size a) (l_disc a) false) in *.
  pose proof Rc as [Dc Fc].
  assert (MCc : m_closed c = false) by (rewrite <- (rf_closed _ _ Fc); reflexivity).
  assert (ACc : h_closed (m_app c) = false) by (rewrite (rf_acl _ _ Fc); exact MCc).
  pose proof (Rd_size _ _ Dc) as SZ. unfold l_size in SZ. cbn [ac l_data] in SZ.
  unfold m_size, h_size. rewrite MCc, ACc. fold (m_offset c). rewrite <- SZ.
  destruct (N.eqb_spec (len (l_data a)) 0) as [Z|NZ].
  { f_equal. symmetry. apply len_0_nil. exact Z. }
  unfold m_readat. replace (len (l_data a) =? 0) with false by (symmetry; apply N.eqb_neq; exact NZ).
  rewrite MCc.
  assert (NP : 0 < len (l_data a)) by (clear - NZ; lia).
  assert (STc : m_stale c = false).
  { unfold c, m_reopen, m_stale.
    assert (MAXI : forall i F, In (i, F) (m_disk m) -> i <= m_cur m).
    { unfold m_stale in ST. intros i F I. pose proof (existsb_false _ _ ST (i, F) I) as Q. cbn in Q.
      apply N.ltb_ge in Q. exact Q. }
    rewrite (dmax_spec _ _ MAXI (rd_ex _ _ D)). unfold m_open_chunk.
    destruct (dget (m_disk m) (m_cur m)) eqn:GG; [|exfalso; apply (rd_ex _ _ D); exact GG].
    unfold m_with; cbn [m_disk m_cur]. exact ST. }
  assert (NR : nrb c (len (l_data a)) 0 = false) by (unfold nrb; rewrite STc; reflexivity).
  destruct (m_read_loop_spec (S (S (N.to_nat (len (l_data a))))) c ac (len (l_data a)) 0 [] Rc MCc NP) as (m2 & E2 & _); auto.
  - cbn [ac l_disc]. rewrite DS. clear; lia.
  - change (len []) with 0. clear; lia.
  - change (len []) with 0. clear; lia.
  - rewrite E2. cbn [snd ac l_data]. unfold spec_read.
    replace (len (l_data a) <? 0) with false by (symmetry; apply N.ltb_ge; clear; lia).
    cbn zeta. rewrite N.sub_0_r, N.min_id, N.add_0_l, slice_all. reflexivity.
Qed.

Lemma msim_copy m a : Rm m a -> l_chaos a = false -> m_risky m Copy = false -> mstep_ok m a Copy.
Proof.
  intros Rma CH NRK. pose proof Rma as [D Fl].
  unfold mstep_ok, m_step, spec_step, m_copy. rewrite CH, (rf_closed _ _ Fl).
  destruct (m_closed m) eqn:MC; [split; [apply om_refl|right; split; auto]|].
  cbn [m_risky] in NRK. rewrite MC in NRK. cbn [negb andb] in NRK.
  apply orb_false_elim in NRK as [ST NT]. apply N.ltb_ge in NT.
  pose proof (rd_wf _ _ D) as W. pose proof (wf_fo _ _ W) as FOL.
  assert (Ra' : Rm m (set_marks a (l_sy a) (l_size a))) by (apply Rm_marks; exact Rma).
  assert (exists m1, (if m_ro m then (m, OOk)
                      else let '(h', F', x) := h_sync_op (m_app m) (cur_file m) in (m_upd_cur m h' F', x)) = (m1, OOk) /\
            Rm m1 (set_marks a (l_sy a) (l_size a)) /\ m_stale m1 = false /\
            h_fo (m_app m1) = len (cur_file m1) /\ h_uw (m_app m1) = h_fl (m_app m1) /\
            m_retry m1 = m_retry m /\ m_auto m1 = m_auto m)
    as (m1 & E1 & R1 & ST1 & EF1 & U1 & RT1 & AU1).
  { destruct (m_ro m) eqn:MR.
    - exists m. assert (ARO : h_ro (m_app m) = true) by (rewrite (rf_aro _ _ Fl); auto).
      destruct (wf_ro _ _ W ARO) as [UW0 FL0]. splits; auto; [|congruence].
      unfold h_offset in NT. rewrite UW0, FL0 in NT. clear - NT FOL. lia.
    - unfold h_sync_op. rewrite (rf_acl _ _ Fl), (rf_aro _ _ Fl), MC, MR.
      destruct (h_sync (m_app m) (cur_file m)) as [h' F'] eqn:ES.
      destruct (h_sync_spec _ _ _ _ W ES) as (W' & C' & S' & FO' & U' & _).
      pose proof (h_sync_len _ _ _ _ W ES) as LF.
      exists (m_upd_cur m h' F'). splits; auto.
      + apply (msim_cur_keep m a h' F'); auto; intros; congruence.
      + rewrite stale_upd_cur; auto. apply (rd_ex _ _ D).
      + rewrite cur_file_upd. cbn [m_upd_cur m_with m_app]. rewrite FO', LF. clear - NT. lia. }
  rewrite E1.
  assert (DISC : l_disc (set_marks a (l_sy a) (l_size a)) = l_disc a) by reflexivity.
  destruct (N.ltb_spec 0 (l_disc a)) as [DP|DZ].
  - (* unspecified after a discard *)
    destruct (m_size (m_reopen m1 (mko true 0 (m_retry m) (m_auto m)))); (split; [left; reflexivity|right; split; auto]).
  - assert (DS : l_disc (set_marks a (l_sy a) (l_size a)) = 0) by (rewrite DISC; clear - DZ; lia).
    pose proof (copy_read m1 _ R1 ST1 EF1 U1 DS) as CR. cbn zeta in CR. rewrite RT1, AU1 in CR.
    destruct (m_size (m_reopen m1 (mko true 0 (m_retry m) (m_auto m)))); try contradiction.
    rewrite CR. cbn [set_marks l_data]. split; [apply om_refl|right; split; auto].
Qed.

Definition ops_nocap (ops : list op) : bool :=
  forallb (fun o => match o with Reopen o' => nocap o' | _ => true end) ops.

Lemma msim_step m a o :
  Rm m a -> l_chaos a = false -> m_risky m o = false ->
  match o with Reopen o' => nocap o' = true | _ => True end -> mstep_ok m a o.
Proof.
  intros Rma CH NRK NC. destruct o.
  - apply msim_append; auto.
  - apply msim_readat; auto.
  - apply msim_setoffset; auto.
  - apply msim_flush; auto.
  - apply msim_sync; auto.
  - apply msim_size; auto.
  - apply msim_offset; auto.
  - apply msim_discard; auto.
  - apply msim_switchro; auto.
  - apply msim_close; auto.
  - apply msim_reopen; auto.
  - apply msim_meta; auto.
  - apply msim_copy; auto.
Qed.

Lemma multi_refines_gen : forall ops m a,
  (l_chaos a = true \/ (l_chaos a = false /\ Rm m a)) -> ops_nocap ops = true -> m_clean m ops = true ->
  Forall2 out_match (m_run m ops) (spec_run a ops).
Proof.
  induction ops as [|o ops IH]; intros m a H NC CLN; cbn [m_run spec_run]; [constructor|].
  cbn [m_clean] in CLN. apply andb_prop in CLN as [NRK CLN]. apply negb_true_iff in NRK.
  cbn [ops_nocap forallb] in NC. apply andb_prop in NC as [NC1 NC].
  destruct H as [CH|[CH Rma]].
  - destruct (m_step m o) as [m' x] eqn:ES.
    assert (SP : spec_step a o = (a, OAny)) by (unfold spec_step; rewrite CH; reflexivity).
    rewrite SP. constructor; [left; reflexivity|]. apply IH; auto.
  - assert (NC1' : match o with Reopen o' => nocap o' = true | _ => True end) by (destruct o; auto).
    pose proof (msim_step m a o Rma CH NRK NC1') as ST. unfold mstep_ok in ST.
    destruct (m_step m o) as [m' x] eqn:ES. destruct (spec_step a o) as [a' y] eqn:EA.
    destruct ST as [OM NX]. constructor; auto.
Qed.

Lemma Rm_init fs pre meta o :
  0 < fs -> opts_valid o = true -> nocap o = true ->
  Rm (m_create fs pre meta o) (log_init (zeros (if pre then fs else 0)) meta o).
Proof.
  intros FS OV NC. set (F := zeros (if pre then fs else 0)).
  assert (LF : len F <= fs) by (unfold F; rewrite len_zeros; destruct pre; lia).
  pose proof (h_open_wf F o OV) as W. pose proof (content_open F (ro_nobuf o)) as CO.
  unfold m_create, log_init. fold F. split.
  - constructor; unfold cur_file, m_file; cbn [m_disk m_cur m_app m_cache m_fs dget cget N.eqb]; lsimp; auto.
    all: try discriminate; try (intros; discriminate).
    + rewrite <- (len_content _ _ W), CO. exact LF.
    + intros i G. destruct i; [intros Q; assert (G = F) by congruence; subst G; exact LF|discriminate].
    + lia.
    + intros i LT. lia.
  - unfold nocap in NC. apply negb_true_iff in NC.
    constructor; cbn [m_ro m_closed m_meta m_app m_retry m_auto m_buf]; lsimp; auto; try reflexivity.
    + unfold cap_of. rewrite NC. reflexivity.
    + intros RF. unfold opts_valid in OV. rewrite RF in OV. cbn [orb] in OV. apply N.ltb_lt in OV. exact OV.
Qed.

Theorem multi_refines_log_partial : forall fs pre meta o ops,
  0 < fs -> opts_valid o = true -> nocap o = true -> ops_nocap ops = true ->
  m_clean (m_create fs pre meta o) ops = true ->
  Forall2 out_match (m_run (m_create fs pre meta o) ops)
                    (spec_run (log_init (zeros (if pre then fs else 0)) meta o) ops).
Proof.
  intros fs pre meta o ops FS OV NC NCS CLN. apply multi_refines_gen; auto.
  right. split; [reflexivity|]. apply Rm_init; auto.
Qed.

(* the premises are satisfiable: rotation over several chunks, rewinds in memory and into the file,
   reads across chunks, a rewind into an earlier chunk that is overwritten again, discard, reopen *)
Example multi_clean_example :
  let ops := [Append [1;2;3;4;5;6;7;8;9;10]; ReadAt 10 0; SetOffset 9; Append [11;12]; ReadAt 4 7; Flush;
              SetOffset 5; ReadAt 4 0; Append [13;14;15;16;17;18]; Flush; ReadAt 11 0; Discard 4; ReadAt 7 4;
              Close; Reopen (mko false 2 true true); Size; ReadAt 7 4; Append [19]; ReadAt 8 4] in
  ops_nocap ops = true /\ m_clean (m_create 4 false [] (mko false 3 false false)) ops = true.
Proof. vm_compute. split; reflexivity. Qed.

Lemma Forall2_nth' {A B} (P : A -> B -> Prop) l l' i x y :
  Forall2 P l l' -> nth_error l i = Some x -> nth_error l' i = Some y -> P x y.
Proof.
  intros H; revert i; induction H; intros [|i]; simpl; try discriminate.
  - intros; congruence.
  - apply IHForall2.
Qed.

(* without `m_clean` the statement is false: SetOffset into an earlier chunk leaves the later chunk
   files in the directory, and a ReadAt beyond the end of the current chunk walks into them:
   chunk size 4, append 10 bytes, SetOffset 2 (Size 2), ReadAt(2 bytes, 4) returns "45" *)
Theorem multi_refines_log_refuted : exists fs pre meta o ops,
  0 < fs /\ opts_valid o = true /\ nocap o = true /\ ops_nocap ops = true /\
  ~ Forall2 out_match (m_run (m_create fs pre meta o) ops)
                      (spec_run (log_init (zeros (if pre then fs else 0)) meta o) ops).
Proof.
  exists 4, false, [], (mko false 16 false false), [Append [48;49;50;51;52;53;54;55;56;57]; SetOffset 2; ReadAt 2 4].
  splits; try reflexivity. intros H.
  assert (X : out_match (ORead [52;53] false) (ORead [] true)).
  { eapply (Forall2_nth' _ _ _ 2%nat); [exact H| |]; vm_compute; reflexivity. }
  destruct X as [X|X]; discriminate X.
Qed.

(* ... and with a rewind into an earlier chunk: the later chunk files stay, Size() after reopen
   is 10 where the byte array has 2 bytes *)
Theorem multi_reopen_same_size_refuted : exists fs pre meta o o' bs,
  0 < fs /\ opts_valid o = true /\ opts_valid o' = true /\
  m_run (m_create fs pre meta o) [Append bs; SetOffset 2; Size; Close; Reopen o'; Size] =
  [OApp 0 10; OOk; ON 2; OOk; OOk; ON 10].
Proof.
  exists 4, false, [], (mko false 16 false false), (mko false 16 false false), [48;49;50;51;52;53;54;55;56;57].
  splits; try reflexivity.
Qed.

(* ---------- DiscardUpto keeps everything at or after the offset readable ---------- *)
(* two states that differ only in chunks (files and cached handles) below chunk c *)
Definition agree_from (c : N) (m m2 : mapp) : Prop :=
  m_cur m2 = m_cur m /\ m_app m2 = m_app m /\ m_fs m2 = m_fs m /\ m_closed m2 = m_closed m /\
  m_ro m2 = m_ro m /\ m_retry m2 = m_retry m /\ m_auto m2 = m_auto m /\ m_buf m2 = m_buf m /\
  (forall i, c <= i -> dget (m_disk m2) i = dget (m_disk m) i) /\
  (forall i, c <= i -> cget (m_cache m2) i = cget (m_cache m) i).

Lemma agree_handle c m m2 id :
  agree_from c m m2 -> c <= id ->
  snd (m_handle_for m2 id) = snd (m_handle_for m id) /\
  agree_from c (fst (m_handle_for m id)) (fst (m_handle_for m2 id)) /\
  m_file (fst (m_handle_for m2 id)) id = m_file (fst (m_handle_for m id)) id /\
  m_fs (fst (m_handle_for m id)) = m_fs m.
Proof.
  intros AG LE. pose proof AG as (A1 & A2 & A3 & A4 & A5 & A6 & A7 & A8 & AD & AC).
  assert (MF : m_file m2 id = m_file m id) by (unfold m_file; rewrite AD; auto).
  unfold m_handle_for. rewrite A1, A2.
  destruct (id =? m_cur m); [cbn [fst snd]; splits; auto|].
  rewrite (AC id LE). destruct (cget (m_cache m) id) as [h|]; [cbn [fst snd]; splits; auto|].
  unfold m_open_chunk. rewrite (AD id LE).
  assert (OO : m_oopts m2 false = m_oopts m false) by (unfold m_oopts; rewrite A5, A6, A7, A8; reflexivity).
  destruct (dget (m_disk m) id) as [F|] eqn:G; cbn [fst snd]; [|splits; auto].
  rewrite OO. splits; auto.
  - unfold agree_from, m_with; cbn [m_cur m_app m_fs m_closed m_ro m_retry m_auto m_buf m_disk m_cache]. splits; auto.
    intros i L. destruct (N.eq_dec id i) as [E|NE].
    + subst. rewrite !cget_cput_same. reflexivity.
    + rewrite !cget_cput_other by exact NE. apply AC; auto.
Qed.

Lemma agree_read_loop fuel : forall c m m2 n off acc,
  agree_from c m m2 -> 0 < m_fs m -> c * m_fs m <= off ->
  snd (m_read_loop fuel m2 n off acc) = snd (m_read_loop fuel m n off acc).
Proof.
  induction fuel as [|fuel IH]; intros c m m2 n off acc AG FS LE; cbn [m_read_loop]; auto.
  destruct (n <=? len acc); auto.
  pose proof AG as (A1 & A2 & A3 & _). rewrite A3.
  assert (CI : c <= (off + len acc) / m_fs m).
  { apply N.div_le_lower_bound; [lia|]. rewrite N.mul_comm. lia. }
  destruct (agree_handle c m m2 _ AG CI) as (E1 & AG1 & MF & FS1).
  destruct (m_handle_for m2 ((off + len acc) / m_fs m)) as [m2' oh2].
  destruct (m_handle_for m ((off + len acc) / m_fs m)) as [m' oh].
  cbn [fst snd] in *. subst oh2. destruct oh as [h|]; auto.
  rewrite MF. rewrite <- FS1 in FS, LE.
  destruct (h_readat h (m_file m' ((off + len acc) / m_fs m)) (n - len acc) ((off + len acc) mod m_fs m)); auto.
  destruct eof; [destruct (0 <? len bs); auto|]; apply (IH c); auto.
Qed.

(* a successful DiscardUpto(n) changes the result of no ReadAt at an offset >= n — in ANY state *)
Theorem multi_discard_keeps_suffix : forall m n k off,
  0 < m_fs m -> snd (m_step m (Discard n)) = OOk -> n <= off ->
  snd (m_step (fst (m_step m (Discard n))) (ReadAt k off)) = snd (m_step m (ReadAt k off)).
Proof.
  intros m n k off FS OK LE. cbn [m_step] in *. unfold m_discard in *.
  destruct (m_closed m) eqn:MC; [discriminate|].
  destruct (m_offset m <? n); [discriminate|]. cbn [fst snd] in *.
  set (lim := N.min (n / m_fs m) (m_cur m)).
  set (m2 := m_with m _ _ _ _).
  assert (AG : agree_from lim m m2).
  { unfold agree_from, m2, m_with; cbn [m_cur m_app m_fs m_closed m_ro m_retry m_auto m_buf m_disk m_cache]. splits; auto.
    - intros i L. rewrite dget_filter. replace (negb (i <? lim)) with true; auto.
      symmetry. apply negb_true_iff, N.ltb_ge. exact L.
    - intros i L. rewrite cget_filter. replace (negb (i <? lim)) with true; auto.
      symmetry. apply negb_true_iff, N.ltb_ge. exact L. }
  unfold m_readat. change (m_closed m2) with (m_closed m).
  destruct (k =? 0); auto. rewrite MC.
  apply (agree_read_loop _ lim); auto.
  transitivity (n / m_fs m * m_fs m); [apply N.mul_le_mono_r; unfold lim; lia|].
  transitivity n; auto. rewrite N.mul_comm. apply N.mul_div_le. lia.
Qed.

Example multi_discard_premise_example :
  let m := m_state (m_create 4 false [] (mko false 3 false false)) [Append [1;2;3;4;5;6;7;8;9;10]] in
  0 < m_fs m /\ snd (m_step m (Discard 9)) = OOk /\
  snd (m_step (fst (m_step m (Discard 9))) (ReadAt 4 0)) = ORead [] true /\
  snd (m_step (fst (m_step m (Discard 9))) (ReadAt 2 8)) = ORead [9;10] false.
Proof. vm_compute. repeat split; reflexivity. Qed.

(* singleapp's DiscardUpto changes nothing at all *)
Theorem single_discard_keeps_everything : forall s n, fst (s_step s (Discard n)) = s.
Proof. reflexivity. Qed.
