(* C17 — multiapp ReadAt: the loop over chunks returns what the byte array returns, for every
   read that does not observe stale bytes *)
From V Require Import Base.Bytes App.Spec App.Single App.ListN App.SingleProofs App.Multi App.MultiProofs.
From Coq Require Import ZifyN ZifyNat ZifyBool.

(* appendableFor *)
Lemma Rd_cache_put m a i h F :
  Rd m a -> dget (m_disk m) i = Some F -> (i < m_cur m -> rdok h F) ->
  Rd (m_with m (m_disk m) (m_cur m) (m_app m) (cput (m_cache m) i h)) a.
Proof.
  intros [f1 f2 f3 f4 f5 f6 f7 f8 rd_cache0] G RD. constructor; unfold m_with, cur_file, m_file; cbn [m_disk m_cur m_app m_cache m_fs]; auto.
  intros j g. destruct (N.eq_dec i j) as [E|NE].
  - subst j. rewrite cget_cput_same. intros Q. assert (g = h) by congruence. subst g. rewrite G. split; [discriminate|auto].
  - rewrite cget_cput_other by exact NE. apply rd_cache0.
Qed.

Lemma Rf_with m a d c : Rf m a -> Rf (m_with m d (m_cur m) (m_app m) c) a.
Proof. intros []. constructor; unfold m_with; cbn [m_ro m_closed m_meta m_app m_retry m_auto m_buf]; auto. Qed.

(* what ReadAt's loop needs to know stays fixed while the cache grows *)
Definition same_core (m m1 : mapp) : Prop :=
  m_disk m1 = m_disk m /\ m_cur m1 = m_cur m /\ m_app m1 = m_app m /\ m_fs m1 = m_fs m /\
  m_closed m1 = m_closed m /\ m_ro m1 = m_ro m.

Lemma same_core_refl m : same_core m m. Proof. repeat split. Qed.
Lemma same_core_trans a b c : same_core a b -> same_core b c -> same_core a c.
Proof. intros (A1 & A2 & A3 & A4 & A5 & A6) (B1 & B2 & B3 & B4 & B5 & B6). repeat split; congruence. Qed.

Lemma handle_for_spec m a id :
  Rm m a ->
  exists m1 oh, m_handle_for m id = (m1, oh) /\ Rm m1 a /\ same_core m m1 /\
    (id = m_cur m -> oh = Some (m_app m)) /\
    (id < m_cur m -> forall F, dget (m_disk m) id = Some F -> exists h, oh = Some h /\ rdok h F) /\
    (m_cur m < id -> (forall i F, In (i, F) (m_disk m) -> i <= m_cur m) -> oh = None).
Proof.
  intros Rma. pose proof Rma as [D Fl]. unfold m_handle_for.
  destruct (N.eqb_spec id (m_cur m)) as [E|NE].
  { exists m, (Some (m_app m)). splits; auto using same_core_refl; intros; exfalso; lia. }
  destruct (cget (m_cache m) id) as [h|] eqn:C.
  { exists m, (Some h). destruct (rd_cache _ _ D id h C) as [EX RD].
    splits; auto using same_core_refl.
    - intros; contradiction.
    - intros LT F G. exists h. split; auto. specialize (RD LT). unfold m_file in RD. rewrite G in RD. exact RD.
    - intros GT MAXI. exfalso. destruct (dget (m_disk m) id) as [F|] eqn:G; [|congruence].
      apply dget_In in G. apply MAXI in G. lia. }
  unfold m_open_chunk. destruct (dget (m_disk m) id) as [F|] eqn:G.
  - set (h := h_open F (m_oopts m false)).
    assert (RD : rdok h F) by (unfold rdok, h, h_open; cbn [h_closed h_fo h_uw h_fl]; auto).
    eexists _, (Some h). splits; eauto.
    + split; [apply Rd_cache_put with (F := F); auto|apply Rf_with; auto].
    + repeat split.
    + intros; contradiction.
    + intros LT F' G'. exists h. split; auto. assert (F' = F) by congruence. subst. exact RD.
    + intros GT MAXI. exfalso. apply dget_In in G. apply MAXI in G. lia.
  - exists m, None. splits; auto using same_core_refl.
    + intros; contradiction.
    + intros LT F' G'. discriminate.
Qed.

(* reading the current chunk through currApp *)
Lemma cur_read m a want local :
  Rm m a -> m_closed m = false -> 0 < want ->
  h_readat (m_app m) (cur_file m) want local = spec_read (drop (m_cur m * m_fs m) (l_data a)) want local.
Proof.
  intros [D Fl] MC WP. unfold h_readat. rewrite (rf_acl _ _ Fl), MC.
  rewrite (h_readat_spec _ _ _ _ (rd_wf _ _ D) WP). rewrite (rd_data _ _ D). reflexivity.
Qed.

(* arithmetic of chunk addresses *)
Lemma chunk_lt p fs c : 0 < fs -> p < c * fs -> p / fs < c /\ p mod fs = p - p / fs * fs /\ p / fs * fs <= p /\ p < (p / fs + 1) * fs.
Proof.
  intros FS L. pose proof (N.div_mod p fs). pose proof (N.mod_lt p fs).
  assert (fs <> 0) by lia. specialize (H H1). specialize (H0 H1).
  assert (p / fs < c) by (apply N.div_lt_upper_bound; lia).
  nia.
Qed.

Lemma chunk_ge p fs c : 0 < fs -> (c + 1) * fs <= p -> c < p / fs.
Proof.
  intros FS L. assert (c + 1 <= p / fs) by (apply N.div_le_lower_bound; lia). lia.
Qed.

Lemma slice_sub_chunk D i fs local k :
  local + k <= fs ->
  slice (slice D (i * fs) ((i + 1) * fs)) local (local + k) = slice D (i * fs + local) (i * fs + local + k).
Proof.
  intros L. rewrite slice_slice by lia. f_equal. lia.
Qed.

Lemma slice_drop D c i j : slice (drop c D) i j = slice D (c + i) (c + j).
Proof. unfold slice. rewrite drop_drop. f_equal. lia. Qed.

Lemma spec_read_full D n off acc d :
  0 < n -> acc = slice D off (off + len acc) -> d = slice D (off + len acc) (off + n) ->
  len acc <= n -> off + n <= len D ->
  ORead (acc ++ d) false = spec_read D n off.
Proof.
  intros NP A E LE FIT. unfold spec_read.
  replace (len D <? off) with false by (symmetry; apply N.ltb_ge; lia).
  replace (N.min n (len D - off)) with n by lia. rewrite N.ltb_irrefl.
  f_equal. rewrite A, E. apply slice_cat; lia.
Qed.

Lemma spec_read_end D n off acc :
  acc = slice D off (off + len acc) -> len acc < n -> off + len acc = len D ->
  ORead acc true = spec_read D n off.
Proof.
  intros A LT E. unfold spec_read.
  replace (len D <? off) with false by (symmetry; apply N.ltb_ge; lia).
  replace (N.min n (len D - off)) with (len acc) by lia.
  replace (len acc <? n) with true by (symmetry; apply N.ltb_lt; exact LT).
  f_equal. exact A.
Qed.

Lemma spec_read_beyond D n off : len D < off -> ORead [] true = spec_read D n off.
Proof. intros L. unfold spec_read. replace (len D <? off) with true by (symmetry; apply N.ltb_lt; exact L). reflexivity. Qed.

(* the risk condition of a ReadAt, without the closed flag *)
Definition nrb (m : mapp) (n off : N) : bool :=
  m_stale m && (m_end m <? off + n) && ((m_offset m =? m_end m) || (m_end m <=? off)).

Lemma nrb_core m m1 n off : same_core m m1 -> nrb m1 n off = nrb m n off.
Proof.
  intros (A1 & A2 & A3 & A4 & _). unfold nrb, m_stale, m_end, m_offset.
  rewrite A1, A2, A3, A4. reflexivity.
Qed.

Lemma not_stale m : m_stale m = false -> forall i F, In (i, F) (m_disk m) -> i <= m_cur m.
Proof.
  unfold m_stale. intros H i F I. pose proof (existsb_false _ _ H (i, F) I) as Q. cbn in Q.
  apply N.ltb_ge in Q. exact Q.
Qed.

(* a read that reaches a chunk beyond the current one is risky unless there is no such file *)
Lemma nrb_beyond m n off p r :
  nrb m n off = false -> p = off + r -> m_end m <= p -> p < off + n ->
  (r = 0 \/ p <= m_offset m) -> m_offset m <= m_end m -> m_stale m = false.
Proof.
  intros NR PE L1 L2 INV OE. unfold nrb in NR. destruct (m_stale m); [|reflexivity]. cbn [andb] in NR. exfalso.
  replace (m_end m <? off + n) with true in NR by (symmetry; apply N.ltb_lt; lia). cbn [andb] in NR.
  apply orb_false_elim in NR as [N1 N2]. apply N.eqb_neq in N1. apply N.leb_gt in N2.
  destruct INV as [Z|Z]; lia.
Qed.

Lemma m_read_loop_spec fuel : forall m a n off acc,
  Rm m a -> m_closed m = false -> 0 < n -> l_disc a <= off -> nrb m n off = false ->
  acc = slice (l_data a) off (off + len acc) -> len acc <= n ->
  (len acc = 0 \/ off + len acc <= len (l_data a)) ->
  (N.to_nat (n - len acc) + 1 < fuel)%nat ->
  exists m', m_read_loop fuel m n off acc = (m', spec_read (l_data a) n off) /\ Rm m' a /\ same_core m m'.
Proof.
  induction fuel as [|fuel IH]; intros m a n off acc Rma MC NP DS NR ACC LE INV FU; [lia|].
  cbn [m_read_loop]. set (D := l_data a) in *. set (r := len acc) in *.
  destruct (N.leb_spec n r) as [DONE|MORE].
  { exists m. splits; auto using same_core_refl. f_equal.
    assert (r = n) by (lia).
    assert (FIT : off + n <= len D) by (destruct INV; lia).
    rewrite <- (app_nil_r acc). apply spec_read_full; auto.
    all: fold r; rewrite ?H; try (rewrite slice_empty; auto); lia. }
  set (p := off + r). set (want := n - r).
  assert (WP : 0 < want) by (unfold want; lia).
  assert (PW : p + want = off + n) by (unfold p, want; lia).
  pose proof Rma as [Dm Fl]. pose proof (rd_fs _ _ Dm) as FS. pose proof (rd_len _ _ Dm) as LN.
  pose proof (Rd_size _ _ Dm) as SZ. unfold l_size in SZ. fold D in SZ, LN.
  pose proof (rd_off _ _ Dm) as OF.
  destruct (handle_for_spec m a (p / m_fs m) Rma) as (m1 & oh & EH & R1 & SC & HCUR & HOLD & HNEW).
  rewrite EH.
  pose proof SC as (SC1 & SC2 & SC3 & SC4 & SC5 & SC6).
  assert (MC1 : m_closed m1 = false) by congruence.
  assert (NR1 : nrb m1 n off = false) by (rewrite (nrb_core _ _ _ _ SC); exact NR).
  (* the recursive call with d appended *)
  assert (NEXT : forall d, 0 < len d -> d = slice D p (p + len d) -> p + len d <= len D -> len d <= want ->
            exists m', m_read_loop fuel m1 n off (acc ++ d) = (m', spec_read D n off) /\ Rm m' a /\ same_core m m').
  { intros d DP DE DF DW.
    destruct (IH m1 a n off (acc ++ d) R1 MC1 NP DS NR1) as (m' & EL & R' & SC').
    - rewrite len_app. fold D. rewrite ACC at 1. rewrite DE at 1. fold r. unfold p.
      replace (off + (r + len d)) with (off + r + len d) by (lia).
      apply slice_cat; lia.
    - rewrite len_app. fold r. unfold want in DW. lia.
    - right. rewrite len_app. fold r D. unfold p in DF. lia.
    - rewrite len_app. fold r. unfold want in *. lia.
    - exists m'. splits; auto. eapply same_core_trans; eauto. }
  destruct (N.lt_ge_cases p (m_cur m * m_fs m)) as [OLD|NOLD].
  - (* a chunk before the current one *)
    destruct (chunk_lt p (m_fs m) (m_cur m) FS OLD) as (ILT & MOD & IL & IU).
    set (id := p / m_fs m) in *.
    pose proof (rd_old _ _ Dm id ILT) as O.
    destruct (dget (m_disk m) id) as [Fi|] eqn:GI.
    2:{ exfalso. unfold p in IU. lia. }
    destruct (HOLD ILT Fi eq_refl) as (h & EO & RD). subst oh.
    assert (MF : m_file m1 id = Fi) by (unfold m_file; rewrite SC1, GI; reflexivity).
    rewrite MF, MOD. fold id.
    rewrite (rdok_read _ _ _ _ RD WP).
    assert (TOP : (id + 1) * m_fs m <= len D) by (clear - ILT LN; nia).
    assert (LFi : len Fi = m_fs m) by (rewrite O, len_slice; fold D; lia).
    unfold spec_read. rewrite LFi.
    replace (m_fs m <? p - id * m_fs m) with false by (symmetry; apply N.ltb_ge; lia).
    set (k := N.min want (m_fs m - (p - id * m_fs m))).
    assert (KP : 0 < k) by (unfold k; lia).
    assert (KF : p - id * m_fs m + k <= m_fs m) by (unfold k; lia).
    assert (DE : slice Fi (p - id * m_fs m) (p - id * m_fs m + k) = slice D p (p + k)).
    { rewrite O. fold D. rewrite slice_sub_chunk by exact KF. f_equal; lia. }
    rewrite DE.
    assert (LD : len (slice D p (p + k)) = k) by (rewrite len_slice; lia).
    assert (NX : exists m', m_read_loop fuel m1 n off (acc ++ slice D p (p + k)) = (m', spec_read D n off) /\ Rm m' a /\ same_core m m').
    { apply NEXT; rewrite ?LD; auto.
      - lia.
      - unfold k. lia. }
    destruct (k <? want); [rewrite LD; replace (0 <? k) with true by (symmetry; apply N.ltb_lt; exact KP)|]; exact NX.
  - destruct (N.lt_ge_cases p ((m_cur m + 1) * m_fs m)) as [CUR|NEW].
    + (* the current chunk *)
      destruct (mod_sub_chunk p (m_fs m) (m_cur m) FS NOLD CUR) as [DIV MOD].
      rewrite DIV in *. rewrite (HCUR eq_refl).
      assert (MF : m_file m1 (m_cur m) = cur_file m) by (unfold m_file, cur_file, m_file; rewrite SC1; reflexivity).
      rewrite MF, MOD.
      rewrite (cur_read m a want _ Rma MC WP). fold D.
      set (C := drop (m_cur m * m_fs m) D).
      assert (LC : len C = len D - m_cur m * m_fs m) by (unfold C; apply len_drop).
      unfold spec_read.
      destruct (N.ltb_spec (len C) (p - m_cur m * m_fs m)) as [BEY|INS].
      * (* beyond the size: only possible before anything was read *)
        cbn [len length N.of_nat N.ltb N.compare]. change (len []) with 0. cbn.
        rewrite app_nil_r.
        assert (R0 : r = 0) by (destruct INV as [Z|Z]; [exact Z|exfalso; unfold p in BEY; lia]).
        assert (AE : acc = []) by (apply len_0_nil; exact R0). rewrite AE.
        exists m1. splits; auto. f_equal. apply spec_read_beyond. unfold p in BEY. rewrite R0 in BEY. lia.
      * set (k := N.min want (len C - (p - m_cur m * m_fs m))).
        assert (DE : slice C (p - m_cur m * m_fs m) (p - m_cur m * m_fs m + k) = slice D p (p + k)).
        { unfold C. rewrite slice_drop. f_equal; lia. }
        rewrite DE.
        assert (KE : p + k <= len D) by (unfold k; lia).
        assert (LD : len (slice D p (p + k)) = k) by (rewrite len_slice; lia).
        destruct (N.ltb_spec k want) as [SHORT|FULL].
        -- rewrite LD. destruct (N.ltb_spec 0 k) as [KP|KZ].
           ++ apply NEXT; rewrite ?LD; auto. unfold k. lia.
           ++ assert (K0 : k = 0) by (lia). rewrite K0, N.add_0_r, slice_empty, app_nil_r by (lia).
              exists m1. splits; auto. f_equal. apply spec_read_end; auto.
              fold r. unfold k in K0. unfold p in *. lia.
        -- assert (KP : 0 < k) by (lia).
           apply NEXT; rewrite ?LD; auto. unfold k. lia.
    + (* a chunk after the current one: there is none unless stale files are around *)
      pose proof (chunk_ge p (m_fs m) (m_cur m) FS NEW) as IGT.
      assert (OE : m_offset m <= m_end m) by (unfold m_offset, m_end; lia).
      assert (PL : p < off + n) by (rewrite <- PW; lia).
      assert (IV : r = 0 \/ p <= m_offset m) by (rewrite <- SZ; unfold p; destruct INV; [left|right]; auto).
      pose proof (nrb_beyond m n off p r NR eq_refl NEW PL IV OE) as ND.
      pose proof (not_stale _ ND) as MAXI.
      assert (SP : len D <= p) by (rewrite SZ; unfold m_offset; nia).
      rewrite (HNEW IGT MAXI).
      exists m1. splits; auto. f_equal.
      destruct (N.lt_ge_cases (len D) off) as [BEY|INS].
      * assert (R0 : r = 0) by (destruct INV as [Z|Z]; [exact Z|exfalso; lia]).
        assert (AE : acc = []) by (apply len_0_nil; exact R0). rewrite AE. apply spec_read_beyond. exact BEY.
      * apply spec_read_end; auto. fold r.
        destruct INV as [Z|Z]; unfold p in SP; [rewrite Z in *|]; lia.
Qed.
