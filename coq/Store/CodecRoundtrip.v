(* Round trip: every value the Go encoders accept is decoded back (up to the nil/empty
   metadata canonicalisation) by the store decoders. *)
From V Require Import Store.Codec Store.CodecTotal.
From Coq Require Import ZifyN ZifyNat ZifyBool.

(* boolean validity guards = what the real Go encoders enforce *)
Definition hash_ok (h : bytes) : bool := (len h =? 32) && bytes_ok h.
Definition txmd_valid (m : txmd) : bool :=
  (match md_trunc m with Some t => t <? 2^64 | None => true end) &&
  (match md_extra m with
   | Some e => (1 <=? len e) && (len e <=? st_maxExtraLen) && bytes_ok e
   | None => true end).
Definition kvmd_valid (m : kvmd) : bool :=
  match kv_expires m with Some t => t <? 2^64 | None => true end.
(* a nil *TxMetadata and one without attributes serialise identically; the decoder returns nil *)
Definition omd_canon (m : option txmd) : option txmd :=
  match m with
  | Some m' => if len (txmd_bytes m') =? 0 then None else Some m'
  | None => None end.
Definition hdr_canon (h : txhdr) : txhdr :=
  {| h_id := h_id h; h_prevalh := h_prevalh h; h_ts := h_ts h; h_version := h_version h;
     h_md := omd_canon (h_md h); h_nentries := h_nentries h; h_eh := h_eh h;
     h_bltxid := h_bltxid h; h_blroot := h_blroot h |}.
Definition omd_valid (m : option txmd) : bool := match m with Some m' => txmd_valid m' | None => true end.
Definition txhdr_valid (h : txhdr) : bool :=
  (1 <=? h_id h) && (h_id h <? 2^64) && hash_ok (h_prevalh h) && (h_ts h <? 2^64) &&
  (((h_version h =? 0) && (len (opt_md_bytes (h_md h)) =? 0) && (h_nentries h <? 2^16)) ||
   ((h_version h =? 1) && omd_valid (h_md h) && (h_nentries h <? 2^32))) &&
  (1 <=? h_nentries h) && hash_ok (h_eh h) && (h_bltxid h <? h_id h) && hash_ok (h_blroot h).
Definition okvmd_canon (m : option kvmd) : option kvmd :=
  match m with
  | Some m' => if len (kvmd_bytes m') =? 0 then None else Some m'
  | None => None end.
Definition xentry_canon (e : xentry) : xentry :=
  {| x_key := x_key e; x_md := okvmd_canon (x_md e); x_val := x_val e |}.
Definition xentry_valid (e : xentry) : bool :=
  bytes_ok (x_key e) && (len (x_key e) <? 2^16) &&
  (match x_md e with Some m => kvmd_valid m | None => true end) &&
  bytes_ok (x_val e) && (len (x_val e) <? 2^32).

(* ------------------------------------------------------------------ *)
(* general facts                                                        *)
Lemma pow64 : 2 ^ 64 = 256 ^ N.of_nat 8. Proof. reflexivity. Qed.
Lemma pow32 : 2 ^ 32 = 256 ^ N.of_nat 4. Proof. reflexivity. Qed.
Lemma pow16 : 2 ^ 16 = 256 ^ N.of_nat 2. Proof. reflexivity. Qed.
Lemma pow16v : 256 ^ N.of_nat 2 = 65536. Proof. reflexivity. Qed.
Lemma pow32v : 256 ^ N.of_nat 4 = 4294967296. Proof. reflexivity. Qed.

Lemma len_nil : len [] = 0. Proof. reflexivity. Qed.
Lemma len_cons x l : len (x :: l) = 1 + len l.
Proof. unfold len; simpl length; lia. Qed.
Lemma len_repeat x n : len (repeat x n) = N.of_nat n.
Proof. unfold len; rewrite repeat_length; reflexivity. Qed.
Lemma len0_nil l : len l = 0 -> l = [].
Proof. destruct l; auto. rewrite len_cons; lia. Qed.

Ltac lens := rewrite ?len_app, ?len_be_enc, ?len_cons, ?len_nil; natc;
  change (N.of_nat 1) with 1.

Lemma uint_enc k v r : v < 256 ^ N.of_nat k -> uint_ k (be_enc k v ++ r) = Ok v.
Proof.
  intros H. rewrite uint_ok by (rewrite len_app, len_be_enc; lia).
  rewrite firstn_app, be_enc_length, Nat.sub_diag.
  rewrite firstn_all2 by (rewrite be_enc_length; lia).
  cbn [firstn]. rewrite app_nil_r, be_dec_enc_small by exact H. reflexivity.
Qed.

Lemma drop_app_ge i f r : len f <= i -> drop i (f ++ r) = drop (i - len f) r.
Proof.
  unfold drop, len; intros H. rewrite skipn_app.
  rewrite skipn_all2 by lia. cbn [app]. f_equal. lia.
Qed.
Lemma drop_is0 i r : i = 0 -> drop i r = r.
Proof. intros ->; reflexivity. Qed.
Lemma drop_at i p r : i = len p -> drop i (p ++ r) = r.
Proof. intros ->; apply drop_app_exact. Qed.
Lemma take_app_eq n x r : n = len x -> take n (x ++ r) = x.
Proof. intros ->; apply take_app_exact. Qed.
Lemma take_app_eq2 n x r z : n = len x -> take n ((x ++ r) ++ z) = x.
Proof. intros ->; rewrite <- app_assoc; apply take_app_exact. Qed.
Lemma take_eq n x : n = len x -> take n x = x.
Proof. intros ->; apply take_all. Qed.

Lemma at_app p x r i : i = len p -> at_ (p ++ [x] ++ r) i = Ok x.
Proof.
  intros ->. change ([x] ++ r) with (x :: r). unfold at_, len. rewrite Nnat.Nat2N.id.
  rewrite nth_error_app2 by lia. rewrite Nat.sub_diag. reflexivity.
Qed.

Lemma ltb_false a b : b <= a -> (a <? b) = false.
Proof. intros H; apply N.ltb_ge; exact H. Qed.
Lemma ltb_true a b : a < b -> (a <? b) = true.
Proof. intros H; apply N.ltb_lt; exact H. Qed.
Lemma leb_false a b : b < a -> (a <=? b) = false.
Proof. intros H; apply N.leb_gt; exact H. Qed.
Lemma eqb_false a b : a <> b -> (a =? b) = false.
Proof. intros H; apply N.eqb_neq; exact H. Qed.
Lemma eqb_true a b : a = b -> (a =? b) = true.
Proof. intros H; apply N.eqb_eq; exact H. Qed.

(* peel the fields in front of an absolute offset *)
Ltac peel :=
  repeat (rewrite drop_app_ge by (lens; lia));
  rewrite drop_is0 by (lens; lia).

(* ------------------------------------------------------------------ *)
(* TxMetadata                                                           *)
Ltac lists := rewrite <- ?app_assoc, ?app_nil_r; reflexivity.

Lemma txmd_loop_exit f b i m : i = len b -> txmd_loop (S f) b i m = Ok m.
Proof. intros ->. cbn [txmd_loop]. rewrite N.eqb_refl. reflexivity. Qed.

Lemma txmd_loop_trunc f b i p t r m :
  b = p ++ [0] ++ be_enc 8 t ++ r -> i = len p -> t < 256 ^ N.of_nat 8 ->
  txmd_loop (S f) b i m =
  txmd_loop f b (i + 9) {| md_trunc := Some t; md_extra := md_extra m |}.
Proof.
  intros -> -> Ht. cbn [txmd_loop]. consts.
  rewrite eqb_false by (lens; lia).
  rewrite from_ok by (lens; lia). cbn [bind].
  rewrite ltb_false by (rewrite len_drop; lens; lia).
  rewrite at_app by reflexivity. cbn [bind].
  rewrite N.eqb_refl.
  rewrite from_ok by (lens; lia). cbn [bind].
  peel.
  unfold trunc_deser. consts.
  rewrite ltb_false by (lens; lia).
  rewrite uint_enc by exact Ht. cbn [bind].
  f_equal. lia.
Qed.

Lemma extra_deser_enc e r :
  len e <= 256 -> extra_deser (be_enc 2 (len e) ++ e ++ r) = Ok (e, 2 + len e).
Proof.
  intros He. unfold extra_deser. consts.
  rewrite ltb_false by (lens; lia).
  rewrite uint_enc by (rewrite pow16v; lia). cbn [bind].
  rewrite (ltb_false 256) by lia.
  rewrite ltb_false by (lens; lia). cbn [orb].
  rewrite from_ok by (lens; lia). cbn [bind].
  peel. rewrite take_app_eq2 by reflexivity. reflexivity.
Qed.

Lemma txmd_loop_extra f b i p e r m :
  b = p ++ [1] ++ be_enc 2 (len e) ++ e ++ r -> i = len p -> len e <= 256 ->
  txmd_loop (S f) b i m =
  txmd_loop f b (i + 3 + len e) {| md_trunc := md_trunc m; md_extra := Some e |}.
Proof.
  intros -> -> He. cbn [txmd_loop]. consts.
  rewrite eqb_false by (lens; lia).
  rewrite from_ok by (lens; lia). cbn [bind].
  rewrite ltb_false by (rewrite len_drop; lens; lia).
  rewrite at_app by reflexivity. cbn [bind].
  rewrite (eqb_false 1 0) by lia. rewrite N.eqb_refl.
  rewrite from_ok by (lens; lia). cbn [bind].
  peel.
  rewrite extra_deser_enc by exact He. cbn [bind].
  f_equal. lia.
Qed.

Lemma txmd_len m : txmd_valid m = true -> len (txmd_bytes m) <= 268.
Proof.
  unfold txmd_valid, txmd_bytes. consts. intros H.
  apply andb_prop in H as [_ H2].
  destruct (md_trunc m), (md_extra m) as [e|]; lens.
  all: try (apply andb_prop in H2 as [H2 _]; apply andb_prop in H2 as [_ H2];
            apply N.leb_le in H2); lia.
Qed.

Theorem txmd_roundtrip m : txmd_valid m = true -> txmd_read (txmd_bytes m) = Ok m.
Proof.
  intros Hv. unfold txmd_read.
  rewrite ltb_false by (unfold st_maxTxMetadataLen; apply txmd_len; exact Hv).
  assert (Hf : len (txmd_bytes m) < N.of_nat (S (length (txmd_bytes m)))) by (unfold len; lia).
  revert Hf. generalize (S (length (txmd_bytes m))) as fuel.
  unfold txmd_valid in Hv. apply andb_prop in Hv as [H1 H2].
  destruct m as [ot oe]. unfold txmd_bytes, txmd_empty. cbn [md_trunc md_extra] in *. consts.
  destruct ot as [t|]; destruct oe as [e|].
  - apply N.ltb_lt in H1. rewrite pow64 in H1.
    apply andb_prop in H2 as [H2 _]. apply andb_prop in H2 as [_ H2]. apply N.leb_le in H2.
    intros fuel Hf. revert Hf. lens. intros Hf.
    destruct fuel as [|f]; [lia|].
    rewrite (txmd_loop_trunc f _ _ [] t ([1] ++ be_enc 2 (len e) ++ e));
      [| lists | reflexivity | exact H1].
    destruct f as [|f]; [lia|].
    rewrite (txmd_loop_extra f _ _ ([0] ++ be_enc 8 t) e []);
      [| lists | lens; lia | exact H2].
    destruct f as [|f]; [lia|].
    rewrite txmd_loop_exit by (lens; lia). reflexivity.
  - apply N.ltb_lt in H1. rewrite pow64 in H1.
    intros fuel Hf. revert Hf. lens. intros Hf.
    destruct fuel as [|f]; [lia|].
    rewrite (txmd_loop_trunc f _ _ [] t []); [| lists | reflexivity | exact H1].
    destruct f as [|f]; [lia|].
    rewrite txmd_loop_exit by (lens; lia). reflexivity.
  - apply andb_prop in H2 as [H2 _]. apply andb_prop in H2 as [_ H2]. apply N.leb_le in H2.
    intros fuel Hf. revert Hf. lens. intros Hf.
    destruct fuel as [|f]; [lia|].
    rewrite (txmd_loop_extra f _ _ [] e []); [| lists | reflexivity | exact H2].
    destruct f as [|f]; [lia|].
    rewrite txmd_loop_exit by (lens; lia). reflexivity.
  - intros fuel Hf. destruct fuel as [|f]; [cbn in Hf; lia|].
    rewrite txmd_loop_exit by reflexivity. reflexivity.
Qed.

(* ------------------------------------------------------------------ *)
(* KVMetadata                                                           *)
Lemma kvmd_loop_exit f b i m : i = len b -> kvmd_loop (S f) b i m = Ok m.
Proof. intros ->. cbn [kvmd_loop]. rewrite N.eqb_refl. reflexivity. Qed.

Lemma kvmd_loop_del f b i p r m :
  b = p ++ [0] ++ r -> i = len p ->
  kvmd_loop (S f) b i m =
  kvmd_loop f b (i + 1)
    {| kv_deleted := true; kv_expires := kv_expires m; kv_nonindexable := kv_nonindexable m |}.
Proof.
  intros -> ->. cbn [kvmd_loop]. consts.
  rewrite eqb_false by (lens; lia).
  rewrite from_ok by (lens; lia). cbn [bind].
  rewrite ltb_false by (rewrite len_drop; lens; lia).
  rewrite at_app by reflexivity. cbn [bind].
  rewrite N.eqb_refl.
  rewrite from_ok by (lens; lia). cbn [bind]. reflexivity.
Qed.

Lemma kvmd_loop_exp f b i p t r m :
  b = p ++ [1] ++ be_enc 8 t ++ r -> i = len p -> t < 256 ^ N.of_nat 8 ->
  kvmd_loop (S f) b i m =
  kvmd_loop f b (i + 9)
    {| kv_deleted := kv_deleted m; kv_expires := Some t; kv_nonindexable := kv_nonindexable m |}.
Proof.
  intros -> -> Ht. cbn [kvmd_loop]. consts.
  rewrite eqb_false by (lens; lia).
  rewrite from_ok by (lens; lia). cbn [bind].
  rewrite ltb_false by (rewrite len_drop; lens; lia).
  rewrite at_app by reflexivity. cbn [bind].
  rewrite (eqb_false 1 0) by lia. rewrite N.eqb_refl.
  rewrite from_ok by (lens; lia). cbn [bind].
  peel.
  unfold expires_deser. consts.
  rewrite ltb_false by (lens; lia).
  rewrite uint_enc by exact Ht. cbn [bind].
  f_equal. lia.
Qed.

Lemma kvmd_loop_ni f b i p r m :
  b = p ++ [2] ++ r -> i = len p ->
  kvmd_loop (S f) b i m =
  kvmd_loop f b (i + 1)
    {| kv_deleted := kv_deleted m; kv_expires := kv_expires m; kv_nonindexable := true |}.
Proof.
  intros -> ->. cbn [kvmd_loop]. consts.
  rewrite eqb_false by (lens; lia).
  rewrite from_ok by (lens; lia). cbn [bind].
  rewrite ltb_false by (rewrite len_drop; lens; lia).
  rewrite at_app by reflexivity. cbn [bind].
  rewrite (eqb_false 2 0) by lia. rewrite (eqb_false 2 1) by lia. rewrite N.eqb_refl.
  rewrite from_ok by (lens; lia). cbn [bind]. reflexivity.
Qed.

Lemma kvmd_len m : len (kvmd_bytes m) <= 11.
Proof.
  unfold kvmd_bytes. consts.
  destruct (kv_deleted m), (kv_expires m), (kv_nonindexable m); lens; lia.
Qed.

Ltac kfuel := match goal with |- context [kvmd_loop ?f _ _ _] =>
  destruct f as [|?f]; [exfalso; lia|] end.
Ltac kexit := kfuel; rewrite kvmd_loop_exit by (lens; lia); reflexivity.

Theorem kvmd_roundtrip m : kvmd_valid m = true -> kvmd_read (kvmd_bytes m) = Ok m.
Proof.
  intros Hv. unfold kvmd_read.
  rewrite ltb_false by (unfold st_maxKVMetadataLen; apply kvmd_len).
  assert (Hf : len (kvmd_bytes m) < N.of_nat (S (length (kvmd_bytes m)))) by (unfold len; lia).
  revert Hf. generalize (S (length (kvmd_bytes m))) as fuel.
  unfold kvmd_valid in Hv.
  destruct m as [d oe ni]. unfold kvmd_bytes, kvmd_empty. cbn [kv_deleted kv_expires kv_nonindexable] in *.
  consts.
  destruct oe as [t|]; [apply N.ltb_lt in Hv; rewrite pow64 in Hv|];
  destruct d, ni; intros fuel; lens; intros Hf.
  - kfuel. rewrite (kvmd_loop_del _ _ _ [] ([1] ++ be_enc 8 t ++ [2])); [| lists | reflexivity].
    kfuel. rewrite (kvmd_loop_exp _ _ _ [0] t [2]); [| lists | lens; lia | exact Hv].
    kfuel. rewrite (kvmd_loop_ni _ _ _ ([0] ++ [1] ++ be_enc 8 t) []); [| lists | lens; lia].
    kexit.
  - kfuel. rewrite (kvmd_loop_del _ _ _ [] ([1] ++ be_enc 8 t)); [| lists | reflexivity].
    kfuel. rewrite (kvmd_loop_exp _ _ _ [0] t []); [| lists | lens; lia | exact Hv].
    kexit.
  - kfuel. rewrite (kvmd_loop_exp _ _ _ [] t [2]); [| lists | lens; lia | exact Hv].
    kfuel. rewrite (kvmd_loop_ni _ _ _ ([1] ++ be_enc 8 t) []); [| lists | lens; lia].
    kexit.
  - kfuel. rewrite (kvmd_loop_exp _ _ _ [] t []); [| lists | lens; lia | exact Hv].
    kexit.
  - kfuel. rewrite (kvmd_loop_del _ _ _ [] [2]); [| lists | reflexivity].
    kfuel. rewrite (kvmd_loop_ni _ _ _ [0] []); [| lists | lens; lia].
    kexit.
  - kfuel. rewrite (kvmd_loop_del _ _ _ [] []); [| lists | reflexivity].
    kexit.
  - kfuel. rewrite (kvmd_loop_ni _ _ _ [] []); [| lists | lens; lia].
    kexit.
  - kexit.
Qed.

(* ------------------------------------------------------------------ *)
(* TxHeader                                                             *)
Ltac props :=
  repeat match goal with
  | H : _ && _ = true |- _ => apply andb_prop in H; destruct H
  end;
  repeat match goal with
  | H : (_ <=? _) = true |- _ => apply N.leb_le in H
  | H : (_ <? _) = true |- _ => apply N.ltb_lt in H
  | H : (_ =? _) = true |- _ => apply N.eqb_eq in H
  end.

Ltac rd_uint :=
  rewrite from_ok by (lens; lia); cbn [bind]; peel;
  rewrite uint_enc by (rewrite ?pow16v, ?pow32v; lia); cbn [bind].
Ltac rd_copy :=
  unfold copy32; rewrite from_ok by (lens; lia); cbn [bind]; peel; unfold hsize;
  first [rewrite take_app_eq2 by lia | rewrite take_app_eq by lia]; cbn [bind].

Lemma omd_read_pos md : omd_valid md = true -> 0 < len (opt_md_bytes md) ->
  exists m', omd_canon md = Some m' /\ txmd_read (opt_md_bytes md) = Ok m'.
Proof.
  intros Hv Hl. destruct md as [m'|]; cbn [opt_md_bytes omd_canon omd_valid] in *.
  - exists m'. rewrite eqb_false by lia. split; [reflexivity | apply txmd_roundtrip; exact Hv].
  - rewrite len_nil in Hl. lia.
Qed.
Lemma omd_read_zero md : len (opt_md_bytes md) = 0 -> omd_canon md = None.
Proof.
  intros Hl. destruct md as [m'|]; cbn [opt_md_bytes omd_canon] in *; [|reflexivity].
  rewrite Hl. reflexivity.
Qed.

Lemma txhdr_roundtrip_len h : txhdr_valid h = true ->
  exists b, txhdr_bytes h = Ok b /\ len b <= 396 /\ txhdr_read b = Ok (hdr_canon h).
Proof.
  intros Hv. unfold txhdr_valid, hash_ok in Hv. props.
  rewrite pow64 in *.
  match goal with H : _ || _ = true |- _ => apply orb_prop in H; destruct H as [Hc|Hc] end; props.
  - destruct h as [id prev ts ver md ne eh bl blroot].
    cbn [h_id h_prevalh h_ts h_version h_md h_nentries h_eh h_bltxid h_blroot] in *.
    subst ver. unfold txhdr_bytes, hdr_canon.
    cbn [h_id h_prevalh h_ts h_version h_md h_nentries h_eh h_bltxid h_blroot].
    rewrite N.eqb_refl. rewrite ltb_false by lia.
    eexists; split; [reflexivity|].
    consts. rewrite <- !app_assoc.
    split; [lens; lia|].
    unfold txhdr_read. consts.
    rewrite ltb_false by (lens; lia).
    rd_uint.
    rewrite (ltb_false id 1) by lia.
    rd_copy. rd_uint. rd_uint.
    rewrite N.eqb_refl.
    rd_uint.
    rewrite (ltb_false ne 1) by lia.
    rewrite ltb_false by (lens; lia).
    rd_copy. rd_uint.
    rewrite leb_false by lia.
    rd_copy.
    replace (omd_canon md) with (@None txmd); [reflexivity|].
    destruct md as [m'|]; [|reflexivity].
    cbn [omd_canon opt_md_bytes] in *. rewrite H12. reflexivity.
  - assert (Hml : len (opt_md_bytes (h_md h)) <= 268).
    { destruct (h_md h) as [m'|]; cbn [opt_md_bytes];
        [apply txmd_len; assumption | rewrite len_nil; lia]. }
    destruct h as [id prev ts ver md ne eh bl blroot].
    cbn [h_id h_prevalh h_ts h_version h_md h_nentries h_eh h_bltxid h_blroot] in *.
    subst ver. unfold txhdr_bytes, hdr_canon.
    cbn [h_id h_prevalh h_ts h_version h_md h_nentries h_eh h_bltxid h_blroot].
    rewrite (eqb_false 1 0) by lia. rewrite N.eqb_refl.
    eexists; split; [reflexivity|].
    consts. rewrite <- !app_assoc.
    split; [lens; lia|].
    unfold txhdr_read. consts.
    rewrite ltb_false by (lens; lia).
    rd_uint.
    rewrite (ltb_false id 1) by lia.
    rd_copy. rd_uint. rd_uint.
    rewrite (eqb_false 1 0) by lia. rewrite N.eqb_refl.
    rd_uint.
    rewrite ltb_false by (lens; lia). rewrite (ltb_false 268) by lia. cbn [orb].
    destruct (N.ltb_spec 0 (len (opt_md_bytes md))) as [Hp|Hz].
    + destruct (omd_read_pos md) as [m' [Hcan Hread]]; [assumption | exact Hp |].
      rewrite sub_ok by (lens; lia). peel. rewrite take_app_eq by lia.
      cbn [bind]. rewrite Hread. cbn [bind].
      rd_uint.
      rewrite (ltb_false ne 1) by lia.
      rewrite ltb_false by (lens; lia).
      rd_copy. rd_uint.
      rewrite leb_false by lia.
      rd_copy.
      rewrite Hcan. reflexivity.
    + assert (Hz' : len (opt_md_bytes md) = 0) by lia.
      rewrite (omd_read_zero md Hz'). cbn [bind].
      rd_uint.
      rewrite (ltb_false ne 1) by lia.
      rewrite ltb_false by (lens; lia).
      rd_copy. rd_uint.
      rewrite leb_false by lia.
      rd_copy.
      reflexivity.
Qed.

Theorem txhdr_roundtrip h : txhdr_valid h = true ->
  exists b, txhdr_bytes h = Ok b /\ txhdr_read b = Ok (hdr_canon h).
Proof.
  intros Hv. destruct (txhdr_roundtrip_len h Hv) as [b [H1 [_ H2]]]. eauto.
Qed.

(* ------------------------------------------------------------------ *)
(* ExportTx / ReplicateTx                                               *)
Definition okvmd_bytes (m : option kvmd) : bytes :=
  match m with Some m => kvmd_bytes m | None => [] end.

Lemma okvmd_len m : len (okvmd_bytes m) <= 11.
Proof. destruct m; cbn [okvmd_bytes]; [apply kvmd_len | rewrite len_nil; lia]. Qed.
Lemma okvmd_read_pos md :
  match md with Some m => kvmd_valid m | None => true end = true -> 0 < len (okvmd_bytes md) ->
  exists m', okvmd_canon md = Some m' /\ kvmd_read (okvmd_bytes md) = Ok m'.
Proof.
  intros Hv Hl. destruct md as [m'|]; cbn [okvmd_bytes okvmd_canon] in *.
  - exists m'. rewrite eqb_false by lia. split; [reflexivity | apply kvmd_roundtrip; exact Hv].
  - rewrite len_nil in Hl. lia.
Qed.
Lemma okvmd_read_zero md : len (okvmd_bytes md) = 0 -> okvmd_canon md = None.
Proof.
  intros Hl. destruct md as [m'|]; cbn [okvmd_bytes okvmd_canon] in *; [|reflexivity].
  rewrite Hl. reflexivity.
Qed.

Lemma repl_entries_step f b i P e R count acc :
  b = P ++ export_entry e ++ R -> i = len P -> xentry_valid e = true -> count <> 0 ->
  repl_entries (S f) b i count acc =
  repl_entries f b (i + len (export_entry e)) (count - 1) (xentry_canon e :: acc).
Proof.
  intros -> -> Hv Hc. unfold xentry_valid in Hv. props.
  cbn [repl_entries]. rewrite (eqb_false count 0) by exact Hc.
  unfold export_entry, xentry_canon.
  change (match x_md e with Some m => kvmd_bytes m | None => [] end) with (okvmd_bytes (x_md e)).
  pose proof (okvmd_len (x_md e)) as Hml.
  destruct e as [key md val]. cbn [x_key x_md x_val] in *.
  consts. rewrite <- !app_assoc.
  rewrite ltb_false by (lens; lia).
  rd_uint.
  rewrite ltb_false by (lens; lia).
  rewrite from_ok by (lens; lia). cbn [bind]. peel.
  rewrite take_app_eq2 by lia.
  rd_uint.
  rewrite ltb_false by (lens; lia).
  destruct (N.ltb_spec 0 (len (okvmd_bytes md))) as [Hp|Hz].
  - destruct (okvmd_read_pos md) as [m' [Hcan Hread]]; [assumption | exact Hp |].
    rewrite sub_ok by (lens; lia). peel. rewrite take_app_eq by lia.
    cbn [bind]. rewrite Hread. cbn [bind].
    rewrite ltb_false by (lens; lia).
    rd_uint.
    rewrite ltb_false by (lens; lia).
    rewrite sub_ok by (lens; lia). peel. rewrite take_app_eq by lia. cbn [bind].
    f_equal; [lens; lia|].
    rewrite Hcan. reflexivity.
  - assert (Hz' : len (okvmd_bytes md) = 0) by lia.
    rewrite (okvmd_read_zero md Hz'). cbn [bind].
    rewrite ltb_false by (lens; lia).
    rd_uint.
    rewrite ltb_false by (lens; lia).
    rewrite sub_ok by (lens; lia). peel. rewrite take_app_eq by lia. cbn [bind].
    f_equal. lens; lia.
Qed.

Lemma export_entries_length es : (length es <= length (concat (map export_entry es)))%nat.
Proof.
  induction es as [|e es IH]; [apply Nat.le_refl|].
  cbn [map concat length]. rewrite app_length.
  unfold export_entry at 1. consts. rewrite !app_length, !be_enc_length. lia.
Qed.

Lemma repl_entries_all es : forall f P R acc b i count,
  b = P ++ concat (map export_entry es) ++ R -> i = len P ->
  forallb xentry_valid es = true -> count = N.of_nat (length es) -> (length es <= f)%nat ->
  repl_entries f b i count acc =
  Ok (rev acc ++ map xentry_canon es, i + len (concat (map export_entry es))).
Proof.
  induction es as [|e es IH]; intros f P R acc b i count Hb Hi Hv Hc Hf.
  - cbn [length] in Hc. subst count. cbn [map concat]. rewrite len_nil, app_nil_r.
    destruct f; cbn [repl_entries]; rewrite N.eqb_refl; f_equal; f_equal; lia.
  - cbn [length] in Hc, Hf. destruct f as [|f]; [lia|].
    cbn [forallb] in Hv. apply andb_prop in Hv as [Hv1 Hv2].
    cbn [map concat] in *.
    rewrite (repl_entries_step f b i P e (concat (map export_entry es) ++ R));
      [| rewrite Hb; lists | exact Hi | exact Hv1 | lia].
    rewrite (IH f (P ++ export_entry e) R (xentry_canon e :: acc) b);
      [| rewrite Hb; lists | rewrite len_app; lia | exact Hv2 | lia | lia].
    cbn [rev]. rewrite <- app_assoc. cbn [app].
    f_equal. f_equal. rewrite len_app. lia.
Qed.

Theorem export_roundtrip h es tr hb :
  txhdr_valid h = true -> forallb xentry_valid es = true ->
  h_nentries h = N.of_nat (length es) -> txhdr_bytes h = Ok hb ->
  repl_parse (export_tx hb es tr) = Ok (hdr_canon h, map xentry_canon es, tr).
Proof.
  intros Hv Hes Hn Hb.
  destruct (txhdr_roundtrip_len h Hv) as [hb' [Hb' [Hlen Hread]]].
  assert (hb' = hb) by congruence. subst hb'.
  pose proof (export_entries_length es) as Hel.
  unfold repl_parse, export_tx. consts.
  set (trb := if tr then 1 else 0).
  set (ents := concat (map export_entry es)) in *.
  rewrite eqb_false by (lens; lia).
  rewrite ltb_false by (lens; lia).
  rd_uint.
  rewrite ltb_false by (lens; lia).
  rewrite sub_ok by (lens; lia). peel. rewrite take_app_eq by lia. cbn [bind].
  rewrite Hread. cbn [bind].
  cbn [hdr_canon h_nentries]. rewrite Hn.
  rewrite (repl_entries_all es _ (be_enc 4 (len hb) ++ hb) (be_enc 2 1 ++ [trb]) []
             _ (4 + len hb) _);
    [| subst ents; lists | lens; lia | exact Hes | reflexivity
     | rewrite !app_length; fold ents; lia].
  fold ents. cbn [bind rev app].
  rewrite ltb_true by (lens; lia).
  rewrite ltb_false by (lens; lia).
  rd_uint.
  rewrite ltb_false by (lens; lia).
  rewrite sub_ok by (lens; lia). peel. rewrite take_eq by (lens; lia). cbn [bind].
  change (len [trb]) with 1. change (0 <? 1) with true. cbv iota.
  change (at_ [trb] 0) with (Ok trb). cbn [bind].
  assert (Ht : (1 <? trb) = false /\ (trb =? 1) = tr) by (subst trb; destruct tr; split; reflexivity).
  destruct Ht as [Ht1 Ht2]. rewrite Ht1, Ht2. cbn [bind].
  rewrite eqb_true by (lens; lia). cbn [negb]. reflexivity.
Qed.

(* premises are satisfiable *)
Example txmd_valid_sat : txmd_valid {| md_trunc := Some 7; md_extra := Some [1;2;3] |} = true.
Proof. reflexivity. Qed.
Example kvmd_valid_sat :
  kvmd_valid {| kv_deleted := true; kv_expires := Some 4000000000; kv_nonindexable := true |} = true.
Proof. reflexivity. Qed.
Definition sat_hdr : txhdr :=
  {| h_id := 5; h_prevalh := repeat 7 32; h_ts := 1700000000; h_version := 1;
     h_md := Some {| md_trunc := Some 3; md_extra := Some [1;2;3] |};
     h_nentries := 2; h_eh := repeat 9 32; h_bltxid := 4; h_blroot := repeat 11 32 |}.
Definition sat_entries : list xentry :=
  [ {| x_key := [107;49]; x_val := [118;49];
       x_md := Some {| kv_deleted := false; kv_expires := Some 4000000000; kv_nonindexable := true |} |};
    {| x_key := [107;50]; x_md := None; x_val := [] |} ].
Example txhdr_valid_sat : txhdr_valid sat_hdr = true.
Proof. vm_compute. reflexivity. Qed.
Example export_valid_sat : exists h es hb,
  txhdr_valid h = true /\ forallb xentry_valid es = true /\
  h_nentries h = N.of_nat (length es) /\ txhdr_bytes h = Ok hb /\
  es <> [] /\ (exists e, In e es /\ x_md e <> None).
Proof.
  exists sat_hdr, sat_entries.
  destruct (txhdr_bytes sat_hdr) as [hb| |] eqn:E; try (vm_compute in E; discriminate).
  exists hb. repeat split; try (vm_compute; reflexivity).
  - discriminate.
  - eexists; split; [left; reflexivity | discriminate].
Qed.
