(* embedded/appendable/metadata.go: the metadata block stored at the head of every appendable
   file (read back at open time): a length-prefixed entry count followed by length-prefixed
   key / value fields. Transliterated with the checked slice primitives. *)
From V Require Export Store.Codec.

(* readField: io.ReadFull of a 4-byte length, then io.CopyN of that many bytes *)
Definition read_field (b : bytes) : res (bytes * bytes) :=
  if len b <? 4 then Err ECorruptedData else
  do n <- uint_ 4 b;
  do rest <- from_ b 4;
  if len rest <? n then Err ECorruptedData else
  do f <- sub_ rest 0 n;
  do r <- from_ rest n;
  Ok (f, r).

Fixpoint md_fields (fuel : nat) (count : N) (b : bytes) (acc : list (bytes * bytes))
  : list (bytes * bytes) * res unit :=
  if count =? 0 then (rev acc, Ok tt) else
  match fuel with
  | O => (rev acc, Err EFuel)
  | S f =>
      match read_field b with
      | Ok (k, r1) =>
          match read_field r1 with
          | Ok (v, r2) => md_fields f (count - 1) r2 ((k, v) :: acc)
          | Err e => (rev acc, Err e)
          | Panic => (rev acc, Panic)
          end
      | Err e => (rev acc, Err e)
      | Panic => (rev acc, Panic)
      end
  end.

(* Metadata.ReadFrom via NewMetadata: entries parsed before an error stay in the map *)
Definition appmd_read (b : bytes) : list (bytes * bytes) * res unit :=
  match read_field b with
  | Ok (lenb, r) =>
      if negb (len lenb =? 4) then ([], Err ECorruptedData) else
      match uint_ 4 lenb with
      | Ok n => md_fields (S (length b)) n r []
      | Err e => ([], Err e)
      | Panic => ([], Panic)
      end
  | Err e => ([], Err e)
  | Panic => ([], Panic)
  end.

(* map semantics: the last occurrence of a key wins *)
Fixpoint md_get (es : list (bytes * bytes)) (k : bytes) (cur : option bytes) : option bytes :=
  match es with
  | [] => cur
  | (k', v) :: r => md_get r k (if list_eq_dec N.eq_dec k k' then Some v else cur)
  end.

Definition appmd_get (b : bytes) (k : bytes) : option bytes := md_get (fst (appmd_read b)) k None.
Definition appmd_get_int (b : bytes) (k : bytes) : res (option N) :=
  match appmd_get b k with
  | None => Ok None
  | Some v => if len v <? 8 then Ok None else do x <- uint_ 8 v; Ok (Some x)
  end.
Definition appmd_get_bool (b : bytes) (k : bytes) : res (option bool) :=
  match appmd_get b k with
  | None => Ok None
  | Some v => if len v <? 1 then Ok None else do x <- at_ v 0; Ok (Some (negb (x =? 0)))
  end.
