(* Byte-level codecs of embedded/store, transliterated from
     tx_metadata.go  (TxMetadata.Bytes / ReadFrom, attribute (de)serialisers)
     kv_metadata.go  (KVMetadata.Bytes / unsafeReadFrom)
     tx.go           (TxHeader.Bytes / ReadFrom)
     immustore.go    (ExportTx wire format / ReplicateTx framing)
   Every Go slice expression is written with the checked primitives of Base.Bytes
   (at_, from_, sub_, uint_), so a missing guard shows up as the outcome Panic. *)
From V Require Export Base.Bytes gen.Consts.

Definition EFuel : N := 98.           (* loop fuel exhausted: proved unreachable *)
Definition EMetadataUnsupported : N := 5.
Definition EUnsupportedVersion : N := 6.

Definition w_txid : nat := N.to_nat st_txIDSize.
Definition w_ts : nat := N.to_nat st_tsSize.
Definition w_ssz : nat := N.to_nat st_sszSize.
Definition w_lsz : nat := N.to_nat st_lszSize.
Definition hsize : N := 32.            (* sha256.Size *)

(* ------------------------------------------------------------------ *)
(* TxMetadata                                                           *)
Record txmd := { md_trunc : option N; md_extra : option bytes }.
Definition txmd_empty : txmd := {| md_trunc := None; md_extra := None |}.

Definition txmd_bytes (m : txmd) : bytes :=
  (match md_trunc m with
   | Some t => [st_truncatedUptoTxAttrCode] ++ be_enc w_txid t
   | None => [] end) ++
  (match md_extra m with
   | Some e => [st_extraAttrCode] ++ be_enc w_ssz (len e) ++ e
   | None => [] end).

(* truncatedUptoTxAttribute.deserialize *)
Definition trunc_deser (b : bytes) : res (N * N) :=
  if len b <? st_txIDSize then Err ECorruptedData else
  do v <- uint_ w_txid b;
  Ok (v, st_txIDSize).

(* extraAttribute.deserialize:  make([]byte,n); copy(extra, b[sszSize:]) *)
Definition extra_deser (b : bytes) : res (bytes * N) :=
  if len b <? st_sszSize then Err ECorruptedData else
  do n <- uint_ w_ssz b;
  if (st_maxExtraLen <? n) || (len b <? st_sszSize + n) then Err ECorruptedData else
  do src <- from_ b st_sszSize;
  let extra := take n (src ++ repeat 0 (N.to_nat n)) in
  Ok (extra, st_sszSize + n).

Fixpoint txmd_loop (fuel : nat) (b : bytes) (i : N) (m : txmd) : res txmd :=
  match fuel with
  | O => Err EFuel
  | S f =>
    if len b =? i then Ok m else
    do s <- from_ b i;
    if len s <? st_attrCodeSize then Err ECorruptedData else
    do code <- at_ b i;
    let i := i + st_attrCodeSize in
    if code =? st_truncatedUptoTxAttrCode then
      do s2 <- from_ b i;
      do r <- trunc_deser s2;
      let '(v, n) := r in
      txmd_loop f b (i + n) {| md_trunc := Some v; md_extra := md_extra m |}
    else if code =? st_extraAttrCode then
      do s2 <- from_ b i;
      do r <- extra_deser s2;
      let '(e, n) := r in
      txmd_loop f b (i + n) {| md_trunc := md_trunc m; md_extra := Some e |}
    else Err ECorruptedData
  end.

Definition txmd_read (b : bytes) : res txmd :=
  if st_maxTxMetadataLen <? len b then Err ECorruptedData
  else txmd_loop (S (length b)) b 0 txmd_empty.

(* ------------------------------------------------------------------ *)
(* KVMetadata                                                           *)
Record kvmd := { kv_deleted : bool; kv_expires : option N; kv_nonindexable : bool }.
Definition kvmd_empty : kvmd := {| kv_deleted := false; kv_expires := None; kv_nonindexable := false |}.

Definition kvmd_bytes (m : kvmd) : bytes :=
  (if kv_deleted m then [st_deletedAttrCode] else []) ++
  (match kv_expires m with Some t => [st_expiresAtAttrCode] ++ be_enc w_ts t | None => [] end) ++
  (if kv_nonindexable m then [st_nonIndexableAttrCode] else []).

Definition expires_deser (b : bytes) : res (N * N) :=
  if len b <? st_tsSize then Err ECorruptedData else
  do v <- uint_ w_ts b;
  Ok (v, st_tsSize).

Fixpoint kvmd_loop (fuel : nat) (b : bytes) (i : N) (m : kvmd) : res kvmd :=
  match fuel with
  | O => Err EFuel
  | S f =>
    if len b =? i then Ok m else
    do s <- from_ b i;
    if len s <? st_attrCodeSize then Err ECorruptedData else
    do code <- at_ b i;
    let i := i + st_attrCodeSize in
    if code =? st_deletedAttrCode then
      do s2 <- from_ b i;      (* deserialize(b[i:]) consumes 0 bytes *)
      kvmd_loop f b i
        {| kv_deleted := true; kv_expires := kv_expires m; kv_nonindexable := kv_nonindexable m |}
    else if code =? st_expiresAtAttrCode then
      do s2 <- from_ b i;
      do r <- expires_deser s2;
      let '(v, n) := r in
      kvmd_loop f b (i + n)
        {| kv_deleted := kv_deleted m; kv_expires := Some v; kv_nonindexable := kv_nonindexable m |}
    else if code =? st_nonIndexableAttrCode then
      do s2 <- from_ b i;
      kvmd_loop f b i
        {| kv_deleted := kv_deleted m; kv_expires := kv_expires m; kv_nonindexable := true |}
    else Err ECorruptedData
  end.

Definition kvmd_read (b : bytes) : res kvmd :=
  if st_maxKVMetadataLen <? len b then Err ECorruptedData
  else kvmd_loop (S (length b)) b 0 kvmd_empty.

(* ------------------------------------------------------------------ *)
(* TxHeader                                                             *)
Record txhdr := {
  h_id : N; h_prevalh : bytes; h_ts : N; h_version : N;
  h_md : option txmd; h_nentries : N; h_eh : bytes; h_bltxid : N; h_blroot : bytes }.

Definition opt_md_bytes (m : option txmd) : bytes :=
  match m with Some m => txmd_bytes m | None => [] end.

(* TxHeader.Bytes; uint16()/uint32() conversions truncate, as in Go *)
Definition txhdr_bytes (h : txhdr) : res bytes :=
  let pre := be_enc w_txid (h_id h) ++ h_prevalh h ++ be_enc w_ts (h_ts h) ++ be_enc w_ssz (h_version h) in
  let post := h_eh h ++ be_enc w_txid (h_bltxid h) ++ h_blroot h in
  if h_version h =? 0 then
    if 0 <? len (opt_md_bytes (h_md h)) then Err EMetadataUnsupported
    else Ok (pre ++ be_enc w_ssz (h_nentries h) ++ post)
  else if h_version h =? 1 then
    let mdbs := opt_md_bytes (h_md h) in
    Ok (pre ++ be_enc w_ssz (len mdbs) ++ mdbs ++ be_enc w_lsz (h_nentries h) ++ post)
  else Err EUnsupportedVersion.

(* copy(dst[:], b[i:]) into a 32-byte array: short sources leave zeroes *)
Definition copy32 (b : bytes) (i : N) : res bytes :=
  do s <- from_ b i; Ok (take hsize (s ++ repeat 0 32)).

Definition txhdr_min_len : N :=
  st_txIDSize + hsize + st_tsSize + 2 * st_sszSize + hsize + st_txIDSize + hsize.

Definition txhdr_read (b : bytes) : res txhdr :=
  if len b <? txhdr_min_len then Err EIllegalArguments else
  let i := 0 in
  do s <- from_ b i; do id <- uint_ w_txid s;
  let i := i + st_txIDSize in
  if id <? 1 then Err EIllegalArguments else
  do prevalh <- copy32 b i;
  let i := i + hsize in
  do s <- from_ b i; do ts <- uint_ w_ts s;
  let i := i + st_tsSize in
  do s <- from_ b i; do version <- uint_ w_ssz s;
  let i := i + st_sszSize in
  do r <-
    (if version =? 0 then
       do s <- from_ b i; do ne <- uint_ w_ssz s;
       Ok (None, ne, i + st_sszSize)
     else if version =? 1 then
       do s <- from_ b i; do mdLen <- uint_ w_ssz s;
       let i := i + st_sszSize in
       if (len b <? i + mdLen + st_lszSize) || (st_maxTxMetadataLen <? mdLen) then Err ECorruptedData else
       do r <-
         (if 0 <? mdLen then
            do mdb <- sub_ b i (i + mdLen);
            do md <- txmd_read mdb;
            Ok (Some md, i + mdLen)
          else Ok (None, i));
       let '(md, i) := r in
       do s <- from_ b i; do ne <- uint_ w_lsz s;
       Ok (md, ne, i + st_lszSize)
     else Err ENewerVersionOrCorrupted);
  let '(md, ne, i) := r in
  if ne <? 1 then Err EIllegalArguments else
  if len b <? i + hsize + st_txIDSize + hsize then Err ECorruptedData else
  do eh <- copy32 b i;
  let i := i + hsize in
  do s <- from_ b i; do bltxid <- uint_ w_txid s;
  let i := i + st_txIDSize in
  if id <=? bltxid then Err EIllegalArguments else
  do blroot <- copy32 b i;
  Ok {| h_id := id; h_prevalh := prevalh; h_ts := ts; h_version := version; h_md := md;
        h_nentries := ne; h_eh := eh; h_bltxid := bltxid; h_blroot := blroot |}.

(* ------------------------------------------------------------------ *)
(* ExportTx wire format and ReplicateTx framing                          *)
Record xentry := { x_key : bytes; x_md : option kvmd; x_val : bytes }.

Definition export_entry (e : xentry) : bytes :=
  let md := match x_md e with Some m => kvmd_bytes m | None => [] end in
  be_enc w_ssz (len (x_key e)) ++ x_key e ++ be_enc w_ssz (len md) ++ md ++
  be_enc w_lsz (len (x_val e)) ++ x_val e.

Definition export_tx (hdrbs : bytes) (es : list xentry) (truncated : bool) : bytes :=
  be_enc w_lsz (len hdrbs) ++ hdrbs ++ concat (map export_entry es) ++
  be_enc w_ssz 1 ++ [if truncated then 1 else 0].

Fixpoint repl_entries (fuel : nat) (b : bytes) (i : N) (count : N) (acc : list xentry)
  : res (list xentry * N) :=
  if count =? 0 then Ok (rev acc, i) else
  match fuel with
  | O => Err EFuel
  | S f =>
    if len b <? i + 2 * st_sszSize + st_lszSize then Err EIllegalArguments else
    do s <- from_ b i; do kLen <- uint_ w_ssz s;
    let i := i + st_sszSize in
    if len b <? i + st_sszSize + st_lszSize + kLen then Err EIllegalArguments else
    do s <- from_ b i;
    let key := take kLen (s ++ repeat 0 (N.to_nat kLen)) in
    let i := i + kLen in
    do s <- from_ b i; do mdLen <- uint_ w_ssz s;
    let i := i + st_sszSize in
    if len b <? i + mdLen then Err EIllegalArguments else
    do r <-
      (if 0 <? mdLen then
         do mdb <- sub_ b i (i + mdLen);
         do md <- kvmd_read mdb;
         Ok (Some md, i + mdLen)
       else Ok (None, i));
    let '(md, i) := r in
    if len b <? i + st_lszSize then Err EIllegalArguments else
    do s <- from_ b i; do vLen <- uint_ w_lsz s;
    let i := i + st_lszSize in
    if len b <? i + vLen then Err EIllegalArguments else
    do v <- sub_ b i (i + vLen);
    repl_entries f b (i + vLen) (count - 1) ({| x_key := key; x_md := md; x_val := v |} :: acc)
  end.

Definition repl_parse (b : bytes) : res (txhdr * list xentry * bool) :=
  if len b =? 0 then Err EIllegalArguments else
  if len b <? st_lszSize then Err EIllegalArguments else
  do s <- from_ b 0; do hdrLen <- uint_ w_lsz s;
  let i := st_lszSize in
  if len b <? i + hdrLen then Err EIllegalArguments else
  do hb <- sub_ b i (i + hdrLen);
  do hdr <- txhdr_read hb;
  let i := i + hdrLen in
  do r <- repl_entries (S (length b)) b i (h_nentries hdr) [];
  let '(es, i) := r in
  do r <-
    (if i <? len b then
       if len b <? i + st_sszSize then Err EIllegalArguments else
       do s <- from_ b i; do tLen <- uint_ w_ssz s;
       let i := i + st_sszSize in
       if len b <? i + tLen then Err EIllegalArguments else
       do v <- sub_ b i (i + tLen);
       do bad <- (if 0 <? len v then do v0 <- at_ v 0; Ok (1 <? v0) else Ok false);
       if bad then Err EIllegalTruncationArgument else
       do tr <- (if 0 <? len v then do v0 <- at_ v 0; Ok (v0 =? 1) else Ok false);
       Ok (tr, i + tLen)
     else Ok (false, i));
  let '(tr, i) := r in
  if negb (i =? len b) then Err EIllegalArguments else
  Ok (hdr, es, tr).
