(* Totality of the open-time parsers of tbtree / ahtree (Store/OpenTime.v): for the repaired code
   no input panics and every accepted size lies inside the log it refers to; for the code as found
   the witnesses. *)
From V Require Import Wire.Alloc Store.Codec Store.CodecTotal Store.AppMeta Store.AppMetaTotal
                      Store.OpenTime Wire.AllocProofs.
From Coq Require Import ZifyN ZifyNat ZifyBool.
Open Scope Z_scope.

Lemma wrap64_id z : -two63 <= z < two63 -> wrap64 z = z.
Proof. unfold wrap64, two63, two64. intros H. lia. Qed.
Lemma wrap64_range z : -two63 <= wrap64 z < two63.
Proof. unfold wrap64, two63, two64. lia. Qed.
Lemma i64_range v : -two63 <= i64 v < two63.
Proof. apply wrap64_range. Qed.

Close Scope Z_scope.

(* ---------------- tbtree commit-log entry ---------------- *)
Lemma clog_deser_ok b : 100 <= len b -> exists e, clog_deser b = Ok e.
Proof.
  intros H. unfold clog_deser.
  destruct (at_ok b 0) as [b0 Hb0]; [lia|]. rewrite Hb0. cbn [bind].
  rewrite from_ok by lia. cbn [bind].
  set (b' := (b0 mod 128) :: drop 1 b).
  assert (Hl : len b' = len b).
  { unfold b', len. simpl length. unfold drop. rewrite skipn_length. unfold len in H. lia. }
  repeat (rewrite from_ok by lia; cbn [bind]).
  repeat (rewrite uint_ok by (rewrite ?len_drop; change (N.of_nat 8) with 8; change (N.of_nat 4) with 4; lia); cbn [bind]).
  eexists; reflexivity.
Qed.

Lemma section_first_read_safe off n plen :
  (0 <= off)%Z -> (0 <= n)%Z -> (off + n <= maxint64)%Z -> (0 <= plen)%Z ->
  section_first_read off n plen = Ok tt.
Proof.
  intros H1 H2 H3 H4. unfold section_first_read, maxint64 in *.
  assert (W1 : wrap64 (9223372036854775807 - n) = (9223372036854775807 - n)%Z)
    by (apply wrap64_id; unfold two63; lia).
  rewrite W1. destruct (Z.leb_spec off (9223372036854775807 - n)); [|lia].
  assert (W2 : wrap64 (n + off) = (n + off)%Z) by (apply wrap64_id; unfold two63; lia).
  rewrite W2. destruct (Z.leb_spec (n + off) off); [reflexivity|].
  assert (W3 : wrap64 (n + off - off) = n) by (rewrite wrap64_id; unfold two63; lia).
  rewrite W3.
  destruct (Z.ltb_spec n plen).
  - destruct (Z.ltb_spec n 0); [lia|]. destruct (Z.ltb_spec off 0); [lia|reflexivity].
  - destruct (Z.ltb_spec off 0); [lia|reflexivity].
Qed.

(* repaired isValid: the Checksum ranges of an accepted entry never make io.SectionReader slice
   with a negative bound, and the root offset is not negative *)
Theorem tb_entry_check_fixed_total b :
  100 <= len b ->
  tb_entry_check true b <> Panic /\ tb_entry_check true b <> Err EFuel /\
  (forall off, tb_entry_check true b = Ok (Some off) -> (0 <= off)%Z).
Proof.
  intros H. unfold tb_entry_check. destruct (clog_deser_ok b H) as [e He]. rewrite He. cbn [bind].
  destruct (clog_valid true e) eqn:Ev; cbn [negb]; [|repeat split; discriminate].
  unfold clog_valid in Ev. cbn [andb] in Ev.
  repeat (apply andb_prop in Ev as [Ev ?]).
  pose proof (i64_range 0) as _.
  assert (R : forall z, (- two63 <= z < two63)%Z -> True) by auto.
  (* ranges of the decoded fields *)
  assert (Rfnl : (ce_fnl e < two63)%Z).
  { unfold clog_deser in He. revert He.
    destruct (at_ b 0); cbn [bind]; try discriminate.
    repeat (match goal with |- context [bind ?x _] => destruct x; cbn [bind]; try discriminate end).
    intros E. injection E as <-. cbn [ce_fnl]. apply i64_range. }
  assert (Rfhl : (ce_fhl e < two63)%Z).
  { unfold clog_deser in He. revert He.
    destruct (at_ b 0); cbn [bind]; try discriminate.
    repeat (match goal with |- context [bind ?x _] => destruct x; cbn [bind]; try discriminate end).
    intros E. injection E as <-. cbn [ce_fhl]. apply i64_range. }
  unfold two63 in *.
  assert (W1 : wrap64 (ce_fnl e - ce_inl e) = (ce_fnl e - ce_inl e)%Z) by (apply wrap64_id; unfold two63; lia).
  assert (W2 : wrap64 (ce_fhl e - ce_ihl e) = (ce_fhl e - ce_ihl e)%Z) by (apply wrap64_id; unfold two63; lia).
  rewrite W1, W2.
  rewrite section_first_read_safe by (unfold maxint64; lia). cbn [bind].
  rewrite section_first_read_safe by (unfold maxint64; lia). cbn [bind].
  repeat split; try discriminate.
  intros off E. assert (off = wrap64 (ce_fnl e - ce_root e)) by congruence. subst off.
  rewrite wrap64_id by (unfold two63; lia). lia.
Qed.

(* the code as found: initialHLogSize with the top bit set passes isValid and panics in
   io.SectionReader.Read (slice bounds out of range [:-9223372036854775744]) *)
Definition tb_entry_witness : bytes :=
  be_enc 8 0 ++ be_enc 8 64 ++ be_enc 4 10 ++ repeat 0 32 ++
  be_enc 8 9223372036854775808 ++ be_enc 8 64 ++ repeat 0 32.
Theorem tb_entry_check_refuted :
  exists b, len b = 100 /\ tb_entry_check false b = Panic.
Proof. exists tb_entry_witness. vm_compute. split; reflexivity. Qed.
Example tb_entry_witness_fixed : tb_entry_check true tb_entry_witness = Ok None.
Proof. vm_compute. reflexivity. Qed.

(* ---------------- parameters from the commit-log metadata ---------------- *)
Lemma md_int_safe md k : safe (md_int md k).
Proof.
  unfold md_int. destruct (appmd_getters_safe md k) as [[S1 S2] _].
  destruct (appmd_get_int md k) as [v|e|]; cbn [bind]; [apply safe_ok | | congruence].
  split; [discriminate|]. intros X; apply S2; congruence.
Qed.

Ltac md_step k :=
  match goal with |- context [md_int ?md k] =>
    let S1 := fresh "S" in let S2 := fresh "S" in
    destruct (md_int_safe md k) as [S1 S2];
    destruct (md_int md k) as [?|?|]; cbn [bind];
    [ | split; [discriminate | intros X; apply S2; congruence] | congruence ] end.

Theorem tb_open_params_safe fixed md okey oval : safe (tb_open_params fixed md okey oval).
Proof.
  unfold tb_open_params.
  md_step key_VERSION. destruct a as [ver|]; [|serr].
  destruct (_ <? _)%Z; [serr|].
  md_step key_MAX_NODE_SIZE. destruct a as [mns|]; [|serr].
  md_step key_MAX_KEY_SIZE. md_step key_MAX_VALUE_SIZE.
  destruct (fixed && _); [serr|].
  destruct (_ <? _)%Z; [serr|apply safe_ok].
Qed.

(* repaired code: accepted parameters are within the bounds options are validated against, so the
   read buffer made from maxNodeSize cannot panic and is at most 128 MiB *)
Theorem tb_open_params_fixed_bounds md okey oval mns mk mv :
  tb_open_params true md okey oval = Ok (mns, mk, mv) ->
  (0 < mk <= 65535)%Z /\ (0 < mv <= 65535)%Z /\ (0 < mns <= tb_max_node_size)%Z /\
  fst (tb_reader_alloc mns) = Ok tt /\ snd (tb_reader_alloc mns) <= 134217728.
Proof.
  unfold tb_open_params.
  destruct (md_int md key_VERSION) as [[ver|]|?|]; cbn [bind]; try discriminate.
  destruct (_ <? _)%Z; [discriminate|].
  destruct (md_int md key_MAX_NODE_SIZE) as [[m|]|?|]; cbn [bind]; try discriminate.
  destruct (md_int md key_MAX_KEY_SIZE) as [k|?|]; cbn [bind]; try discriminate.
  destruct (md_int md key_MAX_VALUE_SIZE) as [v|?|]; cbn [bind]; try discriminate.
  set (kk := match k with Some x => x | None => okey end).
  set (vv := match v with Some x => x | None => oval end).
  cbn [andb].
  destruct (Z.leb_spec kk 0); cbn [orb]; [discriminate|].
  destruct (Z.ltb_spec 65535 kk); cbn [orb]; [discriminate|].
  destruct (Z.leb_spec vv 0); cbn [orb]; [discriminate|].
  destruct (Z.ltb_spec 65535 vv); cbn [orb]; [discriminate|].
  unfold tb_max_node_size. destruct (Z.ltb_spec 134217728 m); [discriminate|].
  destruct (Z.ltb_spec m (required_node_size kk vv)); [discriminate|].
  intros E. assert (mns = m) by congruence. assert (mk = kk) by congruence. assert (mv = vv) by congruence. subst.
  assert (Hreq : (0 < required_node_size kk vv)%Z).
  { unfold required_node_size. rewrite !wrap64_id by (unfold two63; try rewrite !wrap64_id by (unfold two63; lia); lia).
    destruct (_ <? _)%Z; lia. }
  unfold tb_reader_alloc, ot_makeslice_ok.
  destruct (Z.leb_spec 0 m); [|lia]. destruct (Z.leb_spec m 281474976710656); [|lia].
  cbn [andb negb]. unfold alloc. cbn [fst snd]. repeat split; try lia.
Qed.

(* the code as found takes any 64-bit value: a commit log whose metadata says MAX_NODE_SIZE = 2^40
   opens, and every node read / snapshot then asks for a 1 TiB buffer *)
Definition md_field (k v : bytes) : bytes := be_enc 4 (len k) ++ k ++ be_enc 4 (len v) ++ v.
Definition tb_md_witness : bytes :=
  be_enc 4 4 ++ be_enc 4 2 ++ md_field key_VERSION (be_enc 8 3) ++
  md_field key_MAX_NODE_SIZE (be_enc 8 1099511627776).
Theorem tb_open_params_refuted :
  exists md, tb_open_params false md 32 64 = Ok (1099511627776, 32, 64)%Z /\
             snd (tb_reader_alloc 1099511627776) = 1099511627776.
Proof. exists tb_md_witness. vm_compute. split; reflexivity. Qed.
Example tb_md_witness_fixed : tb_open_params true tb_md_witness 32 64 = Err EOCorrupted.
Proof. vm_compute. reflexivity. Qed.

(* ---------------- timestamp file ---------------- *)
Theorem ts_read_fixed_total b : exists v, ts_read true b = Ok v.
Proof.
  unfold ts_read. cbn [andb]. destruct (N.ltb_spec (len b) 8); [eauto|].
  rewrite uint_ok by (change (N.of_nat 8) with 8; lia). eauto.
Qed.
Theorem ts_read_refuted : exists b, len b < 8 /\ ts_read false b = Panic.
Proof. exists []. vm_compute. split; reflexivity. Qed.

(* ---------------- node parsing ---------------- *)
Lemma rspec_step {A B} E1 E psi phi (m : M A) phi1 Q (f : A -> M B) phi2 R :
  rspec 0 E1 psi m phi1 Q -> psi <= phi -> E1 <= E ->
  (forall a, Q a -> rspec 0 E (phi1 a) (f a) phi2 R) ->
  rspec 0 E phi (mbind m f) phi2 R.
Proof.
  intros H1 Hp HE H2.
  eapply rspec_weaken; [eapply (rspec_bind 0 E1 0 E psi m phi1 Q f phi2 R H1 H2) | lia | lia | lia |].
  intros a Ha; split; [lia|exact Ha].
Qed.

Lemma rspec_alloc_then {A} n X phi E (m : M A) phi' Q :
  X + n <= phi -> rspec 0 E X m phi' Q -> rspec 0 E phi (mbind (alloc n) (fun _ => m)) phi' Q.
Proof.
  intros H1 H2. unfold rspec, mbind, alloc in *. cbn [fst snd].
  destruct m as [r k]. cbn [fst snd] in *. destruct r as [a|e|]; auto.
  - destruct H2; split; [lia|auto].
  - destruct H2; split; [auto|lia].
Qed.

Lemma mul_split C a k : k <= a -> C * (a - k) + C * k = C * a.
Proof. intros H. rewrite <- N.mul_add_distr_l. f_equal. lia. Qed.

Definition nq (s : bytes) (r : bytes) : Prop := bytes_ok r = true /\ len r <= len s.

Lemma bytes_ok_drop n l : bytes_ok l = true -> bytes_ok (drop n l) = true.
Proof. apply bytes_ok_skipn. Qed.
Lemma bytes_ok_take n l : bytes_ok l = true -> bytes_ok (take n l) = true.
Proof. apply bytes_ok_firstn. Qed.

(* Reader.Read of k bytes: success consumes exactly k bytes, which releases C*k of potential *)
Lemma nr_read_spec k s C D :
  bytes_ok s = true ->
  rspec 0 0 (C * len s + D) (nr_read k s)
        (fun r => C * len (snd r) + C * k + D)
        (fun r => nq s (snd r) /\ len (fst r) = k /\ bytes_ok (fst r) = true /\ len (snd r) + k = len s).
Proof.
  intros Hs. unfold nr_read. destruct (N.leb_spec k (len s)).
  - apply rspec_ret; cbn [fst snd]; rewrite ?len_drop, ?len_take.
    + pose proof (mul_split C (len s) k H). lia.
    + unfold nq. rewrite len_drop. repeat split; try lia; auto using bytes_ok_drop, bytes_ok_take.
  - apply rspec_err. discriminate.
Qed.

Lemma pow256 k : 256 ^ N.of_nat k = 256 ^ N.of_nat k. Proof. reflexivity. Qed.

Lemma nr_uint_spec k s C D :
  bytes_ok s = true ->
  rspec 0 0 (C * len s + D) (nr_uint k s)
        (fun r => C * len (snd r) + C * N.of_nat k + D)
        (fun r => nq s (snd r) /\ fst r < 256 ^ N.of_nat k /\ len (snd r) + N.of_nat k = len s).
Proof.
  intros Hs. unfold nr_uint.
  eapply rspec_step; [apply (nr_read_spec (N.of_nat k) s C D Hs) | lia | lia |].
  intros [d s'] (Q1 & Q2 & Q3 & Q4). cbn [fst snd] in *.
  apply rspec_ret; cbn [fst snd]; [lia|]. split; [exact Q1|]. split; [|lia].
  pose proof (be_dec_bound d Q3). rewrite Q2 in H. exact H.
Qed.

Lemma nq_trans a b c : nq a b -> nq b c -> nq a c.
Proof. unfold nq. intros [A1 A2] [B1 B2]. split; [auto|lia]. Qed.
Lemma nq_refl s : bytes_ok s = true -> nq s s.
Proof. unfold nq. intros; split; [auto|lia]. Qed.

(* an allocation of n bytes followed by a read of n bytes: paid by the read when it succeeds,
   bounded by n when it fails *)
Lemma alloc_read_spec n s C D bound :
  bytes_ok s = true -> 1 <= C -> n <= bound ->
  rspec 0 bound (C * len s + D) (dom _ <- alloc n; nr_read n s)
        (fun r => C * len (snd r) + (C - 1) * n + D)
        (fun r => nq s (snd r) /\ len (fst r) = n /\ bytes_ok (fst r) = true /\ len (snd r) + n = len s).
Proof.
  intros Hs HC Hb. unfold nr_read, rspec, mbind, alloc. cbn [fst snd].
  destruct (N.leb_spec n (len s)); unfold mret, merr; cbn [fst snd].
  - rewrite len_drop, len_take. unfold nq. rewrite len_drop.
    pose proof (mul_split C (len s) n H).
    assert ((C - 1) * n + n = C * n).
    { replace n with (1 * n) at 2 by lia. rewrite <- N.mul_add_distr_r. f_equal. lia. }
    split; [lia|]. repeat split; try lia; auto using bytes_ok_drop, bytes_ok_take.
  - split; [discriminate|lia].
Qed.

Lemma mbind_assoc {A B C} (m : M A) (f : A -> M B) (g : B -> M C) :
  mbind (mbind m f) g = mbind m (fun x => mbind (f x) g).
Proof.
  unfold mbind. destruct m as [r n]. cbn [fst snd]. destruct r as [a|e|]; cbn [fst snd]; auto.
  destruct (f a) as [r2 n2]. cbn [fst snd]. destruct r2 as [b|e|]; cbn [fst snd]; auto.
  destruct (g b) as [r3 n3]. cbn [fst snd]. f_equal. lia.
Qed.

Ltac regroup_alloc_read :=
  match goal with
  | |- rspec _ _ _ (mbind (alloc ?n) (fun _ => mbind (nr_read ?n' ?s') ?K)) _ _ =>
      rewrite <- (mbind_assoc (alloc n) (fun _ => nr_read n' s') K)
  end.

Lemma read_noderef_spec s D :
  bytes_ok s = true ->
  rspec 0 65535 (4 * len s + D) (read_noderef s) (fun r => 4 * len (snd r) + D) (fun r => nq s (snd r)).
Proof.
  intros Hs. unfold read_noderef.
  eapply rspec_step; [apply (nr_uint_spec 2 s 4 D Hs) | lia | lia |].
  intros [ksz s1] ([B1 L1] & V1 & E1). cbn [fst snd] in *. change (256 ^ N.of_nat 2) with 65536 in V1.
  regroup_alloc_read.
  eapply rspec_step; [apply (alloc_read_spec ksz s1 4 (4 * N.of_nat 2 + D) 65535 B1); lia | lia | lia |].
  intros [k s2] ([B2 L2] & _ & _ & E2). cbn [fst snd] in *.
  eapply rspec_step; [apply (nr_uint_spec 8 s2 4 ((4 - 1) * ksz + (4 * N.of_nat 2 + D)) B2) | lia | lia |].
  intros [ts s3] ([B3 L3] & _ & E3). cbn [fst snd] in *.
  eapply rspec_step; [apply (nr_uint_spec 8 s3 4 (4 * N.of_nat 8 + ((4 - 1) * ksz + (4 * N.of_nat 2 + D))) B3) | lia | lia |].
  intros [off s4] ([B4 L4] & _ & E4). cbn [fst snd] in *.
  eapply rspec_step; [apply (nr_uint_spec 8 s4 4 (4 * N.of_nat 8 + (4 * N.of_nat 8 + ((4 - 1) * ksz + (4 * N.of_nat 2 + D)))) B4) | lia | lia |].
  intros [moff s5] ([B5 L5] & _ & E5). cbn [fst snd] in *.
  apply (rspec_alloc_then 64 (4 * len s5 + D)); [lia|].
  apply rspec_ret; cbn [snd]; [lia|]. unfold nq. split; [auto|lia].
Qed.

Lemma read_noderefs_spec c : forall s acc D,
  bytes_ok s = true ->
  rspec 0 65535 (4 * len s + D) (read_noderefs c s acc) (fun r => 4 * len (snd r) + D)
        (fun r => nq s (snd r) /\ length (fst r) = (length acc + c)%nat).
Proof.
  induction c as [|c IH]; intros s acc D Hs; cbn [read_noderefs].
  - apply rspec_ret; cbn [fst snd]; [lia|]. split; [apply nq_refl; auto|]. rewrite rev_length. lia.
  - eapply rspec_step; [apply (read_noderef_spec s D Hs) | lia | lia |].
    intros [x s1] Q1. cbn [snd] in *. pose proof Q1 as [B1 _].
    eapply rspec_weaken; [apply (IH s1 (x :: acc) D B1) | lia | lia | lia |].
    intros [l s2] [Q2 L2]. cbn [fst snd] in *. split; [lia|]. split; [eapply nq_trans; eauto|].
    rewrite L2. simpl. lia.
Qed.

Lemma read_leafval_spec s D :
  bytes_ok s = true ->
  rspec 0 65535 (4 * len s + D) (read_leafval s) (fun r => 4 * len (snd r) + D) (fun r => nq s (snd r)).
Proof.
  intros Hs. unfold read_leafval.
  eapply rspec_step; [apply (nr_uint_spec 2 s 4 D Hs) | lia | lia |].
  intros [ksz s1] ([B1 L1] & V1 & E1). cbn [fst snd] in *. change (256 ^ N.of_nat 2) with 65536 in V1.
  regroup_alloc_read.
  eapply rspec_step; [apply (alloc_read_spec ksz s1 4 (4 * N.of_nat 2 + D) 65535 B1); lia | lia | lia |].
  intros [k s2] ([B2 L2] & _ & _ & E2). cbn [fst snd] in *.
  eapply rspec_step; [apply (nr_uint_spec 2 s2 4 ((4 - 1) * ksz + (4 * N.of_nat 2 + D)) B2) | lia | lia |].
  intros [vsz s3] ([B3 L3] & V3 & E3). cbn [fst snd] in *. change (256 ^ N.of_nat 2) with 65536 in V3.
  regroup_alloc_read.
  eapply rspec_step; [apply (alloc_read_spec vsz s3 4 (4 * N.of_nat 2 + ((4 - 1) * ksz + (4 * N.of_nat 2 + D))) 65535 B3); lia | lia | lia |].
  intros [v s4] ([B4 L4] & _ & _ & E4). cbn [fst snd] in *.
  set (D4 := (4 - 1) * vsz + (4 * N.of_nat 2 + ((4 - 1) * ksz + (4 * N.of_nat 2 + D)))).
  eapply rspec_step; [apply (nr_uint_spec 8 s4 4 D4 B4) | lia | lia |].
  intros [ts s5] ([B5 L5] & _ & E5). cbn [fst snd] in *.
  eapply rspec_step; [apply (nr_uint_spec 8 s5 4 (4 * N.of_nat 8 + D4) B5) | lia | lia |].
  intros [hoff s6] ([B6 L6] & _ & E6). cbn [fst snd] in *.
  eapply rspec_step; [apply (nr_uint_spec 8 s6 4 (4 * N.of_nat 8 + (4 * N.of_nat 8 + D4)) B6) | lia | lia |].
  intros [hc s7] ([B7 L7] & _ & E7). cbn [fst snd] in *.
  apply (rspec_alloc_then 96 (4 * len s7 + D)); [unfold D4; lia|].
  apply rspec_ret; cbn [snd]; [lia|]. unfold nq. split; [auto|lia].
Qed.

Lemma read_leafvals_spec c : forall s acc D,
  bytes_ok s = true ->
  rspec 0 65535 (4 * len s + D) (read_leafvals c s acc) (fun r => 4 * len (snd r) + D)
        (fun r => nq s (snd r)).
Proof.
  induction c as [|c IH]; intros s acc D Hs; cbn [read_leafvals].
  - apply rspec_ret; cbn [fst snd]; [lia|]. apply nq_refl; auto.
  - eapply rspec_step; [apply (read_leafval_spec s D Hs) | lia | lia |].
    intros [x s1] Q1. cbn [snd] in *. pose proof Q1 as [B1 _].
    eapply rspec_weaken; [apply (IH s1 (x :: acc) D B1) | lia | lia | lia |].
    intros [l s2] Q2. cbn [fst snd] in *. split; [lia|]. eapply nq_trans; eauto.
Qed.

(* readNodeAt: for every content of the nodes log, a node or an error; memory: the children / values
   array (count field: at most 65535 entries), one key or value buffer whose bytes do not arrive
   (at most 65535), and otherwise 4 bytes per byte of the node *)
Definition node_bound (L : N) : N := 4 * L + 16 * 65535 + 64 + 65535.

Lemma read_node_spec fixed s :
  bytes_ok s = true ->
  rspec 0 65535 (4 * len s + 16 * 65535 + 64) (read_node fixed s) (fun _ => 0)
        (fun n => fixed = true -> n <> NInner []).
Proof.
  intros Hs. unfold read_node.
  eapply rspec_step; [apply (nr_uint_spec 1 s 4 (16 * 65535 + 64) Hs) | lia | lia |].
  intros [ty s1] ([B1 L1] & _ & E1). cbn [fst snd] in *.
  destruct (ty =? 0).
  { eapply rspec_step; [apply (nr_uint_spec 2 s1 4 (4 * N.of_nat 1 + (16 * 65535 + 64)) B1) | lia | lia |].
    intros [cc s2] ([B2 L2] & V2 & E2). cbn [fst snd] in *. change (256 ^ N.of_nat 2) with 65536 in V2.
    destruct (fixed && (cc =? 0)) eqn:Ef; [apply rspec_err; discriminate|].
    apply (rspec_alloc_then (16 * cc + 64) (4 * len s2)); [lia|].
    eapply rspec_step; [apply (read_noderefs_spec (N.to_nat cc) s2 [] 0 B2) | lia | lia |].
    intros [refs s3] [_ Hl]. cbn [fst snd] in *.
    apply rspec_ret; [lia|]. intros ->. cbn [andb] in Ef. apply N.eqb_neq in Ef.
    intros X. injection X as ->. simpl in Hl. lia. }
  destruct (ty =? 1).
  { eapply rspec_step; [apply (nr_uint_spec 2 s1 4 (4 * N.of_nat 1 + (16 * 65535 + 64)) B1) | lia | lia |].
    intros [vc s2] ([B2 L2] & V2 & E2). cbn [fst snd] in *. change (256 ^ N.of_nat 2) with 65536 in V2.
    apply (rspec_alloc_then (8 * vc + 64) (4 * len s2)); [lia|].
    eapply rspec_step; [apply (read_leafvals_spec (N.to_nat vc) s2 [] 0 B2) | lia | lia |].
    intros [vals s3] _. apply rspec_ret; [lia|]. intros _; discriminate. }
  apply rspec_err; discriminate.
Qed.

Theorem read_node_total fixed s :
  bytes_ok s = true ->
  (fst (read_node fixed s) <> Panic /\ fst (read_node fixed s) <> Err EFuel) /\
  snd (read_node fixed s) <= node_bound (len s) /\
  (fixed = true -> fst (read_node fixed s) <> Ok (NInner [])).
Proof.
  intros Hs. pose proof (read_node_spec fixed s Hs) as H. split; [|split].
  - eapply rspec_safe; exact H.
  - apply rspec_alloc_bound in H. unfold node_bound. lia.
  - intros Hf X. unfold rspec in H. rewrite X in H. destruct H as [_ H]. apply (H Hf). reflexivity.
Qed.

(* the code as found accepts an inner node without children; every look-up then indexes nodes[0] *)
Theorem read_node_refuted : fst (read_node false [0; 0; 0]) = Ok (NInner []).
Proof. vm_compute. reflexivity. Qed.

(* ---------------- ahtree ---------------- *)
(* repaired OpenWith: no panic, and an accepted last entry puts the payload-log size inside the
   payload log *)
Theorem ah_open_fixed_total clog_size entry pf df :
  12 <= len entry -> (0 <= pf)%Z ->
  safe (ah_open true clog_size entry pf df) /\
  (forall p d, ah_open true clog_size entry pf df = Ok (p, d) -> (0 <= p <= pf)%Z).
Proof.
  intros Hl Hpf. unfold ah_open.
  rewrite from_ok by lia. cbn [bind].
  rewrite uint_ok by (rewrite ?len_drop; change (N.of_nat 8) with 8; lia). cbn [bind].
  rewrite from_ok by lia. cbn [bind].
  rewrite uint_ok by (rewrite ?len_drop; change (N.of_nat 4) with 4; lia). cbn [bind].
  set (poff := be_dec (firstn 8 (drop 0 entry)) mod 18446744073709551616).
  set (psize := be_dec (firstn 4 (drop 8 entry)) mod 4294967296).
  destruct ((Z.of_N poff >? pf)%Z || (Z.of_N (4 + psize) >? pf - Z.of_N poff)%Z) eqn:E; cbn [bind].
  { split; [serr|]. intros; discriminate. }
  apply orb_false_elim in E as [E1 E2].
  assert (Z.of_N poff <= pf)%Z by (destruct (Z.gtb_spec (Z.of_N poff) pf); [discriminate|lia]).
  assert (Z.of_N (4 + psize) <= pf - Z.of_N poff)%Z
    by (destruct (Z.gtb_spec (Z.of_N (4 + psize)) (pf - Z.of_N poff)); [discriminate|lia]).
  destruct (_ <? _)%Z.
  { split; [serr|]. intros; discriminate. }
  split; [apply safe_ok|]. intros p d Ep. assert (p = (Z.of_N poff + 4 + Z.of_N psize)%Z) by congruence. lia.
Qed.

(* the code as found: pOff = 2^63-1, pSize = 9 wrap around to a negative payload-log size, which
   passes "pLogFileSize < pLogSize"; the next Append seeks to that offset *)
Definition ah_entry_witness : bytes := be_enc 8 9223372036854775807 ++ be_enc 4 9.
Theorem ah_open_refuted :
  exists p d, ah_open false 36 ah_entry_witness 24 1048576 = Ok (p, d) /\ (p < 0)%Z.
Proof. eexists _, _. vm_compute. split; reflexivity. Qed.
Example ah_entry_witness_fixed : ah_open true 36 ah_entry_witness 24 1048576 = Err EOCorrupted.
Proof. vm_compute. reflexivity. Qed.

(* DataAt, repaired: the payload buffer is at most as large as the payload log *)
Theorem ah_data_at_fixed_total plog entry :
  12 <= len entry -> (0 <= plog)%Z ->
  (fst (ah_data_at true plog entry) <> Panic /\ fst (ah_data_at true plog entry) <> Err EFuel) /\
  snd (ah_data_at true plog entry) <= Z.to_N plog.
Proof.
  intros Hl Hp. unfold ah_data_at, mbind, lift. cbn [fst snd].
  rewrite from_ok by lia. cbn [fst snd].
  rewrite uint_ok by (rewrite ?len_drop; change (N.of_nat 8) with 8; lia). cbn [fst snd].
  rewrite from_ok by lia. cbn [fst snd].
  rewrite uint_ok by (rewrite ?len_drop; change (N.of_nat 4) with 4; lia). cbn [fst snd].
  set (poff := be_dec (firstn 8 (drop 0 entry)) mod 18446744073709551616).
  set (psize := be_dec (firstn 4 (drop 8 entry)) mod 4294967296).
  cbn [andb].
  destruct ((Z.of_N poff >? plog)%Z || (Z.of_N (4 + psize) >? plog - Z.of_N poff)%Z) eqn:E.
  { unfold merr. cbn [fst snd]. repeat split; try discriminate; lia. }
  apply orb_false_elim in E as [E1 E2].
  assert (Z.of_N (4 + psize) <= plog - Z.of_N poff)%Z
    by (destruct (Z.gtb_spec (Z.of_N (4 + psize)) (plog - Z.of_N poff)); [discriminate|lia]).
  unfold alloc. cbn [fst snd]. repeat split; try discriminate; lia.
Qed.

(* as found: the 32-bit size field of any commit-log entry is allocated as it is *)
Theorem ah_data_at_refuted :
  exists entry, len entry = 12 /\ snd (ah_data_at false 64 entry) = 268435456.
Proof. exists (be_enc 8 0 ++ be_enc 4 268435456). vm_compute. split; reflexivity. Qed.
