(* Protocol conversions of pkg/api/schema/database_protoconv.go, transliterated:
     TxMetadataToProto / TxMetadataFromProto
     KVMetadataToProto / KVMetadataFromProto
     TxHeaderToProto   / TxHeaderFromProto       (with DigestFromProto)
     TxEntryToProto    / the per-entry part of TxFromProto
   The protobuf messages are modelled as records of their Go fields (what the generated structs
   hold); the wire (proto.Marshal/Unmarshal) is the protobuf library and is NOT modelled: proto3
   drops zero scalars and empty byte strings, which is exactly the identification the records below
   make (a uint64 0, an empty []byte and a nil []byte are one value; a nil message pointer is None).
   Go integer conversions are written out: int32(x) keeps the low 32 bits, int(int32) sign-extends;
   an int / int64 is represented by its 64-bit two's-complement pattern, as everywhere in Store/Codec. *)
From V Require Export Store.Codec.

(* schema.TxMetadata{TruncatedTxID uint64; Extra []byte} *)
Record p_txmd := { pt_trunc : N; pt_extra : bytes }.
(* schema.KVMetadata{Deleted bool; Expiration *Expiration{ExpiresAt int64}; NonIndexable bool} *)
Record p_kvmd := { pk_deleted : bool; pk_exp : option N; pk_nonidx : bool }.
(* schema.TxHeader: Version and Nentries are int32 (kept as their 32-bit patterns) *)
Record p_hdr := {
  ph_id : N; ph_prevalh : bytes; ph_ts : N; ph_version : N; ph_md : option p_txmd;
  ph_nentries : N; ph_eh : bytes; ph_bltxid : N; ph_blroot : bytes }.
(* schema.TxEntry{Key; Metadata; HValue; VLen int32} *)
Record p_entry := { pe_key : bytes; pe_md : option p_kvmd; pe_hvalue : bytes; pe_vlen : N }.
(* store.TxEntry as far as the conversion sees it: key, metadata, value length (int), value hash *)
Record s_entry := { se_key : bytes; se_md : option kvmd; se_vlen : N; se_hval : bytes }.

Definition two31 : N := 2147483648.
Definition two32 : N := 4294967296.
Definition two64 : N := 18446744073709551616.
(* int32(x) for an int given as its 64-bit pattern *)
Definition to_i32 (v : N) : N := v mod two32.
(* int(x) for an int32 given as its 32-bit pattern: sign extension to the 64-bit pattern *)
Definition of_i32 (v : N) : N := if v <? two31 then v else v + (two64 - two32).

(* TxMetadataToProto: GetTruncatedTxID only when present; Extra() is nil when absent *)
Definition txmd_to_proto (m : txmd) : p_txmd :=
  {| pt_trunc := match md_trunc m with Some t => t | None => 0 end;
     pt_extra := match md_extra m with Some e => e | None => [] end |}.

(* TxMetadataFromProto: `if md.TruncatedTxID > 0`; WithExtra deletes the attribute for len 0 and
   returns an error (which the conversion drops) above maxExtraLen, leaving the attribute absent *)
Definition txmd_from_proto (p : p_txmd) : txmd :=
  {| md_trunc := if 0 <? pt_trunc p then Some (pt_trunc p) else None;
     md_extra := if (len (pt_extra p) =? 0) || (st_maxExtraLen <? len (pt_extra p)) then None
                 else Some (pt_extra p) |}.

Definition otxmd_to_proto (m : option txmd) : option p_txmd := option_map txmd_to_proto m.
Definition otxmd_from_proto (p : option p_txmd) : option txmd := option_map txmd_from_proto p.

(* KVMetadataToProto / FromProto: expTime.Unix() and time.Unix(x, 0) are inverse on the 64-bit
   pattern (wrapping int64 arithmetic), which is all KVMetadata.Bytes ever looks at *)
Definition kvmd_to_proto (m : kvmd) : p_kvmd :=
  {| pk_deleted := kv_deleted m; pk_exp := kv_expires m; pk_nonidx := kv_nonindexable m |}.
Definition kvmd_from_proto (p : p_kvmd) : kvmd :=
  {| kv_deleted := pk_deleted p; kv_expires := pk_exp p; kv_nonindexable := pk_nonidx p |}.
Definition okvmd_to_proto (m : option kvmd) : option p_kvmd := option_map kvmd_to_proto m.
Definition okvmd_from_proto (p : option p_kvmd) : option kvmd := option_map kvmd_from_proto p.

(* DigestFromProto: copy into a zeroed [32]byte — short input is zero-padded, long input cut *)
Definition digest_from_proto (b : bytes) : bytes := take hsize (b ++ repeat 0 32).

Definition txhdr_to_proto (h : txhdr) : p_hdr :=
  {| ph_id := h_id h; ph_prevalh := h_prevalh h; ph_ts := h_ts h;
     ph_version := to_i32 (h_version h); ph_md := otxmd_to_proto (h_md h);
     ph_nentries := to_i32 (h_nentries h); ph_eh := h_eh h; ph_bltxid := h_bltxid h;
     ph_blroot := h_blroot h |}.

Definition txhdr_from_proto (p : p_hdr) : txhdr :=
  {| h_id := ph_id p; h_prevalh := digest_from_proto (ph_prevalh p); h_ts := ph_ts p;
     h_version := of_i32 (ph_version p); h_md := otxmd_from_proto (ph_md p);
     h_nentries := of_i32 (ph_nentries p); h_eh := digest_from_proto (ph_eh p);
     h_bltxid := ph_bltxid p; h_blroot := digest_from_proto (ph_blroot p) |}.

(* TxEntryToProto, and store.NewTxEntry(e.Key, KVMetadataFromProto(e.Metadata), int(e.VLen),
   DigestFromProto(e.HValue), 0) of TxFromProto *)
Definition entry_to_proto (e : s_entry) : p_entry :=
  {| pe_key := se_key e; pe_md := okvmd_to_proto (se_md e); pe_hvalue := se_hval e;
     pe_vlen := to_i32 (se_vlen e) |}.
Definition entry_from_proto (p : p_entry) : s_entry :=
  {| se_key := pe_key p; se_md := okvmd_from_proto (pe_md p); se_vlen := of_i32 (pe_vlen p);
     se_hval := digest_from_proto (pe_hvalue p) |}.

(* ---- the domain on which the conversions are claimed to be lossless ---- *)
(* what a TxMetadata built through its setters can hold (WithExtra never stores an empty or an
   over-long payload) with a truncation id >= 1 (TruncateUptoTx needs a committed id); ReadFrom of
   foreign bytes can produce the two degenerate attributes excluded here — see the _refuted lemmas *)
Definition txmd_proto_ok (m : txmd) : bool :=
  (match md_trunc m with Some t => 0 <? t | None => true end) &&
  (match md_extra m with Some e => (1 <=? len e) && (len e <=? st_maxExtraLen) | None => true end).
Definition otxmd_proto_ok (m : option txmd) : bool :=
  match m with Some m' => txmd_proto_ok m' | None => true end.
Definition digest_ok (b : bytes) : bool := len b =? hsize.
Definition txhdr_proto_ok (h : txhdr) : bool :=
  digest_ok (h_prevalh h) && digest_ok (h_eh h) && digest_ok (h_blroot h) &&
  (h_version h <? two31) && (h_nentries h <? two31) && otxmd_proto_ok (h_md h).
Definition entry_proto_ok (e : s_entry) : bool := digest_ok (se_hval e) && (se_vlen e <? two31).

(* DigestsFromProto (terms of linear / dual / inclusion proofs): element-wise copy into [32]byte;
   DigestsToProto copies every array into a fresh 32-byte slice (the identity on the model) *)
Definition digests_to_proto (l : list bytes) : list bytes := l.
Definition digests_from_proto (l : list bytes) : list bytes := map digest_from_proto l.
