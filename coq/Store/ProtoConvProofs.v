(* Round-trip theorems for the protocol conversions of Store/ProtoConv.v *)
From V Require Import Store.ProtoConv.
From Coq Require Import Lia ZifyN ZifyNat ZifyBool.

Lemma i32_roundtrip v : v < two31 -> of_i32 (to_i32 v) = v.
Proof.
  intros Hv. unfold of_i32, to_i32.
  assert (Hm : v mod two32 = v) by (apply N.mod_small; unfold two31, two32 in *; lia).
  rewrite Hm. destruct (v <? two31) eqn:E; [reflexivity|].
  apply N.ltb_ge in E. lia.
Qed.

(* the low 32 bits always survive: what the conversion loses is exactly the high half *)
Lemma i32_roundtrip_low v : v < two64 -> to_i32 (of_i32 (to_i32 v)) = to_i32 v.
Proof.
  intros _. unfold of_i32, to_i32.
  assert (Hlt : v mod two32 < two32) by (apply N.mod_lt; discriminate).
  destruct (v mod two32 <? two31) eqn:E.
  - apply N.mod_small. exact Hlt.
  - change (two64 - two32) with (4294967295 * two32).
    rewrite N.mod_add by discriminate. apply N.mod_small. exact Hlt.
Qed.

Lemma len_repeat (x : N) n : len (repeat x n) = N.of_nat n.
Proof. unfold len. rewrite repeat_length. reflexivity. Qed.

Lemma digest_from_proto_len b : len (digest_from_proto b) = hsize.
Proof.
  unfold digest_from_proto. rewrite len_take, len_app, len_repeat. unfold hsize. lia.
Qed.

Lemma digest_from_proto_id b : digest_ok b = true -> digest_from_proto b = b.
Proof.
  unfold digest_ok, digest_from_proto. intros H. apply N.eqb_eq in H.
  rewrite <- H. apply take_app_exact.
Qed.

(* a short digest is zero-padded, a long one cut: the first 32 bytes decide *)
Lemma digest_from_proto_prefix b c :
  len b = hsize -> digest_from_proto (b ++ c) = b.
Proof.
  intros H. unfold digest_from_proto. rewrite <- app_assoc, <- H. apply take_app_exact.
Qed.

Lemma txmd_proto_roundtrip m :
  txmd_proto_ok m = true -> txmd_from_proto (txmd_to_proto m) = m.
Proof.
  destruct m as [tr ex]. unfold txmd_proto_ok, txmd_from_proto, txmd_to_proto. cbn [md_trunc md_extra pt_trunc pt_extra].
  intros H. apply andb_prop in H. destruct H as [Ht He]. f_equal.
  - destruct tr as [t|]; [rewrite Ht; reflexivity | reflexivity].
  - destruct ex as [e|]; [|reflexivity].
    apply andb_prop in He. destruct He as [H1 H2].
    apply N.leb_le in H1. apply N.leb_le in H2.
    destruct (len e =? 0) eqn:E0; [apply N.eqb_eq in E0; lia|].
    destruct (st_maxExtraLen <? len e) eqn:E1; [apply N.ltb_lt in E1; lia|].
    reflexivity.
Qed.

(* the other direction: every message whose extra payload is within the limit is the image of the
   store value it converts to (so the two representations are in bijection on the valid domain) *)
Lemma txmd_proto_roundtrip_rev p :
  len (pt_extra p) <=? st_maxExtraLen = true -> txmd_to_proto (txmd_from_proto p) = p.
Proof.
  destruct p as [t e]. unfold txmd_from_proto, txmd_to_proto. cbn [md_trunc md_extra pt_trunc pt_extra].
  intros H. apply N.leb_le in H. f_equal.
  - destruct (0 <? t) eqn:E; [reflexivity|]. apply N.ltb_ge in E. lia.
  - destruct (len e =? 0) eqn:E0.
    + cbn [orb]. apply N.eqb_eq in E0. destruct e; [reflexivity|]. unfold len in E0. cbn in E0. lia.
    + destruct (st_maxExtraLen <? len e) eqn:E1; [apply N.ltb_lt in E1; lia|]. reflexivity.
Qed.

Lemma from_proto_always_valid p :
  txmd_proto_ok (txmd_from_proto p) = true.
Proof.
  destruct p as [t e]. unfold txmd_proto_ok, txmd_from_proto. cbn [md_trunc md_extra pt_trunc pt_extra].
  apply andb_true_intro; split.
  - destruct (0 <? t) eqn:E; [exact E | reflexivity].
  - destruct (len e =? 0) eqn:E0; cbn [orb]; [reflexivity|].
    destruct (st_maxExtraLen <? len e) eqn:E1; [reflexivity|].
    apply N.eqb_neq in E0. apply N.ltb_ge in E1.
    apply andb_true_intro; split; [apply N.leb_le; lia | apply N.leb_le; exact E1].
Qed.

Lemma kvmd_proto_roundtrip m : kvmd_from_proto (kvmd_to_proto m) = m.
Proof. destruct m; reflexivity. Qed.
Lemma kvmd_proto_roundtrip_rev p : kvmd_to_proto (kvmd_from_proto p) = p.
Proof. destruct p; reflexivity. Qed.
Lemma okvmd_proto_roundtrip m : okvmd_from_proto (okvmd_to_proto m) = m.
Proof. destruct m as [m|]; [cbn; rewrite kvmd_proto_roundtrip; reflexivity | reflexivity]. Qed.

Lemma otxmd_proto_roundtrip m :
  otxmd_proto_ok m = true -> otxmd_from_proto (otxmd_to_proto m) = m.
Proof.
  destruct m as [m|]; [|reflexivity]. cbn. intros H. rewrite txmd_proto_roundtrip by exact H. reflexivity.
Qed.

Lemma txhdr_proto_roundtrip h :
  txhdr_proto_ok h = true -> txhdr_from_proto (txhdr_to_proto h) = h.
Proof.
  destruct h as [id pa ts ver md ne eh bl br].
  unfold txhdr_proto_ok, txhdr_from_proto, txhdr_to_proto.
  cbn [h_id h_prevalh h_ts h_version h_md h_nentries h_eh h_bltxid h_blroot
       ph_id ph_prevalh ph_ts ph_version ph_md ph_nentries ph_eh ph_bltxid ph_blroot].
  intros H.
  repeat match type of H with _ && _ = true => apply andb_prop in H; destruct H as [H ?H] end.
  match goal with Hm : otxmd_proto_ok _ = true |- _ => rewrite (otxmd_proto_roundtrip _ Hm) end.
  repeat match goal with Hd : digest_ok ?b = true |- _ => rewrite (digest_from_proto_id _ Hd); clear Hd end.
  repeat match goal with Hv : (?v <? two31) = true |- _ =>
    apply N.ltb_lt in Hv; rewrite (i32_roundtrip _ Hv); clear Hv end.
  reflexivity.
Qed.

Lemma entry_proto_roundtrip e :
  entry_proto_ok e = true -> entry_from_proto (entry_to_proto e) = e.
Proof.
  destruct e as [k md vl hv]. unfold entry_proto_ok, entry_from_proto, entry_to_proto.
  cbn [se_key se_md se_vlen se_hval pe_key pe_md pe_hvalue pe_vlen].
  intros H. apply andb_prop in H. destruct H as [Hd Hv].
  rewrite okvmd_proto_roundtrip, (digest_from_proto_id _ Hd).
  apply N.ltb_lt in Hv. rewrite (i32_roundtrip _ Hv). reflexivity.
Qed.

(* consequences: the conversion is injective on its domain, and the serialisation (hence the Alh a
   client recomputes from the converted header) is the one the server hashed *)
Lemma txhdr_to_proto_inj h1 h2 :
  txhdr_proto_ok h1 = true -> txhdr_proto_ok h2 = true ->
  txhdr_to_proto h1 = txhdr_to_proto h2 -> h1 = h2.
Proof.
  intros H1 H2 E. rewrite <- (txhdr_proto_roundtrip h1 H1), <- (txhdr_proto_roundtrip h2 H2), E. reflexivity.
Qed.

Lemma txhdr_proto_same_bytes h :
  txhdr_proto_ok h = true -> txhdr_bytes (txhdr_from_proto (txhdr_to_proto h)) = txhdr_bytes h.
Proof. intros H. rewrite txhdr_proto_roundtrip by exact H. reflexivity. Qed.

(* every header the byte decoder returns is in the lossless domain as far as digests and counters
   go; what remains is the metadata guard (see below) *)

(* ---- outside the domain: the two degenerate metadata attributes ---- *)
(* TxMetadata.ReadFrom accepts a truncation attribute holding id 0 and an extra attribute with an
   empty payload; both are lost by the conversion (0 and empty mean "absent" in the message) *)
Definition degenerate_trunc_bytes : bytes := st_truncatedUptoTxAttrCode :: repeat 0 8.
Definition degenerate_extra_bytes : bytes := [st_extraAttrCode; 0; 0].

Lemma txmd_proto_roundtrip_refuted_trunc0 :
  exists m, txmd_read degenerate_trunc_bytes = Ok m /\
            txmd_from_proto (txmd_to_proto m) <> m /\
            txmd_bytes (txmd_from_proto (txmd_to_proto m)) <> txmd_bytes m.
Proof.
  exists {| md_trunc := Some 0; md_extra := None |}.
  split; [vm_compute; reflexivity|]. split; vm_compute; discriminate.
Qed.

Lemma txmd_proto_roundtrip_refuted_extra_empty :
  exists m, txmd_read degenerate_extra_bytes = Ok m /\
            txmd_from_proto (txmd_to_proto m) <> m /\
            txmd_bytes (txmd_from_proto (txmd_to_proto m)) <> txmd_bytes m.
Proof.
  exists {| md_trunc := None; md_extra := Some [] |}.
  split; [vm_compute; reflexivity|]. split; vm_compute; discriminate.
Qed.

(* non-vacuity: a header with metadata, 70000 entries and version 1 is in the domain *)
Example txhdr_proto_ok_example :
  txhdr_proto_ok {| h_id := 9; h_prevalh := repeat 1 32; h_ts := 5; h_version := 1;
                    h_md := Some {| md_trunc := Some 4; md_extra := Some [1; 2] |};
                    h_nentries := 70000; h_eh := repeat 2 32; h_bltxid := 8;
                    h_blroot := repeat 3 32 |} = true.
Proof. vm_compute. reflexivity. Qed.

(* proof terms: every list of 32-byte digests survives DigestsToProto / DigestsFromProto; whatever
   arrives, the result has as many terms as the message and each is 32 bytes long *)
Lemma digests_proto_roundtrip l :
  forallb digest_ok l = true -> digests_from_proto (digests_to_proto l) = l.
Proof.
  unfold digests_from_proto, digests_to_proto.
  induction l as [|d l IH]; cbn [map forallb]; intros H; [reflexivity|].
  apply andb_prop in H. destruct H as [Hd Hl].
  rewrite (digest_from_proto_id _ Hd), (IH Hl). reflexivity.
Qed.

Lemma digests_from_proto_shape l :
  length (digests_from_proto l) = length l /\ forallb digest_ok (digests_from_proto l) = true.
Proof.
  unfold digests_from_proto. split; [apply map_length|].
  induction l as [|d l IH]; cbn [map forallb]; [reflexivity|].
  rewrite IH, Bool.andb_true_r. unfold digest_ok. rewrite digest_from_proto_len. apply N.eqb_refl.
Qed.
