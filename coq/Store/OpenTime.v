(* Open-time parsing of the index and of the binary-linking tree, as far as it is arithmetic on
   bytes read from disk (sizes and offsets used for slicing, seeking and allocation):
     embedded/tbtree/tbtree.go   cLogEntry.deserialize / isValid, the Checksum ranges handed to
                                 io.SectionReader, the root offset, the parameters read from the
                                 commit-log metadata (reader / snapshot buffer sizes), readTsFile,
                                 readNodeFrom / readInnerNodeFrom / readNodeRefFrom / readLeafNodeFrom
                                 over appendable.Reader
     embedded/ahtree/ahtree.go   OpenWith: commit-log entry -> pLogSize / dLogSize, nodesUpto;
                                 DataAt: payload buffer size
   int64 / uint32 arithmetic wraps around as in Go. `fixed` selects the code after
   fixes/C16-tbtree-open-validation.diff and fixes/C16-ahtree-clog-entry-bounds.diff. *)
From V Require Export Wire.Alloc Store.Codec Store.AppMeta.

Definition EOEOF : N := 30.          (* io.EOF / io.ErrUnexpectedEOF from a reader *)
Definition EOCorrupted : N := 31.
Definition EOIllegal : N := 32.
Definition EOIncompatible : N := 33.
Definition EONegOffset : N := 34.    (* error of ReadAt for a negative offset *)

Definition two63 : Z := 9223372036854775808%Z.
Definition two64 : Z := 18446744073709551616%Z.
Definition maxint64 : Z := 9223372036854775807%Z.
(* result of an int64 operation *)
Definition wrap64 (z : Z) : Z := ((z + two63) mod two64 - two63)%Z.
(* int64(u) for a uint64 u *)
Definition i64 (v : N) : Z := wrap64 (Z.of_N v).

(* ------------------------------------------------------------------ *)
(* tbtree commit-log entry: 8 + 8 + 4 + 32 + 8 + 8 + 32 = 100 bytes *)
Definition tb_clog_entry_size : N := 100.

Record clog_entry := {
  ce_synced : bool; ce_inl : Z; ce_fnl : Z; ce_root : Z; ce_nck : bytes;
  ce_ihl : Z; ce_fhl : Z; ce_hck : bytes }.

(* cLogEntry.deserialize(b): b[0]&0x80, b[0] &= 0x7F, Uint64(b[i:]) ..., copy(e.nLogChecksum[:], b[i:]) *)
Definition clog_deser (b : bytes) : res clog_entry :=
  do b0 <- at_ b 0;
  let synced := (b0 mod 256) <? 128 in
  do rest <- from_ b 1;
  let b := (b0 mod 128) :: rest in
  do s <- from_ b 0; do vinl <- uint_ 8 s;
  do s <- from_ b 8; do vfnl <- uint_ 8 s;
  do s <- from_ b 16; do root <- uint_ 4 s;
  do s <- from_ b 20; let nck := take 32 (s ++ repeat 0 32) in
  do s <- from_ b 52; do vihl <- uint_ 8 s;
  do s <- from_ b 60; do vfhl <- uint_ 8 s;
  do s <- from_ b 68; let hck := take 32 (s ++ repeat 0 32) in
  Ok {| ce_synced := synced; ce_inl := i64 vinl; ce_fnl := i64 vfnl; ce_root := Z.of_N (root mod 4294967296);
        ce_nck := nck; ce_ihl := i64 vihl; ce_fhl := i64 vfhl; ce_hck := hck |}.

Definition clog_valid (fixed : bool) (e : clog_entry) : bool :=
  (if fixed then (0 <=? ce_inl e)%Z && (0 <=? ce_ihl e)%Z else true) &&
  (ce_inl e <=? ce_fnl e)%Z && (0 <? ce_root e)%Z && (ce_root e <=? ce_fnl e)%Z &&
  (ce_ihl e <=? ce_fhl e)%Z.

(* appendable.Checksum(rAt, off, n): io.NewSectionReader(rAt, off, n) and the first Read of io.Copy
   with a buffer of plen bytes (later reads only move s.off towards s.limit).
     remaining = n + off  if off <= maxint64 - n  (int64 arithmetic), else maxint64
     Read: if s.off >= s.limit -> EOF; if max := s.limit - s.off; len(p) > max { p = p[0:max] }
   ReadAt at a negative offset returns an error. *)
Definition section_first_read (off n plen : Z) : res unit :=
  let limit := if (off <=? wrap64 (maxint64 - n))%Z then wrap64 (n + off) else maxint64 in
  if (limit <=? off)%Z then Ok tt else
  let mx := wrap64 (limit - off) in
  if (mx <? plen)%Z then
    if (mx <? 0)%Z then Panic                     (* p[0:max] with max < 0 *)
    else if (off <? 0)%Z then Err EONegOffset else Ok tt
  else if (off <? 0)%Z then Err EONegOffset else Ok tt.

(* what OpenWith does with one commit-log entry before any file content is looked at:
   deserialize, isValid, the two Checksum calls, the offset of the root node.
   Ok None = entry discarded; Ok (Some root_offset). *)
Definition tb_entry_check (fixed : bool) (b : bytes) : res (option Z) :=
  do e <- clog_deser b;
  if negb (clog_valid fixed e) then Ok None else
  do _ <- section_first_read (ce_inl e) (wrap64 (ce_fnl e - ce_inl e)) 32768;
  do _ <- section_first_read (ce_ihl e) (wrap64 (ce_fhl e - ce_ihl e)) 32768;
  Ok (Some (wrap64 (ce_fnl e - ce_root e))).

(* ------------------------------------------------------------------ *)
(* parameters read from the commit-log metadata; Metadata.GetInt = int(binary.BigEndian.Uint64) *)
Definition key_VERSION : bytes := [86; 69; 82; 83; 73; 79; 78].
Definition key_MAX_NODE_SIZE : bytes := [77; 65; 88; 95; 78; 79; 68; 69; 95; 83; 73; 90; 69].
Definition key_MAX_KEY_SIZE : bytes := [77; 65; 88; 95; 75; 69; 89; 95; 83; 73; 90; 69].
Definition key_MAX_VALUE_SIZE : bytes := [77; 65; 88; 95; 86; 65; 76; 85; 69; 95; 83; 73; 90; 69].
Definition tb_version : Z := 3.
Definition tb_max_node_size : Z := 134217728.     (* MaxNodeSize = 1 << 27 (repaired code) *)

Definition md_int (md k : bytes) : res (option Z) :=
  do v <- appmd_get_int md k;
  Ok (match v with Some x => Some (i64 x) | None => None end).

(* requiredNodeSize, int arithmetic *)
Definition required_node_size (k v : Z) : Z :=
  let inner := wrap64 (2 * wrap64 (29 + k)) in
  let leaf := wrap64 (wrap64 (31 + k) + v) in
  if (inner <? leaf)%Z then leaf else inner.

(* OpenWith: (maxNodeSize, maxKeySize, maxValueSize) *)
Definition tb_open_params (fixed : bool) (md : bytes) (okey oval : Z) : res (Z * Z * Z) :=
  do ver <- md_int md key_VERSION;
  match ver with
  | None => Err EOCorrupted
  | Some ver =>
    if (ver <? tb_version)%Z then Err EOIncompatible else
    do mns <- md_int md key_MAX_NODE_SIZE;
    match mns with
    | None => Err EOCorrupted
    | Some mns =>
      do mk <- md_int md key_MAX_KEY_SIZE;
      let mk := match mk with Some x => x | None => okey end in
      do mv <- md_int md key_MAX_VALUE_SIZE;
      let mv := match mv with Some x => x | None => oval end in
      if fixed && ((mk <=? 0)%Z || (65535 <? mk)%Z || (mv <=? 0)%Z || (65535 <? mv)%Z || (tb_max_node_size <? mns)%Z)
      then Err EOCorrupted else
      if (mns <? required_node_size mk mv)%Z then Err EOIllegal else
      Ok (mns, mk, mv)
    end
  end.

(* runtime.makeslice for a byte slice *)
Definition ot_makeslice_ok (n : Z) : bool := (0 <=? n)%Z && (n <=? 281474976710656)%Z.

(* appendable.NewReaderFrom(nLog, off, maxNodeSize): data := make([]byte, size) *)
Definition tb_reader_alloc (mns : Z) : M unit :=
  if negb (ot_makeslice_ok mns) then (Panic, 0) else alloc (Z.to_N mns).

(* readTsFile: binary.BigEndian.Uint64(bs) on the whole file content *)
Definition ts_read (fixed : bool) (b : bytes) : res N :=
  if fixed && (len b <? 8) then Ok 0 else uint_ 8 b.

(* ------------------------------------------------------------------ *)
(* node parsing. appendable.Reader over the nodes log from the node's offset on: Read(bs) returns
   exactly len(bs) bytes or an error (io.EOF at the end of the log); a zero-length read succeeds. *)
Definition nr_read (k : N) (s : bytes) : M (bytes * bytes) :=
  if k <=? len s then mret (take k s, drop k s) else merr EOEOF.
Definition nr_uint (k : nat) (s : bytes) : M (N * bytes) :=
  dom r <- nr_read (N.of_nat k) s; let '(d, s') := r in mret (be_dec d, s').

Record noderef := { nr_minkey : bytes; nr_ts : N; nr_off : Z; nr_minoff : Z }.
Record leafval := { lv_key : bytes; lv_value : bytes; lv_ts : N; lv_hoff : Z; lv_hcount : N }.
Inductive pnode := NInner (refs : list noderef) | NLeaf (vals : list leafval).

(* readNodeRefFrom *)
Definition read_noderef (s : bytes) : M (noderef * bytes) :=
  dom r <- nr_uint 2 s; let '(ksz, s) := r in
  dom _ <- alloc ksz;                                        (* minKey := make([]byte, minKeySize) *)
  dom r <- nr_read ksz s; let '(k, s) := r in
  dom r <- nr_uint 8 s; let '(ts, s) := r in
  dom r <- nr_uint 8 s; let '(off, s) := r in
  dom r <- nr_uint 8 s; let '(moff, s) := r in
  dom _ <- alloc 64;                                         (* &nodeRef{...} *)
  mret ({| nr_minkey := k; nr_ts := ts; nr_off := i64 off; nr_minoff := i64 moff |}, s).

Fixpoint read_noderefs (c : nat) (s : bytes) (acc : list noderef) : M (list noderef * bytes) :=
  match c with
  | O => mret (rev acc, s)
  | S c' => dom r <- read_noderef s; let '(x, s') := r in read_noderefs c' s' (x :: acc)
  end.

Definition read_leafval (s : bytes) : M (leafval * bytes) :=
  dom r <- nr_uint 2 s; let '(ksz, s) := r in
  dom _ <- alloc ksz;
  dom r <- nr_read ksz s; let '(k, s) := r in
  dom r <- nr_uint 2 s; let '(vsz, s) := r in
  dom _ <- alloc vsz;
  dom r <- nr_read vsz s; let '(v, s) := r in
  dom r <- nr_uint 8 s; let '(ts, s) := r in
  dom r <- nr_uint 8 s; let '(hoff, s) := r in
  dom r <- nr_uint 8 s; let '(hc, s) := r in
  dom _ <- alloc 96;                                         (* &leafValue{...} and its timedValues *)
  mret ({| lv_key := k; lv_value := v; lv_ts := ts; lv_hoff := i64 hoff; lv_hcount := hc |}, s).

Fixpoint read_leafvals (c : nat) (s : bytes) (acc : list leafval) : M (list leafval * bytes) :=
  match c with
  | O => mret (rev acc, s)
  | S c' => dom r <- read_leafval s; let '(x, s') := r in read_leafvals c' s' (x :: acc)
  end.

(* readNodeFrom: InnerNodeType = 0, LeafNodeType = 1 *)
Definition read_node (fixed : bool) (s : bytes) : M pnode :=
  dom r <- nr_uint 1 s; let '(ty, s) := r in
  if ty =? 0 then
    dom r <- nr_uint 2 s; let '(cc, s) := r in
    if fixed && (cc =? 0) then merr EOCorrupted else
    dom _ <- alloc (16 * cc + 64);                           (* &innerNode{nodes: make([]node, childCount)} *)
    dom r <- read_noderefs (N.to_nat cc) s []; let '(refs, _) := r in
    mret (NInner refs)
  else if ty =? 1 then
    dom r <- nr_uint 2 s; let '(vc, s) := r in
    dom _ <- alloc (8 * vc + 64);                            (* &leafNode{values: make([]*leafValue, valueCount)} *)
    dom r <- read_leafvals (N.to_nat vc) s []; let '(vals, _) := r in
    mret (NLeaf vals)
  else merr EOCorrupted.

(* ------------------------------------------------------------------ *)
(* ahtree *)
Definition ah_clog_entry_size : Z := 12.

(* nodesUpto(n), uint64 arithmetic; the loop ends at the first l with n < 2^l *)
Fixpoint nodes_upto_loop (fuel : nat) (n o l : N) : N :=
  match fuel with
  | O => o
  | S f =>
    if n <? 2 ^ l then o else
    let o := o + N.shiftl (N.shiftr n (l + 1)) l in
    let o := if (n / 2 ^ l) mod 2 =? 1 then o + n mod 2 ^ l else o in
    nodes_upto_loop f n o (l + 1)
  end.
Definition nodes_upto (n : N) : N := nodes_upto_loop 64 n n 0.

(* OpenWith from the last commit-log entry (12 bytes): (pLogSize, dLogSize).
   clog_size = size of the commit log after trimming to a multiple of 12, > 0. *)
Definition ah_open (fixed : bool) (clog_size : Z) (entry : bytes) (plog_file dlog_file : Z) : res (Z * Z) :=
  do s <- from_ entry 0; do poff <- uint_ 8 s;
  do s <- from_ entry 8; do psize <- uint_ 4 s;
  let poff := poff mod 18446744073709551616 in
  let psize := psize mod 4294967296 in
  do plog <-
    (if fixed then
       if (Z.of_N poff >? plog_file)%Z || (Z.of_N (4 + psize) >? plog_file - Z.of_N poff)%Z then Err EOCorrupted
       else Ok (Z.of_N poff + 4 + Z.of_N psize)%Z
     else
       (* int64(pOff) + int64(szSize+pSize): the inner sum is uint32 arithmetic *)
       let p := wrap64 (i64 poff + Z.of_N ((4 + psize) mod 4294967296)) in
       if (plog_file <? p)%Z then Err EOCorrupted else Ok p);
  let n := Z.to_N (clog_size / ah_clog_entry_size) in
  let dlog := i64 ((nodes_upto n * 32) mod 18446744073709551616) in
  if (dlog_file <? dlog)%Z then Err EOCorrupted else
  Ok (plog, dlog).

(* DataAt: p := make([]byte, pSize) for the entry of the requested leaf *)
Definition ah_data_at (fixed : bool) (plog_size : Z) (entry : bytes) : M unit :=
  dom s <- lift (from_ entry 0); dom poff <- lift (uint_ 8 s);
  dom s <- lift (from_ entry 8); dom psize <- lift (uint_ 4 s);
  let poff := poff mod 18446744073709551616 in
  let psize := psize mod 4294967296 in
  if fixed && ((Z.of_N poff >? plog_size)%Z || (Z.of_N (4 + psize) >? plog_size - Z.of_N poff)%Z)
  then merr EOCorrupted
  else alloc psize.
