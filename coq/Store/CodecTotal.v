(* C16: the store decoders never panic and never run out of fuel, for every byte string. *)
From V Require Import Store.Codec.
From Coq Require Import ZifyN ZifyNat ZifyBool.

Definition safe {A} (r : res A) : Prop := r <> Panic /\ r <> Err EFuel.

Lemma safe_ok {A} (a : A) : safe (Ok a). Proof. split; discriminate. Qed.
Lemma safe_err {A} e : e <> EFuel -> safe (@Err A e).
Proof. intros H; split; [discriminate | intros E; injection E; auto]. Qed.
Lemma safe_bind {A B} (r : res A) (f : A -> res B) :
  safe r -> (forall a, r = Ok a -> safe (f a)) -> safe (bind r f).
Proof.
  destruct r as [a|e|]; simpl; intros [H1 H2] H3; auto.
  - split; [discriminate|]. intros E; apply H2; injection E as ->; reflexivity.
  - congruence.
Qed.

Ltac consts :=
  unfold w_txid, w_ts, w_ssz, w_lsz, txhdr_min_len in *;
  unfold st_attrCodeSize, st_txIDSize, st_tsSize, st_sszSize, st_lszSize, st_maxExtraLen,
         st_maxTxMetadataLen, st_maxKVMetadataLen, st_truncatedUptoTxAttrCode, st_extraAttrCode,
         st_deletedAttrCode, st_expiresAtAttrCode, st_nonIndexableAttrCode, hsize in *;
  change (N.to_nat 8) with 8%nat in *; change (N.to_nat 2) with 2%nat in *;
  change (N.to_nat 4) with 4%nat in *; change (N.to_nat 1) with 1%nat in *.

Lemma from_ok b i : i <= len b -> from_ b i = Ok (drop i b).
Proof. unfold from_; intros H; destruct (N.leb_spec i (len b)); auto; lia. Qed.
Lemma at_ok b i : i < len b -> exists x, at_ b i = Ok x.
Proof.
  unfold at_, len; intros H. destruct (nth_error b (N.to_nat i)) eqn:E; eauto.
  apply nth_error_None in E. lia.
Qed.
Lemma uint_ok k b : N.of_nat k <= len b -> uint_ k b = Ok (be_dec (firstn k b)).
Proof. unfold uint_; intros H; destruct (N.leb_spec (N.of_nat k) (len b)); auto; lia. Qed.
Lemma sub_ok b i j : i <= j -> j <= len b -> sub_ b i j = Ok (take (j - i) (drop i b)).
Proof.
  unfold sub_; intros H1 H2.
  destruct (N.leb_spec i j); destruct (N.leb_spec j (len b)); simpl; auto; lia.
Qed.

Lemma EFuel_neq : ECorruptedData <> EFuel /\ EIllegalArguments <> EFuel /\
  ENewerVersionOrCorrupted <> EFuel /\ EIllegalTruncationArgument <> EFuel.
Proof. repeat split; discriminate. Qed.

#[local] Hint Resolve safe_ok : core.
Ltac serr := apply safe_err; discriminate.

(* ---------------- TxMetadata ---------------- *)
Lemma trunc_deser_safe b : safe (trunc_deser b).
Proof.
  unfold trunc_deser; consts. destruct (N.ltb_spec (len b) 8); [serr|].
  rewrite uint_ok by (change (N.of_nat 8) with 8; change (N.of_nat 2) with 2; change (N.of_nat 4) with 4; lia). cbn [bind]. auto.
Qed.
Lemma trunc_deser_n b v n : trunc_deser b = Ok (v, n) -> 1 <= n <= len b.
Proof.
  unfold trunc_deser; consts. destruct (N.ltb_spec (len b) 8); [discriminate|].
  rewrite uint_ok by (change (N.of_nat 8) with 8; change (N.of_nat 2) with 2; change (N.of_nat 4) with 4; lia). cbn [bind]. intros E. match type of E with Ok (_, ?x) = _ => assert (x = n) by congruence end. lia.
Qed.

Lemma extra_deser_safe b : safe (extra_deser b).
Proof.
  unfold extra_deser; consts. destruct (N.ltb_spec (len b) 2); [serr|].
  rewrite uint_ok by (change (N.of_nat 8) with 8; change (N.of_nat 2) with 2; change (N.of_nat 4) with 4; lia). cbn [bind].
  destruct (_ || _) eqn:E; [serr|].
  rewrite from_ok by lia. cbn [bind]. auto.
Qed.
Lemma extra_deser_n b e n : extra_deser b = Ok (e, n) -> 1 <= n <= len b.
Proof.
  unfold extra_deser; consts. destruct (N.ltb_spec (len b) 2); [discriminate|].
  rewrite uint_ok by (change (N.of_nat 8) with 8; change (N.of_nat 2) with 2; change (N.of_nat 4) with 4; lia). cbn [bind].
  destruct (_ || _) eqn:E; [discriminate|].
  apply orb_false_elim in E as [E1 E2]. apply N.ltb_ge in E2.
  rewrite from_ok by lia. cbn [bind]. intros E. match type of E with Ok (_, ?x) = _ => assert (x = n) by congruence end. lia.
Qed.

Lemma txmd_loop_safe fuel : forall b i m,
  i <= len b -> len b - i < N.of_nat fuel -> safe (txmd_loop fuel b i m).
Proof.
  induction fuel as [|f IH]; intros b i m Hi Hf; [lia|].
  cbn [txmd_loop]. destruct (N.eqb_spec (len b) i) as [E|NE]; auto.
  rewrite from_ok by lia. cbn [bind].
  rewrite len_drop. consts.
  destruct (N.ltb_spec (len b - i) 1); [lia|].
  destruct (at_ok b i) as [code Hc]; [lia|]. rewrite Hc. cbn [bind].
  destruct (code =? 0).
  - rewrite from_ok by lia. cbn [bind].
    apply safe_bind; [apply trunc_deser_safe|].
    intros [v n] Hr. apply trunc_deser_n in Hr. rewrite len_drop in Hr.
    apply IH; lia.
  - destruct (code =? 1); [|serr].
    rewrite from_ok by lia. cbn [bind].
    apply safe_bind; [apply extra_deser_safe|].
    intros [e n] Hr. apply extra_deser_n in Hr. rewrite len_drop in Hr.
    apply IH; lia.
Qed.

Theorem txmd_read_safe b : safe (txmd_read b).
Proof.
  unfold txmd_read. destruct (_ <? _); [serr|].
  apply txmd_loop_safe; unfold len; lia.
Qed.

(* ---------------- KVMetadata ---------------- *)
Lemma expires_deser_safe b : safe (expires_deser b).
Proof.
  unfold expires_deser; consts. destruct (N.ltb_spec (len b) 8); [serr|].
  rewrite uint_ok by (change (N.of_nat 8) with 8; change (N.of_nat 2) with 2; change (N.of_nat 4) with 4; lia). cbn [bind]. auto.
Qed.
Lemma expires_deser_n b v n : expires_deser b = Ok (v, n) -> 1 <= n <= len b.
Proof.
  unfold expires_deser; consts. destruct (N.ltb_spec (len b) 8); [discriminate|].
  rewrite uint_ok by (change (N.of_nat 8) with 8; change (N.of_nat 2) with 2; change (N.of_nat 4) with 4; lia). cbn [bind]. intros E. match type of E with Ok (_, ?x) = _ => assert (x = n) by congruence end. lia.
Qed.

Lemma kvmd_loop_safe fuel : forall b i m,
  i <= len b -> len b - i < N.of_nat fuel -> safe (kvmd_loop fuel b i m).
Proof.
  induction fuel as [|f IH]; intros b i m Hi Hf; [lia|].
  cbn [kvmd_loop]. destruct (N.eqb_spec (len b) i) as [E|NE]; auto.
  rewrite from_ok by lia. cbn [bind].
  rewrite len_drop. consts.
  destruct (N.ltb_spec (len b - i) 1); [lia|].
  destruct (at_ok b i) as [code Hc]; [lia|]. rewrite Hc. cbn [bind].
  destruct (code =? 0).
  { rewrite from_ok by lia. cbn [bind]. apply IH; lia. }
  destruct (code =? 1).
  { rewrite from_ok by lia. cbn [bind].
    apply safe_bind; [apply expires_deser_safe|].
    intros [v n] Hr. apply expires_deser_n in Hr. rewrite len_drop in Hr.
    apply IH; lia. }
  destruct (code =? 2); [|serr].
  rewrite from_ok by lia. cbn [bind]. apply IH; lia.
Qed.

Theorem kvmd_read_safe b : safe (kvmd_read b).
Proof.
  unfold kvmd_read. destruct (_ <? _); [serr|].
  apply kvmd_loop_safe; unfold len; lia.
Qed.

(* ---------------- TxHeader ---------------- *)
Ltac natc := change (N.of_nat 8) with 8; change (N.of_nat 2) with 2; change (N.of_nat 4) with 4.
Ltac crunch :=
  repeat first
   [ progress cbn [bind]
   | rewrite from_ok by (rewrite ?len_drop; lia)
   | rewrite uint_ok by (rewrite ?len_drop; natc; lia)
   | rewrite sub_ok by lia
   | apply safe_ok
   | serr ].

Lemma copy32_ok b i : i <= len b -> exists x, copy32 b i = Ok x.
Proof. intros H; unfold copy32. rewrite from_ok by lia. cbn [bind]. eauto. Qed.

Ltac copy32_step :=
  match goal with
  | |- context [copy32 ?b ?i] =>
      let x := fresh "h" in let Hx := fresh "Hh" in
      destruct (copy32_ok b i) as [x Hx]; [lia | rewrite Hx; cbn [bind]]
  end.

Theorem txhdr_read_safe b : safe (txhdr_read b).
Proof.
  unfold txhdr_read. consts.
  destruct (N.ltb_spec (len b) (8 + 32 + 8 + 2 * 2 + 32 + 8 + 32)) as [Hl|Hl]; [serr|].
  crunch.
  destruct (_ <? 1); [serr|].
  copy32_step. crunch.
  set (version := be_dec (firstn 2 (drop (0 + 8 + 32 + 8) b))).
  destruct (version =? 0).
  { crunch. destruct (_ <? 1); [serr|].
    destruct (N.ltb_spec (len b) (0 + 8 + 32 + 8 + 2 + 2 + 32 + 8 + 32)); [serr|].
    copy32_step. crunch. destruct (_ <=? _); [serr|]. copy32_step. crunch. }
  destruct (version =? 1); [|crunch].
  crunch.
  set (mdLen := be_dec (firstn 2 (drop (0 + 8 + 32 + 8 + 2) b))).
  destruct (_ || _) eqn:E; [serr|].
  apply orb_false_elim in E as [E1 E2]. apply N.ltb_ge in E1. apply N.ltb_ge in E2.
  destruct (N.ltb_spec 0 mdLen) as [Hm|Hm].
  - crunch.
    match goal with |- context [txmd_read ?x] => destruct (txmd_read_safe x) as [S1 S2]; destruct (txmd_read x) as [md|e|] end;
      [| split; [discriminate | intros X; apply S2; injection X as ->; reflexivity] | congruence].
    crunch. destruct (_ <? 1); [serr|].
    destruct (N.ltb_spec (len b) (0 + 8 + 32 + 8 + 2 + 2 + mdLen + 4 + 32 + 8 + 32)); [serr|].
    copy32_step. crunch. destruct (_ <=? _); [serr|]. copy32_step. crunch.
  - crunch. destruct (_ <? 1); [serr|].
    destruct (N.ltb_spec (len b) (0 + 8 + 32 + 8 + 2 + 2 + 4 + 32 + 8 + 32)); [serr|].
    copy32_step. crunch. destruct (_ <=? _); [serr|]. copy32_step. crunch.
Qed.

(* ---------------- ReplicateTx framing ---------------- *)
Lemma repl_entries_safe fuel : forall b i count acc,
  i <= len b -> len b - i < N.of_nat fuel ->
  safe (repl_entries fuel b i count acc) /\
  (forall es i', repl_entries fuel b i count acc = Ok (es, i') -> i <= i' <= len b).
Proof.
  induction fuel as [|f IH]; intros b i count acc Hi Hf; [lia|].
  cbn [repl_entries]. destruct (count =? 0).
  { split; [apply safe_ok|]. intros es i' E. assert (i = i') by congruence. lia. }
  consts.
  destruct (N.ltb_spec (len b) (i + 2 * 2 + 4)) as [H1|H1];
    [split; [serr | discriminate]|].
  crunch.
  set (kLen := be_dec (firstn 2 (drop i b))).
  destruct (N.ltb_spec (len b) (i + 2 + 2 + 4 + kLen)) as [H2|H2];
    [split; [serr | discriminate]|].
  crunch.
  set (mdLen := be_dec (firstn 2 (drop (i + 2 + kLen) b))).
  destruct (N.ltb_spec (len b) (i + 2 + kLen + 2 + mdLen)) as [H3|H3];
    [split; [serr | discriminate]|].
  destruct (N.ltb_spec 0 mdLen) as [Hm|Hm].
  - crunch.
    match goal with |- context [kvmd_read ?x] =>
      destruct (kvmd_read_safe x) as [S1 S2]; destruct (kvmd_read x) as [md|e|] end;
      [| split; [split; [discriminate | intros X; apply S2; injection X as ->; reflexivity] | discriminate]
       | congruence].
    cbn [bind].
    destruct (N.ltb_spec (len b) (i + 2 + kLen + 2 + mdLen + 4)) as [H4|H4];
      [split; [serr | discriminate]|].
    crunch.
    set (vLen := be_dec (firstn 4 (drop (i + 2 + kLen + 2 + mdLen) b))).
    destruct (N.ltb_spec (len b) (i + 2 + kLen + 2 + mdLen + 4 + vLen)) as [H5|H5];
      [split; [serr | discriminate]|].
    crunch.
    match goal with |- context [repl_entries f b ?j ?c ?a] =>
      destruct (IH b j c a) as [IH1 IH2]; [lia | lia |] end.
    split; [exact IH1|]. intros es i' E. apply IH2 in E. lia.
  - cbn [bind].
    destruct (N.ltb_spec (len b) (i + 2 + kLen + 2 + 4)) as [H4|H4];
      [split; [serr | discriminate]|].
    crunch.
    set (vLen := be_dec (firstn 4 (drop (i + 2 + kLen + 2) b))).
    destruct (N.ltb_spec (len b) (i + 2 + kLen + 2 + 4 + vLen)) as [H5|H5];
      [split; [serr | discriminate]|].
    crunch.
    match goal with |- context [repl_entries f b ?j ?c ?a] =>
      destruct (IH b j c a) as [IH1 IH2]; [lia | lia |] end.
    split; [exact IH1|]. intros es i' E. apply IH2 in E. lia.
Qed.

Theorem repl_parse_safe b : safe (repl_parse b).
Proof.
  unfold repl_parse. consts.
  destruct (len b =? 0); [serr|].
  destruct (N.ltb_spec (len b) 4) as [H0|H0]; [serr|].
  crunch.
  set (hdrLen := be_dec (firstn 4 (drop 0 b))).
  destruct (N.ltb_spec (len b) (4 + hdrLen)) as [H1|H1]; [serr|].
  crunch.
  match goal with |- context [txhdr_read ?x] =>
    destruct (txhdr_read_safe x) as [S1 S2]; destruct (txhdr_read x) as [hdr|e|] end;
    [| split; [discriminate | intros X; apply S2; injection X as ->; reflexivity] | congruence].
  cbn [bind].
  destruct (repl_entries_safe (S (length b)) b (4 + hdrLen) (h_nentries hdr) []) as [R1 R2];
    [lia | unfold len; lia |].
  destruct (repl_entries _ _ _ _ _) as [[es i]|e|] eqn:ER;
    [| destruct R1 as [_ R1]; split; [discriminate | intros X; apply R1; injection X as ->; reflexivity]
     | destruct R1; congruence].
  specialize (R2 es i eq_refl). cbn [bind].
  destruct (N.ltb_spec i (len b)) as [Hi|Hi].
  - destruct (N.ltb_spec (len b) (i + 2)) as [H2|H2]; [serr|].
    crunch.
    set (tLen := be_dec (firstn 2 (drop i b))).
    destruct (N.ltb_spec (len b) (i + 2 + tLen)) as [H3|H3]; [serr|].
    crunch.
    set (v := take (i + 2 + tLen - (i + 2)) (drop (i + 2) b)).
    destruct (N.ltb_spec 0 (len v)) as [Hv|Hv].
    + destruct (at_ok v 0 Hv) as [v0 Hv0]. rewrite Hv0. cbn [bind].
      destruct (1 <? v0); [serr|]. cbn [bind].
      destruct (negb _); crunch.
    + cbn [bind]. destruct (negb _); crunch.
  - cbn [bind]. destruct (negb _); crunch.
Qed.
