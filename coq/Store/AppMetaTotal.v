(* C16: the appendable metadata decoder and its typed getters never panic, for every byte string. *)
From V Require Import Store.AppMeta Store.CodecTotal.
From Coq Require Import ZifyN ZifyNat ZifyBool.

Ltac recast S :=
  first [ destruct S as [S _]; congruence
        | destruct S as [_ S]; simpl; apply safe_err; intros X; apply S; congruence ].

Lemma read_field_safe b : safe (read_field b).
Proof.
  unfold read_field. destruct (N.ltb_spec (len b) 4); [serr|].
  rewrite uint_ok by (change (N.of_nat 4) with 4; lia). cbn [bind].
  rewrite from_ok by lia. cbn [bind]. rewrite len_drop.
  destruct (N.ltb_spec (len b - 4) (be_dec (firstn 4 b))); [serr|].
  rewrite sub_ok by (rewrite ?len_drop; lia). cbn [bind].
  rewrite from_ok by (rewrite len_drop; lia). cbn [bind]. apply safe_ok.
Qed.

Lemma read_field_shrinks b f r : read_field b = Ok (f, r) -> len r + 4 <= len b.
Proof.
  unfold read_field. destruct (N.ltb_spec (len b) 4); [discriminate|].
  rewrite uint_ok by (change (N.of_nat 4) with 4; lia). cbn [bind].
  rewrite from_ok by lia. cbn [bind]. rewrite len_drop.
  destruct (N.ltb_spec (len b - 4) (be_dec (firstn 4 b))); [discriminate|].
  rewrite sub_ok by (rewrite ?len_drop; lia). cbn [bind].
  rewrite from_ok by (rewrite len_drop; lia). cbn [bind].
  intros E. assert (r = drop (be_dec (firstn 4 b)) (drop 4 b)) by congruence. subst r.
  rewrite !len_drop. lia.
Qed.

Lemma md_fields_safe fuel : forall count b acc,
  len b < N.of_nat fuel -> safe (snd (md_fields fuel count b acc)).
Proof.
  induction fuel as [|f IH]; intros count b acc Hf; [lia|].
  cbn [md_fields]. destruct (count =? 0); [apply safe_ok|].
  pose proof (read_field_safe b) as S1.
  destruct (read_field b) as [[k r1]|e|] eqn:E1; [| recast S1 | recast S1].
  pose proof (read_field_shrinks _ _ _ E1).
  pose proof (read_field_safe r1) as S2.
  destruct (read_field r1) as [[v r2]|e|] eqn:E2; [| recast S2 | recast S2].
  pose proof (read_field_shrinks _ _ _ E2).
  apply IH. lia.
Qed.

Theorem appmd_read_safe b : safe (snd (appmd_read b)).
Proof.
  unfold appmd_read.
  pose proof (read_field_safe b) as S1.
  destruct (read_field b) as [[lenb r]|e|] eqn:E1; [| recast S1 | recast S1].
  pose proof (read_field_shrinks _ _ _ E1).
  destruct (N.eqb_spec (len lenb) 4) as [L4|]; [|simpl; serr]. cbn [negb].
  rewrite uint_ok by (change (N.of_nat 4) with 4; lia).
  apply md_fields_safe. unfold len in *. lia.
Qed.

Theorem appmd_getters_safe b k : safe (appmd_get_int b k) /\ safe (appmd_get_bool b k).
Proof.
  unfold appmd_get_int, appmd_get_bool. destruct (appmd_get b k) as [v|]; [|split; apply safe_ok].
  split.
  - destruct (N.ltb_spec (len v) 8); [apply safe_ok|].
    rewrite uint_ok by (change (N.of_nat 8) with 8; lia). apply safe_ok.
  - destruct (N.ltb_spec (len v) 1); [apply safe_ok|].
    destruct (at_ok v 0) as [x Hx]; [lia|]. rewrite Hx. apply safe_ok.
Qed.
