(* C13 — the faithful model refines the abstract specification (per-table snapshot variant) on every
   program without ROLLBACK TO SAVEPOINT; every interleaving of sessions; the spec's COMMIT verdicts
   are the engine's (proofs). *)
From V Require Import SQLTx.Model SQLTx.Spec SQLTx.Lemmas SQLTx.Atomic SQLTx.Counters.
From Coq Require Import ZifyN ZifyNat ZifyBool.

Definition log_touched (x : mtx) : Prop :=
  forall w, In w (x_log x) -> tg (w_tid w) (x_snaps x) <> None.
Definition work_rel (x : mtx) (y : stx) : Prop :=
  forall t, tg t (y_work y) =
            option_map (fun sn => strip_tbl (view (sn_rows sn) (x_log x) t)) (tg t (x_snaps x)).
Definition Rcore (x : mtx) (y : stx) : Prop :=
  y_ro y = x_ro x /\ y_applied y = x_log x /\ y_maxpk y = x_maxpk x /\ work_rel x y /\
  map fst (x_sps x) = map fst (y_sps y) /\ log_touched x.
Definition Rtx (x : mtx) (y : stx) : Prop := Rcore x y /\ Cinv x.

Lemma Rcore_ext x x' y :
  x_ro x' = x_ro x -> x_log x' = x_log x -> x_maxpk x' = x_maxpk x -> x_snaps x' = x_snaps x ->
  x_sps x' = x_sps x -> Rcore x y -> Rcore x' y.
Proof.
  intros H1 H2 H3 H4 H5 [R1 [R2 [R3 [R4 [R5 R6]]]]].
  unfold Rcore, work_rel, log_touched in *. rewrite H1, H2, H3, H4, H5. repeat split; assumption.
Qed.

Section WithDb.
  Variable d : db.
  Variable last : N.
  Let sd : sdb := tmap strip_tbl d.

  Lemma touch_snap t x : exists sn, tg t (x_snaps (touch d last t x)) = Some sn.
  Proof.
    unfold touch. destruct (tg t (x_snaps x)) as [sn|] eqn:E.
    - exists sn. exact E.
    - simpl. rewrite tg_ts_same. eexists. reflexivity.
  Qed.

  Lemma Rcore_touch t x y : Rcore x y -> Rcore (touch d last t x) (stouch sd t y).
  Proof.
    intros [R1 [R2 [R3 [R4 [R5 R6]]]]]. unfold touch, stouch. rewrite (R4 t).
    destruct (tg t (x_snaps x)) as [sn|] eqn:E; simpl.
    - repeat split; assumption.
    - unfold Rcore, work_rel, log_touched. simpl. repeat split; try assumption.
      + intros t'. destruct (i3_eq_dec t' t) as [Et|Et].
        * subst t'. rewrite !tg_ts_same. simpl. f_equal. unfold sd. rewrite tg_tmap. f_equal.
          symmetry. apply view_untouched. intros w Hin Hw. apply (R6 w Hin). rewrite Hw. exact E.
        * rewrite !tg_ts_other by exact Et. apply R4.
      + intros w Hin. destruct (i3_eq_dec (w_tid w) t) as [Et|Et].
        * rewrite Et, tg_ts_same. discriminate.
        * rewrite tg_ts_other by exact Et. apply R6. exact Hin.
  Qed.

  Lemma swork_mview x y t : work_rel x y -> swork t y = strip_tbl (mview t x).
  Proof. intros H. unfold swork, mview. rewrite (H t). destruct (tg t (x_snaps x)); reflexivity. Qed.

  Lemma Rcore_mscan t lo hi x y :
    Rcore x y ->
    Rcore (fst (mscan d last t lo hi x)) (stouch sd t y) /\
    live (snd (mscan d last t lo hi x)) = slive (range_of lo hi false (swork t (stouch sd t y))).
  Proof.
    intros R. pose proof (Rcore_touch t x y R) as R'. unfold mscan. cbn [fst snd]. split.
    - match goal with |- Rcore (add_rdr ?g ?z) _ => destruct (add_rdr_fields g z) as [G1 [G2 [G3 [G4 [G5 G6]]]]] end.
      eapply Rcore_ext; eauto.
    - destruct R' as [_ [_ [_ [R4 _]]]]. rewrite (swork_mview _ _ t R4), range_of_strip, slive_strip. reflexivity.
  Qed.

  Lemma Rcore_mget t pk x y :
    Rcore x y ->
    Rcore (fst (mget d last t pk x)) (stouch sd t y) /\
    snd (mget d last t pk x) && negb (own_deleted t pk (x_log x)) = s_live_at t pk (stouch sd t y).
  Proof.
    intros R. pose proof (Rcore_touch t x y R) as R'. split.
    - destruct (mget_fields d last t pk x) as [G1 [G2 [G3 [G4 [G5 G6]]]]].
      destruct (touch_fields d last t x) as [T1 [T2 [T3 [T4 T5]]]].
      eapply Rcore_ext; [| | | | |exact R']; congruence.
    - destruct R' as [_ [_ [_ [R4 _]]]].
      unfold s_live_at. rewrite (swork_mview _ _ t R4). unfold mget, mview.
      destruct (touch_fields d last t x) as [T1 _]. rewrite T1.
      destruct (touch_snap t x) as [sn Esn]. rewrite Esn.
      unfold strip_tbl. rewrite (afind_map strip). rewrite afind_view.
      destruct (own_written t pk (x_log x)) eqn:Eo; simpl.
      + reflexivity.
      + rewrite (own_deleted_not_written _ _ _ Eo).
        destruct (afind pk (sn_rows sn)) as [c|]; simpl; [|reflexivity].
        destruct (c_del c); reflexivity.
  Qed.

  Lemma Rcore_exists t pk x y :
    Rcore x y ->
    Rcore (fst (m_exists d last t pk x)) (stouch sd t y) /\
    snd (m_exists d last t pk x) = s_live_at t pk (stouch sd t y).
  Proof.
    intros R. destruct (Rcore_mget t pk x y R) as [R1 Hf].
    destruct (mget_fields d last t pk x) as [G1 _].
    unfold m_exists. destruct (mget d last t pk x) as [x1 f]. simpl in *.
    split; [exact R1|]. rewrite G1. exact Hf.
  Qed.

  Lemma stouch_idem t y : stouch sd t (stouch sd t y) = stouch sd t y.
  Proof.
    unfold stouch. destruct (tg t (y_work y)) eqn:E.
    - rewrite E. reflexivity.
    - simpl. rewrite tg_ts_same. reflexivity.
  Qed.
  Lemma stouch_ro t y : y_ro (stouch sd t y) = y_ro y.
  Proof. unfold stouch. destruct (tg t (y_work y)); reflexivity. Qed.
  Lemma swrite_stouch w y : swrite sd w (stouch sd (w_tid w) y) = swrite sd w y.
  Proof. unfold swrite. rewrite stouch_ro, stouch_idem. reflexivity. Qed.

  Definition rel_opt (ox : option mtx) (oy : option stx) : Prop :=
    match ox, oy with
    | Some x, Some y => Rcore x y
    | None, None => True
    | _, _ => False
    end.

  Lemma Rcore_mwrite w x y : Rcore x y -> rel_opt (mwrite d last w x) (swrite sd w y).
  Proof.
    intros R. pose proof (Rcore_touch (w_tid w) x y R) as R'.
    unfold mwrite, swrite. destruct R as [R1 _]. rewrite R1.
    destruct (x_ro x); simpl; [exact I|].
    destruct R' as [Q1 [Q2 [Q3 [Q4 [Q5 Q6]]]]].
    set (x1 := touch d last (w_tid w) x) in *. set (y1 := stouch sd (w_tid w) y) in *.
    unfold Rcore, work_rel, log_touched. simpl. repeat split; try assumption.
    - rewrite Q2. reflexivity.
    - intros t'. destruct (touch_snap (w_tid w) x) as [sn Esn]. fold x1 in Esn.
      destruct (i3_eq_dec t' (w_tid w)) as [Et|Et].
      + subst t'. rewrite tg_ts_same, Esn. simpl. f_equal.
        rewrite view_app. unfold apply_w. rewrite i3_eqb_refl, strip_aset.
        rewrite (swork_mview _ _ (w_tid w) Q4). unfold mview. rewrite Esn. reflexivity.
      + rewrite tg_ts_other by exact Et. rewrite (Q4 t').
        destruct (tg t' (x_snaps x1)) as [sn'|]; simpl; [|reflexivity].
        rewrite view_app. unfold apply_w. rewrite (i3_eqb_neq (w_tid w) t') by congruence. reflexivity.
    - intros w' Hin. apply in_app_or in Hin as [Hin|[Hin|[]]].
      + apply Q6. exact Hin.
      + subst w'. destruct (touch_snap (w_tid w) x) as [sn Esn]. fold x1 in Esn. rewrite Esn. discriminate.
  Qed.

  Lemma Rcore_note_pk t pk x y : Rcore x y -> Rcore (note_pk t pk x) y.
  Proof.
    intros R. destruct (note_pk_fields t pk x) as [N1 [N2 [N3 [N4 N5]]]]. eapply Rcore_ext; eauto.
  Qed.

  Lemma Rcore_put_row isins t pk v x y :
    Rcore x y ->
    rel_opt (m_put_row d last isins t pk v x) (s_put_row sd isins t pk v y).
  Proof.
    intros R. unfold m_put_row, s_put_row.
    pose proof (Rcore_note_pk t pk x y R) as R1.
    destruct (Rcore_exists t pk (note_pk t pk x) y R1) as [R2 Hf].
    destruct (m_exists d last t pk (note_pk t pk x)) as [x2 found]. simpl in *.
    destruct R as [_ [_ [R3 _]]]. rewrite R3, <- Hf.
    destruct (negb found && (autoinc t && (pk <=? tg t (x_maxpk x))%Z)); [exact I|].
    destruct (isins && found); [exact I|].
    apply Rcore_mwrite. exact R2.
  Qed.

  Lemma Rcore_set_maxpk m x y : Rcore x y -> Rcore (set_maxpk m x) (sset_maxpk m y).
  Proof.
    intros [R1 [R2 [R3 [R4 [R5 R6]]]]]. unfold Rcore, work_rel, log_touched. simpl. repeat split; assumption.
  Qed.

  Lemma Rcore_ins_auto t v x y :
    Rcore x y -> rel_opt (m_ins_auto d last t v x) (s_ins_auto sd t v y).
  Proof.
    intros R. unfold m_ins_auto, s_ins_auto. destruct (autoinc t); [|exact I].
    assert (Em : y_maxpk y = x_maxpk x) by apply R. rewrite Em.
    set (pk := (tg t (x_maxpk x) + 1)%Z) in *.
    pose proof (Rcore_set_maxpk (ts t pk (x_maxpk x)) x y R) as R0.
    pose proof (Rcore_note_pk t pk _ _ R0) as R1.
    destruct (Rcore_exists t pk _ _ R1) as [R2 Hf].
    destruct (m_exists d last t pk (note_pk t pk (set_maxpk (ts t pk (x_maxpk x)) x))) as [x2 found]. simpl in *.
    rewrite <- Hf. destruct found; [exact I|].
    apply Rcore_mwrite. exact R2.
  Qed.

  Lemma rel_opt_none_l oy : rel_opt None oy -> oy = None.
  Proof. destruct oy; simpl; [intros []|reflexivity]. Qed.

  Lemma Rcore_update_loop t dv rows : forall ox oy,
    rel_opt ox oy ->
    rel_opt (fold_left (fun acc kv => obind acc (fun xa =>
                          let '(xb, _) := mget d last t (fst kv) xa in
                          mwrite d last (W t (fst kv) WUpd (snd kv + dv)%Z) xb)) rows ox)
            (fold_left (fun acc kv => obind acc (swrite sd (W t (fst kv) WUpd (snd kv + dv)%Z))) rows oy).
  Proof.
    induction rows as [|kv r IH]; intros ox oy H; simpl; [exact H|].
    apply IH. destruct ox as [xa|], oy as [ya|]; simpl in *; try contradiction; [|exact I].
    destruct (Rcore_mget t (fst kv) xa ya H) as [R2 _].
    destruct (mget d last t (fst kv) xa) as [xb f]. simpl in R2.
    rewrite <- (swrite_stouch (W t (fst kv) WUpd (snd kv + dv)%Z) ya). simpl w_tid.
    apply Rcore_mwrite. exact R2.
  Qed.

  Lemma Rcore_delete_loop t rows : forall ox oy,
    rel_opt ox oy ->
    rel_opt (fold_left (fun acc kv => obind acc (fun xa => mwrite d last (W t (fst kv) WDel (snd kv)) xa)) rows ox)
            (fold_left (fun acc kv => obind acc (swrite sd (W t (fst kv) WDel (snd kv)))) rows oy).
  Proof.
    induction rows as [|kv r IH]; intros ox oy H; simpl; [exact H|].
    apply IH. destruct ox as [xa|], oy as [ya|]; simpl in *; try contradiction; [|exact I].
    apply Rcore_mwrite. exact H.
  Qed.

  Lemma mdml_refines o x y : Rcore x y -> rel_opt (mdml d last o x) (sdml sd o y).
  Proof.
    intros R. unfold mdml, sdml. assert (Er : y_ro y = x_ro x) by apply R. rewrite Er.
    destruct (x_ro x); [exact I|].
    destruct o; simpl in *; try exact I.
    - apply Rcore_put_row; assumption.
    - pose proof (Rcore_put_row true t pk1 v1 x y R) as H1.
      destruct (m_put_row d last true t pk1 v1 x) as [x1|];
        destruct (s_put_row sd true t pk1 v1 y) as [y1|]; simpl in *; try contradiction; [|exact I].
      apply Rcore_put_row. exact H1.
    - apply Rcore_ins_auto; assumption.
    - apply Rcore_put_row; assumption.
    - unfold m_update, s_update.
      destruct (Rcore_mscan t lo hi x y R) as [R1 Hl].
      destruct (mscan d last t lo hi x) as [x1 ents]. simpl in *. rewrite <- Hl.
      apply Rcore_update_loop. exact R1.
    - unfold m_delete, s_delete.
      destruct (Rcore_mscan t lo hi x y R) as [R1 Hl].
      destruct (mscan d last t lo hi x) as [x1 ents]. simpl in *. rewrite <- Hl.
      apply Rcore_delete_loop. exact R1.
  Qed.

  Lemma mdml_refines_tx o x y :
    Rtx x y ->
    match mdml d last o x, sdml sd o y with
    | Some x', Some y' => Rtx x' y'
    | None, None => True
    | _, _ => False
    end.
  Proof.
    intros R. pose proof (mdml_refines o x y (proj1 R)) as H.
    destruct (mdml d last o x) as [x'|] eqn:E; destruct (sdml sd o y) as [y'|]; simpl in H; try contradiction; try exact I.
    split; [exact H|]. eapply mdml_cinv; eauto. apply R.
  Qed.

  Lemma smaxkey_strip rows :
    smaxkey (strip_tbl rows) = match range_of None None true rows with [] => 0%Z | (k, _) :: _ => k end.
  Proof.
    unfold smaxkey. rewrite range_of_strip.
    destruct (range_of None None true rows) as [|[k c] r]; reflexivity.
  Qed.

  Lemma begin_refines ro : Rtx (mbegin d last ro) (sbegin false sd ro).
  Proof.
    split; [|apply mbegin_cinv].
    unfold mbegin, sbegin. destruct ro.
    - unfold Rcore, work_rel, log_touched. simpl. repeat split; try reflexivity.
      + intros t. destruct t; reflexivity.
      + intros w [].
    - assert (Ev : mview I1 (touch d last I1 (empty_tx false)) = tg I1 d) by reflexivity.
      rewrite Ev. unfold sd at 2. rewrite tg_tmap, smaxkey_strip.
      assert (R0 : Rcore (touch d last I1 (empty_tx false))
                         (STx false (ts I1 (Some (tg I1 sd)) (tconst None)) [] (tconst 0%Z) [])).
      { unfold Rcore, work_rel, log_touched. simpl. repeat split; try reflexivity.
        - intros t. destruct t; simpl; reflexivity.
        - intros w []. }
      destruct (range_of None None true (tg I1 d)) as [|[k c] r].
      + match goal with |- Rcore (add_rdr ?g ?z) _ => destruct (add_rdr_fields g z) as [G1 [G2 [G3 [G4 [G5 G6]]]]] end.
        eapply Rcore_ext; eauto.
      + match goal with |- Rcore (add_rdr ?g ?z) _ => destruct (add_rdr_fields g z) as [G1 [G2 [G3 [G4 [G5 G6]]]]] end.
        eapply Rcore_ext; eauto.
        destruct R0 as [Q1 [Q2 [Q3 [Q4 [Q5 Q6]]]]].
        unfold Rcore, work_rel, log_touched. simpl. repeat split; try assumption; reflexivity.
  Qed.
End WithDb.

(* ---- savepoints (names only: without ROLLBACK TO the saved copies are never used) ---- *)
Lemma savepoint_refines n x y : Rtx x y -> Rtx (m_savepoint n x) (s_savepoint n y).
Proof.
  intros [[R1 [R2 [R3 [R4 [R5 R6]]]]] C]. split; [|exact C].
  unfold Rcore, work_rel, log_touched, m_savepoint, s_savepoint, nset. simpl.
  repeat split; try assumption. rewrite !map_fst_nremove, R5. reflexivity.
Qed.

Lemma release_refines n x y :
  Rtx x y ->
  match m_release n x, s_release n y with
  | Some x', Some y' => Rtx x' y'
  | None, None => True
  | _, _ => False
  end.
Proof.
  intros [[R1 [R2 [R3 [R4 [R5 R6]]]]] C]. unfold m_release, s_release.
  pose proof (nfind_same_names n _ _ R5) as Hn.
  destruct (nfind n (x_sps x)) as [c|] eqn:E1; destruct (nfind n (y_sps y)) as [c'|] eqn:E2.
  - split; [|exact C]. unfold Rcore, work_rel, log_touched. simpl. repeat split; try assumption.
    rewrite !map_fst_nremove, R5. reflexivity.
  - destruct Hn as [_ Hn]. specialize (Hn eq_refl). discriminate.
  - destruct Hn as [Hn _]. specialize (Hn eq_refl). discriminate.
  - exact I.
Qed.

Lemma commit_res_refines d last x y :
  Rtx x y -> s_commit_res (validate d last x) y = commit_res d last x.
Proof.
  intros [[R1 [R2 _]] _]. unfold s_commit_res, commit_res. rewrite R1, R2. reflexivity.
Qed.

(* ---- one step ---- *)
Definition Rox (ox : option mtx) (oy : option stx) : Prop :=
  match ox, oy with
  | Some x, Some y => Rtx x y
  | None, None => True
  | _, _ => False
  end.

Definition lverdict (d : db) (last : N) (ox : option mtx) (o : op) : bool :=
  match ox with
  | Some x => match o with OCommit => validate d last x | _ => true end
  | None =>
      if is_dml o then
        match mdml d last o (mbegin d last false) with
        | Some x => validate d last x
        | None => true
        end
      else true
  end.

Lemma scnt_of x y : Rtx x y -> scnt y = x_cnt x.
Proof. intros [[_ [R2 _]] C]. unfold scnt. rewrite R2. symmetry. exact C. Qed.

Definition step_rel (d : db) (r : loc * obs) (sr : sloc * obs) : Prop :=
  snd r = snd sr /\ sl_db (fst sr) = tmap strip_tbl (l_db (fst r)) /\ Rox (l_tx (fst r)) (sl_tx (fst sr)).

Lemma mbegin_log d last ro : x_log (mbegin d last ro) = [].
Proof.
  unfold mbegin. destruct ro; [reflexivity|].
  destruct (range_of None None true (mview I1 (touch d last I1 (empty_tx false)))) as [|[k c] r];
    match goal with |- x_log (add_rdr ?g ?z) = _ => destruct (add_rdr_fields g z) as [G1 _]; rewrite G1 end; reflexivity.
Qed.

Ltac sr3 := unfold step_rel; cbn [fst snd l_db l_tx sl_db sl_tx Rox]; split; [|split].

Lemma idle_dml_refines d last o :
  is_dml o = true ->
  step_rel d
    (match mdml d last o (mbegin d last false) with
     | None => (L d last None, ob_fail d false)
     | Some x =>
         match commit_res d last x with
         | CErr => (L d last None, ob_fail d false)
         | COkEmpty => (L d last None, Ob false [] false false None (Some (x_cnt x, false)) (vis d))
         | COk => (L (install (last + 1) (x_log x) d) (last + 1) None,
                   Ob false [] false false None (Some (x_cnt x, true)) (vis (install (last + 1) (x_log x) d)))
         end
     end)
    (match sdml (tmap strip_tbl d) o (sbegin false (tmap strip_tbl d) false) with
     | None => (SL (tmap strip_tbl d) None, sob_fail (tmap strip_tbl d) false)
     | Some y =>
         match s_commit_res (lverdict d last None o) y with
         | CErr => (SL (tmap strip_tbl d) None, sob_fail (tmap strip_tbl d) false)
         | COkEmpty => (SL (tmap strip_tbl d) None, Ob false [] false false None (Some (scnt y, false)) (svis (tmap strip_tbl d)))
         | COk => (SL (sinstall (y_applied y) (tmap strip_tbl d)) None,
                   Ob false [] false false None (Some (scnt y, true)) (svis (sinstall (y_applied y) (tmap strip_tbl d))))
         end
     end).
Proof.
  intros Hd. unfold lverdict. rewrite Hd.
  pose proof (mdml_refines_tx d last o _ _ (begin_refines d last false)) as H.
  destruct (mdml d last o (mbegin d last false)) as [x|];
    destruct (sdml (tmap strip_tbl d) o (sbegin false (tmap strip_tbl d) false)) as [y|]; try contradiction.
  - rewrite (commit_res_refines d last x y H).
    destruct (commit_res d last x); sr3.
    + unfold ob_fail, sob_fail. rewrite svis_strip. reflexivity.
    + reflexivity.
    + exact I.
    + rewrite svis_strip, (scnt_of x y H). reflexivity.
    + reflexivity.
    + exact I.
    + assert (Ea : y_applied y = x_log x) by apply H.
      rewrite Ea, <- (strip_install (last + 1)), svis_strip, (scnt_of x y H). reflexivity.
    + assert (Ea : y_applied y = x_log x) by apply H.
      rewrite Ea, <- (strip_install (last + 1)). reflexivity.
    + exact I.
  - sr3; [unfold ob_fail, sob_fail; rewrite svis_strip; reflexivity|reflexivity|exact I].
Qed.

Lemma mlocal_refines d last ox oy o :
  Rox ox oy -> not_rbto o = true ->
  step_rel d (mlocal d last ox o) (slocal false (tmap strip_tbl d) oy o (lverdict d last ox o)).
Proof.
  intros R Hn.
  destruct ox as [x|], oy as [y|]; simpl in R; try contradiction.
  - (* inside a transaction *)
    unfold mlocal, slocal, mlocal_tx, slocal_tx.
    assert (Hdml : forall o',
              step_rel d
                (match mdml d last o' x with
                 | Some x' => (L d last (Some x'), Ob false [] true false (Some (x_cnt x')) None (vis d))
                 | None => (L d last None, ob_fail d true) end)
                (match sdml (tmap strip_tbl d) o' y with
                 | Some y' => (SL (tmap strip_tbl d) (Some y'), Ob false [] true false (Some (scnt y')) None (svis (tmap strip_tbl d)))
                 | None => (SL (tmap strip_tbl d) None, sob_fail (tmap strip_tbl d) true) end)).
    { intros o'. pose proof (mdml_refines_tx d last o' x y R) as H.
      destruct (mdml d last o' x) as [x'|]; destruct (sdml (tmap strip_tbl d) o' y) as [y'|]; try contradiction; sr3.
      - rewrite svis_strip, (scnt_of x' y' H). reflexivity.
      - reflexivity.
      - exact H.
      - unfold ob_fail, sob_fail. rewrite svis_strip. reflexivity.
      - reflexivity.
      - exact I. }
    assert (Hfail : forall b, step_rel d (L d last None, ob_fail d b) (SL (tmap strip_tbl d) None, sob_fail (tmap strip_tbl d) b)).
    { intros b. sr3; [unfold ob_fail, sob_fail; rewrite svis_strip; reflexivity|reflexivity|exact I]. }
    destruct o; cbv beta iota zeta.
    + sr3; [rewrite svis_strip, (scnt_of x y R); reflexivity|reflexivity|exact R].
    + apply Hfail.
    + apply Hdml.
    + apply Hdml.
    + apply Hdml.
    + apply Hdml.
    + apply Hdml.
    + apply Hdml.
    + (* SELECT *)
      unfold s_select.
      destruct R as [Rc C].
      destruct (Rcore_mscan d last t lo hi x y Rc) as [R1 Hl].
      pose proof (mscan_fields d last t lo hi x) as Hf.
      destruct (mscan d last t lo hi x) as [x1 ents]. cbn [fst snd] in *. destruct Hf as [F1 [F2 _]].
      assert (R1' : Rtx x1 (stouch (tmap strip_tbl d) t y)).
      { split; [exact R1|]. unfold Cinv. rewrite F1, F2. exact C. }
      sr3; [rewrite svis_strip, (scnt_of _ _ R1'), Hl; reflexivity|reflexivity|exact R1'].
    + sr3; [rewrite svis_strip, (scnt_of x y R); reflexivity|reflexivity|exact R].
    + apply Hfail.
    + (* COMMIT *)
      unfold lverdict. rewrite (commit_res_refines d last x y R).
      destruct (commit_res d last x).
      * apply Hfail.
      * sr3; [rewrite svis_strip, (scnt_of x y R); reflexivity|reflexivity|exact I].
      * assert (Ea : y_applied y = x_log x) by apply R.
        sr3; [rewrite Ea, <- (strip_install (last + 1)), svis_strip, (scnt_of x y R); reflexivity
             |rewrite Ea, <- (strip_install (last + 1)); reflexivity|exact I].
    + sr3; [rewrite svis_strip, (scnt_of x y R); reflexivity|reflexivity|exact I].
    + (* SAVEPOINT *)
      pose proof (savepoint_refines n x y R) as H.
      sr3; [rewrite svis_strip, (scnt_of _ _ H); reflexivity|reflexivity|exact H].
    + discriminate Hn.
    + (* RELEASE *)
      pose proof (release_refines n x y R) as H.
      destruct (m_release n x) as [x'|]; destruct (s_release n y) as [y'|]; try contradiction.
      * sr3; [rewrite svis_strip, (scnt_of _ _ H); reflexivity|reflexivity|exact H].
      * apply Hfail.
    + sr3; [rewrite svis_strip; reflexivity|reflexivity|exact I].
  - (* no transaction *)
    unfold mlocal, slocal, mlocal_idle, slocal_idle.
    assert (Hfail : forall b, step_rel d (L d last None, ob_fail d b) (SL (tmap strip_tbl d) None, sob_fail (tmap strip_tbl d) b)).
    { intros b. sr3; [unfold ob_fail, sob_fail; rewrite svis_strip; reflexivity|reflexivity|exact I]. }
    destruct o; cbv beta iota zeta.
    + pose proof (begin_refines d last ro) as H.
      sr3; [rewrite svis_strip, (scnt_of _ _ H); reflexivity|reflexivity|exact H].
    + pose proof (begin_refines d last false) as H.
      sr3; [rewrite svis_strip, (scnt_of _ _ H); reflexivity|reflexivity|exact H].
    + apply idle_dml_refines; reflexivity.
    + apply idle_dml_refines; reflexivity.
    + apply idle_dml_refines; reflexivity.
    + apply idle_dml_refines; reflexivity.
    + apply idle_dml_refines; reflexivity.
    + apply idle_dml_refines; reflexivity.
    + sr3; [rewrite svis_strip, tg_tmap, range_of_strip, slive_strip; reflexivity|reflexivity|exact I].
    + apply Hfail.
    + apply Hfail.
    + apply Hfail.
    + apply Hfail.
    + apply Hfail.
    + apply Hfail.
    + apply Hfail.
    + sr3; [rewrite svis_strip; reflexivity|reflexivity|exact I].
Qed.

(* ---- whole runs ---- *)
Definition Rst (m : mstate) (s : sstate) : Prop :=
  s_db s = tmap strip_tbl (m_db m) /\ forall i, Rox (tg i (m_sess m)) (tg i (s_sess s)).

Lemma Rst_init : Rst minit sinit.
Proof. split; [reflexivity|]. intros i. destruct i; exact I. Qed.

Lemma mverdict_local st p : mverdict st p = lverdict (m_db st) (m_last st) (tg (fst p) (m_sess st)) (snd p).
Proof. reflexivity. Qed.

Lemma step_refines m s p :
  Rst m s -> not_rbto (snd p) = true ->
  snd (mstep m p) = snd (sstep false s p (mverdict m p)) /\
  Rst (fst (mstep m p)) (fst (sstep false s p (mverdict m p))).
Proof.
  intros [Hd Hs] Hn. destruct p as [i o]. simpl in Hn.
  rewrite mverdict_local. unfold mstep, sstep. simpl fst. simpl snd. rewrite Hd.
  pose proof (mlocal_refines (m_db m) (m_last m) _ _ o (Hs i) Hn) as H.
  destruct (mlocal (m_db m) (m_last m) (tg i (m_sess m)) o) as [l ob].
  destruct (slocal false (tmap strip_tbl (m_db m)) (tg i (s_sess s)) o
                   (lverdict (m_db m) (m_last m) (tg i (m_sess m)) o)) as [sl sob].
  destruct H as [H1 [H2 H3]]. simpl in *. split; [exact H1|]. split; [exact H2|].
  intros j. simpl. destruct (i3_eq_dec j i) as [E|E].
  - subst j. rewrite !tg_ts_same. exact H3.
  - rewrite !tg_ts_other by exact E. apply Hs.
Qed.

Theorem refinement_proof : forall steps m s,
  Rst m s -> no_rbto steps = true ->
  mtrace m steps = strace false s (with_verdicts m steps).
Proof.
  induction steps as [|p r IH]; intros m s R Hn; [reflexivity|].
  simpl in Hn. apply andb_prop in Hn as [Hn1 Hn2].
  assert (Hn1' : not_rbto (snd p) = true) by (destruct p as [i o]; destruct o; simpl in *; try reflexivity; discriminate).
  destruct (step_refines m s p R Hn1') as [Ho Rn].
  simpl. rewrite Ho. f_equal. apply IH; assumption.
Qed.
