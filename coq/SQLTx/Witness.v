(* C13 — witnesses: where the faithful model leaves the obvious specification (each replayed on the
   real engine by the harness), and examples showing that the premises of the partial theorems are
   satisfiable.  Everything here is closed computation (vm_compute). *)
From V Require Import SQLTx.Model SQLTx.Spec SQLTx.Atomic.

(* -- 1. ROLLBACK TO SAVEPOINT keeps the writes made after the savepoint --------------------------
      INSERT 1; SAVEPOINT s; INSERT 2; ROLLBACK TO SAVEPOINT s; COMMIT  commits both rows, and the
      commit reports 1 affected row. *)
Definition w_savepoint : list step :=
  [(I0, OBegin false); (I0, OInsert TA 1 10); (I0, OSavepoint 1); (I0, OInsert TA 2 20);
   (I0, ORollbackTo 1); (I0, OCommit)].

Lemma rollback_to_savepoint_refuted_proof :
  exists steps,
    t_0 (vis (m_db (mrun minit steps))) = [(1, 10); (2, 20)]%Z /\
    t_0 (svis (s_db (srun false sinit (with_verdicts minit steps)))) = [(1, 10)]%Z /\
    mtrace minit steps <> strace false sinit (with_verdicts minit steps).
Proof.
  exists w_savepoint. split; [vm_compute; reflexivity|].
  split; [vm_compute; reflexivity|]. vm_compute. intros H. discriminate H.
Qed.

(* -- 2. the snapshot is not one point in time: it is taken per table, at the first access ---------
      a read-only transaction reads ta, another session commits one transaction that inserts into
      ta and tc, the read-only transaction then sees the new row in tc but not the one in ta *)
Definition w_snapshot : list step :=
  [(I0, OBegin true); (I0, OSelect TA None None);
   (I1, OBegin false); (I1, OInsert TA 2 20); (I1, OInsert TC 2 20); (I1, OCommit);
   (I0, OSelect TA None None); (I0, OSelect TC None None)].

Lemma fixed_snapshot_refuted_proof :
  exists steps,
    no_rbto steps = true /\
    map (fun e => o_rows (snd e)) (skipn 6 (mtrace minit steps)) = [[]; [(2, 20)]]%Z /\
    map (fun e => o_rows (snd e)) (skipn 6 (strace true sinit (with_verdicts minit steps))) = [[]; []] /\
    mtrace minit steps <> strace true sinit (with_verdicts minit steps).
Proof.
  exists w_snapshot. split; [vm_compute; reflexivity|].
  split; [vm_compute; reflexivity|]. split; [vm_compute; reflexivity|].
  vm_compute. intros H. discriminate H.
Qed.

(* -- 3. (fixed by 62a15b5) the duplicate-key test of INSERT sees the transaction's own DELETE:
      with row 1 committed, DELETE 1; SELECT (empty); INSERT 1; SELECT; COMMIT behaves as the spec -- *)
Definition w_own_delete : list step :=
  [(I0, OInsert TA 1 10); (I0, OBegin false); (I0, ODelete TA (Some 1%Z) (Some 1%Z));
   (I0, OSelect TA None None); (I0, OInsert TA 1 11); (I0, OSelect TA None None); (I0, OCommit)].

Example own_delete_then_insert :
  map (fun e => (o_rows (snd e), o_err (snd e))) (skipn 3 (mtrace minit w_own_delete)) =
    [([], false); ([], false); ([(1, 11)]%Z, false); ([], false)] /\
  t_0 (vis (m_db (mrun minit w_own_delete))) = [(1, 11)]%Z.
Proof. split; vm_compute; reflexivity. Qed.

(* -- the premises of the partial theorems are satisfiable by a program that exercises
      two interleaved sessions, a rejected COMMIT, a failed statement, savepoints and RELEASE -- *)
Definition w_clean : list step :=
  [(I0, OInsert TA 1 10); (I0, OBegin false); (I1, OBeginStmt);
   (I0, OUpdate TA None None 5); (I1, OInsert TA 2 20); (I0, OSavepoint 1); (I0, OInsertAuto TB 7);
   (I1, OCommit); (I0, ORelease 1); (I0, OSelect TA None None); (I0, OCommit);
   (I1, OBegin false); (I1, OInsert TA 2 21); (I1, OSelect TB None None); (I2, OSelect TA None None)].

Example premises_satisfiable :
  no_rbto w_clean = true /\
  map (fun e => o_err (snd e)) (mtrace minit w_clean) =
    [false; false; false; false; false; false; false; false; false; false; true; false; true; false; false].
Proof. repeat split; vm_compute; reflexivity. Qed.

(* -- the premises of rollback_leaves_nothing are satisfiable: session 0 works inside a transaction
      that it rolls back, then fails a statement in a second one, interleaved with commits of
      session 1; none of its steps reports a commit and it ends without a transaction -- *)
Definition w_rollback : list step :=
  [(I1, OInsert TA 1 10); (I0, OBegin false); (I0, OUpdate TA None None 5); (I1, OInsertAuto TB 3);
   (I0, OInsert TC 4 4); (I0, ORollback); (I0, OBeginStmt); (I0, OInsert TA 2 2); (I1, OInsert TA 3 3);
   (I0, OInsert TA 2 3); (I1, OSelect TA None None)].

Example rollback_premises_satisfiable :
  tg I0 (m_sess minit) = None /\
  forallb (fun e => negb (i3_eqb (fst (fst e)) I0) || negb (commits (snd e))) (mtrace minit w_rollback) = true /\
  tg I0 (m_sess (mrun minit w_rollback)) = None /\
  t_0 (vis (m_db (mrun minit w_rollback))) = [(1, 10); (3, 3)]%Z.
Proof. repeat split; vm_compute; reflexivity. Qed.
