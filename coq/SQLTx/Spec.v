(* C13 — the abstract specification of SQL transactions (definitions only).

   A database is, per table, a key-sorted map  pk -> (deleted?, v)  (a deleted key is remembered,
   because the AUTO_INCREMENT generator never reuses it).  A transaction is a list of statements
   applied to a PRIVATE COPY of the committed tables:
     - [eager = true]  (the obvious reading of "a fixed snapshot"): the copy of all tables is
       taken at BEGIN;
     - [eager = false] the copy of a table is taken when the transaction first touches the table
       (at BEGIN for the AUTO_INCREMENT table of a read-write transaction);
   a SELECT reads the private copy; COMMIT installs the changes the transaction applied, all at
   once, or is rejected as a whole (the verdict is an input: the spec allows any COMMIT to be
   rejected); ROLLBACK, a failed statement, a failed COMMIT and closing the session discard the
   copy; ROLLBACK TO SAVEPOINT restores the copy taken at the savepoint and drops the savepoints
   created after it; the affected-row count is the number of row changes applied and the
   first/last inserted keys are those of the rows put into the AUTO_INCREMENT table. *)
From V Require Export SQLTx.Model.

Record scell := SC { s_del : bool; s_val : Z }.
Definition stbl := list (Z * scell).
Definition sdb := tri stbl.

Definition strip (c : cell) : scell := SC (c_del c) (c_val c).
Definition strip_tbl (l : tbl) : stbl := map (fun p => (fst p, strip (snd p))) l.
Definition slive (l : stbl) : list (Z * Z) :=
  map (fun p => (fst p, s_val (snd p))) (filter (fun p => negb (s_del (snd p))) l).

(* the counters are not state: they are computed from the list of applied row changes *)
Definition noted (w : wentry) : bool :=
  autoinc (w_tid w) && match w_kind w with WIns | WUps => true | _ => false end.
Definition derive_last (t : tid) (log : list wentry) : option Z :=
  fold_left (fun acc w => if i3_eqb (w_tid w) t && noted w then Some (w_pk w) else acc) log None.
Definition derive_first (t : tid) (log : list wentry) : option Z :=
  fold_left (fun acc w => match acc with
                          | Some _ => acc
                          | None => if i3_eqb (w_tid w) t && noted w then Some (w_pk w) else None
                          end) log None.
Definition derive (log : list wentry) : counters :=
  K (N.of_nat (length log))
    (T3 (derive_last I0 log) (derive_last I1 log) (derive_last I2 log))
    (T3 (derive_first I0 log) (derive_first I1 log) (derive_first I2 log)).

Record stx := STx {
  y_ro : bool;
  y_work : tri (option stbl);            (* the private copy, per table (None: not taken yet) *)
  y_applied : list wentry;               (* row changes applied so far, in order *)
  y_maxpk : tri Z;                       (* AUTO_INCREMENT generator *)
  y_sps : list (N * (tri (option stbl) * list wentry))   (* savepoints, newest first *)
}.
Definition sset_work v y := STx (y_ro y) v (y_applied y) (y_maxpk y) (y_sps y).
Definition sset_applied v y := STx (y_ro y) (y_work y) v (y_maxpk y) (y_sps y).
Definition sset_maxpk v y := STx (y_ro y) (y_work y) (y_applied y) v (y_sps y).
Definition sset_sps v y := STx (y_ro y) (y_work y) (y_applied y) (y_maxpk y) v.

Definition stouch (d : sdb) (t : tid) (y : stx) : stx :=
  match tg t (y_work y) with
  | Some _ => y
  | None => sset_work (ts t (Some (tg t d)) (y_work y)) y
  end.
Definition swork (t : tid) (y : stx) : stbl :=
  match tg t (y_work y) with Some l => l | None => [] end.
Definition s_live_at (t : tid) (pk : Z) (y : stx) : bool :=
  match afind pk (swork t y) with Some c => negb (s_del c) | None => false end.

Definition swrite (d : sdb) (w : wentry) (y : stx) : option stx :=
  if y_ro y then None
  else let y1 := stouch d (w_tid w) y in
       Some (sset_applied (y_applied y1 ++ [w])
               (sset_work (ts (w_tid w) (Some (aset (w_pk w) (SC (is_del (w_kind w)) (w_val w)) (swork (w_tid w) y1)))
                              (y_work y1)) y1)).

Definition s_put_row (d : sdb) (isins : bool) (t : tid) (pk v : Z) (y : stx) : option stx :=
  let must := autoinc t && (pk <=? tg t (y_maxpk y))%Z in
  let y1 := stouch d t y in
  let found := s_live_at t pk y1 in
  if negb found && must then None
  else if isins && found then None
  else swrite d (W t pk (if isins then WIns else WUps) v) y1.

Definition s_ins_auto (d : sdb) (t : tid) (v : Z) (y : stx) : option stx :=
  if autoinc t then
    let pk := (tg t (y_maxpk y) + 1)%Z in
    let y1 := stouch d t (sset_maxpk (ts t pk (y_maxpk y)) y) in
    if s_live_at t pk y1 then None else swrite d (W t pk WIns v) y1
  else None.

Definition s_update (d : sdb) (t : tid) (lo hi : option Z) (dv : Z) (y : stx) : option stx :=
  let y1 := stouch d t y in
  fold_left (fun acc kv => obind acc (swrite d (W t (fst kv) WUpd (snd kv + dv)%Z)))
            (slive (range_of lo hi false (swork t y1))) (Some y1).

Definition s_delete (d : sdb) (t : tid) (lo hi : option Z) (y : stx) : option stx :=
  let y1 := stouch d t y in
  fold_left (fun acc kv => obind acc (swrite d (W t (fst kv) WDel (snd kv))))
            (slive (range_of lo hi false (swork t y1))) (Some y1).

Definition sdml (d : sdb) (o : op) (y : stx) : option stx :=
  if y_ro y then None else
  match o with
  | OInsert t pk v => s_put_row d true t pk v y
  | OInsert2 t pk1 v1 pk2 v2 => obind (s_put_row d true t pk1 v1 y) (s_put_row d true t pk2 v2)
  | OInsertAuto t v => s_ins_auto d t v y
  | OUpsert t pk v => s_put_row d false t pk v y
  | OUpdate t lo hi dv => s_update d t lo hi dv y
  | ODelete t lo hi => s_delete d t lo hi y
  | _ => None
  end.

Definition s_select (d : sdb) (t : tid) (lo hi : option Z) (y : stx) : stx * list (Z * Z) :=
  let y1 := stouch d t y in (y1, slive (range_of lo hi false (swork t y1))).

(* savepoints *)
Fixpoint drop_newer {A} (n : N) (l : list (N * A)) : list (N * A) :=
  match l with
  | [] => []
  | (m, a) :: r => if m =? n then l else drop_newer n r
  end.
Definition s_savepoint (n : N) (y : stx) : stx := sset_sps (nset n (y_work y, y_applied y) (y_sps y)) y.
Definition s_rollback_to (n : N) (y : stx) : option stx :=
  match nfind n (y_sps y) with
  | Some (w, a) => Some (sset_sps (drop_newer n (y_sps y)) (sset_applied a (sset_work w y)))
  | None => None
  end.
Definition s_release (n : N) (y : stx) : option stx :=
  match nfind n (y_sps y) with
  | Some _ => Some (sset_sps (nremove n (y_sps y)) y)
  | None => None
  end.

Definition smaxkey (l : stbl) : Z :=
  match range_of None None true l with [] => 0%Z | (k, _) :: _ => k end.

Definition sbegin (eager : bool) (d : sdb) (ro : bool) : stx :=
  STx ro
      (if eager then tmap Some d
       else if ro then tconst None else ts I1 (Some (tg I1 d)) (tconst None))
      []
      (if ro then tconst 0%Z else ts I1 (smaxkey (tg I1 d)) (tconst 0%Z))
      [].

Definition sinstall (log : list wentry) (d : sdb) : sdb :=
  fold_left (fun acc w => ts (w_tid w) (aset (w_pk w) (SC (is_del (w_kind w)) (w_val w)) (tg (w_tid w) acc)) acc) log d.

(* verdict: whether a COMMIT that has something to install is accepted *)
Definition s_commit_res (verdict : bool) (y : stx) : cres :=
  if y_ro y then CErr
  else match y_applied y with
       | [] => COkEmpty
       | _ => if verdict then COk else CErr
       end.

Record sstate := SS { s_db : sdb; s_sess : tri (option stx) }.
Definition sinit : sstate := SS (tconst []) (tconst None).

Definition svis (d : sdb) : tri (list (Z * Z)) := tmap slive d.
Definition sob_fail (d : sdb) (oldclosed : bool) : obs := Ob true [] false oldclosed None None (svis d).
Definition scnt (y : stx) : counters := derive (y_applied y).

Record sloc := SL { sl_db : sdb; sl_tx : option stx }.

Definition slocal_idle (eager : bool) (d : sdb) (o : op) (verdict : bool) : sloc * obs :=
  let same := SL d None in
  match o with
  | OBegin ro =>
      let y := sbegin eager d ro in
      (SL d (Some y), Ob false [] true false (Some (scnt y)) None (svis d))
  | OBeginStmt =>
      let y := sbegin eager d false in
      (SL d (Some y), Ob false [] true false (Some (scnt y)) None (svis d))
  | OSelect t lo hi =>
      (same, Ob false (slive (range_of lo hi false (tg t d))) false false None None (svis d))
  | OClose => (same, Ob false [] false false None None (svis d))
  | OBadQuery | OBadExec _ | OCommit | ORollback | OSavepoint _ | ORollbackTo _ | ORelease _ =>
      (same, sob_fail d false)
  | _ =>
      match sdml d o (sbegin eager d false) with
      | None => (same, sob_fail d false)
      | Some y =>
          match s_commit_res verdict y with
          | CErr => (same, sob_fail d false)
          | COkEmpty => (same, Ob false [] false false None (Some (scnt y, false)) (svis d))
          | COk =>
              let d' := sinstall (y_applied y) d in
              (SL d' None, Ob false [] false false None (Some (scnt y, true)) (svis d'))
          end
      end
  end.

Definition slocal_tx (d : sdb) (y : stx) (o : op) (verdict : bool) : sloc * obs :=
  let close := SL d None in
  let keep y' := SL d (Some y') in
  let ok y' := Ob false [] true false (Some (scnt y')) None (svis d) in
  match o with
  | OBegin _ => (keep y, Ob true [] true false (Some (scnt y)) None (svis d))
  | OBeginStmt => (close, sob_fail d true)
  | OSelect t lo hi =>
      let '(y1, rows) := s_select d t lo hi y in
      (keep y1, Ob false rows true false (Some (scnt y1)) None (svis d))
  | OBadQuery => (keep y, Ob true [] true false (Some (scnt y)) None (svis d))
  | OBadExec parse => (close, sob_fail d (negb parse))
  | OCommit =>
      match s_commit_res verdict y with
      | CErr => (close, sob_fail d true)
      | COkEmpty => (close, Ob false [] false true None (Some (scnt y, false)) (svis d))
      | COk =>
          let d' := sinstall (y_applied y) d in
          (SL d' None, Ob false [] false true None (Some (scnt y, true)) (svis d'))
      end
  | ORollback => (close, Ob false [] false true None (Some (scnt y, false)) (svis d))
  | OSavepoint n => let y' := s_savepoint n y in (keep y', ok y')
  | ORollbackTo n =>
      match s_rollback_to n y with Some y' => (keep y', ok y') | None => (close, sob_fail d true) end
  | ORelease n =>
      match s_release n y with Some y' => (keep y', ok y') | None => (close, sob_fail d true) end
  | OClose => (close, Ob false [] false true None None (svis d))
  | _ =>
      match sdml d o y with Some y' => (keep y', ok y') | None => (close, sob_fail d true) end
  end.

Definition slocal (eager : bool) (d : sdb) (oy : option stx) (o : op) (verdict : bool) : sloc * obs :=
  match oy with
  | None => slocal_idle eager d o verdict
  | Some y => slocal_tx d y o verdict
  end.

Definition sstep (eager : bool) (st : sstate) (p : step) (verdict : bool) : sstate * obs :=
  let '(l, ob) := slocal eager (s_db st) (tg (fst p) (s_sess st)) (snd p) verdict in
  (SS (sl_db l) (ts (fst p) (sl_tx l) (s_sess st)), ob).

Fixpoint strace (eager : bool) (st : sstate) (steps : list (step * bool)) : list (step * obs) :=
  match steps with
  | [] => []
  | (p, v) :: r => (p, snd (sstep eager st p v)) :: strace eager (fst (sstep eager st p v)) r
  end.

Fixpoint srun (eager : bool) (st : sstate) (steps : list (step * bool)) : sstate :=
  match steps with
  | [] => st
  | (p, v) :: r => srun eager (fst (sstep eager st p v)) r
  end.

(* ---- the engine's MVCC verdicts, fed to the spec as its COMMIT choices ---- *)
Definition mverdict (st : mstate) (p : step) : bool :=
  match tg (fst p) (m_sess st) with
  | Some x => match snd p with OCommit => validate (m_db st) (m_last st) x | _ => true end
  | None =>
      if is_dml (snd p) then
        match mdml (m_db st) (m_last st) (snd p) (mbegin (m_db st) (m_last st) false) with
        | Some x => validate (m_db st) (m_last st) x
        | None => true
        end
      else true
  end.
Fixpoint with_verdicts (st : mstate) (steps : list step) : list (step * bool) :=
  match steps with
  | [] => []
  | p :: r => (p, mverdict st p) :: with_verdicts (fst (mstep st p)) r
  end.

(* ---- side conditions of the partial theorems ---- *)
Definition no_rbto (steps : list step) : bool :=
  forallb (fun p => match snd p with ORollbackTo _ => false | _ => true end) steps.
