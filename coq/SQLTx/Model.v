(* C13 — faithful model of immudb's SQL transactions (embedded/sql/sql_tx.go, engine.go
   execPreparedStmts / NewTx / Query, the BEGIN/COMMIT/ROLLBACK/SAVEPOINT statements of stmt.go)
   over one store transaction (embedded/store/ongoing_tx.go, ongoing_tx_keyreader.go).

   Fixed schema (created by the harness before every program, catalog cache warm, no DDL later):
     ta (id INTEGER, v INTEGER, PRIMARY KEY id)
     tb (id INTEGER AUTO_INCREMENT, v INTEGER, PRIMARY KEY id)
     tc (id INTEGER, v INTEGER, PRIMARY KEY id)
   A table is its primary index: a key-sorted association list  pk -> (tx id of the committed
   version, deleted flag, value of column v).  Deleted rows stay as tombstones, as in the store.

   This file contains definitions only (no proofs). *)
From V Require Export Base.Res.

(* ---------- three-element index type, used for table ids and session ids ---------- *)
Inductive i3 := I0 | I1 | I2.
Definition i3_eqb (a b : i3) : bool :=
  match a, b with I0, I0 | I1, I1 | I2, I2 => true | _, _ => false end.

Record tri (A : Type) := T3 { t_0 : A; t_1 : A; t_2 : A }.
Arguments T3 {A} _ _ _.
Arguments t_0 {A} _.
Arguments t_1 {A} _.
Arguments t_2 {A} _.
Definition tg {A} (i : i3) (t : tri A) : A :=
  match i with I0 => t_0 t | I1 => t_1 t | I2 => t_2 t end.
Definition ts {A} (i : i3) (a : A) (t : tri A) : tri A :=
  match i with
  | I0 => T3 a (t_1 t) (t_2 t)
  | I1 => T3 (t_0 t) a (t_2 t)
  | I2 => T3 (t_0 t) (t_1 t) a
  end.
Definition tmap {A B} (f : A -> B) (t : tri A) : tri B := T3 (f (t_0 t)) (f (t_1 t)) (f (t_2 t)).
Definition tconst {A} (a : A) : tri A := T3 a a a.

Definition tid := i3.
Definition sid := i3.
Notation TA := I0 (only parsing).
Notation TB := I1 (only parsing).
Notation TC := I2 (only parsing).
(* tb.id is AUTO_INCREMENT *)
Definition autoinc (t : tid) : bool := match t with I1 => true | _ => false end.

(* ---------- association lists sorted by an integer key ---------- *)
Fixpoint aset {A} (k : Z) (a : A) (l : list (Z * A)) : list (Z * A) :=
  match l with
  | [] => [(k, a)]
  | (k', a') :: r =>
      if (k <? k')%Z then (k, a) :: l
      else if (k =? k')%Z then (k, a) :: r
      else (k', a') :: aset k a r
  end.
Fixpoint afind {A} (k : Z) (l : list (Z * A)) : option A :=
  match l with
  | [] => None
  | (k', a') :: r => if (k =? k')%Z then Some a' else afind k r
  end.

(* one version in the primary index.  c_tx = id of the store transaction that wrote it;
   0 = written by the ongoing transaction (ongoingValRef.Tx() returns 0) *)
Record cell := Cell { c_tx : N; c_del : bool; c_val : Z }.
Definition tbl := list (Z * cell).

Definition in_range (lo hi : option Z) (k : Z) : bool :=
  (match lo with Some l => (l <=? k)%Z | None => true end) &&
  (match hi with Some h => (k <=? h)%Z | None => true end).
(* the entries a key reader over [lo, hi] yields, in reader order (tombstones included) *)
Definition range_of {A} (lo hi : option Z) (desc : bool) (l : list (Z * A)) : list (Z * A) :=
  let f := filter (fun p => in_range lo hi (fst p)) l in
  if desc then rev f else f.
(* rows a SQL scan returns: the IgnoreDeleted filter, then (id, v) *)
Definition live (l : tbl) : list (Z * Z) :=
  map (fun p => (fst p, c_val (snd p))) (filter (fun p => negb (c_del (snd p))) l).

(* ---------- the write-set of the store transaction (tx.entries, in execution order) ---------- *)
Inductive wkind := WIns | WUps | WUpd | WDel.
Definition is_del (k : wkind) : bool := match k with WDel => true | _ => false end.
Record wentry := W { w_tid : tid; w_pk : Z; w_kind : wkind; w_val : Z }.

Definition own_cell (w : wentry) : cell := Cell 0 (is_del (w_kind w)) (w_val w).
Definition apply_w (t : tid) (acc : tbl) (w : wentry) : tbl :=
  if i3_eqb (w_tid w) t then aset (w_pk w) (own_cell w) acc else acc.
(* what a key reader of the ongoing tx sees for table t: the snapshot with the tx's own
   entries on top (snap.set + refInterceptor) *)
Definition view (rows : tbl) (log : list wentry) (t : tid) : tbl := fold_left (apply_w t) log rows.

(* ---------- MVCC read-set ---------- *)
(* expectedReader: spec + the reads performed (Some (key, tx) | None = expectedNoMoreEntries) *)
Record rdr := Rdr { r_tid : tid; r_lo : option Z; r_hi : option Z; r_desc : bool;
                    r_reads : list (option (Z * N)) }.

(* per-index snapshot: taken lazily by OngoingTx.snap at the first access to that index *)
Record snap := Snap { sn_rows : tbl; sn_base : N }.

(* SQLTx bookkeeping *)
Record counters := K { k_upd : N; k_last : tri (option Z); k_first : tri (option Z) }.
Definition k_zero : counters := K 0 (tconst None) (tconst None).

Record mtx := MTx {
  x_ro : bool;                         (* opts.ReadOnly *)
  x_snaps : tri (option snap);         (* tx.snapshots (per primary index) *)
  x_order : list tid;                  (* ... in creation order *)
  x_log : list wentry;                 (* tx.entries *)
  x_gets : list (tid * Z * N);         (* mvccReadSet.expectedGets: key, expectedTx (0 = absent) *)
  x_rdrs : list rdr;                   (* mvccReadSet.expectedReaders *)
  x_maxpk : tri Z;                     (* table.maxPK of the tx's catalog clone *)
  x_cnt : counters;                    (* updatedRows, lastInsertedPKs, firstInsertedPKs *)
  x_sps : list (N * counters)          (* savepoints: name -> savepointState *)
}.

Definition set_snaps v x := MTx (x_ro x) v (x_order x) (x_log x) (x_gets x) (x_rdrs x) (x_maxpk x) (x_cnt x) (x_sps x).
Definition set_order v x := MTx (x_ro x) (x_snaps x) v (x_log x) (x_gets x) (x_rdrs x) (x_maxpk x) (x_cnt x) (x_sps x).
Definition set_log v x := MTx (x_ro x) (x_snaps x) (x_order x) v (x_gets x) (x_rdrs x) (x_maxpk x) (x_cnt x) (x_sps x).
Definition set_gets v x := MTx (x_ro x) (x_snaps x) (x_order x) (x_log x) v (x_rdrs x) (x_maxpk x) (x_cnt x) (x_sps x).
Definition set_rdrs v x := MTx (x_ro x) (x_snaps x) (x_order x) (x_log x) (x_gets x) v (x_maxpk x) (x_cnt x) (x_sps x).
Definition set_maxpk v x := MTx (x_ro x) (x_snaps x) (x_order x) (x_log x) (x_gets x) (x_rdrs x) v (x_cnt x) (x_sps x).
Definition set_cnt v x := MTx (x_ro x) (x_snaps x) (x_order x) (x_log x) (x_gets x) (x_rdrs x) (x_maxpk x) v (x_sps x).
Definition set_sps v x := MTx (x_ro x) (x_snaps x) (x_order x) (x_log x) (x_gets x) (x_rdrs x) (x_maxpk x) (x_cnt x) v.

Definition empty_tx (ro : bool) : mtx :=
  MTx ro (tconst None) [] [] [] [] (tconst 0%Z) k_zero [].

Definition db := tri tbl.

(* OngoingTx.snap: the snapshot of an index is taken at the first access and then reused *)
Definition touch (d : db) (last : N) (t : tid) (x : mtx) : mtx :=
  match tg t (x_snaps x) with
  | Some _ => x
  | None => set_order (x_order x ++ [t]) (set_snaps (ts t (Some (Snap (tg t d) last)) (x_snaps x)) x)
  end.

Definition mview (t : tid) (x : mtx) : tbl :=
  match tg t (x_snaps x) with
  | Some sn => view (sn_rows sn) (x_log x) t
  | None => []
  end.

Definition add_get (g : tid * Z * N) (x : mtx) : mtx :=
  if x_ro x then x else set_gets (x_gets x ++ [g]) x.
Definition add_rdr (r : rdr) (x : mtx) : mtx :=
  if x_ro x then x else set_rdrs (x_rdrs x ++ [r]) x.

Definition reads_of (ents : tbl) : list (option (Z * N)) :=
  map (fun p => Some (fst p, c_tx (snd p))) ents.

(* a row reader over table t restricted to lo <= id <= hi, read to the end
   (newRawRowReader + Read until ErrNoMoreRows); every underlying entry is recorded *)
Definition mscan (d : db) (last : N) (t : tid) (lo hi : option Z) (x : mtx) : mtx * tbl :=
  let x1 := touch d last t x in
  let ents := range_of lo hi false (mview t x1) in
  (add_rdr (Rdr t lo hi false (reads_of ents ++ [None])) x1, ents).

Definition own_written (t : tid) (pk : Z) (log : list wentry) : bool :=
  existsb (fun w => i3_eqb (w_tid w) t && (w_pk w =? pk)%Z) log.

(* OngoingTx.Get on the mapped primary-key entry (tx.get in UpsertIntoStmt / UpdateStmt).
   Snapshot.GetWithFilters applies IgnoreDeleted to the snapshot's own value reference BEFORE the
   refInterceptor substitutes the ongoing entry; a key written by this tx was snap.set with a
   blank (non-deleted) indexed value, so it is always "found", even when the tx deleted it
   (UpsertIntoStmt then looks at the returned reference's metadata, see m_exists). *)
Definition mget (d : db) (last : N) (t : tid) (pk : Z) (x : mtx) : mtx * bool :=
  let x1 := touch d last t x in
  if own_written t pk (x_log x1) then (x1, true)
  else match tg t (x_snaps x1) with
       | Some sn =>
           match afind pk (sn_rows sn) with
           | Some c => if c_del c then (add_get (t, pk, 0) x1, false)
                       else (add_get (t, pk, c_tx c) x1, true)
           | None => (add_get (t, pk, 0) x1, false)
           end
       | None => (x1, false)
       end.

Definition bump (c : counters) : counters := K (k_upd c + 1) (k_last c) (k_first c).
(* tx.set of a row entry followed by updatedRows++ (doUpsert / DeleteFromStmt.execAt) *)
Definition mwrite (d : db) (last : N) (w : wentry) (x : mtx) : option mtx :=
  if x_ro x then None   (* ErrReadOnlyTx *)
  else let x1 := touch d last (w_tid w) x in
       Some (set_cnt (bump (x_cnt x1)) (set_log (x_log x1 ++ [w]) x1)).

(* firstInsertedPKs / lastInsertedPKs (only written for the auto-increment column) *)
Definition note_pk (t : tid) (pk : Z) (x : mtx) : mtx :=
  if autoinc t then
    let c := x_cnt x in
    set_cnt (K (k_upd c) (ts t (Some pk) (k_last c))
               (match tg t (k_first c) with Some _ => k_first c | None => ts t (Some pk) (k_first c) end)) x
  else x.

(* the last write of the transaction to (t, pk) is a delete *)
Definition own_deleted (t : tid) (pk : Z) (log : list wentry) : bool :=
  fold_left (fun acc w => if i3_eqb (w_tid w) t && (w_pk w =? pk)%Z then is_del (w_kind w) else acc) log false.

(* the key-existence test of UpsertIntoStmt.execAt: tx.get on the mapped primary-key entry, and
   (since 62a15b5) a reference whose KVMetadata is Deleted counts as "not found": the reference
   tx.get returns for a key written by this transaction carries the metadata of the transaction's
   last write to it *)
Definition m_exists (d : db) (last : N) (t : tid) (pk : Z) (x : mtx) : mtx * bool :=
  let '(x1, found) := mget d last t pk x in
  (x1, found && negb (own_deleted t pk (x_log x1))).

(* one VALUES row of INSERT (isins) / UPSERT with an explicit id *)
Definition m_put_row (d : db) (last : N) (isins : bool) (t : tid) (pk v : Z) (x : mtx) : option mtx :=
  let must := autoinc t && (pk <=? tg t (x_maxpk x))%Z in   (* pkMustExist *)
  let x1 := note_pk t pk x in
  let '(x2, found) := m_exists d last t pk x1 in
  if negb found && must then None
  else if isins && found then None                          (* ErrKeyAlreadyExists *)
  else mwrite d last (W t pk (if isins then WIns else WUps) v) x2.

(* INSERT INTO t(v) VALUES (v): the id is generated (table.maxPK++) *)
Definition m_ins_auto (d : db) (last : N) (t : tid) (v : Z) (x : mtx) : option mtx :=
  if autoinc t then
    let pk := (tg t (x_maxpk x) + 1)%Z in
    let x1 := note_pk t pk (set_maxpk (ts t pk (x_maxpk x)) x) in
    let '(x2, found) := m_exists d last t pk x1 in
    if found then None else mwrite d last (W t pk WIns v) x2
  else None.                                                (* id is NOT NULL *)

Definition obind {A B} (o : option A) (f : A -> option B) : option B :=
  match o with Some a => f a | None => None end.

(* UPDATE t SET v = v + dv WHERE id >= lo AND id <= hi *)
Definition m_update (d : db) (last : N) (t : tid) (lo hi : option Z) (dv : Z) (x : mtx) : option mtx :=
  let '(x1, ents) := mscan d last t lo hi x in
  fold_left (fun acc kv => obind acc (fun xa =>
               let '(xb, _) := mget d last t (fst kv) xa in
               mwrite d last (W t (fst kv) WUpd (snd kv + dv)%Z) xb))
            (live ents) (Some x1).

(* DELETE FROM t WHERE id >= lo AND id <= hi *)
Definition m_delete (d : db) (last : N) (t : tid) (lo hi : option Z) (x : mtx) : option mtx :=
  let '(x1, ents) := mscan d last t lo hi x in
  fold_left (fun acc kv => obind acc (fun xa => mwrite d last (W t (fst kv) WDel (snd kv)) xa))
            (live ents) (Some x1).

(* ---------- operations of a session ---------- *)
Inductive op :=
| OBegin (ro : bool)                              (* engine.NewTx(opts.WithExplicitClose(true)[.WithReadOnly]) *)
| OBeginStmt                                      (* Exec "BEGIN TRANSACTION" *)
| OInsert (t : tid) (pk v : Z)                    (* INSERT INTO t(id, v) VALUES (pk, v) *)
| OInsert2 (t : tid) (pk1 v1 pk2 v2 : Z)          (* ... VALUES (pk1, v1), (pk2, v2) *)
| OInsertAuto (t : tid) (v : Z)                   (* INSERT INTO t(v) VALUES (v) *)
| OUpsert (t : tid) (pk v : Z)                    (* UPSERT INTO t(id, v) VALUES (pk, v) *)
| OUpdate (t : tid) (lo hi : option Z) (dv : Z)
| ODelete (t : tid) (lo hi : option Z)
| OSelect (t : tid) (lo hi : option Z)            (* engine.Query, read to the end *)
| OBadQuery                                       (* Query on a table that does not exist *)
| OBadExec (parse : bool)                         (* Exec: syntax error / unknown table *)
| OCommit | ORollback
| OSavepoint (n : N) | ORollbackTo (n : N) | ORelease (n : N)
| OClose.                                         (* session closed: tx.Cancel() if any *)

(* the DML statements: None = the statement failed (execPreparedStmts then cancels the tx) *)
Definition is_dml (o : op) : bool :=
  match o with
  | OInsert _ _ _ | OInsert2 _ _ _ _ _ | OInsertAuto _ _ | OUpsert _ _ _ | OUpdate _ _ _ _ | ODelete _ _ _ => true
  | _ => false
  end.
(* since 82bd2bd execPreparedStmts refuses every statement that is not read-only in a read-only
   transaction before executing it (also an UPDATE / DELETE that would match no row) *)
Definition mdml (d : db) (last : N) (o : op) (x : mtx) : option mtx :=
  if x_ro x then None else
  match o with
  | OInsert t pk v => m_put_row d last true t pk v x
  | OInsert2 t pk1 v1 pk2 v2 => obind (m_put_row d last true t pk1 v1 x) (m_put_row d last true t pk2 v2)
  | OInsertAuto t v => m_ins_auto d last t v x
  | OUpsert t pk v => m_put_row d last false t pk v x
  | OUpdate t lo hi dv => m_update d last t lo hi dv x
  | ODelete t lo hi => m_delete d last t lo hi x
  | _ => None
  end.

(* ---------- savepoints exactly as SQLTx.Savepoint / RollbackToSavepoint / ReleaseSavepoint ---------- *)
Definition nremove {A} (n : N) (l : list (N * A)) : list (N * A) :=
  filter (fun p => negb (fst p =? n)) l.
Fixpoint nfind {A} (n : N) (l : list (N * A)) : option A :=
  match l with [] => None | (m, a) :: r => if m =? n then Some a else nfind n r end.
Definition nset {A} (n : N) (a : A) (l : list (N * A)) : list (N * A) := (n, a) :: nremove n l.

Definition m_savepoint (n : N) (x : mtx) : mtx := set_sps (nset n (x_cnt x) (x_sps x)) x.
(* restores the counters only; the write-set is untouched; only the named savepoint is removed *)
Definition m_rollback_to (n : N) (x : mtx) : option mtx :=
  match nfind n (x_sps x) with
  | Some c => Some (set_sps (nremove n (x_sps x)) (set_cnt c x))
  | None => None
  end.
Definition m_release (n : N) (x : mtx) : option mtx :=
  match nfind n (x_sps x) with
  | Some _ => Some (set_sps (nremove n (x_sps x)) x)
  | None => None
  end.

(* ---------- commit: OngoingTx.checkPreconditions against the current committed state ---------- *)
Definition cur_get (d : db) (t : tid) (pk : Z) : option N :=
  match afind pk (tg t d) with
  | Some c => if c_del c then None else Some (c_tx c)
  | None => None
  end.
Definition check_get (d : db) (g : tid * Z * N) : bool :=
  let '(t, pk, e) := g in
  match cur_get d t pk with
  | None => e =? 0
  | Some tx => e =? tx
  end.

(* the replay loop over one expectedReads list; key = the entry read but not yet consumed *)
Fixpoint replay (cur : list (Z * N)) (key : option (Z * N)) (reads : list (option (Z * N))) : bool :=
  match reads with
  | [] => true
  | e :: rest =>
      let '(key1, cur1) :=
        match key with
        | Some _ => (key, cur)
        | None => match cur with [] => (None, []) | c :: r => (Some c, r) end
        end in
      match e with
      | None => match key1 with Some _ => false | None => true end
      | Some (ek, etx) =>
          if etx =? 0 then
            match key1 with
            | Some (k, _) => if (k =? ek)%Z then replay cur1 None rest else replay cur1 key1 rest
            | None => replay cur1 None rest
            end
          else
            match key1 with
            | None => false
            | Some (k, tx) => if (k =? ek)%Z && (tx =? etx) then replay cur1 None rest else false
            end
      end
  end.
Definition check_rdr (d : db) (r : rdr) : bool :=
  replay (map (fun p => (fst p, c_tx (snd p))) (range_of (r_lo r) (r_hi r) (r_desc r) (tg (r_tid r) d)))
         None (r_reads r).

(* Snapshot.Ts(): the index ts at snapshot time, +1 once the tx has written into it *)
Definition snap_ts (t : tid) (x : mtx) : N :=
  match tg t (x_snaps x) with
  | Some sn => sn_base sn + (if existsb (fun w => i3_eqb (w_tid w) t) (x_log x) then 1 else 0)
  | None => 0
  end.
(* the loop over tx.snapshots (the catalog snapshot, always first, has no local writes and no
   changed keys in this schema-stable setting: it never returns early and never conflicts) *)
Fixpoint validate_from (d : db) (last : N) (x : mtx) (order : list tid) : bool :=
  match order with
  | [] => true
  | t :: r =>
      if last <? snap_ts t x then true
      else forallb (check_get d) (filter (fun g => i3_eqb (fst (fst g)) t) (x_gets x)) &&
           forallb (check_rdr d) (filter (fun r => i3_eqb (r_tid r) t) (x_rdrs x)) &&
           validate_from d last x r
  end.
Definition validate (d : db) (last : N) (x : mtx) : bool := validate_from d last x (x_order x).

Definition committed_cell (id : N) (w : wentry) : cell := Cell id (is_del (w_kind w)) (w_val w).
Definition install (id : N) (log : list wentry) (d : db) : db :=
  fold_left (fun acc w => ts (w_tid w) (aset (w_pk w) (committed_cell id w) (tg (w_tid w) acc)) acc) log d.

Inductive cres := CErr | COkEmpty | COk.
(* SQLTx.Commit -> OngoingTx.AsyncCommit -> ImmuStore.precommit *)
Definition commit_res (d : db) (last : N) (x : mtx) : cres :=
  if x_ro x then CErr                                  (* ErrReadOnlyTx *)
  else match x_log x with
       | [] => COkEmpty                                (* ErrNoEntriesProvided is swallowed *)
       | _ => if validate d last x then COk else CErr  (* ErrTxReadConflict *)
       end.

(* ---------- NewTx ---------- *)
(* read-write: loadMaxPK for the auto-increment table (a descending key reader that reads one
   entry, tombstones included); read-only with a warm catalog cache: nothing is read *)
Definition mbegin (d : db) (last : N) (ro : bool) : mtx :=
  if ro then empty_tx true
  else
    let x1 := touch d last I1 (empty_tx false) in
    match range_of None None true (mview I1 x1) with
    | [] => add_rdr (Rdr I1 None None true [None]) x1
    | (k, c) :: _ => add_rdr (Rdr I1 None None true [Some (k, c_tx c)]) (set_maxpk (ts I1 k (x_maxpk x1)) x1)
    end.

(* ---------- what the harness observes for every step ---------- *)
Record obs := Ob {
  o_err : bool;                         (* the call returned an error *)
  o_rows : list (Z * Z);                (* rows of a SELECT *)
  o_open : bool;                        (* the session holds a transaction afterwards *)
  o_oldclosed : bool;                   (* the handle held before the call is Closed() afterwards *)
  o_cnt : option counters;              (* counters of the open transaction *)
  o_ctx : option (counters * bool);     (* the tx returned in committedTxs: counters, header present *)
  o_db : tri (list (Z * Z))             (* committed content of the three tables afterwards *)
}.

Record mstate := MS { m_db : db; m_last : N; m_sess : tri (option mtx) }.
Definition minit : mstate := MS (tconst []) 1 (tconst None).

Definition vis (d : db) : tri (list (Z * Z)) := tmap live d.

Definition ob_fail (d : db) (oldclosed : bool) : obs := Ob true [] false oldclosed None None (vis d).

(* what one step can read and change: the committed tables, the last transaction id and the
   stepping session's own transaction.  Nothing else (in particular no other session's
   uncommitted transaction) is an input of a step. *)
Record loc := L { l_db : db; l_last : N; l_tx : option mtx }.

(* a statement run by a session that holds no transaction: implicit tx, committed at the end *)
Definition mlocal_idle (d : db) (last : N) (o : op) : loc * obs :=
  let same := L d last None in
  match o with
  | OBegin ro =>
      let x := mbegin d last ro in
      (L d last (Some x), Ob false [] true false (Some (x_cnt x)) None (vis d))
  | OBeginStmt =>
      let x := mbegin d last false in
      (L d last (Some x), Ob false [] true false (Some (x_cnt x)) None (vis d))
  | OSelect t lo hi =>
      (same, Ob false (live (range_of lo hi false (tg t d))) false false None None (vis d))
  | OClose => (same, Ob false [] false false None None (vis d))
  | OBadQuery | OBadExec _ | OCommit | ORollback | OSavepoint _ | ORollbackTo _ | ORelease _ =>
      (same, ob_fail d false)
  | _ =>
      match mdml d last o (mbegin d last false) with
      | None => (same, ob_fail d false)
      | Some x =>
          match commit_res d last x with
          | CErr => (same, ob_fail d false)
          | COkEmpty => (same, Ob false [] false false None (Some (x_cnt x, false)) (vis d))
          | COk =>
              let d' := install (last + 1) (x_log x) d in
              (L d' (last + 1) None, Ob false [] false false None (Some (x_cnt x, true)) (vis d'))
          end
      end
  end.

(* a statement run inside the explicit transaction x held by the session *)
Definition mlocal_tx (d : db) (last : N) (x : mtx) (o : op) : loc * obs :=
  let close := L d last None in
  let keep x' := L d last (Some x') in
  let ok x' := Ob false [] true false (Some (x_cnt x')) None (vis d) in
  match o with
  | OBegin _ => (keep x, Ob true [] true false (Some (x_cnt x)) None (vis d))   (* not issued by the harness *)
  | OBeginStmt => (close, ob_fail d true)                                      (* ErrNestedTxNotSupported *)
  | OSelect t lo hi =>
      let '(x1, ents) := mscan d last t lo hi x in
      (keep x1, Ob false (live ents) true false (Some (x_cnt x1)) None (vis d))
  | OBadQuery => (keep x, Ob true [] true false (Some (x_cnt x)) None (vis d))
  | OBadExec parse => (close, ob_fail d (negb parse))
  | OCommit =>
      match commit_res d last x with
      | CErr => (close, ob_fail d true)
      | COkEmpty => (close, Ob false [] false true None (Some (x_cnt x, false)) (vis d))
      | COk =>
          let d' := install (last + 1) (x_log x) d in
          (L d' (last + 1) None, Ob false [] false true None (Some (x_cnt x, true)) (vis d'))
      end
  | ORollback => (close, Ob false [] false true None (Some (x_cnt x, false)) (vis d))
  | OSavepoint n => let x' := m_savepoint n x in (keep x', ok x')
  | ORollbackTo n =>
      match m_rollback_to n x with Some x' => (keep x', ok x') | None => (close, ob_fail d true) end
  | ORelease n =>
      match m_release n x with Some x' => (keep x', ok x') | None => (close, ob_fail d true) end
  | OClose => (close, Ob false [] false true None None (vis d))
  | _ =>
      match mdml d last o x with Some x' => (keep x', ok x') | None => (close, ob_fail d true) end
  end.

Definition mlocal (d : db) (last : N) (ox : option mtx) (o : op) : loc * obs :=
  match ox with
  | None => mlocal_idle d last o
  | Some x => mlocal_tx d last x o
  end.

Definition step := (sid * op)%type.
Definition mstep (st : mstate) (p : step) : mstate * obs :=
  let '(l, ob) := mlocal (m_db st) (m_last st) (tg (fst p) (m_sess st)) (snd p) in
  (MS (l_db l) (l_last l) (ts (fst p) (l_tx l) (m_sess st)), ob).

(* the run of an interleaving of sessions: every step paired with what was observed *)
Fixpoint mtrace (st : mstate) (steps : list step) : list (step * obs) :=
  match steps with
  | [] => []
  | p :: r => (p, snd (mstep st p)) :: mtrace (fst (mstep st p)) r
  end.
Fixpoint mrun (st : mstate) (steps : list step) : mstate :=
  match steps with
  | [] => st
  | p :: r => mrun (fst (mstep st p)) r
  end.
