(* C13 — atomicity and isolation of the faithful model, for every program and every interleaving
   (proofs; no side conditions: these hold also for programs with ROLLBACK TO SAVEPOINT). *)
From V Require Import SQLTx.Model SQLTx.Spec SQLTx.Lemmas.
From Coq Require Import ZifyN ZifyNat ZifyBool.

(* the transaction a step tries to commit: the session's explicit transaction on COMMIT, the
   implicit one of a DML statement issued outside a transaction *)
Definition commit_attempt (d : db) (last : N) (ox : option mtx) (o : op) : option mtx :=
  match ox with
  | Some x => match o with OCommit => Some x | _ => None end
  | None => if is_dml o then mdml d last o (mbegin d last false) else None
  end.

(* the step reported a committed transaction with a header *)
Definition commits (ob : obs) : bool :=
  match o_ctx ob with Some (_, true) => true | _ => false end.

Lemma commit_res_ok d last x : commit_res d last x = COk -> x_log x <> [].
Proof.
  unfold commit_res. destruct (x_ro x); [discriminate|].
  destruct (x_log x); [discriminate|]. intros _. discriminate.
Qed.

Ltac dml_cases :=
  match goal with
  | |- context [match mdml ?d ?l ?o ?x with _ => _ end] => destruct (mdml d l o x) eqn:?
  end.

Lemma mlocal_cases d last ox o :
  let l := fst (mlocal d last ox o) in
  let ob := snd (mlocal d last ox o) in
  (l_db l = d /\ l_last l = last /\ commits ob = false) \/
  (exists x, commit_attempt d last ox o = Some x /\ x_log x <> [] /\ o_err ob = false /\
             l_tx l = None /\ l_last l = last + 1 /\ l_db l = install (last + 1) (x_log x) d /\
             o_ctx ob = Some (x_cnt x, true)).
Proof.
  destruct ox as [x|]; unfold mlocal, mlocal_tx, mlocal_idle.
  - (* inside a transaction *)
    destruct o; cbv beta iota zeta;
      try (simpl; left; repeat split; reflexivity);
      try (dml_cases; simpl; left; repeat split; reflexivity);
      try (match goal with |- context [m_rollback_to ?n ?x] => destruct (m_rollback_to n x) end;
           simpl; left; repeat split; reflexivity);
      try (match goal with |- context [m_release ?n ?x] => destruct (m_release n x) end;
           simpl; left; repeat split; reflexivity).
    destruct (commit_res d last x) eqn:E; simpl; try (left; repeat split; reflexivity).
    right. exists x. repeat split; try reflexivity. eapply commit_res_ok; eauto.
  - (* no transaction: autocommit *)
    destruct o; cbv beta iota zeta; try (simpl; left; repeat split; reflexivity);
      (dml_cases; [|simpl; left; repeat split; reflexivity];
       match goal with |- context [commit_res ?d ?l ?x] => destruct (commit_res d l x) eqn:E end;
       try (simpl; left; repeat split; reflexivity);
       right;
       match goal with H : mdml _ _ _ _ = Some ?m |- _ =>
         exists m; split; [unfold commit_attempt; cbn [is_dml]; exact H|] end;
       simpl; repeat split; try reflexivity; eapply commit_res_ok; eauto).
Qed.

Lemma mlocal_err_unchanged d last ox o :
  o_err (snd (mlocal d last ox o)) = true ->
  l_db (fst (mlocal d last ox o)) = d /\ l_last (fst (mlocal d last ox o)) = last.
Proof.
  intros H. destruct (mlocal_cases d last ox o) as [[H1 [H2 _]]|[x [_ [_ [He _]]]]]; [auto|congruence].
Qed.

Lemma mlocal_closes d last ox o :
  o = OCommit \/ o = ORollback \/ o = OClose -> l_tx (fst (mlocal d last ox o)) = None.
Proof.
  intros [H|[H|H]]; subst o; destruct ox as [x|]; simpl; try reflexivity.
  destruct (commit_res d last x); reflexivity.
Qed.

(* ---- T1 ---- *)
Theorem commit_all_or_nothing_proof : forall st s o,
  let st' := fst (mstep st (s, o)) in
  let ob := snd (mstep st (s, o)) in
  ((m_db st' = m_db st /\ m_last st' = m_last st)
   \/ (exists x, commit_attempt (m_db st) (m_last st) (tg s (m_sess st)) o = Some x /\
                 o_err ob = false /\ o_ctx ob = Some (x_cnt x, true) /\
                 m_last st' = m_last st + 1 /\
                 forall t pk, afind pk (tg t (m_db st')) =
                              match last_write t pk (x_log x) with
                              | Some w => Some (committed_cell (m_last st + 1) w)
                              | None => afind pk (tg t (m_db st))
                              end))
  /\ (o_err ob = true -> m_db st' = m_db st /\ m_last st' = m_last st)
  /\ (o = OCommit \/ o = ORollback \/ o = OClose -> tg s (m_sess st') = None)
  /\ (forall s', s' <> s -> tg s' (m_sess st') = tg s' (m_sess st)).
Proof.
  intros st s o. unfold mstep. simpl fst. simpl snd.
  pose proof (mlocal_cases (m_db st) (m_last st) (tg s (m_sess st)) o) as HC.
  pose proof (mlocal_err_unchanged (m_db st) (m_last st) (tg s (m_sess st)) o) as HE.
  pose proof (mlocal_closes (m_db st) (m_last st) (tg s (m_sess st)) o) as HX.
  destruct (mlocal (m_db st) (m_last st) (tg s (m_sess st)) o) as [l ob]. simpl in *.
  repeat split.
  - destruct HC as [[H1 [H2 _]]|[x [Ha [_ [He [_ [Hl [Hd Hc]]]]]]]].
    + left. auto.
    + right. exists x. repeat split; auto. intros t pk. rewrite Hd. apply install_all.
  - apply HE; assumption.
  - apply HE; assumption.
  - intros H. rewrite tg_ts_same. apply HX. exact H.
  - intros s' Hne. apply tg_ts_other. exact Hne.
Qed.

(* ---- T4: a step reads and writes only the committed state and the session's own transaction ---- *)
Theorem no_dirty_reads_proof : forall a b s o,
  m_db a = m_db b -> m_last a = m_last b -> tg s (m_sess a) = tg s (m_sess b) ->
  snd (mstep a (s, o)) = snd (mstep b (s, o)) /\
  m_db (fst (mstep a (s, o))) = m_db (fst (mstep b (s, o))) /\
  m_last (fst (mstep a (s, o))) = m_last (fst (mstep b (s, o))) /\
  tg s (m_sess (fst (mstep a (s, o)))) = tg s (m_sess (fst (mstep b (s, o)))) /\
  (forall s', s' <> s -> tg s' (m_sess (fst (mstep a (s, o)))) = tg s' (m_sess a)).
Proof.
  intros a b s o Hd Hl Hs. unfold mstep. simpl fst. simpl snd. rewrite Hd, Hl, Hs.
  destruct (mlocal (m_db b) (m_last b) (tg s (m_sess b)) o) as [l ob]. simpl.
  repeat split; try reflexivity.
  - rewrite !tg_ts_same. reflexivity.
  - intros s' Hne. apply tg_ts_other. exact Hne.
Qed.

(* ---- T2: erasure of a session's work that never committed ---- *)
Definition not_of (s : sid) (p : step) : bool := negb (i3_eqb (fst p) s).
Definition others (s : sid) (tr : list (step * obs)) : list (step * obs) :=
  filter (fun e => not_of s (fst e)) tr.

Definition agree_except (s : sid) (a b : mstate) : Prop :=
  m_db a = m_db b /\ m_last a = m_last b /\ forall s', s' <> s -> tg s' (m_sess a) = tg s' (m_sess b).

Lemma step_other_session s a b p :
  agree_except s a b -> fst p <> s ->
  snd (mstep a p) = snd (mstep b p) /\ agree_except s (fst (mstep a p)) (fst (mstep b p)) /\
  tg s (m_sess (fst (mstep b p))) = tg s (m_sess b).
Proof.
  intros [Hd [Hl Hs]] Hne. destruct p as [s0 o]. simpl in Hne.
  unfold mstep. simpl fst. simpl snd. rewrite Hd, Hl, (Hs s0 Hne).
  destruct (mlocal (m_db b) (m_last b) (tg s0 (m_sess b)) o) as [l ob]. simpl.
  split; [reflexivity|]. split.
  - repeat split; try reflexivity. intros s' Hs'. simpl.
    destruct (i3_eq_dec s' s0) as [E|E].
    + subst s'. rewrite !tg_ts_same. reflexivity.
    + rewrite !tg_ts_other by exact E. apply Hs. exact Hs'.
  - apply tg_ts_other. congruence.
Qed.

Lemma step_same_session_no_commit s a b o :
  agree_except s a b -> commits (snd (mstep a (s, o))) = false ->
  agree_except s (fst (mstep a (s, o))) b.
Proof.
  intros [Hd [Hl Hs]] Hc. unfold mstep in *. simpl fst in *. simpl snd in *.
  pose proof (mlocal_cases (m_db a) (m_last a) (tg s (m_sess a)) o) as HC.
  destruct (mlocal (m_db a) (m_last a) (tg s (m_sess a)) o) as [l ob]. simpl in *.
  destruct HC as [[H1 [H2 _]]|[x [_ [_ [_ [_ [_ [_ Hctx]]]]]]]].
  - repeat split; simpl; try congruence. intros s' Hne. rewrite tg_ts_other by exact Hne. apply Hs. exact Hne.
  - unfold commits in Hc. rewrite Hctx in Hc. discriminate.
Qed.

Lemma erase_gen s steps : forall a b,
  agree_except s a b ->
  (forall e, In e (mtrace a steps) -> fst (fst e) = s -> commits (snd e) = false) ->
  agree_except s (mrun a steps) (mrun b (filter (not_of s) steps)) /\
  tg s (m_sess (mrun b (filter (not_of s) steps))) = tg s (m_sess b) /\
  others s (mtrace a steps) = mtrace b (filter (not_of s) steps).
Proof.
  induction steps as [|p r IH]; intros a b Hag Hnc.
  - simpl. repeat split; try reflexivity; apply Hag.
  - destruct p as [s0 o].
    destruct (i3_eq_dec s0 s) as [E|E].
    + (* a step of s: erased *)
      subst s0.
      assert (Hf : not_of s (s, o) = false) by (unfold not_of; simpl; rewrite i3_eqb_refl; reflexivity).
      assert (Hc : commits (snd (mstep a (s, o))) = false).
      { apply (Hnc ((s, o), snd (mstep a (s, o)))); [left; reflexivity|reflexivity]. }
      change (filter (not_of s) ((s, o) :: r)) with (if not_of s (s, o) then (s, o) :: filter (not_of s) r else filter (not_of s) r).
      change (others s (mtrace a ((s, o) :: r))) with
        (if not_of s (s, o) then ((s, o), snd (mstep a (s, o))) :: others s (mtrace (fst (mstep a (s, o))) r)
         else others s (mtrace (fst (mstep a (s, o))) r)).
      change (mrun a ((s, o) :: r)) with (mrun (fst (mstep a (s, o))) r).
      rewrite Hf.
      apply IH.
      * apply step_same_session_no_commit; assumption.
      * intros e Hin. apply Hnc. right. exact Hin.
    + assert (Hf : not_of s (s0, o) = true) by (unfold not_of; simpl; rewrite (i3_eqb_neq _ _ E); reflexivity).
      change (filter (not_of s) ((s0, o) :: r)) with (if not_of s (s0, o) then (s0, o) :: filter (not_of s) r else filter (not_of s) r).
      change (others s (mtrace a ((s0, o) :: r))) with
        (if not_of s (s0, o) then ((s0, o), snd (mstep a (s0, o))) :: others s (mtrace (fst (mstep a (s0, o))) r)
         else others s (mtrace (fst (mstep a (s0, o))) r)).
      change (mrun a ((s0, o) :: r)) with (mrun (fst (mstep a (s0, o))) r).
      rewrite Hf.
      change (mrun b ((s0, o) :: filter (not_of s) r)) with (mrun (fst (mstep b (s0, o))) (filter (not_of s) r)).
      change (mtrace b ((s0, o) :: filter (not_of s) r)) with
        (((s0, o), snd (mstep b (s0, o))) :: mtrace (fst (mstep b (s0, o))) (filter (not_of s) r)).
      destruct (step_other_session s a b (s0, o) Hag E) as [Ho [Hag' Hs']].
      destruct (IH (fst (mstep a (s0, o))) (fst (mstep b (s0, o))) Hag') as [H1 [H2 H3]].
      { intros e Hin. apply Hnc. right. exact Hin. }
      split; [exact H1|]. split.
      * rewrite H2. exact Hs'.
      * rewrite Ho. f_equal. exact H3.
Qed.

Lemma agree_except_refl s a : agree_except s a a.
Proof. repeat split; reflexivity. Qed.

Theorem rollback_leaves_nothing_proof : forall s steps st,
  tg s (m_sess st) = None ->
  (forall e, In e (mtrace st steps) -> fst (fst e) = s -> commits (snd e) = false) ->
  tg s (m_sess (mrun st steps)) = None ->
  mrun st steps = mrun st (filter (not_of s) steps) /\
  others s (mtrace st steps) = mtrace st (filter (not_of s) steps).
Proof.
  intros s steps st H0 Hnc Hend.
  destruct (erase_gen s steps st st (agree_except_refl s st) Hnc) as [[Hd [Hl Hs]] [Hb Htr]].
  split; [|exact Htr].
  destruct (mrun st steps) as [d1 l1 s1] eqn:E1.
  destruct (mrun st (filter (not_of s) steps)) as [d2 l2 s2] eqn:E2.
  simpl in *. subst d2 l2. f_equal. apply tri_ext. intros i.
  destruct (i3_eq_dec i s) as [E|E].
  - subst i. rewrite Hend, Hb, H0. reflexivity.
  - apply Hs. exact E.
Qed.
