(* C13 — basic lemmas about the containers of the SQL-transaction model (proofs only). *)
From V Require Import SQLTx.Model SQLTx.Spec.
From Coq Require Import ZifyN ZifyNat ZifyBool.

(* ---------- tri ---------- *)
Lemma i3_eqb_eq a b : i3_eqb a b = true <-> a = b.
Proof. destruct a, b; simpl; split; intros H; try reflexivity; discriminate. Qed.
Lemma i3_eqb_refl a : i3_eqb a a = true.
Proof. destruct a; reflexivity. Qed.
Lemma i3_eqb_neq a b : a <> b -> i3_eqb a b = false.
Proof. destruct a, b; simpl; intros H; try reflexivity; exfalso; apply H; reflexivity. Qed.
Lemma i3_eq_dec (a b : i3) : {a = b} + {a <> b}.
Proof. decide equality. Qed.

Lemma tg_ts_same {A} i (a : A) t : tg i (ts i a t) = a.
Proof. destruct i; reflexivity. Qed.
Lemma tg_ts_other {A} i j (a : A) t : i <> j -> tg i (ts j a t) = tg i t.
Proof. destruct i, j; simpl; intros H; try reflexivity; exfalso; apply H; reflexivity. Qed.
Lemma ts_tg_id {A} i (t : tri A) : ts i (tg i t) t = t.
Proof. destruct i, t; reflexivity. Qed.
Lemma ts_ts_same {A} i (a b : A) t : ts i a (ts i b t) = ts i a t.
Proof. destruct i; reflexivity. Qed.
Lemma tg_tmap {A B} (f : A -> B) i t : tg i (tmap f t) = f (tg i t).
Proof. destruct i; reflexivity. Qed.
Lemma tmap_ts {A B} (f : A -> B) i a t : tmap f (ts i a t) = ts i (f a) (tmap f t).
Proof. destruct i; reflexivity. Qed.
Lemma tg_tconst {A} i (a : A) : tg i (tconst a) = a.
Proof. destruct i; reflexivity. Qed.
Lemma tri_ext {A} (a b : tri A) : (forall i, tg i a = tg i b) -> a = b.
Proof.
  intros H. destruct a as [a0 a1 a2], b as [b0 b1 b2].
  pose proof (H I0) as H0. pose proof (H I1) as H1. pose proof (H I2) as H2. simpl in *. congruence.
Qed.

(* ---------- aset / afind ---------- *)
Lemma afind_aset_same {A} k (a : A) l : afind k (aset k a l) = Some a.
Proof.
  induction l as [|[k' a'] r IH]; simpl.
  - rewrite Z.eqb_refl. reflexivity.
  - destruct (k <? k')%Z eqn:E1; simpl.
    + rewrite Z.eqb_refl. reflexivity.
    + destruct (k =? k')%Z eqn:E2; simpl.
      * rewrite Z.eqb_refl. reflexivity.
      * rewrite E2. exact IH.
Qed.
Lemma afind_aset_other {A} k k2 (a : A) l : k2 <> k -> afind k2 (aset k a l) = afind k2 l.
Proof.
  intros Hne. induction l as [|[k' a'] r IH]; simpl.
  - destruct (k2 =? k)%Z eqn:E; [lia|reflexivity].
  - destruct (k <? k')%Z eqn:E1; simpl.
    + destruct (k2 =? k)%Z eqn:E; [lia|reflexivity].
    + destruct (k =? k')%Z eqn:E2; simpl.
      * destruct (k2 =? k)%Z eqn:E; [lia|]. destruct (k2 =? k')%Z eqn:E3; [lia|reflexivity].
      * destruct (k2 =? k')%Z; [reflexivity|exact IH].
Qed.

Lemma map_aset {A B} (f : A -> B) k a (l : list (Z * A)) :
  map (fun p => (fst p, f (snd p))) (aset k a l) = aset k (f a) (map (fun p => (fst p, f (snd p))) l).
Proof.
  induction l as [|[k' a'] r IH]; simpl; [reflexivity|].
  destruct (k <? k')%Z; simpl; [reflexivity|].
  destruct (k =? k')%Z; simpl; [reflexivity|]. rewrite IH. reflexivity.
Qed.
Lemma afind_map {A B} (f : A -> B) k (l : list (Z * A)) :
  afind k (map (fun p => (fst p, f (snd p))) l) = option_map f (afind k l).
Proof.
  induction l as [|[k' a'] r IH]; simpl; [reflexivity|].
  destruct (k =? k')%Z; simpl; [reflexivity|exact IH].
Qed.

(* ---------- strip ---------- *)
Lemma strip_aset k c l : strip_tbl (aset k c l) = aset k (strip c) (strip_tbl l).
Proof. unfold strip_tbl. apply (map_aset strip). Qed.

Lemma filter_map_fst {A B} (f : A -> B) (p : Z -> bool) (l : list (Z * A)) :
  filter (fun q => p (fst q)) (map (fun q => (fst q, f (snd q))) l) =
  map (fun q => (fst q, f (snd q))) (filter (fun q => p (fst q)) l).
Proof.
  induction l as [|[k a] r IH]; simpl; [reflexivity|].
  destruct (p k); simpl; rewrite IH; reflexivity.
Qed.
Lemma range_of_strip lo hi desc l :
  range_of lo hi desc (strip_tbl l) = strip_tbl (range_of lo hi desc l).
Proof.
  unfold range_of, strip_tbl.
  rewrite (filter_map_fst strip (in_range lo hi)).
  destruct desc; [rewrite map_rev|]; reflexivity.
Qed.
Lemma slive_strip l : slive (strip_tbl l) = live l.
Proof.
  unfold slive, live, strip_tbl.
  induction l as [|[k c] r IH]; simpl; [reflexivity|].
  destruct (c_del c); simpl; rewrite IH; reflexivity.
Qed.
Lemma svis_strip d : svis (tmap strip_tbl d) = vis d.
Proof. destruct d; unfold svis, vis, tmap; simpl. rewrite !slive_strip. reflexivity. Qed.

(* ---------- view ---------- *)
Lemma view_app rows log w t : view rows (log ++ [w]) t = apply_w t (view rows log t) w.
Proof. unfold view. rewrite fold_left_app. reflexivity. Qed.

Lemma view_untouched rows log t :
  (forall w, In w log -> w_tid w <> t) -> view rows log t = rows.
Proof.
  unfold view. revert rows. induction log as [|w r IH]; intros rows H; simpl; [reflexivity|].
  unfold apply_w at 2. rewrite (i3_eqb_neq (w_tid w) t) by (apply H; left; reflexivity).
  apply IH. intros w' Hin. apply H. right. exact Hin.
Qed.

(* ---------- install ---------- *)
Lemma install_app id log w d :
  install id (log ++ [w]) d =
  ts (w_tid w) (aset (w_pk w) (committed_cell id w) (tg (w_tid w) (install id log d))) (install id log d).
Proof. unfold install. rewrite fold_left_app. reflexivity. Qed.

Lemma strip_install id log d : tmap strip_tbl (install id log d) = sinstall log (tmap strip_tbl d).
Proof.
  unfold install, sinstall. revert d. induction log as [|w r IH]; intros d; simpl; [reflexivity|].
  rewrite IH. f_equal. rewrite tmap_ts, strip_aset, tg_tmap. reflexivity.
Qed.

(* the last write of a log to (t, pk) *)
Definition last_write (t : tid) (pk : Z) (log : list wentry) : option wentry :=
  fold_left (fun acc w => if i3_eqb (w_tid w) t && (w_pk w =? pk)%Z then Some w else acc) log None.

Lemma last_write_app t pk log w :
  last_write t pk (log ++ [w]) =
  if i3_eqb (w_tid w) t && (w_pk w =? pk)%Z then Some w else last_write t pk log.
Proof. unfold last_write. rewrite fold_left_app. reflexivity. Qed.

(* COMMIT installs every write of the transaction: afterwards each key holds the last value the
   transaction wrote to it, every other key is untouched *)
Lemma install_all id log d t pk :
  afind pk (tg t (install id log d)) =
  match last_write t pk log with
  | Some w => Some (committed_cell id w)
  | None => afind pk (tg t d)
  end.
Proof.
  induction log as [|w r IH] using rev_ind; [reflexivity|].
  rewrite install_app, last_write_app.
  destruct (i3_eq_dec (w_tid w) t) as [E|E].
  - subst t. rewrite i3_eqb_refl, tg_ts_same. simpl.
    destruct (w_pk w =? pk)%Z eqn:E2.
    + assert (w_pk w = pk) by lia. subst pk. apply afind_aset_same.
    + rewrite afind_aset_other by lia. exact IH.
  - rewrite (i3_eqb_neq _ _ E). simpl. rewrite tg_ts_other by congruence. exact IH.
Qed.

(* ---------- own writes seen through the view ---------- *)
Lemma own_written_app t pk log w :
  own_written t pk (log ++ [w]) = own_written t pk log || (i3_eqb (w_tid w) t && (w_pk w =? pk)%Z).
Proof. unfold own_written. rewrite existsb_app. simpl. rewrite orb_false_r. reflexivity. Qed.
Lemma own_deleted_app t pk log w :
  own_deleted t pk (log ++ [w]) =
  if i3_eqb (w_tid w) t && (w_pk w =? pk)%Z then is_del (w_kind w) else own_deleted t pk log.
Proof. unfold own_deleted. rewrite fold_left_app. reflexivity. Qed.

Lemma own_deleted_not_written t pk log :
  own_written t pk log = false -> own_deleted t pk log = false.
Proof.
  induction log as [|w r IH] using rev_ind; [reflexivity|].
  rewrite own_written_app, own_deleted_app. intros H.
  apply orb_false_elim in H as [H1 H2]. rewrite H2. apply IH. exact H1.
Qed.

Lemma afind_view rows log t pk :
  afind pk (view rows log t) =
  if own_written t pk log
  then Some (Cell 0 (own_deleted t pk log) (match last_write t pk log with Some w => w_val w | None => 0%Z end))
  else afind pk rows.
Proof.
  induction log as [|w r IH] using rev_ind; [reflexivity|].
  rewrite view_app, own_written_app, own_deleted_app, last_write_app. unfold apply_w.
  destruct (i3_eqb (w_tid w) t) eqn:E1; simpl.
  - destruct (w_pk w =? pk)%Z eqn:E2.
    + assert (w_pk w = pk) by lia. subst pk. rewrite orb_true_r. rewrite afind_aset_same. reflexivity.
    + rewrite orb_false_r. rewrite afind_aset_other by lia. exact IH.
  - rewrite orb_false_r. exact IH.
Qed.

(* ---------- derived counters ---------- *)
Lemma derive_last_app t log w :
  derive_last t (log ++ [w]) = if i3_eqb (w_tid w) t && noted w then Some (w_pk w) else derive_last t log.
Proof. unfold derive_last. rewrite fold_left_app. reflexivity. Qed.
Lemma derive_first_app t log w :
  derive_first t (log ++ [w]) =
  match derive_first t log with
  | Some v => Some v
  | None => if i3_eqb (w_tid w) t && noted w then Some (w_pk w) else None
  end.
Proof.
  unfold derive_first. rewrite fold_left_app. simpl.
  destruct (fold_left _ log None); reflexivity.
Qed.

Lemma derive_app_plain log w :
  noted w = false -> derive (log ++ [w]) = bump (derive log).
Proof.
  intros Hn. unfold derive, bump. simpl.
  rewrite !derive_last_app, !derive_first_app, Hn, !andb_false_r.
  rewrite app_length. simpl.
  replace (N.of_nat (length log + 1)) with (N.of_nat (length log) + 1) by lia.
  f_equal. f_equal; destruct (derive_first _ log); reflexivity.
Qed.

Lemma derive_app_noted log w :
  noted w = true ->
  derive (log ++ [w]) =
  bump (K (k_upd (derive log)) (ts (w_tid w) (Some (w_pk w)) (k_last (derive log)))
          (match tg (w_tid w) (k_first (derive log)) with
           | Some _ => k_first (derive log)
           | None => ts (w_tid w) (Some (w_pk w)) (k_first (derive log))
           end)).
Proof.
  intros Hn. unfold derive, bump. simpl.
  rewrite !derive_last_app, !derive_first_app, Hn, !andb_true_r.
  rewrite app_length. simpl.
  replace (N.of_nat (length log + 1)) with (N.of_nat (length log) + 1) by lia.
  destruct (w_tid w); simpl;
    destruct (derive_first I0 log), (derive_first I1 log), (derive_first I2 log); reflexivity.
Qed.

(* ---------- savepoint name lists ---------- *)
Lemma map_fst_nremove {A} n (l : list (N * A)) :
  map fst (nremove n l) = filter (fun m => negb (m =? n)) (map fst l).
Proof.
  unfold nremove. induction l as [|[m a] r IH]; simpl; [reflexivity|].
  destruct (m =? n); simpl; rewrite IH; reflexivity.
Qed.
Lemma nfind_none_iff {A} n (l : list (N * A)) :
  nfind n l = None <-> existsb (fun m => m =? n) (map fst l) = false.
Proof.
  induction l as [|[m a] r IH]; simpl; [split; reflexivity|].
  destruct (m =? n); simpl; [split; discriminate|exact IH].
Qed.
Lemma nfind_same_names {A B} n (l : list (N * A)) (l' : list (N * B)) :
  map fst l = map fst l' -> (nfind n l = None <-> nfind n l' = None).
Proof. intros H. rewrite !nfind_none_iff, H. reflexivity. Qed.
