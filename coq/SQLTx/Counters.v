(* C13 — the bookkeeping of SQLTx (updatedRows, first/lastInsertedPKs) equals what is computed from
   the write-set, in every reachable state of every program without ROLLBACK TO SAVEPOINT (proofs). *)
From V Require Import SQLTx.Model SQLTx.Spec SQLTx.Lemmas SQLTx.Atomic.
From Coq Require Import ZifyN ZifyNat ZifyBool.

Definition Cinv (x : mtx) : Prop := x_cnt x = derive (x_log x).

(* ---- how the primitive operations move the fields ---- *)
Lemma touch_fields d last t x :
  x_log (touch d last t x) = x_log x /\ x_cnt (touch d last t x) = x_cnt x /\
  x_ro (touch d last t x) = x_ro x /\ x_maxpk (touch d last t x) = x_maxpk x /\
  x_sps (touch d last t x) = x_sps x.
Proof. unfold touch. destruct (tg t (x_snaps x)); repeat split; reflexivity. Qed.

Lemma add_get_fields g x :
  x_log (add_get g x) = x_log x /\ x_cnt (add_get g x) = x_cnt x /\ x_ro (add_get g x) = x_ro x /\
  x_maxpk (add_get g x) = x_maxpk x /\ x_sps (add_get g x) = x_sps x /\ x_snaps (add_get g x) = x_snaps x.
Proof. unfold add_get. destruct (x_ro x) eqn:E; repeat split; try reflexivity; simpl; auto. Qed.

Lemma add_rdr_fields r x :
  x_log (add_rdr r x) = x_log x /\ x_cnt (add_rdr r x) = x_cnt x /\ x_ro (add_rdr r x) = x_ro x /\
  x_maxpk (add_rdr r x) = x_maxpk x /\ x_sps (add_rdr r x) = x_sps x /\ x_snaps (add_rdr r x) = x_snaps x.
Proof. unfold add_rdr. destruct (x_ro x) eqn:E; repeat split; try reflexivity; simpl; auto. Qed.

Lemma mget_fields d last t pk x :
  let x1 := fst (mget d last t pk x) in
  x_log x1 = x_log x /\ x_cnt x1 = x_cnt x /\ x_ro x1 = x_ro x /\ x_maxpk x1 = x_maxpk x /\ x_sps x1 = x_sps x /\
  x_snaps x1 = x_snaps (touch d last t x).
Proof.
  unfold mget. destruct (touch_fields d last t x) as [H1 [H2 [H3 [H4 H5]]]].
  destruct (own_written t pk (x_log (touch d last t x))); simpl; [repeat split; assumption|].
  destruct (tg t (x_snaps (touch d last t x))) as [sn|]; simpl; [|repeat split; assumption].
  destruct (afind pk (sn_rows sn)) as [c|]; [destruct (c_del c)|]; simpl;
    match goal with |- context [add_get ?g ?y] => destruct (add_get_fields g y) as [G1 [G2 [G3 [G4 [G5 G6]]]]] end;
    repeat split; congruence.
Qed.

Lemma m_exists_fields d last t pk x :
  let x1 := fst (m_exists d last t pk x) in
  x_log x1 = x_log x /\ x_cnt x1 = x_cnt x /\ x_ro x1 = x_ro x /\ x_maxpk x1 = x_maxpk x /\ x_sps x1 = x_sps x /\
  x_snaps x1 = x_snaps (touch d last t x).
Proof.
  unfold m_exists. pose proof (mget_fields d last t pk x) as H.
  destruct (mget d last t pk x) as [x1 f]. exact H.
Qed.

Lemma mscan_fields d last t lo hi x :
  let x1 := fst (mscan d last t lo hi x) in
  x_log x1 = x_log x /\ x_cnt x1 = x_cnt x /\ x_ro x1 = x_ro x /\ x_maxpk x1 = x_maxpk x /\ x_sps x1 = x_sps x /\
  x_snaps x1 = x_snaps (touch d last t x).
Proof.
  unfold mscan. simpl. destruct (touch_fields d last t x) as [H1 [H2 [H3 [H4 H5]]]].
  match goal with |- context [add_rdr ?g ?y] => destruct (add_rdr_fields g y) as [G1 [G2 [G3 [G4 [G5 G6]]]]] end.
  repeat split; congruence.
Qed.

Lemma mwrite_some d last w x x' :
  mwrite d last w x = Some x' ->
  x_ro x = false /\ x_log x' = x_log x ++ [w] /\ x_cnt x' = bump (x_cnt x) /\ x_ro x' = x_ro x /\
  x_maxpk x' = x_maxpk x /\ x_sps x' = x_sps x /\ x_snaps x' = x_snaps (touch d last (w_tid w) x).
Proof.
  unfold mwrite. destruct (x_ro x) eqn:E; [discriminate|]. intros H. injection H as H. subst x'.
  destruct (touch_fields d last (w_tid w) x) as [H1 [H2 [H3 [H4 H5]]]]. simpl.
  repeat split; congruence.
Qed.

Lemma note_pk_fields t pk x :
  x_log (note_pk t pk x) = x_log x /\ x_ro (note_pk t pk x) = x_ro x /\ x_maxpk (note_pk t pk x) = x_maxpk x /\
  x_sps (note_pk t pk x) = x_sps x /\ x_snaps (note_pk t pk x) = x_snaps x.
Proof. unfold note_pk. destruct (autoinc t); repeat split; reflexivity. Qed.

(* ---- one INSERT / UPSERT row ---- *)
Lemma put_row_some d last isins t pk v x x' :
  m_put_row d last isins t pk v x = Some x' -> Cinv x ->
  Cinv x' /\ x_log x' = x_log x ++ [W t pk (if isins then WIns else WUps) v].
Proof.
  unfold m_put_row. intros H Hc.
  destruct (m_exists d last t pk (note_pk t pk x)) as [x2 found] eqn:Eg.
  pose proof (m_exists_fields d last t pk (note_pk t pk x)) as Hg. rewrite Eg in Hg. simpl in Hg.
  destruct Hg as [G1 [G2 _]].
  destruct (note_pk_fields t pk x) as [N1 _].
  destruct (negb found && (autoinc t && (pk <=? tg t (x_maxpk x))%Z)); [discriminate|].
  destruct (isins && found); [discriminate|].
  apply mwrite_some in H. destruct H as [_ [L [C _]]].
  split; [|congruence].
  unfold Cinv. rewrite C, L, G1, G2, N1.
  set (w := W t pk (if isins then WIns else WUps) v).
  destruct (autoinc t) eqn:Ea.
  - assert (Hn : noted w = true) by (unfold noted, w; simpl; rewrite Ea; destruct isins; reflexivity).
    rewrite (derive_app_noted _ _ Hn). unfold note_pk. rewrite Ea. simpl. rewrite Hc. reflexivity.
  - assert (Hn : noted w = false) by (unfold noted, w; simpl; rewrite Ea; reflexivity).
    rewrite (derive_app_plain _ _ Hn). unfold note_pk. rewrite Ea, Hc. reflexivity.
Qed.

Lemma ins_auto_some d last t v x x' :
  m_ins_auto d last t v x = Some x' -> Cinv x ->
  Cinv x' /\ x_log x' = x_log x ++ [W t (tg t (x_maxpk x) + 1)%Z WIns v].
Proof.
  unfold m_ins_auto. intros H Hc. destruct (autoinc t) eqn:Ea; [|discriminate].
  set (pk := (tg t (x_maxpk x) + 1)%Z) in *.
  set (x0 := set_maxpk (ts t pk (x_maxpk x)) x) in *.
  destruct (m_exists d last t pk (note_pk t pk x0)) as [x2 found] eqn:Eg.
  pose proof (m_exists_fields d last t pk (note_pk t pk x0)) as Hg. rewrite Eg in Hg. simpl in Hg.
  destruct Hg as [G1 [G2 _]].
  destruct (note_pk_fields t pk x0) as [N1 _].
  destruct found; [discriminate|].
  apply mwrite_some in H. destruct H as [_ [L [C _]]].
  split; [|rewrite L, G1, N1; reflexivity].
  unfold Cinv. rewrite C, L, G1, G2, N1.
  assert (Hn : noted (W t pk WIns v) = true) by (unfold noted; simpl; rewrite Ea; reflexivity).
  change (x_log x0) with (x_log x).
  rewrite (derive_app_noted _ _ Hn). unfold note_pk. rewrite Ea. simpl. rewrite Hc. reflexivity.
Qed.

Lemma noted_upd t k v : noted (W t k WUpd v) = false.
Proof. unfold noted. simpl. apply andb_false_r. Qed.
Lemma noted_del t k v : noted (W t k WDel v) = false.
Proof. unfold noted. simpl. apply andb_false_r. Qed.

(* ---- UPDATE / DELETE loops ---- *)
Lemma update_loop_cinv d last t dv rows : forall ox x',
  fold_left (fun acc kv => obind acc (fun xa =>
               let '(xb, _) := mget d last t (fst kv) xa in
               mwrite d last (W t (fst kv) WUpd (snd kv + dv)%Z) xb)) rows ox = Some x' ->
  (forall x, ox = Some x -> Cinv x) -> Cinv x'.
Proof.
  induction rows as [|kv r IH]; intros ox x' H Hc; simpl in H.
  - apply Hc. exact H.
  - apply (IH _ _ H). intros x1 E. destruct ox as [xa|]; simpl in E; [|discriminate].
    destruct (mget d last t (fst kv) xa) as [xb f] eqn:Eg.
    pose proof (mget_fields d last t (fst kv) xa) as Hg. rewrite Eg in Hg. simpl in Hg.
    destruct Hg as [G1 [G2 _]].
    apply mwrite_some in E. destruct E as [_ [L [C _]]].
    unfold Cinv. rewrite C, L, G1, G2. rewrite derive_app_plain by apply noted_upd.
    rewrite (Hc xa eq_refl). reflexivity.
Qed.

Lemma delete_loop_cinv d last t rows : forall ox x',
  fold_left (fun acc kv => obind acc (fun xa => mwrite d last (W t (fst kv) WDel (snd kv)) xa)) rows ox = Some x' ->
  (forall x, ox = Some x -> Cinv x) -> Cinv x'.
Proof.
  induction rows as [|kv r IH]; intros ox x' H Hc; simpl in H.
  - apply Hc. exact H.
  - apply (IH _ _ H). intros x1 E. destruct ox as [xa|]; simpl in E; [|discriminate].
    apply mwrite_some in E. destruct E as [_ [L [C _]]].
    unfold Cinv. rewrite C, L. rewrite derive_app_plain by apply noted_del.
    rewrite (Hc xa eq_refl). reflexivity.
Qed.

Lemma mdml_cinv d last o x x' : mdml d last o x = Some x' -> Cinv x -> Cinv x'.
Proof.
  unfold mdml. destruct (x_ro x); [discriminate|].
  destruct o; simpl; try discriminate; intros H Hc.
  - eapply put_row_some; eauto.
  - destruct (m_put_row d last true t pk1 v1 x) as [x1|] eqn:E1; simpl in H; [|discriminate].
    eapply put_row_some; eauto. eapply put_row_some; eauto.
  - eapply ins_auto_some; eauto.
  - eapply put_row_some; eauto.
  - unfold m_update in H. destruct (mscan d last t lo hi x) as [x1 ents] eqn:Es.
    pose proof (mscan_fields d last t lo hi x) as Hf. rewrite Es in Hf. simpl in Hf. destruct Hf as [F1 [F2 _]].
    eapply update_loop_cinv; eauto. intros x2 E. injection E as E. subst x2.
    unfold Cinv. rewrite F1, F2. exact Hc.
  - unfold m_delete in H. destruct (mscan d last t lo hi x) as [x1 ents] eqn:Es.
    pose proof (mscan_fields d last t lo hi x) as Hf. rewrite Es in Hf. simpl in Hf. destruct Hf as [F1 [F2 _]].
    eapply delete_loop_cinv; eauto. intros x2 E. injection E as E. subst x2.
    unfold Cinv. rewrite F1, F2. exact Hc.
Qed.

Lemma mbegin_cinv d last ro : Cinv (mbegin d last ro).
Proof.
  unfold mbegin. destruct ro; [reflexivity|].
  destruct (range_of None None true (mview I1 (touch d last I1 (empty_tx false)))) as [|[k c] r];
    match goal with |- Cinv (add_rdr ?g ?y) => destruct (add_rdr_fields g y) as [G1 [G2 _]]; unfold Cinv; rewrite G1, G2 end;
    reflexivity.
Qed.

Definition not_rbto (o : op) : bool := match o with ORollbackTo _ => false | _ => true end.

(* one step: the open transaction afterwards and the transaction a commit reports satisfy Cinv *)
Lemma mlocal_cinv d last ox o :
  not_rbto o = true -> (forall x, ox = Some x -> Cinv x) ->
  (forall x', l_tx (fst (mlocal d last ox o)) = Some x' ->
              Cinv x' /\ o_cnt (snd (mlocal d last ox o)) = Some (x_cnt x')) /\
  (forall x, commit_attempt d last ox o = Some x -> Cinv x).
Proof.
  intros Hn Hc. split.
  - destruct ox as [x|]; unfold mlocal, mlocal_tx, mlocal_idle.
    + pose proof (Hc x eq_refl) as Hx.
      assert (Hdml : forall o', (match mdml d last o' x with
                                 | Some x' => (L d last (Some x'), Ob false [] true false (Some (x_cnt x')) None (vis d))
                                 | None => (L d last None, ob_fail d true) end) =
                                (match mdml d last o' x with
                                 | Some x' => (L d last (Some x'), Ob false [] true false (Some (x_cnt x')) None (vis d))
                                 | None => (L d last None, ob_fail d true) end) ->
                forall x', l_tx (fst (match mdml d last o' x with
                                 | Some x' => (L d last (Some x'), Ob false [] true false (Some (x_cnt x')) None (vis d))
                                 | None => (L d last None, ob_fail d true) end)) = Some x' ->
                Cinv x' /\ o_cnt (snd (match mdml d last o' x with
                                 | Some x' => (L d last (Some x'), Ob false [] true false (Some (x_cnt x')) None (vis d))
                                 | None => (L d last None, ob_fail d true) end)) = Some (x_cnt x')).
      { intros o' _ x' E. destruct (mdml d last o' x) as [x1|] eqn:Ed; simpl in *; [|discriminate].
        injection E as E. subst x'. split; [eapply mdml_cinv; eauto|reflexivity]. }
      destruct o; cbv beta iota zeta.
      * simpl; intros x' E; injection E as E; subst x'; split; [exact Hx|reflexivity].
      * simpl; intros x' E; discriminate E.
      * apply Hdml; reflexivity.
      * apply Hdml; reflexivity.
      * apply Hdml; reflexivity.
      * apply Hdml; reflexivity.
      * apply Hdml; reflexivity.
      * apply Hdml; reflexivity.
      * (* SELECT *)
        match goal with |- context [mscan ?d ?l ?t ?lo ?hi ?x] =>
          pose proof (mscan_fields d l t lo hi x) as Hf; destruct (mscan d l t lo hi x) as [x1 ents] end.
        simpl in *. destruct Hf as [F1 [F2 _]]. intros x' E. injection E as E. subst x'.
        split; [unfold Cinv; rewrite F1, F2; exact Hx|reflexivity].
      * simpl; intros x' E; injection E as E; subst x'; split; [exact Hx|reflexivity].
      * simpl; intros x' E; discriminate E.
      * (* COMMIT *)
        destruct (commit_res d last x); simpl; intros x' E; discriminate E.
      * simpl; intros x' E; discriminate E.
      * (* SAVEPOINT *)
        simpl. intros x' E. injection E as E. subst x'. split; [exact Hx|reflexivity].
      * discriminate Hn.
      * (* RELEASE *)
        unfold m_release. destruct (nfind n (x_sps x)); simpl; intros x' E; [|discriminate E].
        injection E as E. subst x'. split; [exact Hx|reflexivity].
      * simpl; intros x' E; discriminate E.
    + assert (Hdml : forall o' x',
                l_tx (fst (match mdml d last o' (mbegin d last false) with
                           | None => (L d last None, ob_fail d false)
                           | Some x =>
                               match commit_res d last x with
                               | CErr => (L d last None, ob_fail d false)
                               | COkEmpty => (L d last None, Ob false [] false false None (Some (x_cnt x, false)) (vis d))
                               | COk => (L (install (last + 1) (x_log x) d) (last + 1) None,
                                         Ob false [] false false None (Some (x_cnt x, true)) (vis (install (last + 1) (x_log x) d)))
                               end
                           end)) = Some x' -> False).
      { intros o' x' E. destruct (mdml d last o' (mbegin d last false)) as [x1|]; [destruct (commit_res d last x1)|];
          simpl in E; discriminate E. }
      destruct o; cbv beta iota zeta.
      * intros x' E. assert (E' : x' = mbegin d last ro) by (change (Some (mbegin d last ro) = Some x') in E; congruence).
        rewrite E'. split; [apply mbegin_cinv|reflexivity].
      * intros x' E. assert (E' : x' = mbegin d last false) by (change (Some (mbegin d last false) = Some x') in E; congruence).
        rewrite E'. split; [apply mbegin_cinv|reflexivity].
      * intros x' E; exfalso; eapply Hdml; exact E.
      * intros x' E; exfalso; eapply Hdml; exact E.
      * intros x' E; exfalso; eapply Hdml; exact E.
      * intros x' E; exfalso; eapply Hdml; exact E.
      * intros x' E; exfalso; eapply Hdml; exact E.
      * intros x' E; exfalso; eapply Hdml; exact E.
      * simpl; intros x' E; discriminate E.
      * simpl; intros x' E; discriminate E.
      * simpl; intros x' E; discriminate E.
      * simpl; intros x' E; discriminate E.
      * simpl; intros x' E; discriminate E.
      * simpl; intros x' E; discriminate E.
      * simpl; intros x' E; discriminate E.
      * simpl; intros x' E; discriminate E.
      * simpl; intros x' E; discriminate E.
  - intros x Ha. unfold commit_attempt in Ha. destruct ox as [x0|].
    + destruct o; try discriminate. injection Ha as Ha. subst x0. apply Hc. reflexivity.
    + destruct (is_dml o); [|discriminate]. eapply mdml_cinv; eauto. apply mbegin_cinv.
Qed.

Definition Inv (st : mstate) : Prop := forall s x, tg s (m_sess st) = Some x -> Cinv x.

Lemma inv_init : Inv minit.
Proof. intros s x H. destruct s; discriminate. Qed.

Lemma inv_step st p : Inv st -> not_rbto (snd p) = true -> Inv (fst (mstep st p)).
Proof.
  intros Hi Hn. destruct p as [s o]. simpl in Hn.
  destruct (mlocal_cinv (m_db st) (m_last st) (tg s (m_sess st)) o Hn (Hi s)) as [H1 _].
  unfold mstep. simpl fst. simpl snd.
  destruct (mlocal (m_db st) (m_last st) (tg s (m_sess st)) o) as [l ob]. simpl in *.
  intros s' x Hx. simpl in Hx. destruct (i3_eq_dec s' s) as [E|E].
  - subst s'. rewrite tg_ts_same in Hx. apply H1. exact Hx.
  - rewrite tg_ts_other in Hx by exact E. eapply Hi; eauto.
Qed.

Lemma no_rbto_app a b : no_rbto (a ++ b) = no_rbto a && no_rbto b.
Proof. unfold no_rbto. apply forallb_app. Qed.

Lemma inv_run steps : forall st, Inv st -> no_rbto steps = true -> Inv (mrun st steps).
Proof.
  induction steps as [|p r IH]; intros st Hi Hn; simpl; [exact Hi|].
  simpl in Hn. apply andb_prop in Hn as [H1 H2].
  apply IH; [|exact H2]. apply inv_step; [exact Hi|].
  destruct p as [s o]; destruct o; simpl in *; try reflexivity; discriminate.
Qed.

(* ---- T5 ---- *)
Theorem counters_match_applied_proof : forall steps s o,
  no_rbto (steps ++ [(s, o)]) = true ->
  let st := mrun minit steps in
  let st' := fst (mstep st (s, o)) in
  let ob := snd (mstep st (s, o)) in
  (forall x, tg s (m_sess st') = Some x -> o_cnt ob = Some (x_cnt x) /\ x_cnt x = derive (x_log x)) /\
  (forall k, o_ctx ob = Some (k, true) ->
             exists x, k = derive (x_log x) /\ x_log x <> [] /\
                       m_db st' = install (m_last st + 1) (x_log x) (m_db st)).
Proof.
  intros steps s o Hn. rewrite no_rbto_app in Hn. apply andb_prop in Hn as [Hn1 Hn2].
  assert (Hno : not_rbto o = true).
  { simpl in Hn2. destruct o; try reflexivity. discriminate. }
  pose proof (inv_run steps minit inv_init Hn1) as Hi.
  set (st := mrun minit steps) in *. cbv zeta.
  destruct (mlocal_cinv (m_db st) (m_last st) (tg s (m_sess st)) o Hno (Hi s)) as [H1 H2].
  pose proof (mlocal_cases (m_db st) (m_last st) (tg s (m_sess st)) o) as HC.
  unfold mstep. simpl fst. simpl snd.
  destruct (mlocal (m_db st) (m_last st) (tg s (m_sess st)) o) as [l ob]. simpl in *.
  split.
  - intros x Hx. rewrite tg_ts_same in Hx. destruct (H1 x Hx) as [Hc Ho]. split; [exact Ho|exact Hc].
  - intros k Hk. destruct HC as [[_ [_ Hcm]]|[x [Ha [Hl [_ [_ [_ [Hd Hctx]]]]]]]].
    + unfold commits in Hcm. rewrite Hk in Hcm. discriminate.
    + exists x. rewrite Hctx in Hk. injection Hk as Hk. subst k.
      split; [apply H2; exact Ha|]. split; [exact Hl|exact Hd].
Qed.
