(* precommitBuffer of embedded/store/precommit_buffer.go, transliterated: a read-ahead circular
   buffer of (txID, alh, txOff, txSize); put writes at (wpos+1)%size, readAhead(n) reads at
   (rpos+n+1)%size. Go `int` arguments that can be negative at a call site are compared by the
   caller; here n : N. No proofs in this file (see RingProofs.v). *)
From V Require Export Base.Bytes.

Definition EBufFull : N := 20.
Definition ENotEnoughData : N := 21.
Definition EIllegalArg : N := 1.

Record pentry := { pe_id : N; pe_alh : bytes; pe_off : N; pe_size : N }.
Definition pe_zero : pentry := {| pe_id := 0; pe_alh := repeat 0 32; pe_off := 0; pe_size := 0 |}.

Record pbuf := { b_buf : list pentry; b_rpos : N; b_wpos : N; b_full : bool }.

Definition pb_new (size : N) : pbuf :=
  {| b_buf := repeat pe_zero (N.to_nat size); b_rpos := 0; b_wpos := 0; b_full := false |}.

Definition pb_size (b : pbuf) : N := N.of_nat (length (b_buf b)).

(* freeSlots *)
Definition pb_free (b : pbuf) : N :=
  if b_full b then 0
  else if b_rpos b <=? b_wpos b then pb_size b - (b_wpos b - b_rpos b)
  else b_rpos b - b_wpos b.

(* len(b.buf) - b.freeSlots() *)
Definition pb_count (b : pbuf) : N := pb_size b - pb_free b.

(* buf[i] = e  (the Go code mutates the pointed-to entry in place) *)
Definition set_nth {A} (n : nat) (x : A) (l : list A) : list A :=
  if Nat.ltb n (length l) then firstn n l ++ x :: skipn (S n) l else l.

Definition pb_put (b : pbuf) (e : pentry) : res pbuf :=
  if b_full b then Err EBufFull else
  let w := (b_wpos b + 1) mod pb_size b in
  Ok {| b_buf := set_nth (N.to_nat w) e (b_buf b); b_rpos := b_rpos b; b_wpos := w;
        b_full := b_rpos b =? w |}.

Definition pb_recede (b : pbuf) (n : N) : res pbuf :=
  if n =? 0 then Err EIllegalArg else
  if pb_count b <? n then Err ENotEnoughData else
  Ok {| b_buf := b_buf b; b_rpos := b_rpos b;
        b_wpos := (b_wpos b + pb_size b - n) mod pb_size b; b_full := false |}.

Definition pb_read_ahead (b : pbuf) (n : N) : res pentry :=
  if pb_count b <=? n then Err ENotEnoughData else
  Ok (nth (N.to_nat ((b_rpos b + n + 1) mod pb_size b)) (b_buf b) pe_zero).

Definition pb_advance (b : pbuf) (n : N) : res pbuf :=
  if n =? 0 then Err EIllegalArg else
  if pb_count b <? n then Err ENotEnoughData else
  Ok {| b_buf := b_buf b; b_rpos := (b_rpos b + n) mod pb_size b; b_wpos := b_wpos b;
        b_full := false |}.

(* grow(newSize): occupied slots replayed in logical order into newBuf[1..count] *)
Definition pb_grow (b : pbuf) (newSize : N) : pbuf :=
  if newSize <=? pb_size b then b else
  let count := pb_count b in
  let occupied := map (fun i => nth (N.to_nat ((b_rpos b + 1 + N.of_nat i) mod pb_size b)) (b_buf b) pe_zero)
                      (seq 0 (N.to_nat count)) in
  {| b_buf := pe_zero :: occupied ++ repeat pe_zero (N.to_nat (newSize - count - 1));
     b_rpos := 0; b_wpos := count; b_full := count =? newSize |}.

(* the occupied entries in logical (insertion) order: what readAhead(0), readAhead(1), ... return *)
Definition pb_list (b : pbuf) : list pentry :=
  map (fun i => nth (N.to_nat ((b_rpos b + 1 + N.of_nat i) mod pb_size b)) (b_buf b) pe_zero)
      (seq 0 (N.to_nat (pb_count b))).

(* representation invariant *)
Definition pb_ok (b : pbuf) : Prop :=
  0 < pb_size b /\ b_rpos b < pb_size b /\ b_wpos b < pb_size b /\
  (b_full b = true -> b_rpos b = b_wpos b).
