(* Final statements of the C02 theorems (proved from Hist/Hist.v), for every hash function H, every
   store configuration with MaxActiveTransactions > 0 and EVERY sequence of steps. *)
From V Require Import Hist.Machine Hist.RingProofs Hist.Lemmas Hist.Chain Hist.Inv Hist.InvSteps Hist.Hist Hist.Aht.
From Coq Require Import ZifyN ZifyNat ZifyBool.

Section T.
Variable H : bytes -> bytes.

Lemma reach c ops : 0 < c_maxactive c -> reachable H (run H (init H c) ops).
Proof. intros Hm. exists c, ops. auto. Qed.

Lemma ids_dense c ops k : 0 < c_maxactive c ->
  let s := run H (init H c) ops in
  (1 <= k /\ k <= s_committed s -> exists r, read_tx s k = Ok r /\ h_id (r_hdr r) = k) /\
  (k = 0 \/ s_committed s < k -> exists e, read_tx s k = Err e).
Proof. intros Hm. apply (ids_dense_lemma H). apply reach; auto. Qed.

Lemma history_prefix_monotone c ops1 ops2 : 0 < c_maxactive c ->
  let s1 := run H (init H c) ops1 in
  let s2 := run H s1 ops2 in
  s_committed s1 <= s_committed s2 /\
  forall k, 1 <= k -> k <= s_committed s1 -> read_tx s2 k = read_tx s1 k.
Proof. intros Hm. apply (history_prefix_monotone_lemma H). apply reach; auto. Qed.

Lemma alh_chain_links c ops k r : 0 < c_maxactive c ->
  let s := run H (init H c) ops in
  1 <= k -> k <= s_committed s -> read_tx s k = Ok r ->
  (k = 1 -> h_prevalh (r_hdr r) = H []) /\
  (1 < k -> exists r', read_tx s (k - 1) = Ok r' /\ h_prevalh (r_hdr r) = r_alh r') /\
  h_bltxid (r_hdr r) < k /\
  alh_of H (r_hdr r) = Ok (r_alh r).
Proof. intros Hm s. apply (alh_chain_lemma H). apply reach; auto. Qed.

Lemma state_is_last c ops : 0 < c_maxactive c ->
  let s := run H (init H c) ops in
  (s_committed s = 0 -> snd (committed_state s) = H []) /\
  (0 < s_committed s -> exists r, read_tx s (s_committed s) = Ok r /\ r_alh r = snd (committed_state s)) /\
  fst (committed_state s) = s_committed s.
Proof.
  intros Hm s. destruct (state_is_last_lemma H s (reach c ops Hm)) as [A B]. split; [exact A|]. split; [exact B|reflexivity].
Qed.

Lemma txlog_extents_disjoint c ops o w x : 0 < c_maxactive c ->
  let s := run H (init H c) ops in
  In w (s_txlog (fst (step H s o))) -> ~ In w (s_txlog s) -> live_record s x -> w_end x <= w_off w.
Proof. intros Hm s. apply (txlog_extents_disjoint_lemma H). apply reach; auto. Qed.

Lemma discard_respects_committed c ops n : 0 < c_maxactive c ->
  let s := run H (init H c) ops in
  let s' := fst (discard s n) in
  s_committed s' = s_committed s /\ committed_state s' = committed_state s /\
  s_clog s' = s_clog s /\
  (forall k, 1 <= k -> k <= s_committed s -> read_tx s' k = read_tx s k) /\
  (n <= s_committed s -> exists e, snd (discard s n) = Err e).
Proof. intros Hm s. apply (discard_respects_committed_lemma H). apply reach; auto. Qed.

Lemma reopen_same_history c ops : 0 < c_maxactive c ->
  let s := run H (init H c) ops in
  let s' := fst (step H s OReopen) in
  committed_state s' = committed_state s /\
  forall k, 1 <= k -> k <= s_committed s -> read_tx s' k = read_tx s k.
Proof.
  intros Hm s. assert (HI : Inv H s) by (apply (reachable_inv H); apply reach; auto).
  pose proof (step_hist H s OReopen HI) as [_ Hh].
  cbn [step] in *. pose proof (reopen_committed H s HI) as Ec.
  split; [|exact Hh].
  destruct (state_is_last_lemma H s (reach c ops Hm)) as [A0 A1].
  assert (Hr' : reachable H (fst (reopen H s))).
  { exists c, (ops ++ [OReopen]). split; auto. rewrite run_app. reflexivity. }
  destruct (state_is_last_lemma H _ Hr') as [B0 B1]. unfold committed_state in *. cbn [snd] in *.
  rewrite Ec. f_equal.
  destruct (N.eq_dec (s_committed s) 0) as [Ez|Nz].
  - rewrite (A0 Ez). apply B0. lia.
  - destruct (A1 ltac:(lia)) as (r & R & <-). destruct (B1 ltac:(lia)) as (r' & R' & <-).
    rewrite Ec, Hh in R' by lia. congruence.
Qed.

(* every BlRoot is the Merkle root over the earlier Alh values (or a collision of H is exhibited) *)
Lemma blroot c ops k r : (forall x, length (H x) = 32%nat) -> 0 < c_maxactive c ->
  let s := run H (init H c) ops in
  1 <= k -> k <= s_committed s -> read_tx s k = Ok r -> 0 < h_bltxid (r_hdr r) ->
  h_blroot (r_hdr r) = mth H (alhs s (h_bltxid (r_hdr r))) \/ Collision H.
Proof.
  intros HL Hm s. apply (blroot_lemma H HL).
  - apply (run_inv H). apply init_inv. exact Hm.
  - apply run_inv2; auto. apply init_inv; auto. apply init_inv2; auto.
Qed.

(* no DiscardPrecommittedTxsSince in the execution: a commit call that returns success returns the
   header (id, Alh) of the committed transaction with that id *)
Lemma ack_partial c ops id alh : 0 < c_maxactive c -> existsb is_discard ops = false ->
  let s := run H (init H c) ops in
  In (id, alh) (acked s) -> exists r, read_tx s id = Ok r /\ r_alh r = alh.
Proof.
  intros Hm Hno s. apply (ack_lemma H).
  - apply (run_inv H). apply init_inv. exact Hm.
  - apply run_inv3; auto. apply init_inv; auto. intros i a Hin. destruct Hin.
Qed.

End T.

(* premises are satisfiable: a concrete execution with three committed transactions *)
Example premises_satisfiable :
  let c := {| c_synced := false; c_embedded := false; c_version := 1; c_maxactive := 10; c_maxentries := 64;
              c_maxkey := 128; c_maxval := 4096; c_ext0 := false; c_maxconc := 8; c_prealloc := false |} in
  let H := fun b : bytes => firstn 32 (b ++ repeat 0 32) in
  let tx k := {| p_entries := [{| k_key := [k]; k_md := []; k_val := [k] |}]; p_md := None; p_ts := 5;
                 p_precond := None; p_cancel := false |} in
  let ops := [OBegin 0 (tx 1) None false; OLocked 0; OBegin 1 (tx 2) None false; OLocked 1;
              OBegin 0 (tx 3) None false; OLocked 0] in
  0 < c_maxactive c /\ s_committed (run H (init H c) ops) = 3 /\
  exists r, read_tx (run H (init H c) ops) 2 = Ok r.
Proof. vm_compute. split; [reflexivity|]. split; [reflexivity|]. eexists. reflexivity. Qed.
