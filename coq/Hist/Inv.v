(* The invariant of the commit pipeline and its preservation by mayCommit / sync / AllowCommitUpto /
   SetExternalCommitAllowance / the first part of precommit. *)
From V Require Import Hist.Machine Hist.RingProofs Hist.Lemmas Hist.Chain.
From Coq Require Import ZifyN ZifyNat ZifyBool.

Ltac sp :=
  cbn [s_cfg s_txlog s_clog s_vlog s_vsize s_aht s_committed s_calh s_inmem s_ialh s_ptls s_tlnf s_buf
       s_ext s_allowed s_whub s_pend s_wait
       upd_pend upd_vlog upd_aht upd_txlog upd_clog upd_buf upd_committed upd_inmem upd_allow upd_tl
       tl_set_offset tl_flush tl_append fst snd] in *.

Definition cent (pe : pentry) : centry :=
  {| ce_off := pe_off pe; ce_size := pe_size pe; ce_alh := pe_alh pe |}.

Definition ids_from (i : N) (l : list pentry) : Prop :=
  forall k pe, nth_error l k = Some pe -> pe_id pe = i + N.of_nat k + 1.

(* committed part of the commit log *)
Definition clogC (s : state) : list centry := firstn (N.to_nat (s_committed s)) (s_clog s).
(* the live transactions: committed ones, then the precommitted ones held by cLogBuf *)
Definition live (s : state) : list centry := clogC s ++ map cent (pb_list (s_buf s)).

Section Inv.
Variable H : bytes -> bytes.

Record Inv (s : state) : Prop := {
  i_maxactive : 0 < c_maxactive (s_cfg s);
  i_buf_ok : pb_ok (s_buf s);
  i_clen : s_committed s <= lenN (s_clog s);
  (* since 8728288 an incomplete commit loop rewinds the commit log: it never holds entries beyond
     committedTxID *)
  i_cleq : lenN (s_clog s) = s_committed s;
  (* committed and precommitted records are intact, chained, at increasing offsets below
     precommittedTxLogSize *)
  i_chainB : chain (s_txlog s) 0 (H []) 0 (live s) (s_ptls s);
  (* so is everything the commit log contains, incl. entries appended by a commit loop that stopped midway *)
  i_chainC : chain (s_txlog s) 0 (H []) 0 (s_clog s) (s_ptls s);
  i_ids : ids_from (s_committed s) (pb_list (s_buf s));
  i_inmem : s_inmem s = s_committed s + lenN (pb_list (s_buf s));
  i_calh : s_calh s = last_alh (H []) (clogC s);
  i_ialh : s_ialh s = last_alh (H []) (live s);
  i_wf : Forall (wr_wf H) (s_txlog s)
}.

Lemma Inv_ext s s' :
  s_cfg s' = s_cfg s -> s_txlog s' = s_txlog s -> s_clog s' = s_clog s ->
  s_committed s' = s_committed s -> s_calh s' = s_calh s -> s_inmem s' = s_inmem s ->
  s_ialh s' = s_ialh s -> s_ptls s' = s_ptls s -> s_buf s' = s_buf s -> Inv s -> Inv s'.
Proof.
  intros E1 E2 E3 E4 E5 E6 E7 E8 E9 [].
  constructor; unfold live, clogC in *; rewrite ?E1, ?E2, ?E3, ?E4, ?E5, ?E6, ?E7, ?E8, ?E9; auto.
Qed.

Lemma init_inv c : 0 < c_maxactive c -> Inv (init H c).
Proof.
  intros Hm. destruct (pb_new_spec (c_maxactive c) Hm) as (Hok & Hl & Hs).
  constructor; unfold live, clogC, init; sp; rewrite ?Hl;
    cbn [N.to_nat firstn map app chain last_alh fold_left lenN length]; auto; try lia.
  intros k pe Hn. destruct k; discriminate.
Qed.

(* ---- facts about firstn on the commit log ---- *)
Lemma firstn_app_exact {A} (a b : list A) n : n = length a -> firstn n (a ++ b) = a.
Proof. intros ->. rewrite firstn_app, Nat.sub_diag, firstn_all. cbn [firstn]. apply app_nil_r. Qed.

Lemma clogC_len s : s_committed s <= lenN (s_clog s) -> lenN (clogC s) = s_committed s.
Proof. intros L. unfold clogC. rewrite lenN_firstn. lia. Qed.

Lemma clog_split s : s_clog s = clogC s ++ skipn (N.to_nat (s_committed s)) (s_clog s).
Proof. unfold clogC. symmetry. apply firstn_skipn. Qed.

Lemma last_alh_map_firstn p (B : list pentry) n pe :
  nth_error B n = Some pe -> last_alh p (map cent (firstn (S n) B)) = pe_alh pe.
Proof.
  intros Hn. rewrite <- firstn_map.
  apply (last_alh_firstn_succ p (map cent B) n (cent pe)).
  rewrite nth_error_map, Hn. reflexivity.
Qed.

Lemma nth_error_skipn' {A} (l : list A) n k : nth_error (skipn n l) k = nth_error l (n + k).
Proof.
  revert l; induction n as [|n IH]; intros l; [reflexivity|].
  destruct l as [|a l]; cbn [skipn plus nth_error]; [destruct k; reflexivity|apply IH].
Qed.

Lemma firstn_succ_nth' {A} (l : list A) j x : nth_error l j = Some x -> firstn (S j) l = firstn j l ++ [x].
Proof.
  revert j; induction l as [|a l IH]; intros [|j] Hn; try discriminate.
  - injection Hn as ->. reflexivity.
  - cbn [nth_error] in Hn. rewrite !firstn_cons. rewrite (IH _ Hn). reflexivity.
Qed.

Lemma ids_from_skipn i B n : ids_from i B -> ids_from (i + N.of_nat n) (skipn n B).
Proof.
  intros Hi k pe Hn. rewrite nth_error_skipn' in Hn. apply Hi in Hn. lia.
Qed.

Lemma nth_error_firstn' {A} (l : list A) n k : (k < n)%nat -> nth_error (firstn n l) k = nth_error l k.
Proof.
  revert l k; induction n as [|n IH]; intros l k L; [lia|].
  destruct l as [|a l]; [destruct k; reflexivity|].
  destruct k as [|k]; cbn [firstn nth_error]; [reflexivity|apply IH; lia].
Qed.

Lemma ids_from_firstn i B n : ids_from i B -> ids_from i (firstn n B).
Proof.
  intros Hi k pe Hn.
  destruct (Nat.lt_ge_cases k n) as [L|L].
  - rewrite nth_error_firstn' in Hn by auto. apply Hi in Hn. exact Hn.
  - assert (length (firstn n B) <= k)%nat by (rewrite firstn_length; lia).
    apply nth_error_None in H0. congruence.
Qed.

Lemma ids_from_snoc i B pe : ids_from i B -> pe_id pe = i + lenN B + 1 -> ids_from i (B ++ [pe]).
Proof.
  intros Hi E k pe' Hn.
  destruct (Nat.lt_ge_cases k (length B)) as [L|L].
  - rewrite nth_error_app1 in Hn by auto. apply Hi; auto.
  - rewrite nth_error_app2 in Hn by auto.
    destruct (k - length B)%nat as [|m] eqn:Ek; cbn [nth_error] in Hn.
    + injection Hn as <-. unfold lenN in E. rewrite E. lia.
    + destruct m; discriminate.
Qed.

(* ---- the commit loop ---- *)
Lemma skipn_nth_cons {A} (l : list A) n x : nth_error l n = Some x -> skipn n l = x :: skipn (S n) l.
Proof.
  revert n; induction l as [|a l IH]; intros [|n] Hn; try discriminate.
  - injection Hn as ->. reflexivity.
  - cbn [nth_error] in Hn. cbn [skipn]. rewrite (IH _ Hn). reflexivity.
Qed.

Lemma commit_loop_spec b : pb_ok b -> forall fuel i count clog last,
  fuel = N.to_nat (count - i) -> i <= count ->
  exists m,
    fst (commit_loop fuel b i count clog last) = clog ++ map cent (firstn m (skipn (N.to_nat i) (pb_list b))) /\
    (m <= N.to_nat (count - i))%nat /\
    match snd (commit_loop fuel b i count clog last) with
    | Ok (lid, lalh) =>
        m = N.to_nat (count - i) /\
        (i < count -> count <= lenN (pb_list b) /\
                      exists pe, nth_error (pb_list b) (N.to_nat (count - 1)) = Some pe /\
                                 lid = pe_id pe /\ lalh = pe_alh pe) /\
        (i = count -> (lid, lalh) = last)
    | Err _ => True
    | Panic => False
    end.
Proof.
  intros Hok. induction fuel as [|f IH]; intros i count clog last Hf Hi.
  - cbn [commit_loop fst snd]. exists 0%nat. cbn [firstn map]. rewrite app_nil_r. split; auto.
    split; [lia|]. destruct last as [lid lalh]. split; [lia|]. split; [lia|auto].
  - cbn [commit_loop].
    destruct (N.leb_spec count i) as [L|L]; [lia|].
    rewrite (pb_read_ahead_spec b i Hok).
    destruct (nth_error (pb_list b) (N.to_nat i)) as [pe|] eqn:Hn.
    + destruct (IH (i + 1) count
                  (clog ++ [{| ce_off := pe_off pe; ce_size := pe_size pe; ce_alh := pe_alh pe |}])
                  (pe_id pe, pe_alh pe) ltac:(lia) ltac:(lia)) as (m & E1 & Lm & E2).
      exists (S m). split; [|split; [lia|]].
      * rewrite E1. rewrite (skipn_nth_cons _ _ _ Hn). cbn [firstn map].
        rewrite <- app_assoc. cbn [app]. replace (N.to_nat (i + 1)) with (S (N.to_nat i)) by lia.
        reflexivity.
      * destruct (snd (commit_loop f b (i + 1) count _ (pe_id pe, pe_alh pe))) as [[lid lalh]| |]; auto.
        destruct E2 as (Em & E3 & E4). split; [lia|]. split; [|lia].
        intros _. assert (Hlen : i < lenN (pb_list b)).
        { unfold lenN. assert (N.to_nat i < length (pb_list b))%nat by (apply nth_error_Some; congruence). lia. }
        destruct (N.eq_dec (i + 1) count) as [Ec|Nc].
        -- specialize (E4 Ec). injection E4 as -> ->. split; [lia|].
           exists pe. replace (N.to_nat (count - 1)) with (N.to_nat i) by lia. auto.
        -- destruct (E3 ltac:(lia)) as (Lc & pe' & Hn' & -> & ->). split; auto. exists pe'. auto.
    + cbn [fst snd]. exists 0%nat. cbn [firstn map]. rewrite app_nil_r. split; auto. split; [lia|auto].
Qed.

Lemma clogC_all s : lenN (s_clog s) = s_committed s -> clogC s = s_clog s.
Proof. intros E. unfold clogC. apply firstn_all2. unfold lenN in E. lia. Qed.

(* an incomplete commit loop leaves the commit log rewound to committedTxID: nothing changed *)
Lemma Inv_clog_rewound s : Inv s -> Inv (upd_clog s (clogC s)).
Proof.
  intros HI. pose proof HI as []. eapply Inv_ext; [..|exact HI]; try reflexivity.
  sp. apply clogC_all. auto.
Qed.

Lemma may_commit_inv s : Inv s -> Inv (fst (may_commit s)).
Proof.
  intros HI. unfold may_commit.
  destruct (N.eqb_spec (commit_allowed_upto s) (s_committed s)) as [E|NE]; [exact HI|].
  destruct (N.ltb_spec (lenN (s_clog s)) (s_committed s)) as [L1|L1]; [exact HI|].
  fold (clogC s).
  destruct (N.ltb_spec (commit_allowed_upto s) (s_committed s)) as [L2|L2].
  - sp. exact (Inv_clog_rewound s HI).
  - set (count := commit_allowed_upto s - s_committed s).
    pose proof HI as [].
    destruct (commit_loop_spec (s_buf s) i_buf_ok0 (N.to_nat count) 0 count (clogC s) (0, zeros32)
                ltac:(lia) ltac:(lia)) as (m & E1 & Lm & E2).
    destruct (commit_loop (N.to_nat count) (s_buf s) 0 count (clogC s) (0, zeros32)) as [clog1 r] eqn:EL.
    cbn [fst snd] in E1, E2. cbn [skipn N.to_nat] in E1. subst clog1.
    pose proof (Inv_clog_rewound s HI) as HP.
    destruct r as [[lid lalh]|e|]; [|exact HP|exact HP].
    destruct E2 as (Em & E3 & _).
    destruct (E3 ltac:(lia)) as (Lc & pe & Hn & -> & ->).
    destruct (N.eqb_spec (pe_id pe) (commit_allowed_upto s)) as [Ef|Nf]; cbn [negb]; [|exact HP].
    assert (Hcnt : pb_count (s_buf s) = lenN (pb_list (s_buf s))) by (symmetry; apply pb_list_length).
    destruct (pb_advance_ok (s_buf s) count i_buf_ok0 ltac:(lia) ltac:(lia)) as (b' & Eb & Hok' & Hl' & Hs').
    rewrite Eb. sp.
    (* the committing step *)
    assert (HC : lenN (clogC s) = s_committed s) by (apply clogC_len; auto).
    assert (Hm : m = N.to_nat count) by lia. clear Em Lm. subst m.
    remember (pb_list (s_buf s)) as B eqn:EB.
    remember (clogC s ++ map cent (firstn (N.to_nat count) B)) as C1 eqn:EC1.
    assert (Hlen1 : lenN C1 = pe_id pe).
    { subst C1. rewrite lenN_app, lenN_map, lenN_firstn. lia. }
    assert (Hfirst : firstn (N.to_nat (pe_id pe)) C1 = C1).
    { apply firstn_all2. unfold lenN in Hlen1. lia. }
    assert (Hlist : C1 ++ map cent (skipn (N.to_nat count) B) = live s).
    { subst C1. unfold live. rewrite <- EB. rewrite <- app_assoc, <- map_app, firstn_skipn. reflexivity. }
    constructor; unfold live, clogC; sp; auto.
    + lia.
    + rewrite Hfirst, Hl'. rewrite Hlist. exact i_chainB0.
    + unfold live in i_chainB0. rewrite <- EB in i_chainB0.
      rewrite <- (firstn_skipn (N.to_nat count) B) in i_chainB0.
      rewrite map_app, app_assoc in i_chainB0. rewrite <- EC1 in i_chainB0. eapply chain_prefix; eauto.
    + rewrite Hl'. replace (pe_id pe) with (s_committed s + N.of_nat (N.to_nat count)) by lia.
      apply ids_from_skipn; auto.
    + rewrite Hl', lenN_skipn. lia.
    + rewrite Hfirst. subst C1. rewrite last_alh_app.
      replace (N.to_nat count) with (S (N.to_nat (count - 1))) by lia.
      symmetry. apply last_alh_map_firstn. exact Hn.
    + rewrite Hfirst, Hl'. rewrite Hlist. exact i_ialh0.
Qed.

(* ---- what a step keeps ---- *)
(* the committed part of the commit log is kept *)
Definition clog_keep (s s' : state) : Prop :=
  s_committed s <= s_committed s' /\ firstn (N.to_nat (s_committed s)) (s_clog s') = clogC s.
(* records readable below the bound stay readable *)
Definition tl_keep (B : N) (s s' : state) : Prop :=
  forall off x, tl_read (s_txlog s) off = Some x -> w_end x <= B -> tl_read (s_txlog s') off = Some x.

Lemma clog_keep_refl s : s_committed s <= lenN (s_clog s) -> clog_keep s s.
Proof. intros _. split; [lia|reflexivity]. Qed.
Lemma tl_keep_refl B s : tl_keep B s s.
Proof. intros off x R _. exact R. Qed.
Lemma tl_keep_trans B a b c : tl_keep B a b -> tl_keep B b c -> tl_keep B a c.
Proof. intros K1 K2 off x R E. apply K2; auto. Qed.
Lemma tl_keep_same B s s' : s_txlog s' = s_txlog s -> tl_keep B s s'.
Proof. intros E off x R _. rewrite E. exact R. Qed.

Lemma clog_keep_same s s' : s_clog s' = s_clog s -> s_committed s' = s_committed s -> clog_keep s s'.
Proof. intros E1 E2. split; [lia|]. unfold clogC. rewrite E1. reflexivity. Qed.

Lemma clog_keep_trans a b c : s_committed b <= lenN (s_clog b) ->
  clog_keep a b -> clog_keep b c -> clog_keep a c.
Proof.
  intros Lb [L1 E1] [L2 E2]. split; [lia|].
  assert (Hmin : Nat.min (N.to_nat (s_committed a)) (N.to_nat (s_committed b)) = N.to_nat (s_committed a)) by lia.
  rewrite <- E1.
  transitivity (firstn (N.to_nat (s_committed a)) (firstn (N.to_nat (s_committed b)) (s_clog c))).
  - rewrite firstn_firstn, Hmin. reflexivity.
  - rewrite E2. unfold clogC. rewrite firstn_firstn, Hmin. reflexivity.
Qed.

(* mayCommit *)
Lemma may_commit_keep s : Inv s -> clog_keep s (fst (may_commit s)) /\ s_txlog (fst (may_commit s)) = s_txlog s.
Proof.
  intros HI. pose proof HI as [? Hbok Hclen ? ? ? ? ? ? ?].
  assert (HC : lenN (clogC s) = s_committed s) by (apply clogC_len; auto).
  assert (Hpre : forall X, firstn (N.to_nat (s_committed s)) (clogC s ++ X) = clogC s).
  { intros X. apply firstn_app_exact. unfold lenN in HC. lia. }
  unfold may_commit.
  destruct (N.eqb_spec (commit_allowed_upto s) (s_committed s)) as [E|NE];
    [split; [apply clog_keep_refl; auto|reflexivity]|].
  destruct (N.ltb_spec (lenN (s_clog s)) (s_committed s)) as [L1|L1];
    [split; [apply clog_keep_refl; auto|reflexivity]|].
  fold (clogC s).
  destruct (N.ltb_spec (commit_allowed_upto s) (s_committed s)) as [L2|L2].
  - sp. split; [|reflexivity]. split; sp; [lia|]. rewrite <- (app_nil_r (clogC s)) at 1. apply Hpre.
  - set (count := commit_allowed_upto s - s_committed s).
    destruct (commit_loop_spec (s_buf s) Hbok (N.to_nat count) 0 count (clogC s) (0, zeros32)
                ltac:(lia) ltac:(lia)) as (m & E1 & Lm & E2).
    destruct (commit_loop (N.to_nat count) (s_buf s) 0 count (clogC s) (0, zeros32)) as [clog1 r] eqn:EL.
    cbn [fst snd] in E1, E2. subst clog1.
    assert (Hk : clog_keep s (upd_clog s (clogC s))).
    { split; sp; [lia|]. rewrite <- (app_nil_r (clogC s)) at 1. apply Hpre. }
    destruct r as [[lid lalh]|e|]; [|split; [exact Hk|reflexivity]|split; [exact Hk|reflexivity]].
    destruct (N.eqb_spec lid (commit_allowed_upto s)) as [Ef|Nf]; cbn [negb]; [|split; [exact Hk|reflexivity]].
    destruct (pb_advance (s_buf s) count) as [b'|e|]; [|split; [exact Hk|reflexivity]|split; [exact Hk|reflexivity]].
    sp. split; [|reflexivity]. split; sp; [lia|apply Hpre].
Qed.

Lemma sync_inv s : Inv s -> Inv (fst (sync s)).
Proof.
  intros HI. unfold sync. destruct (s_inmem s =? s_committed s); [exact HI|].
  apply may_commit_inv. eapply Inv_ext; [..|exact HI]; reflexivity.
Qed.

Lemma allow_inv s n : Inv s -> Inv (fst (allow s n)).
Proof.
  intros HI. unfold allow. destruct (negb (s_ext s)); [exact HI|].
  destruct (n <=? s_allowed s); [exact HI|].
  assert (HI' : Inv (upd_allow s (s_ext s) (if s_inmem s <? n then s_inmem s else n))).
  { eapply Inv_ext; [..|exact HI]; reflexivity. }
  destruct (c_synced (s_cfg s)); [exact HI'|]. apply may_commit_inv. exact HI'.
Qed.

Lemma set_ext_inv s b : Inv s -> Inv (fst (set_ext s b)).
Proof. intros HI. unfold set_ext. cbn [fst]. eapply Inv_ext; [..|exact HI]; reflexivity. Qed.

Definition same_core (s' s : state) : Prop :=
  s_cfg s' = s_cfg s /\ s_txlog s' = s_txlog s /\ s_clog s' = s_clog s /\
  s_committed s' = s_committed s /\ s_calh s' = s_calh s /\ s_inmem s' = s_inmem s /\
  s_ialh s' = s_ialh s /\ s_ptls s' = s_ptls s /\ s_buf s' = s_buf s.

Lemma Inv_same_core s s' : same_core s' s -> Inv s -> Inv s'.
Proof. intros (?&?&?&?&?&?&?&?&?). apply Inv_ext; auto. Qed.

Lemma same_core_refl s : same_core s s.
Proof. repeat split. Qed.

Lemma begin_vals_core s vals s0 (l : list N) :
  (if c_embedded (s_cfg s) then (s, map (fun _ : bytes => 0) vals)
   else let '(vl, sz, offs) := vlog_append (s_vlog s) (s_vsize s) vals in
        (upd_vlog s vl sz, map (fun o => enc_voff o) offs)) = (s0, l) ->
  same_core s0 s.
Proof.
  destruct (c_embedded (s_cfg s)).
  - intros [= <- _]. apply same_core_refl.
  - destruct (vlog_append (s_vlog s) (s_vsize s) vals) as [[vl sz] offs].
    intros [= <- _]. repeat split.
Qed.

Lemma begin_core s c p exp sk : same_core (fst (begin H s c p exp sk)) s.
Proof.
  unfold begin.
  repeat match goal with
  | |- same_core (fst (if ?b then _ else _)) _ => destruct b
  | |- same_core (fst (match ?x with _ => _ end)) _ => destruct x eqn:?
  | |- same_core (fst (let '(_, _) := ?x in _)) _ => destruct x eqn:?
  end; cbn [fst]; try apply same_core_refl;
  match goal with
  | E : (if c_embedded _ then _ else _) = (_, _) |- _ =>
      apply begin_vals_core in E; try exact E;
      destruct E as (?&?&?&?&?&?&?&?&?); repeat split; sp; auto
  end.
Qed.

Lemma begin_inv s c p exp sk : Inv s -> Inv (fst (begin H s c p exp sk)).
Proof. apply Inv_same_core. apply begin_core. Qed.

End Inv.
