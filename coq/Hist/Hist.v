(* What a reader gets back for the committed ids, in every reachable state, and how it evolves along
   steps: the lemmas behind the C02 theorems. *)
From V Require Import Hist.Machine Hist.RingProofs Hist.Lemmas Hist.Chain Hist.Inv Hist.InvSteps.
From Coq Require Import ZifyN ZifyNat ZifyBool.

Section Hist.
Variable H : bytes -> bytes.
Notation Inv := (Inv H).

(* ---- reachability ---- *)
Lemma step_inv s o : Inv s -> Inv (fst (step H s o)).
Proof.
  destruct o; cbn [step].
  - apply begin_inv.
  - apply locked_inv.
  - apply sync_inv.
  - apply allow_inv.
  - apply discard_inv.
  - apply set_ext_inv.
  - apply reopen_inv.
Qed.

Lemma run_inv ops : forall s, Inv s -> Inv (run H s ops).
Proof.
  induction ops as [|o ops IH]; intros s HI; [exact HI|].
  cbn [run fold_left]. apply IH. apply step_inv. exact HI.
Qed.

Definition reachable (s : state) : Prop :=
  exists c ops, 0 < c_maxactive c /\ s = run H (init H c) ops.

Lemma reachable_inv s : reachable s -> Inv s.
Proof. intros (c & ops & Hm & ->). apply run_inv. apply init_inv. exact Hm. Qed.

Lemma run_app s a b : run H s (a ++ b) = run H (run H s a) b.
Proof. unfold run. apply fold_left_app. Qed.

Lemma reachable_run s ops : reachable s -> reachable (run H s ops).
Proof. intros (c & ops0 & Hm & ->). exists c, (ops0 ++ ops). split; auto. symmetry. apply run_app. Qed.

(* ---- ReadTx on a committed id ---- *)
Lemma clogC_nth s j : (j < N.to_nat (s_committed s))%nat ->
  nth_error (clogC s) j = nth_error (s_clog s) j.
Proof. intros L. unfold clogC. apply nth_error_firstn'. exact L. Qed.

Lemma read_tx_spec s k : Inv s -> 1 <= k -> k <= s_committed s ->
  exists e w,
    nth_error (clogC s) (N.to_nat (k - 1)) = Some e /\
    points (s_txlog s) k (last_alh (H []) (firstn (N.to_nat (k - 1)) (clogC s))) e w /\
    read_tx s k = Ok (w_rec w) /\ wr_wf H w /\ w_end w <= s_ptls s.
Proof.
  intros HI L1 L2. pose proof HI as [].
  assert (HC : lenN (clogC s) = s_committed s) by (apply clogC_len; auto).
  destruct (nth_error (clogC s) (N.to_nat (k - 1))) as [e|] eqn:Hn.
  2:{ apply nth_error_None in Hn. unfold lenN in HC. lia. }
  assert (HchC : chain (s_txlog s) 0 (H []) 0 (clogC s) (s_ptls s)).
  { unfold live in i_chainB. eapply (chain_prefix H); eauto. }
  destruct (chain_nth H _ _ _ _ _ _ _ _ HchC Hn) as (w & P & E).
  replace (0 + N.of_nat (N.to_nat (k - 1)) + 1) with k in P by lia.
  exists e, w. split; [reflexivity|]. split; [exact P|].
  destruct P as (R & Es & Hid & _).
  split; [|split; [|exact E]].
  - unfold read_tx.
    destruct (N.eqb_spec k 0) as [|_]; [lia|].
    destruct (N.ltb_spec (s_inmem s) k) as [|_]; [lia|].
    destruct (N.ltb_spec (s_committed s) k) as [|_]; [lia|]. cbn [orb].
    unfold clog_entry. destruct (N.eqb_spec k 0) as [|_]; [lia|].
    rewrite <- clogC_nth by lia. rewrite Hn. unfold read_at. rewrite R, Es, N.eqb_refl.
    unfold check_id. cbn [bind]. rewrite Hid, N.eqb_refl. reflexivity.
  - apply tl_read_some in R. destruct R as [_ Hin]. eapply Forall_forall in i_wf; eauto.
Qed.

Lemma read_tx_beyond s k : k = 0 \/ s_committed s < k -> exists e, read_tx s k = Err e.
Proof.
  intros Hk. unfold read_tx.
  destruct (N.eqb_spec k 0); cbn [orb]; [eauto|].
  destruct (N.ltb_spec (s_inmem s) k); cbn [orb]; [eauto|].
  destruct (N.ltb_spec (s_committed s) k); [eauto|lia].
Qed.

Definition hist_le (s s' : state) : Prop :=
  s_committed s <= s_committed s' /\
  forall k, 1 <= k -> k <= s_committed s -> read_tx s' k = read_tx s k.

Lemma hist_le_refl s : hist_le s s.
Proof. split; [lia|auto]. Qed.
Lemma hist_le_trans a b c : hist_le a b -> hist_le b c -> hist_le a c.
Proof.
  intros [L1 R1] [L2 R2]. split; [lia|]. intros k K1 K2. rewrite R2 by lia. apply R1; auto.
Qed.

Lemma keep_hist_le s s' :
  Inv s -> Inv s' -> clog_keep s s' -> tl_keep (s_ptls s) s s' -> hist_le s s'.
Proof.
  intros HI HI' [Lc Ec] Ht. split; [exact Lc|]. intros k K1 K2.
  destruct (read_tx_spec s k HI K1 K2) as (e & w & Hn & (R & Es & _) & -> & _ & Eend).
  destruct (read_tx_spec s' k HI' K1 ltac:(lia)) as (e' & w' & Hn' & (R' & Es' & _) & -> & _ & _).
  assert (e' = e).
  { assert (Hn2 : nth_error (clogC s') (N.to_nat (k - 1)) = Some e).
    { unfold clogC at 1.
      rewrite <- (firstn_skipn (N.to_nat (s_committed s)) (firstn _ (s_clog s'))).
      rewrite firstn_firstn. replace (Nat.min (N.to_nat (s_committed s)) (N.to_nat (s_committed s')))
        with (N.to_nat (s_committed s)) by lia.
      rewrite Ec. rewrite nth_error_app1; [exact Hn|].
      apply nth_error_Some. congruence. }
    congruence. }
  subst e'. rewrite (Ht _ _ R Eend) in R'. congruence.
Qed.

Lemma same_core_hist s s' : Inv s -> same_core s' s -> hist_le s s'.
Proof.
  intros HI Hc. pose proof (Inv_same_core H s s' Hc HI) as HI'.
  destruct Hc as (?&E2&E3&E4&?&?&?&?&?).
  apply keep_hist_le; auto.
  - apply clog_keep_same; auto.
  - apply tl_keep_same; auto.
Qed.

Lemma may_commit_hist s : Inv s -> hist_le s (fst (may_commit s)).
Proof.
  intros HI. destruct (may_commit_keep H s HI) as [Hk Ht].
  apply keep_hist_le; auto.
  - apply may_commit_inv; auto.
  - apply tl_keep_same; auto.
Qed.

Lemma sync_hist s : Inv s -> hist_le s (fst (sync s)).
Proof.
  intros HI. unfold sync. destruct (s_inmem s =? s_committed s); [apply hist_le_refl|].
  assert (Hc : same_core (tl_flush s) s) by (repeat split).
  eapply hist_le_trans; [apply (same_core_hist s _ HI Hc)|].
  apply may_commit_hist. eapply Inv_same_core; eauto.
Qed.

Lemma allow_hist s n : Inv s -> hist_le s (fst (allow s n)).
Proof.
  intros HI. unfold allow. destruct (negb (s_ext s)); [apply hist_le_refl|].
  destruct (n <=? s_allowed s); [apply hist_le_refl|].
  match goal with |- context [upd_allow s ?e ?a] => set (s1 := upd_allow s e a) end.
  assert (Hc : same_core s1 s) by (repeat split).
  destruct (c_synced (s_cfg s)); cbn [fst]; [apply (same_core_hist s _ HI Hc)|].
  eapply hist_le_trans; [apply (same_core_hist s _ HI Hc)|].
  apply may_commit_hist. eapply Inv_same_core; eauto.
Qed.

Lemma set_ext_hist s b : Inv s -> hist_le s (fst (set_ext s b)).
Proof. intros HI. apply same_core_hist; auto. repeat split. Qed.

Lemma begin_hist s c p exp sk : Inv s -> hist_le s (fst (begin H s c p exp sk)).
Proof. intros HI. apply same_core_hist; auto. apply begin_core. Qed.

(* DiscardPrecommittedTxsSince never touches what is committed *)
Lemma keep_hist_le_B s s' B :
  Inv s -> Inv s' -> clog_keep s s' -> chain (s_txlog s) 0 (H []) 0 (clogC s) B -> tl_keep B s s' ->
  hist_le s s'.
Proof.
  intros HI HI' [Lc Ec] HchB Ht. split; [exact Lc|]. intros k K1 K2.
  destruct (read_tx_spec s k HI K1 K2) as (e & w & Hn & (R & Es & _) & -> & _ & _).
  destruct (read_tx_spec s' k HI' K1 ltac:(lia)) as (e' & w' & Hn' & (R' & Es' & _) & -> & _ & _).
  destruct (chain_nth H _ _ _ _ _ _ _ _ HchB Hn) as (w0 & (R0 & _) & Eend).
  rewrite R in R0. injection R0 as <-.
  assert (e' = e).
  { assert (Hn2 : nth_error (clogC s') (N.to_nat (k - 1)) = Some e).
    { unfold clogC at 1.
      rewrite <- (firstn_skipn (N.to_nat (s_committed s)) (firstn _ (s_clog s'))).
      rewrite firstn_firstn. replace (Nat.min (N.to_nat (s_committed s)) (N.to_nat (s_committed s')))
        with (N.to_nat (s_committed s)) by lia.
      rewrite Ec. rewrite nth_error_app1; [exact Hn|].
      apply nth_error_Some. congruence. }
    congruence. }
  subst e'. rewrite (Ht _ _ R Eend) in R'. congruence.
Qed.

Lemma discard_hist s n : Inv s -> hist_le s (fst (discard s n)).
Proof.
  intros HI. destruct (discard_full H s n HI) as (HI' & (B & Hd & HchB) & _ & E2 & E3 & _).
  apply (keep_hist_le_B s _ B); auto.
  - apply clog_keep_same; auto.
  - intros off x R E. eapply tl_read_drops; eauto.
Qed.

(* Close + OpenWith *)
Lemma reopen_core s :
  let s' := fst (reopen H s) in
  s_txlog s' = s_txlog s /\ s_clog s' = s_clog s /\
  (s_committed s' = s_committed s \/ s_committed s' = lenN (s_clog s)).
Proof.
  unfold reopen.
  repeat match goal with
  | |- context [match ?x with Ok _ => _ | Err _ => _ | Panic => _ end] => destruct x as [[[[? ?] ?] ?]| |]
  | |- context [match ?x with Ok _ => _ | Err _ => _ | Panic => _ end] => destruct x as [[? ?]| |]
  | |- context [match ?x with Ok _ => _ | Err _ => _ | Panic => _ end] => destruct x
  | |- context [if ?b then _ else _] => destruct b
  end; cbn [fst]; sp; auto.
Qed.

Lemma reopen_hist s : Inv s -> hist_le s (fst (reopen H s)).
Proof.
  intros HI. destruct (reopen_core s) as (E1 & E2 & E3). pose proof HI as [].
  apply keep_hist_le; auto.
  - apply reopen_inv; auto.
  - split; [destruct E3 as [->| ->]; lia|]. rewrite E2. reflexivity.
  - apply tl_keep_same; auto.
Qed.

Lemma locked_hist s c : Inv s -> hist_le s (fst (locked H s c)).
Proof.
  intros HI. destruct (locked_cases H s c HI) as (s4 & HI4 & Kc & Kt & [-> | ->] & _ & _ & _).
  - apply keep_hist_le; auto.
  - eapply hist_le_trans; [apply keep_hist_le; eauto|apply may_commit_hist; auto].
Qed.

Lemma step_hist s o : Inv s -> hist_le s (fst (step H s o)).
Proof.
  destruct o; cbn [step].
  - apply begin_hist.
  - apply locked_hist.
  - apply sync_hist.
  - apply allow_hist.
  - apply discard_hist.
  - apply set_ext_hist.
  - apply reopen_hist.
Qed.

Lemma run_hist ops : forall s, Inv s -> hist_le s (run H s ops).
Proof.
  induction ops as [|o ops IH]; intros s HI; [apply hist_le_refl|].
  cbn [run fold_left]. eapply hist_le_trans; [apply step_hist; exact HI|].
  apply IH. apply step_inv. exact HI.
Qed.

(* ---- the statements behind the C02 theorems ---- *)
Lemma ids_dense_lemma s k : reachable s ->
  (1 <= k /\ k <= s_committed s -> exists r, read_tx s k = Ok r /\ h_id (r_hdr r) = k) /\
  (k = 0 \/ s_committed s < k -> exists e, read_tx s k = Err e).
Proof.
  intros Hr. apply reachable_inv in Hr. split.
  - intros [K1 K2]. destruct (read_tx_spec s k Hr K1 K2) as (e & w & _ & (_ & _ & Hid & _) & -> & _).
    eauto.
  - apply read_tx_beyond.
Qed.

Lemma history_prefix_monotone_lemma s ops : reachable s ->
  s_committed s <= s_committed (run H s ops) /\
  forall k, 1 <= k -> k <= s_committed s -> read_tx (run H s ops) k = read_tx s k.
Proof. intros Hr. apply run_hist. apply reachable_inv. exact Hr. Qed.

Lemma alh_chain_lemma s k r : reachable s -> 1 <= k -> k <= s_committed s -> read_tx s k = Ok r ->
  (k = 1 -> h_prevalh (r_hdr r) = H []) /\
  (1 < k -> exists r', read_tx s (k - 1) = Ok r' /\ h_prevalh (r_hdr r) = r_alh r') /\
  h_bltxid (r_hdr r) < k /\
  alh_of H (r_hdr r) = Ok (r_alh r).
Proof.
  intros Hr K1 K2 R. apply reachable_inv in Hr.
  destruct (read_tx_spec s k Hr K1 K2) as (e & w & Hn & (_ & _ & Hid & Hprev & _) & R' & (Hw1 & Hw2) & _).
  rewrite R in R'. injection R' as ->.
  split; [|split; [|split]].
  - intros ->. rewrite Hprev. reflexivity.
  - intros K3.
    destruct (read_tx_spec s (k - 1) Hr ltac:(lia) ltac:(lia)) as (e' & w' & Hn' & (_ & _ & _ & _ & Ha') & R'' & _).
    exists (w_rec w'). split; [exact R''|]. rewrite Hprev, Ha'.
    replace (N.to_nat (k - 1)) with (S (N.to_nat (k - 1 - 1))) by lia.
    apply last_alh_firstn_succ. exact Hn'.
  - rewrite <- Hid. exact Hw2.
  - exact Hw1.
Qed.

Lemma state_is_last_lemma s : reachable s ->
  (s_committed s = 0 -> snd (committed_state s) = H []) /\
  (0 < s_committed s -> exists r, read_tx s (s_committed s) = Ok r /\ r_alh r = snd (committed_state s)).
Proof.
  intros Hr. apply reachable_inv in Hr. pose proof Hr as []. unfold committed_state. cbn [snd].
  assert (HC : lenN (clogC s) = s_committed s) by (apply clogC_len; auto).
  split.
  - intros E. rewrite i_calh. unfold clogC. rewrite E. reflexivity.
  - intros L.
    destruct (read_tx_spec s (s_committed s) Hr ltac:(lia) ltac:(lia)) as (e & w & Hn & (_ & _ & _ & _ & Ha) & R & _).
    exists (w_rec w). split; [exact R|]. rewrite i_calh, Ha. symmetry.
    apply (last_alh_last H). unfold lenN in HC.
    replace (length (clogC s) - 1)%nat with (N.to_nat (s_committed s - 1)) by lia. exact Hn.
Qed.

(* a record located by a live entry (committed, precommitted, or a commit-log entry left by a commit
   loop that stopped midway) ends at or below precommittedTxLogSize *)
Definition live_record (s : state) (x : wr) : Prop :=
  exists e, (In e (live s) \/ In e (s_clog s)) /\ tl_read (s_txlog s) (ce_off e) = Some x.

Lemma live_record_end s x : Inv s -> live_record s x -> w_end x <= s_ptls s.
Proof.
  intros [] (e & [Hin|Hin] & R); apply In_nth_error in Hin; destruct Hin as (j & Hn).
  - destruct (chain_nth H _ _ _ _ _ _ _ _ i_chainB Hn) as (w & (R' & _) & E). congruence.
  - destruct (chain_nth H _ _ _ _ _ _ _ _ i_chainC Hn) as (w & (R' & _) & E). congruence.
Qed.

Lemma step_new_writes s o : Inv s ->
  forall w, In w (s_txlog (fst (step H s o))) -> In w (s_txlog s) \/ w_off w = s_ptls s.
Proof.
  intros HI w. destruct o; cbn [step].
  - destruct (begin_core H s c p exp skipic) as (_ & -> & _). auto.
  - destruct (locked_cases H s c HI) as (s4 & HI4 & _ & _ & [-> | ->] & Hn & _ & _); [apply Hn|].
    destruct (may_commit_keep H s4 HI4) as [_ ->]. apply Hn.
  - unfold sync. destruct (s_inmem s =? s_committed s); [auto|].
    assert (HI' : Inv (tl_flush s)) by (eapply Inv_same_core; eauto; repeat split).
    destruct (may_commit_keep H _ HI') as [_ ->]. auto.
  - unfold allow. destruct (negb (s_ext s)); [auto|]. destruct (n <=? s_allowed s); [auto|].
    destruct (c_synced (s_cfg s)); [auto|].
    match goal with |- context [may_commit ?s1] =>
      assert (HI' : Inv s1) by (eapply Inv_same_core; eauto; repeat split);
      destruct (may_commit_keep H s1 HI') as [_ ->] end. auto.
  - destruct (discard_full H s n HI) as (_ & (B & Hd & _) & _). intros Hin. left. eapply drops_in; eauto.
  - auto.
  - destruct (reopen_core s) as (-> & _). auto.
Qed.

Lemma txlog_extents_disjoint_lemma s o w x : reachable s ->
  In w (s_txlog (fst (step H s o))) -> ~ In w (s_txlog s) -> live_record s x -> w_end x <= w_off w.
Proof.
  intros Hr Hin Hnew Hl. apply reachable_inv in Hr.
  destruct (step_new_writes s o Hr w Hin) as [|E]; [contradiction|].
  rewrite E. apply live_record_end; auto.
Qed.

Lemma discard_respects_committed_lemma s n : reachable s ->
  let s' := fst (discard s n) in
  s_committed s' = s_committed s /\ committed_state s' = committed_state s /\
  s_clog s' = s_clog s /\
  (forall k, 1 <= k -> k <= s_committed s -> read_tx s' k = read_tx s k) /\
  (n <= s_committed s -> exists e, snd (discard s n) = Err e).
Proof.
  intros Hr. apply reachable_inv in Hr. cbn zeta.
  destruct (discard_full H s n Hr) as (_ & _ & _ & E2 & E3 & E4 & _).
  split; [exact E3|]. split; [unfold committed_state; rewrite E3, E4; reflexivity|].
  split; [exact E2|]. split; [apply (discard_hist s n Hr)|].
  intros L. unfold discard. destruct (n =? 0); [cbn [snd]; eauto|].
  destruct (N.leb_spec n (s_committed s)); [cbn [snd]; eauto|lia].
Qed.

(* a clean close/reopen leaves the committed id where it was *)
Lemma reopen_committed s : Inv s -> s_committed (fst (reopen H s)) = s_committed s.
Proof.
  intros HI. pose proof HI as []. destruct (reopen_core s) as (_ & _ & [E|E]); [exact E|]. lia.
Qed.

End Hist.
