(* Lemmas about the tx-log read abstraction of Hist/Machine.v and about chains of located records. *)
From V Require Import Hist.Machine Hist.RingProofs.
From Coq Require Import ZifyN ZifyNat ZifyBool.

Lemma hsize_val : hsize = 32. Proof. reflexivity. Qed.

Lemma rec_size_pos r : 0 < rec_size r.
Proof. unfold rec_size. rewrite hsize_val. lia. Qed.

Lemma w_off_le_hdr w : w_off w <= w_hdr_off w.
Proof. unfold w_hdr_off. lia. Qed.
Lemma w_hdr_lt_end w : w_hdr_off w < w_end w.
Proof. unfold w_end. pose proof (rec_size_pos (w_rec w)). lia. Qed.
Lemma w_off_lt_end w : w_off w < w_end w.
Proof. pose proof (w_off_le_hdr w). pose proof (w_hdr_lt_end w). lia. Qed.

Lemma w_disjoint_sym a b : w_disjoint a b = w_disjoint b a.
Proof. unfold w_disjoint. apply orb_comm. Qed.

Lemma w_disjoint_spec a b : w_disjoint a b = true <-> (w_end a <= w_off b \/ w_end b <= w_off a).
Proof. unfold w_disjoint. rewrite orb_true_iff, !N.leb_le. tauto. Qed.

(* ---- tl_read ---- *)
Lemma tl_read_some log off x : tl_read log off = Some x -> w_hdr_off x = off /\ In x log.
Proof.
  induction log as [|w log IH]; cbn [tl_read]; [discriminate|].
  destruct (N.eqb_spec (w_hdr_off w) off) as [E|NE].
  - intros [= <-]. split; [auto | left; auto].
  - destruct (tl_read log off) as [y|] eqn:R; [|discriminate].
    destruct (w_disjoint w y); [|discriminate].
    intros [= <-]. destruct (IH eq_refl) as [? ?]. split; [auto | right; auto].
Qed.

(* a write that starts at or after the end of a readable record leaves it readable *)
Lemma tl_read_cons_keep log off x w :
  tl_read log off = Some x -> w_end x <= w_off w -> tl_read (w :: log) off = Some x.
Proof.
  intros R L. cbn [tl_read].
  destruct (tl_read_some _ _ _ R) as [Hx _].
  pose proof (w_hdr_lt_end x). pose proof (w_off_le_hdr w).
  destruct (N.eqb_spec (w_hdr_off w) off) as [E|NE]; [lia|].
  rewrite R. replace (w_disjoint w x) with true; auto.
  symmetry. apply w_disjoint_spec. right. exact L.
Qed.

Lemma tl_read_cons_new log w : tl_read (w :: log) (w_hdr_off w) = Some w.
Proof. cbn [tl_read]. rewrite N.eqb_refl. reflexivity. Qed.

(* dropping writes that start at or after the end of a readable record leaves it readable *)
Lemma tl_read_filter_keep (f : wr -> bool) log off x :
  tl_read log off = Some x ->
  (forall w, In w log -> f w = false -> w_end x <= w_off w) ->
  tl_read (filter f log) off = Some x.
Proof.
  induction log as [|w log IH]; cbn [tl_read filter]; [discriminate|].
  intros R Hf.
  destruct (N.eqb_spec (w_hdr_off w) off) as [E|NE].
  - injection R as <-.
    destruct (f w) eqn:F.
    + cbn [tl_read]. rewrite E, N.eqb_refl. reflexivity.
    + specialize (Hf w (or_introl eq_refl) F). pose proof (w_off_lt_end w). lia.
  - destruct (tl_read log off) as [y|] eqn:Ry; [|discriminate].
    destruct (w_disjoint w y) eqn:D; [|discriminate].
    injection R as <-.
    assert (IH' : tl_read (filter f log) off = Some y).
    { apply IH; auto. intros w' Hin F'. apply Hf; [right; auto | auto]. }
    destruct (f w) eqn:F.
    + cbn [tl_read]. destruct (N.eqb_spec (w_hdr_off w) off); [congruence|].
      rewrite IH', D. reflexivity.
    + exact IH'.
Qed.

(* log' is log with some writes removed, all of which start at or above B *)
Inductive drops (B : N) : list wr -> list wr -> Prop :=
| drops_nil : drops B [] []
| drops_keep w l l' : drops B l l' -> drops B (w :: l) (w :: l')
| drops_drop w l l' : drops B l l' -> B <= w_off w -> drops B (w :: l) l'.

Lemma drops_refl B l : drops B l l.
Proof. induction l; constructor; auto. Qed.

Lemma drops_in B l l' w : drops B l l' -> In w l' -> In w l.
Proof.
  induction 1 as [|w0 l l' _ IH|w0 l l' _ IH L]; intros Hin; auto.
  - destruct Hin as [<-|Hin]; [left; auto|right; auto].
  - right; auto.
Qed.

Lemma drops_app B a a' b : drops B a a' -> drops B (a ++ b) (a' ++ b).
Proof. induction 1; cbn [app]; [apply drops_refl|constructor; auto|constructor; auto]. Qed.

Lemma drops_filter B (f : wr -> bool) l :
  (forall w, In w l -> f w = false -> B <= w_off w) -> drops B l (filter f l).
Proof.
  induction l as [|w l IH]; intros Hf; cbn [filter]; [constructor|].
  destruct (f w) eqn:F.
  - constructor. apply IH. intros w' Hin. apply Hf. right; auto.
  - apply drops_drop; [apply IH; intros w' Hin; apply Hf; right; auto|]. apply Hf; [left; auto|auto].
Qed.

Lemma tl_read_drops B log log' off x :
  drops B log log' -> tl_read log off = Some x -> w_end x <= B -> tl_read log' off = Some x.
Proof.
  induction 1 as [|w l l' _ IH|w l l' _ IH L]; cbn [tl_read]; auto.
  - intros R E. destruct (N.eqb_spec (w_hdr_off w) off) as [Eo|No]; [exact R|].
    destruct (tl_read l off) as [y|] eqn:Ry; [|discriminate].
    destruct (w_disjoint w y) eqn:D; [|discriminate]. injection R as <-.
    rewrite (IH eq_refl E), D. reflexivity.
  - intros R E. destruct (N.eqb_spec (w_hdr_off w) off) as [Eo|No].
    + injection R as <-. pose proof (w_off_lt_end w). lia.
    + destruct (tl_read l off) as [y|] eqn:Ry; [|discriminate].
      destruct (w_disjoint w y); [|discriminate]. injection R as <-. apply IH; auto.
Qed.

Lemma drops_app2 B a a' b b' : drops B a a' -> drops B b b' -> drops B (a ++ b) (a' ++ b').
Proof. induction 1; cbn [app]; intros Hb; [exact Hb|constructor; auto|constructor; auto]. Qed.

(* the write that starts at pos, found intact, is also what a reader positioned at its header finds *)
Lemma tl_start_read log pos w : tl_start log pos = Some w -> w_off w = pos /\ tl_read log (w_hdr_off w) = Some w.
Proof.
  induction log as [|w0 log IH]; cbn [tl_start tl_read]; [discriminate|].
  destruct (N.eqb_spec (w_off w0) pos) as [E|NE].
  - intros [= <-]. rewrite N.eqb_refl. auto.
  - destruct (tl_start log pos) as [x|]; [|discriminate].
    destruct (w_disjoint w0 x) eqn:D; [|discriminate]. intros [= <-].
    destruct (IH eq_refl) as [Eo R]. split; [exact Eo|].
    destruct (N.eqb_spec (w_hdr_off w0) (w_hdr_off x)) as [Eh|Nh].
    + apply w_disjoint_spec in D. pose proof (w_off_le_hdr w0). pose proof (w_hdr_lt_end w0).
      pose proof (w_off_le_hdr x). pose proof (w_hdr_lt_end x). lia.
    + rewrite R, D. reflexivity.
Qed.

(* two records readable in the same log are the same write or do not overlap *)
Lemma tl_read_disjoint log a b x y :
  tl_read log a = Some x -> tl_read log b = Some y -> x = y \/ w_disjoint x y = true.
Proof.
  revert x y; induction log as [|w log IH]; intros x y; cbn [tl_read]; [discriminate|].
  destruct (N.eqb_spec (w_hdr_off w) a) as [Ea|Na]; destruct (N.eqb_spec (w_hdr_off w) b) as [Eb|Nb].
  - intros [= <-] [= <-]. left; auto.
  - intros [= <-]. destruct (tl_read log b) as [y'|]; [|discriminate].
    destruct (w_disjoint w y') eqn:D; [|discriminate]. intros [= <-]. right; auto.
  - destruct (tl_read log a) as [x'|]; [|discriminate].
    destruct (w_disjoint w x') eqn:D; [|discriminate]. intros [= <-] [= <-].
    right. rewrite w_disjoint_sym. auto.
  - destruct (tl_read log a) as [x'|] eqn:Ra; [|discriminate].
    destruct (w_disjoint w x'); [|discriminate].
    destruct (tl_read log b) as [y'|] eqn:Rb; [|discriminate].
    destruct (w_disjoint w y'); [|discriminate].
    intros [= <-] [= <-]. apply IH; auto.
Qed.

(* ---- small list facts ---- *)
Lemma lenN_app {A} (a b : list A) : lenN (a ++ b) = lenN a + lenN b.
Proof. unfold lenN. rewrite app_length. lia. Qed.
Lemma lenN_firstn {A} n (l : list A) : lenN (firstn (N.to_nat n) l) = N.min n (lenN l).
Proof. unfold lenN. rewrite firstn_length. lia. Qed.
Lemma lenN_skipn {A} n (l : list A) : lenN (skipn (N.to_nat n) l) = lenN l - n.
Proof. unfold lenN. rewrite skipn_length. lia. Qed.
Lemma lenN_map {A B} (f : A -> B) l : lenN (map f l) = lenN l.
Proof. unfold lenN. rewrite map_length. reflexivity. Qed.
Lemma lenN_nil {A} : lenN (@nil A) = 0. Proof. reflexivity. Qed.
Lemma lenN_cons {A} (x : A) l : lenN (x :: l) = lenN l + 1.
Proof. unfold lenN. cbn [length]. lia. Qed.

Lemma list_eq_dec_b_true a b : list_eq_dec_b a b = true <-> a = b.
Proof.
  revert b; induction a as [|x a IH]; intros [|y b]; cbn [list_eq_dec_b]; split; try discriminate; auto.
  - rewrite andb_true_iff, N.eqb_eq, IH. intros [-> ->]; auto.
  - intros [= -> ->]. rewrite andb_true_iff, N.eqb_eq, IH. auto.
Qed.
Lemma list_eq_dec_b_false a b : list_eq_dec_b a b = false <-> a <> b.
Proof.
  split.
  - intros F E. apply list_eq_dec_b_true in E. congruence.
  - intros NE. destruct (list_eq_dec_b a b) eqn:E; auto. apply list_eq_dec_b_true in E. congruence.
Qed.
