From V Require Import Hist.Ring.
From Coq Require Import ZifyN ZifyNat ZifyBool.

(* ---- arithmetic helper: x mod s for x < 2s ---- *)
Lemma mod_lt2 x s : 0 < s -> x < 2 * s ->
  (x < s /\ x mod s = x) \/ (s <= x /\ x mod s = x - s).
Proof.
  intros Hs Hx. destruct (N.lt_ge_cases x s) as [H|H].
  - left. split; auto. apply N.mod_small; auto.
  - right. split; auto. symmetry. apply N.mod_unique with (q := 1).
    + lia.
    + lia.
Qed.

Ltac mod2 x s :=
  let H := fresh "Hm" in let E := fresh "Em" in
  destruct (mod_lt2 x s ltac:(lia) ltac:(lia)) as [[H E]|[H E]];
  rewrite ?E in *; clear E.

(* ---- set_nth ---- *)
Lemma set_nth_nil {A} n (x : A) : set_nth n x [] = [].
Proof. destruct n; reflexivity. Qed.

Lemma set_nth_S {A} n (x a : A) l : set_nth (S n) x (a :: l) = a :: set_nth n x l.
Proof.
  unfold set_nth.
  change (Nat.ltb (S n) (length (a :: l))) with (Nat.ltb n (length l)).
  destruct (Nat.ltb n (length l)); reflexivity.
Qed.

Lemma set_nth_length {A} n (x : A) l : length (set_nth n x l) = length l.
Proof.
  revert n; induction l as [|a l IH]; intros [|n]; try reflexivity.
  rewrite set_nth_S; simpl; auto.
Qed.

Lemma nth_set_nth_eq {A} n (x d : A) l : (n < length l)%nat -> nth n (set_nth n x l) d = x.
Proof.
  revert n; induction l as [|a l IH]; intros [|n] H; simpl in H; try lia; try reflexivity.
  rewrite set_nth_S. simpl. apply IH. lia.
Qed.

Lemma nth_set_nth_neq {A} n m (x d : A) l : n <> m -> nth m (set_nth n x l) d = nth m l d.
Proof.
  revert n m; induction l as [|a l IH]; intros n m H.
  - rewrite set_nth_nil; reflexivity.
  - destruct n as [|n], m as [|m]; try congruence.
    + reflexivity.
    + rewrite set_nth_S; reflexivity.
    + rewrite set_nth_S; simpl; apply IH; congruence.
Qed.

(* ---- list helpers ---- *)
Lemma map_seq_ext {A} (f g : nat -> A) k : forall a b,
  (forall i, (i < k)%nat -> f (a + i)%nat = g (b + i)%nat) ->
  map f (seq a k) = map g (seq b k).
Proof.
  induction k as [|k IH]; intros a b H; [reflexivity|].
  cbn [seq map]. f_equal.
  - specialize (H 0%nat ltac:(lia)). rewrite !Nat.add_0_r in H. exact H.
  - apply IH. intros i Hi. specialize (H (S i) ltac:(lia)).
    rewrite !Nat.add_succ_r in H. exact H.
Qed.

Lemma map_nth_seq' {A} (l : list A) d : map (fun i => nth i l d) (seq 0 (length l)) = l.
Proof.
  induction l as [|a l IH]; [reflexivity|].
  cbn [length seq map nth]. f_equal.
  rewrite <- seq_shift, map_map. exact IH.
Qed.

Lemma firstn_seq' n : forall a k, firstn n (seq a k) = seq a (Nat.min n k).
Proof.
  induction n as [|n IH]; intros a [|k]; try reflexivity.
  cbn [seq firstn Nat.min]. f_equal. apply IH.
Qed.

Lemma skipn_seq' n : forall a k, skipn n (seq a k) = seq (a + n) (k - n).
Proof.
  induction n as [|n IH]; intros a [|k]; try reflexivity.
  - cbn [skipn Nat.sub]. rewrite Nat.add_0_r. reflexivity.
  - cbn [seq skipn Nat.sub]. rewrite IH. f_equal. lia.
Qed.

(* ---- count, as pure arithmetic ---- *)
Definition cnt (s r w : N) (f : bool) : N :=
  s - (if f then 0 else if r <=? w then s - (w - r) else r - w).

Lemma pb_count_cnt b : pb_count b = cnt (pb_size b) (b_rpos b) (b_wpos b) (b_full b).
Proof. reflexivity. Qed.

Lemma cnt_le s r w f : cnt s r w f <= s.
Proof. unfold cnt. lia. Qed.

Lemma cnt_full_iff s r w f : 0 < s -> r < s -> w < s -> (f = true <-> cnt s r w f = s).
Proof.
  intros Hs Hr Hw. unfold cnt. destruct f.
  - split; intros; [lia|reflexivity].
  - split; [discriminate|]. destruct (N.leb_spec r w); lia.
Qed.

Lemma put_arith s r w : 0 < s -> r < s -> w < s -> cnt s r w false < s ->
  (w + 1) mod s < s /\
  (r =? (w + 1) mod s = true -> r = (w + 1) mod s) /\
  cnt s r ((w + 1) mod s) (r =? (w + 1) mod s) = cnt s r w false + 1 /\
  (r + 1 + cnt s r w false) mod s = (w + 1) mod s /\
  (forall i, i < cnt s r w false -> (r + 1 + i) mod s <> (w + 1) mod s).
Proof.
  intros Hs Hr Hw Hc. unfold cnt in *.
  mod2 (w + 1) s.
  - destruct (N.leb_spec r w); destruct (N.eqb_spec r (w + 1)); destruct (N.leb_spec r (w + 1));
      (split; [lia|]); (split; [intros; lia|]); (split; [lia|]).
    all: split; [ match goal with |- ?x mod _ = _ => mod2 x s; lia end
                | intros i Hi; mod2 (r + 1 + i) s; lia ].
  - destruct (N.leb_spec r w); destruct (N.eqb_spec r (w + 1 - s)); destruct (N.leb_spec r (w + 1 - s));
      (split; [lia|]); (split; [intros; lia|]); (split; [lia|]).
    all: split; [ match goal with |- ?x mod _ = _ => mod2 x s; lia end
                | intros i Hi; mod2 (r + 1 + i) s; lia ].
Qed.

Lemma recede_arith s r w f n : 0 < s -> r < s -> w < s -> (f = true -> r = w) ->
  0 < n -> n <= cnt s r w f ->
  (w + s - n) mod s < s /\
  cnt s r ((w + s - n) mod s) false = cnt s r w f - n.
Proof.
  intros Hs Hr Hw Hf Hn Hc. unfold cnt in *.
  destruct f.
  - specialize (Hf eq_refl). subst w.
    mod2 (r + s - n) s.
    + destruct (N.leb_spec r (r + s - n)); lia.
    + destruct (N.leb_spec r (r + s - n - s)); lia.
  - clear Hf. destruct (N.leb_spec r w).
    + mod2 (w + s - n) s.
      * destruct (N.leb_spec r (w + s - n)); lia.
      * destruct (N.leb_spec r (w + s - n - s)); lia.
    + mod2 (w + s - n) s.
      * destruct (N.leb_spec r (w + s - n)); lia.
      * destruct (N.leb_spec r (w + s - n - s)); lia.
Qed.

Lemma advance_arith s r w f n : 0 < s -> r < s -> w < s -> (f = true -> r = w) ->
  0 < n -> n <= cnt s r w f ->
  (r + n) mod s < s /\
  cnt s ((r + n) mod s) w false = cnt s r w f - n /\
  (forall i, i < cnt s r w f - n -> ((r + n) mod s + 1 + i) mod s = (r + 1 + (n + i)) mod s).
Proof.
  intros Hs Hr Hw Hf Hn Hc.
  assert (Hle := cnt_le s r w f).
  split; [apply N.mod_lt; lia|].
  split.
  - unfold cnt in *. destruct f.
    + specialize (Hf eq_refl). subst w.
      mod2 (r + n) s.
      * destruct (N.leb_spec (r + n) r); lia.
      * destruct (N.leb_spec (r + n - s) r); lia.
    + clear Hf. destruct (N.leb_spec r w).
      * mod2 (r + n) s.
        -- destruct (N.leb_spec (r + n) w); lia.
        -- destruct (N.leb_spec (r + n - s) w); lia.
      * mod2 (r + n) s.
        -- destruct (N.leb_spec (r + n) w); lia.
        -- destruct (N.leb_spec (r + n - s) w); lia.
  - intros i Hi.
    rewrite <- N.add_assoc, N.add_mod_idemp_l by lia.
    f_equal. lia.
Qed.

Lemma pb_size_mk l r w f :
  pb_size {| b_buf := l; b_rpos := r; b_wpos := w; b_full := f |} = N.of_nat (length l).
Proof. reflexivity. Qed.

(* ---- the requested lemmas ---- *)
Lemma pb_full_iff b : pb_ok b -> (b_full b = true <-> pb_count b = pb_size b).
Proof.
  intros (Hs & Hr & Hw & Hf). rewrite pb_count_cnt. apply cnt_full_iff; auto.
Qed.

Lemma pb_count_le b : pb_ok b -> pb_count b <= pb_size b.
Proof. intros _. rewrite pb_count_cnt. apply cnt_le. Qed.

Lemma pb_list_length b : N.of_nat (length (pb_list b)) = pb_count b.
Proof. unfold pb_list. rewrite map_length, seq_length. apply N2Nat.id. Qed.

Lemma pb_new_size n : pb_size (pb_new n) = n.
Proof. unfold pb_size, pb_new. cbn [b_buf]. rewrite repeat_length. apply N2Nat.id. Qed.

Lemma pb_new_spec n : 0 < n -> pb_ok (pb_new n) /\ pb_list (pb_new n) = [] /\ pb_size (pb_new n) = n.
Proof.
  intros Hn. split; [|split].
  - unfold pb_ok. rewrite pb_new_size. unfold pb_new. cbn [b_rpos b_wpos b_full].
    repeat split; try lia; try discriminate.
  - assert (Hc : pb_count (pb_new n) = 0).
    { rewrite pb_count_cnt, pb_new_size. unfold pb_new, cnt. cbn [b_rpos b_wpos b_full].
      destruct (N.leb_spec 0 0); lia. }
    unfold pb_list. rewrite Hc. reflexivity.
  - apply pb_new_size.
Qed.

Lemma pb_put_ok b e : pb_ok b -> pb_count b < pb_size b ->
  exists b', pb_put b e = Ok b' /\ pb_ok b' /\ pb_list b' = pb_list b ++ [e] /\ pb_size b' = pb_size b.
Proof.
  intros Hok Hlt.
  assert (Hnf : b_full b = false).
  { destruct (b_full b) eqn:E; auto. apply (pb_full_iff b Hok) in E. lia. }
  destruct Hok as (Hs & Hr & Hw & Hf).
  rewrite pb_count_cnt, Hnf in Hlt.
  destruct (put_arith _ _ _ Hs Hr Hw Hlt) as (A1 & A2 & A3 & A4 & A5).
  unfold pb_put. rewrite Hnf.
  eexists; split; [reflexivity|].
  assert (Hsz : pb_size {| b_buf := set_nth (N.to_nat ((b_wpos b + 1) mod pb_size b)) e (b_buf b);
                           b_rpos := b_rpos b; b_wpos := (b_wpos b + 1) mod pb_size b;
                           b_full := b_rpos b =? (b_wpos b + 1) mod pb_size b |} = pb_size b).
  { unfold pb_size at 1. cbn [b_buf]. rewrite set_nth_length. reflexivity. }
  split; [|split]; [| |exact Hsz].
  - unfold pb_ok. rewrite Hsz. cbn [b_rpos b_wpos b_full]. auto.
  - unfold pb_list. rewrite !pb_count_cnt, Hsz. cbn [b_buf b_rpos b_wpos b_full].
    rewrite A3, Hnf.
    set (c := cnt (pb_size b) (b_rpos b) (b_wpos b) false) in *.
    replace (N.to_nat (c + 1)) with (N.to_nat c + 1)%nat by lia.
    rewrite seq_app, map_app. f_equal.
    + apply map_ext_in. intros i Hi. apply in_seq in Hi.
      apply nth_set_nth_neq. intros Heq.
      apply (A5 (N.of_nat i)); [lia|].
      apply N2Nat.inj. symmetry. exact Heq.
    + cbn [seq map Nat.add].
      replace (N.of_nat (N.to_nat c)) with c by lia.
      rewrite A4. f_equal. apply nth_set_nth_eq.
      revert A1. generalize ((b_wpos b + 1) mod pb_size b). intros x A1.
      unfold pb_size in A1. lia.
Qed.

Lemma pb_put_full b e : pb_ok b -> pb_count b = pb_size b -> pb_put b e = Err EBufFull.
Proof.
  intros Hok Hc. apply (pb_full_iff b Hok) in Hc. unfold pb_put. rewrite Hc. reflexivity.
Qed.

Lemma pb_read_ahead_spec b n : pb_ok b ->
  pb_read_ahead b n = match nth_error (pb_list b) (N.to_nat n) with Some e => Ok e | None => Err ENotEnoughData end.
Proof.
  intros _. unfold pb_read_ahead, pb_list.
  destruct (N.leb_spec (pb_count b) n) as [H|H].
  - rewrite (proj2 (nth_error_None _ _)); [reflexivity|].
    rewrite map_length, seq_length. lia.
  - erewrite map_nth_error with (d := N.to_nat n).
    + rewrite N2Nat.id. replace (b_rpos b + n + 1) with (b_rpos b + 1 + n) by lia. reflexivity.
    + rewrite nth_error_nth' with (d := 0%nat) by (rewrite seq_length; lia).
      rewrite seq_nth by lia. reflexivity.
Qed.

Lemma pb_recede_ok b n : pb_ok b -> 0 < n -> n <= pb_count b ->
  exists b', pb_recede b n = Ok b' /\ pb_ok b' /\
             pb_list b' = firstn (N.to_nat (pb_count b - n)) (pb_list b) /\ pb_size b' = pb_size b.
Proof.
  intros (Hs & Hr & Hw & Hf) Hn Hc.
  unfold pb_recede.
  destruct (N.eqb_spec n 0); [lia|].
  destruct (N.ltb_spec (pb_count b) n); [lia|].
  eexists; split; [reflexivity|].
  rewrite pb_count_cnt in *.
  destruct (recede_arith _ _ _ _ _ Hs Hr Hw Hf Hn Hc) as (A1 & A2).
  split; [|split]; [| |reflexivity].
  - unfold pb_ok, pb_size. cbn [b_buf b_rpos b_wpos b_full]. fold (pb_size b).
    repeat split; auto; try discriminate.
  - unfold pb_list. rewrite !pb_count_cnt. rewrite !pb_size_mk.
    cbn [b_buf b_rpos b_wpos b_full]. fold (pb_size b).
    rewrite A2. rewrite firstn_map, firstn_seq'. f_equal. f_equal. lia.
Qed.

Lemma pb_recede_err b n : pb_ok b -> (n = 0 \/ pb_count b < n) -> exists e, pb_recede b n = Err e.
Proof.
  intros _ H. unfold pb_recede.
  destruct (N.eqb_spec n 0); [eexists; reflexivity|].
  destruct (N.ltb_spec (pb_count b) n); [eexists; reflexivity|]. lia.
Qed.

Lemma pb_advance_ok b n : pb_ok b -> 0 < n -> n <= pb_count b ->
  exists b', pb_advance b n = Ok b' /\ pb_ok b' /\
             pb_list b' = skipn (N.to_nat n) (pb_list b) /\ pb_size b' = pb_size b.
Proof.
  intros (Hs & Hr & Hw & Hf) Hn Hc.
  unfold pb_advance.
  destruct (N.eqb_spec n 0); [lia|].
  destruct (N.ltb_spec (pb_count b) n); [lia|].
  eexists; split; [reflexivity|].
  rewrite pb_count_cnt in *.
  destruct (advance_arith _ _ _ _ _ Hs Hr Hw Hf Hn Hc) as (A1 & A2 & A3).
  split; [|split]; [| |reflexivity].
  - unfold pb_ok, pb_size. cbn [b_buf b_rpos b_wpos b_full]. fold (pb_size b).
    repeat split; auto; try discriminate.
  - unfold pb_list. rewrite !pb_count_cnt. rewrite !pb_size_mk.
    cbn [b_buf b_rpos b_wpos b_full]. fold (pb_size b).
    rewrite A2. rewrite skipn_map, skipn_seq'.
    set (c := cnt (pb_size b) (b_rpos b) (b_wpos b) (b_full b)) in *.
    replace (N.to_nat c - N.to_nat n)%nat with (N.to_nat (c - n)) by lia.
    apply map_seq_ext. intros i Hi.
    rewrite A3 by lia. f_equal. f_equal. f_equal. lia.
Qed.

Lemma pb_advance_err b n : pb_ok b -> (n = 0 \/ pb_count b < n) -> exists e, pb_advance b n = Err e.
Proof.
  intros _ H. unfold pb_advance.
  destruct (N.eqb_spec n 0); [eexists; reflexivity|].
  destruct (N.ltb_spec (pb_count b) n); [eexists; reflexivity|]. lia.
Qed.

Lemma pb_grow_spec b m : pb_ok b -> pb_size b < m ->
  pb_ok (pb_grow b m) /\ pb_list (pb_grow b m) = pb_list b /\ pb_size (pb_grow b m) = m.
Proof.
  intros Hok Hm.
  assert (Hle := pb_count_le b Hok).
  destruct Hok as (Hs & Hr & Hw & Hf).
  unfold pb_grow. destruct (N.leb_spec m (pb_size b)); [lia|].
  fold (pb_list b).
  set (c := pb_count b) in *.
  assert (Hlen : length (pb_list b) = N.to_nat c).
  { unfold pb_list. rewrite map_length, seq_length. reflexivity. }
  assert (Hsz : pb_size {| b_buf := pe_zero :: pb_list b ++ repeat pe_zero (N.to_nat (m - c - 1));
                           b_rpos := 0; b_wpos := c; b_full := c =? m |} = m).
  { unfold pb_size. cbn [b_buf length]. rewrite app_length, repeat_length, Hlen. lia. }
  split; [|split]; [| |exact Hsz].
  - unfold pb_ok. rewrite Hsz. cbn [b_rpos b_wpos b_full].
    repeat split; try lia.
    all: destruct (N.eqb_spec c m); [lia|discriminate].
  - assert (Hc : pb_count {| b_buf := pe_zero :: pb_list b ++ repeat pe_zero (N.to_nat (m - c - 1));
                             b_rpos := 0; b_wpos := c; b_full := c =? m |} = c).
    { rewrite pb_count_cnt, Hsz. cbn [b_rpos b_wpos b_full]. unfold cnt.
      destruct (N.eqb_spec c m); [lia|]. destruct (N.leb_spec 0 c); lia. }
    unfold pb_list at 1. rewrite Hc, Hsz. cbn [b_buf b_rpos].
    transitivity (map (fun i => nth i (pb_list b) pe_zero) (seq 0 (length (pb_list b)))).
    + rewrite Hlen. apply map_ext_in. intros i Hi. apply in_seq in Hi.
      rewrite N.mod_small by lia.
      replace (N.to_nat (0 + 1 + N.of_nat i)) with (S i) by lia.
      cbn [nth]. apply app_nth1. lia.
    + apply map_nth_seq'.
Qed.
