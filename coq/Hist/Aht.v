(* Two further invariants, each preserved by all steps but one:
   - the binary-linking tree agrees with the live chain, hence every BlRoot is the Merkle root over the
     earlier Alh values: preserved by everything except Close/OpenWith (see Refuted.v);
   - every waiting commit call waits for the transaction that holds its id: preserved by everything
     except DiscardPrecommittedTxsSince (see Refuted.v). *)
From V Require Import Hist.Machine Hist.RingProofs Hist.Lemmas Hist.Chain Hist.Inv Hist.InvSteps Hist.Hist.
From Coq Require Import ZifyN ZifyNat ZifyBool.

Section Aht.
Variable H : bytes -> bytes.
Notation Inv := (Inv H).

(* what mayCommit leaves unchanged *)
Lemma may_commit_fx s : Inv s ->
  let s' := fst (may_commit s) in
  live s' = live s /\ s_txlog s' = s_txlog s /\ s_aht s' = s_aht s /\ s_inmem s' = s_inmem s /\
  s_wait s' = s_wait s.
Proof.
  intros HI. pose proof HI as [? Hbok Hclen HchB ? Hids Hinm ? ? ?].
  assert (HC : lenN (clogC s) = s_committed s) by (apply clogC_len; auto).
  assert (Hpre : forall X, firstn (N.to_nat (s_committed s)) (clogC s ++ X) = clogC s).
  { intros X. apply firstn_app_exact. unfold lenN in HC. lia. }
  assert (Hsame : forall X, live (upd_clog s (clogC s ++ X)) = live s).
  { intros X. unfold live, clogC at 1. sp. rewrite Hpre. reflexivity. }
  cbn zeta. unfold may_commit.
  destruct (N.eqb_spec (commit_allowed_upto s) (s_committed s)) as [E|NE]; [repeat split|].
  destruct (N.ltb_spec (lenN (s_clog s)) (s_committed s)) as [L1|L1]; [repeat split|].
  fold (clogC s).
  destruct (N.ltb_spec (commit_allowed_upto s) (s_committed s)) as [L2|L2].
  - cbn [fst]. split; [|repeat split]. rewrite <- (app_nil_r (clogC s)). apply Hsame.
  - set (count := commit_allowed_upto s - s_committed s).
    destruct (commit_loop_spec H (s_buf s) Hbok (N.to_nat count) 0 count (clogC s) (0, zeros32)
                ltac:(lia) ltac:(lia)) as (m & E1 & Lm & E2).
    destruct (commit_loop (N.to_nat count) (s_buf s) 0 count (clogC s) (0, zeros32)) as [clog1 r] eqn:EL.
    cbn [fst snd] in E1, E2. cbn [skipn N.to_nat] in E1. subst clog1.
    assert (Hfail : live (upd_clog s (clogC s)) = live s).
    { rewrite <- (app_nil_r (clogC s)) at 1. apply Hsame. }
    destruct r as [[lid lalh]|e|]; [|cbn [fst]; split; [exact Hfail|repeat split]|cbn [fst]; split; [exact Hfail|repeat split]].
    destruct E2 as (Em & E3 & _).
    destruct (E3 ltac:(lia)) as (Lc & pe & Hn & -> & ->).
    destruct (N.eqb_spec (pe_id pe) (commit_allowed_upto s)) as [Ef|Nf]; cbn [negb];
      [|cbn [fst]; split; [exact Hfail|repeat split]].
    assert (Hcnt : pb_count (s_buf s) = lenN (pb_list (s_buf s))) by (symmetry; apply pb_list_length).
    destruct (pb_advance_ok (s_buf s) count Hbok ltac:(lia) ltac:(lia)) as (b' & Eb & Hok' & Hl' & Hs').
    rewrite Eb. cbn [fst]. split; [|repeat split].
    assert (Hm : m = N.to_nat count) by lia. clear Em Lm. subst m.
    unfold live, clogC at 1. sp. rewrite Hl'.
    assert (Hlen1 : lenN (clogC s ++ map cent (firstn (N.to_nat count) (pb_list (s_buf s)))) = pe_id pe).
    { rewrite lenN_app, lenN_map, lenN_firstn. lia. }
    rewrite firstn_all2 by (unfold lenN in Hlen1; lia).
    rewrite <- app_assoc, <- map_app, firstn_skipn. reflexivity.
Qed.

(* ---- hash-linked lists of Alh values ---- *)
Hypothesis H_len : forall x, length (H x) = 32%nat.

(* the Alh before position j of a list of Alh values (hash of the empty string before the first) *)
Definition prev_of (c : list bytes) (j : nat) : bytes :=
  match j with O => H [] | S j' => nth j' c [] end.

(* every element is the hash of (its position ‖ its predecessor ‖ something) *)
Definition linked (c : list bytes) : Prop :=
  forall j a, nth_error c j = Some a ->
  exists ih, a = H (be_enc w_txid (N.of_nat j + 1) ++ prev_of c j ++ ih).

Lemma prev_of_len c j : linked c -> (j <= length c)%nat -> length (prev_of c j) = 32%nat.
Proof.
  intros Hl L. destruct j as [|j]; cbn [prev_of]; [apply H_len|].
  destruct (nth_error c j) as [a|] eqn:Hn; [|apply nth_error_None in Hn; lia].
  rewrite (nth_error_nth _ _ _ Hn). destruct (Hl _ _ Hn) as (ih & ->). apply H_len.
Qed.

Lemma prev_of_firstn c n j : (j <= n)%nat -> prev_of (firstn n c) j = prev_of c j.
Proof.
  intros L. destruct j as [|j]; cbn [prev_of]; [reflexivity|].
  destruct (nth_error c j) as [a|] eqn:Hn.
  - rewrite (nth_error_nth _ _ _ Hn). apply nth_error_nth. rewrite nth_error_firstn' by lia. exact Hn.
  - rewrite (nth_overflow c) by (apply nth_error_None; exact Hn).
    apply nth_overflow. rewrite firstn_length. apply nth_error_None in Hn. lia.
Qed.

Lemma linked_firstn c n : linked c -> linked (firstn n c).
Proof.
  intros Hl j a Hn.
  assert (Hj : (j < n)%nat).
  { assert (j < length (firstn n c))%nat by (apply nth_error_Some; congruence). rewrite firstn_length in H0. lia. }
  rewrite nth_error_firstn' in Hn by exact Hj. destruct (Hl _ _ Hn) as (ih & E).
  exists ih. rewrite prev_of_firstn by lia. exact E.
Qed.

Lemma be_enc_app_inv k v a b a' b' :
  be_enc k v ++ a ++ b = be_enc k v ++ a' ++ b' -> length a = length a' -> a = a'.
Proof.
  intros E L. apply app_inv_head in E. apply (app_inj_len a a' b b' L) in E. tauto.
Qed.

(* two hash-linked lists of the same length that end in the same value are equal, or a collision *)
Lemma linked_unique : forall n c c',
  length c = n -> length c' = n -> linked c -> linked c' -> prev_of c n = prev_of c' n ->
  c = c' \/ Collision H.
Proof.
  induction n as [|n IH]; intros c c' L L' Hl Hl' E.
  - destruct c, c'; try discriminate. left; reflexivity.
  - cbn [prev_of] in E.
    destruct (nth_error c n) as [a|] eqn:Hn; [|apply nth_error_None in Hn; lia].
    destruct (nth_error c' n) as [a'|] eqn:Hn'; [|apply nth_error_None in Hn'; lia].
    rewrite (nth_error_nth _ _ _ Hn), (nth_error_nth _ _ _ Hn') in E. subst a'.
    destruct (Hl _ _ Hn) as (ih & Ea). destruct (Hl' _ _ Hn') as (ih' & Ea').
    set (x := be_enc w_txid (N.of_nat n + 1) ++ prev_of c n ++ ih) in *.
    set (x' := be_enc w_txid (N.of_nat n + 1) ++ prev_of c' n ++ ih') in *.
    destruct (bytes_eq_dec x x') as [Ex|Nx].
    + assert (Ep : prev_of c n = prev_of c' n).
      { eapply be_enc_app_inv; [exact Ex|]. rewrite !prev_of_len by (auto; lia). reflexivity. }
      destruct (IH (firstn n c) (firstn n c')) as [Ef|C]; auto.
      * rewrite firstn_length. lia.
      * rewrite firstn_length. lia.
      * apply linked_firstn; auto.
      * apply linked_firstn; auto.
      * rewrite !prev_of_firstn by lia. exact Ep.
      * left. rewrite <- (firstn_skipn n c), <- (firstn_skipn n c'). rewrite Ef. f_equal.
        rewrite (skipn_nth_cons _ _ _ Hn), (skipn_nth_cons _ _ _ Hn').
        rewrite !skipn_all2 by lia. reflexivity.
    + right. exists x, x'. split; [exact Nx|]. congruence.
Qed.

(* ---- the AHT agrees with the live chain; every written record embeds the root of its ancestry ---- *)
Definition Wp (w : wr) : Prop :=
  let h := r_hdr (w_rec w) in
  0 < h_bltxid h -> forall c, linked c -> N.of_nat (length c) + 1 = h_id h ->
  prev_of c (length c) = h_prevalh h ->
  h_blroot h = mth H (firstn (N.to_nat (h_bltxid h)) c) \/ Collision H.

Record Inv2 (s : state) : Prop := {
  j_aht : firstn (N.to_nat (s_inmem s)) (s_aht s) = map ce_alh (live s);
  j_w : Forall Wp (s_txlog s)
}.

Lemma live_len s : Inv s -> lenN (live s) = s_inmem s.
Proof using H.
  intros []. unfold live. rewrite lenN_app, lenN_map, clogC_len by auto. lia.
Qed.

(* the record located by a live entry: position, id and BlTxID *)
Lemma live_nth s k e : Inv s -> nth_error (live s) k = Some e ->
  exists w, tl_read (s_txlog s) (ce_off e) = Some w /\ h_id (r_hdr (w_rec w)) = N.of_nat k + 1 /\
            h_bltxid (r_hdr (w_rec w)) < N.of_nat k + 1 /\ w_end w <= s_ptls s /\ r_alh (w_rec w) = ce_alh e /\
            h_prevalh (r_hdr (w_rec w)) = last_alh (H []) (firstn k (live s)) /\ wr_wf H w.
Proof using H.
  intros [] Hn.
  destruct (chain_nth H _ _ _ _ _ _ _ _ i_chainB Hn) as (w & (R & _ & Hid & Hp & Ha) & E).
  exists w. split; [exact R|]. replace (0 + N.of_nat k + 1) with (N.of_nat k + 1) in Hid by lia.
  split; [exact Hid|].
  apply tl_read_some in R. destruct R as [_ Hin]. eapply Forall_forall in i_wf; eauto.
  pose proof i_wf as [_ Hb].
  split; [lia|]. split; [exact E|]. split; [exact Ha|]. split; [exact Hp|exact i_wf].
Qed.

Lemma last_alh_prev_of p es j : p = H [] -> (j <= length es)%nat ->
  last_alh p (firstn j es) = prev_of (map ce_alh es) j.
Proof.
  intros -> L. destruct j as [|j]; [reflexivity|]. cbn [prev_of].
  destruct (nth_error es j) as [e|] eqn:Hn; [|apply nth_error_None in Hn; lia].
  rewrite (last_alh_firstn_succ _ _ _ _ Hn). symmetry. apply nth_error_nth.
  rewrite nth_error_map, Hn. reflexivity.
Qed.

Lemma live_linked s : Inv s -> linked (map ce_alh (live s)).
Proof.
  intros HI j a Hn. rewrite nth_error_map in Hn.
  destruct (nth_error (live s) j) as [e|] eqn:He; [|discriminate]. injection Hn as <-.
  destruct (live_nth s j e HI He) as (w & _ & Hid & _ & _ & Ha & Hp & (Hw & _)).
  unfold alh_of in Hw. destruct (inner_hash H (r_hdr (w_rec w))) as [ih| |]; cbn [bind] in Hw; try discriminate.
  exists ih. injection Hw as Hw. rewrite <- Ha, <- Hw, Hid, Hp.
  rewrite last_alh_prev_of; [reflexivity|reflexivity|].
  assert (j < length (live s))%nat by (apply nth_error_Some; congruence). lia.
Qed.

Lemma init_inv2 c : 0 < c_maxactive c -> Inv2 (init H c).
Proof.
  intros Hm. destruct (pb_new_spec (c_maxactive c) Hm) as (_ & Hl & _).
  constructor; unfold live, clogC, init; sp; [rewrite Hl; reflexivity|constructor].
Qed.

Lemma firstn_app_le {A} n (a b : list A) : (n <= length a)%nat -> firstn n (a ++ b) = firstn n a.
Proof.
  intros L. rewrite firstn_app. replace (n - length a)%nat with 0%nat by lia. cbn [firstn]. apply app_nil_r.
Qed.

(* a record written by the critical section started in an invariant state has the property *)
Lemma fresh_write_Wp s w : Inv s -> Inv2 s -> fresh_write H s w -> Wp w.
Proof.
  intros HI [Ja _] (Hid & Hp & Hb & Hroot) Hpos c Hl Hlen Hlast.
  pose proof (live_len s HI) as Hll. pose proof HI as [].
  assert (Hahtlen : s_inmem s <= lenN (s_aht s)).
  { apply (f_equal (@length bytes)) in Ja. rewrite firstn_length, map_length in Ja. unfold lenN in *. lia. }
  rewrite (Hroot Hahtlen Hpos).
  set (L := map ce_alh (live s)).
  assert (HL : length L = length c) by (unfold L; rewrite map_length; unfold lenN in Hll; lia).
  destruct (linked_unique (length c) L c HL eq_refl (live_linked s HI) Hl) as [E|C]; [|left|right; exact C].
  - rewrite Hlast, Hp, i_ialh, <- HL. unfold L. rewrite map_length.
    rewrite <- (last_alh_prev_of (H []) (live s) (length (live s)) eq_refl (le_n _)).
    rewrite firstn_all. reflexivity.
  - rewrite <- E. unfold L. rewrite <- Ja, firstn_firstn.
    replace (Nat.min (N.to_nat (h_bltxid (r_hdr (w_rec w)))) (N.to_nat (s_inmem s)))
      with (N.to_nat (h_bltxid (r_hdr (w_rec w)))) by lia.
    reflexivity.
Qed.

Lemma locked_inv2 s c : Inv s -> Inv2 s -> Inv2 (fst (locked H s c)).
Proof.
  intros HI HJ.
  destruct (locked_cases H s c HI) as (s4 & HI4 & Kc & Kt & Hres & _ & Hfx & Hw).
  pose proof HJ as [Ja Jw].
  assert (HW4 : Forall Wp (s_txlog s4)).
  { apply Forall_forall. intros w Hin. destruct (Hw w Hin) as [Hold|Hnew].
    - eapply Forall_forall in Jw; eauto.
    - apply (fresh_write_Wp s w HI HJ Hnew). }
  assert (HJ4 : Inv2 s4).
  { constructor; [|exact HW4].
    destruct Hfx as [(El & Ei & Ea & _)|(pe & w & El & Ei & Hlen & Ea & Rw & Hwa & Hbl & Hroot & _)].
    - rewrite El, Ei, Ea. exact Ja.
    - pose proof (live_len s HI) as Hll.
      rewrite Ei, Ea, El, map_app. cbn [map cent ce_alh].
      rewrite firstn_all2.
      + rewrite Ja. reflexivity.
      + rewrite app_length, firstn_length. cbn [length]. unfold lenN in Hlen. lia. }
  destruct Hres as [-> | ->]; [exact HJ4|].
  destruct (may_commit_fx s4 HI4) as (El & Et & Ea & Ei & _).
  constructor; [rewrite El, Ei, Ea; apply HJ4|rewrite Et; apply HJ4].
Qed.

(* ---- the other steps ---- *)
Lemma begin_vals_more s vals s0 (l : list N) :
  (if c_embedded (s_cfg s) then (s, map (fun _ : bytes => 0) vals)
   else let '(vl, sz, offs) := vlog_append (s_vlog s) (s_vsize s) vals in
        (upd_vlog s vl sz, map (fun o => enc_voff o) offs)) = (s0, l) ->
  s_aht s0 = s_aht s /\ s_wait s0 = s_wait s.
Proof using H.
  destruct (c_embedded (s_cfg s)).
  - intros [= <- _]. auto.
  - destruct (vlog_append (s_vlog s) (s_vsize s) vals) as [[vl sz] offs]. intros [= <- _]. auto.
Qed.

Lemma begin_more s c p exp sk :
  s_aht (fst (begin H s c p exp sk)) = s_aht s /\ s_wait (fst (begin H s c p exp sk)) = s_wait s.
Proof using H.
  unfold begin.
  repeat match goal with
  | |- context [fst (if ?b then _ else _)] => destruct b
  | |- context [fst (match ?x with _ => _ end)] => destruct x eqn:?
  | |- context [fst (let '(_, _) := ?x in _)] => destruct x eqn:?
  end; cbn [fst]; auto;
  match goal with
  | E : (if c_embedded _ then _ else _) = (_, _) |- _ => apply begin_vals_more in E; sp; exact E
  end.
Qed.

Lemma same_core_live s s' : same_core s' s -> live s' = live s.
Proof using H. intros (_ & _ & E3 & E4 & _ & _ & _ & _ & E9). unfold live, clogC. rewrite E3, E4, E9. reflexivity. Qed.

Lemma Inv2_same s s' : Inv2 s -> same_core s' s -> s_aht s' = s_aht s -> Inv2 s'.
Proof.
  intros [Ja Jw] Hc Ea. pose proof (same_core_live _ _ Hc) as El.
  destruct Hc as (_ & E2 & _ & _ & _ & E6 & _).
  constructor; [rewrite El, E6, Ea; exact Ja|rewrite E2; exact Jw].
Qed.

Lemma may_commit_inv2 s : Inv s -> Inv2 s -> Inv2 (fst (may_commit s)).
Proof.
  intros HI [Ja Jw]. destruct (may_commit_fx s HI) as (El & Et & Ea & Ei & _).
  constructor; [rewrite El, Ei, Ea; exact Ja|rewrite Et; exact Jw].
Qed.

Lemma discard_inv2 s n : Inv s -> Inv2 s -> Inv2 (fst (discard s n)).
Proof.
  intros HI HJ. pose proof HJ as [Ja Jw].
  destruct (discard_full H s n HI) as (_ & (B & Hd & _) & _ & _ & _ & _ & Hfx).
  assert (Jw' : Forall Wp (s_txlog (fst (discard s n)))).
  { apply Forall_forall. intros w Hin. eapply drops_in in Hin; [|exact Hd]. eapply Forall_forall in Jw; eauto. }
  destruct Hfx as [(El & Ei & Ea)|(m & L1 & L2 & Em & El & Ei & Ea)].
  - constructor; [rewrite El, Ei, Ea; exact Ja|exact Jw'].
  - pose proof (live_len s HI) as Hll.
    assert (Hahtlen : s_inmem s <= lenN (s_aht s)).
    { apply (f_equal (@length bytes)) in Ja. rewrite firstn_length, map_length in Ja. unfold lenN in *. lia. }
    constructor; [|exact Jw'].
    rewrite Ei, Ea, El. rewrite firstn_firstn.
    destruct (N.ltb_spec (lenN (s_aht s)) (s_inmem s + 1 - n)); [lia|].
    replace (Nat.min (N.to_nat (n - 1)) (N.to_nat (lenN (s_aht s) - (s_inmem s + 1 - n)))) with m by lia.
    rewrite <- firstn_map, <- Ja, firstn_firstn. replace (Nat.min m (N.to_nat (s_inmem s))) with m by lia.
    reflexivity.
Qed.

(* the Alh values of the committed transactions 1..n as a reader gets them *)
Definition alhs (s : state) (n : N) : list bytes :=
  map (fun k => match read_tx s k with Ok r => r_alh r | _ => [] end) (ids_upto n).

Lemma firstn_succ_nth {A} (l : list A) j x : nth_error l j = Some x -> firstn (S j) l = firstn j l ++ [x].
Proof using H.
  revert j; induction l as [|a l IH]; intros [|j] Hn; try discriminate.
  - injection Hn as ->. reflexivity.
  - cbn [nth_error] in Hn. rewrite !firstn_cons. rewrite (IH _ Hn). reflexivity.
Qed.

Lemma live_committed_nth s j : Inv s -> (j < N.to_nat (s_committed s))%nat ->
  nth_error (live s) j = nth_error (clogC s) j.
Proof using H.
  intros HI L. unfold live. apply nth_error_app1.
  pose proof HI as []. pose proof (clogC_len s i_clen) as HC. unfold lenN in HC. lia.
Qed.

Lemma alhs_spec s : Inv s -> forall n : nat, N.of_nat n <= s_committed s ->
  alhs s (N.of_nat n) = firstn n (map ce_alh (live s)).
Proof using H.
  intros HI. induction n as [|n IH]; intros L.
  - reflexivity.
  - unfold alhs, ids_upto in *. rewrite Nnat.Nat2N.id in *.
    rewrite seq_S, !map_app. cbn [map plus]. rewrite IH by lia.
    destruct (read_tx_spec H s (N.of_nat n + 1) HI ltac:(lia) ltac:(lia))
      as (e & w & Hn & (_ & _ & _ & _ & Ha) & -> & _).
    replace (N.to_nat (N.of_nat n + 1 - 1)) with n in Hn by lia.
    rewrite <- live_committed_nth in Hn by (auto; lia).
    rewrite (firstn_succ_nth _ n (ce_alh e)); [rewrite Ha; reflexivity|].
    rewrite nth_error_map, Hn. reflexivity.
Qed.

(* ---- Close + OpenWith (fixed: the tree is reset to the committed transactions and rebuilt) ---- *)
Lemma read_tx_pre_spec s k : Inv s -> s_committed s < k -> k <= s_inmem s ->
  exists pe r, nth_error (pb_list (s_buf s)) (N.to_nat (k - s_committed s - 1)) = Some pe /\
               read_tx_pre s k = Ok r /\ alh_of H (r_hdr r) = Ok (pe_alh pe).
Proof.
  intros HI L1 L2. pose proof HI as [].
  assert (HC : lenN (clogC s) = s_committed s) by (apply clogC_len; auto).
  destruct (nth_error (pb_list (s_buf s)) (N.to_nat (k - s_committed s - 1))) as [pe|] eqn:Hn.
  2:{ apply nth_error_None in Hn. unfold lenN in *. lia. }
  assert (Hl : nth_error (live s) (N.to_nat (k - 1)) = Some (cent pe)).
  { unfold live. rewrite nth_error_app2 by (unfold lenN in HC; lia).
    replace (N.to_nat (k - 1) - length (clogC s))%nat with (N.to_nat (k - s_committed s - 1))
      by (unfold lenN in HC; lia).
    rewrite nth_error_map, Hn. reflexivity. }
  destruct (chain_nth H _ _ _ _ _ _ _ _ i_chainB Hl) as (w & (R & Es & Hid & _ & Ha) & _).
  exists pe, (w_rec w). split; [reflexivity|].
  assert (Hwf : wr_wf H w).
  { apply tl_read_some in R. destruct R as [_ Hin]. eapply Forall_forall in i_wf; eauto. }
  split.
  - unfold read_tx_pre.
    destruct (N.eqb_spec k 0); [lia|]. destruct (N.ltb_spec (s_inmem s) k); [lia|]. cbn [orb].
    destruct (N.leb_spec k (s_committed s)); [lia|].
    rewrite (pb_read_ahead_spec _ _ i_buf_ok), Hn. cbn [bind].
    unfold read_at. cbn [cent ce_off ce_size] in R, Es. rewrite R, Es, N.eqb_refl.
    unfold check_id. cbn [bind]. rewrite Hid. replace (0 + N.of_nat (N.to_nat (k - 1)) + 1) with k by lia.
    rewrite N.eqb_refl. reflexivity.
  - destruct Hwf as [Hw _]. rewrite Hw. cbn [cent ce_alh] in Ha. rewrite Ha. reflexivity.
Qed.

Lemma relink_spec s : Inv s -> forall fuel a k prev a',
  s_committed s < k -> relink H fuel s a k prev = Ok a' ->
  a' = a ++ map pe_alh (firstn fuel (skipn (N.to_nat (k - s_committed s - 1)) (pb_list (s_buf s)))).
Proof.
  intros HI. pose proof HI as [].
  induction fuel as [|f IH]; intros a k prev a' Lk; cbn [relink].
  - intros [= <-]. cbn [firstn map]. rewrite app_nil_r. reflexivity.
  - destruct (N.ltb_spec (s_inmem s) k) as [Lo|Lo].
    + intros [= <-]. rewrite skipn_all2 by (unfold lenN in *; lia).
      rewrite firstn_nil. cbn [map]. rewrite app_nil_r. reflexivity.
    + destruct (read_tx_pre_spec s k HI Lk Lo) as (pe & r & Hn & -> & Ea). cbn [bind].
      destruct (match prev with Some a0 => _ | None => false end); [discriminate|].
      rewrite Ea. cbn [bind]. intros E. apply IH in E; [|lia]. rewrite E.
      rewrite (skipn_nth_cons _ _ _ Hn). cbn [firstn map]. rewrite <- app_assoc. cbn [app].
      replace (N.to_nat (k + 1 - s_committed s - 1)) with (S (N.to_nat (k - s_committed s - 1))) by lia.
      reflexivity.
Qed.

(* a reopen at which the commit log holds nothing beyond the committed transactions (no commit loop
   that stopped midway has left entries behind: the situation of the known finding "reopen commits more") *)
Lemma reopen_inv2 s : Inv s -> Inv2 s -> lenN (s_clog s) = s_committed s -> Inv2 (fst (reopen H s)).
Proof.
  intros HI HJ Hclean. pose proof HJ as [Ja Jw]. unfold reopen.
  destruct (reopen_r0 H s) as [[calh ctls]|e|] eqn:E0; [|exact HJ|exact HJ].
  destruct (reload H _ _ _ _ _ _) as [[[[b pid] palh] ptls]|e|] eqn:ER; [|exact HJ|exact HJ].
  pose proof (reopen_state_inv H s _ _ _ _ _ _ HI E0 ER) as HI1.
  set (s1 := reopen_state s calh b pid palh ptls) in *.
  pose proof HI as [? ? Hclen ? ? ? Hinm ? ? ?].
  assert (Hahtlen : s_inmem s <= lenN (s_aht s)).
  { apply (f_equal (@length bytes)) in Ja. rewrite firstn_length, map_length in Ja.
    pose proof (live_len s HI). unfold lenN in *. lia. }
  (* the reset tree holds exactly the Alh of the committed transactions *)
  assert (HclogC : clogC s1 = s_clog s).
  { unfold clogC, s1, reopen_state. sp. apply firstn_all2. unfold lenN. lia. }
  assert (HCeq : clogC s = s_clog s).
  { unfold clogC. apply firstn_all2. unfold lenN in Hclean. lia. }
  match goal with |- context [lenN ?a1' =? pid] => set (a1 := a1') in * end.
  assert (Ha1 : a1 = map ce_alh (s_clog s)).
  { assert (Hc : firstn (N.to_nat (s_committed s)) (s_aht s) = map ce_alh (s_clog s)).
    { transitivity (firstn (N.to_nat (s_committed s)) (firstn (N.to_nat (s_inmem s)) (s_aht s))).
      - rewrite firstn_firstn. f_equal. lia.
      - rewrite Ja. unfold live. rewrite HCeq, map_app.
        rewrite firstn_app_le by (rewrite map_length; unfold lenN in Hclean; lia).
        rewrite firstn_all2 by (rewrite map_length; unfold lenN in Hclean; lia). reflexivity. }
    unfold a1, s1, reopen_state. sp. rewrite Hclean.
    destruct (N.ltb_spec (s_committed s) (lenN (s_aht s))) as [L|L]; [exact Hc|].
    rewrite <- Hc. symmetry. apply firstn_all2. unfold lenN in *. lia. }
  assert (Hlen1 : lenN a1 = s_committed s1).
  { rewrite Ha1, lenN_map. reflexivity. }
  assert (Hpid : s_inmem s1 = s_committed s1 + lenN (pb_list (s_buf s1))) by (pose proof HI1 as []; auto).
  assert (Hlive1 : live s1 = s_clog s ++ map cent (pb_list (s_buf s1))) by (unfold live; rewrite HclogC; reflexivity).
  assert (Hmapcent : forall l, map ce_alh (map cent l) = map pe_alh l).
  { intros l. rewrite map_map. reflexivity. }
  destruct (N.eqb_spec (lenN a1) pid) as [Ep|Np].
  - (* nothing precommitted was reloaded *)
    cbn [fst]. constructor; [|exact Jw].
    change (s_inmem (upd_aht s1 a1)) with (s_inmem s1). change (s_aht (upd_aht s1 a1)) with a1.
    change (live (upd_aht s1 a1)) with (live s1).
    change (s_inmem s1) with pid in *. rewrite Hlive1.
    assert (pb_list (s_buf s1) = []).
    { destruct (pb_list (s_buf s1)) as [|x l]; [reflexivity|]. rewrite lenN_cons in Hpid. lia. }
    rewrite H0. cbn [map]. rewrite app_nil_r, <- Ha1. apply firstn_all2. unfold lenN in Ep. lia.
  - destruct (relink H _ s1 a1 _ None) as [a|e|] eqn:ERl; [|exact HJ|exact HJ].
    cbn [fst]. constructor; [|exact Jw].
    change (s_inmem (upd_aht s1 a)) with (s_inmem s1). change (s_aht (upd_aht s1 a)) with a.
    change (live (upd_aht s1 a)) with (live s1).
    apply (relink_spec s1 HI1) in ERl; [|lia].
    rewrite ERl, Hlive1, map_app, Hmapcent, <- Ha1.
    replace (N.to_nat (lenN a1 + 1 - s_committed s1 - 1)) with 0%nat by lia. cbn [skipn].
    change (s_inmem s1) with pid in *.
    rewrite firstn_all2 with (l := pb_list (s_buf s1)) by (unfold lenN in *; lia).
    apply firstn_all2. rewrite app_length, map_length. unfold lenN in *. lia.
Qed.

Definition is_reopen (o : op) : bool := match o with OReopen => true | _ => false end.

Lemma step_inv2 s o : Inv s -> Inv2 s -> Inv2 (fst (step H s o)).
Proof.
  intros HI HJ. assert (Hclean : lenN (s_clog s) = s_committed s) by (pose proof HI as []; auto).
  destruct o; cbn [step].
  - destruct (begin_more s c p exp skipic) as [Ea _]. eapply Inv2_same; eauto. apply begin_core.
  - apply locked_inv2; auto.
  - unfold sync. destruct (s_inmem s =? s_committed s); [exact HJ|].
    assert (Hc : same_core (tl_flush s) s) by (repeat split).
    apply may_commit_inv2; [eapply Inv_same_core; eauto|]. eapply Inv2_same; eauto.
  - unfold allow. destruct (negb (s_ext s)); [exact HJ|]. destruct (n <=? s_allowed s); [exact HJ|].
    match goal with |- context [upd_allow s ?e ?a] => set (s1 := upd_allow s e a) end.
    assert (Hc : same_core s1 s) by (repeat split).
    assert (HJ1 : Inv2 s1) by (eapply Inv2_same; eauto).
    destruct (c_synced (s_cfg s)); cbn [fst]; [exact HJ1|].
    apply may_commit_inv2; [eapply Inv_same_core; eauto|exact HJ1].
  - apply discard_inv2; auto.
  - unfold set_ext. cbn [fst]. eapply Inv2_same; eauto. repeat split.
  - apply reopen_inv2; auto.
Qed.

Lemma run_inv2 ops : forall s, Inv s -> Inv2 s -> Inv2 (run H s ops).
Proof.
  induction ops as [|o ops IH]; intros s HI HJ; [exact HJ|].
  cbn [run fold_left]. apply IH.
  - apply step_inv; auto.
  - apply step_inv2; auto.
Qed.

Lemma blroot_lemma s k r : Inv s -> Inv2 s -> 1 <= k -> k <= s_committed s -> read_tx s k = Ok r ->
  0 < h_bltxid (r_hdr r) ->
  h_blroot (r_hdr r) = mth H (alhs s (h_bltxid (r_hdr r))) \/ Collision H.
Proof.
  intros HI [Ja Jw] K1 K2 R Hb.
  destruct (read_tx_spec H s k HI K1 K2) as (e & w & Hn & (Rw & _) & R' & _ & _).
  rewrite R in R'. injection R' as ->.
  rewrite <- live_committed_nth in Hn by (auto; lia).
  destruct (live_nth s _ e HI Hn) as (w0 & R0 & Hid & Hb0 & _ & _ & Hp & _).
  rewrite Rw in R0. injection R0 as <-.
  assert (Hin : In w (s_txlog s)) by (apply tl_read_some in Rw; tauto).
  eapply Forall_forall in Jw; eauto.
  set (c := map ce_alh (firstn (N.to_nat (k - 1)) (live s))).
  assert (Hkl : (N.to_nat (k - 1) < length (live s))%nat) by (apply nth_error_Some; congruence).
  assert (Hclen : length c = N.to_nat (k - 1)).
  { unfold c. rewrite map_length, firstn_length. lia. }
  destruct (Jw Hb c) as [E|C]; [| | | |right; exact C].
  - unfold c. rewrite <- firstn_map. apply linked_firstn. apply live_linked; auto.
  - rewrite Hclen, Hid. lia.
  - rewrite Hp, Hclen. unfold c. rewrite <- firstn_map.
    rewrite prev_of_firstn by lia. symmetry. apply last_alh_prev_of; [reflexivity|lia].
  - left. rewrite E. unfold c. rewrite <- firstn_map, firstn_firstn.
    replace (Nat.min (N.to_nat (h_bltxid (r_hdr (w_rec w)))) (N.to_nat (k - 1)))
      with (N.to_nat (h_bltxid (r_hdr (w_rec w)))) by lia.
    f_equal. symmetry.
    replace (alhs s (h_bltxid (r_hdr (w_rec w))))
      with (alhs s (N.of_nat (N.to_nat (h_bltxid (r_hdr (w_rec w)))))) by (rewrite N2Nat.id; reflexivity).
    apply alhs_spec; auto. lia.
Qed.

(* ---- waiting commit calls ---- *)
Definition Inv3 (s : state) : Prop :=
  forall id alh, In (id, alh) (s_wait s) ->
  1 <= id /\ exists e, nth_error (live s) (N.to_nat (id - 1)) = Some e /\ ce_alh e = alh.

Lemma Inv3_transfer s s' : Inv3 s -> live s' = live s -> s_wait s' = s_wait s -> Inv3 s'.
Proof using H. intros HW El Ew id alh Hin. rewrite Ew in Hin. rewrite El. apply HW. exact Hin. Qed.

Definition is_discard (o : op) : bool := match o with ODiscard _ => true | _ => false end.

Lemma step_inv3 s o : is_discard o = false -> Inv s -> Inv3 s -> Inv3 (fst (step H s o)).
Proof using H.
  intros Hno HI HW. destruct o; cbn [step]; try discriminate.
  - destruct (begin_more s c p exp skipic) as [_ Ew].
    apply (Inv3_transfer s _ HW); [apply same_core_live; apply begin_core|exact Ew].
  - destruct (locked_cases H s c HI) as (s4 & HI4 & _ & _ & Hres & _ & Hfx & _).
    assert (HW4 : Inv3 s4).
    { destruct Hfx as [(El & _ & _ & Ew)|(pe & w & El & Ei & _ & _ & _ & _ & _ & _ & Hw)].
      - apply (Inv3_transfer s _ HW El Ew).
      - pose proof (live_len s HI) as Hll. intros id alh Hin. rewrite El.
        destruct (Hw _ Hin) as [Hold|Hnew].
        + destruct (HW _ _ Hold) as (L & e & Hn & Ea). split; [exact L|]. exists e. split; [|exact Ea].
          rewrite nth_error_app1; [exact Hn|]. apply nth_error_Some. congruence.
        + injection Hnew as -> ->. split; [lia|]. exists (cent pe). split; [|reflexivity].
          replace (N.to_nat (s_inmem s + 1 - 1)) with (length (live s)) by (unfold lenN in Hll; lia).
          rewrite nth_error_app2, Nat.sub_diag by lia. reflexivity. }
    destruct Hres as [-> | ->]; [exact HW4|].
    destruct (may_commit_fx s4 HI4) as (El & _ & _ & _ & Ew). apply (Inv3_transfer s4 _ HW4 El Ew).
  - unfold sync. destruct (s_inmem s =? s_committed s); [exact HW|].
    assert (Hc : same_core (tl_flush s) s) by (repeat split).
    assert (HI1 : Inv (tl_flush s)) by (eapply Inv_same_core; eauto).
    destruct (may_commit_fx _ HI1) as (El & _ & _ & _ & Ew).
    apply (Inv3_transfer s _ HW); [rewrite El; apply same_core_live; exact Hc|rewrite Ew; reflexivity].
  - unfold allow. destruct (negb (s_ext s)); [exact HW|]. destruct (n <=? s_allowed s); [exact HW|].
    match goal with |- context [upd_allow s ?e ?a] => set (s1 := upd_allow s e a) end.
    assert (Hc : same_core s1 s) by (repeat split).
    destruct (c_synced (s_cfg s)); cbn [fst].
    + apply (Inv3_transfer s _ HW); [apply same_core_live; exact Hc|reflexivity].
    + assert (HI1 : Inv s1) by (eapply Inv_same_core; eauto).
      destruct (may_commit_fx _ HI1) as (El & _ & _ & _ & Ew).
      apply (Inv3_transfer s _ HW); [rewrite El; apply same_core_live; exact Hc|rewrite Ew; reflexivity].
  - unfold set_ext. cbn [fst]. apply (Inv3_transfer s _ HW); [apply same_core_live; repeat split|reflexivity].
  - (* Close: the waiting calls end with ErrAlreadyClosed *)
    unfold reopen.
    repeat match goal with
    | |- context [match ?x with Ok _ => _ | Err _ => _ | Panic => _ end] => destruct x as [[[[? ?] ?] ?]| |]
    | |- context [match ?x with Ok _ => _ | Err _ => _ | Panic => _ end] => destruct x as [[? ?]| |]
    | |- context [match ?x with Ok _ => _ | Err _ => _ | Panic => _ end] => destruct x
    | |- context [if ?b then _ else _] => destruct b
    end; cbn [fst]; try exact HW; intros id alh Hin; sp; contradiction.
Qed.

Lemma run_inv3 ops : forall s, existsb is_discard ops = false -> Inv s -> Inv3 s -> Inv3 (run H s ops).
Proof using H.
  induction ops as [|o ops IH]; intros s Hno HI HW; [exact HW|].
  cbn [existsb] in Hno. apply orb_false_iff in Hno. destruct Hno as [Ho Hops].
  cbn [run fold_left]. apply IH; auto.
  - apply step_inv; auto.
  - apply step_inv3; auto.
Qed.

Lemma ack_lemma s id alh : Inv s -> Inv3 s -> In (id, alh) (acked s) ->
  exists r, read_tx s id = Ok r /\ r_alh r = alh.
Proof using H.
  clear H_len. intros HI HW Hin. unfold acked in Hin. apply filter_In in Hin. destruct Hin as [Hin Hc].
  cbn [fst] in Hc. apply N.leb_le in Hc.
  destruct (HW _ _ Hin) as (L & e & Hn & Ea).
  destruct (read_tx_spec H s id HI L Hc) as (e' & w & Hn' & (_ & _ & _ & _ & Ha) & R & _).
  rewrite live_committed_nth in Hn by (auto; lia). rewrite Hn in Hn'. injection Hn' as <-.
  exists (w_rec w). split; [exact R|]. congruence.
Qed.

End Aht.
