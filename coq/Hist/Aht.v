(* Two further invariants, each preserved by all steps but one:
   - the binary-linking tree agrees with the live chain, hence every BlRoot is the Merkle root over the
     earlier Alh values: preserved by everything except Close/OpenWith (see Refuted.v);
   - every waiting commit call waits for the transaction that holds its id: preserved by everything
     except DiscardPrecommittedTxsSince (see Refuted.v). *)
From V Require Import Hist.Machine Hist.RingProofs Hist.Lemmas Hist.Chain Hist.Inv Hist.InvSteps Hist.Hist.
From Coq Require Import ZifyN ZifyNat ZifyBool.

Section Aht.
Variable H : bytes -> bytes.
Notation Inv := (Inv H).

(* what mayCommit leaves unchanged *)
Lemma may_commit_fx s : Inv s ->
  let s' := fst (may_commit s) in
  live s' = live s /\ s_txlog s' = s_txlog s /\ s_aht s' = s_aht s /\ s_inmem s' = s_inmem s /\
  s_wait s' = s_wait s.
Proof.
  intros HI. pose proof HI as [? Hbok Hclen HchB ? Hids Hinm ? ? ?].
  assert (HC : lenN (clogC s) = s_committed s) by (apply clogC_len; auto).
  assert (Hpre : forall X, firstn (N.to_nat (s_committed s)) (clogC s ++ X) = clogC s).
  { intros X. apply firstn_app_exact. unfold lenN in HC. lia. }
  assert (Hsame : forall X, live (upd_clog s (clogC s ++ X)) = live s).
  { intros X. unfold live, clogC at 1. sp. rewrite Hpre. reflexivity. }
  cbn zeta. unfold may_commit.
  destruct (N.eqb_spec (commit_allowed_upto s) (s_committed s)) as [E|NE]; [repeat split|].
  destruct (N.ltb_spec (lenN (s_clog s)) (s_committed s)) as [L1|L1]; [repeat split|].
  fold (clogC s).
  destruct (N.ltb_spec (commit_allowed_upto s) (s_committed s)) as [L2|L2].
  - cbn [fst]. split; [|repeat split]. rewrite <- (app_nil_r (clogC s)). apply Hsame.
  - set (count := commit_allowed_upto s - s_committed s).
    destruct (commit_loop_spec H (s_buf s) Hbok (N.to_nat count) 0 count (clogC s) (0, zeros32)
                ltac:(lia) ltac:(lia)) as (m & E1 & Lm & E2).
    destruct (commit_loop (N.to_nat count) (s_buf s) 0 count (clogC s) (0, zeros32)) as [clog1 r] eqn:EL.
    cbn [fst snd] in E1, E2. cbn [skipn N.to_nat] in E1. subst clog1.
    assert (Hfail : live (upd_clog s (clogC s ++ map cent (firstn m (pb_list (s_buf s))))) = live s) by apply Hsame.
    destruct r as [[lid lalh]|e|]; [|cbn [fst]; split; [exact Hfail|repeat split]|cbn [fst]; split; [exact Hfail|repeat split]].
    destruct E2 as (Em & E3 & _).
    destruct (E3 ltac:(lia)) as (Lc & pe & Hn & -> & ->).
    destruct (N.eqb_spec (pe_id pe) (commit_allowed_upto s)) as [Ef|Nf]; cbn [negb];
      [|cbn [fst]; split; [exact Hfail|repeat split]].
    assert (Hcnt : pb_count (s_buf s) = lenN (pb_list (s_buf s))) by (symmetry; apply pb_list_length).
    destruct (pb_advance_ok (s_buf s) count Hbok ltac:(lia) ltac:(lia)) as (b' & Eb & Hok' & Hl' & Hs').
    rewrite Eb. cbn [fst]. split; [|repeat split].
    assert (Hm : m = N.to_nat count) by lia. clear Em Lm. subst m.
    unfold live, clogC at 1. sp. rewrite Hl'.
    assert (Hlen1 : lenN (clogC s ++ map cent (firstn (N.to_nat count) (pb_list (s_buf s)))) = pe_id pe).
    { rewrite lenN_app, lenN_map, lenN_firstn. lia. }
    rewrite firstn_all2 by (unfold lenN in Hlen1; lia).
    rewrite <- app_assoc, <- map_app, firstn_skipn. reflexivity.
Qed.

(* ---- the AHT agrees with the live chain ---- *)
Record Inv2 (s : state) : Prop := {
  j_aht : firstn (N.to_nat (s_inmem s)) (s_aht s) = map ce_alh (live s);
  j_root : forall k e w, nth_error (live s) k = Some e -> tl_read (s_txlog s) (ce_off e) = Some w ->
           0 < h_bltxid (r_hdr (w_rec w)) ->
           h_blroot (r_hdr (w_rec w)) =
           mth H (firstn (N.to_nat (h_bltxid (r_hdr (w_rec w)))) (map ce_alh (live s)))
}.

Lemma live_len s : Inv s -> lenN (live s) = s_inmem s.
Proof.
  intros []. unfold live. rewrite lenN_app, lenN_map, clogC_len by auto. lia.
Qed.

(* the record located by a live entry: position, id and BlTxID *)
Lemma live_nth s k e : Inv s -> nth_error (live s) k = Some e ->
  exists w, tl_read (s_txlog s) (ce_off e) = Some w /\ h_id (r_hdr (w_rec w)) = N.of_nat k + 1 /\
            h_bltxid (r_hdr (w_rec w)) < N.of_nat k + 1 /\ w_end w <= s_ptls s /\ r_alh (w_rec w) = ce_alh e.
Proof.
  intros [] Hn.
  destruct (chain_nth H _ _ _ _ _ _ _ _ i_chainB Hn) as (w & (R & _ & Hid & _ & Ha) & E).
  exists w. split; [exact R|]. replace (0 + N.of_nat k + 1) with (N.of_nat k + 1) in Hid by lia.
  split; [exact Hid|]. split; [|split; [exact E|exact Ha]].
  apply tl_read_some in R. destruct R as [_ Hin]. eapply Forall_forall in i_wf; eauto.
  destruct i_wf as [_ Hb]. lia.
Qed.

Lemma init_inv2 c : 0 < c_maxactive c -> Inv2 (init H c).
Proof.
  intros Hm. destruct (pb_new_spec (c_maxactive c) Hm) as (_ & Hl & _).
  constructor; unfold live, clogC, init; sp; rewrite Hl.
  - reflexivity.
  - intros k e w Hn. destruct k; discriminate.
Qed.

(* Inv2 only depends on the live chain, the tx log reads of its entries, the AHT prefix and inmem *)
Lemma Inv2_transfer s s' : Inv s -> Inv2 s ->
  live s' = live s -> s_inmem s' = s_inmem s ->
  firstn (N.to_nat (s_inmem s)) (s_aht s') = firstn (N.to_nat (s_inmem s)) (s_aht s) ->
  tl_keep (s_ptls s) s s' -> Inv2 s'.
Proof.
  intros HI [Ja Jr] El Ei Ea Kt. constructor.
  - rewrite El, Ei, Ea. exact Ja.
  - intros k e w Hn R Hb. rewrite El in *.
    destruct (live_nth s k e HI Hn) as (w0 & R0 & _ & _ & E0 & _).
    rewrite (Kt _ _ R0 E0) in R. injection R as <-. eapply Jr; eauto.
Qed.

Lemma firstn_app_le {A} n (a b : list A) : (n <= length a)%nat -> firstn n (a ++ b) = firstn n a.
Proof.
  intros L. rewrite firstn_app. replace (n - length a)%nat with 0%nat by lia. cbn [firstn]. apply app_nil_r.
Qed.

Lemma locked_inv2 s c stale : Inv s -> Inv2 s -> Inv2 (fst (locked H s c stale)).
Proof.
  intros HI HJ.
  destruct (locked_cases H s c stale HI) as (s4 & HI4 & Kc & Kt & Hres & _ & Hfx).
  assert (HJ4 : Inv2 s4).
  { destruct Hfx as [(El & Ei & Ea & _)|(pe & w & El & Ei & Hlen & Ea & Rw & Hwa & Hbl & Hroot & _)].
    - apply (Inv2_transfer s s4 HI HJ El Ei Ea Kt).
    - pose proof HJ as [Ja Jr]. pose proof (live_len s HI) as Hll.
      assert (Hflen : length (firstn (N.to_nat (s_inmem s)) (s_aht s)) = N.to_nat (s_inmem s)).
      { rewrite firstn_length. unfold lenN in Hlen. lia. }
      constructor.
      + rewrite Ei, Ea, El, map_app. cbn [map cent ce_alh].
        rewrite firstn_all2 by (rewrite app_length; cbn [length]; lia).
        rewrite Ja. reflexivity.
      + intros k e w' Hn R Hb. rewrite El in Hn |- *.
        assert (Hk : (k < length (live s) \/ k = length (live s))%nat).
        { assert (k < length (live s ++ [cent pe]))%nat by (apply nth_error_Some; congruence).
          rewrite app_length in H0. cbn [length] in H0. lia. }
        destruct Hk as [Hk|Hk].
        * rewrite nth_error_app1 in Hn by exact Hk.
          destruct (live_nth s k e HI Hn) as (w0 & R0 & _ & Hb0 & E0 & _).
          rewrite (Kt _ _ R0 E0) in R. injection R as <-.
          rewrite (Jr _ _ _ Hn R0 Hb). rewrite map_app.
          rewrite firstn_app_le; [reflexivity|]. rewrite map_length. lia.
        * subst k. rewrite nth_error_app2, Nat.sub_diag in Hn by lia. injection Hn as <-.
          cbn [cent ce_off] in R. rewrite Rw in R. injection R as <-.
          rewrite (Hroot Hb). rewrite map_app.
          rewrite firstn_app_le by (rewrite map_length; unfold lenN in Hll; lia).
          rewrite <- Ja. rewrite firstn_firstn.
          replace (Nat.min (N.to_nat (h_bltxid (r_hdr (w_rec w)))) (N.to_nat (s_inmem s)))
            with (N.to_nat (h_bltxid (r_hdr (w_rec w)))) by lia.
          reflexivity. }
  destruct Hres as [-> | ->]; [exact HJ4|].
  destruct (may_commit_fx s4 HI4) as (El & Et & Ea & Ei & _).
  apply (Inv2_transfer s4 _ HI4 HJ4 El Ei).
  - rewrite Ea. reflexivity.
  - apply tl_keep_same. exact Et.
Qed.

(* ---- the other steps ---- *)
Lemma begin_vals_more s vals s0 (l : list N) :
  (if c_embedded (s_cfg s) then (s, map (fun _ : bytes => 0) vals)
   else let '(vl, sz, offs) := vlog_append (s_vlog s) (s_vsize s) vals in
        (upd_vlog s vl sz, map (fun o => enc_voff o) offs)) = (s0, l) ->
  s_aht s0 = s_aht s /\ s_wait s0 = s_wait s.
Proof.
  destruct (c_embedded (s_cfg s)).
  - intros [= <- _]. auto.
  - destruct (vlog_append (s_vlog s) (s_vsize s) vals) as [[vl sz] offs]. intros [= <- _]. auto.
Qed.

Lemma begin_more s c p exp sk :
  s_aht (fst (begin H s c p exp sk)) = s_aht s /\ s_wait (fst (begin H s c p exp sk)) = s_wait s.
Proof.
  unfold begin.
  repeat match goal with
  | |- context [fst (if ?b then _ else _)] => destruct b
  | |- context [fst (match ?x with _ => _ end)] => destruct x eqn:?
  | |- context [fst (let '(_, _) := ?x in _)] => destruct x eqn:?
  end; cbn [fst]; auto;
  match goal with
  | E : (if c_embedded _ then _ else _) = (_, _) |- _ => apply begin_vals_more in E; sp; exact E
  end.
Qed.

Lemma same_core_live s s' : same_core s' s -> live s' = live s.
Proof. intros (_ & _ & E3 & E4 & _ & _ & _ & _ & E9). unfold live, clogC. rewrite E3, E4, E9. reflexivity. Qed.

Lemma Inv2_same s s' : Inv s -> Inv2 s -> same_core s' s -> s_aht s' = s_aht s -> Inv2 s'.
Proof.
  intros HI HJ Hc Ea. pose proof (same_core_live _ _ Hc) as El.
  destruct Hc as (_ & E2 & _ & _ & _ & E6 & _).
  apply (Inv2_transfer s s' HI HJ El E6).
  - rewrite Ea. reflexivity.
  - apply tl_keep_same. exact E2.
Qed.

Lemma may_commit_inv2 s : Inv s -> Inv2 s -> Inv2 (fst (may_commit s)).
Proof.
  intros HI HJ. destruct (may_commit_fx s HI) as (El & Et & Ea & Ei & _).
  apply (Inv2_transfer s _ HI HJ El Ei).
  - rewrite Ea. reflexivity.
  - apply tl_keep_same. exact Et.
Qed.

Lemma discard_fx s n : Inv s ->
  let s' := fst (discard s n) in
  s_txlog s' = s_txlog s /\ s_wait s' = s_wait s /\
  ((live s' = live s /\ s_inmem s' = s_inmem s /\ s_aht s' = s_aht s) \/
   (exists m, s_committed s < n /\ n <= s_inmem s /\ m = N.to_nat (n - 1) /\
              live s' = firstn m (live s) /\ s_inmem s' = n - 1 /\
              s_aht s' = firstn (N.to_nat (if lenN (s_aht s) <? s_inmem s + 1 - n
                                           then lenN (s_aht s) + 2 ^ 64 - (s_inmem s + 1 - n)
                                           else lenN (s_aht s) - (s_inmem s + 1 - n))) (s_aht s))).
Proof.
  intros HI. cbn zeta. unfold discard.
  destruct (N.eqb_spec n 0) as [E0|N0]; [cbn [fst]; auto 10|].
  destruct (N.leb_spec n (s_committed s)) as [L1|L1]; [cbn [fst]; auto 10|].
  destruct (N.ltb_spec (s_inmem s) n) as [L2|L2]; [cbn [fst]; auto 10|].
  remember (s_inmem s + 1 - n) as cnt eqn:Ecnt.
  destruct (aht_reset (s_aht s) _) as [a'| |] eqn:Ear; [|cbn [fst]; auto 10|cbn [fst]; auto 10].
  sp. pose proof HI as [? Hbok Hclen ? ? Hids Hinm ? ? ?].
  assert (Hcnt : pb_count (s_buf s) = lenN (pb_list (s_buf s))) by (symmetry; apply pb_list_length).
  destruct (pb_recede_ok (s_buf s) cnt Hbok ltac:(lia) ltac:(lia)) as (b' & Eb & Hok' & Hl' & Hs').
  rewrite Eb. sp.
  replace (N.to_nat (pb_count (s_buf s) - cnt)) with (N.to_nat (n - 1 - s_committed s)) in Hl' by lia.
  assert (HC : lenN (clogC s) = s_committed s) by (apply clogC_len; auto).
  assert (Ha' : a' = firstn (N.to_nat (if lenN (s_aht s) <? cnt then lenN (s_aht s) + 2 ^ 64 - cnt
                                       else lenN (s_aht s) - cnt)) (s_aht s)).
  { unfold aht_reset in Ear. destruct (_ <? _) in Ear; [discriminate|]. injection Ear as <-. reflexivity. }
  assert (Hlive : forall st, s_clog st = s_clog s -> s_committed st = s_committed s -> s_buf st = b' ->
                             live st = firstn (N.to_nat (n - 1)) (live s)).
  { intros st E1 E2 E3. unfold live. unfold clogC at 1. rewrite E1, E2, E3, Hl'. fold (clogC s).
    replace (N.to_nat (n - 1)) with (length (clogC s) + N.to_nat (n - 1 - s_committed s))%nat
      by (unfold lenN in HC; lia).
    rewrite firstn_app_2, firstn_map. reflexivity. }
  destruct (N.eqb_spec (n - 1) (s_committed s)) as [E1|N1].
  - cbn [fst]. sp. split; [reflexivity|]. split; [reflexivity|]. right.
    exists (N.to_nat (n - 1)). split; [lia|]. split; [lia|]. split; [reflexivity|].
    split; [apply Hlive; reflexivity|]. split; [lia|exact Ha'].
  - destruct (N.ltb_spec (s_inmem s - s_committed s - 1) cnt) as [L3|L3]; [lia|].
    rewrite (pb_read_ahead_spec b' _ Hok'), Hl'.
    remember (N.to_nat (n - 1 - s_committed s)) as m eqn:Em.
    replace (N.to_nat (s_inmem s - s_committed s - 1 - cnt)) with (m - 1)%nat by lia.
    assert (Hm : (m - 1 < length (pb_list (s_buf s)))%nat) by (unfold lenN in *; lia).
    destruct (nth_error (pb_list (s_buf s)) (m - 1)) as [pe|] eqn:Hn; [|apply nth_error_None in Hn; lia].
    rewrite nth_error_firstn' by lia. rewrite Hn.
    assert (Hid : pe_id pe = n - 1) by (rewrite (Hids _ _ Hn); lia).
    destruct (N.eqb_spec (pe_id pe) (n - 1)) as [_|NE]; [|congruence].
    cbn [fst]. sp. split; [reflexivity|]. split; [reflexivity|]. right.
    exists (N.to_nat (n - 1)). split; [lia|]. split; [lia|]. split; [reflexivity|].
    split; [apply Hlive; reflexivity|]. split; [reflexivity|exact Ha'].
Qed.

Lemma discard_inv2 s n : Inv s -> Inv2 s -> Inv2 (fst (discard s n)).
Proof.
  intros HI HJ. destruct (discard_fx s n HI) as (Et & _ & [(El & Ei & Ea)|(m & L1 & L2 & Em & El & Ei & Ea)]).
  - apply (Inv2_transfer s _ HI HJ El Ei); [rewrite Ea; reflexivity|apply tl_keep_same; exact Et].
  - pose proof HJ as [Ja Jr]. pose proof (live_len s HI) as Hll.
    assert (Hahtlen : s_inmem s <= lenN (s_aht s)).
    { apply (f_equal (@length bytes)) in Ja. rewrite firstn_length, map_length in Ja. unfold lenN in *. lia. }
    constructor.
    + rewrite Ei, Ea, El. rewrite firstn_firstn.
      destruct (N.ltb_spec (lenN (s_aht s)) (s_inmem s + 1 - n)); [lia|].
      replace (Nat.min (N.to_nat (n - 1)) (N.to_nat (lenN (s_aht s) - (s_inmem s + 1 - n)))) with m by lia.
      rewrite <- firstn_map, <- Ja, firstn_firstn. replace (Nat.min m (N.to_nat (s_inmem s))) with m by lia.
      reflexivity.
    + intros k e w Hn R Hb. rewrite El in Hn |- *. rewrite Et in R.
      assert (Hk : (k < m)%nat).
      { assert (k < length (firstn m (live s)))%nat by (apply nth_error_Some; congruence).
        rewrite firstn_length in H0. lia. }
      rewrite nth_error_firstn' in Hn by exact Hk.
      destruct (live_nth s k e HI Hn) as (w0 & R0 & _ & Hb0 & _).
      rewrite R0 in R. injection R as <-.
      rewrite (Jr _ _ _ Hn R0 Hb). rewrite <- firstn_map, firstn_firstn.
      replace (Nat.min (N.to_nat (h_bltxid (r_hdr (w_rec w0)))) m) with (N.to_nat (h_bltxid (r_hdr (w_rec w0)))) by lia.
      reflexivity.
Qed.

Definition is_reopen (o : op) : bool := match o with OReopen => true | _ => false end.

Lemma step_inv2 s o : is_reopen o = false -> Inv s -> Inv2 s -> Inv2 (fst (step H s o)).
Proof.
  intros Hno HI HJ. destruct o; cbn [step]; try discriminate.
  - destruct (begin_more s c p exp skipic) as [Ea _]. eapply Inv2_same; eauto. apply begin_core.
  - apply locked_inv2; auto.
  - unfold sync. destruct (s_inmem s =? s_committed s); [exact HJ|].
    assert (Hc : same_core (tl_flush s) s) by (repeat split).
    apply may_commit_inv2; [eapply Inv_same_core; eauto|]. eapply Inv2_same; eauto.
  - unfold allow. destruct (negb (s_ext s)); [exact HJ|]. destruct (n <=? s_allowed s); [exact HJ|].
    match goal with |- context [upd_allow s ?e ?a] => set (s1 := upd_allow s e a) end.
    assert (Hc : same_core s1 s) by (repeat split).
    assert (HJ1 : Inv2 s1) by (eapply Inv2_same; eauto).
    destruct (c_synced (s_cfg s)); cbn [fst]; [exact HJ1|].
    apply may_commit_inv2; [eapply Inv_same_core; eauto|exact HJ1].
  - apply discard_inv2; auto.
  - unfold set_ext. cbn [fst]. eapply Inv2_same; eauto. repeat split.
Qed.

Lemma run_inv2 ops : forall s,
  existsb is_reopen ops = false -> Inv s -> Inv2 s -> Inv2 (run H s ops).
Proof.
  induction ops as [|o ops IH]; intros s Hno HI HJ; [exact HJ|].
  cbn [existsb] in Hno. apply orb_false_iff in Hno. destruct Hno as [Ho Hops].
  cbn [run fold_left]. apply IH; auto.
  - apply step_inv; auto.
  - apply step_inv2; auto.
Qed.

(* the Alh values of the committed transactions 1..n as a reader gets them *)
Definition alhs (s : state) (n : N) : list bytes :=
  map (fun k => match read_tx s k with Ok r => r_alh r | _ => [] end) (ids_upto n).

Lemma firstn_succ_nth {A} (l : list A) j x : nth_error l j = Some x -> firstn (S j) l = firstn j l ++ [x].
Proof.
  revert j; induction l as [|a l IH]; intros [|j] Hn; try discriminate.
  - injection Hn as ->. reflexivity.
  - cbn [nth_error] in Hn. rewrite !firstn_cons. rewrite (IH _ Hn). reflexivity.
Qed.

Lemma live_committed_nth s j : Inv s -> (j < N.to_nat (s_committed s))%nat ->
  nth_error (live s) j = nth_error (clogC s) j.
Proof.
  intros HI L. unfold live. apply nth_error_app1.
  pose proof HI as []. pose proof (clogC_len s i_clen) as HC. unfold lenN in HC. lia.
Qed.

Lemma alhs_spec s : Inv s -> forall n : nat, N.of_nat n <= s_committed s ->
  alhs s (N.of_nat n) = firstn n (map ce_alh (live s)).
Proof.
  intros HI. induction n as [|n IH]; intros L.
  - reflexivity.
  - unfold alhs, ids_upto in *. rewrite Nnat.Nat2N.id in *.
    rewrite seq_S, !map_app. cbn [map plus]. rewrite IH by lia.
    destruct (read_tx_spec H s (N.of_nat n + 1) HI ltac:(lia) ltac:(lia))
      as (e & w & Hn & (_ & _ & _ & _ & Ha) & -> & _).
    replace (N.to_nat (N.of_nat n + 1 - 1)) with n in Hn by lia.
    rewrite <- live_committed_nth in Hn by (auto; lia).
    rewrite (firstn_succ_nth _ n (ce_alh e)); [rewrite Ha; reflexivity|].
    rewrite nth_error_map, Hn. reflexivity.
Qed.

Lemma blroot_lemma s k r : Inv s -> Inv2 s -> 1 <= k -> k <= s_committed s -> read_tx s k = Ok r ->
  0 < h_bltxid (r_hdr r) ->
  h_blroot (r_hdr r) = mth H (alhs s (h_bltxid (r_hdr r))).
Proof.
  intros HI [Ja Jr] K1 K2 R Hb.
  destruct (read_tx_spec H s k HI K1 K2) as (e & w & Hn & (Rw & _) & R' & (_ & Hbl) & _).
  rewrite R in R'. injection R' as ->.
  rewrite <- live_committed_nth in Hn by (auto; lia).
  rewrite (Jr _ _ _ Hn Rw Hb).
  destruct (live_nth s _ e HI Hn) as (w0 & R0 & Hid & Hb0 & _).
  rewrite Rw in R0. injection R0 as <-.
  rewrite <- (N2Nat.id (h_bltxid (r_hdr (w_rec w)))) at 2.
  rewrite alhs_spec by (auto; lia). reflexivity.
Qed.

(* ---- waiting commit calls ---- *)
Definition Inv3 (s : state) : Prop :=
  forall id alh, In (id, alh) (s_wait s) ->
  1 <= id /\ exists e, nth_error (live s) (N.to_nat (id - 1)) = Some e /\ ce_alh e = alh.

Lemma Inv3_transfer s s' : Inv3 s -> live s' = live s -> s_wait s' = s_wait s -> Inv3 s'.
Proof. intros HW El Ew id alh Hin. rewrite Ew in Hin. rewrite El. apply HW. exact Hin. Qed.

Definition is_discard (o : op) : bool := match o with ODiscard _ => true | _ => false end.

Lemma step_inv3 s o : is_discard o = false -> Inv s -> Inv3 s -> Inv3 (fst (step H s o)).
Proof.
  intros Hno HI HW. destruct o; cbn [step]; try discriminate.
  - destruct (begin_more s c p exp skipic) as [_ Ew].
    apply (Inv3_transfer s _ HW); [apply same_core_live; apply begin_core|exact Ew].
  - destruct (locked_cases H s c stale HI) as (s4 & HI4 & _ & _ & Hres & _ & Hfx).
    assert (HW4 : Inv3 s4).
    { destruct Hfx as [(El & _ & _ & Ew)|(pe & w & El & Ei & _ & _ & _ & _ & _ & _ & Hw)].
      - apply (Inv3_transfer s _ HW El Ew).
      - pose proof (live_len s HI) as Hll. intros id alh Hin. rewrite El.
        destruct (Hw _ Hin) as [Hold|Hnew].
        + destruct (HW _ _ Hold) as (L & e & Hn & Ea). split; [exact L|]. exists e. split; [|exact Ea].
          rewrite nth_error_app1; [exact Hn|]. apply nth_error_Some. congruence.
        + injection Hnew as -> ->. split; [lia|]. exists (cent pe). split; [|reflexivity].
          replace (N.to_nat (s_inmem s + 1 - 1)) with (length (live s)) by (unfold lenN in Hll; lia).
          rewrite nth_error_app2, Nat.sub_diag by lia. reflexivity. }
    destruct Hres as [-> | ->]; [exact HW4|].
    destruct (may_commit_fx s4 HI4) as (El & _ & _ & _ & Ew). apply (Inv3_transfer s4 _ HW4 El Ew).
  - unfold sync. destruct (s_inmem s =? s_committed s); [exact HW|].
    assert (Hc : same_core (tl_flush s) s) by (repeat split).
    assert (HI1 : Inv (tl_flush s)) by (eapply Inv_same_core; eauto).
    destruct (may_commit_fx _ HI1) as (El & _ & _ & _ & Ew).
    apply (Inv3_transfer s _ HW); [rewrite El; apply same_core_live; exact Hc|rewrite Ew; reflexivity].
  - unfold allow. destruct (negb (s_ext s)); [exact HW|]. destruct (n <=? s_allowed s); [exact HW|].
    match goal with |- context [upd_allow s ?e ?a] => set (s1 := upd_allow s e a) end.
    assert (Hc : same_core s1 s) by (repeat split).
    destruct (c_synced (s_cfg s)); cbn [fst].
    + apply (Inv3_transfer s _ HW); [apply same_core_live; exact Hc|reflexivity].
    + assert (HI1 : Inv s1) by (eapply Inv_same_core; eauto).
      destruct (may_commit_fx _ HI1) as (El & _ & _ & _ & Ew).
      apply (Inv3_transfer s _ HW); [rewrite El; apply same_core_live; exact Hc|rewrite Ew; reflexivity].
  - unfold set_ext. cbn [fst]. apply (Inv3_transfer s _ HW); [apply same_core_live; repeat split|reflexivity].
  - (* Close: the waiting calls end with ErrAlreadyClosed *)
    unfold reopen.
    repeat match goal with
    | |- context [match ?x with Ok _ => _ | Err _ => _ | Panic => _ end] => destruct x as [[[[? ?] ?] ?]| |]
    | |- context [match ?x with Ok _ => _ | Err _ => _ | Panic => _ end] => destruct x as [[? ?]| |]
    | |- context [match ?x with Ok _ => _ | Err _ => _ | Panic => _ end] => destruct x
    | |- context [if ?b then _ else _] => destruct b
    end; cbn [fst]; try exact HW; intros id alh Hin; sp; contradiction.
Qed.

Lemma run_inv3 ops : forall s, existsb is_discard ops = false -> Inv s -> Inv3 s -> Inv3 (run H s ops).
Proof.
  induction ops as [|o ops IH]; intros s Hno HI HW; [exact HW|].
  cbn [existsb] in Hno. apply orb_false_iff in Hno. destruct Hno as [Ho Hops].
  cbn [run fold_left]. apply IH; auto.
  - apply step_inv; auto.
  - apply step_inv3; auto.
Qed.

Lemma ack_lemma s id alh : Inv s -> Inv3 s -> In (id, alh) (acked s) ->
  exists r, read_tx s id = Ok r /\ r_alh r = alh.
Proof.
  intros HI HW Hin. unfold acked in Hin. apply filter_In in Hin. destruct Hin as [Hin Hc].
  cbn [fst] in Hc. apply N.leb_le in Hc.
  destruct (HW _ _ Hin) as (L & e & Hn & Ea).
  destruct (read_tx_spec H s id HI L Hc) as (e' & w & Hn' & (_ & _ & _ & _ & Ha) & R & _).
  rewrite live_committed_nth in Hn by (auto; lia). rewrite Hn in Hn'. injection Hn' as <-.
  exists (w_rec w). split; [exact R|]. congruence.
Qed.

End Aht.
