(* Chains of located records: a list of (offset, size, alh) entries each of which reads back, from the
   tx log, an intact record with the expected id, chained by PrevAlh, at increasing offsets. *)
From V Require Import Hist.Machine Hist.RingProofs Hist.Lemmas.
From Coq Require Import ZifyN ZifyNat ZifyBool.

Section Chain.
Variable H : bytes -> bytes.

(* what performPrecommit guarantees about every record it writes *)
Definition wr_wf (w : wr) : Prop :=
  alh_of H (r_hdr (w_rec w)) = Ok (r_alh (w_rec w)) /\
  h_bltxid (r_hdr (w_rec w)) < h_id (r_hdr (w_rec w)).

Definition points (log : list wr) (id : N) (prev : bytes) (e : centry) (w : wr) : Prop :=
  tl_read log (ce_off e) = Some w /\ rec_size (w_rec w) = ce_size e /\
  h_id (r_hdr (w_rec w)) = id /\ h_prevalh (r_hdr (w_rec w)) = prev /\ r_alh (w_rec w) = ce_alh e.

Fixpoint chain (log : list wr) (i : N) (prev : bytes) (lo : N) (es : list centry) (hi : N) : Prop :=
  match es with
  | [] => lo <= hi
  | e :: r => exists w, points log (i + 1) prev e w /\ lo <= w_hdr_off w /\
                        chain log (i + 1) (ce_alh e) (w_end w) r hi
  end.

Definition last_alh (prev : bytes) (es : list centry) : bytes := fold_left (fun _ e => ce_alh e) es prev.

Lemma last_alh_app p a b : last_alh p (a ++ b) = last_alh (last_alh p a) b.
Proof. unfold last_alh. apply fold_left_app. Qed.

Lemma chain_lo_le_hi log es : forall i p lo hi, chain log i p lo es hi -> lo <= hi.
Proof.
  induction es as [|e es IH]; intros i p lo hi; cbn [chain]; auto.
  intros (w & _ & L & C). apply IH in C. pose proof (w_hdr_lt_end w). lia.
Qed.

Lemma chain_lo_weaken log es i p lo lo' hi : lo' <= lo -> chain log i p lo es hi -> chain log i p lo' es hi.
Proof.
  destruct es as [|e es]; cbn [chain]; [lia|].
  intros L (w & P & L1 & C). exists w. split; [exact P|]. split; [lia|exact C].
Qed.

Lemma chain_hi_weaken log es : forall i p lo hi hi', hi <= hi' -> chain log i p lo es hi -> chain log i p lo es hi'.
Proof.
  induction es as [|e es IH]; intros i p lo hi hi' L; cbn [chain]; [lia|].
  intros (w & P & L1 & C). exists w. split; [exact P|]. split; [exact L1|]. eapply IH; eauto.
Qed.

Lemma chain_app_elim log a : forall b i p lo hi,
  chain log i p lo (a ++ b) hi ->
  exists mid, chain log i p lo a mid /\ chain log (i + lenN a) (last_alh p a) mid b hi.
Proof.
  induction a as [|e a IH]; intros b i p lo hi; cbn [app chain].
  - intros C. exists lo. split; [cbn [chain]; lia|]. rewrite lenN_nil, N.add_0_r. exact C.
  - intros (w & P & L & C). destruct (IH _ _ _ _ _ C) as (mid & C1 & C2).
    exists mid. split.
    + exists w. split; [exact P|]. split; [exact L|exact C1].
    + rewrite lenN_cons. replace (i + (lenN a + 1)) with (i + 1 + lenN a) by lia. exact C2.
Qed.

Lemma chain_app_intro log a : forall b i p lo mid hi,
  chain log i p lo a mid -> chain log (i + lenN a) (last_alh p a) mid b hi ->
  chain log i p lo (a ++ b) hi.
Proof.
  induction a as [|e a IH]; intros b i p lo mid hi; cbn [app chain].
  - intros L C. rewrite lenN_nil, N.add_0_r in C. eapply chain_lo_weaken; eauto.
  - intros (w & P & L & C1) C2. exists w. split; [exact P|]. split; [exact L|].
    eapply IH; eauto. rewrite lenN_cons in C2.
    replace (i + 1 + lenN a) with (i + (lenN a + 1)) by lia. exact C2.
Qed.

Lemma chain_prefix log a b i p lo hi : chain log i p lo (a ++ b) hi -> chain log i p lo a hi.
Proof.
  intros C. destruct (chain_app_elim _ _ _ _ _ _ _ C) as (mid & C1 & C2).
  apply chain_lo_le_hi in C2. eapply chain_hi_weaken; eauto.
Qed.

(* a new write at or above the end bound keeps every chain *)
Lemma chain_log_cons log w es : forall i p lo hi,
  chain log i p lo es hi -> hi <= w_off w -> chain (w :: log) i p lo es hi.
Proof.
  induction es as [|e es IH]; intros i p lo hi; cbn [chain]; auto.
  intros (x & (R & P) & L & C) Hw. exists x. split; [|split; auto].
  - split; auto. apply tl_read_cons_keep; auto. apply chain_lo_le_hi in C. lia.
Qed.

Lemma chain_log_filter (f : wr -> bool) log es : forall i p lo hi,
  chain log i p lo es hi -> (forall w, In w log -> f w = false -> hi <= w_off w) ->
  chain (filter f log) i p lo es hi.
Proof.
  induction es as [|e es IH]; intros i p lo hi; cbn [chain]; auto.
  intros (x & (R & P) & L & C) Hf. exists x. split; [|split; auto].
  split; auto. apply tl_read_filter_keep; auto.
  intros w Hin F. specialize (Hf w Hin F). apply chain_lo_le_hi in C. lia.
Qed.

Lemma chain_log_drops log log' es : forall i p lo hi,
  chain log i p lo es hi -> drops hi log log' -> chain log' i p lo es hi.
Proof.
  induction es as [|e es IH]; intros i p lo hi; cbn [chain]; auto.
  intros (x & (R & P) & L & C) Hd. exists x. split; [|split; auto].
  split; auto. eapply tl_read_drops; eauto. apply chain_lo_le_hi in C. exact C.
Qed.

(* the k-th entry of a chain *)
Lemma chain_nth log es : forall i p lo hi k e,
  chain log i p lo es hi -> nth_error es k = Some e ->
  exists w, points log (i + N.of_nat k + 1) (last_alh p (firstn k es)) e w /\ w_end w <= hi.
Proof.
  induction es as [|e0 es IH]; intros i p lo hi k e C Hn; [destruct k; discriminate|].
  cbn [chain] in C. destruct C as (w & P & L & C).
  destruct k as [|k]; cbn [nth_error] in Hn.
  - injection Hn as <-. exists w. cbn [firstn last_alh fold_left]. split.
    + replace (i + N.of_nat 0 + 1) with (i + 1) by lia. exact P.
    + apply chain_lo_le_hi in C. exact C.
  - destruct (IH _ _ _ _ _ _ C Hn) as (w' & P' & E').
    exists w'. split; auto. cbn [firstn]. unfold last_alh in *. cbn [fold_left].
    replace (i + N.of_nat (S k) + 1) with (i + 1 + N.of_nat k + 1) by lia. exact P'.
Qed.

Lemma last_alh_firstn_succ p es k e :
  nth_error es k = Some e -> last_alh p (firstn (S k) es) = ce_alh e.
Proof.
  revert p k; induction es as [|e0 es IH]; intros p k Hn; [destruct k; discriminate|].
  destruct k as [|k]; cbn [nth_error] in Hn.
  - injection Hn as <-. reflexivity.
  - change (firstn (S (S k)) (e0 :: es)) with (e0 :: firstn (S k) es).
    unfold last_alh in *. cbn [fold_left]. apply IH; auto.
Qed.

(* extension of a chain by one located record *)
Lemma chain_snoc log es i p lo mid e w hi :
  chain log i p lo es mid -> points log (i + lenN es + 1) (last_alh p es) e w ->
  mid <= w_hdr_off w -> w_end w <= hi -> chain log i p lo (es ++ [e]) hi.
Proof.
  intros C P L E. eapply chain_app_intro; eauto.
  cbn [chain]. exists w. split; [exact P|]. split; [exact L|exact E].
Qed.

(* the end bound of a non-empty chain can be taken to be the end of its last record *)
Lemma chain_end_exact log es e i p lo hi :
  chain log i p lo (es ++ [e]) hi ->
  exists w, points log (i + lenN es + 1) (last_alh p es) e w /\ w_end w <= hi /\
            chain log i p lo (es ++ [e]) (w_end w).
Proof.
  intros C. destruct (chain_app_elim _ _ _ _ _ _ _ C) as (mid & C1 & C2).
  cbn [chain] in C2. destruct C2 as (w & P & L & E).
  exists w. split; [exact P|]. split; [exact E|].
  eapply chain_snoc; eauto. lia.
Qed.

Lemma last_alh_snoc p es e : last_alh p (es ++ [e]) = ce_alh e.
Proof. rewrite last_alh_app. reflexivity. Qed.

End Chain.
