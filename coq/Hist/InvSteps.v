(* Preservation of the invariant by DiscardPrecommittedTxsSince, the critical section of precommit
   (performPrecommit) and Close/OpenWith. *)
From V Require Import Hist.Machine Hist.RingProofs Hist.Lemmas Hist.Chain Hist.Inv.
From Coq Require Import ZifyN ZifyNat ZifyBool.

Section Steps.
Variable H : bytes -> bytes.
Notation Inv := (Inv H).

Ltac sp2 := sp; cbn [upd_ptls s_ptls s_txlog s_cfg s_clog s_committed s_calh s_inmem s_ialh s_buf s_aht s_wait s_tlnf] in *.

Lemma set_offset_drops s : drops (s_ptls s) (s_txlog s) (s_txlog (tl_set_offset s)).
Proof.
  sp. rewrite <- (firstn_skipn (N.to_nat (s_tlnf s)) (s_txlog s)) at 1.
  assert (Hf : forall l, drops (s_ptls s) l (filter (fun w => negb (s_ptls s <=? w_off w)) l)).
  { intros l. apply drops_filter. intros w _ F. apply negb_false_iff, N.leb_le in F. exact F. }
  apply drops_app2; [apply Hf|]. destruct (c_prealloc (s_cfg s)); [apply drops_refl|apply Hf].
Qed.

(* the precommitted part shrinks to its first m entries and the tx log is cut at `kept`, the end of the
   last entry that stays *)
Lemma Inv_shrink s s' m kept :
  Inv s ->
  s_cfg s' = s_cfg s -> s_clog s' = s_clog s ->
  s_committed s' = s_committed s -> s_calh s' = s_calh s -> s_ptls s' = kept ->
  drops kept (s_txlog s) (s_txlog s') ->
  chain (s_txlog s) 0 (H []) 0 (clogC s ++ map cent (firstn m (pb_list (s_buf s)))) kept ->
  pb_ok (s_buf s') -> pb_list (s_buf s') = firstn m (pb_list (s_buf s)) ->
  s_inmem s' = s_committed s + lenN (firstn m (pb_list (s_buf s))) ->
  s_ialh s' = last_alh (H []) (clogC s ++ map cent (firstn m (pb_list (s_buf s)))) ->
  Inv s'.
Proof.
  intros HI E1 E3 E4 E5 E6 Hd Hch Hok El Ei Ea. pose proof HI as [].
  constructor; unfold live, clogC in *; rewrite ?E1, ?E3, ?E4, ?E5, ?E6, ?El; auto.
  - eapply (chain_log_drops H); eauto.
  - eapply (chain_log_drops H); [|exact Hd].
    rewrite <- (clogC_all s i_cleq). unfold clogC. eapply (chain_prefix H); eauto.
  - apply ids_from_firstn; auto.
  - apply Forall_forall. intros w Hin. eapply drops_in in Hin; [|exact Hd]. eapply Forall_forall in i_wf; eauto.
Qed.

(* the end of the last live entry of a non-empty chain prefix is a tight end bound for it *)
Lemma chain_tight log es e hi :
  chain log 0 (H []) 0 (es ++ [e]) hi -> chain log 0 (H []) 0 (es ++ [e]) (ce_off e + ce_size e) /\ ce_off e + ce_size e <= hi.
Proof.
  intros C. destruct (chain_end_exact H _ _ _ _ _ _ _ C) as (w & (R & Es & _) & E & Hex).
  apply tl_read_some in R. destruct R as [R _]. unfold w_end in *. rewrite R, Es in *. split; auto.
Qed.

(* DiscardPrecommittedTxsSince: invariant, what happens to the tx log (cut at a bound above every committed
   record), to the waiters, and to the live chain / AHT *)
Definition discard_post (s s' : state) (n : N) : Prop :=
  Inv s' /\
  (exists B, drops B (s_txlog s) (s_txlog s') /\ chain (s_txlog s) 0 (H []) 0 (clogC s) B) /\
  s_wait s' = s_wait s /\ s_clog s' = s_clog s /\ s_committed s' = s_committed s /\ s_calh s' = s_calh s /\
  ((live s' = live s /\ s_inmem s' = s_inmem s /\ s_aht s' = s_aht s) \/
   (exists m, s_committed s < n /\ n <= s_inmem s /\ m = N.to_nat (n - 1) /\
              live s' = firstn m (live s) /\ s_inmem s' = n - 1 /\
              s_aht s' = firstn (N.to_nat (if lenN (s_aht s) <? s_inmem s + 1 - n
                                           then lenN (s_aht s) + 2 ^ 64 - (s_inmem s + 1 - n)
                                           else lenN (s_aht s) - (s_inmem s + 1 - n))) (s_aht s))).

Lemma discard_post_refl s n : Inv s -> discard_post s s n.
Proof.
  intros HI. pose proof HI as []. split; [exact HI|]. split.
  - exists (s_ptls s). split; [apply drops_refl|]. unfold live in i_chainB. eapply (chain_prefix H); eauto.
  - repeat split. left. repeat split.
Qed.

Lemma discard_full s n : Inv s -> discard_post s (fst (discard s n)) n.
Proof.
  intros HI. unfold discard.
  destruct (N.eqb_spec n 0) as [E0|N0]; [apply discard_post_refl; exact HI|].
  destruct (N.leb_spec n (s_committed s)) as [L1|L1]; [apply discard_post_refl; exact HI|].
  destruct (N.ltb_spec (s_inmem s) n) as [L2|L2]; [apply discard_post_refl; exact HI|].
  remember (s_inmem s + 1 - n) as cnt eqn:Ecnt.
  destruct (aht_reset (s_aht s) _) as [a'| |] eqn:Ear; [|apply discard_post_refl; exact HI|apply discard_post_refl; exact HI].
  assert (Ha' : a' = firstn (N.to_nat (if lenN (s_aht s) <? cnt then lenN (s_aht s) + 2 ^ 64 - cnt
                                       else lenN (s_aht s) - cnt)) (s_aht s)).
  { unfold aht_reset in Ear. destruct (_ <? _) in Ear; [discriminate|]. injection Ear as <-. reflexivity. }
  sp. pose proof HI as [].
  assert (Hcnt : pb_count (s_buf s) = lenN (pb_list (s_buf s))) by (symmetry; apply pb_list_length).
  assert (HC : lenN (clogC s) = s_committed s) by (apply clogC_len; auto).
  remember (N.to_nat (n - 1 - s_committed s)) as m eqn:Em.
  (* the end of the last kept transaction *)
  match goal with |- context [match ?k with Ok _ => _ | Err _ => _ | Panic => _ end] =>
    assert (Hkept : exists keptsz, k = Ok keptsz /\ keptsz <= s_ptls s /\
         chain (s_txlog s) 0 (H []) 0 (clogC s ++ map cent (firstn m (pb_list (s_buf s)))) keptsz) end.
  { destruct (N.ltb_spec (s_committed s) (n - 1)) as [Lk|Lk].
    - rewrite (pb_read_ahead_spec _ _ i_buf_ok).
      destruct (nth_error (pb_list (s_buf s)) (N.to_nat (n - s_committed s - 2))) as [pe|] eqn:Hn;
        [|apply nth_error_None in Hn; unfold lenN in *; lia].
      cbn [bind]. exists (pe_off pe + pe_size pe). split; [reflexivity|].
      assert (Hsplit : firstn m (pb_list (s_buf s)) = firstn (m - 1) (pb_list (s_buf s)) ++ [pe]).
      { replace m with (S (m - 1)) at 1 by lia. apply firstn_succ_nth'.
        replace (m - 1)%nat with (N.to_nat (n - s_committed s - 2)) by lia. exact Hn. }
      unfold live in i_chainB. rewrite <- (firstn_skipn m (pb_list (s_buf s))) in i_chainB.
      rewrite map_app, app_assoc in i_chainB. apply (chain_prefix H) in i_chainB.
      rewrite Hsplit, map_app, app_assoc in i_chainB |- *. cbn [map] in *.
      destruct (chain_tight _ _ _ _ i_chainB) as [Ht Hle]. cbn [cent ce_off ce_size] in *. split; auto.
    - assert (Hm0 : m = 0%nat) by lia. rewrite Hm0. cbn [firstn map]. rewrite app_nil_r.
      assert (HchC : chain (s_txlog s) 0 (H []) 0 (clogC s) (s_ptls s)).
      { unfold live in i_chainB. eapply (chain_prefix H); eauto. }
      destruct (N.ltb_spec 0 (s_committed s)) as [Lc|Lc].
      + unfold clog_entry. sp. destruct (N.eqb_spec (s_committed s) 0); [lia|].
        destruct (nth_error (s_clog s) (N.to_nat (s_committed s - 1))) as [ce|] eqn:Hn;
          [|apply nth_error_None in Hn; unfold lenN in *; lia].
        exists (ce_off ce + ce_size ce). split; [reflexivity|].
        assert (Hsplit : clogC s = firstn (N.to_nat (s_committed s - 1)) (s_clog s) ++ [ce]).
        { rewrite (clogC_all s i_cleq). rewrite <- (firstn_all (s_clog s)) at 1.
          replace (length (s_clog s)) with (S (N.to_nat (s_committed s - 1))) by (unfold lenN in i_cleq; lia).
          apply firstn_succ_nth'. exact Hn. }
        rewrite Hsplit in HchC |- *. destruct (chain_tight _ _ _ _ HchC) as [Ht Hle]. split; auto.
      + exists 0. split; [reflexivity|]. split; [lia|].
        assert (clogC s = []) as ->.
        { unfold clogC. replace (N.to_nat (s_committed s)) with 0%nat by lia. reflexivity. }
        cbn [chain]. lia. }
  destruct Hkept as (keptsz & -> & Hle & Htight).
  destruct (pb_recede_ok (s_buf s) cnt i_buf_ok ltac:(lia) ltac:(lia)) as (b' & Eb & Hok' & Hl' & Hs').
  rewrite Eb.
  replace (N.to_nat (pb_count (s_buf s) - cnt)) with m in Hl' by lia.
  (* the tx log is cut *)
  match goal with |- context [upd_buf ?sx b'] => set (s1 := sx) in * end.
  assert (Hs1 : s_cfg s1 = s_cfg s /\ s_clog s1 = s_clog s /\ s_committed s1 = s_committed s /\
                s_calh s1 = s_calh s /\ s_inmem s1 = s_inmem s /\ s_ptls s1 = keptsz /\
                drops keptsz (s_txlog s) (s_txlog s1) /\ s_wait s1 = s_wait s /\ s_aht s1 = a').
  { unfold s1. destruct (N.ltb_spec keptsz (s_ptls s)) as [Lr|Lr].
    - repeat split. exact (set_offset_drops (upd_ptls (upd_aht s a') keptsz)).
    - repeat split; sp2; [lia|apply drops_refl]. }
  destruct Hs1 as (F1 & F2 & F3 & F4 & F5 & F6 & F7 & F8 & F9).
  assert (Hlive : forall st, s_clog st = s_clog s -> s_committed st = s_committed s -> s_buf st = b' ->
                             live st = firstn (N.to_nat (n - 1)) (live s)).
  { intros st G1 G2 G3. unfold live. unfold clogC at 1. rewrite G1, G2, G3, Hl'. fold (clogC s).
    replace (N.to_nat (n - 1)) with (length (clogC s) + m)%nat by (unfold lenN in HC; lia).
    rewrite firstn_app_2, firstn_map. reflexivity. }
  assert (Hpost : forall st, Inv st -> s_txlog st = s_txlog s1 -> s_wait st = s_wait s -> s_clog st = s_clog s ->
            s_committed st = s_committed s -> s_calh st = s_calh s -> s_buf st = b' -> s_inmem st = n - 1 ->
            s_aht st = a' -> discard_post s st n).
  { intros st G0 G1 G2 G3 G4 G5 G6 G7 G8. split; [exact G0|]. split.
    - exists keptsz. split; [rewrite G1; exact F7|]. eapply (chain_prefix H); exact Htight.
    - split; [exact G2|]. split; [exact G3|]. split; [exact G4|]. split; [exact G5|]. right.
      exists (N.to_nat (n - 1)). split; [lia|]. split; [lia|]. split; [reflexivity|].
      split; [apply Hlive; auto|]. split; [exact G7|]. rewrite G8, Ha', Ecnt. reflexivity. }
  sp. rewrite ?F3, ?F4, ?F5.
  destruct (N.eqb_spec (n - 1) (s_committed s)) as [E1|N1].
  - cbn [fst]. apply Hpost; sp2; auto; try lia.
    apply (Inv_shrink s _ m keptsz HI); sp2; auto.
    + replace m with 0%nat by lia. cbn [firstn]. rewrite lenN_nil. lia.
    + replace m with 0%nat by lia. cbn [firstn map]. rewrite app_nil_r. rewrite ?F4. exact i_calh.
  - destruct (N.ltb_spec (s_inmem s - s_committed s - 1) cnt) as [L3|L3]; [lia|].
    rewrite (pb_read_ahead_spec b' _ Hok'), Hl'.
    replace (N.to_nat (s_inmem s - s_committed s - 1 - cnt)) with (m - 1)%nat by lia.
    assert (Hm : (m - 1 < length (pb_list (s_buf s)))%nat) by (unfold lenN in *; lia).
    destruct (nth_error (pb_list (s_buf s)) (m - 1)) as [pe|] eqn:Hn;
      [|apply nth_error_None in Hn; lia].
    rewrite nth_error_firstn' by lia. rewrite Hn.
    assert (Hid : pe_id pe = n - 1) by (rewrite (i_ids _ _ Hn); lia).
    destruct (N.eqb_spec (pe_id pe) (n - 1)) as [_|NE]; [|congruence].
    cbn [fst]. apply Hpost; sp2; auto.
    apply (Inv_shrink s _ m keptsz HI); sp2; auto.
    + unfold lenN in *. rewrite firstn_length. lia.
    + rewrite last_alh_app. replace m with (S (m - 1)) by lia.
      symmetry. apply last_alh_map_firstn. exact Hn.
Qed.

Lemma discard_inv s n : Inv s -> Inv (fst (discard s n)).
Proof. intros HI. apply (discard_full s n HI). Qed.

(* ---- the critical section of precommit ---- *)
Lemma Inv_set_offset s : Inv s -> Inv (tl_set_offset s).
Proof.
  intros []. pose proof (set_offset_drops s) as Hd.
  constructor; unfold live, clogC in *; auto; try (sp; auto; fail).
  - eapply (chain_log_drops H); [exact i_chainB|exact Hd].
  - eapply (chain_log_drops H); [exact i_chainC|exact Hd].
  - apply Forall_forall. intros w Hin. eapply drops_in in Hin; [|exact Hd].
    eapply Forall_forall in i_wf; eauto.
Qed.

Lemma Inv_write_only s w :
  Inv s -> wr_wf H w -> s_ptls s <= w_off w -> Inv (tl_append s w).
Proof.
  intros [] Hw L. constructor; unfold live, clogC in *; sp; auto.
  - apply chain_log_cons; auto.
  - apply chain_log_cons; auto.
Qed.

Lemma Inv_upd_pend s p : Inv s -> Inv (upd_pend s p).
Proof. apply Inv_ext; reflexivity. Qed.
Lemma Inv_upd_aht s a : Inv s -> Inv (upd_aht s a).
Proof. apply Inv_ext; reflexivity. Qed.

Lemma tl_keep_set_offset B s : B <= s_ptls s -> tl_keep B s (tl_set_offset s).
Proof.
  intros L off x R E. eapply tl_read_drops; [apply set_offset_drops|exact R|lia].
Qed.

Lemma tl_keep_cons B s w : B <= w_off w -> tl_keep B s (tl_append s w).
Proof. intros L off x R E. sp. apply tl_read_cons_keep; auto. lia. Qed.

(* effect of the critical section on the live chain, the AHT and the commit waiters *)
Definition fx_fail (s s4 : state) : Prop :=
  live s4 = live s /\ s_inmem s4 = s_inmem s /\
  firstn (N.to_nat (s_inmem s)) (s_aht s4) = firstn (N.to_nat (s_inmem s)) (s_aht s) /\
  s_wait s4 = s_wait s.
Definition fx_ok (s s4 : state) : Prop :=
  exists pe w,
    live s4 = live s ++ [cent pe] /\ s_inmem s4 = s_inmem s + 1 /\ s_inmem s <= lenN (s_aht s) /\
    s_aht s4 = firstn (N.to_nat (s_inmem s)) (s_aht s) ++ [pe_alh pe] /\
    tl_read (s_txlog s4) (pe_off pe) = Some w /\ r_alh (w_rec w) = pe_alh pe /\
    h_bltxid (r_hdr (w_rec w)) < s_inmem s + 1 /\
    (0 < h_bltxid (r_hdr (w_rec w)) ->
       h_blroot (r_hdr (w_rec w)) = mth H (firstn (N.to_nat (h_bltxid (r_hdr (w_rec w)))) (s_aht s))) /\
    (forall x, In x (s_wait s4) -> In x (s_wait s) \/ x = (s_inmem s + 1, pe_alh pe)).

(* what is known about a record written by the critical section started in state s *)
Definition fresh_write (s : state) (w : wr) : Prop :=
  let h := r_hdr (w_rec w) in
  h_id h = s_inmem s + 1 /\ h_prevalh h = s_ialh s /\ h_bltxid h < s_inmem s + 1 /\
  (s_inmem s <= lenN (s_aht s) -> 0 < h_bltxid h ->
   h_blroot h = mth H (firstn (N.to_nat (h_bltxid h)) (s_aht s))).

(* the critical section: the state it leaves is either an intermediate invariant state s4, or what
   mayCommit makes of s4 (unsynced store, after a successful precommit) *)
Lemma locked_cases s c : Inv s ->
  exists s4, Inv s4 /\ clog_keep s s4 /\ tl_keep (s_ptls s) s s4 /\
             (fst (locked H s c) = s4 \/ fst (locked H s c) = fst (may_commit s4)) /\
             (* every write it adds to the tx log starts at precommittedTxLogSize *)
             (forall w, In w (s_txlog s4) -> In w (s_txlog s) \/ w_off w = s_ptls s) /\
             (fx_fail s s4 \/ fx_ok s s4) /\
             (forall w, In w (s_txlog s4) -> In w (s_txlog s) \/ fresh_write s w).
Proof.
  intros HI. unfold locked.
  assert (K0 : clog_keep s s /\ tl_keep (s_ptls s) s s).
  { pose proof HI as []. split; [apply clog_keep_refl; auto|apply tl_keep_refl]. }
  assert (N0 : forall w, In w (s_txlog s) -> In w (s_txlog s) \/ w_off w = s_ptls s) by (intros; left; auto).
  assert (F0 : fx_fail s s \/ fx_ok s s) by (left; repeat split).
  assert (M0 : forall w, In w (s_txlog s) -> In w (s_txlog s) \/ fresh_write s w) by (intros; left; auto).
  destruct (find_pend s c) as [q|]; [|exists s; tauto].
  pose proof (Inv_upd_pend s (del_pend s c) HI) as HI0.
  set (s0 := upd_pend s (del_pend s c)) in *.
  assert (K1 : clog_keep s s0 /\ tl_keep (s_ptls s) s s0).
  { split; [apply clog_keep_same; reflexivity|apply tl_keep_same; reflexivity]. }
  assert (N1 : forall w, In w (s_txlog s0) -> In w (s_txlog s) \/ w_off w = s_ptls s) by (intros; left; auto).
  assert (F1 : fx_fail s s0 \/ fx_ok s s0) by (left; repeat split).
  assert (M1 : forall w, In w (s_txlog s0) -> In w (s_txlog s) \/ fresh_write s w) by (intros; left; auto).
  destruct (match q_exp q with | Some _ => _ | None => _ end) as [[ts bltxid]|e|];
    [|exists s0; tauto|exists s0; tauto].
  destruct (match q_precond q with | Some false => true | _ => false end); [exists s0; tauto|].
  match goal with |- context [if ?b then (s0, Err EMaxActive) else _] => destruct b end; [exists s0; tauto|].
  pose proof (Inv_set_offset s0 HI0) as HI1.
  set (s1 := tl_set_offset s0) in *.
  assert (K2 : clog_keep s s1 /\ tl_keep (s_ptls s) s s1).
  { split; [apply clog_keep_same; reflexivity|].
    eapply tl_keep_trans; [apply K1|]. apply tl_keep_set_offset. apply N.le_refl. }
  assert (N2 : forall w, In w (s_txlog s1) -> In w (s_txlog s) \/ w_off w = s_ptls s).
  { intros w0 Hin. left. eapply drops_in; [apply (set_offset_drops s0)|exact Hin]. }
  assert (F2 : fx_fail s s1 \/ fx_ok s s1) by (left; repeat split).
  assert (M2 : forall w, In w (s_txlog s1) -> In w (s_txlog s) \/ fresh_write s w).
  { intros w0 Hin. left. eapply drops_in; [apply (set_offset_drops s0)|exact Hin]. }
  destruct (if 0 <? bltxid then aht_root_tolerant H (s_aht s1) bltxid else Ok zeros32) as [blroot|e|] eqn:Eroot;
    [|exists s1; tauto|exists s1; tauto].
  destruct (N.leb_spec (s_inmem s1 + 1) bltxid) as [Lb|Lb]; [exists s1; tauto|].
  match goal with |- context [alh_of H ?h] => set (hdr := h) end.
  destruct (alh_of H hdr) as [alh|e|] eqn:Ealh; [|exists s1; tauto|exists s1; tauto].
  match goal with |- context [tl_append s1 ?w0] => set (w := w0) in * end.
  assert (Hwf : wr_wf H w).
  { unfold wr_wf, w. cbn [w_rec r_hdr r_alh]. split; [exact Ealh|]. unfold hdr. cbn [h_bltxid h_id]. lia. }
  assert (Hoff : s_ptls s1 <= w_off w) by (unfold w; cbn [w_off]; lia).
  pose proof (Inv_write_only s1 w HI1 Hwf Hoff) as HI2.
  set (s2 := tl_append s1 w) in *.
  assert (K3 : clog_keep s s2 /\ tl_keep (s_ptls s) s s2).
  { split; [apply clog_keep_same; reflexivity|].
    eapply tl_keep_trans; [apply K2|]. apply tl_keep_cons. apply N.le_refl. }
  assert (N3 : forall w', In w' (s_txlog s2) -> In w' (s_txlog s) \/ w_off w' = s_ptls s).
  { intros w0 [<-|Hin]; [right; reflexivity|apply N2; exact Hin]. }
  assert (F3 : fx_fail s s2 \/ fx_ok s s2) by (left; repeat split).
  assert (Hfresh : fresh_write s w).
  { unfold fresh_write, w. cbn [w_rec r_hdr]. unfold hdr. cbn [h_id h_prevalh h_bltxid h_blroot].
    split; [reflexivity|]. split; [reflexivity|]. split; [exact Lb|].
    intros Hlen Hb. change (s_aht s1) with (s_aht s) in Eroot. change (s_inmem s1) with (s_inmem s) in Lb.
    destruct (N.ltb_spec 0 bltxid) as [_|]; [|lia].
    unfold aht_root_tolerant, aht_root_at in Eroot.
    destruct (N.eqb_spec bltxid 0); [lia|].
    destruct (N.eqb_spec (lenN (s_aht s)) 0) as [Ez|_]; [lia|].
    destruct (N.ltb_spec (lenN (s_aht s)) bltxid); [cbn in Eroot; discriminate|].
    injection Eroot as <-. reflexivity. }
  assert (M3 : forall w', In w' (s_txlog s2) -> In w' (s_txlog s) \/ fresh_write s w').
  { intros w0 [<-|Hin]; [right; exact Hfresh|apply M2; exact Hin]. }
  destruct (aht_reset (s_aht s2) (s_inmem s2)) as [a0|e|] eqn:Ear; [|exists s2; tauto|exists s2; tauto].
  assert (Ha0 : s_inmem s <= lenN (s_aht s) /\ a0 = firstn (N.to_nat (s_inmem s)) (s_aht s)).
  { unfold aht_reset in Ear. change (s_aht s2) with (s_aht s) in Ear. change (s_inmem s2) with (s_inmem s) in Ear.
    destruct (N.ltb_spec (lenN (s_aht s)) (s_inmem s)); [discriminate|]. injection Ear as <-. split; [lia|reflexivity]. }
  destruct Ha0 as [Hlen0 Ea0].
  pose proof (Inv_upd_aht s2 (a0 ++ [alh]) HI2) as HI3.
  set (s3 := upd_aht s2 (a0 ++ [alh])) in *.
  assert (K4 : clog_keep s s3 /\ tl_keep (s_ptls s) s s3).
  { split; [apply clog_keep_same; reflexivity|].
    eapply tl_keep_trans; [apply K3|]. apply tl_keep_same. reflexivity. }
  assert (N4 : forall w', In w' (s_txlog s3) -> In w' (s_txlog s) \/ w_off w' = s_ptls s) by exact N3.
  assert (F4 : fx_fail s s3 \/ fx_ok s s3).
  { left. split; [reflexivity|]. split; [reflexivity|]. split; [|reflexivity].
    change (s_aht s3) with (a0 ++ [alh]). rewrite Ea0.
    rewrite firstn_app, firstn_firstn, Nat.min_id.
    replace (N.to_nat (s_inmem s) - length (firstn (N.to_nat (s_inmem s)) (s_aht s)))%nat with 0%nat.
    - cbn [firstn]. rewrite app_nil_r. reflexivity.
    - rewrite firstn_length. unfold lenN in Hlen0. lia. }
  match goal with |- context [pb_put (s_buf s3) ?pe0] => set (pe := pe0) in * end.
  destruct (pb_put (s_buf s3) pe) as [b'|e|] eqn:Eput; [|exists s3; tauto|exists s3; tauto].
  (* the transaction is precommitted *)
  match goal with |- context [if c_synced _ then (?s4', _) else _] => set (s4 := s4') in * end.
  assert (HI4 : Inv s4).
  { pose proof HI3 as [].
    assert (E1 : s_inmem s1 = s_inmem s3) by reflexivity.
    assert (E2 : s_ptls s1 = s_ptls s3) by reflexivity.
    assert (E3 : s_ialh s1 = s_ialh s3) by reflexivity.
    assert (E4 : s_txlog s3 = w :: s_txlog s1) by reflexivity.
    assert (Hcases : pb_count (s_buf s3) < pb_size (s_buf s3) \/ pb_count (s_buf s3) = pb_size (s_buf s3)).
    { pose proof (pb_count_le _ i_buf_ok). lia. }
    destruct Hcases as [Hlt|Hfull]; [|rewrite (pb_put_full _ pe i_buf_ok Hfull) in Eput; discriminate].
    destruct (pb_put_ok _ pe i_buf_ok Hlt) as (b'' & Eb & Hok' & Hl' & Hs').
    rewrite Eput in Eb. injection Eb as <-.
    assert (HC : lenN (clogC s3) = s_committed s3) by (apply clogC_len; auto).
    assert (Hend : w_end w = s_ptls s3 + len (w_pre w) + rec_size (w_rec w)).
    { unfold w_end, w_hdr_off. unfold w at 1. cbn [w_off]. rewrite E2. reflexivity. }
    assert (Hlive : chain (s_txlog s3) 0 (H []) 0 (live s3 ++ [cent pe]) (w_end w)).
    { eapply (chain_snoc H); [exact i_chainB| | |apply N.le_refl].
      - unfold points, pe, cent. cbn [ce_off ce_size ce_alh pe_off pe_size pe_alh].
        split; [rewrite E4; apply tl_read_cons_new|]. split; [reflexivity|].
        unfold w at 1 2. cbn [w_rec r_hdr r_alh]. unfold hdr. cbn [h_id h_prevalh].
        unfold live. rewrite lenN_app, lenN_map, HC. fold (live s3).
        split. { rewrite E1. sp. lia. } split; [rewrite E3; exact i_ialh|reflexivity].
      - unfold w_hdr_off. unfold w at 1. cbn [w_off]. rewrite E2. lia. }
    constructor; unfold live, clogC in *; subst s4; sp; auto.
    - rewrite Hl', map_app, app_assoc. cbn [map]. eapply (chain_hi_weaken H); [|exact Hlive].
      rewrite Hend. apply N.le_refl.
    - eapply (chain_hi_weaken H); [|exact i_chainC]. lia.
    - rewrite Hl'. apply ids_from_snoc; auto. unfold pe. cbn [pe_id]. lia.
    - rewrite Hl', lenN_app, lenN_cons, lenN_nil. lia.
    - rewrite Hl', map_app, app_assoc. cbn [map]. rewrite last_alh_snoc. reflexivity. }
  assert (K5 : clog_keep s s4 /\ tl_keep (s_ptls s) s s4).
  { split; [apply clog_keep_same; reflexivity|].
    eapply tl_keep_trans; [apply K4|]. apply tl_keep_same. reflexivity. }
  assert (F5 : fx_fail s s4 \/ fx_ok s s4).
  { right. exists pe, w.
    assert (Hput : pb_list b' = pb_list (s_buf s) ++ [pe]).
    { pose proof HI3 as [].
      assert (Hcases : pb_count (s_buf s3) < pb_size (s_buf s3) \/ pb_count (s_buf s3) = pb_size (s_buf s3)).
      { pose proof (pb_count_le _ i_buf_ok). lia. }
      destruct Hcases as [Hlt|Hfull]; [|rewrite (pb_put_full _ pe i_buf_ok Hfull) in Eput; discriminate].
      destruct (pb_put_ok _ pe i_buf_ok Hlt) as (b'' & Eb & _ & Hl' & _).
      rewrite Eput in Eb. injection Eb as <-. exact Hl'. }
    split. { unfold live, clogC. subst s4. sp. rewrite Hput, map_app, app_assoc. reflexivity. }
    split; [reflexivity|]. split; [exact Hlen0|].
    split. { change (s_aht s4) with (a0 ++ [alh]). rewrite Ea0. reflexivity. }
    split. { subst s4. sp. unfold pe. cbn [pe_off]. apply tl_read_cons_new. }
    split; [reflexivity|].
    split. { unfold w. cbn [w_rec r_hdr]. unfold hdr. cbn [h_bltxid]. change (s_inmem s1) with (s_inmem s) in Lb. exact Lb. }
    split.
    - unfold w. cbn [w_rec r_hdr]. unfold hdr. cbn [h_bltxid h_blroot]. intros Hb.
      change (s_aht s1) with (s_aht s) in Eroot. change (s_inmem s1) with (s_inmem s) in Lb.
      destruct (N.ltb_spec 0 bltxid) as [_|]; [|lia].
      unfold aht_root_tolerant, aht_root_at in Eroot.
      destruct (N.eqb_spec bltxid 0); [lia|].
      destruct (N.eqb_spec (lenN (s_aht s)) 0) as [Ez|_]; [lia|].
      destruct (N.ltb_spec (lenN (s_aht s)) bltxid); [cbn in Eroot; discriminate|].
      injection Eroot as <-. reflexivity.
    - intros x Hin. subst s4. sp.
      match type of Hin with In _ (if ?b then _ else _) => destruct b end; [left; exact Hin|].
      destruct Hin as [<-|Hin]; [right; reflexivity|left; exact Hin]. }
  exists s4. split; [exact HI4|]. split; [apply K5|]. split; [apply K5|]. split; [|split; [exact N4|split; [exact F5|exact M3]]].
  match goal with |- context [if ?b then (s4, _) else _] => destruct b end; [left; reflexivity|].
  right. destruct (may_commit s4) as [s5 r]. destruct r; reflexivity.
Qed.

Lemma locked_inv s c : Inv s -> Inv (fst (locked H s c)).
Proof.
  intros HI. destruct (locked_cases s c HI) as (s4 & HI4 & _ & _ & [-> | ->] & _ & _ & _); auto.
  apply may_commit_inv. exact HI4.
Qed.

(* ---- Close + OpenWith ---- *)
Lemma pb_put_grow b pe : pb_ok b ->
  exists b', match pb_put b pe with
             | Err _ => pb_put (pb_grow b (2 * pb_size b)) pe
             | x => x end = Ok b' /\ pb_ok b' /\ pb_list b' = pb_list b ++ [pe].
Proof.
  intros Hok. pose proof (pb_count_le _ Hok) as Hle.
  assert (Hcases : pb_count b < pb_size b \/ pb_count b = pb_size b) by lia.
  destruct Hcases as [Hlt|Hfull].
  - destruct (pb_put_ok _ pe Hok Hlt) as (b' & Eb & Hok' & Hl' & _). rewrite Eb. eauto.
  - rewrite (pb_put_full _ pe Hok Hfull).
    destruct Hok as (Hs & Hr).
    destruct (pb_grow_spec b (2 * pb_size b) (conj Hs Hr) ltac:(lia)) as (Hok2 & Hl2 & Hs2).
    assert (Hlt : pb_count (pb_grow b (2 * pb_size b)) < pb_size (pb_grow b (2 * pb_size b))).
    { rewrite <- (pb_list_length (pb_grow b (2 * pb_size b))), Hl2, pb_list_length, Hs2. lia. }
    destruct (pb_put_ok _ pe Hok2 Hlt) as (b' & Eb & Hok' & Hl' & _). rewrite Eb, Hl2 in *. eauto.
Qed.

Lemma reload_spec log C : forall fuel b id alh pos,
  pb_ok b ->
  chain log 0 (H []) 0 (C ++ map cent (pb_list b)) pos ->
  id = lenN C + lenN (pb_list b) ->
  alh = last_alh (H []) (C ++ map cent (pb_list b)) ->
  ids_from (lenN C) (pb_list b) ->
  forall b' id' alh' pos', reload H fuel log b id alh pos = Ok (b', id', alh', pos') ->
  pb_ok b' /\ chain log 0 (H []) 0 (C ++ map cent (pb_list b')) pos' /\
  id' = lenN C + lenN (pb_list b') /\ alh' = last_alh (H []) (C ++ map cent (pb_list b')) /\
  ids_from (lenN C) (pb_list b').
Proof.
  induction fuel as [|f IH]; intros b id alh pos Hok Hch Hid Halh Hids b' id' alh' pos'; cbn [reload].
  - intros [= <- <- <- <-]. auto.
  - destruct (tl_start log pos) as [w|] eqn:R0; [|intros [= <- <- <- <-]; auto].
    destruct (tl_start_read _ _ _ R0) as [Eoff R].
    destruct ((0 <? len (w_pre w)) && (2 ^ 16 <=? len (w_pre w) - st_sszSize)); [intros [= <- <- <- <-]; auto|].
    destruct (alh_of H (r_hdr (w_rec w))) as [a|e|] eqn:Ea; [|intros [= <- <- <- <-]; auto|intros [= <- <- <- <-]; auto].
    destruct (list_eq_dec_b a (r_alh (w_rec w))) eqn:E1; cbn [negb]; [|intros [= <- <- <- <-]; auto].
    apply list_eq_dec_b_true in E1.
    destruct (N.eqb_spec (h_id (r_hdr (w_rec w))) (id + 1)) as [E2|N2]; cbn [negb orb];
      [|intros [= <- <- <- <-]; auto].
    destruct (list_eq_dec_b (h_prevalh (r_hdr (w_rec w))) alh) eqn:E3; cbn [negb];
      [|intros [= <- <- <- <-]; auto].
    apply list_eq_dec_b_true in E3.
    set (pe := {| pe_id := id + 1; pe_alh := a; pe_off := w_hdr_off w; pe_size := rec_size (w_rec w) |}).
    destruct (pb_put_grow b pe Hok) as (b1 & Eb & Hok1 & Hl1).
    rewrite Eb. cbn [bind].
    apply IH; auto.
    + rewrite Hl1, map_app, app_assoc. cbn [map].
      eapply (chain_snoc H log _ 0 (H []) 0 pos (cent pe) w); [exact Hch| | |apply N.le_refl].
      * unfold points, cent, pe. cbn [ce_off ce_size ce_alh pe_off pe_size pe_alh].
        split; [exact R|]. split; [reflexivity|].
        rewrite lenN_app, lenN_map. split; [lia|]. split; [rewrite E3; exact Halh|symmetry; exact E1].
      * pose proof (w_off_le_hdr w). lia.
    + rewrite Hl1, lenN_app, lenN_cons, lenN_nil. lia.
    + rewrite Hl1, map_app, app_assoc. cbn [map]. rewrite last_alh_snoc. reflexivity.
    + rewrite Hl1. apply ids_from_snoc; auto. unfold pe. cbn [pe_id]. lia.
Qed.

Lemma last_alh_last p es ce :
  nth_error es (length es - 1) = Some ce -> last_alh p es = ce_alh ce.
Proof.
  intros Hn. destruct es as [|e es] using rev_ind; [destruct (0 - 1)%nat; discriminate|].
  rewrite last_alh_snoc. rewrite app_length in Hn. cbn [length] in Hn.
  replace (length es + 1 - 1)%nat with (length es) in Hn by lia.
  rewrite nth_error_app2, Nat.sub_diag in Hn by lia. injection Hn as ->. reflexivity.
Qed.

Lemma reopen_state_inv s calh ctls b pid palh ptls : Inv s ->
  reopen_r0 H s = Ok (calh, ctls) ->
  reload H (S (length (s_txlog s))) (s_txlog s) (pb_new (c_maxactive (s_cfg s))) (lenN (s_clog s)) calh ctls
    = Ok (b, pid, palh, ptls) ->
  Inv (reopen_state s calh b pid palh ptls).
Proof.
  intros HI E0 ER. unfold reopen_r0 in E0.
  pose proof HI as [].
  (* the commit log, now entirely committed, is a chain that ends exactly at ctls, and calh is its last alh *)
  assert (Hstart : chain (s_txlog s) 0 (H []) 0 (s_clog s ++ map cent (pb_list (pb_new (c_maxactive (s_cfg s))))) ctls /\
                   calh = last_alh (H []) (s_clog s)).
  { destruct (pb_new_spec _ i_maxactive) as (_ & Hl & _). rewrite Hl. cbn [map]. rewrite app_nil_r.
    destruct (N.eqb_spec (lenN (s_clog s)) 0) as [Ez|Nz].
    - injection E0 as <- <-. destruct (s_clog s) as [|e l]; [|rewrite lenN_cons in Ez; lia].
      cbn [chain last_alh fold_left]. split; [lia|reflexivity].
    - destruct (nth_error (s_clog s) (N.to_nat (lenN (s_clog s) - 1))) as [ce|] eqn:Hn; [|discriminate].
      destruct (tl_read (s_txlog s) (ce_off ce)) as [w|] eqn:R; [|discriminate].
      destruct (negb (rec_size (w_rec w) =? ce_size ce)) eqn:Es; [discriminate|].
      apply negb_false_iff, N.eqb_eq in Es.
      destruct (alh_of H (r_hdr (w_rec w))) as [a|e|]; cbn [bind] in E0; [|discriminate|discriminate].
      destruct (negb (list_eq_dec_b a (r_alh (w_rec w)))); [discriminate|].
      destruct (negb (list_eq_dec_b a (ce_alh ce))); [discriminate|].
      injection E0 as <- <-.
      assert (Hsplit : exists es, s_clog s = es ++ [ce]).
      { assert (Hlen : (length (s_clog s) > 0)%nat) by (unfold lenN in Nz; lia).
        destruct (s_clog s) as [|e0 l] using rev_ind; [cbn in Hlen; lia|].
        exists l. f_equal. unfold lenN in Hn. rewrite app_length in Hn. cbn [length] in Hn.
        replace (N.to_nat (N.of_nat (length l + 1) - 1)) with (length l) in Hn by lia.
        rewrite nth_error_app2, Nat.sub_diag in Hn by lia. injection Hn as ->. reflexivity. }
      destruct Hsplit as (es & Ees). rewrite Ees in *.
      destruct (chain_end_exact H _ _ _ _ _ _ _ i_chainC) as (w' & (R' & Es' & _) & _ & Hex).
      rewrite R in R'. injection R' as <-.
      split.
      + apply tl_read_some in R. destruct R as [R _]. unfold w_end in Hex. rewrite R, Es in Hex. exact Hex.
      + rewrite last_alh_snoc. reflexivity. }
  destruct Hstart as [Hch0 Hcalh].
  destruct (pb_new_spec _ i_maxactive) as (Hok0 & Hl0 & _).
  assert (A1 : lenN (s_clog s) = lenN (s_clog s) + lenN (pb_list (pb_new (c_maxactive (s_cfg s))))).
  { rewrite Hl0, lenN_nil. lia. }
  assert (A2 : calh = last_alh (H []) (s_clog s ++ map cent (pb_list (pb_new (c_maxactive (s_cfg s)))))).
  { rewrite Hl0. cbn [map]. rewrite app_nil_r. exact Hcalh. }
  assert (A3 : ids_from (lenN (s_clog s)) (pb_list (pb_new (c_maxactive (s_cfg s))))).
  { rewrite Hl0. intros k pe Hk. destruct k; discriminate. }
  destruct (reload_spec (s_txlog s) (s_clog s) _ _ _ _ _ Hok0 Hch0 A1 A2 A3 _ _ _ _ ER)
    as (Hokb & Hchb & Hpid & Hpalh & Hidsb).
  assert (Hfull : firstn (N.to_nat (lenN (s_clog s))) (s_clog s) = s_clog s).
  { apply firstn_all2. unfold lenN. lia. }
  constructor; unfold live, clogC, reopen_state; sp; rewrite ?Hfull; auto.
  - lia.
  - eapply (chain_prefix H); eauto.
Qed.

Lemma reopen_inv s : Inv s -> Inv (fst (reopen H s)).
Proof.
  intros HI. unfold reopen.
  destruct (reopen_r0 H s) as [[calh ctls]|e|] eqn:E0; [|exact HI|exact HI].
  destruct (reload H _ _ _ _ _ _) as [[[[b pid] palh] ptls]|e|] eqn:ER; [|exact HI|exact HI].
  pose proof (reopen_state_inv s _ _ _ _ _ _ HI E0 ER) as HI1.
  match goal with |- context [lenN ?a1' =? pid] => set (a1 := a1') in * end.
  destruct (lenN a1 =? pid); [apply Inv_upd_aht; exact HI1|].
  destruct (relink H _ _ _ _ _) as [a|e|]; [apply Inv_upd_aht; exact HI1|exact HI|exact HI].
Qed.

End Steps.
