(* The commit pipeline of embedded/store/immustore.go as a state machine at the granularity of its
   critical sections (model for property C02). No proofs in this file.

   State = what the Go code keeps: the tx log as the list of writes performed at explicit offsets
   (newest first; a read at an offset returns the record whose header starts THERE provided no later
   write overlaps it), the commit log entries (txOff, txSize, alh), the value log, the AHT as the
   list of appended Alh values (its hashing is property C08), committedTxID/Alh,
   inmemPrecommittedTxID/Alh, precommittedTxLogSize, the cLogBuf ring (Hist/Ring.v), the external
   commit allowance, the high-water mark of inmemPrecommitWHub, and the transactions that are
   between their value write and the commit lock.

   Steps = the atomic sections: OBegin (precommit() up to s.mutex.Lock: validations, value-log
   append, entry digests, checks against an expected header), OLocked (the critical section of
   precommit() incl. performPrecommit and, when not synced, mayCommit), OSync (sync()), OAllow
   (AllowCommitUpto), ODiscard (DiscardPrecommittedTxsSince), OSetExt
   (SetExternalCommitAllowance), OReopen (Close + OpenWith). Concurrency = any interleaving of
   these steps from any number of clients c (atomicity of each = the s.mutex /
   commitStateRWMutex discipline, trusted).

   The hash is a section variable (abstract in the theorems, SHA-256 when the model is run). *)
From V Require Export Base.Bytes Store.Codec Merkle.Ref Hist.Ring.

(* error classes (never compared by the tie; only Ok / Err is) *)
Definition ECancelled : N := 30.
Definition ENoEntries : N := 31.
Definition EMaxEntries : N := 32.
Definition EKeyLen : N := 33.
Definition EDupKey : N := 34.
Definition EEhDiffers : N := 36.
Definition EAlreadyCommitted : N := 37.
Definition EMaxActive : N := 38.
Definition EWouldBlock : N := 39.
Definition EBlRoot : N := 40.
Definition EWrongOrder : N := 41.
Definition EPrevAlh : N := 42.
Definition EPrecond : N := 43.
Definition ELinking : N := 44.
Definition EAht : N := 45.
Definition EEmptyTree : N := 46.
Definition EFuse : N := 47.
Definition EIllegalState : N := 48.
Definition ENoPending : N := 49.
Definition ECorruptedTx : N := 50.
Definition ENotFound : N := 51.
Definition ESetOffset : N := 52.
Definition EPoolExhausted : N := 53.

(* ---- configuration (store options) ---- *)
Record cfg := {
  c_synced : bool;          (* Options.Synced *)
  c_embedded : bool;        (* Options.EmbeddedValues *)
  c_version : N;            (* Options.WriteTxHeaderVersion *)
  c_maxactive : N;          (* Options.MaxActiveTransactions (> 0) *)
  c_maxentries : N;         (* Options.MaxTxEntries *)
  c_maxkey : N;
  c_maxval : N;
  c_ext0 : bool;            (* Options.UseExternalCommitAllowance *)
  c_maxconc : N;            (* Options.MaxConcurrency: size of the pool of tx holders *)
  c_prealloc : bool         (* Options.PreallocFiles: a preallocated file is never truncated *)
}.

(* ---- transactions as submitted ---- *)
Record espec := { k_key : bytes; k_md : bytes (* KVMetadata.Bytes() *); k_val : bytes }.
Record txspec := {
  p_entries : list espec;
  p_md : option txmd;
  p_ts : N;                     (* what timeFunc() returns at commit time *)
  p_precond : option bool;      (* None: no preconditions; Some b: they evaluate to b (the index is not part of this model) *)
  p_cancel : bool               (* the context is already cancelled when Commit is called *)
}.

(* ---- what is stored ---- *)
Record entry := { e_md : bytes; e_key : bytes; e_vlen : N; e_voff : N; e_hval : bytes }.
Record rec := { r_hdr : txhdr; r_entries : list entry; r_alh : bytes }.
(* one txLog write of performPrecommit: [embedded values prefix][tx record] at w_off *)
Record wr := { w_off : N; w_pre : bytes; w_rec : rec }.
Record centry := { ce_off : N; ce_size : N; ce_alh : bytes }.

Definition lenN {A} (l : list A) : N := N.of_nat (length l).
Definition zeros32 : bytes := repeat 0 32.

Definition entry_size (e : entry) : N :=
  st_sszSize + len (e_md e) + st_sszSize + len (e_key e) + st_lszSize + st_offsetSize + hsize.
Definition hdr_size (h : txhdr) : N :=
  st_txIDSize + st_tsSize + st_txIDSize + hsize + hsize + st_sszSize +
  (if h_version h =? 0 then st_sszSize else st_sszSize + len (opt_md_bytes (h_md h)) + st_lszSize).
Definition sumN (l : list N) : N := fold_right N.add 0 l.
Definition rec_size (r : rec) : N := hdr_size (r_hdr r) + sumN (map entry_size (r_entries r)) + hsize.

Definition w_hdr_off (w : wr) : N := w_off w + len (w_pre w).
Definition w_end (w : wr) : N := w_hdr_off w + rec_size (w_rec w).
Definition w_disjoint (a b : wr) : bool := (w_end a <=? w_off b) || (w_end b <=? w_off a).

(* what a reader positioned at `off` finds: the record whose header starts there, unless a later
   write overlaps it (then the bytes are a mix that does not parse as a transaction whose Alh
   verifies: stated in the trusted base) *)
Fixpoint tl_read (log : list wr) (off : N) : option wr :=
  match log with
  | [] => None
  | w :: rest =>
      if w_hdr_off w =? off then Some w
      else match tl_read rest off with
           | Some x => if w_disjoint w x then Some x else None
           | None => None
           end
  end.

(* what OpenWith's scan of the pre-committed backlog finds at `pos`: the write that STARTS there (with
   embedded values: 2-byte length, the values, then the record), unless a later write overlaps it *)
Fixpoint tl_start (log : list wr) (pos : N) : option wr :=
  match log with
  | [] => None
  | w :: rest =>
      if w_off w =? pos then Some w
      else match tl_start rest pos with
           | Some x => if w_disjoint w x then Some x else None
           | None => None
           end
  end.

(* n bytes at off inside the embedded-values prefix of a write *)
Definition in_prefix (w : wr) (off n : N) : bool := (w_off w <=? off) && (off + n <=? w_hdr_off w).
Definition range_disjoint (w : wr) (off n : N) : bool := (w_end w <=? off) || (off + n <=? w_off w).
Fixpoint tl_val (log : list wr) (off n : N) : option bytes :=
  match log with
  | [] => None
  | w :: rest =>
      if in_prefix w off n then Some (take n (drop (off - w_off w) (w_pre w)))
      else match tl_val rest off n with
           | Some b => if range_disjoint w off n then Some b else None
           | None => None
           end
  end.

(* value log: append-only list of (offset, bytes), newest first *)
Fixpoint vl_val (vlog : list (N * bytes)) (off n : N) : option bytes :=
  match vlog with
  | [] => None
  | (o, b) :: rest => if (o =? off) && (len b =? n) then Some b else vl_val rest off n
  end.

(* encodeOffset / decodeOffset with vLogID = 1 (MaxIOConcurrency = 1) *)
Definition enc_voff (off : N) : N := 2 ^ 56 + off.
Definition dec_voff (v : N) : N * N := (v / 2 ^ 56, v mod 2 ^ 55).

(* a transaction between its value write and the commit lock *)
Record prepared := {
  q_version : N; q_md : option txmd; q_entries : list entry; q_vals : list bytes;
  q_eh : bytes; q_ts : N; q_precond : option bool; q_exp : option txhdr }.

Record state := {
  s_cfg : cfg;
  s_txlog : list wr;
  s_clog : list centry;            (* oldest first: entry k-1 locates tx k *)
  s_vlog : list (N * bytes);
  s_vsize : N;
  s_aht : list bytes;              (* AHT leaves = appended Alh values, oldest first *)
  s_committed : N; s_calh : bytes;
  s_inmem : N; s_ialh : bytes;
  s_ptls : N;                      (* precommittedTxLogSize *)
  s_tlnf : N;                      (* txLog: how many of the newest writes are still in the write buffer
                                      (not flushed yet: Flush happens in sync() and Close). Only matters for
                                      preallocated files, which a rewind does not truncate: there a SetOffset
                                      drops the buffered writes at or beyond it, what has reached the file stays *)
  s_buf : pbuf;                    (* cLogBuf *)
  s_ext : bool; s_allowed : N;     (* useExternalCommitAllowance, commitAllowedUpToTxID *)
  s_whub : N;                      (* inmemPrecommitWHub.doneUpto *)
  s_pend : list (N * prepared);
  (* commit calls waiting in commitWHub.WaitFor(hdr.ID): (id, Alh of the header they will return).
     They are woken by commitWHub.DoneUpto(id), i.e. by the id alone *)
  s_wait : list (N * bytes)
}.

Section Machine.
Variable H : bytes -> bytes.

(* ---- hashing of a transaction (tx.go) ---- *)
Definition entry_digest (ver : N) (e : entry) : res bytes :=
  if ver =? 0 then
    if 0 <? len (e_md e) then Err EMetadataUnsupported else Ok (H (e_key e ++ e_hval e))
  else if ver =? 1 then
    Ok (H (be_enc w_ssz (len (e_md e)) ++ e_md e ++ be_enc w_ssz (len (e_key e)) ++ e_key e ++ e_hval e))
  else Err ECorruptedTx.

Fixpoint digests (ver : N) (es : list entry) : res (list bytes) :=
  match es with
  | [] => Ok []
  | e :: r => do d <- entry_digest ver e; do ds <- digests ver r; Ok (d :: ds)
  end.

(* htree.BuildWith + Root (equal to the reference tree: property C08) *)
Definition build_eh (ver : N) (es : list entry) : res bytes :=
  do ds <- digests ver es;
  Ok (match ds with [] => H [] | _ => mth H ds end).

Definition inner_hash (h : txhdr) : res bytes :=
  let post := h_eh h ++ be_enc w_txid (h_bltxid h) ++ h_blroot h in
  if h_version h =? 0 then
    Ok (H (be_enc w_ts (h_ts h) ++ be_enc w_ssz (h_version h) ++ be_enc w_ssz (h_nentries h) ++ post))
  else if h_version h =? 1 then
    let mdbs := opt_md_bytes (h_md h) in
    Ok (H (be_enc w_ts (h_ts h) ++ be_enc w_ssz (h_version h) ++ be_enc w_ssz (len mdbs) ++ mdbs ++
           be_enc w_lsz (h_nentries h) ++ post))
  else Panic.

Definition alh_of (h : txhdr) : res bytes :=
  do ih <- inner_hash h;
  Ok (H (be_enc w_txid (h_id h) ++ h_prevalh h ++ ih)).

(* ---- AHT (ahtree.go: ResetSize, RootAt, Append) ---- *)
Definition aht_reset (aht : list bytes) (n : N) : res (list bytes) :=
  if lenN aht <? n then Err EAht else Ok (firstn (N.to_nat n) aht).
Definition aht_root_at (aht : list bytes) (n : N) : res bytes :=
  if n =? 0 then Err EIllegalArg
  else if lenN aht =? 0 then Err EEmptyTree
  else if lenN aht <? n then Err EAht
  else Ok (mth H (firstn (N.to_nat n) aht)).
(* the `err != nil && !errors.Is(err, ahtree.ErrEmptyTree)` pattern: an empty tree gives the zero root *)
Definition aht_root_tolerant (aht : list bytes) (n : N) : res bytes :=
  match aht_root_at aht n with
  | Ok r => Ok r
  | Err e => if e =? EEmptyTree then Ok zeros32 else Err e
  | Panic => Panic
  end.

(* ---- initial state: store.Open on an empty directory ---- *)
Definition init (c : cfg) : state :=
  {| s_cfg := c; s_txlog := []; s_clog := []; s_vlog := []; s_vsize := 0; s_aht := [];
     s_committed := 0; s_calh := H []; s_inmem := 0; s_ialh := H []; s_ptls := 0; s_tlnf := 0;
     s_buf := pb_new (c_maxactive c); s_ext := c_ext0 c; s_allowed := 0; s_whub := 0; s_pend := []; s_wait := [] |}.

Definition upd_pend (s : state) (p : list (N * prepared)) : state :=
  {| s_cfg := s_cfg s; s_txlog := s_txlog s; s_clog := s_clog s; s_vlog := s_vlog s; s_vsize := s_vsize s;
     s_aht := s_aht s; s_committed := s_committed s; s_calh := s_calh s; s_inmem := s_inmem s;
     s_ialh := s_ialh s; s_ptls := s_ptls s; s_tlnf := s_tlnf s; s_buf := s_buf s; s_ext := s_ext s; s_allowed := s_allowed s;
     s_whub := s_whub s; s_pend := p; s_wait := s_wait s |}.
Definition upd_vlog (s : state) (v : list (N * bytes)) (sz : N) : state :=
  {| s_cfg := s_cfg s; s_txlog := s_txlog s; s_clog := s_clog s; s_vlog := v; s_vsize := sz;
     s_aht := s_aht s; s_committed := s_committed s; s_calh := s_calh s; s_inmem := s_inmem s;
     s_ialh := s_ialh s; s_ptls := s_ptls s; s_tlnf := s_tlnf s; s_buf := s_buf s; s_ext := s_ext s; s_allowed := s_allowed s;
     s_whub := s_whub s; s_pend := s_pend s; s_wait := s_wait s |}.
Definition upd_aht (s : state) (a : list bytes) : state :=
  {| s_cfg := s_cfg s; s_txlog := s_txlog s; s_clog := s_clog s; s_vlog := s_vlog s; s_vsize := s_vsize s;
     s_aht := a; s_committed := s_committed s; s_calh := s_calh s; s_inmem := s_inmem s;
     s_ialh := s_ialh s; s_ptls := s_ptls s; s_tlnf := s_tlnf s; s_buf := s_buf s; s_ext := s_ext s; s_allowed := s_allowed s;
     s_whub := s_whub s; s_pend := s_pend s; s_wait := s_wait s |}.
Definition upd_txlog (s : state) (t : list wr) : state :=
  {| s_cfg := s_cfg s; s_txlog := t; s_clog := s_clog s; s_vlog := s_vlog s; s_vsize := s_vsize s;
     s_aht := s_aht s; s_committed := s_committed s; s_calh := s_calh s; s_inmem := s_inmem s;
     s_ialh := s_ialh s; s_ptls := s_ptls s; s_tlnf := s_tlnf s; s_buf := s_buf s; s_ext := s_ext s; s_allowed := s_allowed s;
     s_whub := s_whub s; s_pend := s_pend s; s_wait := s_wait s |}.
Definition upd_clog (s : state) (c : list centry) : state :=
  {| s_cfg := s_cfg s; s_txlog := s_txlog s; s_clog := c; s_vlog := s_vlog s; s_vsize := s_vsize s;
     s_aht := s_aht s; s_committed := s_committed s; s_calh := s_calh s; s_inmem := s_inmem s;
     s_ialh := s_ialh s; s_ptls := s_ptls s; s_tlnf := s_tlnf s; s_buf := s_buf s; s_ext := s_ext s; s_allowed := s_allowed s;
     s_whub := s_whub s; s_pend := s_pend s; s_wait := s_wait s |}.
Definition upd_buf (s : state) (b : pbuf) : state :=
  {| s_cfg := s_cfg s; s_txlog := s_txlog s; s_clog := s_clog s; s_vlog := s_vlog s; s_vsize := s_vsize s;
     s_aht := s_aht s; s_committed := s_committed s; s_calh := s_calh s; s_inmem := s_inmem s;
     s_ialh := s_ialh s; s_ptls := s_ptls s; s_tlnf := s_tlnf s; s_buf := b; s_ext := s_ext s; s_allowed := s_allowed s;
     s_whub := s_whub s; s_pend := s_pend s; s_wait := s_wait s |}.
Definition upd_committed (s : state) (id : N) (alh : bytes) : state :=
  {| s_cfg := s_cfg s; s_txlog := s_txlog s; s_clog := s_clog s; s_vlog := s_vlog s; s_vsize := s_vsize s;
     s_aht := s_aht s; s_committed := id; s_calh := alh; s_inmem := s_inmem s;
     s_ialh := s_ialh s; s_ptls := s_ptls s; s_tlnf := s_tlnf s; s_buf := s_buf s; s_ext := s_ext s; s_allowed := s_allowed s;
     s_whub := s_whub s; s_pend := s_pend s; s_wait := s_wait s |}.
Definition upd_inmem (s : state) (id : N) (alh : bytes) : state :=
  {| s_cfg := s_cfg s; s_txlog := s_txlog s; s_clog := s_clog s; s_vlog := s_vlog s; s_vsize := s_vsize s;
     s_aht := s_aht s; s_committed := s_committed s; s_calh := s_calh s; s_inmem := id;
     s_ialh := alh; s_ptls := s_ptls s; s_tlnf := s_tlnf s; s_buf := s_buf s; s_ext := s_ext s; s_allowed := s_allowed s;
     s_whub := s_whub s; s_pend := s_pend s; s_wait := s_wait s |}.
Definition upd_allow (s : state) (ext : bool) (allowed : N) : state :=
  {| s_cfg := s_cfg s; s_txlog := s_txlog s; s_clog := s_clog s; s_vlog := s_vlog s; s_vsize := s_vsize s;
     s_aht := s_aht s; s_committed := s_committed s; s_calh := s_calh s; s_inmem := s_inmem s;
     s_ialh := s_ialh s; s_ptls := s_ptls s; s_tlnf := s_tlnf s; s_buf := s_buf s; s_ext := ext; s_allowed := allowed;
     s_whub := s_whub s; s_pend := s_pend s; s_wait := s_wait s |}.

(* ---- reads ------------------------------------------------------------------------------ *)
(* txOffsetAndSize: commit-log entry of tx k *)
Definition clog_entry (s : state) (k : N) : option centry :=
  if k =? 0 then None else nth_error (s_clog s) (N.to_nat (k - 1)).

(* appendableReaderForTx + Tx.readFrom: the record located by (offset, size) *)
Definition read_at (s : state) (off size : N) : res rec :=
  match tl_read (s_txlog s) off with
  | Some w => if rec_size (w_rec w) =? size then Ok (w_rec w) else Err ECorruptedTx
  | None => Err ECorruptedTx
  end.

(* ReadTx(k) (allowPrecommitted = false) *)
(* checkTxID: the record found where the commit log locates tx k must carry id k *)
Definition check_id (k : N) (r : res rec) : res rec :=
  do x <- r; if h_id (r_hdr x) =? k then Ok x else Err ECorruptedTx.

Definition read_tx (s : state) (k : N) : res rec :=
  if (k =? 0) || (s_inmem s <? k) || (s_committed s <? k) then Err ENotFound else
  match clog_entry s k with
  | Some ce => check_id k (read_at s (ce_off ce) (ce_size ce))
  | None => Err ENotFound
  end.

(* readTx(k, allowPrecommitted = true): commit log for committed ids, cLogBuf beyond *)
Definition read_tx_pre (s : state) (k : N) : res rec :=
  if (k =? 0) || (s_inmem s <? k) then Err ENotFound else
  if k <=? s_committed s then
    match clog_entry s k with
    | Some ce => check_id k (read_at s (ce_off ce) (ce_size ce))
    | None => Err ENotFound
    end
  else
    do pe <- pb_read_ahead (s_buf s) (k - s_committed s - 1);
    check_id k (read_at s (pe_off pe) (pe_size pe)).

(* ReadValue(entry) *)
Definition read_value (s : state) (e : entry) : res bytes :=
  if e_vlen e =? 0 then Ok [] else
  let '(vid, off) := dec_voff (e_voff e) in
  if c_embedded (s_cfg s) then
    if 0 <? vid then Err EIllegalState else
    match tl_val (s_txlog s) off (e_vlen e) with Some b => Ok b | None => Err ECorruptedTx end
  else
    if vid =? 0 then Err ENotFound else
    match vl_val (s_vlog s) off (e_vlen e) with Some b => Ok b | None => Err ECorruptedTx end.

(* CommittedAlh() *)
Definition committed_state (s : state) : N * bytes := (s_committed s, s_calh s).

(* the commit calls that have returned success (their header: id, Alh) *)
Definition acked (s : state) : list (N * bytes) := filter (fun w => fst w <=? s_committed s) (s_wait s).

Fixpoint mapM {A B} (f : A -> res B) (l : list A) : res (list B) :=
  match l with
  | [] => Ok []
  | x :: r => do y <- f x; do ys <- mapM f r; Ok (y :: ys)
  end.

(* the whole committed history as a reader gets it: records and values of ids 1..committedTxID *)
Definition ids_upto (n : N) : list N := map (fun i => N.of_nat i + 1) (seq 0 (N.to_nat n)).
Definition read_full (s : state) (k : N) : res (rec * list bytes) :=
  do r <- read_tx s k; do vs <- mapM (read_value s) (r_entries r); Ok (r, vs).
Definition history (s : state) : list (res (rec * list bytes)) := map (read_full s) (ids_upto (s_committed s)).

(* ---- precommit(), first part: up to s.mutex.Lock() ------------------------------------ *)
Fixpoint list_eq_dec_b (a b : bytes) : bool :=
  match a, b with
  | [], [] => true
  | x :: a', y :: b' => (x =? y) && list_eq_dec_b a' b'
  | _, _ => false
  end.
Fixpoint has_dup (ks : list bytes) : bool :=
  match ks with
  | [] => false
  | k :: r => existsb (fun k' => list_eq_dec_b k k') r || has_dup r
  end.

Definition md_empty_or_extra_only (m : option txmd) : bool :=
  match m with
  | None => true
  | Some m => match md_trunc m with None => true | Some _ => false end
  end.

Definition validate_entries (c : cfg) (es : list espec) : res unit :=
  if c_maxentries c <? lenN es then Err EMaxEntries else
  (* OngoingTx.set refuses empty keys (ErrNullKey), long keys and long values *)
  if existsb (fun e => (len (k_key e) =? 0) || (c_maxkey c <? len (k_key e)) || (c_maxval c <? len (k_val e))) es then Err EKeyLen else
  if has_dup (map k_key es) then Err EDupKey else Ok tt.

(* appendValuesInto on the single value log: offsets of the non-empty values, 0 for empty ones *)
Fixpoint vlog_append (vlog : list (N * bytes)) (sz : N) (vals : list bytes)
  : list (N * bytes) * N * list N :=
  match vals with
  | [] => (vlog, sz, [])
  | v :: r =>
      if len v =? 0 then
        let '(vl, sz', offs) := vlog_append vlog sz r in (vl, sz', 0 :: offs)
      else
        let '(vl, sz', offs) := vlog_append ((sz, v) :: vlog) (sz + len v) r in (vl, sz', sz :: offs)
  end.

Definition mk_entry (e : espec) (voff : N) : entry :=
  {| e_md := k_md e; e_key := k_key e; e_vlen := len (k_val e); e_voff := voff; e_hval := H (k_val e) |}.

Definition find_pend (s : state) (c : N) : option prepared :=
  match find (fun p => fst p =? c) (s_pend s) with Some p => Some (snd p) | None => None end.
Definition del_pend (s : state) (c : N) : list (N * prepared) :=
  filter (fun p => negb (fst p =? c)) (s_pend s).

Definition out := res (N * bytes).     (* Ok (tx id, alh) of the header returned / (count, []) / (0, []) *)
Definition ok0 : out := Ok (0, []).

Definition begin (s : state) (c : N) (p : txspec) (exp : option txhdr) (skipic : bool) : state * out :=
  let cf := s_cfg s in
  if p_cancel p then (s, Err ECancelled) else
  (* TxHeader.ReadFrom of the exported header *)
  if match exp with Some h => (h_id h <? 1) || (h_id h <=? h_bltxid h) || (1 <? h_version h) | None => false end
  then (s, Err EIllegalArg) else
  (* ReplicateTx: txSpec.metadata = hdr.Metadata; validateAgainst: number of entries *)
  let md := match exp with Some h => h_md h | None => p_md p end in
  if match exp with Some h => negb (lenN (p_entries p) =? h_nentries h) | None => false end
  then (s, Err EIllegalArg) else
  if (lenN (p_entries p) =? 0) && md_empty_or_extra_only md then (s, Err ENoEntries) else
  match validate_entries cf (p_entries p) with
  | Err e => (s, Err e) | Panic => (s, Panic)
  | Ok _ =>
    (* fetchAllocTx: a tx holder from the pool (one per precommit in flight) *)
    if c_maxconc cf <=? lenN (del_pend s c) then (s, Err EPoolExhausted) else
    let ver := match exp with Some h => h_version h | None => c_version cf end in
    (* the value write runs concurrently with the digests; both are awaited before any return *)
    let vals := map k_val (p_entries p) in
    let '(s1, offs) :=
      if c_embedded cf then (s, map (fun _ => 0) vals)
      else let '(vl, sz, offs) := vlog_append (s_vlog s) (s_vsize s) vals in
           (upd_vlog s vl sz, map (fun o => enc_voff o) offs) in
    let es := map (fun eo => mk_entry (fst eo) (snd eo)) (combine (p_entries p) offs) in
    match build_eh ver es with
    | Err e => (s1, Err e) | Panic => (s1, Panic)
    | Ok eh =>
      let chk : res unit :=
        match exp with
        | None => Ok tt
        | Some h =>
            if negb skipic && negb (list_eq_dec_b eh (h_eh h)) then Err EEhDiffers else
            if h_id h <=? s_inmem s1 then Err EAlreadyCommitted else
            if s_inmem s1 + c_maxactive cf <? h_id h then Err EMaxActive else
            (* inmemPrecommitWHub.WaitFor(hdr.ID-1): blocks (the caller's context ends it) *)
            if s_whub s1 <? h_id h - 1 then Err EWouldBlock else
            do blroot <- (if 0 <? h_bltxid h then aht_root_tolerant (s_aht s1) (h_bltxid h) else Ok zeros32);
            if negb (list_eq_dec_b blroot (h_blroot h)) then Err EBlRoot else Ok tt
        end in
      match chk with
      | Err e => (s1, Err e) | Panic => (s1, Panic)
      | Ok _ =>
        let q := {| q_version := ver; q_md := md; q_entries := es; q_vals := vals; q_eh := eh;
                    q_ts := p_ts p; q_precond := p_precond p; q_exp := exp |} in
        (upd_pend s1 ((c, q) :: del_pend s1 c), ok0)
      end
    end
  end.

Definition upd_tl (s : state) (t : list wr) (nf : N) : state :=
  {| s_cfg := s_cfg s; s_txlog := t; s_clog := s_clog s; s_vlog := s_vlog s; s_vsize := s_vsize s;
     s_aht := s_aht s; s_committed := s_committed s; s_calh := s_calh s; s_inmem := s_inmem s;
     s_ialh := s_ialh s; s_ptls := s_ptls s; s_tlnf := nf; s_buf := s_buf s; s_ext := s_ext s;
     s_allowed := s_allowed s; s_whub := s_whub s; s_pend := s_pend s; s_wait := s_wait s |}.
(* txLog.SetOffset(precommittedTxLogSize): whatever was appended at or beyond that offset (the bytes of an
   attempt that failed after its append, stale records found by a reopen) is dropped *)
Definition upd_ptls (s : state) (p : N) : state :=
  {| s_cfg := s_cfg s; s_txlog := s_txlog s; s_clog := s_clog s; s_vlog := s_vlog s; s_vsize := s_vsize s;
     s_aht := s_aht s; s_committed := s_committed s; s_calh := s_calh s; s_inmem := s_inmem s;
     s_ialh := s_ialh s; s_ptls := p; s_tlnf := s_tlnf s; s_buf := s_buf s; s_ext := s_ext s;
     s_allowed := s_allowed s; s_whub := s_whub s; s_pend := s_pend s; s_wait := s_wait s |}.
Definition tl_set_offset (s : state) : state :=
  let k := N.to_nat (s_tlnf s) in
  let beyond := fun w => negb (s_ptls s <=? w_off w) in
  let kept := filter beyond (firstn k (s_txlog s)) in
  (* below the flushed size the file is truncated (chunk files behind the offset are removed), unless
     it is preallocated: then what had reached the file stays there until overwritten *)
  let rest := if c_prealloc (s_cfg s) then skipn k (s_txlog s) else filter beyond (skipn k (s_txlog s)) in
  upd_tl s (kept ++ rest) (lenN kept).
(* txLog.Flush() *)
Definition tl_flush (s : state) : state := upd_tl s (s_txlog s) 0.
(* txLog.Append *)
Definition tl_append (s : state) (w : wr) : state := upd_tl s (w :: s_txlog s) (s_tlnf s + 1).

(* ---- mayCommit / the commit part of sync() --------------------------------------------- *)
Definition commit_allowed_upto (s : state) : N := if s_ext s then s_allowed s else s_inmem s.

(* the loop: readAhead(i), append the commit-log entry; returns the extended commit log and the last
   (id, alh), or the partially extended log on a readAhead error *)
Fixpoint commit_loop (fuel : nat) (b : pbuf) (i : N) (count : N) (clog : list centry) (last : N * bytes)
  : list centry * res (N * bytes) :=
  match fuel with
  | O => (clog, Ok last)
  | S f =>
      if count <=? i then (clog, Ok last) else
      match pb_read_ahead b i with
      | Ok pe => commit_loop f b (i + 1) count
                   (clog ++ [{| ce_off := pe_off pe; ce_size := pe_size pe; ce_alh := pe_alh pe |}])
                   (pe_id pe, pe_alh pe)
      | Err e => (clog, Err e)
      | Panic => (clog, Panic)
      end
  end.

Definition may_commit (s : state) : state * out :=
  let upto := commit_allowed_upto s in
  (* int(commitAllowedUpToTxID - s.committedTxID): negative when upto < committed *)
  if upto =? s_committed s then (s, ok0) else
  (* cLog.SetOffset(committedTxID * entrySize): refuses offsets beyond the current one *)
  if lenN (s_clog s) <? s_committed s then (s, Err ESetOffset) else
  let clog0 := firstn (N.to_nat (s_committed s)) (s_clog s) in
  if upto <? s_committed s then
    (* no iteration; fuse compares 0 with upto; advanceReader(negative) is refused *)
    (upd_clog s clog0, Err (if upto =? 0 then EIllegalArg else EFuse))
  else
  let count := upto - s_committed s in
  let '(clog1, r) := commit_loop (N.to_nat count) (s_buf s) 0 count clog0 (0, zeros32) in
  let s1 := upd_clog s clog1 in
  (* an attempt that does not complete rewinds the commit log to committedTxID (deferred SetOffset) *)
  let s0 := upd_clog s clog0 in
  match r with
  | Err e => (s0, Err e) | Panic => (s0, Panic)
  | Ok (lid, lalh) =>
      if negb (lid =? upto) then (s0, Err EFuse) else
      match pb_advance (s_buf s) count with
      | Err e => (s0, Err e) | Panic => (s0, Panic)
      | Ok b' => (upd_committed (upd_buf s1 b') lid lalh, ok0)
      end
  end.

Definition sync (s : state) : state * out :=
  if s_inmem s =? s_committed s then (s, ok0) else
  (* vLogs and txLog are flushed and synced, then the commit-log part *)
  may_commit (tl_flush s).

(* ---- precommit(), critical section, incl. performPrecommit ----------------------------- *)
(* offsets of the embedded values inside the write starting at `base` (after the 2-byte length) *)
Fixpoint emb_offsets (pos : N) (vals : list bytes) : list N :=
  match vals with
  | [] => []
  | v :: r => if len v =? 0 then 0 :: emb_offsets pos r else pos :: emb_offsets (pos + len v) r
  end.

Definition set_voff (e : entry) (o : N) : entry :=
  {| e_md := e_md e; e_key := e_key e; e_vlen := e_vlen e; e_voff := o; e_hval := e_hval e |}.

Definition locked (s : state) (c : N) : state * out :=
  match find_pend s c with
  | None => (s, Err ENoPending)
  | Some q =>
    let cf := s_cfg s in
    let s := upd_pend s (del_pend s c) in
    let chk : res (N * N) :=          (* (ts, blTxID) *)
      match q_exp q with
      | None => Ok (q_ts q, lenN (s_aht s))
      | Some h =>
          if h_id h - 1 <? s_inmem s then Err EAlreadyCommitted else
          if s_inmem s <? h_id h - 1 then Err EWrongOrder else
          if negb (list_eq_dec_b (s_ialh s) (h_prevalh h)) then Err EPrevAlh else
          Ok (h_ts h, h_bltxid h)
      end in
    match chk with
    | Err e => (s, Err e) | Panic => (s, Panic)
    | Ok (ts, bltxid) =>
      if match q_precond q with Some false => true | _ => false end then (s, Err EPrecond) else
      (* performPrecommit *)
      if c_synced cf && (s_committed s + c_maxactive cf <=? s_inmem s) then (s, Err EMaxActive) else
      let s := tl_set_offset s in
      let id := s_inmem s + 1 in
      (* tx.header.BlRoot is cleared, then assigned when blTxID > 0 *)
      match (if 0 <? bltxid then aht_root_tolerant (s_aht s) bltxid else Ok zeros32) with
      | Err e => (s, Err e) | Panic => (s, Panic)
      | Ok blroot =>
        if id <=? bltxid then (s, Err ELinking) else
        let hdr := {| h_id := id; h_prevalh := s_ialh s; h_ts := ts; h_version := q_version q;
                      h_md := (if q_version q =? 0 then None else q_md q);
                      h_nentries := lenN (q_entries q); h_eh := q_eh q; h_bltxid := bltxid;
                      h_blroot := blroot |} in
        (* embedded values: 2-byte total length, then the values, then the record *)
        let pre := if c_embedded cf
                   then be_enc w_ssz (len (concat (q_vals q))) ++ concat (q_vals q) else [] in
        let es := if c_embedded cf
                  then map (fun eo => set_voff (fst eo) (snd eo))
                           (combine (q_entries q) (emb_offsets (s_ptls s + st_sszSize) (q_vals q)))
                  else q_entries q in
        match alh_of hdr with
        | Err e => (s, Err e) | Panic => (s, Panic)
        | Ok alh =>
          let w := {| w_off := s_ptls s; w_pre := pre;
                      w_rec := {| r_hdr := hdr; r_entries := es; r_alh := alh |} |} in
          let s1 := tl_append s w in          (* txLog.Append *)
          match aht_reset (s_aht s1) (s_inmem s1) with
          | Err e => (s1, Err e) | Panic => (s1, Panic)
          | Ok a0 =>
            let s2 := upd_aht s1 (a0 ++ [alh]) in
            match pb_put (s_buf s2) {| pe_id := id; pe_alh := alh; pe_off := w_hdr_off w;
                                       pe_size := rec_size (w_rec w) |} with
            | Err e => (s2, Err e) | Panic => (s2, Panic)
            | Ok b' =>
              let s3 := upd_buf s2 b' in
              let s4 :=
                {| s_cfg := s_cfg s3; s_txlog := s_txlog s3; s_clog := s_clog s3; s_vlog := s_vlog s3;
                   s_vsize := s_vsize s3; s_aht := s_aht s3; s_committed := s_committed s3;
                   s_calh := s_calh s3; s_inmem := id; s_ialh := alh;
                   s_ptls := s_ptls s3 + len pre + rec_size (w_rec w); s_tlnf := s_tlnf s3; s_buf := s_buf s3;
                   s_ext := s_ext s3; s_allowed := s_allowed s3;
                   s_whub := N.max (s_whub s3) id; s_pend := s_pend s3;
                   (* commit(): commitWHub.WaitFor(hdr.ID); ReplicateTx under external allowance returns
                      without waiting for the commit *)
                   s_wait := (if match q_exp q with Some _ => s_ext s3 | None => false end
                              then s_wait s3 else (id, alh) :: s_wait s3) |} in
              if c_synced cf then (s4, Ok (id, alh))
              else
                let '(s5, r) := may_commit s4 in
                match r with
                | Ok _ => (s5, Ok (id, alh))
                | Err e => (s5, Err e)       (* the error is returned although the tx IS precommitted *)
                | Panic => (s5, Panic)
                end
            end
          end
        end
      end
    end
  end.

(* ---- AllowCommitUpto / SetExternalCommitAllowance -------------------------------------- *)
Definition allow (s : state) (n : N) : state * out :=
  if negb (s_ext s) then (s, Err EIllegalState) else
  if n <=? s_allowed s then (s, ok0) else
  let s1 := upd_allow s (s_ext s) (if s_inmem s <? n then s_inmem s else n) in
  if c_synced (s_cfg s) then (s1, ok0) else may_commit s1.

Definition set_ext (s : state) (b : bool) : state * out :=
  (upd_allow s b (if b then s_committed s else s_allowed s), ok0).

(* ---- DiscardPrecommittedTxsSince ---------------------------------------------------------- *)
Definition discard (s : state) (n : N) : state * out :=
  if n =? 0 then (s, Err EIllegalArg) else
  if n <=? s_committed s then (s, Err EIllegalArg) else
  if s_inmem s <? n then (s, ok0) else
  let cnt := s_inmem s + 1 - n in
  (* aht.ResetSize(aht.Size() - uint64(txsToDiscard)): uint64 arithmetic, wraps when size < count *)
  let newsz := if lenN (s_aht s) <? cnt then lenN (s_aht s) + 2 ^ 64 - cnt else lenN (s_aht s) - cnt in
  match aht_reset (s_aht s) newsz with
  | Err e => (s, Err e) | Panic => (s, Panic)
  | Ok a' =>
    let s1 := upd_aht s a' in
    (* the tx log is cut at the end of the last transaction that is kept *)
    let kept : res N :=
      if s_committed s1 <? n - 1 then
        do pe <- pb_read_ahead (s_buf s1) (n - s_committed s1 - 2); Ok (pe_off pe + pe_size pe)
      else if 0 <? s_committed s1 then
        match clog_entry s1 (s_committed s1) with
        | Some ce => Ok (ce_off ce + ce_size ce)
        | None => Err ENotFound
        end
      else Ok 0 in
    match kept with
    | Err e => (s1, Err e) | Panic => (s1, Panic)
    | Ok keptsz =>
    match pb_recede (s_buf s1) cnt with
    | Err e => (s1, Err e) | Panic => (s1, Panic)
    | Ok b' =>
      let s1 := if keptsz <? s_ptls s1 then tl_set_offset (upd_ptls s1 keptsz) else s1 in
      let s2 := upd_buf s1 b' in
      if n - 1 =? s_committed s2 then (upd_inmem s2 (s_committed s2) (s_calh s2), Ok (cnt, [])) else
      (* readAhead(int(inmem - committed - 1) - txsToDiscard) *)
      let idx := s_inmem s2 - s_committed s2 - 1 in
      if idx <? cnt then (upd_inmem s2 (s_committed s2) (s_calh s2), Err EIllegalArg) else
      match pb_read_ahead (s_buf s2) (idx - cnt) with
      | Ok pe =>
          if pe_id pe =? n - 1 then (upd_inmem s2 (n - 1) (pe_alh pe), Ok (cnt, []))
          else (upd_inmem s2 (s_committed s2) (s_calh s2), ok0)
      | Err e => (upd_inmem s2 (s_committed s2) (s_calh s2), Err e)
      | Panic => (s2, Panic)
      end
    end
    end
  end.

(* ---- Close + OpenWith (clean) ---------------------------------------------------------- *)
(* reload of the precommitted transactions: scan the tx log from the end of the last committed
   record while the writes found there chain by (ID, PrevAlh); returns (buffer, id, alh, end offset) *)
Fixpoint reload (fuel : nat) (log : list wr) (b : pbuf) (id : N) (alh : bytes) (pos : N)
  : res (pbuf * N * bytes * N) :=
  match fuel with
  | O => Ok (b, id, alh, pos)
  | S f =>
      match tl_start log pos with
      | None => Ok (b, id, alh, pos)
      | Some w =>
          (* readEmbeddedValuesPrefix: the 2-byte length wraps for 64 KiB of values or more; the record
             is then not where the scan looks for it *)
          if (0 <? len (w_pre w)) && (2 ^ 16 <=? len (w_pre w) - st_sszSize) then Ok (b, id, alh, pos) else
          let r := w_rec w in
          (* Tx.readFrom validates the stored Alh against the header *)
          match alh_of (r_hdr r) with
          | Ok a =>
              if negb (list_eq_dec_b a (r_alh r)) then Ok (b, id, alh, pos) else
              if negb (h_id (r_hdr r) =? id + 1) || negb (list_eq_dec_b (h_prevalh (r_hdr r)) alh)
              then Ok (b, id, alh, pos) else
              (* embeddedValuesMatch / precommittedValuesReadable hold for what performPrecommit wrote
                 and a clean Close flushed *)
              let pe := {| pe_id := id + 1; pe_alh := a; pe_off := w_hdr_off w; pe_size := rec_size r |} in
              let put := match pb_put b pe with
                         | Err _ => pb_put (pb_grow b (2 * pb_size b)) pe
                         | x => x end in
              do b' <- put;
              reload f log b' (id + 1) a (w_end w)
          | _ => Ok (b, id, alh, pos)
          end
      end
  end.

(* syncBinaryLinking: append the Alh of txs size+1 .. upto, read through commit log / cLogBuf, with
   TxReader's PrevAlh continuity check *)
Fixpoint relink (fuel : nat) (s : state) (aht : list bytes) (k : N) (prev : option bytes) : res (list bytes) :=
  match fuel with
  | O => Ok aht
  | S f =>
      if s_inmem s <? k then Ok aht else
      do r <- read_tx_pre s k;
      if match prev with Some a => negb (list_eq_dec_b a (h_prevalh (r_hdr r))) | None => false end
      then Err ECorruptedTx else
      do a <- alh_of (r_hdr r);
      relink f s (aht ++ [a]) (k + 1) (Some a)
  end.

(* the last committed transaction as OpenWith validates it: (committedAlh, committedTxLogSize) *)
Definition reopen_r0 (s : state) : res (bytes * N) :=
  let committed := lenN (s_clog s) in
  if committed =? 0 then Ok (H [], 0) else
  match nth_error (s_clog s) (N.to_nat (committed - 1)) with
  | None => Err ECorruptedTx
  | Some ce =>
      match tl_read (s_txlog s) (ce_off ce) with
      | None => Err ECorruptedTx
      | Some w =>
          if negb (rec_size (w_rec w) =? ce_size ce) then Err ECorruptedTx else
          do a <- alh_of (r_hdr (w_rec w));
          if negb (list_eq_dec_b a (r_alh (w_rec w))) then Err ECorruptedTx else
          if negb (list_eq_dec_b a (ce_alh ce)) then Err ECorruptedTx else
          Ok (ce_alh ce, ce_off ce + ce_size ce)
      end
  end.

(* the store as OpenWith builds it, before the binary-linking tree is aligned *)
Definition reopen_state (s : state) (calh : bytes) (b : pbuf) (pid : N) (palh : bytes) (ptls : N) : state :=
  {| s_cfg := s_cfg s; s_txlog := s_txlog s; s_clog := s_clog s; s_vlog := s_vlog s; s_vsize := s_vsize s;
     s_aht := s_aht s; s_committed := lenN (s_clog s); s_calh := calh; s_inmem := pid; s_ialh := palh;
     s_ptls := ptls; s_tlnf := 0; s_buf := b; s_ext := c_ext0 (s_cfg s); s_allowed := lenN (s_clog s);
     s_whub := pid; s_pend := []; s_wait := [] |}.

Definition reopen (s : state) : state * out :=
  let committed := lenN (s_clog s) in
  match reopen_r0 s with
  | Err e => (s, Err e) | Panic => (s, Panic)
  | Ok (calh, ctls) =>
    match reload (S (length (s_txlog s))) (s_txlog s) (pb_new (c_maxactive (s_cfg s))) committed calh ctls with
    | Err e => (s, Err e) | Panic => (s, Panic)
    | Ok (b, pid, palh, ptls) =>
      let s1 := reopen_state s calh b pid palh ptls in
      (* the leaves beyond the committed transactions are not trusted (they may belong to precommitted
         transactions that were discarded and replaced): reset, then syncBinaryLinking re-appends the
         Alh of the transactions that were actually reloaded *)
      let a1 := if committed <? lenN (s_aht s1) then firstn (N.to_nat committed) (s_aht s1) else s_aht s1 in
      if lenN a1 =? pid then (upd_aht s1 a1, ok0)
      else
        match relink (N.to_nat (pid - lenN a1)) s1 a1 (lenN a1 + 1) None with
        | Ok a => (upd_aht s1 a, ok0)
        | Err e => (s, Err e)
        | Panic => (s, Panic)
        end
    end
  end.

(* ---- the machine ------------------------------------------------------------------------- *)
Inductive op :=
| OBegin (c : N) (p : txspec) (exp : option txhdr) (skipic : bool)
| OLocked (c : N)
| OSync
| OAllow (n : N)
| ODiscard (n : N)
| OSetExt (b : bool)
| OReopen.

Definition step (s : state) (o : op) : state * out :=
  match o with
  | OBegin c p exp sk => begin s c p exp sk
  | OLocked c => locked s c
  | OSync => sync s
  | OAllow n => allow s n
  | ODiscard n => discard s n
  | OSetExt b => set_ext s b
  | OReopen => reopen s
  end.

Definition run (s : state) (ops : list op) : state := fold_left (fun s o => fst (step s o)) ops s.

End Machine.
