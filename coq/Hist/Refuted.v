(* Witness executions (evaluated with the executable SHA-256) on which the faithful model violates
   the full statement (2), and the regression witnesses of the fixed ones (1, 3); each is replayed on the real store by harness/c02 (directed scripts). *)
From V Require Import Hist.Machine Hist.Lemmas Hist.Aht Merkle.Sha256.
Open Scope N_scope.

Definition Hs := sha256.

Definition wcfg (synced ext : bool) : cfg :=
  {| c_synced := synced; c_embedded := false; c_version := 1; c_maxactive := 10; c_maxentries := 64;
     c_maxkey := 128; c_maxval := 4096; c_ext0 := ext; c_maxconc := 8; c_prealloc := false |}.

Definition wtx (k v ts : N) : txspec :=
  {| p_entries := [{| k_key := [k]; k_md := []; k_val := [v] |}]; p_md := None; p_ts := ts;
     p_precond := None; p_cancel := false |}.
(* one commit call of client c: value write + critical section *)
Definition wpre (c k v ts : N) : list op := [OBegin c (wtx k v ts) None false; OLocked c].

(* (1) [FIXED by 2077e08, then 8728288] Discard + Precommit + reopen: the discarded tx A used to be reloaded
   from the tx log as tx 3 while the binary-linking tree kept the leaf of its replacement B. OpenWith now
   rebuilds the tree from the reloaded transactions (2077e08) and Discard cuts A off the tx log (8728288):
   tx 3 is B and every BlRoot is the root over the earlier Alh values (regression witness). *)
Definition w1_ops : list op :=
  (wpre 0 1 11 1001 ++ wpre 1 2 12 1002 ++ [OAllow 2] ++ wpre 0 65 13 1003 ++ [ODiscard 3] ++
   wpre 1 66 14 1004 ++ [OReopen; OAllow 3] ++ wpre 0 4 15 1005 ++ [OAllow 4])%list.

Definition blroot_ok (s : state) (k : N) : bool :=
  match read_tx s k with
  | Ok r => (h_bltxid (r_hdr r) =? 0) ||
            list_eq_dec_b (h_blroot (r_hdr r)) (mth Hs (alhs s (h_bltxid (r_hdr r))))
  | _ => false
  end.

Lemma blroot_fixed_witness :
  let s := run Hs (init Hs (wcfg false true)) w1_ops in
  s_committed s = 4 /\ forallb (blroot_ok s) [1; 2; 3; 4] = true /\
  match read_tx s 3 with Ok r => map e_key (r_entries r) = [[66]] | _ => False end.
Proof. vm_compute. repeat split; reflexivity. Qed.

(* (2) a commit call waiting for a transaction that is discarded is woken up, with its own header,
   when another transaction is committed under the same id *)
Definition w2_ops : list op :=
  (wpre 0 65 1 1001 ++ [ODiscard 1] ++ wpre 1 66 2 1002 ++ [OSync])%list.

Definition ack_ok (s : state) (a : N * bytes) : bool :=
  match read_tx s (fst a) with Ok r => list_eq_dec_b (r_alh r) (snd a) | _ => false end.

Lemma ack_refuted_witness :
  let s := run Hs (init Hs (wcfg true false)) w2_ops in
  s_committed s = 1 /\ length (acked s) = 2%nat /\ forallb (ack_ok s) (acked s) = false.
Proof. vm_compute. repeat split; reflexivity. Qed.

(* (3) [FIXED by 8728288] sync() stops midway (allowance beyond the precommitted id after a Discard): it
   used to leave commit-log entries in the write buffer, Close flushed them and the reopened store reported
   as committed transactions that were never committed (here all of them had even been DISCARDED). The
   commit loop now rewinds the commit log when it does not complete and Discard cuts the tx log: the
   reopened store has nothing committed and nothing precommitted (regression witness). *)
Definition w3_ops : list op :=
  (wpre 0 1 11 1001 ++ wpre 1 2 12 1002 ++ wpre 2 3 13 1003 ++
   [OAllow 3; ODiscard 3; OSync; OSetExt true; ODiscard 1])%list.

Lemma reopen_fixed_witness :
  let s := run Hs (init Hs (wcfg true true)) w3_ops in
  let s' := fst (step Hs s OReopen) in
  s_committed s = 0 /\ s_inmem s = 0 /\ s_committed s' = 0 /\ s_inmem s' = 0 /\ s_txlog s' = [].
Proof. vm_compute. repeat split; reflexivity. Qed.
