(* C05 — key readers: structure of what a Read consumes, the validation loop of
   checkPreconditions as a matching of a prefix of the current scan, and the simulation lemma:
   when the (completed) record segment validates against the current state and does not end on
   own writes, the same Read on the current state consumes the same entries. *)
From V Require Import MVCC.Spec MVCC.SpecProofs MVCC.Tx MVCC.Validate MVCC.Serial MVCC.ViewProofs.
From Coq Require Import ZifyN ZifyNat ZifyBool.

(* ---------- scans ---------- *)
Lemma scan_In s l x : In x (scan s l) <-> In x l /\ in_range s (e_key x) = true.
Proof.
  unfold scan. destruct (rs_desc s); [rewrite <- in_rev|]; rewrite filter_In; tauto.
Qed.

Lemma scan_sorted s l : sorted l -> dsorted (rs_desc s) (scan s l).
Proof.
  intros S. unfold scan. destruct (rs_desc s).
  - apply (dsorted_rev false). apply dsorted_filter; exact S.
  - apply dsorted_filter; exact S.
Qed.

Definition after_c (d : bool) (c : option bytes) (k : bytes) : Prop :=
  match c with None => True | Some k0 => dlt d k0 k end.

Lemma after_In d c l x : In x (after d c l) <-> In x l /\ after_c d c (e_key x).
Proof.
  unfold after, after_c. destruct c as [k|]; [|tauto].
  rewrite filter_In, is_lt_dlt; tauto.
Qed.

Lemma after_sorted d c l : dsorted d l -> dsorted d (after d c l).
Proof. unfold after; destruct c; auto. apply dsorted_filter. Qed.

(* ---------- an ordered list splits at any key ---------- *)
Lemma filter_none {A} (f : A -> bool) l : (forall x, In x l -> f x = false) -> filter f l = [].
Proof.
  induction l as [|a l IH]; simpl; auto. intros H. rewrite (H a) by auto. apply IH; auto.
Qed.
Lemma filter_all {A} (f : A -> bool) l : (forall x, In x l -> f x = true) -> filter f l = l.
Proof.
  induction l as [|a l IH]; simpl; auto. intros H. rewrite (H a) by auto. f_equal; apply IH; auto.
Qed.

Lemma filter_split_sorted d kb l :
  dsorted d l ->
  l = filter (fun x => negb (is_lt (dcmp d kb (e_key x)))) l ++
      filter (fun x => is_lt (dcmp d kb (e_key x))) l.
Proof.
  induction 1 as [|a l F S IH]; simpl; auto.
  destruct (is_lt (dcmp d kb (e_key a))) eqn:La; simpl.
  - apply is_lt_dlt in La.
    unfold lt_all in F; rewrite Forall_forall in F.
    assert (A : forall x, In x l -> is_lt (dcmp d kb (e_key x)) = true).
    { intros x Hx. apply is_lt_dlt. eapply dlt_trans; [exact La | apply F; exact Hx]. }
    rewrite filter_none, filter_all; auto.
    intros x Hx; rewrite (A x Hx); reflexivity.
  - f_equal. exact IH.
Qed.

(* if two ordered lists have the same members up to eb, and the first begins with p ++ [eb],
   so does the second *)
Lemma sorted_prefix_eq d l1 l2 p eb r1 :
  dsorted d l1 -> dsorted d l2 -> l1 = (p ++ [eb]) ++ r1 ->
  (forall x, ~ dlt d (e_key eb) (e_key x) -> (In x l1 <-> In x l2)) ->
  exists r2, l2 = (p ++ [eb]) ++ r2.
Proof.
  intros S1 S2 E H.
  rewrite (filter_split_sorted d (e_key eb) l2 S2).
  eexists; f_equal.
  assert (S1' : dsorted d (p ++ eb :: r1)) by (rewrite <- app_assoc in E; simpl in E; rewrite <- E; exact S1).
  apply dsorted_ext with d.
  - apply dsorted_filter; exact S2.
  - rewrite E in S1. apply dsorted_app in S1; tauto.
  - intros x. rewrite filter_In, negb_true_iff.
    assert (NL : is_lt (dcmp d (e_key eb) (e_key x)) = false <-> ~ dlt d (e_key eb) (e_key x)).
    { rewrite <- is_lt_dlt. destruct (is_lt (dcmp d (e_key eb) (e_key x))); split; congruence. }
    rewrite NL. split.
    + intros [Hx Nx]. apply (H x Nx) in Hx. rewrite E in Hx.
      apply in_app_or in Hx as [Hx|Hx]; auto.
      exfalso; apply Nx.
      assert (Hx' : In x (p ++ eb :: r1)) by (apply in_or_app; right; right; exact Hx).
      apply (dsorted_split d p eb r1 x S1' Hx'); exact Hx.
    + intros Hx.
      assert (Hx' : In x (p ++ eb :: r1)).
      { apply in_app_or in Hx as [Hx|[<-|[]]]; apply in_or_app; [left|right; left]; auto. }
      assert (Nx : ~ dlt d (e_key eb) (e_key x)).
      { intros L. apply in_app_or in Hx as [Hx|[Ex|[]]].
        - pose proof (proj1 (proj1 (dsorted_split d p eb r1 x S1' Hx')) Hx) as L2.
          exact (dlt_asym _ _ _ L2 L).
        - subst x. exact (dlt_irrefl _ _ L). }
      split; auto. apply (H x Nx). rewrite E. apply in_or_app; left; exact Hx.
Qed.

(* ---------- what a Read consumes ---------- *)
Definition rec_of (e : entry) : xread := XR (e_key e) (e_tx e).

(* the entries the underlying reader yields during one Read, and whether it ran dry *)
Fixpoint consumed (fs : list filt) (offset skipped : N) (l : list entry) : list entry * bool :=
  match l with
  | [] => ([], true)
  | e :: r =>
      if filtered fs (e_del e) (e_exp e) then
        let '(p, x) := consumed fs offset skipped r in (e :: p, x)
      else if skipped <? offset then
        let '(p, x) := consumed fs offset (skipped + 1) r in (e :: p, x)
      else ([e], false)
  end.

Lemma consumed_prefix fs off l : forall sk p x,
  consumed fs off sk l = (p, x) -> exists r, l = p ++ r /\ (x = true -> r = []).
Proof.
  induction l as [|e l IH]; simpl; intros sk p x H.
  - inversion H; subst. exists []; auto.
  - destruct (filtered fs (e_del e) (e_exp e)).
    + destruct (consumed fs off sk l) as [p' x'] eqn:C. inversion H; subst.
      destruct (IH _ _ _ C) as (r & -> & Hr). exists r; auto.
    + destruct (sk <? off).
      * destruct (consumed fs off (sk + 1) l) as [p' x'] eqn:C. inversion H; subst.
        destruct (IH _ _ _ C) as (r & -> & Hr). exists r; auto.
      * inversion H; subst. exists l; split; auto. discriminate.
Qed.

Lemma consumed_nonempty fs off l : forall sk p,
  consumed fs off sk l = (p, false) -> exists p' e, p = p' ++ [e].
Proof.
  induction l as [|e l IH]; simpl; intros sk p H; [discriminate|].
  destruct (filtered fs (e_del e) (e_exp e)).
  - destruct (consumed fs off sk l) as [q x] eqn:C. inversion H; subst.
    destruct (IH _ _ C) as (p' & e' & ->). exists (e :: p'), e'; reflexivity.
  - destruct (sk <? off).
    + destruct (consumed fs off (sk + 1) l) as [q x] eqn:C. inversion H; subst.
      destruct (IH _ _ C) as (p' & e' & ->). exists (e :: p'), e'; reflexivity.
    + inversion H; subst. exists [], e; reflexivity.
Qed.

(* the Read depends only on what it consumes *)
Lemma read_loop_consumed fs off l : forall sk c p x l2 r2,
  consumed fs off sk l = (p, x) -> l2 = p ++ r2 -> (x = true -> r2 = []) ->
  read_loop fs off sk c l2 = read_loop fs off sk c l.
Proof.
  induction l as [|e l IH]; simpl; intros sk c p x l2 r2 H E X.
  - inversion H; subst. rewrite (X eq_refl). reflexivity.
  - destruct (filtered fs (e_del e) (e_exp e)) eqn:Fe.
    + destruct (consumed fs off sk l) as [q y] eqn:C. inversion H; subst. simpl. rewrite Fe.
      rewrite (IH sk (Some (e_key e)) q x (q ++ r2) r2 C eq_refl X). reflexivity.
    + destruct (sk <? off) eqn:So.
      * destruct (consumed fs off (sk + 1) l) as [q y] eqn:C. inversion H; subst. simpl.
        rewrite Fe, So.
        rewrite (IH (sk + 1) (Some (e_key e)) q x (q ++ r2) r2 C eq_refl X). reflexivity.
      * inversion H; subst. simpl. rewrite Fe, So. reflexivity.
Qed.

Definition last_key (c : option bytes) (p : list entry) : option bytes :=
  match rev p with e :: _ => Some (e_key e) | [] => c end.

Lemma last_key_cons c e p : last_key c (e :: p) = last_key (Some (e_key e)) p.
Proof.
  unfold last_key; simpl. destruct (rev p) as [|x r] eqn:R; simpl; auto.
Qed.

(* the records and the new position of a Read *)
Lemma read_loop_recs fs off l : forall sk c p x o recs c' sk',
  consumed fs off sk l = (p, x) -> read_loop fs off sk c l = (o, recs, c', sk') ->
  recs = map rec_of p ++ (if x then [XNoMore] else []) /\ c' = last_key c p /\
  (x = true -> o = BNoMore) /\ (x = false -> exists p' e, p = p' ++ [e] /\ o = BFound e).
Proof.
  induction l as [|e l IH]; simpl; intros sk c p x o recs c' sk' H R.
  - inversion H; inversion R; subst. repeat split; auto. discriminate.
  - destruct (filtered fs (e_del e) (e_exp e)).
    + destruct (consumed fs off sk l) as [q y] eqn:C. inversion H; subst.
      destruct (read_loop fs off sk (Some (e_key e)) l) as [[[o1 r1] c1] s1] eqn:RL.
      inversion R; subst. destruct (IH _ _ _ _ _ _ _ _ C RL) as (E1 & E2 & E3 & E4).
      subst. rewrite last_key_cons. repeat split; auto.
      intros Hx; destruct (E4 Hx) as (p' & e' & -> & ->). exists (e :: p'), e'; auto.
    + destruct (sk <? off).
      * destruct (consumed fs off (sk + 1) l) as [q y] eqn:C. inversion H; subst.
        destruct (read_loop fs off (sk + 1) (Some (e_key e)) l) as [[[o1 r1] c1] s1] eqn:RL.
        inversion R; subst. destruct (IH _ _ _ _ _ _ _ _ C RL) as (E1 & E2 & E3 & E4).
        subst. rewrite last_key_cons. repeat split; auto.
        intros Hx; destruct (E4 Hx) as (p' & e' & -> & ->). exists (e :: p'), e'; auto.
      * inversion H; inversion R; subst. repeat split; auto; [discriminate|].
        intros _; exists [], e; auto.
Qed.

(* ---------- keys of a record segment ---------- *)
Definition seg_keys (seg : list xread) : list bytes :=
  flat_map (fun r => match r with XR k _ => [k] | XNoMore => [] end) seg.
Definition kE (k : bytes) : entry := mkE k [] 0 false false.
Definition ksorted (d : bool) (ks : list bytes) : Prop := dsorted d (map kE ks).

Lemma seg_keys_app a b : seg_keys (a ++ b) = seg_keys a ++ seg_keys b.
Proof. unfold seg_keys; apply flat_map_app. Qed.
Lemma seg_keys_map p : seg_keys (map rec_of p) = map e_key p.
Proof. induction p as [|e p IH]; simpl; auto. f_equal; exact IH. Qed.
Lemma seg_keys_In k t seg : In (XR k t) seg -> In k (seg_keys seg).
Proof. intros H. unfold seg_keys. apply in_flat_map. exists (XR k t); simpl; auto. Qed.
Lemma seg_keys_In_inv k seg : In k (seg_keys seg) -> exists t, In (XR k t) seg.
Proof.
  unfold seg_keys; intros H. apply in_flat_map in H as (r & Hr & Hk).
  destruct r as [k' t|]; simpl in Hk; [|tauto]. destruct Hk as [<-|[]]. exists t; exact Hr.
Qed.

Lemma ksorted_app d a b :
  ksorted d (a ++ b) <-> ksorted d a /\ ksorted d b /\ (forall x y, In x a -> In y b -> dlt d x y).
Proof.
  unfold ksorted. rewrite map_app, dsorted_app. split; intros (H1 & H2 & H3); repeat split; auto.
  - intros x y Hx Hy. apply (H3 (kE x) (kE y)); apply in_map; auto.
  - intros x y Hx Hy. apply in_map_iff in Hx as (kx & <- & Hx). apply in_map_iff in Hy as (ky & <- & Hy).
    simpl; auto.
Qed.
Lemma ksorted_nil d : ksorted d []. Proof. constructor. Qed.
Lemma ksorted_one d k : ksorted d [k]. Proof. constructor; constructor. Qed.

Definition last_opt {A} (l : list A) : option A :=
  match rev l with x :: _ => Some x | [] => None end.
Lemma last_opt_snoc {A} (l : list A) x : last_opt (l ++ [x]) = Some x.
Proof. unfold last_opt; rewrite rev_app_distr; reflexivity. Qed.
Lemma last_opt_app {A} (l1 l2 : list A) : l2 <> [] -> last_opt (l1 ++ l2) = last_opt l2.
Proof.
  intros N. destruct (exists_last N) as (l' & x & ->). rewrite app_assoc, !last_opt_snoc; reflexivity.
Qed.
Lemma last_opt_nil_app {A} (l1 : list A) : last_opt (l1 ++ []) = last_opt l1.
Proof. rewrite app_nil_r; reflexivity. Qed.

(* every key of an ordered key list is at most its last one *)
Lemma ksorted_last d ks c k : ksorted d ks -> last_opt ks = Some c -> In k ks -> k = c \/ dlt d k c.
Proof.
  intros S L Hk. destruct ks as [|a ks0] using rev_ind; [destruct Hk|].
  rewrite last_opt_snoc in L; inversion L; subst a.
  apply in_app_or in Hk as [Hk|[<-|[]]]; auto.
  right. apply ksorted_app in S as (_ & _ & S). apply S; simpl; auto.
Qed.

Lemma last_key_map c p : last_key c p = match last_opt (map e_key p) with Some k => Some k | None => c end.
Proof.
  unfold last_key, last_opt. rewrite <- map_rev. destruct (rev p); reflexivity.
Qed.

(* ---------- the validation loop, in "peek" form ---------- *)
Fixpoint vpeek (recs : list xread) (pend : list entry) : bool :=
  match recs with
  | [] => true
  | XNoMore :: _ => match pend with [] => true | _ => false end
  | XR k tx :: recs' =>
      if tx =? 0 then
        match pend with
        | e :: t => if keq k (e_key e) then vpeek recs' t else vpeek recs' pend
        | [] => vpeek recs' []
        end
      else
        match pend with
        | e :: t => if keq k (e_key e) && (tx =? e_tx e) then vpeek recs' t else false
        | [] => false
        end
  end.

Lemma vseg_vpeek recs : forall carry rest,
  vseg recs carry rest = vpeek recs (match carry with Some e => e :: rest | None => rest end).
Proof.
  induction recs as [|r recs IH]; intros carry rest; [reflexivity|].
  destruct r as [k tx|]; cbn [vseg vpeek].
  - destruct (tx =? 0).
    + destruct carry as [e|]; cbn [hd_error tl].
      * destruct (keq k (e_key e)); rewrite IH; reflexivity.
      * destruct rest as [|e t]; cbn [hd_error tl].
        -- rewrite IH; reflexivity.
        -- destruct (keq k (e_key e)); rewrite IH; reflexivity.
    + destruct carry as [e|]; cbn [hd_error tl].
      * destruct (keq k (e_key e) && (tx =? e_tx e)); [rewrite IH|]; reflexivity.
      * destruct rest as [|e t]; cbn [hd_error tl]; auto.
        destruct (keq k (e_key e) && (tx =? e_tx e)); [rewrite IH|]; reflexivity.
  - destruct carry as [e|]; cbn [hd_error]; auto. destruct rest; reflexivity.
Qed.

(* entries of the current scan matched by records *)
Definition matched (P : list entry) (r1 : list xread) : Prop :=
  forall x, In x P -> exists t, In (XR (e_key x) t) r1 /\ (t = 0 \/ t = e_tx x).

Lemma matched_weaken P r r1 : matched P r1 -> matched P (r :: r1).
Proof. intros M x Hx. destruct (M x Hx) as (t & H1 & H2). exists t; split; simpl; auto. Qed.

(* up to a record reached without passing an expectedNoMoreEntries, the loop has consumed a
   prefix of the current scan, every element of which equals a record by key (and by tx id unless
   the record is an own write) *)
Lemma vpeek_split r1 : forall a r2 pend,
  vpeek (r1 ++ a :: r2) pend = true -> ~ In XNoMore r1 ->
  exists P pend', pend = P ++ pend' /\ matched P r1 /\ vpeek (a :: r2) pend' = true.
Proof.
  induction r1 as [|r r1 IH]; intros a r2 pend V N.
  - exists [], pend; repeat split; auto. intros x [].
  - assert (N' : ~ In XNoMore r1) by (intros H; apply N; right; exact H).
    destruct r as [k tx|]; [|exfalso; apply N; left; reflexivity].
    cbn [app vpeek] in V. destruct (tx =? 0) eqn:T.
    + apply N.eqb_eq in T; subst tx. destruct pend as [|e t].
      * destruct (IH _ _ _ V N') as (P & pend' & E & M & V').
        exists P, pend'; repeat split; auto using matched_weaken.
      * destruct (keq k (e_key e)) eqn:K.
        -- apply keq_true in K. destruct (IH _ _ _ V N') as (P & pend' & E & M & V').
           exists (e :: P), pend'; repeat split; auto.
           ++ rewrite E; reflexivity.
           ++ intros x [<-|Hx]; [exists 0; split; [left; rewrite K; reflexivity | auto]|].
              apply (matched_weaken P _ r1 M x Hx).
        -- destruct (IH _ _ _ V N') as (P & pend' & E & M & V').
           exists P, pend'; repeat split; auto using matched_weaken.
    + destruct pend as [|e t]; [discriminate|].
      destruct (keq k (e_key e) && (tx =? e_tx e)) eqn:K; [|discriminate].
      apply andb_prop in K as [K1 K2]. apply keq_true in K1. apply N.eqb_eq in K2.
      destruct (IH _ _ _ V N') as (P & pend' & E & M & V').
      exists (e :: P), pend'; repeat split; auto.
      * rewrite E; reflexivity.
      * intros x [<-|Hx]; [exists tx; split; [left; rewrite K1; reflexivity | auto]|].
        apply (matched_weaken P _ r1 M x Hx).
Qed.

Lemma vpeek_nomore r2 pend : vpeek (XNoMore :: r2) pend = true -> pend = [].
Proof. simpl. destruct pend; [auto | discriminate]. Qed.

Lemma vpeek_committed k t r2 pend :
  vpeek (XR k t :: r2) pend = true -> t <> 0 ->
  exists e R, pend = e :: R /\ e_key e = k /\ e_tx e = t.
Proof.
  cbn [vpeek]. intros V N. apply N.eqb_neq in N. rewrite N in V.
  destruct pend as [|e R]; [discriminate|].
  destruct (keq k (e_key e) && (t =? e_tx e)) eqn:K; [|discriminate].
  apply andb_prop in K as [K1 K2]. apply keq_true in K1. apply N.eqb_eq in K2.
  exists e, R; auto.
Qed.

(* a committed record that is reached is an entry of the current scan *)
Lemma vpeek_committed_in r1 k t r2 pend :
  vpeek (r1 ++ XR k t :: r2) pend = true -> ~ In XNoMore r1 -> t <> 0 ->
  exists e, In e pend /\ e_key e = k /\ e_tx e = t.
Proof.
  intros V N T. destruct (vpeek_split r1 _ _ _ V N) as (P & pend' & -> & _ & V').
  destruct (vpeek_committed _ _ _ _ V' T) as (e & R & -> & K1 & K2).
  exists e; split; auto. apply in_or_app; right; left; reflexivity.
Qed.

Lemma seg_tail_ok_app a l : l <> [] -> seg_tail_ok (a ++ l) = seg_tail_ok l.
Proof.
  intros N. destruct (exists_last N) as (l' & x & ->).
  unfold seg_tail_ok. rewrite app_assoc, !rev_app_distr. reflexivity.
Qed.

(* the first record of a non-empty list that is not an own-write record, when the list does not
   end on one *)
Lemma first_nonown l :
  l <> [] -> seg_tail_ok l = true ->
  exists o1 a l2, l = o1 ++ a :: l2 /\ (forall r, In r o1 -> is_own_rec r = true) /\ is_own_rec a = false.
Proof.
  induction l as [|r l IH]; intros N T; [congruence|].
  destruct (is_own_rec r) eqn:O.
  - destruct l as [|r' l'].
    + unfold seg_tail_ok in T; simpl in T. rewrite O in T; discriminate.
    + assert (T' : seg_tail_ok (r' :: l') = true).
      { rewrite <- (seg_tail_ok_app [r]) by discriminate. exact T. }
      destruct (IH ltac:(discriminate) T') as (o1 & a & l2 & E & F & A).
      exists (r :: o1), a, l2; repeat split; auto.
      * rewrite E; reflexivity.
      * intros x [<-|Hx]; auto.
  - exists [], r, l; repeat split; auto; intros x [].
Qed.

Lemma first_nomore l : In XNoMore l -> exists l1 l2, l = l1 ++ XNoMore :: l2 /\ ~ In XNoMore l1.
Proof.
  induction l as [|r l IH]; intros H; [destruct H|].
  destruct r as [k t|].
  - destruct H as [H|H]; [discriminate|]. destruct (IH H) as (l1 & l2 & -> & N).
    exists (XR k t :: l1), l2; split; auto. intros [D|D]; [discriminate | auto].
  - exists [], l; split; auto.
Qed.

Lemma no_nomore_map p : ~ In XNoMore (map rec_of p).
Proof. intros H. apply in_map_iff in H as (e & D & _). discriminate. Qed.

Lemma own_rec_no_nomore o1 : (forall r, In r o1 -> is_own_rec r = true) -> ~ In XNoMore o1.
Proof. intros F H. apply F in H. discriminate. Qed.

(* ---------- a reader of the transaction running on the snapshot ---------- *)
Section ReaderSim.
  Context (s0 c : state) (E : env s0 c).

  Record rinv (ws : list wentry) (rd : rstate) (x : xreader) : Prop := mkRinv {
    ri_spec : xr_spec x = rd_spec rd;
    ri_sorted : ksorted (rs_desc (rd_spec rd)) (seg_keys (xr_cur x));
    ri_cursor : rd_cursor rd = last_opt (seg_keys (xr_cur x));
    ri_com : forall k t, In (XR k t) (xr_cur x) -> t <> 0 ->
             exists e, In e s0 /\ e_key e = k /\ e_tx e = t;
    ri_own : forall k, In (XR k 0) (xr_cur x) -> in_ws k ws = true;
    ri_exh : In XNoMore (xr_cur x) -> forall e, In e s0 -> in_range (rd_spec rd) (e_key e) = true ->
             after_c (rs_desc (rd_spec rd)) (rd_cursor rd) (e_key e) -> in_ws (e_key e) ws = true;
    ri_done : forall seg, In seg (xr_done x) -> ksorted (rs_desc (rd_spec rd)) (seg_keys seg) }.

  (* nothing recorded in the current segment lies beyond the cursor *)
  Lemma pre_not_after ws rd x k t :
    rinv ws rd x -> In (XR k t) (xr_cur x) ->
    after_c (rs_desc (rd_spec rd)) (rd_cursor rd) k -> False.
  Proof.
    intros I H A. pose proof (seg_keys_In _ _ _ H) as Hk.
    rewrite (ri_cursor _ _ _ I) in A.
    destruct (last_opt (seg_keys (xr_cur x))) as [c0|] eqn:L.
    - destruct (ksorted_last _ _ _ _ (ri_sorted _ _ _ I) L Hk) as [->|D].
      + exact (dlt_irrefl _ _ A).
      + exact (dlt_asym _ _ _ D A).
    - unfold last_opt in L. destruct (rev (seg_keys (xr_cur x))) eqn:R; [|discriminate].
      apply (f_equal (@rev _)) in R. rewrite rev_involutive in R. simpl in R.
      rewrite R in Hk; destruct Hk.
  Qed.

  (* an element of the snapshot view that is not an own key is a snapshot entry *)
  Lemma view_elem_com ws y :
    In y (view s0 ws) -> in_ws (e_key y) ws = false -> In y s0 /\ e_tx y <> 0.
  Proof.
    intros Hy W. destruct (own y) eqn:O.
    - destruct (view_In_own _ _ _ (env_s _ _ E) (env_cs _ _ E) Hy O) as [W' _]; congruence.
    - destruct (view_In_com _ _ _ (env_s _ _ E) Hy O) as [_ H]. split; auto. apply (env_cs _ _ E); auto.
  Qed.

  Section OneRead.
    Context (ws : list wentry) (rd : rstate) (x1 : xreader) (later : list xread)
            (p : list entry) (ex : bool).
    Local Notation s := (rd_spec rd).
    Local Notation d := (rs_desc (rd_spec rd)).
    Local Notation l1 := (after (rs_desc (rd_spec rd)) (rd_cursor rd) (scan (rd_spec rd) (view s0 ws))).
    Local Notation l2 := (after (rs_desc (rd_spec rd)) (rd_cursor rd) (scan (rd_spec rd) (view c ws))).
    Local Notation recs := (map rec_of p ++ (if ex then [XNoMore] else [])).
    Local Notation segF := ((xr_cur x1 ++ (map rec_of p ++ (if ex then [XNoMore] else []))) ++ later).
    Local Notation LC := (scan (rd_spec rd) c).

    Context (I : rinv ws rd x1)
            (CO : consumed (rd_fs rd) (rd_offset rd) (rd_skipped rd) l1 = (p, ex))
            (KS : ksorted d (seg_keys segF))
            (VS : vseg segF None LC = true)
            (TO : seg_tail_ok segF = true).

    Lemma S0 : sorted s0. Proof. exact (env_s _ _ E). Qed.
    Lemma Sc : sorted c. Proof. exact (env_c _ _ E). Qed.
    Lemma C0 : committed s0. Proof. exact (env_cs _ _ E). Qed.
    Lemma Cc : committed c. Proof. exact (env_cc _ _ E). Qed.
    Lemma Coh : coherent s0 c. Proof. exact (env_coh _ _ E). Qed.
    Local Hint Resolve S0 Sc C0 Cc : core.

    Lemma l1_In y : In y l1 <-> In y (view s0 ws) /\ in_range s (e_key y) = true /\ after_c d (rd_cursor rd) (e_key y).
    Proof. rewrite after_In, scan_In. tauto. Qed.
    Lemma l2_In y : In y l2 <-> In y (view c ws) /\ in_range s (e_key y) = true /\ after_c d (rd_cursor rd) (e_key y).
    Proof. rewrite after_In, scan_In. tauto. Qed.
    Lemma l1_sorted : dsorted d l1.
    Proof. apply after_sorted, scan_sorted, sorted_view; exact S0. Qed.
    Lemma l2_sorted : dsorted d l2.
    Proof. apply after_sorted, scan_sorted, sorted_view; exact Sc. Qed.
    Lemma LC_sorted : dsorted d LC.
    Proof. apply scan_sorted; exact Sc. Qed.

    Lemma VP : vpeek segF LC = true.
    Proof. rewrite <- VS. symmetry. apply (vseg_vpeek segF None LC). Qed.

    Lemma p_in_l1 : exists r, l1 = p ++ r /\ (ex = true -> r = []).
    Proof. eapply consumed_prefix; exact CO. Qed.

    (* a record of this Read for a key that is not an own key denotes that snapshot entry *)
    Lemma rec_p_com y k t :
      In y p -> rec_of y = XR k t -> in_ws k ws = false -> In y s0 /\ e_key y = k /\ e_tx y = t /\ t <> 0.
    Proof.
      intros Hy R W. inversion R; subst k t.
      destruct p_in_l1 as (r & El & _).
      assert (Hl : In y l1) by (rewrite El; apply in_or_app; auto).
      apply l1_In in Hl as (Hv & _ & _).
      destruct (view_elem_com ws y Hv W); auto.
    Qed.

    (* keys recorded later in the segment lie beyond everything this Read consumed *)
    Lemma later_beyond y k : In y p -> In k (seg_keys later) -> dlt d (e_key y) k.
    Proof.
      intros Hy Hk. pose proof KS as KS'. rewrite seg_keys_app in KS'.
      apply ksorted_app in KS' as (_ & _ & KS'). apply KS'; auto.
      rewrite !seg_keys_app, seg_keys_map. apply in_or_app; right. apply in_or_app; left.
      apply in_map; exact Hy.
    Qed.

    (* a current-state entry matched with a record of this Read is that snapshot entry *)
    Lemma matched_in_p x t :
      In (XR (e_key x) t) (map rec_of p) -> (t = 0 \/ t = e_tx x) ->
      In x c -> in_ws (e_key x) ws = false -> In x s0.
    Proof.
      intros Hm T Hc W. apply in_map_iff in Hm as (y & Ry & Hy).
      destruct (rec_p_com y _ _ Hy Ry W) as (Y0 & Yk & Yt & Tn).
      destruct T as [-> | ->]; [congruence|].
      assert (y = x) by (apply Coh; auto). subst y; exact Y0.
    Qed.

    (* a committed record reached by the validation loop is an entry of the current state *)
    Lemma reached_in_c r1 x r2 :
      segF = r1 ++ rec_of x :: r2 -> ~ In XNoMore r1 -> In x s0 -> In x c.
    Proof.
      intros Es N H0. pose proof VP as V. rewrite Es in V. unfold rec_of in V.
      destruct (vpeek_committed_in _ _ _ _ _ V N (C0 _ H0)) as (e & He & Ke & Te).
      apply scan_In in He as [He _]. assert (x = e) by (apply Coh; auto). subst e; exact He.
    Qed.

    (* AGREEMENT: on the keys this Read went through (all keys ahead of the cursor when the
       reader ran dry, those up to the entry returned otherwise), and outside the own write set,
       snapshot and current state hold the same entries *)
    Lemma agree_core x :
      in_ws (e_key x) ws = false -> in_range s (e_key x) = true ->
      after_c d (rd_cursor rd) (e_key x) ->
      (ex = true \/ exists p' eb, p = p' ++ [eb] /\ ~ dlt d (e_key eb) (e_key x)) ->
      (In x s0 <-> In x c).
    Proof.
      intros W R A B.
      destruct p_in_l1 as (rr & El & Er).
      (* membership of x in what was consumed, when x is a snapshot entry *)
      assert (XP : In x s0 -> In x p).
      { intros H0.
        assert (Hl : In x l1) by (apply l1_In; repeat split; auto; apply view_In_intro; auto).
        rewrite El in Hl. apply in_app_or in Hl as [Hl|Hl]; auto.
        destruct B as [B|(p' & eb & Ep & B)]; [rewrite (Er B) in Hl; destruct Hl|].
        exfalso; apply B. pose proof l1_sorted as SL. rewrite El, Ep in SL.
        apply dsorted_app in SL as (_ & _ & SL). apply SL; auto. apply in_or_app; right; left; reflexivity. }
      destruct (in_dec (fun a b : xread => ltac:(decide equality; [apply N.eq_dec | apply (list_eq_dec N.eq_dec)]))
                  XNoMore (xr_cur x1)) as [NM|NM].
      - (* the reader had already run dry in this segment *)
        split.
        + intros H0. pose proof (ri_exh _ _ _ I NM x H0 R A). congruence.
        + intros Hc. exfalso.
          destruct (first_nomore _ NM) as (r1 & r2 & Ep & N1).
          pose proof VP as V. rewrite Ep in V.
          rewrite <- !app_assoc in V. cbn [app] in V.
          destruct (vpeek_split _ _ _ _ V N1) as (P & pend' & EL & M & V').
          apply vpeek_nomore in V'. subst pend'. rewrite app_nil_r in EL.
          assert (Hx : In x P) by (rewrite <- EL; apply scan_In; auto).
          destruct (M x Hx) as (t & Ht & _).
          eapply (pre_not_after ws rd x1 (e_key x) t I); auto.
          rewrite Ep. apply in_or_app; left; exact Ht.
      - destruct (Bool.bool_dec ex true) as [EX|EX].
        + (* this Read ran dry: its expectedNoMoreEntries record is reached *)
          pose proof VP as V. rewrite EX in V.
          assert (Es : (xr_cur x1 ++ map rec_of p ++ [XNoMore]) ++ later =
                       (xr_cur x1 ++ map rec_of p) ++ XNoMore :: later)
            by (rewrite <- !app_assoc; reflexivity).
          rewrite Es in V.
          assert (N1 : ~ In XNoMore (xr_cur x1 ++ map rec_of p)).
          { intros H; apply in_app_or in H as [H|H]; [auto | exact (no_nomore_map _ H)]. }
          destruct (vpeek_split _ _ _ _ V N1) as (P & pend' & EL & M & V').
          apply vpeek_nomore in V'. subst pend'. rewrite app_nil_r in EL.
          split.
          * intros H0. pose proof (XP H0) as Hp.
            apply in_split in Hp as (u & v & Ep).
            apply (reached_in_c (xr_cur x1 ++ map rec_of u) x (map rec_of v ++ XNoMore :: later)); auto.
            -- rewrite EX, Ep, map_app. cbn [map]. rewrite <- !app_assoc. reflexivity.
            -- intros H; apply in_app_or in H as [H|H]; [auto | exact (no_nomore_map _ H)].
          * intros Hc.
            assert (Hx : In x P) by (rewrite <- EL; apply scan_In; auto).
            destruct (M x Hx) as (t & Ht & Tt).
            apply in_app_or in Ht as [Ht|Ht].
            -- exfalso; eapply (pre_not_after ws rd x1 (e_key x) t I); eauto.
            -- eapply matched_in_p; eauto.
        + (* an entry eb was returned *)
          apply Bool.not_true_is_false in EX.
          destruct B as [B|(p' & eb & Ep & B)]; [congruence|].
          assert (Heb : In eb p) by (rewrite Ep; apply in_or_app; right; left; reflexivity).
          (* the first record at or after eb's that is not an own write *)
          assert (AN : exists r1 a r2, segF = r1 ++ a :: r2 /\ ~ In XNoMore r1 /\ is_own_rec a = false /\
                   (forall r, In r r1 -> In r (xr_cur x1) \/ In r (map rec_of p) \/ In r later) /\
                   (forall y, In y p -> In (rec_of y) r1 \/ rec_of y = a) /\
                   (a = rec_of eb \/ In a later)).
          { destruct (e_tx eb =? 0) eqn:Teb.
            - (* eb is an own write: look into the rest of the segment *)
              assert (Ln : later <> []).
              { intros EL0. pose proof TO as T'. rewrite EL0, EX, app_nil_r, app_nil_r, Ep, map_app in T'.
                cbn [map] in T'. rewrite !app_assoc in T'. unfold seg_tail_ok in T'.
                rewrite rev_app_distr in T'. cbn in T'. rewrite Teb in T'. discriminate. }
              assert (TL : seg_tail_ok later = true).
              { pose proof TO as T'. rewrite seg_tail_ok_app in T'; auto. }
              destruct (first_nonown later Ln TL) as (o1 & a & l2' & El2 & Fo & Na).
              exists ((xr_cur x1 ++ map rec_of p) ++ o1), a, l2'.
              split; [rewrite EX, El2, app_nil_r, <- !app_assoc; reflexivity|].
              split.
              { intros H; apply in_app_or in H as [H|H]; [apply in_app_or in H as [H|H]|]; auto.
                - exact (no_nomore_map _ H).
                - exact (own_rec_no_nomore _ Fo H). }
              split; [exact Na|].
              split.
              { intros r H; apply in_app_or in H as [H|H]; [apply in_app_or in H as [H|H]|]; auto.
                right; right. rewrite El2. apply in_or_app; left; exact H. }
              split.
              { intros y Hy. left. apply in_or_app; left. apply in_or_app; right. apply in_map; exact Hy. }
              right. rewrite El2. apply in_or_app; right; left; reflexivity.
            - exists (xr_cur x1 ++ map rec_of p'), (rec_of eb), later.
              split; [rewrite EX, Ep, map_app, app_nil_r; cbn [map]; rewrite <- !app_assoc; reflexivity|].
              split; [intros H; apply in_app_or in H as [H|H]; [auto | exact (no_nomore_map _ H)]|].
              split; [unfold rec_of, is_own_rec; exact Teb|].
              split.
              { intros r H; apply in_app_or in H as [H|H]; auto.
                right; left. rewrite Ep, map_app. apply in_or_app; left; exact H. }
              split; [|left; reflexivity].
              intros y Hy. rewrite Ep in Hy. apply in_app_or in Hy as [Hy|[<-|[]]]; auto.
              left. apply in_or_app; right. apply in_map; exact Hy. }
          destruct AN as (r1 & a & r2 & Es & N1 & Na & Or & Pr & Wa).
          pose proof VP as V. rewrite Es in V.
          destruct (vpeek_split _ _ _ _ V N1) as (P & pend' & EL & M & V').
          (* keys of later records exceed eb's, hence x's *)
          assert (LB : forall k, In k (seg_keys later) -> e_key x <> k /\ ~ dlt d k (e_key x)).
          { intros k Hk. pose proof (later_beyond eb k Heb Hk) as L. split.
            - intros <-. exact (B L).
            - intros L'. apply B. eapply dlt_trans; eauto. }
          split.
          * intros H0. destruct (Pr x (XP H0)) as [Hr|Hr].
            -- apply in_split in Hr as (u & v & Er1).
               apply (reached_in_c u x (v ++ a :: r2)); auto.
               ++ rewrite Es, Er1, <- !app_assoc. reflexivity.
               ++ intros H; apply N1. rewrite Er1. apply in_or_app; left; exact H.
            -- apply (reached_in_c r1 x r2); auto. rewrite Es, Hr; reflexivity.
          * intros Hc.
            assert (Hx : In x (P ++ pend')) by (rewrite <- EL; apply scan_In; auto).
            apply in_app_or in Hx as [Hx|Hx].
            -- destruct (M x Hx) as (t & Ht & Tt).
               destruct (Or _ Ht) as [Hp|[Hm|Hl]].
               ++ exfalso; eapply (pre_not_after ws rd x1 (e_key x) t I); eauto.
               ++ eapply matched_in_p; eauto.
               ++ exfalso. apply seg_keys_In in Hl. destruct (LB _ Hl) as [NE _]. congruence.
            -- (* x is the entry matched by the anchor or lies beyond it *)
               destruct a as [ka ta|]; [|apply vpeek_nomore in V'; subst pend'; destruct Hx].
               assert (Ta : ta <> 0) by (unfold is_own_rec in Na; apply N.eqb_neq; exact Na).
               destruct (vpeek_committed _ _ _ _ V' Ta) as (ea & Rr & -> & Ka & Ta').
               pose proof LC_sorted as SL. rewrite EL in SL.
               assert (KA : ka = e_key eb \/ In ka (seg_keys later)).
               { destruct Wa as [Wa|Wa]; [left; inversion Wa; reflexivity | right; eapply seg_keys_In; eauto]. }
               destruct Hx as [<-|Hx].
               ++ destruct Wa as [Wa|Wa].
                  ** injection Wa as Ek Et.
                     assert (Kk : e_key eb = e_key ea) by congruence.
                     assert (Tt : e_tx eb = e_tx ea) by congruence.
                     assert (H0 : In eb s0).
                     { destruct (rec_p_com eb _ _ Heb eq_refl) as (H & _); auto. rewrite Kk; exact W. }
                     assert (eb = ea) by (apply Coh; auto). subst eb; exact H0.
                  ** exfalso. apply seg_keys_In in Wa. destruct (LB _ Wa) as [NE _]. congruence.
               ++ exfalso.
                  assert (L : dlt d (e_key ea) (e_key x)).
                  { apply dsorted_app in SL as (_ & SL & _). apply dsorted_inv in SL as [SL _].
                    unfold lt_all in SL; rewrite Forall_forall in SL; auto. }
                  rewrite Ka in L. destruct KA as [->|KA]; [exact (B L)|].
                  destruct (LB _ KA) as [_ NL]. exact (NL L).
    Qed.

    (* the same Read on the current state consumes the same entries *)
    Lemma read_prefix : exists r2, l2 = p ++ r2 /\ (ex = true -> r2 = []).
    Proof.
      destruct p_in_l1 as (rr & El & Er).
      (* membership agreement between the two views on the interval *)
      assert (AG : forall x, (ex = true \/ exists p' eb, p = p' ++ [eb] /\ ~ dlt d (e_key eb) (e_key x)) ->
                   (In x l1 <-> In x l2)).
      { intros x B. rewrite l1_In, l2_In.
        split; intros (Hv & R & A); repeat split; auto.
        - destruct (own x) eqn:O.
          + destruct (view_In_own _ _ _ S0 C0 Hv O) as [_ T]; auto.
          + destruct (view_In_com _ _ _ S0 Hv O) as [W H0].
            apply view_In_intro; auto. apply (agree_core x W R A B); exact H0.
        - destruct (own x) eqn:O.
          + destruct (view_In_own _ _ _ Sc Cc Hv O) as [_ T]; auto.
          + destruct (view_In_com _ _ _ Sc Hv O) as [W Hc].
            apply view_In_intro; auto. apply (agree_core x W R A B); exact Hc. }
      destruct (Bool.bool_dec ex true) as [EX|EX].
      - exists []. split; auto. rewrite app_nil_r.
        rewrite (Er EX), app_nil_r in El. rewrite <- El.
        apply dsorted_ext with d; auto using l1_sorted, l2_sorted.
        intros x; symmetry; apply AG; auto.
      - apply Bool.not_true_is_false in EX. pose proof CO as CO'. rewrite EX in CO'.
        destruct (consumed_nonempty _ _ _ _ _ CO') as (p' & eb & Ep).
        assert (Hex : forall r2 : list entry, ex = true -> r2 = []) by (intros; congruence).
        enough (exists r2, l2 = p ++ r2) as (r2 & Hr2) by (exists r2; split; auto).
        rewrite Ep in El |- *.
        apply (sorted_prefix_eq d l1 l2 p' eb rr); auto using l1_sorted, l2_sorted.
        intros x B. apply AG. right; exists p', eb; auto.
    Qed.
  End OneRead.
End ReaderSim.
