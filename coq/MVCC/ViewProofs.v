(* C05 — the transaction's view (snapshot overlaid with own writes); point reads and prefix
   reads return on the current state what they returned on the snapshot when their read-set
   record validates *)
From V Require Import MVCC.Spec MVCC.SpecProofs MVCC.Tx MVCC.Validate.
From Coq Require Import ZifyN ZifyNat ZifyBool.

(* ---------- what is assumed of a snapshot state s and a current state c ---------- *)
Definition committed (s : state) : Prop := forall e, In e s -> e_tx e <> 0.
(* the same key written by the same transaction is the same entry *)
Definition coherent (s c : state) : Prop :=
  forall a b, In a s -> In b c -> e_key a = e_key b -> e_tx a = e_tx b -> a = b.
(* keys never disappear *)
Definition persists (s c : state) : Prop :=
  forall a, In a s -> exists b, In b c /\ e_key b = e_key a.

Record env (s c : state) : Prop := mkEnv {
  env_s : sorted s; env_c : sorted c;
  env_cs : committed s; env_cc : committed c;
  env_coh : coherent s c; env_per : persists s c }.

(* ---------- own writes in the view ---------- *)
Definition in_ws (k : bytes) (ws : list wentry) : bool := existsb (fun w => keq k (w_key w)) ws.

Lemma own_own_entry w : own (own_entry w) = true.
Proof. reflexivity. Qed.

Lemma sorted_view s ws : sorted s -> sorted (view s ws).
Proof.
  unfold view; revert s; induction ws as [|w ws IH]; simpl; intros s S; auto.
  apply IH; apply sorted_upsert; exact S.
Qed.

Lemma view_cases k ws :
  (in_ws k ws = true /\ exists w, In w ws /\ w_key w = k /\ forall s, lookup k (view s ws) = Some (own_entry w)) \/
  (in_ws k ws = false /\ forall s, lookup k (view s ws) = lookup k s).
Proof.
  unfold view; induction ws as [|w ws IH]; simpl.
  - right; split; auto.
  - destruct IH as [(I & w' & Hw & Hk & L)|(I & L)].
    + left; split; [rewrite I; apply orb_true_r|]. exists w'; repeat split; auto.
    + destruct (keq k (w_key w)) eqn:E; simpl.
      * left; split; auto. exists w. apply keq_true in E. repeat split; auto.
        intros s; rewrite L. subst k. apply (lookup_upsert_same (own_entry w)).
      * right; split; auto. intros s; rewrite L. apply lookup_upsert_other.
        apply keq_false in E; exact E.
Qed.

Lemma view_other k ws s : in_ws k ws = false -> lookup k (view s ws) = lookup k s.
Proof. intros H; destruct (view_cases k ws) as [(I & _)|(_ & L)]; [congruence | apply L]. Qed.

Lemma view_own k ws : in_ws k ws = true ->
  exists w, In w ws /\ w_key w = k /\ forall s, lookup k (view s ws) = Some (own_entry w).
Proof. intros H; destruct (view_cases k ws) as [(_ & L)|(I & _)]; [exact L | congruence]. Qed.

Lemma in_ws_In k ws : in_ws k ws = true <-> exists w, In w ws /\ w_key w = k.
Proof.
  unfold in_ws; rewrite existsb_exists; split; intros (w & H1 & H2); exists w; split; auto.
  - apply keq_true in H2; auto.
  - apply keq_true; auto.
Qed.

(* membership in a view *)
Lemma view_In_own s ws x :
  sorted s -> committed s -> In x (view s ws) -> own x = true ->
  in_ws (e_key x) ws = true /\ forall s', sorted s' -> In x (view s' ws).
Proof.
  intros S Cm Hx Ox.
  pose proof (In_lookup false _ _ (sorted_view s ws S) Hx) as L.
  destruct (view_cases (e_key x) ws) as [(I & w & _ & _ & Lw)|(I & Lo)].
  - split; auto. intros s' S'. rewrite Lw in L. apply lookup_In with (k := e_key x).
    rewrite Lw; exact L.
  - rewrite Lo in L. apply lookup_In in L. apply Cm in L. unfold own in Ox.
    apply N.eqb_eq in Ox; contradiction.
Qed.

Lemma view_In_com s ws x :
  sorted s -> In x (view s ws) -> own x = false -> in_ws (e_key x) ws = false /\ In x s.
Proof.
  intros S Hx Ox.
  pose proof (In_lookup false _ _ (sorted_view s ws S) Hx) as L.
  destruct (view_cases (e_key x) ws) as [(I & w & _ & _ & Lw)|(I & Lo)].
  - rewrite Lw in L; inversion L; subst x. discriminate.
  - rewrite Lo in L. split; auto. eapply lookup_In; eauto.
Qed.

Lemma view_In_intro s ws x :
  sorted s -> In x s -> in_ws (e_key x) ws = false -> In x (view s ws).
Proof.
  intros S Hx I. apply lookup_In with (k := e_key x). rewrite view_other by exact I.
  apply In_lookup with false; auto.
Qed.

Lemma view_ws_member k ws :
  in_ws k ws = true ->
  exists o, own o = true /\ e_key o = k /\ forall s, sorted s -> In o (view s ws).
Proof.
  intros I. destruct (view_own k ws I) as (w & _ & Hk & L).
  exists (own_entry w); repeat split; auto. intros s S. eapply lookup_In; apply L.
Qed.

Lemma committed_not_own s x : committed s -> In x s -> own x = false.
Proof.
  intros Cm Hx. unfold own. apply N.eqb_neq. apply Cm; exact Hx.
Qed.

Lemma filtered_ff fs : filtered fs false false = false.
Proof. unfold filtered; induction fs as [|f fs IH]; simpl; auto. destruct f; simpl; auto. Qed.

Lemma raw_com s x : committed s -> In x s -> raw_del x = e_del x /\ raw_exp x = e_exp x.
Proof.
  intros Cm Hx. unfold raw_del, raw_exp. rewrite (committed_not_own s x Cm Hx); auto.
Qed.
Lemma raw_own x : own x = true -> raw_del x = false /\ raw_exp x = false.
Proof. intros O; unfold raw_del, raw_exp; rewrite O; auto. Qed.

(* ---------- point reads ---------- *)
Lemma get_some fs k l e : get fs k l = Some e -> In e l /\ e_key e = k.
Proof.
  unfold get. destruct (lookup k l) as [x|] eqn:L; [|discriminate].
  destruct (filtered fs (raw_del x) (raw_exp x)); [discriminate|].
  intros H; inversion H; subst x. split; [eapply lookup_In | eapply lookup_key]; eauto.
Qed.

Section PointReads.
  Context (s0 c : state) (E : env s0 c).

  Lemma get_sim ws k fs :
    match get fs k (view s0 ws) with
    | None => vget c (mkXG k fs 0) = true -> get fs k (view c ws) = None
    | Some e => if own e then get fs k (view c ws) = Some e
                else vget c (mkXG k fs (e_tx e)) = true -> get fs k (view c ws) = Some e
    end.
  Proof.
    destruct E as [S0 Sc C0 Cc Coh Per].
    destruct (view_cases k ws) as [(I & w & _ & _ & L)|(I & L)].
    - unfold get at 1. rewrite L. destruct (raw_own (own_entry w) eq_refl) as [-> ->].
      rewrite filtered_ff. simpl own. cbv iota. unfold get; rewrite L.
      destruct (raw_own (own_entry w) eq_refl) as [-> ->]. rewrite filtered_ff; reflexivity.
    - assert (G0 : get fs k (view s0 ws) = get fs k s0) by (unfold get; rewrite L; reflexivity).
      assert (Gc : get fs k (view c ws) = get fs k c) by (unfold get; rewrite L; reflexivity).
      rewrite G0, Gc. unfold vget; cbn [g_fs g_key g_tx].
      destruct (get fs k s0) as [e|] eqn:G.
      + apply get_some in G as [He Hk].
        rewrite (committed_not_own _ _ C0 He).
        destruct (get fs k c) as [e'|] eqn:G'.
        * intros T; apply N.eqb_eq in T. apply get_some in G' as [He' Hk'].
          f_equal; symmetry; apply Coh; auto; congruence.
        * intros T; apply N.eqb_eq in T. exfalso; exact (C0 _ He T).
      + destruct (get fs k c) as [e'|] eqn:G'; auto.
        intros T; apply N.eqb_eq in T. apply get_some in G' as [He' _].
        exfalso; apply (Cc _ He'); auto.
  Qed.
End PointReads.

(* ---------- prefix reads ---------- *)
Definition gwp_of (fs : list filt) (prefix : bytes) (m : option entry) : option entry :=
  match m with
  | None => None
  | Some e => if has_prefix prefix (e_key e)
              then if filtered fs (raw_del e) (raw_exp e) then None else Some e
              else None
  end.
Lemma gwp_unfold fs p n l :
  get_with_prefix fs p n l = gwp_of fs p (find (fun e => pfx_cand p n (e_key e)) l).
Proof. reflexivity. Qed.

Lemma gwp_of_some fs p m e : gwp_of fs p m = Some e -> m = Some e.
Proof.
  unfold gwp_of; destruct m as [x|]; [|discriminate].
  destruct (has_prefix p (e_key x)); [|discriminate].
  destruct (filtered fs (raw_del x) (raw_exp x)); [discriminate|]. intros H; inversion H; reflexivity.
Qed.

Lemma find_some_In {A} (f : A -> bool) l x : find f l = Some x -> In x l /\ f x = true.
Proof. apply find_some. Qed.

(* the first candidate of a view, when it is a committed entry, is the first candidate of the state *)
Lemma find_view_com (P : bytes -> bool) s ws x :
  sorted s -> committed s ->
  find (fun e => P (e_key e)) (view s ws) = Some x -> own x = false ->
  find (fun e => P (e_key e)) s = Some x.
Proof.
  intros S Cm F O.
  destruct (find_some_min P _ _ (sorted_view s ws S) F) as (I & Px & M).
  destruct (view_In_com _ _ _ S I O) as [W Hx].
  apply find_is_min; auto.
  intros y Hy Py. destruct (in_ws (e_key y) ws) eqn:Wy.
  - destruct (view_ws_member _ _ Wy) as (o & Oo & Ko & Ho).
    destruct (M o (Ho s S)) as [->|L]; [rewrite Ko; exact Py | congruence | right; rewrite <- Ko; exact L].
  - apply M; auto. apply view_In_intro; auto.
Qed.

(* when the first candidate of a view is an own write, the first candidate of the view over any
   other state is that own write or a smaller committed entry *)
Lemma find_view_own (P : bytes -> bool) s s' ws x :
  sorted s -> committed s -> sorted s' -> committed s' ->
  find (fun e => P (e_key e)) (view s ws) = Some x -> own x = true ->
  exists x2, find (fun e => P (e_key e)) (view s' ws) = Some x2 /\
             (x2 = x \/ (own x2 = false /\ dlt false (e_key x2) (e_key x))).
Proof.
  intros S Cm S' Cm' F O.
  destruct (find_some_min P _ _ (sorted_view s ws S) F) as (I & Px & M).
  destruct (view_In_own _ _ _ S Cm I O) as [W A].
  destruct (find (fun e => P (e_key e)) (view s' ws)) as [x2|] eqn:F2.
  2:{ rewrite find_none_all in F2. rewrite (F2 x (A _ S')) in Px; discriminate. }
  exists x2; split; auto.
  destruct (find_some_min P _ _ (sorted_view s' ws S') F2) as (I2 & P2 & M2).
  destruct (M2 x (A _ S') Px) as [->|L]; auto.
  right; split; auto. destruct (own x2) eqn:O2; auto.
  destruct (view_In_own _ _ _ S' Cm' I2 O2) as [_ A2].
  destruct (M x2 (A2 _ S) P2) as [->|L']; [exfalso; exact (dlt_irrefl _ _ L)|].
  exfalso; eapply dlt_asym; eauto.
Qed.

Lemma gwp_some_In fs p n l e : get_with_prefix fs p n l = Some e -> In e l.
Proof.
  rewrite gwp_unfold; intros H; apply gwp_of_some in H. apply find_some in H as [H _]; exact H.
Qed.

Section PrefixReads.
  Context (s0 c : state) (E : env s0 c).

  Lemma vpget_nf p n fs : vpget c (mkXP p n fs [] 0) = true -> get_with_prefix fs p n c = None.
  Proof.
    unfold vpget; cbn [p_fs p_prefix p_neq p_key p_tx]. destruct (get_with_prefix fs p n c) as [e'|] eqn:G; auto.
    intros H; apply andb_prop in H as [_ H]. apply N.eqb_eq in H.
    exfalso; apply (env_cc _ _ E e'); [eapply gwp_some_In; eauto | auto].
  Qed.

  Lemma vpget_found p n fs k t :
    vpget c (mkXP p n fs k t) = true -> t <> 0 ->
    exists e', get_with_prefix fs p n c = Some e' /\ e_key e' = k /\ e_tx e' = t.
  Proof.
    unfold vpget; cbn [p_fs p_prefix p_neq p_key p_tx]. destruct (get_with_prefix fs p n c) as [e'|] eqn:G.
    - intros H _; apply andb_prop in H as [H1 H2]. apply keq_true in H1. apply N.eqb_eq in H2.
      exists e'; auto.
    - intros H N0; apply N.eqb_eq in H; contradiction.
  Qed.

  Lemma pget_sim ws p n fs :
    match get_with_prefix fs p n (view s0 ws) with
    | None => vpget c (mkXP p n fs [] 0) = true -> get_with_prefix fs p n (view c ws) = None
    | Some e => own e = false -> vpget c (mkXP p n fs (e_key e) (e_tx e)) = true ->
                get_with_prefix fs p n (view c ws) = Some e
    end.
  Proof.
    pose proof E as [S0 Sc C0 Cc Coh Per].
    set (P := pfx_cand p n).
    pose proof (sorted_view s0 ws S0) as SV1. pose proof (sorted_view c ws Sc) as SV2.
    (* whenever the first candidate of the current view is a committed entry, both reads of the
       current state compute the same thing *)
    assert (SAME : forall x2, find (fun e => P (e_key e)) (view c ws) = Some x2 -> own x2 = false ->
                   get_with_prefix fs p n (view c ws) = get_with_prefix fs p n c).
    { intros x2 F2 O2. rewrite !gwp_unfold. fold P. rewrite F2.
      rewrite (find_view_com P c ws x2 Sc Cc F2 O2); reflexivity. }
    destruct (get_with_prefix fs p n (view s0 ws)) as [r|] eqn:R1.
    - (* found *)
      intros Or V.
      pose proof R1 as F1. rewrite gwp_unfold in F1. fold P in F1.
      pose proof (gwp_of_some _ _ _ _ F1) as F1'.
      destruct (find_some_min P _ _ SV1 F1') as (I1 & P1 & M1).
      destruct (view_In_com _ _ _ S0 I1 Or) as [W1 H1].
      destruct (vpget_found _ _ _ _ _ V (C0 _ H1)) as (e' & G' & K' & T').
      pose proof (gwp_some_In _ _ _ _ _ G') as I'.
      assert (e' = r) by (symmetry; apply Coh; auto). subst e'.
      pose proof G' as FC. rewrite gwp_unfold in FC. fold P in FC. apply gwp_of_some in FC.
      destruct (find_some_min P _ _ Sc FC) as (_ & _ & MC).
      assert (F2 : find (fun e => P (e_key e)) (view c ws) = Some r).
      { apply find_is_min; auto.
        - apply view_In_intro; auto.
        - intros x Hx Px. destruct (own x) eqn:Ox.
          + destruct (view_In_own _ _ _ Sc Cc Hx Ox) as [_ A]. apply M1; auto.
          + destruct (view_In_com _ _ _ Sc Hx Ox) as [_ Hc]. apply MC; auto. }
      rewrite (SAME r F2 Or). exact G'.
    - (* not found *)
      intros V. apply vpget_nf in V.
      pose proof R1 as F1. rewrite gwp_unfold in F1. fold P in F1.
      destruct (find (fun e => P (e_key e)) (view c ws)) as [x2|] eqn:F2.
      2:{ rewrite gwp_unfold. fold P. rewrite F2. reflexivity. }
      destruct (own x2) eqn:O2; [|rewrite (SAME x2 eq_refl O2); exact V].
      (* the first candidate of the current view is an own write: it was a candidate of the
         snapshot view too *)
      destruct (find_some_min P _ _ SV2 F2) as (I2 & P2 & M2).
      destruct (view_In_own _ _ _ Sc Cc I2 O2) as [W2 A2].
      destruct (find (fun e => P (e_key e)) (view s0 ws)) as [e1|] eqn:F1'.
      2:{ rewrite find_none_all in F1'. rewrite (F1' x2 (A2 _ S0)) in P2; discriminate. }
      destruct (find_some_min P _ _ SV1 F1') as (I1 & P1 & M1).
      destruct (own e1) eqn:O1.
      + destruct (find_view_own P s0 c ws e1 S0 C0 Sc Cc F1' O1) as (y & Fy & [->|[Oy _]]).
        * rewrite gwp_unfold. fold P. rewrite Fy. exact F1.
        * rewrite F2 in Fy; inversion Fy; subst y; congruence.
      + (* e1 committed: its key is still in c, below every own candidate *)
        exfalso.
        destruct (view_In_com _ _ _ S0 I1 O1) as [W1 H1].
        destruct (Per _ H1) as (b & Hb & Kb).
        assert (Ib : In b (view c ws)) by (apply view_In_intro; auto; rewrite Kb; exact W1).
        assert (Pb : P (e_key b) = true) by (rewrite Kb; exact P1).
        destruct (M2 b Ib Pb) as [->|L2].
        * rewrite (committed_not_own _ _ Cc Hb) in O2; discriminate.
        * destruct (M1 x2 (A2 _ S0) P2) as [->|L1]; [congruence|].
          rewrite Kb in L2. eapply dlt_asym; eauto.
  Qed.

  (* a prefix read answered by the own write of the prefix itself: no smaller key can carry
     the prefix, the answer is the same on every state *)
  Lemma pget_sim_own ws p n fs e :
    get_with_prefix fs p n (view s0 ws) = Some e -> own e = true -> e_key e = p ->
    get_with_prefix fs p n (view c ws) = Some e.
  Proof.
    pose proof E as [S0 Sc C0 Cc Coh Per].
    intros G O K. pose proof G as G'. rewrite gwp_unfold in G'. pose proof (gwp_of_some _ _ _ _ G') as F1.
    destruct (find_view_own (pfx_cand p n) s0 c ws e S0 C0 Sc Cc F1 O) as (x2 & F2 & [->|[O2 L]]).
    - rewrite gwp_unfold, F2. rewrite F1 in G'. exact G'.
    - exfalso. apply find_some in F2 as [_ P2]. unfold pfx_cand in P2.
      apply andb_prop in P2 as [_ P2]. rewrite K in L. unfold dlt in L. simpl in L.
      apply bcmp_gt_lt in L. rewrite L in P2. discriminate.
  Qed.
End PrefixReads.
