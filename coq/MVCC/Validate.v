(* C05 — commit-time validation of the MVCC read-set (OngoingTx.checkPreconditions, called by
   ImmuStore.precommit with the store mutex held, after waiting for the index to reach the last
   precommitted transaction) and the machine that interleaves transactions.  No proofs here. *)
From V Require Export MVCC.Tx.

(* expectedGets: re-executed against the current committed state c; the tx id is compared *)
Definition vget (c : state) (g : xget) : bool :=
  match get (g_fs g) (g_key g) c with
  | None => g_tx g =? 0                         (* ErrKeyNotFound: conflict iff expectedTx > 0 *)
  | Some e => g_tx g =? e_tx e
  end.

(* expectedGetsWithPrefix: key and tx id are compared *)
Definition vpget (c : state) (g : xpget) : bool :=
  match get_with_prefix (p_fs g) (p_prefix g) (p_neq g) c with
  | None => p_tx g =? 0
  | Some e => keq (p_key g) (e_key e) && (p_tx g =? e_tx e)
  end.

(* expectedReaders: one segment of expected reads replayed on a fresh reader over c.
   carry = the (key, valRef) pair read from the current state and not yet matched
   (`if len(key) == 0 { key, valRef, err = reader.Read(ctx) }`); rest = what the reader has
   not yielded yet. *)
Fixpoint vseg (recs : list xread) (carry : option entry) (rest : list entry) : bool :=
  match recs with
  | [] => true
  | r :: recs' =>
      let cur := match carry with Some e => Some e | None => hd_error rest end in
      let rest' := match carry with Some _ => rest | None => tl rest end in
      match r with
      | XNoMore =>                                   (* expectedNoMoreEntries: then `break` *)
          match cur with Some _ => false | None => true end
      | XR k tx =>
          if tx =? 0 then                            (* written by the transaction itself *)
            match cur with
            | Some e => if keq k (e_key e) then vseg recs' None rest'      (* key = nil *)
                        else vseg recs' (Some e) rest'                     (* carried over *)
            | None => vseg recs' None rest'                                (* ErrNoMoreEntries *)
            end
          else
            match cur with
            | None => false                          (* fetching less entries than expected *)
            | Some e => if keq k (e_key e) && (tx =? e_tx e) then vseg recs' None rest'
                        else false                   (* a different key or an updated one *)
            end
      end
  end.

Definition vreader (c : state) (x : xreader) : bool :=
  let l := scan (xr_spec x) c in
  forallb (fun seg => vseg seg None l) (xr_done x ++ [xr_cur x]).

Fixpoint fp_eqb (a b : list (bytes * N)) : bool :=
  match a, b with
  | [], [] => true
  | (k1, t1) :: a', (k2, t2) :: b' => keq k1 k2 && (t1 =? t2) && fp_eqb a' b'
  | _, _ => false
  end.
Definition vfp (c : state) (f : xfp) : bool := fp_eqb (f_list f) (fp_of (scan (f_spec f) c)).

Definition validate (c : state) (r : readset) : bool :=
  forallb (vget c) (r_gets r) && forallb (vpget c) (r_pgets r) &&
  forallb (vreader c) (r_readers r) && forallb (vfp c) (r_fps r).

(* ---- commit ---- *)
Inductive outcome := CCommitted | CConflict | COther.

(* Snapshot.Ts() of the transaction's snapshot: sid, or sid+1 once set() inserted into it *)
Definition snap_ts (sid : N) (tx : otx) : N := match t_ws tx with [] => sid | _ => sid + 1 end.

(* precommit: n = last precommitted tx id, c = committed state after n, sid = tx id the
   transaction's snapshot was taken at *)
Definition decide (n sid : N) (c : state) (tx : otx) : outcome :=
  match committed_ws tx with
  | [] => COther                                    (* ErrNoEntriesProvided *)
  | _ =>
      if rs_is_empty (t_rs tx) then CCommitted      (* !hasPreconditions() *)
      else if n <? snap_ts sid tx then CCommitted   (* txSnap.Ts() > LastPrecommittedTxID() *)
      else if validate c (t_rs tx) then CCommitted else CConflict
  end.

(* ---- the store as a log of committed write sets; transaction i is the i-th element ---- *)
Definition log := list (list wentry).

Fixpoint build (s : state) (next : N) (l : log) : state :=
  match l with
  | [] => s
  | ws :: r => build (apply_tx next ws s) (next + 1) r
  end.
Definition state_at (l : log) (i : N) : state := build [] 1 (firstn (N.to_nat i) l).
Definition last_id (l : log) : N := N.of_nat (length l).

(* an active read-write transaction: harness-level id, snapshot tx id, the operations executed
   so far, the OngoingTx, what the program observed *)
Record atx := mkA { a_tid : N; a_sid : N; a_prog : list op; a_tx : otx; a_obs : list obs }.
(* a committed read-write transaction *)
Record crec := mkC { c_txid : N; c_sid : N; c_prog : list op; c_tx : otx; c_obs : list obs }.
Record gstate := mkG { g_log : log; g_act : list atx; g_done : list crec }.

Inductive gstep :=
| GBegin (tid sid : N)            (* first snapshot-taking operation is about to run: snapshot at sid *)
| GOp (tid : N) (o : op)
| GCommit (tid : N)
| GCancel (tid : N)
| GWriteOnly (ws : list wentry).  (* a write-only transaction committing ws *)

Inductive gout :=
| UNone
| UInvalid                         (* the step does not apply (unknown tid, snapshot in the future) *)
| UObs (b : obs)
| UOut (o : outcome) (txid : N).   (* txid meaningful when committed *)

Fixpoint find_act (tid : N) (l : list atx) : option atx :=
  match l with
  | [] => None
  | a :: r => if a_tid a =? tid then Some a else find_act tid r
  end.
Fixpoint remove_act (tid : N) (l : list atx) : list atx :=
  match l with
  | [] => []
  | a :: r => if a_tid a =? tid then r else a :: remove_act tid r
  end.
Fixpoint update_act (a' : atx) (l : list atx) : list atx :=
  match l with
  | [] => []
  | a :: r => if a_tid a =? a_tid a' then a' :: r else a :: update_act a' r
  end.

Definition gexec (g : gstate) (s : gstep) : gstate * gout :=
  let n := last_id (g_log g) in
  match s with
  | GBegin tid sid =>
      match find_act tid (g_act g) with
      | Some _ => (g, UInvalid)
      | None => if sid <=? n
                then (mkG (g_log g) (mkA tid sid [] tx_empty [] :: g_act g) (g_done g), UNone)
                else (g, UInvalid)
      end
  | GOp tid o =>
      match find_act tid (g_act g) with
      | None => (g, UInvalid)
      | Some a =>
          let '(tx', b) := exec_op (state_at (g_log g) (a_sid a)) (a_tx a) o in
          (mkG (g_log g)
               (update_act (mkA tid (a_sid a) (a_prog a ++ [o]) tx' (a_obs a ++ [b])) (g_act g))
               (g_done g), UObs b)
      end
  | GCommit tid =>
      match find_act tid (g_act g) with
      | None => (g, UInvalid)
      | Some a =>
          match decide n (a_sid a) (state_at (g_log g) n) (a_tx a) with
          | CCommitted =>
              (mkG (g_log g ++ [committed_ws (a_tx a)]) (remove_act tid (g_act g))
                   (mkC (n + 1) (a_sid a) (a_prog a) (a_tx a) (a_obs a) :: g_done g),
               UOut CCommitted (n + 1))
          | o => (mkG (g_log g) (remove_act tid (g_act g)) (g_done g), UOut o 0)
          end
      end
  | GCancel tid =>
      match find_act tid (g_act g) with
      | None => (g, UInvalid)
      | Some _ => (mkG (g_log g) (remove_act tid (g_act g)) (g_done g), UNone)
      end
  | GWriteOnly ws =>
      match ws with
      | [] => (g, UOut COther 0)
      | _ => (mkG (g_log g ++ [ws]) (g_act g) (g_done g), UOut CCommitted (n + 1))
      end
  end.

Fixpoint grun (g : gstate) (ss : list gstep) : gstate :=
  match ss with
  | [] => g
  | s :: r => grun (fst (gexec g s)) r
  end.

Definition g_init (l : log) : gstate := mkG l [] [].
