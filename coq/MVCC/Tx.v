(* C05 — model of store.OngoingTx (read-write mode, default "safe" MVCC, one index).

   An ongoing transaction = (snapshot state, local write set, MVCC read-set, open key readers).
   Every read returns its result AND appends to the read-set exactly what the Go code appends
   (embedded/store/ongoing_tx.go, ongoing_tx_keyreader.go).  No proofs in this file.

   Not modelled: ReadBetween (history reads), the read-set size limit, non-indexable entries,
   several indexes, preconditions (C06), unsafe MVCC. *)
From V Require Export MVCC.Spec.

(* ---- MVCC read-set (ongoing_tx.go mvccReadSet) ---- *)
(* expectedGet: g_tx = 0 denotes non-existence *)
Record xget := mkXG { g_key : bytes; g_fs : list filt; g_tx : N }.
(* expectedGetWithPrefix: p_key = [] and p_tx = 0 denote non-existence *)
Record xpget := mkXP { p_prefix : bytes; p_neq : bytes; p_fs : list filt; p_key : bytes; p_tx : N }.
(* expectedRead: XR key tx (tx = 0: entry created/updated by the ongoing tx) | expectedNoMoreEntries *)
Inductive xread := XR (k : bytes) (tx : N) | XNoMore.
(* expectedReader: the segments closed by Reset (oldest first) and the current one *)
Record xreader := mkXRd { xr_spec : rspec; xr_done : list (list xread); xr_cur : list xread }.
(* expectedPrefixFingerprint: sha256 over the (len key, key, tx) tuples; the model keeps the
   hashed sequence itself (equal hashes <-> equal sequences, SHA-256 collisions aside) *)
Record xfp := mkXF { f_spec : rspec; f_list : list (bytes * N) }.

Record readset := mkRSet { r_gets : list xget; r_pgets : list xpget;
                           r_readers : list xreader; r_fps : list xfp }.
Definition rs_empty : readset := mkRSet [] [] [] [].
Definition rs_is_empty (r : readset) : bool :=
  match r_gets r, r_pgets r, r_readers r, r_fps r with [], [], [], [] => true | _, _, _, _ => false end.

(* ongoingTxKeyReader: spec, filters and offset handled by the wrapper, entries skipped so far
   (NOT cleared by Reset), and the position of the underlying tbtree reader, represented by the
   last key it yielded since creation/Reset *)
Record rstate := mkRd { rd_spec : rspec; rd_fs : list filt; rd_offset : N;
                        rd_skipped : N; rd_cursor : option bytes }.

Record otx := mkTx { t_ws : list wentry; t_rs : readset; t_rds : list rstate;
                     (* ghost flag (not in the code): set when GetWithPrefix returned an entry of
                        the own write set other than the prefix itself; the code records nothing
                        for it, although a smaller key with the prefix may get committed *)
                     t_pown : bool }.
Definition tx_empty : otx := mkTx [] rs_empty [] false.

(* ---- operations of a transaction program and what the program observes ---- *)
Inductive op :=
| OGet (k : bytes) (fs : list filt)                       (* GetWithFilters; Get = [FExp; FDel] *)
| OGetPrefix (prefix neq : bytes) (fs : list filt)        (* GetWithPrefixAndFilters *)
| OSet (k v : bytes) (del exp tr : bool)                  (* Set / SetTransient with KVMetadata *)
| ODelete (k : bytes)
| ONewReader (s : rspec) (fs : list filt) (offset : N)    (* NewKeyReader; its id = number of readers before *)
| ORead (rid : N)
| OReset (rid : N)
| OMark (s : rspec).                                      (* MarkPrefixScanned *)

Inductive obs :=
| BNotFound             (* ErrKeyNotFound (incl. ErrExpiredEntry, which wraps it) *)
| BFound (e : entry)    (* key, value, tx id (0 = own write), metadata flags *)
| BNoMore               (* ErrNoMoreEntries *)
| BOk
| BErr.                 (* any other error *)

(* ---- the transaction's view: snapshot + own writes (tbtree snapshot with the dummy entries
   inserted by set() read through the refInterceptor) ---- *)
Definition own_entry (w : wentry) : entry := mkE (w_key w) (w_val w) 0 (w_del w) (w_exp w).
Definition view (s0 : state) (ws : list wentry) : state :=
  fold_left (fun s w => upsert (own_entry w) s) ws s0.

Fixpoint find_w (k : bytes) (ws : list wentry) : option wentry :=
  match ws with
  | [] => None
  | w :: r => if keq k (w_key w) then Some w else find_w k r
  end.
(* entries[keyRef] = e *)
Fixpoint replace_w (w : wentry) (ws : list wentry) : list wentry :=
  match ws with
  | [] => []
  | x :: r => if keq (w_key w) (w_key x) then w :: r else x :: replace_w w r
  end.

(* OngoingTx.set *)
Definition do_set (tx : otx) (w : wentry) : otx * obs :=
  if is_nil (w_key w) || (max_key_size <? length (w_key w))%nat then (tx, BErr)
  else match find_w (w_key w) (t_ws tx) with
       | Some old =>
           if Bool.eqb (w_tr old) (w_tr w)
           then (mkTx (replace_w w (t_ws tx)) (t_rs tx) (t_rds tx) (t_pown tx), BOk)
           else (tx, BErr)                                   (* ErrCannotUpdateKeyTransiency *)
       | None => (mkTx (t_ws tx ++ [w]) (t_rs tx) (t_rds tx) (t_pown tx), BOk)
       end.

Definition add_get (tx : otx) (g : xget) : otx :=
  let r := t_rs tx in
  mkTx (t_ws tx) (mkRSet (r_gets r ++ [g]) (r_pgets r) (r_readers r) (r_fps r)) (t_rds tx) (t_pown tx).
Definition add_pget (tx : otx) (g : xpget) : otx :=
  let r := t_rs tx in
  mkTx (t_ws tx) (mkRSet (r_gets r) (r_pgets r ++ [g]) (r_readers r) (r_fps r)) (t_rds tx) (t_pown tx).

(* OngoingTx.GetWithFilters *)
Definition do_get (s0 : state) (tx : otx) (k : bytes) (fs : list filt) : otx * obs :=
  match get fs k (view s0 (t_ws tx)) with
  | None => (add_get tx (mkXG k fs 0), BNotFound)
  | Some e => if own e then (tx, BFound e)
              else (add_get tx (mkXG k fs (e_tx e)), BFound e)
  end.

(* OngoingTx.GetWithPrefixAndFilters *)
Definition do_pget (s0 : state) (tx : otx) (prefix neq : bytes) (fs : list filt) : otx * obs :=
  match get_with_prefix fs prefix neq (view s0 (t_ws tx)) with
  | None => (add_pget tx (mkXP prefix neq fs [] 0), BNotFound)
  | Some e => if own e
              then (mkTx (t_ws tx) (t_rs tx) (t_rds tx) (t_pown tx || negb (keq (e_key e) prefix)), BFound e)
              else (add_pget tx (mkXP prefix neq fs (e_key e) (e_tx e)), BFound e)
  end.

(* OngoingTx.Delete: Get, then Set with the deleted attribute and a nil value *)
Definition do_delete (s0 : state) (tx : otx) (k : bytes) : otx * obs :=
  match do_get s0 tx k [FExp; FDel] with
  | (tx', BFound e) => if e_del e then (tx', BNotFound)
                       else do_set tx' (mkW k [] true false false)
  | r => r
  end.

(* ---- key readers ---- *)
(* what is still ahead of a reader positioned after key c *)
Definition after (desc : bool) (c : option bytes) (l : list entry) : list entry :=
  match c with
  | None => l
  | Some k => filter (fun e => is_lt (dcmp desc k (e_key e))) l
  end.

(* ongoingTxKeyReader.ReadBetween(0,0): every entry the underlying reader yields is recorded;
   filtered entries and the first `offset` unfiltered ones are passed over.  The filters see the
   intercepted value reference, i.e. the own metadata of an own write.
   Result: (observation, new records, new cursor, new skipped) *)
Fixpoint read_loop (fs : list filt) (offset skipped : N) (cur : option bytes) (l : list entry)
  : obs * list xread * option bytes * N :=
  match l with
  | [] => (BNoMore, [XNoMore], cur, skipped)
  | e :: r =>
      let c' := Some (e_key e) in
      if filtered fs (e_del e) (e_exp e) then
        let '(o, recs, c2, sk2) := read_loop fs offset skipped c' r in (o, XR (e_key e) (e_tx e) :: recs, c2, sk2)
      else if skipped <? offset then
        let '(o, recs, c2, sk2) := read_loop fs offset (skipped + 1) c' r in (o, XR (e_key e) (e_tx e) :: recs, c2, sk2)
      else (BFound e, [XR (e_key e) (e_tx e)], c', skipped)
  end.

Fixpoint set_nth {A} (n : nat) (x : A) (l : list A) : list A :=
  match l, n with
  | [], _ => []
  | _ :: r, O => x :: r
  | y :: r, S n' => y :: set_nth n' x r
  end.

Definition set_reader (tx : otx) (rid : nat) (rd : rstate) (xr : xreader) : otx :=
  let r := t_rs tx in
  mkTx (t_ws tx) (mkRSet (r_gets r) (r_pgets r) (set_nth rid xr (r_readers r)) (r_fps r))
       (set_nth rid rd (t_rds tx)) (t_pown tx).

(* tbtree Snapshot.NewReader rejects over-long seek keys / prefixes *)
Definition spec_ok (s : rspec) : bool :=
  (length (rs_seek s) <=? max_key_size)%nat && (length (rs_prefix s) <=? max_key_size)%nat.

Definition do_new_reader (tx : otx) (s : rspec) (fs : list filt) (offset : N) : otx * obs :=
  if spec_ok s then
    let r := t_rs tx in
    (mkTx (t_ws tx) (mkRSet (r_gets r) (r_pgets r) (r_readers r ++ [mkXRd s [] []]) (r_fps r))
          (t_rds tx ++ [mkRd s fs offset 0 None]) (t_pown tx), BOk)
  else (tx, BErr).

Definition do_read (s0 : state) (tx : otx) (rid : N) : otx * obs :=
  let i := N.to_nat rid in
  match nth_error (t_rds tx) i, nth_error (r_readers (t_rs tx)) i with
  | Some rd, Some xr =>
      let ahead := after (rs_desc (rd_spec rd)) (rd_cursor rd) (scan (rd_spec rd) (view s0 (t_ws tx))) in
      let '(o, recs, c', sk') := read_loop (rd_fs rd) (rd_offset rd) (rd_skipped rd) (rd_cursor rd) ahead in
      (set_reader tx i (mkRd (rd_spec rd) (rd_fs rd) (rd_offset rd) sk' c')
                       (mkXRd (xr_spec xr) (xr_done xr) (xr_cur xr ++ recs)), o)
  | _, _ => (tx, BErr)
  end.

(* ongoingTxKeyReader.Reset: the underlying reader restarts, a new record segment begins;
   `skipped` is left as it is *)
Definition do_reset (tx : otx) (rid : N) : otx * obs :=
  let i := N.to_nat rid in
  match nth_error (t_rds tx) i, nth_error (r_readers (t_rs tx)) i with
  | Some rd, Some xr =>
      (set_reader tx i (mkRd (rd_spec rd) (rd_fs rd) (rd_offset rd) (rd_skipped rd) None)
                       (mkXRd (xr_spec xr) (xr_done xr ++ [xr_cur xr]) []), BOk)
  | _, _ => (tx, BErr)
  end.

Definition fp_of (l : list entry) : list (bytes * N) := map (fun e => (e_key e, e_tx e)) l.

(* MarkPrefixScanned: fingerprint of the transaction's view (own writes hash with tx id 0) *)
Definition do_mark (s0 : state) (tx : otx) (s : rspec) : otx * obs :=
  if spec_ok s then
    let r := t_rs tx in
    (mkTx (t_ws tx) (mkRSet (r_gets r) (r_pgets r) (r_readers r)
                            (r_fps r ++ [mkXF s (fp_of (scan s (view s0 (t_ws tx))))]))
          (t_rds tx) (t_pown tx), BOk)
  else (tx, BErr).

Definition exec_op (s0 : state) (tx : otx) (o : op) : otx * obs :=
  match o with
  | OGet k fs => do_get s0 tx k fs
  | OGetPrefix p n fs => do_pget s0 tx p n fs
  | OSet k v del exp tr => do_set tx (mkW k v del exp tr)
  | ODelete k => do_delete s0 tx k
  | ONewReader s fs off => do_new_reader tx s fs off
  | ORead rid => do_read s0 tx rid
  | OReset rid => do_reset tx rid
  | OMark s => do_mark s0 tx s
  end.

(* a whole program on snapshot state s0, from transaction state tx: final state and observations *)
Fixpoint run_from (s0 : state) (tx : otx) (p : list op) : otx * list obs :=
  match p with
  | [] => (tx, [])
  | o :: r => let '(tx1, b) := exec_op s0 tx o in
              let '(tx2, bs) := run_from s0 tx1 r in (tx2, b :: bs)
  end.
Definition run (s0 : state) (p : list op) : otx * list obs := run_from s0 tx_empty p.

(* the entries that are committed: OngoingTx.entries (transient ones stay local) *)
Definition committed_ws (tx : otx) : list wentry := filter (fun w => negb (w_tr w)) (t_ws tx).
