(* C05 — lemmas about the ordered association list of MVCC/Spec.v *)
From V Require Import MVCC.Spec.
From Coq Require Import ZifyN ZifyNat ZifyBool.

(* ---------- key comparison ---------- *)
Lemma keq_true a b : keq a b = true <-> a = b.
Proof.
  unfold keq; split; intros H.
  - destruct (bcmp a b) eqn:E; try discriminate. apply bcmp_eq; exact E.
  - subst; rewrite bcmp_refl; reflexivity.
Qed.
Lemma keq_refl a : keq a a = true. Proof. apply keq_true; reflexivity. Qed.
Lemma keq_false a b : keq a b = false <-> a <> b.
Proof.
  split; intros H.
  - intros E; apply keq_true in E; congruence.
  - destruct (keq a b) eqn:E; auto. apply keq_true in E; contradiction.
Qed.
Lemma keq_sym a b : keq a b = keq b a.
Proof.
  destruct (keq a b) eqn:E1; destruct (keq b a) eqn:E2; auto.
  - apply keq_true in E1; apply keq_false in E2; congruence.
  - apply keq_true in E2; apply keq_false in E1; congruence.
Qed.

Lemma bcmp_gt_lt a b : bcmp a b = Gt <-> bcmp b a = Lt.
Proof. rewrite (bcmp_antisym a b). destruct (bcmp a b); simpl; split; congruence. Qed.
Lemma bcmp_lt_irrefl a : bcmp a a <> Lt.
Proof. rewrite bcmp_refl; discriminate. Qed.

(* direction-aware strict order *)
Definition dlt (d : bool) (a b : bytes) : Prop := dcmp d a b = Lt.

Lemma dcmp_refl d a : dcmp d a a = Eq.
Proof. destruct d; simpl; apply bcmp_refl. Qed.
Lemma dcmp_eq d a b : dcmp d a b = Eq -> a = b.
Proof. destruct d; simpl; intros H; [symmetry|]; apply bcmp_eq; exact H. Qed.
Lemma dcmp_antisym d a b : dcmp d b a = CompOpp (dcmp d a b).
Proof. destruct d; simpl; apply bcmp_antisym. Qed.
Lemma dcmp_gt d a b : dcmp d a b = Gt <-> dlt d b a.
Proof. unfold dlt; rewrite (dcmp_antisym d a b). destruct (dcmp d a b); simpl; split; congruence. Qed.
Lemma dlt_irrefl d a : ~ dlt d a a.
Proof. unfold dlt; rewrite dcmp_refl; discriminate. Qed.
Lemma dlt_trans d a b c : dlt d a b -> dlt d b c -> dlt d a c.
Proof. unfold dlt; destruct d; simpl; intros H1 H2; eauto using bcmp_trans_lt. Qed.
Lemma dlt_asym d a b : dlt d a b -> ~ dlt d b a.
Proof. intros H1 H2; apply (dlt_irrefl d a); eauto using dlt_trans. Qed.
Lemma dlt_neq d a b : dlt d a b -> a <> b.
Proof. intros H E; subst; exact (dlt_irrefl _ _ H). Qed.
Lemma dlt_total d a b : a = b \/ dlt d a b \/ dlt d b a.
Proof.
  destruct (dcmp d a b) eqn:E.
  - left; eapply dcmp_eq; eauto.
  - right; left; exact E.
  - right; right; apply dcmp_gt; exact E.
Qed.
Lemma dlt_negb d a b : dlt (negb d) a b <-> dlt d b a.
Proof. unfold dlt; destruct d; simpl; tauto. Qed.
Lemma is_lt_dlt d a b : is_lt (dcmp d a b) = true <-> dlt d a b.
Proof. unfold dlt; destruct (dcmp d a b); simpl; split; congruence. Qed.

(* ---------- ordered lists ---------- *)
Definition lt_all (d : bool) (k : bytes) (l : list entry) : Prop :=
  Forall (fun x => dlt d k (e_key x)) l.

Inductive dsorted (d : bool) : list entry -> Prop :=
| ds_nil : dsorted d []
| ds_cons e l : lt_all d (e_key e) l -> dsorted d l -> dsorted d (e :: l).

Notation sorted := (dsorted false).

Lemma dsorted_inv d e l : dsorted d (e :: l) -> lt_all d (e_key e) l /\ dsorted d l.
Proof. intros H; inversion H; auto. Qed.

Lemma lt_all_trans d a b l : dlt d a b -> lt_all d b l -> lt_all d a l.
Proof.
  unfold lt_all; intros H F; eapply Forall_impl; [|exact F].
  intros x Hx; eapply dlt_trans; eauto.
Qed.

Lemma dsorted_app d l1 l2 :
  dsorted d (l1 ++ l2) <->
  dsorted d l1 /\ dsorted d l2 /\ (forall a b, In a l1 -> In b l2 -> dlt d (e_key a) (e_key b)).
Proof.
  induction l1 as [|x l1 IH]; simpl.
  - split; [intros H; repeat split; auto; [constructor | intros a b []] | tauto].
  - split.
    + intros H; apply dsorted_inv in H as [H1 H2]. apply IH in H2 as (S1 & S2 & S3).
      unfold lt_all in H1; rewrite Forall_app in H1; destruct H1 as [F1 F2].
      repeat split; auto.
      * constructor; auto.
      * intros a b [->|Ha] Hb; [|auto]. rewrite Forall_forall in F2; auto.
    + intros (S1 & S2 & S3). apply dsorted_inv in S1 as [F1 S1]. constructor.
      * unfold lt_all; rewrite Forall_app; split; auto.
        rewrite Forall_forall; intros b Hb; apply S3; auto.
      * apply IH; repeat split; auto.
Qed.

Lemma dsorted_rev d l : dsorted d l -> dsorted (negb d) (rev l).
Proof.
  induction 1 as [|e l F S IH]; simpl; [constructor|].
  apply dsorted_app; repeat split; auto.
  - constructor; constructor.
  - intros a b Ha [<-|[]]. apply dlt_negb. apply in_rev in Ha.
    unfold lt_all in F; rewrite Forall_forall in F; auto.
Qed.

Lemma dsorted_filter d f l : dsorted d l -> dsorted d (filter f l).
Proof.
  induction 1 as [|e l F S IH]; simpl; [constructor|].
  destruct (f e); auto. constructor; auto.
  unfold lt_all in *; rewrite Forall_forall in *; intros x Hx; apply filter_In in Hx as [Hx _]; auto.
Qed.

Lemma dsorted_key_unique d l a b :
  dsorted d l -> In a l -> In b l -> e_key a = e_key b -> a = b.
Proof.
  induction 1 as [|e l F S IH]; simpl; [tauto|].
  unfold lt_all in F; rewrite Forall_forall in F.
  intros [->|Ha] [->|Hb] E; auto.
  - exfalso; apply (dlt_irrefl d (e_key a)); rewrite E at 2; auto.
  - exfalso; apply (dlt_irrefl d (e_key b)); rewrite <- E at 2; auto.
Qed.

(* two ordered lists with the same elements are equal *)
Lemma dsorted_ext d l1 l2 :
  dsorted d l1 -> dsorted d l2 -> (forall e, In e l1 <-> In e l2) -> l1 = l2.
Proof.
  intros S1; revert l2; induction S1 as [|a t1 F1 S1 IH]; intros l2 S2 H.
  - destruct l2 as [|b t2]; auto. exfalso; apply (H b); left; reflexivity.
  - destruct S2 as [|b t2 F2 S2].
    + exfalso; apply (H a); left; reflexivity.
    + unfold lt_all in *; rewrite Forall_forall in F1, F2.
      assert (a = b).
      { destruct (proj1 (H a) (or_introl eq_refl)) as [E|Ha]; auto.
        destruct (proj2 (H b) (or_introl eq_refl)) as [E|Hb]; auto.
        exfalso; eapply dlt_asym; [apply F1; exact Hb | apply F2; exact Ha]. }
      subst b; f_equal. apply IH; auto.
      intros e; split; intros He.
      * destruct (proj1 (H e) (or_intror He)) as [E|]; auto.
        subst e; exfalso; exact (dlt_irrefl _ _ (F1 _ He)).
      * destruct (proj2 (H e) (or_intror He)) as [E|]; auto.
        subst e; exfalso; exact (dlt_irrefl _ _ (F2 _ He)).
Qed.

(* in an ordered list, the elements not beyond a member form a prefix *)
Lemma dsorted_split d P e R x :
  dsorted d (P ++ e :: R) -> In x (P ++ e :: R) ->
  (In x P <-> dlt d (e_key x) (e_key e)) /\ (In x R <-> dlt d (e_key e) (e_key x)).
Proof.
  intros S Hx. apply dsorted_app in S as (SP & SR & PR).
  apply dsorted_inv in SR as [FR SR]. unfold lt_all in FR; rewrite Forall_forall in FR.
  assert (Pe : forall a, In a P -> dlt d (e_key a) (e_key e)) by (intros a Ha; apply PR; simpl; auto).
  assert (A1 : forall a b, dlt d a b -> dlt d b a -> False) by (intros a b H1 H2; exact (dlt_asym _ _ _ H1 H2)).
  assert (A2 : forall a, dlt d a a -> False) by (intros a H1; exact (dlt_irrefl _ _ H1)).
  apply in_app_or in Hx as [Hx|[<-|Hx]]; (split; split; intros H; auto; exfalso; eauto).
Qed.

(* ---------- lookup / upsert ---------- *)
Lemma lookup_key k l e : lookup k l = Some e -> e_key e = k.
Proof.
  induction l as [|x l IH]; simpl; [discriminate|].
  destruct (keq k (e_key x)) eqn:E; auto.
  intros H; inversion H; subst. apply keq_true in E; auto.
Qed.
Lemma lookup_In k l e : lookup k l = Some e -> In e l.
Proof.
  induction l as [|x l IH]; simpl; [discriminate|].
  destruct (keq k (e_key x)); auto. intros H; inversion H; auto.
Qed.
Lemma lookup_none k l : lookup k l = None <-> (forall x, In x l -> e_key x <> k).
Proof.
  induction l as [|x l IH]; simpl.
  - split; auto; intros _ x [].
  - destruct (keq k (e_key x)) eqn:E.
    + split; [discriminate|]. intros H; exfalso. apply keq_true in E.
      apply (H x); auto.
    + apply keq_false in E. rewrite IH. split.
      * intros H y [<-|Hy]; auto.
      * intros H y Hy; apply H; auto.
Qed.
Lemma In_lookup d l e : dsorted d l -> In e l -> lookup (e_key e) l = Some e.
Proof.
  intros S H. destruct (lookup (e_key e) l) as [e'|] eqn:L.
  - f_equal. eapply dsorted_key_unique; eauto using lookup_In, lookup_key.
  - exfalso. rewrite lookup_none in L. exact (L e H eq_refl).
Qed.
Lemma lookup_iff d l e : dsorted d l -> (lookup (e_key e) l = Some e <-> In e l).
Proof. intros S; split; [apply lookup_In | apply In_lookup with d; auto]. Qed.

Lemma lookup_upsert_same e l : lookup (e_key e) (upsert e l) = Some e.
Proof.
  induction l as [|x l IH]; simpl.
  - rewrite keq_refl; reflexivity.
  - destruct (bcmp (e_key e) (e_key x)) eqn:C; simpl.
    + rewrite keq_refl; reflexivity.
    + rewrite keq_refl; reflexivity.
    + assert (keq (e_key e) (e_key x) = false) as ->; auto.
      unfold keq; rewrite C; reflexivity.
Qed.
Lemma lookup_upsert_other k e l : k <> e_key e -> lookup k (upsert e l) = lookup k l.
Proof.
  intros N. apply keq_false in N.
  induction l as [|x l IH]; simpl.
  - rewrite N; reflexivity.
  - destruct (bcmp (e_key e) (e_key x)) eqn:C; simpl.
    + apply bcmp_eq in C. rewrite N, <- C, N; reflexivity.
    + rewrite N; reflexivity.
    + destruct (keq k (e_key x)); auto.
Qed.

Lemma lt_all_upsert k e l : lt_all false k l -> dlt false k (e_key e) -> lt_all false k (upsert e l).
Proof.
  unfold lt_all; induction l as [|x l IH]; simpl; intros F H.
  - constructor; auto.
  - inversion F; subst. destruct (bcmp (e_key e) (e_key x)); constructor; auto.
Qed.

Lemma sorted_upsert e l : sorted l -> sorted (upsert e l).
Proof.
  induction 1 as [|x l F S IH]; simpl.
  - constructor; constructor.
  - destruct (bcmp (e_key e) (e_key x)) eqn:C.
    + apply bcmp_eq in C. constructor; auto. rewrite C; exact F.
    + constructor; [|constructor; auto].
      constructor; [exact C|]. eapply lt_all_trans; [exact C | exact F].
    + constructor; auto. apply lt_all_upsert; auto. apply bcmp_gt_lt in C; exact C.
Qed.

(* ---------- first element satisfying a key predicate ---------- *)
Lemma find_some_min (P : bytes -> bool) l e :
  sorted l -> find (fun x => P (e_key x)) l = Some e ->
  In e l /\ P (e_key e) = true /\
  (forall x, In x l -> P (e_key x) = true -> x = e \/ dlt false (e_key e) (e_key x)).
Proof.
  induction 1 as [|a l F S IH]; simpl; [discriminate|].
  destruct (P (e_key a)) eqn:Pa.
  - intros H; inversion H; subst a. repeat split; auto.
    intros x [<-|Hx] _; auto. right. unfold lt_all in F; rewrite Forall_forall in F; auto.
  - intros H; destruct (IH H) as (I1 & I2 & I3). repeat split; auto.
    intros x [<-|Hx] Px; [congruence | auto].
Qed.
Lemma find_none_all (P : bytes -> bool) l :
  find (fun x => P (e_key x)) l = None <-> (forall x, In x l -> P (e_key x) = false).
Proof.
  induction l as [|a l IH]; simpl.
  - split; auto; intros _ x [].
  - destruct (P (e_key a)) eqn:Pa.
    + split; [discriminate|]. intros H; rewrite (H a) in Pa; auto; discriminate.
    + rewrite IH; split.
      * intros H x [<-|Hx]; auto.
      * intros H x Hx; auto.
Qed.
Lemma find_is_min (P : bytes -> bool) l e :
  sorted l -> In e l -> P (e_key e) = true ->
  (forall x, In x l -> P (e_key x) = true -> x = e \/ dlt false (e_key e) (e_key x)) ->
  find (fun x => P (e_key x)) l = Some e.
Proof.
  intros S He Pe Hmin.
  destruct (find (fun x => P (e_key x)) l) as [m|] eqn:Fm.
  - destruct (find_some_min P l m S Fm) as (Im & Pm & Mm).
    destruct (Mm e He Pe) as [->|L]; auto.
    destruct (Hmin m Im Pm) as [->|L']; auto.
    exfalso; eapply dlt_asym; eauto.
  - rewrite find_none_all in Fm. rewrite (Fm e He) in Pe; discriminate.
Qed.

(* ---------- states built by transactions ---------- *)
Lemma sorted_apply_tx txid ws s : sorted s -> sorted (apply_tx txid ws s).
Proof.
  unfold apply_tx; revert s; induction ws as [|w ws IH]; simpl; intros s S; auto.
  apply IH; apply sorted_upsert; exact S.
Qed.

Lemma has_prefix_refl p : has_prefix p p = true.
Proof. induction p as [|x p IH]; simpl; auto. rewrite N.eqb_refl; exact IH. Qed.
