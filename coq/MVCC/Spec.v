(* C05 — abstract committed key-value state of the store index.

   The state is an association list key -> (value, id of the transaction that wrote it,
   deleted flag, expired flag) kept strictly ordered by Go's bytes.Compare (Base.Bytes.bcmp).
   It is what embedded/tbtree holds for the default index once every committed transaction is
   indexed: one latest version per key (older versions are only reachable through history
   reads, which this model does not cover).

   expired: the code evaluates KVMetadata.ExpiredAt against the wall clock (Snapshot.ts =
   time.Now(), OngoingTx.ts = time.Now(); store.UseTimeFunc only drives the tx header
   timestamp).  The harness therefore writes expiration times one hour in the past ("expired",
   at every instant of the run) or far in the future (never expired, flag false): being expired
   is a static attribute of an entry.

   No proofs in this file. *)
From V Require Export Base.Bytes.

Definition keq (a b : bytes) : bool := match bcmp a b with Eq => true | _ => false end.

Record entry := mkE { e_key : bytes; e_val : bytes; e_tx : N; e_del : bool; e_exp : bool }.
Definition state := list entry.

Fixpoint lookup (k : bytes) (l : state) : option entry :=
  match l with
  | [] => None
  | e :: r => if keq k (e_key e) then Some e else lookup k r
  end.

(* insert keeping bcmp order; an existing key is replaced *)
Fixpoint upsert (e : entry) (l : state) : state :=
  match l with
  | [] => [e]
  | x :: r =>
      match bcmp (e_key e) (e_key x) with
      | Lt => e :: l
      | Eq => e :: r
      | Gt => x :: upsert e r
      end
  end.

(* one entry of a transaction's write set (OngoingTx.entries / transientEntries);
   w_tr: written with SetTransient (visible to the transaction only, never committed) *)
Record wentry := mkW { w_key : bytes; w_val : bytes; w_del : bool; w_exp : bool; w_tr : bool }.

Definition committed_entry (txid : N) (w : wentry) : entry :=
  mkE (w_key w) (w_val w) txid (w_del w) (w_exp w).

(* the state after transaction txid with (non-transient) entries ws *)
Definition apply_tx (txid : N) (ws : list wentry) (s : state) : state :=
  fold_left (fun s w => upsert (committed_entry txid w) s) ws s.

(* ---- filters (store.IgnoreDeleted / store.IgnoreExpired) ---- *)
Inductive filt := FDel | FExp.
Definition filt_hit (f : filt) (del exp : bool) : bool :=
  match f with FDel => del | FExp => exp end.
Definition filtered (fs : list filt) (del exp : bool) : bool :=
  existsb (fun f => filt_hit f del exp) fs.

(* an entry written by the ongoing transaction itself carries tx id 0 (ongoingValRef.Tx()) *)
Definition own (e : entry) : bool := e_tx e =? 0.

(* Snapshot.GetWithFilters / GetWithPrefixAndFilters apply the filters to the value reference
   built from the INDEX value, before the refInterceptor replaces it by the ongoing entry; the
   index value of an own write is the all-zero dummy (no metadata), so filters never hit it *)
Definition raw_del (e : entry) : bool := if own e then false else e_del e.
Definition raw_exp (e : entry) : bool := if own e then false else e_exp e.

(* point read: None = ErrKeyNotFound (ErrExpiredEntry wraps ErrKeyNotFound) *)
Definition get (fs : list filt) (k : bytes) (l : state) : option entry :=
  match lookup k l with
  | None => None
  | Some e => if filtered fs (raw_del e) (raw_exp e) then None else Some e
  end.

Fixpoint has_prefix (p k : bytes) : bool :=
  match p, k with
  | [], _ => true
  | _ :: _, [] => false
  | x :: p', y :: k' => (x =? y) && has_prefix p' k'
  end.

(* tbtree leafNode.findLeafNode(prefix, neq, asc): first key with (neq empty or key > neq) and
   prefix <= key *)
Definition pfx_cand (prefix neq k : bytes) : bool :=
  (match neq with [] => true | _ => match bcmp k neq with Gt => true | _ => false end end) &&
  (match bcmp prefix k with Gt => false | _ => true end).

(* Snapshot.GetWithPrefixAndFilters: the candidate must carry the prefix, then the filters
   decide (a filtered candidate is "not found": the search does not move on) *)
Definition get_with_prefix (fs : list filt) (prefix neq : bytes) (l : state) : option entry :=
  match find (fun e => pfx_cand prefix neq (e_key e)) l with
  | None => None
  | Some e =>
      if has_prefix prefix (e_key e)
      then if filtered fs (raw_del e) (raw_exp e) then None else Some e
      else None
  end.

(* ---- range scans (tbtree.Snapshot.NewReader + Reader.Read, latest versions only) ---- *)
Record rspec := mkRS { rs_seek : bytes; rs_end : bytes; rs_prefix : bytes;
                       rs_iseek : bool; rs_iend : bool; rs_desc : bool }.

(* the store of the harness is opened WithMaxKeyLen(16) *)
Definition max_key_size : nat := 16.
(* greatestKeyOfSize(maxKeySize) with the prefix copied over its head *)
Definition greatest (prefix : bytes) : bytes :=
  firstn max_key_size (prefix ++ repeat 255 max_key_size).

Definition is_lt (c : comparison) : bool := match c with Lt => true | _ => false end.
Definition is_gt (c : comparison) : bool := match c with Gt => true | _ => false end.
Definition is_nil (b : bytes) : bool := match b with [] => true | _ => false end.

(* seek/end bounds after NewReader's adjustment to the prefix: (seek, inclusive, end, inclusive) *)
Definition adj (s : rspec) : bytes * bool * bytes * bool :=
  let g := greatest (rs_prefix s) in
  if rs_desc s then
    let sk := if is_nil (rs_seek s) || is_gt (bcmp (rs_seek s) g) then (g, true) else (rs_seek s, rs_iseek s) in
    let ek := if is_lt (bcmp (rs_end s) (rs_prefix s)) then (rs_prefix s, true) else (rs_end s, rs_iend s) in
    (fst sk, snd sk, fst ek, snd ek)
  else
    let sk := if is_lt (bcmp (rs_seek s) (rs_prefix s)) then (rs_prefix s, true) else (rs_seek s, rs_iseek s) in
    let ek := if is_nil (rs_end s) || is_gt (bcmp (rs_end s) g) then (g, true) else (rs_end s, rs_iend s) in
    (fst sk, snd sk, fst ek, snd ek).

(* direction-aware comparison: dcmp false = bcmp, dcmp true = reversed *)
Definition dcmp (desc : bool) (a b : bytes) : comparison := if desc then bcmp b a else bcmp a b.

Definition in_range (s : rspec) (k : bytes) : bool :=
  let '(sk, isk, ek, iek) := adj s in
  (match dcmp (rs_desc s) sk k with Lt => true | Eq => isk | Gt => false end) &&
  (match ek with
   | [] => true
   | _ => match dcmp (rs_desc s) k ek with Lt => true | Eq => iek | Gt => false end
   end) &&
  (match rs_prefix s with [] => true | _ => has_prefix (rs_prefix s) k end).

(* all entries a reader with this spec yields, in reading order (no filters, no offset) *)
Definition scan (s : rspec) (l : state) : list entry :=
  let r := filter (fun e => in_range s (e_key e)) l in
  if rs_desc s then rev r else r.
