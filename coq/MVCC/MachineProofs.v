(* C05 — the machine: states of one history satisfy the assumptions of the core theorem; every
   interleaving keeps every gap-free committed transaction serial in commit order; commits are
   atomic; rejected commits leave no trace; own writes are visible. *)
From V Require Import MVCC.Spec MVCC.SpecProofs MVCC.Tx MVCC.Validate MVCC.Serial
  MVCC.ViewProofs MVCC.ReaderProofs MVCC.TxProofs.
From Coq Require Import ZifyN ZifyNat ZifyBool.

(* ---------- what a transaction leaves in the state ---------- *)
Lemma apply_tx_snoc id ws w s :
  apply_tx id (ws ++ [w]) s = upsert (committed_entry id w) (apply_tx id ws s).
Proof. unfold apply_tx. rewrite fold_left_app. reflexivity. Qed.

(* the keys a transaction writes override, all others are untouched *)
Lemma lookup_apply_tx id ws s k :
  lookup k (apply_tx id ws s) =
  match lookup k (apply_tx id ws []) with Some e => Some e | None => lookup k s end.
Proof.
  induction ws as [|w ws IH] using rev_ind; [reflexivity|].
  rewrite !apply_tx_snoc.
  destruct (list_eq_dec N.eq_dec k (w_key w)) as [->|N].
  - change (w_key w) with (e_key (committed_entry id w)). rewrite !lookup_upsert_same. reflexivity.
  - rewrite !lookup_upsert_other by exact N. exact IH.
Qed.

Lemma apply_tx_tx id ws e : In e (apply_tx id ws []) -> e_tx e = id.
Proof.
  induction ws as [|w ws IH] using rev_ind; [intros []|].
  rewrite apply_tx_snoc. intros H.
  assert (S : sorted (apply_tx id ws [])) by (apply sorted_apply_tx; constructor).
  pose proof (In_lookup false _ _ (sorted_upsert (committed_entry id w) _ S) H) as L.
  destruct (list_eq_dec N.eq_dec (e_key e) (w_key w)) as [Ek|N].
  - rewrite Ek in L. change (w_key w) with (e_key (committed_entry id w)) in L.
    rewrite lookup_upsert_same in L. inversion L; reflexivity.
  - rewrite lookup_upsert_other in L by exact N. apply IH. eapply lookup_In; eauto.
Qed.

(* e is what transaction (next + j) of the log leaves under e's key *)
Definition origin (l : log) (next : N) (e : entry) : Prop :=
  exists j ws, nth_error l j = Some ws /\ e_tx e = next + N.of_nat j /\
               lookup (e_key e) (apply_tx (next + N.of_nat j) ws []) = Some e.

Lemma sorted_build l : forall s next, sorted s -> sorted (build s next l).
Proof. induction l as [|ws l IH]; simpl; intros; auto. apply IH, sorted_apply_tx; auto. Qed.

Lemma build_origin l : forall s next e,
  sorted s -> In e (build s next l) -> In e s \/ origin l next e.
Proof.
  induction l as [|ws l IH]; simpl; intros s next e Hs H; auto.
  destruct (IH _ _ _ (sorted_apply_tx next ws s Hs) H) as [H1|(j & ws' & Hj & Ht & Hl)].
  - pose proof (In_lookup false _ _ (sorted_apply_tx next ws s Hs) H1) as L.
    rewrite lookup_apply_tx in L.
    destruct (lookup (e_key e) (apply_tx next ws [])) as [e'|] eqn:L'.
    + inversion L; subst e'. right. exists 0%nat, ws. simpl. rewrite N.add_0_r.
      split; auto. split; auto. apply (apply_tx_tx next ws). eapply lookup_In; eauto.
    + left. eapply lookup_In; eauto.
  - right. exists (S j), ws'. simpl. replace (next + N.pos (Pos.of_succ_nat j)) with (next + 1 + N.of_nat j) by lia.
    auto.
Qed.

Lemma build_app l1 l2 : forall s next,
  build s next (l1 ++ l2) = build (build s next l1) (next + N.of_nat (length l1)) l2.
Proof.
  induction l1 as [|ws l1 IH]; simpl; intros s next.
  - rewrite N.add_0_r; reflexivity.
  - rewrite IH. f_equal. lia.
Qed.

Lemma lookup_apply_tx_keep id ws s k e :
  lookup k s = Some e -> exists e', lookup k (apply_tx id ws s) = Some e'.
Proof.
  intros H. rewrite lookup_apply_tx. destruct (lookup k (apply_tx id ws [])); eauto.
Qed.
Lemma lookup_build_keep l : forall s next k e,
  lookup k s = Some e -> exists e', lookup k (build s next l) = Some e'.
Proof.
  induction l as [|ws l IH]; simpl; intros s next k e H; eauto.
  destruct (lookup_apply_tx_keep next ws s k e H) as (e' & H'). eauto.
Qed.

(* ---------- states of one history ---------- *)
Lemma sorted_state_at l i : sorted (state_at l i).
Proof. apply sorted_build; constructor. Qed.

Lemma state_at_origin l i e : In e (state_at l i) -> origin l 1 e.
Proof.
  intros H. destruct (build_origin _ _ _ _ (ds_nil false) H) as [[]|(j & ws & Hj & Ht & Hl)].
  exists j, ws; repeat split; auto.
  assert (Hlt : (j < length (firstn (N.to_nat i) l))%nat) by (apply nth_error_Some; congruence).
  rewrite <- Hj. rewrite <- (firstn_skipn (N.to_nat i) l) at 1.
  apply nth_error_app1; exact Hlt.
Qed.

Lemma committed_state_at l i : committed (state_at l i).
Proof. intros e H. destruct (state_at_origin _ _ _ H) as (j & ws & _ & Ht & _). lia. Qed.

Lemma coherent_state_at l i j : coherent (state_at l i) (state_at l j).
Proof.
  intros a b Ha Hb Ek Et.
  destruct (state_at_origin _ _ _ Ha) as (ja & wa & Hja & Hta & Hla).
  destruct (state_at_origin _ _ _ Hb) as (jb & wb & Hjb & Htb & Hlb).
  assert (ja = jb) by lia. subst jb. rewrite Hja in Hjb; inversion Hjb; subst wb.
  rewrite Ek in Hla. congruence.
Qed.

Lemma firstn_split {A} (i : nat) : forall (j : nat) (l : list A),
  (i <= j)%nat -> firstn j l = firstn i l ++ firstn (j - i) (skipn i l).
Proof.
  induction i as [|i IH]; intros j l H; simpl.
  - rewrite Nat.sub_0_r; reflexivity.
  - destruct l as [|a l]; [rewrite !firstn_nil; reflexivity|].
    destruct j as [|j]; [lia|]. simpl. f_equal. apply IH; lia.
Qed.

Lemma persists_state_at l i j : i <= j -> persists (state_at l i) (state_at l j).
Proof.
  intros Le a Ha. unfold state_at in *.
  assert (E : firstn (N.to_nat j) l =
              firstn (N.to_nat i) l ++ firstn (N.to_nat j - N.to_nat i) (skipn (N.to_nat i) l))
    by (apply firstn_split; lia).
  rewrite E, build_app.
  pose proof (In_lookup false _ _ (sorted_build _ _ _ (ds_nil false)) Ha) as La.
  destruct (lookup_build_keep (firstn (N.to_nat j - N.to_nat i) (skipn (N.to_nat i) l)) _
              (1 + N.of_nat (length (firstn (N.to_nat i) l))) _ _ La) as (b & Lb).
  exists b; split; [eapply lookup_In; eauto | eapply lookup_key; eauto].
Qed.

Lemma env_state_at l i j : i <= j -> env (state_at l i) (state_at l j).
Proof.
  intros Le. constructor; auto using sorted_state_at, committed_state_at, coherent_state_at, persists_state_at.
Qed.

Lemma state_at_app l x i : i <= last_id l -> state_at (l ++ x) i = state_at l i.
Proof.
  unfold state_at, last_id. intros H. rewrite firstn_app.
  replace (N.to_nat i - length l)%nat with 0%nat by lia. simpl. rewrite app_nil_r. reflexivity.
Qed.

Lemma state_at_last l ws :
  state_at (l ++ [ws]) (last_id l + 1) = apply_tx (last_id l + 1) ws (state_at l (last_id l)).
Proof.
  unfold state_at, last_id.
  replace (N.to_nat (N.of_nat (length l) + 1)) with (length (l ++ [ws])) by (rewrite app_length; simpl; lia).
  rewrite firstn_all, build_app. cbn [build].
  rewrite Nnat.Nat2N.id, firstn_all.
  replace (1 + N.of_nat (length l)) with (N.of_nat (length l) + 1) by lia. reflexivity.
Qed.

Lemma last_id_app l x : last_id (l ++ [x]) = last_id l + 1.
Proof. unfold last_id. rewrite app_length; simpl; lia. Qed.

(* ---------- running a program one more operation ---------- *)
Lemma run_from_snoc s p : forall tx o,
  run_from s tx (p ++ [o]) =
  (fst (exec_op s (fst (run_from s tx p)) o),
   snd (run_from s tx p) ++ [snd (exec_op s (fst (run_from s tx p)) o)]).
Proof.
  induction p as [|a p IH]; intros tx o; simpl.
  - destruct (exec_op s tx o); reflexivity.
  - destruct (exec_op s tx a) as [tx1 b]. rewrite IH.
    destruct (run_from s tx1 p) as [tx2 bs]. simpl. reflexivity.
Qed.

(* ---------- the invariant of the machine ---------- *)
Definition act_ok (l : log) (a : atx) : Prop :=
  a_sid a <= last_id l /\ run (state_at l (a_sid a)) (a_prog a) = (a_tx a, a_obs a).

Definition done_ok (l : log) (c : crec) : Prop :=
  1 <= c_txid c /\ c_txid c <= last_id l /\
  (gapfree (c_tx c) = true ->
   c_obs c = serial_obs (state_at l (c_txid c - 1)) (c_prog c) /\
   nth_error l (N.to_nat (c_txid c - 1)) = Some (serial_ws (state_at l (c_txid c - 1)) (c_prog c))).

Definition ginv (g : gstate) : Prop :=
  (forall a, In a (g_act g) -> act_ok (g_log g) a) /\
  (forall c, In c (g_done g) -> done_ok (g_log g) c).

Lemma find_act_In tid l a : find_act tid l = Some a -> In a l /\ a_tid a = tid.
Proof.
  induction l as [|x l IH]; simpl; [discriminate|].
  destruct (a_tid x =? tid) eqn:T.
  - intros H; inversion H; subst. apply N.eqb_eq in T. auto.
  - intros H; destruct (IH H); auto.
Qed.
Lemma remove_act_In tid l a : In a (remove_act tid l) -> In a l.
Proof.
  induction l as [|x l IH]; simpl; auto. destruct (a_tid x =? tid); simpl; auto.
  intros [<-|H]; auto.
Qed.
Lemma update_act_In a' l a : In a (update_act a' l) -> a = a' \/ In a l.
Proof.
  induction l as [|x l IH]; simpl; auto. destruct (a_tid x =? a_tid a'); simpl.
  - intros [<-|H]; auto.
  - intros [<-|H]; auto. destruct (IH H); auto.
Qed.

Lemma act_ok_app l x a : act_ok l a -> act_ok (l ++ [x]) a.
Proof.
  intros [H1 H2]. split.
  - rewrite last_id_app; lia.
  - rewrite state_at_app by exact H1. exact H2.
Qed.
Lemma done_ok_app l x c : done_ok l c -> done_ok (l ++ [x]) c.
Proof.
  intros (H1 & H2 & H3). split; auto. split; [rewrite last_id_app; lia|].
  intros G. destruct (H3 G) as [O W]. rewrite state_at_app by lia. split; auto.
  rewrite nth_error_app1; auto. unfold last_id in H2. lia.
Qed.

Lemma validate_empty c r : rs_is_empty r = true -> validate c r = true.
Proof.
  unfold rs_is_empty, validate. destruct (r_gets r), (r_pgets r), (r_readers r), (r_fps r); try discriminate.
  reflexivity.
Qed.

(* a transaction that passes precommit is serial at its commit point (gaps aside) *)
Lemma decide_serial l a :
  act_ok l a -> decide (last_id l) (a_sid a) (state_at l (last_id l)) (a_tx a) = CCommitted ->
  gapfree (a_tx a) = true ->
  a_obs a = serial_obs (state_at l (last_id l)) (a_prog a) /\
  committed_ws (a_tx a) = serial_ws (state_at l (last_id l)) (a_prog a).
Proof.
  intros [Hs Hr] D G. unfold decide in D.
  destruct (committed_ws (a_tx a)) eqn:CW; [discriminate|]. rewrite <- CW. clear CW.
  assert (TX : fst (run (state_at l (a_sid a)) (a_prog a)) = a_tx a) by (rewrite Hr; reflexivity).
  assert (OB : snd (run (state_at l (a_sid a)) (a_prog a)) = a_obs a) by (rewrite Hr; reflexivity).
  assert (CORE : validate (state_at l (last_id l)) (t_rs (a_tx a)) = true ->
                 a_obs a = serial_obs (state_at l (last_id l)) (a_prog a) /\
                 committed_ws (a_tx a) = serial_ws (state_at l (last_id l)) (a_prog a)).
  { intros V. rewrite <- TX in V, G.
    destruct (validated_reads_are_current_partial_proof _ _ _ (env_state_at l _ _ Hs) V G) as [E1 E2].
    rewrite OB in E1. rewrite TX in E2. split; auto. }
  destruct (rs_is_empty (t_rs (a_tx a))) eqn:RE; [apply CORE, validate_empty; exact RE|].
  destruct (last_id l <? snap_ts (a_sid a) (a_tx a)) eqn:EA.
  - (* nothing was committed since the snapshot: the snapshot is the current state *)
    assert (a_sid a = last_id l).
    { apply N.ltb_lt in EA. unfold snap_ts in EA. destruct (t_ws (a_tx a)); lia. }
    unfold serial_obs, serial_ws. rewrite <- H, Hr. split; reflexivity.
  - destruct (validate (state_at l (last_id l)) (t_rs (a_tx a))) eqn:V; [auto | discriminate].
Qed.

Lemma gexec_inv g s : ginv g -> ginv (fst (gexec g s)).
Proof.
  intros [IA ID]. destruct s as [tid sid|tid o|tid|tid|ws]; simpl.
  - (* begin *)
    destruct (find_act tid (g_act g)); [split; auto|].
    destruct (sid <=? last_id (g_log g)) eqn:Le; [|split; auto].
    apply N.leb_le in Le. split; simpl; auto.
    intros a [<-|H]; auto. split; simpl; auto.
  - (* operation *)
    destruct (find_act tid (g_act g)) as [a|] eqn:F; [|split; auto].
    destruct (find_act_In _ _ _ F) as [Ha Ht].
    destruct (exec_op (state_at (g_log g) (a_sid a)) (a_tx a) o) as [tx' b] eqn:EO.
    split; simpl; auto.
    intros a' H. apply update_act_In in H as [->|H]; auto.
    destruct (IA a Ha) as [Hs Hr]. split; simpl; auto.
    unfold run in *. rewrite run_from_snoc, Hr. simpl. rewrite EO. reflexivity.
  - (* commit *)
    destruct (find_act tid (g_act g)) as [a|] eqn:F; [|split; auto].
    destruct (find_act_In _ _ _ F) as [Ha Ht].
    destruct (decide (last_id (g_log g)) (a_sid a) (state_at (g_log g) (last_id (g_log g))) (a_tx a)) eqn:D;
      simpl; try (split; simpl; auto; intros a' H; apply IA; eapply remove_act_In; eauto).
    split; simpl.
    + intros a' H. apply act_ok_app. apply IA. eapply remove_act_In; eauto.
    + intros c [<-|H]; [|apply done_ok_app; auto].
      split; simpl; [lia|]. split; [rewrite last_id_app; lia|].
      intros G. replace (last_id (g_log g) + 1 - 1) with (last_id (g_log g)) by lia.
      rewrite state_at_app by lia.
      destruct (decide_serial _ _ (IA a Ha) D G) as [E1 E2]. split; auto.
      rewrite nth_error_app2 by (unfold last_id; lia).
      unfold last_id. rewrite Nnat.Nat2N.id, Nat.sub_diag. simpl. rewrite E2. reflexivity.
  - (* cancel *)
    destruct (find_act tid (g_act g)); split; simpl; auto.
    intros a' H; apply IA; eapply remove_act_In; eauto.
  - (* write-only committer *)
    destruct ws as [|w ws]; [split; auto|]. split; simpl.
    + intros a H. apply act_ok_app; auto.
    + intros c H. apply done_ok_app; auto.
Qed.

Lemma grun_inv ss : forall g, ginv g -> ginv (grun g ss).
Proof. induction ss as [|s ss IH]; simpl; intros g I; auto. apply IH, gexec_inv, I. Qed.

Lemma ginv_init l : ginv (g_init l).
Proof. split; intros x []. Qed.

(* SERIALIZABLE (partial: gaps aside).  For EVERY initial history, EVERY interleaving of any number
   of transaction programs, commits, cancels and write-only committers, every committed read-write
   transaction that is gap-free observed exactly what its program observes when run alone on the
   state produced by all transactions with smaller ids, and committed exactly the entries that
   serial run writes. *)
Theorem serializable_partial_proof l0 ss c :
  In c (g_done (grun (g_init l0) ss)) -> gapfree (c_tx c) = true ->
  let lf := g_log (grun (g_init l0) ss) in
  c_obs c = serial_obs (state_at lf (c_txid c - 1)) (c_prog c) /\
  nth_error lf (N.to_nat (c_txid c - 1)) = Some (serial_ws (state_at lf (c_txid c - 1)) (c_prog c)).
Proof.
  intros H G. destruct (grun_inv ss _ (ginv_init l0)) as [_ ID].
  destruct (ID c H) as (_ & _ & K). exact (K G).
Qed.

(* the premises are satisfiable: a schedule with a stale snapshot and a concurrent committer *)
Example serializable_premises_satisfiable :
  let ss := [GWriteOnly [mkW [97] [1] false false false]; GBegin 1 1; GOp 1 (OGet [97] [FExp; FDel]);
             GWriteOnly [mkW [98] [2] false false false]; GOp 1 (OSet [99] [3] false false false); GCommit 1] in
  exists c, In c (g_done (grun (g_init []) ss)) /\ gapfree (c_tx c) = true /\ c_txid c = 3.
Proof. vm_compute. eexists; split; [left; reflexivity | split; reflexivity]. Qed.

(* CONFLICT LEAVES NO TRACE: a commit that is rejected (read conflict or any other error) changes
   neither the log of committed transactions nor the record of committed transactions nor any
   other active transaction: the rejected transaction just ends. *)
Theorem conflict_leaves_no_trace_proof g tid a :
  find_act tid (g_act g) = Some a ->
  decide (last_id (g_log g)) (a_sid a) (state_at (g_log g) (last_id (g_log g))) (a_tx a) <> CCommitted ->
  let g' := fst (gexec g (GCommit tid)) in
  g_log g' = g_log g /\ g_done g' = g_done g /\ g_act g' = remove_act tid (g_act g) /\
  (forall i, state_at (g_log g') i = state_at (g_log g) i).
Proof.
  intros F D. simpl. rewrite F.
  destruct (decide (last_id (g_log g)) (a_sid a) (state_at (g_log g) (last_id (g_log g))) (a_tx a));
    [congruence| |]; simpl; auto.
Qed.

Example conflict_premises_satisfiable :
  let g := grun (g_init []) [GWriteOnly [mkW [97] [1] false false false]; GBegin 1 1;
                             GOp 1 (OGet [98] [FExp; FDel]); GOp 1 (OSet [99] [3] false false false);
                             GWriteOnly [mkW [98] [2] false false false]] in
  exists a, find_act 1 (g_act g) = Some a /\
    decide (last_id (g_log g)) (a_sid a) (state_at (g_log g) (last_id (g_log g))) (a_tx a) = CConflict.
Proof. vm_compute. eexists; split; reflexivity. Qed.

(* ATOMIC VISIBILITY: a successful commit appends exactly one transaction, n+1, to the history;
   every snapshot at or below n is unchanged (sees none of its entries), the state at n+1 is the
   state at n with ALL entries of the transaction applied: every key it wrote reads as the entry
   the transaction left for it, every other key as before. *)
Theorem atomic_visibility_proof g tid a :
  find_act tid (g_act g) = Some a ->
  decide (last_id (g_log g)) (a_sid a) (state_at (g_log g) (last_id (g_log g))) (a_tx a) = CCommitted ->
  let g' := fst (gexec g (GCommit tid)) in
  let n := last_id (g_log g) in
  let ws := committed_ws (a_tx a) in
  g_log g' = g_log g ++ [ws] /\
  (forall i, i <= n -> state_at (g_log g') i = state_at (g_log g) i) /\
  state_at (g_log g') (n + 1) = apply_tx (n + 1) ws (state_at (g_log g) n) /\
  (forall k, lookup k (state_at (g_log g') (n + 1)) =
             match lookup k (apply_tx (n + 1) ws []) with
             | Some e => Some e
             | None => lookup k (state_at (g_log g) n)
             end).
Proof.
  intros F D. simpl. rewrite F, D. simpl.
  split; auto. split; [intros i Hi; apply state_at_app; exact Hi|].
  rewrite state_at_last. split; auto. intros k. apply lookup_apply_tx.
Qed.
