(* C05 — the statements the theorems are about: serial execution of a program, the two read
   shapes whose read-set records do not protect what was read ("gaps"), executable checks.
   No proofs in this file. *)
From V Require Export MVCC.Validate.

(* a record of an entry written by the transaction itself *)
Definition is_own_rec (r : xread) : bool :=
  match r with XR _ tx => tx =? 0 | XNoMore => false end.

(* a reader segment protects everything it went through only if the last thing recorded is a
   committed entry or the end of the range *)
Definition seg_tail_ok (seg : list xread) : bool :=
  match rev seg with r :: _ => negb (is_own_rec r) | [] => true end.

Definition reader_gapfree (x : xreader) : bool :=
  forallb seg_tail_ok (xr_done x ++ [xr_cur x]).

(* the executed transaction has none of the two unprotected read shapes:
   - no GetWithPrefix was answered by an own write (other than the prefix itself, below which
     no key can carry the prefix),
   - no key reader segment (between creation/Reset and the next Reset/the end) ends on own writes *)
Definition gapfree (tx : otx) : bool :=
  negb (t_pown tx) && forallb reader_gapfree (r_readers (t_rs tx)).

(* what the program observes when it runs alone on committed state c *)
Definition serial_obs (c : state) (p : list op) : list obs := snd (run c p).
Definition serial_ws (c : state) (p : list op) : list wentry := committed_ws (fst (run c p)).

(* ---- executable comparison, used to evaluate statements on recorded schedules ---- *)
Definition bytes_eqb' (a b : bytes) : bool := keq a b.
Definition entry_eq (a b : entry) : bool :=
  keq (e_key a) (e_key b) && keq (e_val a) (e_val b) && (e_tx a =? e_tx b) &&
  Bool.eqb (e_del a) (e_del b) && Bool.eqb (e_exp a) (e_exp b).
Definition obs_eq (a b : obs) : bool :=
  match a, b with
  | BNotFound, BNotFound | BNoMore, BNoMore | BOk, BOk | BErr, BErr => true
  | BFound x, BFound y => entry_eq x y
  | _, _ => false
  end.
Fixpoint obs_list_eq (a b : list obs) : bool :=
  match a, b with
  | [], [] => true
  | x :: a', y :: b' => obs_eq x y && obs_list_eq a' b'
  | _, _ => false
  end.

(* a committed transaction is serial when its observations are those of its program run alone
   on the state produced by all transactions with smaller ids *)
Definition crec_serial (l : log) (c : crec) : bool :=
  obs_list_eq (c_obs c) (serial_obs (state_at l (c_txid c - 1)) (c_prog c)).

Definition all_gapfree_serial (g : gstate) : bool :=
  forallb (fun c => if gapfree (c_tx c) then crec_serial (g_log g) c else true) (g_done g).
