(* C05 — validated reads are current: if the read-set a program produced on its snapshot
   validates against the current committed state (and has none of the two unprotected shapes),
   the program run alone on the current state observes exactly the same. *)
From V Require Import MVCC.Spec MVCC.SpecProofs MVCC.Tx MVCC.Validate MVCC.Serial
  MVCC.ViewProofs MVCC.ReaderProofs.
From Coq Require Import ZifyN ZifyNat ZifyBool.

(* ---------- list helpers ---------- *)
Lemma set_nth_length {A} n (x : A) l : length (set_nth n x l) = length l.
Proof. revert n; induction l as [|a l IH]; intros [|n]; simpl; auto. Qed.
Lemma nth_set_nth_eq {A} n (x : A) l : (n < length l)%nat -> nth_error (set_nth n x l) n = Some x.
Proof.
  revert n; induction l as [|a l IH]; intros [|n] H; simpl in *; try lia; auto. apply IH; lia.
Qed.
Lemma nth_set_nth_neq {A} n m (x : A) l : n <> m -> nth_error (set_nth n x l) m = nth_error l m.
Proof.
  revert n m; induction l as [|a l IH]; intros [|n] [|m] H; simpl; auto; try congruence.
Qed.
Lemma nth_error_lt {A} (l : list A) n x : nth_error l n = Some x -> (n < length l)%nat.
Proof. intros H. apply nth_error_Some. congruence. Qed.
Lemma nth_error_snoc {A} (l : list A) x n y :
  nth_error (l ++ [x]) n = Some y -> nth_error l n = Some y \/ (n = length l /\ y = x).
Proof.
  intros H. destruct (Nat.lt_ge_cases n (length l)) as [L|L].
  - rewrite nth_error_app1 in H by exact L. auto.
  - rewrite nth_error_app2 in H by exact L. destruct (n - length l)%nat eqn:D; simpl in H.
    + inversion H; subst. right; split; auto; lia.
    + destruct n0; discriminate.
Qed.

(* ---------- write sets only grow ---------- *)
Definition ws_le (a b : list wentry) : Prop := forall k, in_ws k a = true -> in_ws k b = true.

Lemma in_ws_app k a b : in_ws k (a ++ b) = in_ws k a || in_ws k b.
Proof. unfold in_ws; apply existsb_app. Qed.

Lemma in_ws_replace k w ws : in_ws k (replace_w w ws) = true <-> in_ws k ws = true.
Proof.
  induction ws as [|x ws IH]; simpl; [tauto|].
  destruct (keq (w_key w) (w_key x)) eqn:K; simpl.
  - apply keq_true in K. rewrite K. tauto.
  - rewrite !orb_true_iff, IH. tauto.
Qed.

Lemma do_set_ws tx w : ws_le (t_ws tx) (t_ws (fst (do_set tx w))).
Proof.
  unfold do_set, ws_le. intros k H.
  destruct (is_nil (w_key w) || (max_key_size <? length (w_key w))%nat); auto.
  destruct (find_w (w_key w) (t_ws tx)).
  - destruct (Bool.eqb (w_tr w0) (w_tr w)); simpl; auto. apply in_ws_replace; exact H.
  - simpl. rewrite in_ws_app, H. reflexivity.
Qed.

(* ---------- read-sets only grow ---------- *)
Definition prefix {A} (a b : list A) : Prop := exists r, b = a ++ r.
Lemma prefix_refl {A} (a : list A) : prefix a a.
Proof. exists []; rewrite app_nil_r; reflexivity. Qed.
Lemma prefix_trans {A} (a b c : list A) : prefix a b -> prefix b c -> prefix a c.
Proof. intros [r ->] [r' ->]. exists (r ++ r'). rewrite app_assoc; reflexivity. Qed.
Lemma prefix_snoc {A} (a : list A) x : prefix a (a ++ [x]).
Proof. exists [x]; reflexivity. Qed.
Lemma prefix_In {A} (a b : list A) x : prefix (a ++ [x]) b -> In x b.
Proof. intros [r ->]. apply in_or_app; left. apply in_or_app; right; left; reflexivity. Qed.

Definition all_segs (x : xreader) : list (list xread) := xr_done x ++ [xr_cur x].

Definition reader_le (x1 x2 : xreader) : Prop :=
  xr_spec x1 = xr_spec x2 /\
  exists later segs, all_segs x2 = xr_done x1 ++ [xr_cur x1 ++ later] ++ segs.

Definition readers_le (l1 l2 : list xreader) : Prop :=
  forall i x1, nth_error l1 i = Some x1 -> exists x2, nth_error l2 i = Some x2 /\ reader_le x1 x2.

Definition rs_le (a b : readset) : Prop :=
  prefix (r_gets a) (r_gets b) /\ prefix (r_pgets a) (r_pgets b) /\
  readers_le (r_readers a) (r_readers b).

Lemma reader_le_refl x : reader_le x x.
Proof.
  split; auto. exists [], []. unfold all_segs. rewrite !app_nil_r. reflexivity.
Qed.

Lemma reader_le_trans a b c : reader_le a b -> reader_le b c -> reader_le a c.
Proof.
  intros [S1 (l1 & g1 & E1)] [S2 (l2 & g2 & E2)]. split; [congruence|].
  unfold all_segs in *.
  (* all_segs b = done_a ++ [cur_a ++ l1] ++ g1: either g1 is empty (cur_b = cur_a ++ l1) or not *)
  destruct g1 as [|g g1'] using rev_ind.
  - rewrite app_nil_r in E1. apply app_inj_tail in E1 as [Ed Ec].
    exists (l1 ++ l2), g2. rewrite E2, Ed, Ec, <- !app_assoc. reflexivity.
  - clear IHg1'. rewrite !app_assoc in E1. apply app_inj_tail in E1 as [Ed Ec].
    exists l1, (g1' ++ [g ++ l2] ++ g2). rewrite E2, Ed, Ec. rewrite <- !app_assoc. reflexivity.
Qed.

Lemma readers_le_refl l : readers_le l l.
Proof. intros i x H; exists x; split; auto using reader_le_refl. Qed.
Lemma readers_le_trans a b c : readers_le a b -> readers_le b c -> readers_le a c.
Proof.
  intros H1 H2 i x Hx. destruct (H1 i x Hx) as (y & Hy & L1). destruct (H2 i y Hy) as (z & Hz & L2).
  exists z; split; eauto using reader_le_trans.
Qed.
Lemma rs_le_refl a : rs_le a a.
Proof. repeat split; auto using prefix_refl, readers_le_refl. Qed.
Lemma rs_le_trans a b c : rs_le a b -> rs_le b c -> rs_le a c.
Proof.
  intros (A1 & A2 & A3) (B1 & B2 & B3). repeat split; eauto using prefix_trans, readers_le_trans.
Qed.

Lemma readers_le_set l i x x' :
  nth_error l i = Some x -> reader_le x x' -> readers_le l (set_nth i x' l).
Proof.
  intros Hi L j y Hj. destruct (Nat.eq_dec i j) as [->|N].
  - exists x'. rewrite nth_set_nth_eq by (eapply nth_error_lt; eauto). split; congruence.
  - exists y. rewrite nth_set_nth_neq by exact N. split; auto using reader_le_refl.
Qed.
Lemma readers_le_snoc l x : readers_le l (l ++ [x]).
Proof.
  intros i y H. exists y; split; auto using reader_le_refl.
  rewrite nth_error_app1; auto. eapply nth_error_lt; eauto.
Qed.

(* every operation extends the read-set *)
Lemma exec_rs_le s tx o : rs_le (t_rs tx) (t_rs (fst (exec_op s tx o))).
Proof.
  assert (G : forall k fs, rs_le (t_rs tx) (t_rs (fst (do_get s tx k fs)))).
  { intros k fs. unfold do_get. destruct (get fs k (view s (t_ws tx))) as [e|].
    - destruct (own e); simpl; [apply rs_le_refl|].
      repeat split; simpl; auto using prefix_refl, prefix_snoc, readers_le_refl.
    - simpl. repeat split; simpl; auto using prefix_refl, prefix_snoc, readers_le_refl. }
  assert (St : forall t w, t_rs (fst (do_set t w)) = t_rs t).
  { intros t w. unfold do_set.
    destruct (is_nil (w_key w) || (max_key_size <? length (w_key w))%nat); auto.
    destruct (find_w (w_key w) (t_ws t)); auto. destruct (Bool.eqb (w_tr w0) (w_tr w)); auto. }
  destruct o as [k fs|p n fs|k v dl ex tr|k|sp fs off|rid|rid|sp]; simpl.
  - apply G.
  - unfold do_pget. destruct (get_with_prefix fs p n (view s (t_ws tx))) as [e|].
    + destruct (own e); simpl; [apply rs_le_refl|].
      repeat split; simpl; auto using prefix_refl, prefix_snoc, readers_le_refl.
    + simpl. repeat split; simpl; auto using prefix_refl, prefix_snoc, readers_le_refl.
  - rewrite St. apply rs_le_refl.
  - unfold do_delete. pose proof (G k [FExp; FDel]) as Gk.
    destruct (do_get s tx k [FExp; FDel]) as [tx' b] eqn:D. simpl in Gk.
    destruct b; auto. destruct (e_del e); auto. rewrite St. exact Gk.
  - unfold do_new_reader. destruct (spec_ok sp); simpl; [|apply rs_le_refl].
    repeat split; simpl; auto using prefix_refl, readers_le_snoc.
  - unfold do_read. destruct (nth_error (t_rds tx) (N.to_nat rid)) as [rd|] eqn:Hr; [|apply rs_le_refl].
    destruct (nth_error (r_readers (t_rs tx)) (N.to_nat rid)) as [xr|] eqn:Hx; [|apply rs_le_refl].
    destruct (read_loop _ _ _ _ _) as [[[o recs] c'] sk']. simpl.
    repeat split; simpl; auto using prefix_refl.
    eapply readers_le_set; eauto. split; auto. exists recs, []. unfold all_segs; simpl.
    reflexivity.
  - unfold do_reset. destruct (nth_error (t_rds tx) (N.to_nat rid)) as [rd|] eqn:Hr; [|apply rs_le_refl].
    destruct (nth_error (r_readers (t_rs tx)) (N.to_nat rid)) as [xr|] eqn:Hx; [|apply rs_le_refl].
    simpl. repeat split; simpl; auto using prefix_refl.
    eapply readers_le_set; eauto. split; auto. exists [], [[]]. unfold all_segs; simpl.
    rewrite app_nil_r, <- app_assoc. reflexivity.
  - unfold do_mark. destruct (spec_ok sp); simpl; [|apply rs_le_refl].
    repeat split; simpl; auto using prefix_refl, readers_le_refl.
Qed.

Lemma run_rs_le s p : forall tx, rs_le (t_rs tx) (t_rs (fst (run_from s tx p))).
Proof.
  induction p as [|o p IH]; intros tx; simpl; [apply rs_le_refl|].
  pose proof (exec_rs_le s tx o) as L. destruct (exec_op s tx o) as [tx1 b]. simpl in L.
  pose proof (IH tx1) as L2. destruct (run_from s tx1 p) as [tx2 bs]. simpl in *.
  eapply rs_le_trans; eauto.
Qed.

(* the "prefix get answered by an own write" flag is never cleared *)
Lemma do_set_pown t w : t_pown (fst (do_set t w)) = t_pown t.
Proof.
  unfold do_set. destruct (is_nil (w_key w) || (max_key_size <? length (w_key w))%nat); auto.
  destruct (find_w (w_key w) (t_ws t)); auto. destruct (Bool.eqb (w_tr w0) (w_tr w)); auto.
Qed.
Lemma do_get_pown s t k fs : t_pown (fst (do_get s t k fs)) = t_pown t.
Proof. unfold do_get. destruct (get fs k (view s (t_ws t))) as [e|]; auto. destruct (own e); auto. Qed.

Lemma exec_pown s tx o : t_pown tx = true -> t_pown (fst (exec_op s tx o)) = true.
Proof.
  intros H. destruct o as [k fs|p n fs|k v dl ex tr|k|sp fs off|rid|rid|sp]; simpl.
  - rewrite do_get_pown; auto.
  - unfold do_pget. destruct (get_with_prefix fs p n (view s (t_ws tx))) as [e|]; auto.
    destruct (own e); auto. simpl. rewrite H. reflexivity.
  - rewrite do_set_pown; auto.
  - unfold do_delete. pose proof (do_get_pown s tx k [FExp; FDel]) as G.
    destruct (do_get s tx k [FExp; FDel]) as [tx' b]. simpl in G.
    destruct b; simpl; try congruence. destruct (e_del e); simpl; try congruence.
    rewrite do_set_pown; congruence.
  - unfold do_new_reader. destruct (spec_ok sp); auto.
  - unfold do_read. destruct (nth_error (t_rds tx) (N.to_nat rid)); auto.
    destruct (nth_error (r_readers (t_rs tx)) (N.to_nat rid)); auto.
    destruct (read_loop _ _ _ _ _) as [[[o recs] c'] sk']; auto.
  - unfold do_reset. destruct (nth_error (t_rds tx) (N.to_nat rid)); auto.
    destruct (nth_error (r_readers (t_rs tx)) (N.to_nat rid)); auto.
  - unfold do_mark. destruct (spec_ok sp); auto.
Qed.
Lemma run_pown s p : forall tx, t_pown tx = true -> t_pown (fst (run_from s tx p)) = true.
Proof.
  induction p as [|o p IH]; intros tx H; simpl; auto.
  pose proof (exec_pown s tx o H) as L. destruct (exec_op s tx o) as [tx1 b]. simpl in L.
  pose proof (IH tx1 L) as L2. destruct (run_from s tx1 p) as [tx2 bs]. exact L2.
Qed.

(* ---------- invariant of a transaction running on snapshot s0 ---------- *)
Definition tinv (s0 : state) (tx : otx) : Prop :=
  length (r_readers (t_rs tx)) = length (t_rds tx) /\
  forall i rd x, nth_error (t_rds tx) i = Some rd -> nth_error (r_readers (t_rs tx)) i = Some x ->
                 rinv s0 (t_ws tx) rd x.

Lemma rinv_ws_le s0 ws ws' rd x : ws_le ws ws' -> rinv s0 ws rd x -> rinv s0 ws' rd x.
Proof.
  intros L [A B C D F G H]. constructor; auto;
  try (intros NM e He R Af; apply L; eapply G; eauto).
Qed.

Lemma tinv_empty s0 : tinv s0 tx_empty.
Proof. split; auto. intros i rd x H. destruct i; discriminate. Qed.

Lemma tinv_ext s0 a b :
  ws_le (t_ws a) (t_ws b) -> r_readers (t_rs a) = r_readers (t_rs b) -> t_rds a = t_rds b ->
  tinv s0 a -> tinv s0 b.
Proof.
  intros W R D [L I]. split; [congruence|].
  intros i rd x H1 H2. rewrite <- D in H1. rewrite <- R in H2.
  eapply rinv_ws_le; eauto.
Qed.

Lemma ws_le_refl a : ws_le a a. Proof. intros k H; exact H. Qed.

Lemma dsorted_ksorted d l : dsorted d l -> ksorted d (map e_key l).
Proof.
  unfold ksorted. induction 1 as [|e l F S IH]; simpl; constructor; auto.
  unfold lt_all in *. rewrite Forall_forall in *. intros x Hx.
  apply in_map_iff in Hx as (k & <- & Hk). apply in_map_iff in Hk as (y & <- & Hy). simpl. auto.
Qed.

Lemma dsorted_prefix d p r : dsorted d (p ++ r) -> dsorted d p.
Proof. intros H; apply dsorted_app in H; tauto. Qed.

Lemma last_key_some c p kb : last_opt (map e_key p) = Some kb -> last_key c p = Some kb.
Proof. intros H. rewrite last_key_map, H. reflexivity. Qed.
Lemma last_key_nil c : last_key c [] = c. Proof. reflexivity. Qed.

Lemma last_opt_In {A} (l : list A) x : last_opt l = Some x -> In x l.
Proof.
  unfold last_opt. destruct (rev l) eqn:R; [discriminate|]. intros H; inversion H; subst.
  apply in_rev. rewrite R. left; reflexivity.
Qed.
Lemma last_opt_none {A} (l : list A) : last_opt l = None -> l = [].
Proof.
  unfold last_opt. destruct (rev l) eqn:R; [|discriminate]. intros _.
  apply (f_equal (@rev _)) in R. rewrite rev_involutive in R. exact R.
Qed.

(* advancing the cursor over entries that lie ahead of it *)
Lemma cursor_adv d c p k :
  (forall y, In y p -> after_c d c (e_key y)) ->
  after_c d (last_key c p) k -> after_c d c k.
Proof.
  intros H A. rewrite last_key_map in A.
  destruct (last_opt (map e_key p)) as [kb|] eqn:L; auto.
  apply last_opt_In in L. apply in_map_iff in L as (y & <- & Hy).
  specialize (H y Hy). unfold after_c in *. destruct c as [c0|]; auto.
  eapply dlt_trans; eauto.
Qed.

Section TxInv.
  Context (s0 : state) (S0 : sorted s0) (C0 : committed s0).

  (* a Read keeps the reader invariant *)
  Lemma rinv_read ws rd x p ex o recs c' sk' :
    rinv s0 ws rd x ->
    consumed (rd_fs rd) (rd_offset rd) (rd_skipped rd)
             (after (rs_desc (rd_spec rd)) (rd_cursor rd) (scan (rd_spec rd) (view s0 ws))) = (p, ex) ->
    read_loop (rd_fs rd) (rd_offset rd) (rd_skipped rd) (rd_cursor rd)
              (after (rs_desc (rd_spec rd)) (rd_cursor rd) (scan (rd_spec rd) (view s0 ws))) = (o, recs, c', sk') ->
    rinv s0 ws (mkRd (rd_spec rd) (rd_fs rd) (rd_offset rd) sk' c')
               (mkXRd (xr_spec x) (xr_done x) (xr_cur x ++ recs)).
  Proof.
    intros I CO RL.
    set (d := rs_desc (rd_spec rd)) in *.
    set (l1 := after d (rd_cursor rd) (scan (rd_spec rd) (view s0 ws))) in *.
    destruct (read_loop_recs _ _ _ _ _ _ _ _ _ _ _ CO RL) as (Er & Ec & _ & _).
    destruct (consumed_prefix _ _ _ _ _ _ CO) as (rr & El & Erx).
    assert (SL : dsorted d l1) by (apply after_sorted, scan_sorted, sorted_view; exact S0).
    assert (Pin : forall y, In y p -> In y (view s0 ws) /\ in_range (rd_spec rd) (e_key y) = true /\
                                     after_c d (rd_cursor rd) (e_key y)).
    { intros y Hy. assert (H : In y l1) by (rewrite El; apply in_or_app; auto).
      unfold l1 in H. rewrite after_In, scan_In in H. tauto. }
    assert (SP : ksorted d (map e_key p)).
    { apply dsorted_ksorted. rewrite El in SL. eapply dsorted_prefix; eauto. }
    assert (SK : seg_keys (xr_cur x ++ recs) = seg_keys (xr_cur x) ++ map e_key p).
    { rewrite Er, !seg_keys_app, seg_keys_map. destruct ex; simpl; rewrite app_nil_r; reflexivity. }
    destruct I as [I1 I2 I3 I4 I5 I6 I7]. fold d in I2, I6, I7.
    constructor; cbn [rd_spec rd_cursor xr_spec xr_cur xr_done]; fold d; auto.
    - (* keys stay ordered *)
      rewrite SK. apply ksorted_app. repeat split; auto.
      intros a b Ha Hb. apply in_map_iff in Hb as (y & <- & Hy).
      destruct (Pin y Hy) as (_ & _ & Af). rewrite I3 in Af.
      destruct (last_opt (seg_keys (xr_cur x))) as [c0|] eqn:L.
      + destruct (ksorted_last _ _ _ _ I2 L Ha) as [->|D]; auto. eapply dlt_trans; eauto.
      + apply last_opt_none in L. rewrite L in Ha; destruct Ha.
    - (* the cursor is the last key recorded *)
      rewrite SK, Ec, last_key_map.
      destruct (last_opt (map e_key p)) as [kb|] eqn:L.
      + destruct p as [|y p']; [discriminate|]. rewrite last_opt_app by discriminate. auto.
      + apply last_opt_none in L. apply map_eq_nil in L. subst p. simpl. rewrite app_nil_r. exact I3.
    - (* committed records denote snapshot entries *)
      intros k t H T. apply in_app_or in H as [H|H]; eauto.
      rewrite Er in H. apply in_app_or in H as [H|H].
      + apply in_map_iff in H as (y & Ry & Hy). inversion Ry; subst k t.
        destruct (Pin y Hy) as (Hv & _ & _).
        assert (O : own y = false) by (unfold own; apply N.eqb_neq; exact T).
        destruct (view_In_com _ _ _ S0 Hv O) as [_ H0]. exists y; auto.
      + destruct ex; simpl in H; [destruct H as [H|[]]; discriminate | destruct H].
    - (* own records denote own keys *)
      intros k H. apply in_app_or in H as [H|H]; eauto.
      rewrite Er in H. apply in_app_or in H as [H|H].
      + apply in_map_iff in H as (y & Ry & Hy). inversion Ry as [[Ek Et]]. subst k.
        destruct (Pin y Hy) as (Hv & _ & _).
        assert (O : own y = true) by (unfold own; apply N.eqb_eq; exact Et).
        destruct (view_In_own _ _ _ S0 C0 Hv O) as [W _]; exact W.
      + destruct ex; simpl in H; [destruct H as [H|[]]; discriminate | destruct H].
    - (* once run dry, nothing of the snapshot lies ahead outside the own keys *)
      intros NM e He R Af.
      assert (Af0 : after_c d (rd_cursor rd) (e_key e)).
      { rewrite Ec in Af. eapply cursor_adv; eauto. intros y Hy; apply Pin; exact Hy. }
      apply in_app_or in NM as [NM|NM]; [eapply I6; eauto|].
      destruct (in_ws (e_key e) ws) eqn:W; auto. exfalso.
      assert (EX : ex = true).
      { rewrite Er in NM. apply in_app_or in NM as [NM|NM]; [exfalso; exact (no_nomore_map _ NM)|].
        destruct ex; auto; destruct NM. }
      assert (Hl : In e l1).
      { unfold l1. rewrite after_In, scan_In. repeat split; auto. apply view_In_intro; auto. }
      rewrite El, (Erx EX), app_nil_r in Hl.
      assert (Hk : In (e_key e) (map e_key p)) by (apply in_map; exact Hl).
      rewrite Ec, last_key_map in Af.
      destruct (last_opt (map e_key p)) as [kb|] eqn:L.
      + destruct (ksorted_last _ _ _ _ SP L Hk) as [Eq|D].
        * rewrite Eq in Af. exact (dlt_irrefl _ _ Af).
        * exact (dlt_asym _ _ _ D Af).
      + apply last_opt_none in L. rewrite L in Hk; destruct Hk.
  Qed.

  Lemma rinv_reset ws rd x :
    rinv s0 ws rd x ->
    rinv s0 ws (mkRd (rd_spec rd) (rd_fs rd) (rd_offset rd) (rd_skipped rd) None)
               (mkXRd (xr_spec x) (xr_done x ++ [xr_cur x]) []).
  Proof.
    intros [I1 I2 I3 I4 I5 I6 I7].
    constructor; cbn [rd_spec rd_cursor xr_spec xr_cur xr_done]; auto;
      try apply ksorted_nil; try (simpl; intros; contradiction).
    intros seg H. apply in_app_or in H as [H|[<-|[]]]; auto.
  Qed.

  Lemma rinv_new ws sp fs off : rinv s0 ws (mkRd sp fs off 0 None) (mkXRd sp [] []).
  Proof.
    constructor; cbn [rd_spec rd_cursor xr_spec xr_cur xr_done]; auto;
      try apply ksorted_nil; try (simpl; intros; contradiction).
  Qed.

  (* replacing reader i *)
  Lemma tinv_set_reader tx i rd x rd' x' :
    tinv s0 tx -> nth_error (t_rds tx) i = Some rd -> nth_error (r_readers (t_rs tx)) i = Some x ->
    rinv s0 (t_ws tx) rd' x' -> tinv s0 (set_reader tx i rd' x').
  Proof.
    intros [L I] Hr Hx R. split.
    - unfold set_reader; simpl. rewrite !set_nth_length; exact L.
    - unfold set_reader; simpl. intros j rdj xj H1 H2.
      destruct (Nat.eq_dec i j) as [->|N].
      + rewrite nth_set_nth_eq in H1 by (eapply nth_error_lt; eauto).
        rewrite nth_set_nth_eq in H2 by (eapply nth_error_lt; eauto).
        inversion H1; inversion H2; subst; exact R.
      + rewrite nth_set_nth_neq in H1 by exact N. rewrite nth_set_nth_neq in H2 by exact N. eauto.
  Qed.

  Lemma do_set_tinv tx w : tinv s0 tx -> tinv s0 (fst (do_set tx w)).
  Proof.
    intros T. apply (tinv_ext s0 tx); auto using do_set_ws.
    - unfold do_set. destruct (is_nil (w_key w) || (max_key_size <? length (w_key w))%nat); auto.
      destruct (find_w (w_key w) (t_ws tx)); auto. destruct (Bool.eqb (w_tr w0) (w_tr w)); auto.
    - unfold do_set. destruct (is_nil (w_key w) || (max_key_size <? length (w_key w))%nat); auto.
      destruct (find_w (w_key w) (t_ws tx)); auto. destruct (Bool.eqb (w_tr w0) (w_tr w)); auto.
  Qed.

  Lemma do_get_tinv tx k fs : tinv s0 tx -> tinv s0 (fst (do_get s0 tx k fs)).
  Proof.
    intros T. unfold do_get. destruct (get fs k (view s0 (t_ws tx))) as [e|]; [destruct (own e)|]; auto;
      apply (tinv_ext s0 tx); auto using ws_le_refl.
  Qed.

  Lemma exec_tinv tx o : tinv s0 tx -> tinv s0 (fst (exec_op s0 tx o)).
  Proof.
    intros T. destruct o as [k fs|p n fs|k v dl ex tr|k|sp fs off|rid|rid|sp]; simpl.
    - apply do_get_tinv; auto.
    - unfold do_pget. destruct (get_with_prefix fs p n (view s0 (t_ws tx))) as [e|]; [destruct (own e)|];
        apply (tinv_ext s0 tx); auto using ws_le_refl.
    - apply do_set_tinv; auto.
    - unfold do_delete. pose proof (do_get_tinv tx k [FExp; FDel] T) as G.
      destruct (do_get s0 tx k [FExp; FDel]) as [tx' b]. simpl in G.
      destruct b; auto. destruct (e_del e); auto. apply do_set_tinv; auto.
    - unfold do_new_reader. destruct (spec_ok sp); auto. destruct T as [L I]. split; simpl.
      + rewrite !app_length, L; reflexivity.
      + intros i rd x H1 H2. apply nth_error_snoc in H1 as [H1|[Ei ->]];
          apply nth_error_snoc in H2 as [H2|[Ej ->]]; eauto.
        * apply nth_error_lt in H1. lia.
        * apply nth_error_lt in H2. lia.
        * apply rinv_new.
    - unfold do_read. destruct (nth_error (t_rds tx) (N.to_nat rid)) as [rd|] eqn:Hr; auto.
      destruct (nth_error (r_readers (t_rs tx)) (N.to_nat rid)) as [xr|] eqn:Hx; auto.
      destruct (read_loop _ _ _ _ _) as [[[o recs] c'] sk'] eqn:RL. simpl.
      destruct (consumed (rd_fs rd) (rd_offset rd) (rd_skipped rd)
                  (after (rs_desc (rd_spec rd)) (rd_cursor rd) (scan (rd_spec rd) (view s0 (t_ws tx)))))
        as [p ex] eqn:CO.
      eapply tinv_set_reader; eauto. eapply rinv_read; eauto. destruct T as [_ I]; eauto.
    - unfold do_reset. destruct (nth_error (t_rds tx) (N.to_nat rid)) as [rd|] eqn:Hr; auto.
      destruct (nth_error (r_readers (t_rs tx)) (N.to_nat rid)) as [xr|] eqn:Hx; auto. simpl.
      eapply tinv_set_reader; eauto. eapply rinv_reset; eauto. destruct T as [_ I]; eauto.
    - unfold do_mark. destruct (spec_ok sp); auto; try (apply (tinv_ext s0 tx); auto using ws_le_refl).
  Qed.

  Lemma run_tinv p : forall tx, tinv s0 tx -> tinv s0 (fst (run_from s0 tx p)).
  Proof.
    induction p as [|o p IH]; intros tx T; simpl; auto.
    pose proof (exec_tinv tx o T) as T1. destruct (exec_op s0 tx o) as [tx1 b]. simpl in T1.
    pose proof (IH tx1 T1) as T2. destruct (run_from s0 tx1 p) as [tx2 bs]. exact T2.
  Qed.
End TxInv.

(* ---------- lockstep simulation: the program on the snapshot vs. alone on the current state ---------- *)
Definition wf2 (tx : otx) : Prop := length (r_readers (t_rs tx)) = length (t_rds tx).
Definition sim (a b : otx) : Prop := t_ws a = t_ws b /\ t_rds a = t_rds b.

Definition segs_sorted (tx : otx) : Prop :=
  forall x, In x (r_readers (t_rs tx)) -> forall seg, In seg (all_segs x) ->
            ksorted (rs_desc (xr_spec x)) (seg_keys seg).

Lemma tinv_wf2 s0 tx : tinv s0 tx -> wf2 tx.
Proof. intros [L _]; exact L. Qed.

Lemma tinv_segs_sorted s0 tx : tinv s0 tx -> segs_sorted tx.
Proof.
  intros [L I] x Hx seg Hs. apply In_nth_error in Hx as (i & Hi).
  assert (Hl : (i < length (t_rds tx))%nat) by (rewrite <- L; eapply nth_error_lt; eauto).
  destruct (nth_error (t_rds tx) i) as [rd|] eqn:Hr; [|apply nth_error_None in Hr; lia].
  destruct (I i rd x Hr Hi) as [I1 I2 _ _ _ _ I7]. rewrite I1.
  unfold all_segs in Hs. apply in_app_or in Hs as [Hs|[<-|[]]]; auto.
Qed.

Lemma exec_wf2 s tx o : wf2 tx -> wf2 (fst (exec_op s tx o)).
Proof.
  unfold wf2. intros W.
  assert (G : forall k fs, length (r_readers (t_rs (fst (do_get s tx k fs)))) = length (t_rds (fst (do_get s tx k fs)))).
  { intros k fs. unfold do_get. destruct (get fs k (view s (t_ws tx))) as [e|]; [destruct (own e)|]; auto. }
  assert (St : forall t w, length (r_readers (t_rs t)) = length (t_rds t) ->
               length (r_readers (t_rs (fst (do_set t w)))) = length (t_rds (fst (do_set t w)))).
  { intros t w H. unfold do_set. destruct (is_nil (w_key w) || (max_key_size <? length (w_key w))%nat); auto.
    destruct (find_w (w_key w) (t_ws t)); auto. destruct (Bool.eqb (w_tr w0) (w_tr w)); auto. }
  destruct o as [k fs|p n fs|k v dl ex tr|k|sp fs off|rid|rid|sp]; simpl; auto.
  - unfold do_pget. destruct (get_with_prefix fs p n (view s (t_ws tx))) as [e|]; [destruct (own e)|]; auto.
  - unfold do_delete. pose proof (G k [FExp; FDel]) as Gk.
    destruct (do_get s tx k [FExp; FDel]) as [tx' b]. simpl in Gk. destruct b; auto. destruct (e_del e); auto.
  - unfold do_new_reader. destruct (spec_ok sp); auto. simpl. rewrite !app_length, W; reflexivity.
  - unfold do_read. destruct (nth_error (t_rds tx) (N.to_nat rid)); auto.
    destruct (nth_error (r_readers (t_rs tx)) (N.to_nat rid)); auto.
    destruct (read_loop _ _ _ _ _) as [[[o recs] c'] sk']. simpl. rewrite !set_nth_length; exact W.
  - unfold do_reset. destruct (nth_error (t_rds tx) (N.to_nat rid)); auto.
    destruct (nth_error (r_readers (t_rs tx)) (N.to_nat rid)); auto.
    simpl. rewrite !set_nth_length; exact W.
  - unfold do_mark. destruct (spec_ok sp); auto.
Qed.

Lemma validate_parts c r : validate c r = true ->
  (forall g, In g (r_gets r) -> vget c g = true) /\
  (forall g, In g (r_pgets r) -> vpget c g = true) /\
  (forall x, In x (r_readers r) -> vreader c x = true).
Proof.
  unfold validate. intros H. apply andb_prop in H as [H H4]. apply andb_prop in H as [H H3].
  apply andb_prop in H as [H1 H2]. rewrite forallb_forall in H1, H2, H3. auto.
Qed.

Lemma do_set_sim tx1 tx2 w :
  sim tx1 tx2 -> snd (do_set tx2 w) = snd (do_set tx1 w) /\ sim (fst (do_set tx1 w)) (fst (do_set tx2 w)).
Proof.
  intros [Ew Er]. unfold do_set. rewrite <- Ew.
  destruct (is_nil (w_key w) || (max_key_size <? length (w_key w))%nat); [split; auto; split; auto|].
  destruct (find_w (w_key w) (t_ws tx1)).
  - destruct (Bool.eqb (w_tr w0) (w_tr w)); split; auto; split; simpl; auto.
  - split; auto; split; simpl; auto.
Qed.

Section Lockstep.
  Context (s0 c : state) (E : env s0 c).

  Lemma do_get_sim tx1 tx2 k fs rsf :
    sim tx1 tx2 -> rs_le (t_rs (fst (do_get s0 tx1 k fs))) rsf -> validate c rsf = true ->
    snd (do_get c tx2 k fs) = snd (do_get s0 tx1 k fs) /\
    sim (fst (do_get s0 tx1 k fs)) (fst (do_get c tx2 k fs)).
  Proof.
    intros [Ew Er] L V. destruct (validate_parts _ _ V) as (Vg & _ & _).
    unfold do_get in *. rewrite <- Ew.
    pose proof (get_sim s0 c E (t_ws tx1) k fs) as G.
    destruct (get fs k (view s0 (t_ws tx1))) as [e|] eqn:G1.
    - destruct (own e) eqn:O.
      + rewrite G, O. split; auto; split; auto.
      + simpl in L. destruct L as (Lg & _ & _). apply prefix_In in Lg.
        rewrite (G (Vg _ Lg)), O. split; auto; split; auto.
    - simpl in L. destruct L as (Lg & _ & _). apply prefix_In in Lg.
      rewrite (G (Vg _ Lg)). split; auto; split; auto.
  Qed.

  Lemma exec_sim tx1 tx2 o txf :
    tinv s0 tx1 -> wf2 tx2 -> sim tx1 tx2 ->
    rs_le (t_rs (fst (exec_op s0 tx1 o))) (t_rs txf) ->
    (t_pown (fst (exec_op s0 tx1 o)) = true -> t_pown txf = true) ->
    segs_sorted txf -> validate c (t_rs txf) = true -> gapfree txf = true ->
    snd (exec_op c tx2 o) = snd (exec_op s0 tx1 o) /\
    sim (fst (exec_op s0 tx1 o)) (fst (exec_op c tx2 o)).
  Proof.
    intros T W2 Sm L PO SS V GF.
    pose proof Sm as [Ew Er].
    destruct (validate_parts _ _ V) as (Vg & Vp & Vr).
    unfold gapfree in GF. apply andb_prop in GF as [GP GR]. apply negb_true_iff in GP.
    rewrite forallb_forall in GR.
    destruct o as [k fs|p n fs|k v dl ex tr|k|sp fs off|rid|rid|sp]; cbn [exec_op] in *.
    - eapply do_get_sim; eauto.
    - (* prefix get *)
      unfold do_pget in *. rewrite <- Ew.
      pose proof (pget_sim s0 c E (t_ws tx1) p n fs) as G.
      destruct (get_with_prefix fs p n (view s0 (t_ws tx1))) as [e|] eqn:G1.
      + destruct (own e) eqn:O.
        * simpl in PO. destruct (keq (e_key e) p) eqn:KP.
          -- apply keq_true in KP.
             rewrite (pget_sim_own s0 c E (t_ws tx1) p n fs e G1 O KP), O.
             split; auto; split; auto.
          -- rewrite PO in GP by (simpl; apply orb_true_r). discriminate.
        * simpl in L. destruct L as (_ & Lp & _). apply prefix_In in Lp.
          rewrite (G eq_refl (Vp _ Lp)), O. split; auto; split; auto.
      + simpl in L. destruct L as (_ & Lp & _). apply prefix_In in Lp.
        rewrite (G (Vp _ Lp)). split; auto; split; auto.
    - apply do_set_sim; auto.
    - (* delete *)
      unfold do_delete in *.
      assert (L' : rs_le (t_rs (fst (do_get s0 tx1 k [FExp; FDel]))) (t_rs txf)).
      { destruct (do_get s0 tx1 k [FExp; FDel]) as [tx' b] eqn:D. simpl.
        destruct b; auto. destruct (e_del e); auto.
        eapply rs_le_trans; [|exact L]. simpl.
        assert (Eq : t_rs (fst (do_set tx' (mkW k [] true false false))) = t_rs tx').
        { unfold do_set. destruct (is_nil _ || _); auto. destruct (find_w _ _); auto.
          destruct (Bool.eqb _ _); auto. }
        rewrite Eq. apply rs_le_refl. }
      destruct (do_get_sim tx1 tx2 k [FExp; FDel] (t_rs txf) Sm L' V) as [Eo Es].
      destruct (do_get s0 tx1 k [FExp; FDel]) as [tx1' b1]. destruct (do_get c tx2 k [FExp; FDel]) as [tx2' b2].
      simpl in Eo, Es. subst b2. destruct b1; auto. destruct (e_del e); auto.
      apply do_set_sim; auto.
    - (* new reader *)
      unfold do_new_reader. destruct (spec_ok sp); split; auto; split; simpl; auto. rewrite Er; reflexivity.
    - (* read *)
      unfold do_read in *. rewrite <- Er, <- Ew.
      destruct (nth_error (t_rds tx1) (N.to_nat rid)) as [rd|] eqn:Hr; [|split; auto].
      destruct T as [TL TI].
      assert (Hl : (N.to_nat rid < length (t_rds tx1))%nat) by (eapply nth_error_lt; eauto).
      destruct (nth_error (r_readers (t_rs tx1)) (N.to_nat rid)) as [x1|] eqn:Hx1;
        [|apply nth_error_None in Hx1; lia].
      destruct (nth_error (r_readers (t_rs tx2)) (N.to_nat rid)) as [x2|] eqn:Hx2;
        [|apply nth_error_None in Hx2; unfold wf2 in W2; rewrite W2, <- Er in Hx2; lia].
      pose proof (TI _ _ _ Hr Hx1) as RI.
      destruct (consumed (rd_fs rd) (rd_offset rd) (rd_skipped rd)
                  (after (rs_desc (rd_spec rd)) (rd_cursor rd) (scan (rd_spec rd) (view s0 (t_ws tx1)))))
        as [pp ex] eqn:CO.
      destruct (read_loop (rd_fs rd) (rd_offset rd) (rd_skipped rd) (rd_cursor rd)
                  (after (rs_desc (rd_spec rd)) (rd_cursor rd) (scan (rd_spec rd) (view s0 (t_ws tx1)))))
        as [[[o1 recs] c'] sk'] eqn:RL.
      destruct (read_loop_recs _ _ _ _ _ _ _ _ _ _ _ CO RL) as (Erecs & _).
      (* the completed segment in the final read-set *)
      simpl in L. destruct L as (_ & _ & Lr).
      destruct (Lr (N.to_nat rid) (mkXRd (xr_spec x1) (xr_done x1) (xr_cur x1 ++ recs)))
        as (xf & Hxf & Esp & later & segs & Eseg).
      { apply nth_set_nth_eq. rewrite TL; exact Hl. }
      cbn [xr_spec xr_done xr_cur] in Esp, Eseg.
      pose proof (nth_error_In _ _ Hxf) as Inxf.
      assert (Inseg : In ((xr_cur x1 ++ recs) ++ later) (all_segs xf)).
      { rewrite Eseg. apply in_or_app; right. apply in_or_app; left. left; reflexivity. }
      assert (Espec : xr_spec xf = rd_spec rd) by (rewrite <- Esp; exact (ri_spec _ _ _ _ RI)).
      assert (KS : ksorted (rs_desc (rd_spec rd)) (seg_keys ((xr_cur x1 ++ recs) ++ later))).
      { rewrite <- Espec. apply SS; auto. }
      assert (VS : vseg ((xr_cur x1 ++ recs) ++ later) None (scan (rd_spec rd) c) = true).
      { pose proof (Vr _ Inxf) as Vx. unfold vreader in Vx. rewrite forallb_forall in Vx.
        rewrite <- Espec. apply Vx. exact Inseg. }
      assert (TO : seg_tail_ok ((xr_cur x1 ++ recs) ++ later) = true).
      { pose proof (GR _ Inxf) as Gx. unfold reader_gapfree in Gx. rewrite forallb_forall in Gx.
        apply Gx. exact Inseg. }
      rewrite Erecs in KS, VS, TO.
      destruct (read_prefix s0 c E (t_ws tx1) rd x1 later pp ex RI CO KS VS TO) as (r2 & El2 & Ex2).
      rewrite (read_loop_consumed _ _ _ _ (rd_cursor rd) _ _ _ _ CO El2 Ex2).
      rewrite RL. simpl. split; auto. split; simpl; auto. rewrite Er; reflexivity.
    - (* reset *)
      unfold do_reset in *. rewrite <- Er.
      destruct (nth_error (t_rds tx1) (N.to_nat rid)) as [rd|] eqn:Hr; [|split; auto].
      destruct T as [TL TI].
      assert (Hl : (N.to_nat rid < length (t_rds tx1))%nat) by (eapply nth_error_lt; eauto).
      destruct (nth_error (r_readers (t_rs tx1)) (N.to_nat rid)) as [x1|] eqn:Hx1;
        [|apply nth_error_None in Hx1; lia].
      destruct (nth_error (r_readers (t_rs tx2)) (N.to_nat rid)) as [x2|] eqn:Hx2;
        [|apply nth_error_None in Hx2; unfold wf2 in W2; rewrite W2, <- Er in Hx2; lia].
      simpl. split; auto. split; simpl; auto. rewrite Er; reflexivity.
    - (* mark *)
      unfold do_mark. destruct (spec_ok sp); split; auto; split; simpl; auto.
  Qed.
End Lockstep.

(* ---------- the theorem ---------- *)
Lemma validated_current_from s0 c (E : env s0 c) : forall p tx1 tx2,
  tinv s0 tx1 -> wf2 tx2 -> sim tx1 tx2 ->
  validate c (t_rs (fst (run_from s0 tx1 p))) = true -> gapfree (fst (run_from s0 tx1 p)) = true ->
  snd (run_from c tx2 p) = snd (run_from s0 tx1 p) /\
  sim (fst (run_from s0 tx1 p)) (fst (run_from c tx2 p)).
Proof.
  induction p as [|o p IH]; intros tx1 tx2 T W2 Sm V G; [split; auto|].
  cbn [run_from] in *.
  pose proof (exec_tinv s0 (env_s _ _ E) (env_cs _ _ E) tx1 o T) as T1.
  pose proof (exec_wf2 c tx2 o W2) as W2'.
  pose proof (exec_sim s0 c E tx1 tx2 o (fst (run_from s0 (fst (exec_op s0 tx1 o)) p)) T W2 Sm) as ES.
  destruct (exec_op s0 tx1 o) as [tx1' b1] eqn:E1. destruct (exec_op c tx2 o) as [tx2' b2] eqn:E2.
  cbn [fst snd] in *.
  pose proof (run_rs_le s0 p tx1') as RL.
  pose proof (run_pown s0 p tx1') as RP.
  pose proof (run_tinv s0 (env_s _ _ E) (env_cs _ _ E) p tx1' T1) as TF.
  destruct (run_from s0 tx1' p) as [txf bs1] eqn:R1. cbn [fst snd] in *.
  destruct (ES RL RP (tinv_segs_sorted _ _ TF) V G) as [Eb Sm'].
  pose proof (IH tx1' tx2' T1 W2' Sm') as IH'. rewrite R1 in IH'. cbn [fst snd] in IH'.
  destruct (IH' V G) as [Ebs Smf].
  destruct (run_from c tx2' p) as [tx2f bs2]. cbn [fst snd] in *.
  split; [congruence | exact Smf].
Qed.

(* For EVERY snapshot state s0, EVERY program p and EVERY current state c (related as states of
   one history are: env): if the read-set the program produced on s0 validates against c, and the
   execution has none of the two unprotected read shapes, the program run alone on c observes
   the same results and writes the same entries. *)
Theorem validated_reads_are_current_partial_proof s0 c p :
  env s0 c ->
  validate c (t_rs (fst (run s0 p))) = true -> gapfree (fst (run s0 p)) = true ->
  serial_obs c p = snd (run s0 p) /\ serial_ws c p = committed_ws (fst (run s0 p)).
Proof.
  intros E V G. unfold serial_obs, serial_ws, run in *.
  destruct (validated_current_from s0 c E p tx_empty tx_empty (tinv_empty s0) eq_refl (conj eq_refl eq_refl) V G)
    as [Eo [Ew _]].
  split; auto. unfold committed_ws. rewrite Ew. reflexivity.
Qed.

(* the premises are satisfiable: a stale snapshot, a concurrent commit on another key, reads of
   every shape that stay valid *)
Example validated_premises_satisfiable :
  let s0 := [mkE [97] [1] 1 false false; mkE [99] [3] 1 false false] in
  let c := [mkE [97] [1] 1 false false; mkE [98] [2] 2 false false; mkE [99] [3] 1 false false] in
  let p := [OGet [97] [FExp; FDel]; OGet [100] []; OGetPrefix [99] [] [FDel];
            ONewReader (mkRS [99] [] [] true false false) [] 0; ORead 0; ORead 0; OSet [100] [4] false false false] in
  validate c (t_rs (fst (run s0 p))) = true /\ gapfree (fst (run s0 p)) = true.
Proof. vm_compute. split; reflexivity. Qed.
