(* C05 — a transaction always sees its own earlier writes; the two refutation witnesses *)
From V Require Import MVCC.Spec MVCC.SpecProofs MVCC.Tx MVCC.Validate MVCC.Serial
  MVCC.ViewProofs MVCC.ReaderProofs MVCC.TxProofs MVCC.MachineProofs.
From Coq Require Import ZifyN ZifyNat ZifyBool.

Definition nodup_ws (ws : list wentry) : Prop := NoDup (map w_key ws).

Lemma find_w_some k ws w : find_w k ws = Some w -> In w ws /\ w_key w = k.
Proof.
  induction ws as [|x ws IH]; simpl; [discriminate|].
  destruct (keq k (w_key x)) eqn:K.
  - intros H; inversion H; subst. apply keq_true in K. auto.
  - intros H; destruct (IH H); auto.
Qed.
Lemma find_w_none k ws : find_w k ws = None -> ~ In k (map w_key ws).
Proof.
  induction ws as [|x ws IH]; simpl; [tauto|].
  destruct (keq k (w_key x)) eqn:K; [discriminate|]. apply keq_false in K.
  intros H [E|I]; [congruence | exact (IH H I)].
Qed.
Lemma replace_w_keys w ws : map w_key (replace_w w ws) = map w_key ws.
Proof.
  induction ws as [|x ws IH]; simpl; auto. destruct (keq (w_key w) (w_key x)) eqn:K; simpl.
  - apply keq_true in K. congruence.
  - f_equal; exact IH.
Qed.
Lemma find_w_replace_same w ws old : find_w (w_key w) ws = Some old -> find_w (w_key w) (replace_w w ws) = Some w.
Proof.
  induction ws as [|x ws IH]; simpl; [discriminate|].
  destruct (keq (w_key w) (w_key x)) eqn:K; simpl.
  - rewrite keq_refl; reflexivity.
  - rewrite K. exact IH.
Qed.
Lemma find_w_replace_other k w ws : k <> w_key w -> find_w k (replace_w w ws) = find_w k ws.
Proof.
  intros N. induction ws as [|x ws IH]; simpl; auto.
  destruct (keq (w_key w) (w_key x)) eqn:K; simpl.
  - apply keq_true in K. apply keq_false in N. rewrite N. rewrite <- K, N. reflexivity.
  - destruct (keq k (w_key x)); auto.
Qed.
Lemma find_w_app k ws w :
  find_w k (ws ++ [w]) = match find_w k ws with Some x => Some x | None => if keq k (w_key w) then Some w else None end.
Proof. induction ws as [|x ws IH]; simpl; auto. destruct (keq k (w_key x)); auto. Qed.

Lemma NoDup_snoc {A} (l : list A) a : NoDup l -> ~ In a l -> NoDup (l ++ [a]).
Proof.
  intros H N. assert (H' : NoDup (a :: rev l)).
  { constructor; [rewrite <- in_rev; exact N | apply NoDup_rev; exact H]. }
  apply NoDup_rev in H'. simpl in H'. rewrite rev_involutive in H'. exact H'.
Qed.

Lemma do_set_nodup tx w : nodup_ws (t_ws tx) -> nodup_ws (t_ws (fst (do_set tx w))).
Proof.
  unfold do_set, nodup_ws. intros H.
  destruct (is_nil (w_key w) || (max_key_size <? length (w_key w))%nat); auto.
  destruct (find_w (w_key w) (t_ws tx)) eqn:F.
  - destruct (Bool.eqb (w_tr w0) (w_tr w)); simpl; auto. rewrite replace_w_keys; exact H.
  - simpl. rewrite map_app. simpl. apply NoDup_snoc; [exact H | apply find_w_none; exact F].
Qed.

Lemma do_get_ws s tx k fs : t_ws (fst (do_get s tx k fs)) = t_ws tx.
Proof. unfold do_get. destruct (get fs k (view s (t_ws tx))) as [e|]; [destruct (own e)|]; reflexivity. Qed.

Lemma exec_nodup s tx o : nodup_ws (t_ws tx) -> nodup_ws (t_ws (fst (exec_op s tx o))).
Proof.
  intros H. destruct o as [k fs|p n fs|k v dl ex tr|k|sp fs off|rid|rid|sp]; simpl.
  - rewrite do_get_ws; exact H.
  - unfold do_pget. destruct (get_with_prefix fs p n (view s (t_ws tx))) as [e|]; [destruct (own e)|]; exact H.
  - apply do_set_nodup; exact H.
  - unfold do_delete. pose proof (do_get_ws s tx k [FExp; FDel]) as G.
    destruct (do_get s tx k [FExp; FDel]) as [tx' b]. simpl in G.
    destruct b; simpl; try (rewrite G; exact H). destruct (e_del e); simpl; [rewrite G; exact H|].
    apply do_set_nodup. rewrite G; exact H.
  - unfold do_new_reader. destruct (spec_ok sp); exact H.
  - unfold do_read. destruct (nth_error (t_rds tx) (N.to_nat rid)); auto.
    destruct (nth_error (r_readers (t_rs tx)) (N.to_nat rid)); auto.
    destruct (read_loop _ _ _ _ _) as [[[o recs] c'] sk']; exact H.
  - unfold do_reset. destruct (nth_error (t_rds tx) (N.to_nat rid)); auto.
    destruct (nth_error (r_readers (t_rs tx)) (N.to_nat rid)); auto.
  - unfold do_mark. destruct (spec_ok sp); exact H.
Qed.
Lemma run_nodup s p : forall tx, nodup_ws (t_ws tx) -> nodup_ws (t_ws (fst (run_from s tx p))).
Proof.
  induction p as [|o p IH]; intros tx H; simpl; auto.
  pose proof (exec_nodup s tx o H) as H1. destruct (exec_op s tx o) as [tx1 b]. simpl in H1.
  pose proof (IH tx1 H1) as H2. destruct (run_from s tx1 p) as [tx2 bs]. exact H2.
Qed.

(* operations that write key k *)
Definition writes_key (o : op) (k : bytes) : bool :=
  match o with OSet k' _ _ _ _ => keq k k' | ODelete k' => keq k k' | _ => false end.

Lemma do_set_find_other tx w k x :
  k <> w_key w -> find_w k (t_ws tx) = Some x -> find_w k (t_ws (fst (do_set tx w))) = Some x.
Proof.
  intros N F. unfold do_set.
  destruct (is_nil (w_key w) || (max_key_size <? length (w_key w))%nat); auto.
  destruct (find_w (w_key w) (t_ws tx)).
  - destruct (Bool.eqb (w_tr w0) (w_tr w)); simpl; auto. rewrite find_w_replace_other; auto.
  - simpl. rewrite find_w_app, F. reflexivity.
Qed.

Lemma exec_find_other s tx o k x :
  writes_key o k = false -> find_w k (t_ws tx) = Some x ->
  find_w k (t_ws (fst (exec_op s tx o))) = Some x.
Proof.
  intros Wk F. destruct o as [k' fs|p n fs|k' v dl ex tr|k'|sp fs off|rid|rid|sp]; simpl in *.
  - rewrite do_get_ws; exact F.
  - unfold do_pget. destruct (get_with_prefix fs p n (view s (t_ws tx))) as [e|]; [destruct (own e)|]; exact F.
  - apply do_set_find_other; auto. apply keq_false in Wk; exact Wk.
  - unfold do_delete. pose proof (do_get_ws s tx k' [FExp; FDel]) as G.
    destruct (do_get s tx k' [FExp; FDel]) as [tx' b]. simpl in G.
    destruct b; simpl; try (rewrite G; exact F). destruct (e_del e); simpl; [rewrite G; exact F|].
    apply do_set_find_other; [apply keq_false in Wk; exact Wk | rewrite G; exact F].
  - unfold do_new_reader. destruct (spec_ok sp); exact F.
  - unfold do_read. destruct (nth_error (t_rds tx) (N.to_nat rid)); auto.
    destruct (nth_error (r_readers (t_rs tx)) (N.to_nat rid)); auto.
    destruct (read_loop _ _ _ _ _) as [[[o recs] c'] sk']; exact F.
  - unfold do_reset. destruct (nth_error (t_rds tx) (N.to_nat rid)); auto.
    destruct (nth_error (r_readers (t_rs tx)) (N.to_nat rid)); auto.
  - unfold do_mark. destruct (spec_ok sp); exact F.
Qed.
Lemma run_find_other s p k x : forall tx,
  forallb (fun o => negb (writes_key o k)) p = true -> find_w k (t_ws tx) = Some x ->
  find_w k (t_ws (fst (run_from s tx p))) = Some x.
Proof.
  induction p as [|o p IH]; intros tx A F; simpl; auto.
  simpl in A. apply andb_prop in A as [A1 A2]. apply negb_true_iff in A1.
  pose proof (exec_find_other s tx o k x A1 F) as F1. destruct (exec_op s tx o) as [tx1 b]. simpl in F1.
  pose proof (IH tx1 A2 F1) as F2. destruct (run_from s tx1 p) as [tx2 bs]. exact F2.
Qed.

Lemma do_set_find_same tx w : snd (do_set tx w) = BOk -> find_w (w_key w) (t_ws (fst (do_set tx w))) = Some w.
Proof.
  unfold do_set. destruct (is_nil (w_key w) || (max_key_size <? length (w_key w))%nat); [discriminate|].
  destruct (find_w (w_key w) (t_ws tx)) eqn:F.
  - destruct (Bool.eqb (w_tr w0) (w_tr w)); [|discriminate]. simpl. intros _.
    eapply find_w_replace_same; eauto.
  - simpl. intros _. rewrite find_w_app, F, keq_refl. reflexivity.
Qed.

(* the view shows the own entry *)
Lemma view_lookup_find s ws k w :
  nodup_ws ws -> find_w k ws = Some w -> lookup k (view s ws) = Some (own_entry w).
Proof.
  intros ND F. destruct (find_w_some _ _ _ F) as [Hw Kw].
  assert (I : in_ws k ws = true) by (apply in_ws_In; eauto).
  destruct (view_own k ws I) as (w' & Hw' & Kw' & L). rewrite L.
  assert (w' = w); [|congruence].
  unfold nodup_ws in ND. clear -ND Hw Hw' Kw Kw'.
  induction ws as [|x ws IH]; [destruct Hw|]. simpl in ND. inversion ND as [|? ? N ND']; subst.
  destruct Hw as [->|Hw], Hw' as [->|Hw']; auto.
  - exfalso; apply N. rewrite <- Kw'. apply in_map; exact Hw'.
  - exfalso; apply N. rewrite Kw'. apply in_map; exact Hw.
Qed.

(* OWN WRITES VISIBLE.  After ANY program prefix, a Set/SetTransient of key k that succeeded is
   what every later point read of k returns (whatever filters, whatever the snapshot holds for k,
   deleted or expired metadata included), and what every key reader whose range contains k goes
   through, as long as the transaction does not write k again. *)
Theorem own_writes_visible_proof s0 pre k v del exp tr rest fs :
  let tx1 := fst (run s0 pre) in
  snd (exec_op s0 tx1 (OSet k v del exp tr)) = BOk ->
  forallb (fun o => negb (writes_key o k)) rest = true ->
  let tx2 := fst (run_from s0 (fst (exec_op s0 tx1 (OSet k v del exp tr))) rest) in
  snd (exec_op s0 tx2 (OGet k fs)) = BFound (mkE k v 0 del exp) /\
  (forall sp, sorted s0 -> in_range sp k = true -> In (mkE k v 0 del exp) (scan sp (view s0 (t_ws tx2)))).
Proof.
  intros tx1 OK NW tx2. cbn [exec_op] in OK.
  set (w := mkW k v del exp tr) in *.
  assert (ND1 : nodup_ws (t_ws tx1)) by (apply run_nodup; constructor).
  assert (ND2 : nodup_ws (t_ws tx2)).
  { apply run_nodup. cbn [exec_op]. apply do_set_nodup; exact ND1. }
  assert (F2 : find_w k (t_ws tx2) = Some w).
  { apply run_find_other; auto. cbn [exec_op]. apply (do_set_find_same tx1 w OK). }
  assert (L : lookup k (view s0 (t_ws tx2)) = Some (own_entry w)) by (apply view_lookup_find; auto).
  split.
  - cbn [exec_op]. unfold do_get, get. rewrite L.
    destruct (raw_own (own_entry w) eq_refl) as [-> ->]. rewrite filtered_ff. reflexivity.
  - intros sp S R. apply scan_In. split; auto. eapply lookup_In; exact L.
Qed.

Example own_writes_premises_satisfiable :
  snd (exec_op [] (fst (run [] [OGet [97] []])) (OSet [97] [1] true false false)) = BOk.
Proof. reflexivity. Qed.

(* ---------- the faithful model violates the full statements: witnesses ---------- *)
(* history: tx 1 writes ab; tx 2 writes abz *)
Definition w2_log : log := [[mkW [97;98] [120] false false false]; [mkW [97;98;122] [112] false false false]].
(* program: Set ac; GetWithPrefix(prefix a, neq ab) *)
Definition w2_prog : list op :=
  [OSet [97;99] [111] false false false; OGetPrefix [97] [97;98] [FExp; FDel]].

Theorem validated_refuted_prefix_proof :
  exists s0 c p, env s0 c /\ validate c (t_rs (fst (run s0 p))) = true /\ serial_obs c p <> snd (run s0 p).
Proof.
  exists (state_at w2_log 1), (state_at w2_log 2), w2_prog.
  split; [apply env_state_at; discriminate|]. split; [vm_compute; reflexivity|].
  vm_compute. discriminate.
Qed.

(* history: tx 1 writes a; tx 2 writes b.  program: Set c; reader over everything; Read; Read *)
Definition w3_log : log := [[mkW [97] [120] false false false]; [mkW [98] [112] false false false]].
Definition w3_prog : list op :=
  [OSet [99] [111] false false false; ONewReader (mkRS [] [] [] false false false) [] 0; ORead 0; ORead 0].

Theorem validated_refuted_reader_proof :
  exists s0 c p, env s0 c /\ validate c (t_rs (fst (run s0 p))) = true /\ serial_obs c p <> snd (run s0 p).
Proof.
  exists (state_at w3_log 1), (state_at w3_log 2), w3_prog.
  split; [apply env_state_at; discriminate|]. split; [vm_compute; reflexivity|].
  vm_compute. discriminate.
Qed.

(* the same two executions as schedules of the machine: the transaction commits as id 3 although
   its observations are not those of its program run alone after transaction 2 *)
Definition w2_steps : list gstep :=
  [GWriteOnly [mkW [97;98] [120] false false false]; GBegin 1 1;
   GOp 1 (OSet [97;99] [111] false false false); GOp 1 (OGetPrefix [97] [97;98] [FExp; FDel]);
   GWriteOnly [mkW [97;98;122] [112] false false false]; GCommit 1].
Definition w3_steps : list gstep :=
  [GWriteOnly [mkW [97] [120] false false false]; GBegin 1 1;
   GOp 1 (OSet [99] [111] false false false); GOp 1 (ONewReader (mkRS [] [] [] false false false) [] 0);
   GOp 1 (ORead 0); GOp 1 (ORead 0);
   GWriteOnly [mkW [98] [112] false false false]; GCommit 1].

Theorem serializable_refuted_proof :
  forall ss, ss = w2_steps \/ ss = w3_steps ->
  exists c, In c (g_done (grun (g_init []) ss)) /\ c_txid c = 3 /\
            c_obs c <> serial_obs (state_at (g_log (grun (g_init []) ss)) (c_txid c - 1)) (c_prog c).
Proof.
  intros ss [->| ->]; vm_compute; eexists; (split; [left; reflexivity|]); split; try reflexivity; discriminate.
Qed.
