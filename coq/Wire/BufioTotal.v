(* The bufio.Reader model never panics ("tried to fill full buffer", slice expressions), never runs
   out of fuel, conserves the bytes it hands out, and ReadBytes allocates at most twice what it
   returns. *)
From V Require Import Wire.Bufio Store.CodecTotal.
From Coq Require Import ZifyN ZifyNat ZifyBool.

(* bytes not yet handed out: buffered + still in the source *)
Definition avail (b : brd) : N := len (br_buf b) + len (br_src b).

Lemma len_nil : len (@nil N) = 0. Proof. reflexivity. Qed.
Lemma len_takeN n l : len (takeN n l) = N.min n (len l).
Proof. unfold takeN. rewrite len_take. lia. Qed.
Lemma len_dropN n l : len (dropN n l) = len l - N.min n (len l).
Proof. unfold dropN. rewrite len_drop. lia. Qed.

Lemma src_read_spec n s d s' e :
  src_read n s = (d, s', e) ->
  len d + len s' = len s /\ len d <= n /\
  (e = true -> len d = 0 /\ len s = 0) /\
  (e = false -> 0 < n -> 1 <= len d).
Proof.
  unfold src_read. destruct (N.eqb_spec (len s) 0) as [E|E]; intros H.
  - assert (d = []) by congruence. assert (s' = s) by congruence.
    assert (e = negb (n =? 0)) by congruence. subst. rewrite len_nil.
    repeat split; try lia; destruct (N.eqb_spec n 0); simpl; intros; try lia; try discriminate.
  - assert (d = takeN n s) by congruence. assert (s' = dropN n s) by congruence.
    assert (e = false) by congruence. subst.
    rewrite len_takeN, len_dropN. repeat split; try lia; try discriminate.
Qed.

Lemma find_byte_spec d l : forall i j, find_byte d l i = Some j -> i <= j < i + len l.
Proof.
  induction l as [|x l IH]; intros i j; simpl; [discriminate|].
  destruct (x =? d).
  - intros E. assert (i = j) by congruence. unfold len in *. simpl length. lia.
  - intros E. apply IH in E. unfold len in *. simpl length. lia.
Qed.

(* ---------------- ReadSlice ---------------- *)
Definition rs_post (b : brd) (r : bytes * rs_status * brd) : Prop :=
  let '(line, st, b') := r in
  len line + avail b' = avail b /\ br_cap b' = br_cap b /\
  match st with
  | RSok => 1 <= len line
  | RSeof => br_err b' = false
  | RSfull => br_cap b <= len line /\ br_err b' = false
  end.

Lemma br_read_slice_spec fuel : forall d s b,
  s <= len (br_buf b) ->
  len (br_src b) + (if br_err b then 1 else 2) <= N.of_nat fuel ->
  exists r, br_read_slice fuel d s b = Ok r /\ rs_post b r.
Proof.
  induction fuel as [|f IH]; intros d s b Hs Hf.
  { destruct (br_err b); lia. }
  cbn [br_read_slice]. rewrite from_ok by lia. cbn [bind].
  destruct (find_byte d (drop s (br_buf b)) 0) as [i|] eqn:Ef.
  - apply find_byte_spec in Ef. rewrite len_drop in Ef.
    rewrite sub_ok by lia. cbn [bind]. rewrite from_ok by lia. cbn [bind].
    eexists; split; [reflexivity|]. unfold rs_post, avail; cbn [br_buf br_src br_cap br_err].
    rewrite len_take, !len_drop. repeat split; lia.
  - destruct (br_err b) eqn:Ee.
    + eexists; split; [reflexivity|]. unfold rs_post, avail; cbn [br_buf br_src br_cap br_err].
      rewrite len_nil. repeat split; lia.
    + destruct (N.leb_spec (br_cap b) (len (br_buf b))) as [Hc|Hc].
      * eexists; split; [reflexivity|]. unfold rs_post, avail; cbn [br_buf br_src br_cap br_err].
        rewrite len_nil. repeat split; lia.
      * unfold br_fill. destruct (N.leb_spec (br_cap b) (len (br_buf b))); [lia|].
        destruct (src_read (br_cap b - len (br_buf b)) (br_src b)) as [[dd s'] e] eqn:Esr.
        apply src_read_spec in Esr as (S1 & S2 & S3 & S4).
        cbn [bind]. rewrite Ee. cbn [orb].
        match goal with |- context [br_read_slice f d ?s2 ?b2] =>
          destruct (IH d s2 b2) as [r [Hr Hp]] end.
        { cbn [br_buf]. rewrite len_app. lia. }
        { cbn [br_src br_err]. destruct e.
          - destruct (S3 eq_refl). lia.
          - assert (1 <= len dd) by (apply S4; auto; lia). lia. }
        exists r; split; [exact Hr|].
        destruct r as [[line st] b'']. unfold rs_post, avail in *.
        cbn [br_buf br_src br_cap br_err] in Hp. rewrite len_app in Hp.
        destruct Hp as (P1 & P2 & P3). repeat split; try lia.
        destruct st; auto.
Qed.

Lemma rs_fuel_ok b : len (br_src b) + (if br_err b then 1 else 2) <= N.of_nat (rs_fuel b).
Proof. unfold rs_fuel, len. destruct (br_err b); lia. Qed.

(* ---------------- collectFragments / ReadBytes ---------------- *)
(* result (buf, err?, reader, bytes cloned): delimiter found => buf non-empty *)
Lemma br_collect_spec fuel : forall d b full a,
  1 <= br_cap b ->
  avail b + 2 <= N.of_nat fuel ->
  exists buf e b' a', br_collect fuel d b full a = Ok (buf, e, b', a') /\
    len buf + avail b' = len full + avail b /\ br_cap b' = br_cap b /\
    a' + len full <= a + len buf /\ a <= a' /\
    (e = false -> 1 <= len buf).
Proof.
  induction fuel as [|f IH]; intros d b full a Hc Hf; [lia|].
  cbn [br_collect].
  destruct (br_read_slice_spec (rs_fuel b) d 0 b) as [[[frag st] b1] [Hr Hp]]; [lia | apply rs_fuel_ok |].
  rewrite Hr. cbn [bind]. unfold rs_post in Hp. destruct Hp as (P1 & P2 & P3).
  destruct st.
  - exists (full ++ frag), false, b1, a. rewrite len_app. repeat split; try lia.
  - exists (full ++ frag), true, b1, a. rewrite len_app. repeat split; try lia; try discriminate.
  - destruct (IH d b1 (full ++ frag) (a + len frag)) as (buf & e & b2 & a2 & H1 & H2 & H3 & H4 & H5 & H6).
    { lia. } { lia. }
    exists buf, e, b2, a2. rewrite len_app in *. repeat split; try lia; auto.
Qed.

Lemma br_read_bytes_spec d b :
  1 <= br_cap b ->
  exists buf e b' a, br_read_bytes d b = Ok (buf, e, b', a) /\
    len buf + avail b' = avail b /\ br_cap b' = br_cap b /\
    a <= 2 * len buf /\ (e = false -> 1 <= len buf).
Proof.
  intros Hc. unfold br_read_bytes.
  destruct (br_collect_spec (S (S (length (br_buf b) + length (br_src b)))) d b [] 0 Hc)
    as (buf & e & b' & a & H1 & H2 & H3 & H4 & H5 & H6).
  { unfold avail, len. lia. }
  rewrite H1. cbn [bind]. exists buf, e, b', (a + len buf).
  rewrite len_nil in *. repeat split; try lia; auto.
Qed.

(* ---------------- Read ---------------- *)
Lemma br_read_spec n b :
  exists d e b', br_read n b = Ok (d, e, b') /\
    len d + avail b' = avail b /\ br_cap b' = br_cap b /\ len d <= n /\
    (e = false -> 0 < n -> 1 <= len d) /\ (e = true -> len d = 0).
Proof.
  unfold br_read, avail.
  destruct (N.eqb_spec n 0) as [Hn|Hn].
  { destruct (N.ltb_spec 0 (len (br_buf b))).
    - exists [], false, b. rewrite len_nil. repeat split; try lia; discriminate.
    - eexists [], (br_err b), _. split; [reflexivity|]. cbn [br_buf br_src br_cap]. rewrite len_nil.
      repeat split; lia. }
  destruct (N.eqb_spec (len (br_buf b)) 0) as [Hb|Hb].
  - destruct (br_err b).
    { eexists [], true, _. split; [reflexivity|]. cbn [br_buf br_src br_cap]. rewrite len_nil.
      repeat split; try lia; discriminate. }
    destruct (N.leb_spec (br_cap b) n).
    + destruct (src_read n (br_src b)) as [[d s'] e] eqn:Es.
      apply src_read_spec in Es as (S1 & S2 & S3 & S4).
      eexists d, e, _. split; [reflexivity|]. cbn [br_buf br_src br_cap]. rewrite len_nil.
      assert (e = true -> len d = 0) by (intros He; destruct (S3 He); lia).
      repeat split; try lia; auto.
    + destruct (src_read (br_cap b) (br_src b)) as [[d s'] e] eqn:Es.
      apply src_read_spec in Es as (S1 & S2 & S3 & S4).
      destruct (N.eqb_spec (len d) 0) as [Hd|Hd].
      * eexists [], e, _. split; [reflexivity|]. cbn [br_buf br_src br_cap]. rewrite len_nil.
        repeat split; try lia;
        intros He Hn'; assert (1 <= len d) by (apply S4; auto; lia); lia.
      * eexists (takeN n d), false, _. split; [reflexivity|]. cbn [br_buf br_src br_cap].
        rewrite len_takeN, len_dropN. repeat split; try lia; discriminate.
  - eexists (takeN n (br_buf b)), false, _. split; [reflexivity|]. cbn [br_buf br_src br_cap].
    rewrite len_takeN, len_dropN. repeat split; try lia; discriminate.
Qed.

(* a read that fits into what is buffered is served in full *)
Lemma br_read_buffered n b :
  0 < n -> n <= len (br_buf b) ->
  exists d b', br_read n b = Ok (d, false, b') /\ len d = n /\ avail b' + n = avail b /\ br_cap b' = br_cap b.
Proof.
  intros Hn Hb. unfold br_read, avail.
  destruct (N.eqb_spec n 0); [lia|].
  destruct (N.eqb_spec (len (br_buf b)) 0); [lia|].
  eexists _, _. split; [reflexivity|]. cbn [br_buf br_src br_cap].
  rewrite len_takeN, len_dropN. repeat split; lia.
Qed.

Lemma br_new_spec p n : avail (br_new p n) = len p /\ 1 <= br_cap (br_new p n).
Proof. unfold br_new, avail; cbn [br_buf br_src br_cap]. rewrite len_nil. lia. Qed.
