(* PostgreSQL wire protocol, frontend messages: pkg/pgsql/server/message.go (ReadRawMessage),
   session.go (parseRawMessage) and pkg/pgsql/server/fmessages/*.go, transliterated.
   Every parser returns the decoded message together with the number of bytes it asked the
   allocator for (make / ReadBytes buffers / string conversions / appended elements), so that the
   memory bound is a statement about the model.
   `fixed` selects the code after fixes/C16-pgsql-bind-param-length.diff (parameter length checked
   against r.Buffered()); fixed = false is the code as found. *)
From V Require Export Wire.Alloc Wire.Bufio.

Definition EEOF : N := 10.
Definition EMalformed : N := 11.
Definition ENegativeLen : N := 12.
Definition ETooLarge : N := 13.
Definition EUnknownType : N := 14.

(* string_reader.go getNextString: s, err := r.ReadBytes(0); return string(s[:len(s)-1]) *)
Definition get_string (b : brd) : M (bytes * brd) :=
  dom r <- lift (br_read_bytes 0 b);
  let '(buf, e, b', a) := r in
  dom _ <- alloc a;
  if e then merr EEOF else
  if len buf =? 0 then (Panic, 0) else            (* s[:len(s)-1] with len(s) = 0 *)
  dom str <- lift (sub_ buf 0 (len buf - 1));
  dom _ <- alloc (len str);                         (* string(...) copies *)
  mret (str, b').

(* getNextInt16 / getNextInt32: pcb := make([]byte, k); _, err := r.Read(pcb): a short read leaves
   zeroes behind the bytes that were available *)
Definition get_uint (k : N) (b : brd) : M (N * brd) :=
  dom _ <- alloc k;
  dom r <- lift (br_read k b);
  let '(d, e, b') := r in
  if e then merr EEOF else
  mret (be_dec (d ++ repeat 0 (N.to_nat (k - len d))), b').

(* int16(binary.BigEndian.Uint16(pcb)), int32(binary.BigEndian.Uint32(pcb)) *)
Definition to_int16 (v : N) : Z :=
  let w := v mod 65536 in if w <? 32768 then Z.of_N w else (Z.of_N w - 65536)%Z.
Definition to_int32 (v : N) : Z :=
  let w := v mod 4294967296 in if w <? 2147483648 then Z.of_N w else (Z.of_N w - 4294967296)%Z.

Definition get_int16 (b : brd) : M (Z * brd) :=
  dom r <- get_uint 2 b; let '(v, b') := r in mret (to_int16 v, b').
Definition get_int32 (b : brd) : M (Z * brd) :=
  dom r <- get_uint 4 b; let '(v, b') := r in mret (to_int32 v, b').

Fixpoint read_int16s (k : nat) (b : brd) (acc : list Z) : M (list Z * brd) :=
  match k with
  | O => mret (rev acc, b)
  | S k' => dom r <- get_int16 b; let '(v, b') := r in read_int16s k' b' (v :: acc)
  end.

(* bufio.NewReaderSize(bytes.NewBuffer(payload), len(payload)) *)
Definition new_reader (payload : bytes) : M brd :=
  dom _ <- alloc (N.max (len payload) 16); mret (br_new payload (len payload)).

(* ------------------------------------------------------------------ *)
(* Bind.  A parameter value is make([]byte, pLen) filled by ONE r.Read: the bytes copied and the
   number of zero bytes left behind them (never materialised: pLen may be 32 MiB). *)
Inductive pval := PNull | PText (d : bytes) (pad : N) | PBin (d : bytes) (pad : N).

Record bindmsg := { b_portal : bytes; b_stmt : bytes; b_params : list pval; b_rcodes : list Z }.

Fixpoint bind_params (fixed : bool) (maxmsg : N) (k : nat) (i : N) (codes : list Z)
    (ftxt fbin : bool) (total : N) (b : brd) (acc : list pval) : M (list pval * brd) :=
  match k with
  | O => mret (rev acc, b)
  | S k' =>
    dom r <- get_int32 b; let '(plen, b1) := r in
    dom _ <- alloc 16;                                    (* one appended interface value *)
    if (plen =? -1)%Z then
      bind_params fixed maxmsg k' (i + 1) codes ftxt fbin total b1 (PNull :: acc)
    else if (plen <? 0)%Z then merr ENegativeLen
    else
      let pl := Z.to_N plen in
      let total := total + pl in
      if maxmsg <? total then merr ETooLarge else
      if fixed && (br_buffered b1 <? pl) then merr EEOF else
      dom _ <- alloc pl;                                  (* pVal := make([]byte, pLen) *)
      dom r2 <- lift (br_read pl b1);                     (* r.Read(pVal) *)
      let '(d, e, b2) := r2 in
      if e then merr EEOF else
      let pad := pl - len d in
      if ftxt then
        dom _ <- alloc pl;                                (* string(pVal) *)
        bind_params fixed maxmsg k' (i + 1) codes ftxt fbin total b2 (PText d pad :: acc)
      else if fbin then
        bind_params fixed maxmsg k' (i + 1) codes ftxt fbin total b2 (PBin d pad :: acc)
      else
        match nth_error codes (N.to_nat i) with            (* parameterFormatCodes[i] *)
        | None => (Panic, 0)
        | Some c =>
          if (c =? 0)%Z then
            dom _ <- alloc pl;
            bind_params fixed maxmsg k' (i + 1) codes ftxt fbin total b2 (PText d pad :: acc)
          else if (c =? 1)%Z then
            bind_params fixed maxmsg k' (i + 1) codes ftxt fbin total b2 (PBin d pad :: acc)
          else merr EMalformed
        end
  end.

Definition bind_parse (fixed : bool) (maxmsg : N) (payload : bytes) : M bindmsg :=
  dom b <- new_reader payload;
  dom r <- get_string b; let '(portal, b) := r in
  dom r <- get_string b; let '(stmt, b) := r in
  dom r <- get_int16 b; let '(nfc, b) := r in
  if (nfc <? 0)%Z then merr EMalformed else
  dom _ <- alloc (2 * Z.to_N nfc);                        (* make([]int16, n) *)
  dom r <- read_int16s (Z.to_nat nfc) b []; let '(codes, b) := r in
  dom r <- get_int16 b; let '(pcount, b) := r in
  dom fl <-
    (match codes with
     | [] => mret (true, false)
     | [c] => if (c =? 0)%Z then mret (true, false) else if (c =? 1)%Z then mret (false, true)
              else merr EMalformed
     | _ => mret (false, false)
     end);
  let '(ftxt, fbin) := fl in
  let ncodes := N.of_nat (length codes) in
  if (1 <? ncodes) && negb (Z.of_N ncodes =? pcount)%Z then merr EMalformed else
  dom r <- bind_params fixed maxmsg (Z.to_nat pcount) 0 codes ftxt fbin 0 b []; let '(params, b) := r in
  dom r <- get_int16 b; let '(nrc, b) := r in
  if (nrc <? 0)%Z then merr EMalformed else
  dom _ <- alloc (2 * Z.to_N nrc);                        (* make([]int16, 0, n) *)
  dom r <- read_int16s (Z.to_nat nrc) b []; let '(rcodes, b) := r in
  mret {| b_portal := portal; b_stmt := stmt; b_params := params; b_rcodes := rcodes |}.

(* ------------------------------------------------------------------ *)
(* Parse *)
Record parsemsg := { p_name : bytes; p_query : bytes; p_count : Z; p_oids : list Z }.

Fixpoint read_int32s (k : nat) (b : brd) (acc : list Z) : M (list Z * brd) :=
  match k with
  | O => mret (rev acc, b)
  | S k' => dom r <- get_int32 b; let '(v, b') := r in
            dom _ <- alloc 4;                              (* appended int32 *)
            read_int32s k' b' (v :: acc)
  end.

Definition parse_parse (payload : bytes) : M parsemsg :=
  dom b <- new_reader payload;
  dom r <- get_string b; let '(name, b) := r in
  dom r <- get_string b; let '(q, b) := r in
  dom r <- get_int16 b; let '(pc, b) := r in
  dom r <- read_int32s (Z.to_nat pc) b []; let '(oids, b) := r in
  mret {| p_name := name; p_query := q; p_count := pc; p_oids := oids |}.

(* Execute *)
Definition execute_parse (payload : bytes) : M (bytes * Z) :=
  dom b <- new_reader payload;
  dom r <- get_string b; let '(name, b) := r in
  dom r <- get_int32 b; let '(mr, b) := r in
  mret (name, mr).

(* Describe: msg[0], msg[1:len(msg)-1] *)
Definition describe_parse (msg : bytes) : M (N * bytes) :=
  if len msg <? 2 then merr EMalformed else
  dom t <- lift (at_ msg 0);
  dom name <- lift (sub_ msg 1 (len msg - 1));
  dom _ <- alloc (1 + len name);
  mret (t, name).

(* Query / PasswordMessage: payload[:len(payload)-1] *)
Definition cstring_parse (payload : bytes) : M bytes :=
  if len payload =? 0 then merr EMalformed else
  dom s <- lift (sub_ payload 0 (len payload - 1));
  dom _ <- alloc (len s);
  mret s.

(* CopyFail: msg := string(payload); a trailing NUL is cut *)
Definition copyfail_parse (payload : bytes) : M bytes :=
  let n := len payload in
  dom _ <- alloc n;
  dom cut <- lift (if 0 <? n then do l <- at_ payload (n - 1); Ok (l =? 0) else Ok false);
  if cut then lift (sub_ payload 0 (n - 1)) else mret payload.

(* ------------------------------------------------------------------ *)
(* session.parseRawMessage: dispatch on the type byte *)
Inductive pgmsg :=
| MPassword (s : bytes) | MQuery (s : bytes) | MTerminate | MParse (m : parsemsg) | MBind (m : bindmsg)
| MDescribe (t : N) (name : bytes) | MSync | MExecute (portal : bytes) (maxrows : Z) | MFlush
| MCopyData (d : bytes) | MCopyDone | MCopyFail (s : bytes).

Definition pg_dispatch (fixed : bool) (maxmsg : N) (t : N) (payload : bytes) : M pgmsg :=
  if t =? 112 (* p *) then dom r <- cstring_parse payload; mret (MPassword r)
  else if t =? 81 (* Q *) then dom r <- cstring_parse payload; mret (MQuery r)
  else if t =? 88 (* X *) then mret MTerminate
  else if t =? 80 (* P *) then dom r <- parse_parse payload; mret (MParse r)
  else if t =? 66 (* B *) then dom r <- bind_parse fixed maxmsg payload; mret (MBind r)
  else if t =? 68 (* D *) then dom r <- describe_parse payload; mret (MDescribe (fst r) (snd r))
  else if t =? 83 (* S *) then mret MSync
  else if t =? 69 (* E *) then dom r <- execute_parse payload; mret (MExecute (fst r) (snd r))
  else if t =? 72 (* H *) then mret MFlush
  else if t =? 100 (* d *) then mret (MCopyData payload)
  else if t =? 99 (* c *) then mret MCopyDone
  else if t =? 102 (* f *) then dom r <- copyfail_parse payload; mret (MCopyFail r)
  else merr EUnknownType.

(* ------------------------------------------------------------------ *)
(* messageReader.ReadRawMessage on a connection that delivers the bytes `conn` and then io.EOF
   (io.ReadFull hides how the transport cuts them).  mtypes = keys of pgmeta.MTypes.
   pLen := binary.BigEndian.Uint32(lb) - 4   (uint32 arithmetic: wraps around below 4)
   Result: type byte, payload, unread rest of the connection, bytes allocated. *)
Definition pg_mtypes : list N := [81; 84; 68; 67; 90; 82; 112; 85; 88; 83; 69; 80; 116; 66; 72; 100; 99; 102].

Definition raw_read (maxmsg : N) (conn : bytes) : M (N * bytes * bytes) :=
  dom _ <- alloc 1;                                           (* t := make([]byte, 1) *)
  if len conn <? 1 then merr EEOF else                        (* io.ReadFull(conn, t) *)
  dom t <- lift (at_ conn 0);
  if negb (existsb (N.eqb t) pg_mtypes) then merr EUnknownType else
  dom _ <- alloc 4;                                           (* lb := make([]byte, 4) *)
  if len conn <? 5 then merr EEOF else                        (* io.ReadFull(conn, lb) *)
  dom lb <- lift (sub_ conn 1 5);
  dom l <- lift (uint_ 4 lb);
  let plen := (l + 4294967296 - 4) mod 4294967296 in
  if 2147483647 <? plen then merr EMalformed else
  if maxmsg mod 4294967296 <? plen then merr ETooLarge else   (* pLen > uint32(pgmeta.MaxMsgSize) *)
  dom _ <- alloc plen;                                        (* payload := make([]byte, pLen): BEFORE the bytes arrive *)
  if len conn - 5 <? plen then merr EEOF else                 (* io.ReadFull(conn, payload) *)
  dom payload <- lift (sub_ conn 5 (5 + plen));
  dom rest <- lift (from_ conn (5 + plen));
  mret (t, payload, rest).
