(* bufio.Reader (Go 1.25 src/bufio/bufio.go) reading from a bytes.Buffer, as used by
   pkg/pgsql/server/fmessages:  r := bufio.NewReaderSize(bytes.NewBuffer(payload), len(payload)).
   Transliterated: fill, ReadSlice, collectFragments, ReadBytes, Read, Buffered.
   The state keeps what the Go struct keeps, up to the position of the window inside b.buf:
     br_buf = b.buf[b.r:b.w]   (buffered, unread)        br_cap = len(b.buf)
     br_src = unread part of the underlying bytes.Buffer  br_err = (b.err == io.EOF)
   bytes.Buffer.Read(p): empty buffer -> (0, io.EOF) unless len(p)=0 -> (0,nil); otherwise
   copies min(len p, available) bytes with a nil error. No other error can come from it. *)
From V Require Export Base.Bytes Store.Codec.

Record brd := { br_buf : bytes; br_src : bytes; br_cap : N; br_err : bool }.

(* bufio.NewReaderSize(rd, size): buffer of max(size, minReadBufferSize = 16) bytes *)
Definition br_new (payload : bytes) (size : N) : brd :=
  {| br_buf := []; br_src := payload; br_cap := N.max size 16; br_err := false |}.

(* copy(p, l) with len(p) = n, and what is left of l; n may be a length field of tens of MiB, so
   it is clamped before it becomes a unary number *)
Definition takeN (n : N) (l : bytes) : bytes := take (N.min n (len l)) l.
Definition dropN (n : N) (l : bytes) : bytes := drop (N.min n (len l)) l.

(* bytes.Buffer.Read into a slice of n bytes: (data, rest, io.EOF?) *)
Definition src_read (n : N) (s : bytes) : bytes * bytes * bool :=
  if len s =? 0 then ([], s, negb (n =? 0)) else (takeN n s, dropN n s, false).

(* fill: slide the window to the start of b.buf, panic when the buffer is full, one underlying
   Read into b.buf[b.w:] (a non-empty slice, so bytes.Buffer returns data or io.EOF at once) *)
Definition br_fill (b : brd) : res brd :=
  if br_cap b <=? len (br_buf b) then Panic   (* "bufio: tried to fill full buffer" *)
  else
    let '(d, s', eof) := src_read (br_cap b - len (br_buf b)) (br_src b) in
    Ok {| br_buf := br_buf b ++ d; br_src := s'; br_cap := br_cap b; br_err := br_err b || eof |}.

(* bytes.IndexByte *)
Fixpoint find_byte (d : N) (l : bytes) (i : N) : option N :=
  match l with
  | [] => None
  | x :: r => if x =? d then Some i else find_byte d r (i + 1)
  end.

Inductive rs_status := RSok | RSeof | RSfull.   (* nil | io.EOF (b.readErr()) | ErrBufferFull *)

(* ReadSlice(delim); s = search start index (bytes already scanned) *)
Fixpoint br_read_slice (fuel : nat) (delim : N) (s : N) (b : brd) : res (bytes * rs_status * brd) :=
  match fuel with
  | O => Err EFuel
  | S f =>
    do tl <- from_ (br_buf b) s;                       (* b.buf[b.r+s : b.w] *)
    match find_byte delim tl 0 with
    | Some i =>
        let i := i + s in
        do line <- sub_ (br_buf b) 0 (i + 1);          (* b.buf[b.r : b.r+i+1] *)
        do rest <- from_ (br_buf b) (i + 1);
        Ok (line, RSok, {| br_buf := rest; br_src := br_src b; br_cap := br_cap b; br_err := br_err b |})
    | None =>
        if br_err b then                                (* pending error: line = rest of buffer, err cleared *)
          Ok (br_buf b, RSeof, {| br_buf := []; br_src := br_src b; br_cap := br_cap b; br_err := false |})
        else if br_cap b <=? len (br_buf b) then        (* Buffered() >= len(b.buf) *)
          Ok (br_buf b, RSfull, {| br_buf := []; br_src := br_src b; br_cap := br_cap b; br_err := false |})
        else
          do b' <- br_fill b;
          br_read_slice f delim (len (br_buf b)) b'
    end
  end.

(* fuel that ReadSlice never exhausts: every iteration that does not return takes at least one byte
   from the source or records io.EOF *)
Definition rs_fuel (b : brd) : nat := S (S (S (length (br_src b)))).

(* collectFragments + ReadBytes: (buf, err?, reader, bytes allocated); full buffers are cloned
   (bytes.Clone) and the result is assembled into make([]byte, n) *)
Fixpoint br_collect (fuel : nat) (delim : N) (b : brd) (full : bytes) (alloc : N)
  : res (bytes * bool * brd * N) :=
  match fuel with
  | O => Err EFuel
  | S f =>
    do r <- br_read_slice (rs_fuel b) delim 0 b;
    let '(frag, e, b') := r in
    match e with
    | RSok => Ok (full ++ frag, false, b', alloc)
    | RSeof => Ok (full ++ frag, true, b', alloc)
    | RSfull => br_collect f delim b' (full ++ frag) (alloc + len frag)
    end
  end.

Definition br_read_bytes (delim : N) (b : brd) : res (bytes * bool * brd * N) :=
  do r <- br_collect (S (S (length (br_buf b) + length (br_src b)))) delim b [] 0;
  let '(buf, e, b', a) := r in
  Ok (buf, e, b', a + len buf).

(* Read(p) with len(p) = n: (bytes copied into p, error?, reader). n may exceed what is copied:
   the caller's p keeps its old content (zeroes after make) behind the copied prefix. *)
Definition br_read (n : N) (b : brd) : res (bytes * bool * brd) :=
  if n =? 0 then
    if 0 <? len (br_buf b) then Ok ([], false, b)
    else Ok ([], br_err b, {| br_buf := br_buf b; br_src := br_src b; br_cap := br_cap b; br_err := false |})
  else if len (br_buf b) =? 0 then
    if br_err b then
      Ok ([], true, {| br_buf := []; br_src := br_src b; br_cap := br_cap b; br_err := false |})
    else if br_cap b <=? n then
      (* large read, empty buffer: read directly into p; return n, b.readErr() *)
      let '(d, s', eof) := src_read n (br_src b) in
      Ok (d, eof, {| br_buf := []; br_src := s'; br_cap := br_cap b; br_err := false |})
    else
      (* one read into b.buf; n == 0 -> return 0, b.readErr() *)
      let '(d, s', eof) := src_read (br_cap b) (br_src b) in
      if len d =? 0 then
        Ok ([], eof, {| br_buf := []; br_src := s'; br_cap := br_cap b; br_err := false |})
      else
        Ok (takeN n d, false, {| br_buf := dropN n d; br_src := s'; br_cap := br_cap b; br_err := eof |})
  else
    Ok (takeN n (br_buf b), false,
        {| br_buf := dropN n (br_buf b); br_src := br_src b; br_cap := br_cap b; br_err := br_err b |}).

(* Buffered() *)
Definition br_buffered (b : brd) : N := len (br_buf b).
