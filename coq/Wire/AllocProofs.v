(* Reasoning rules for the allocation-counting monad: a computation is specified by a potential
   before (phi), a potential after as a function of its result (phi'), and two slacks:
     Ok a  : allocated + phi' a <= phi + Kok   and the postcondition Q a
     Err e : allocated <= phi + Kerr           and e is not "out of fuel"
     Panic : impossible
   With phi = C * (bytes not yet consumed) this gives linear memory bounds compositionally. *)
From V Require Import Wire.Alloc Store.Codec Store.CodecTotal.
From Coq Require Import ZifyN ZifyNat ZifyBool.

Definition rspec {A} (Kok Kerr : N) (phi : N) (m : M A) (phi' : A -> N) (Q : A -> Prop) : Prop :=
  match fst m with
  | Ok a => snd m + phi' a <= phi + Kok /\ Q a
  | Err e => e <> EFuel /\ snd m <= phi + Kerr
  | Panic => False
  end.

Lemma rspec_bind {A B} K1 E1 K2 E2 phi (m : M A) phi1 Q (f : A -> M B) phi2 R :
  rspec K1 E1 phi m phi1 Q ->
  (forall a, Q a -> rspec K2 E2 (phi1 a) (f a) phi2 R) ->
  rspec (K1 + K2) (N.max E1 (K1 + E2)) phi (mbind m f) phi2 R.
Proof.
  unfold rspec, mbind. destruct m as [r n]. cbn [fst snd].
  destruct r as [a|e|]; intros H1 H2; auto.
  - destruct H1 as [H1 HQ]. specialize (H2 a HQ). cbn [fst snd].
    destruct (f a) as [r2 n2]. cbn [fst snd] in *.
    destruct r2 as [x|e|]; auto.
    + destruct H2 as [H2 HR]. split; [lia|exact HR].
    + destruct H2 as [H2 H3]. split; [exact H2|lia].
  - cbn [fst snd]. destruct H1. split; [auto|lia].
Qed.

Lemma rspec_weaken {A} K E K' E' phi psi (m : M A) phi' psi' (Q Q' : A -> Prop) :
  rspec K E phi m phi' Q ->
  K <= K' -> E <= E' -> phi <= psi ->
  (forall a, Q a -> psi' a <= phi' a /\ Q' a) ->
  rspec K' E' psi m psi' Q'.
Proof.
  unfold rspec. destruct (fst m) as [a|e|]; auto.
  - intros [H1 H2] HK HE Hp HQ. destruct (HQ a H2). split; [lia|auto].
  - intros [H1 H2] HK HE Hp HQ. split; [auto|lia].
Qed.

Lemma rspec_ret {A} (a : A) phi (phi' : A -> N) (Q : A -> Prop) K E :
  phi' a <= phi + K -> Q a -> rspec K E phi (mret a) phi' Q.
Proof. unfold rspec, mret; cbn [fst snd]. intros; split; [lia|auto]. Qed.

Lemma rspec_err {A} e phi (phi' : A -> N) (Q : A -> Prop) K E :
  e <> EFuel -> rspec K E phi (@merr A e) phi' Q.
Proof. unfold rspec, merr; cbn [fst snd]. intros; split; [auto|lia]. Qed.

Lemma rspec_alloc n phi :
  rspec n n phi (alloc n) (fun _ => phi) (fun _ => True).
Proof. unfold rspec, alloc; cbn [fst snd]. split; [lia|auto]. Qed.

(* a pure res computation that is known to be safe *)
Lemma rspec_lift {A} (r : res A) phi :
  safe r -> rspec 0 0 phi (lift r) (fun _ => phi) (fun a => r = Ok a).
Proof.
  unfold rspec, lift; cbn [fst snd]. intros [H1 H2]. destruct r as [a|e|]; [|split|]; auto; try lia.
  - split; [lia|reflexivity].
  - intros X; apply H2; rewrite X; reflexivity.
Qed.

(* what the property theorems are stated with *)
Definition msafe {A} (m : M A) : Prop := fst m <> Panic /\ fst m <> Err EFuel.

Lemma rspec_safe {A} K E phi (m : M A) phi' Q : rspec K E phi m phi' Q -> msafe m.
Proof.
  unfold rspec, msafe. destruct (fst m) as [a|e|]; intros H; [split; discriminate| |contradiction].
  destruct H as [H _]. split; [discriminate|]. intros X; apply H; congruence.
Qed.

Lemma rspec_alloc_bound {A} K E phi (m : M A) phi' Q :
  rspec K E phi m phi' Q -> snd m <= phi + N.max K E.
Proof.
  unfold rspec. destruct (fst m) as [a|e|]; intros H; [|destruct H; lia|contradiction].
  destruct H as [H _]. lia.
Qed.

(* the same with a panic allowed under a condition P (P = "the code as found is modelled"): *)
Definition rspecP {A} (P : Prop) (Kok Kerr : N) (phi : N) (m : M A) (phi' : A -> N) (Q : A -> Prop) : Prop :=
  match fst m with
  | Ok a => snd m + phi' a <= phi + Kok /\ Q a
  | Err e => e <> EFuel /\ snd m <= phi + Kerr
  | Panic => P /\ snd m <= phi + Kerr
  end.

Lemma rspecP_of {A} P K E phi (m : M A) phi' Q : rspec K E phi m phi' Q -> rspecP P K E phi m phi' Q.
Proof. unfold rspec, rspecP. destruct (fst m); auto. contradiction. Qed.

Lemma rspecP_step {A B} P E1 E psi phi (m : M A) phi1 Q (f : A -> M B) phi2 R :
  rspecP P 0 E1 psi m phi1 Q -> psi <= phi -> E1 <= E ->
  (forall a, Q a -> rspecP P 0 E (phi1 a) (f a) phi2 R) ->
  rspecP P 0 E phi (mbind m f) phi2 R.
Proof.
  unfold rspecP, mbind. destruct m as [r n]. cbn [fst snd].
  destruct r as [a|e|]; intros H1 Hp HE H2.
  - destruct H1 as [H1 HQ]. specialize (H2 a HQ). cbn [fst snd].
    destruct (f a) as [r2 n2]. cbn [fst snd] in *.
    destruct r2 as [x|e|].
    + destruct H2 as [H2 HR]. split; [lia|exact HR].
    + destruct H2 as [H2 H3]. split; [exact H2|lia].
    + destruct H2 as [H2 H3]. split; [exact H2|lia].
  - cbn [fst snd]. destruct H1. split; [auto|lia].
  - cbn [fst snd]. destruct H1. split; [auto|lia].
Qed.

Lemma rspecP_weaken {A} P K E K' E' phi psi (m : M A) phi' psi' (Q Q' : A -> Prop) :
  rspecP P K E phi m phi' Q ->
  K <= K' -> E <= E' -> phi <= psi ->
  (forall a, Q a -> psi' a <= phi' a /\ Q' a) ->
  rspecP P K' E' psi m psi' Q'.
Proof.
  unfold rspecP. destruct (fst m) as [a|e|].
  - intros [H1 H2] HK HE Hp HQ. destruct (HQ a H2). split; [lia|auto].
  - intros [H1 H2] HK HE Hp HQ. split; [auto|lia].
  - intros [H1 H2] HK HE Hp HQ. split; [auto|lia].
Qed.

Lemma rspecP_ret {A} P (a : A) phi (phi' : A -> N) (Q : A -> Prop) K E :
  phi' a <= phi + K -> Q a -> rspecP P K E phi (mret a) phi' Q.
Proof. unfold rspecP, mret; cbn [fst snd]. intros; split; [lia|auto]. Qed.

Lemma rspecP_err {A} P e phi (phi' : A -> N) (Q : A -> Prop) K E :
  e <> EFuel -> rspecP P K E phi (@merr A e) phi' Q.
Proof. unfold rspecP, merr; cbn [fst snd]. intros; split; [auto|lia]. Qed.

Lemma rspecP_alloc_then {A} P n X phi E (m : M A) phi' Q :
  X + n <= phi -> rspecP P 0 E X m phi' Q -> rspecP P 0 E phi (mbind (alloc n) (fun _ => m)) phi' Q.
Proof.
  intros H1 H2. unfold rspecP, mbind, alloc in *. cbn [fst snd].
  destruct m as [r k]. cbn [fst snd] in *. destruct r as [a|e|].
  - destruct H2; split; [lia|auto].
  - destruct H2; split; [auto|lia].
  - destruct H2; split; [auto|lia].
Qed.

Lemma rspecP_ret_step {A B} P (a : A) phi E (f : A -> M B) phi2 R :
  rspecP P 0 E phi (f a) phi2 R -> rspecP P 0 E phi (mbind (mret a) f) phi2 R.
Proof.
  unfold rspecP, mbind, mret. cbn [fst snd]. destruct (f a) as [r n]. cbn [fst snd].
  destruct r; auto.
Qed.

Lemma rspecP_err_step {A B} P e phi E (f : A -> M B) phi2 R :
  e <> EFuel -> rspecP P 0 E phi (mbind (@merr A e) f) phi2 R.
Proof. unfold rspecP, mbind, merr. cbn [fst snd]. intros; split; [auto|lia]. Qed.

Lemma rspecP_facts {A} P K E phi (m : M A) phi' Q :
  rspecP P K E phi m phi' Q ->
  fst m <> Err EFuel /\ (~ P -> fst m <> Panic) /\ snd m <= phi + N.max K E.
Proof.
  unfold rspecP. destruct (fst m) as [a|e|]; intros [H1 H2].
  - repeat split; try discriminate; lia.
  - repeat split; try discriminate; try lia. intros X; apply H1; congruence.
  - repeat split; try discriminate; try lia. intros HP _. apply HP; exact H1.
Qed.
