(* Totality and memory bounds of the PostgreSQL wire message parsers (Wire/PgMsg.v). *)
From V Require Import Wire.Alloc Wire.Bufio Wire.PgMsg Store.Codec Store.CodecTotal Wire.BufioTotal Wire.AllocProofs.
From Coq Require Import ZifyN ZifyNat ZifyBool.

Lemma rspec_bind' {A B} K1 E1 K2 E2 K E phi (m : M A) phi1 Q (f : A -> M B) phi2 R :
  rspec K1 E1 phi m phi1 Q ->
  (forall a, Q a -> rspec K2 E2 (phi1 a) (f a) phi2 R) ->
  K1 + K2 <= K -> E1 <= E -> K1 + E2 <= E ->
  rspec K E phi (mbind m f) phi2 R.
Proof.
  intros H1 H2 HK HE1 HE2.
  eapply rspec_weaken; [eapply rspec_bind; [exact H1 | exact H2] | lia | lia | lia |].
  intros a Ha; split; [lia | exact Ha].
Qed.

(* an allocation paid from the potential *)
Lemma rspec_alloc_paid n X phi K E :
  X + n <= phi -> rspec K E phi (alloc n) (fun _ => X) (fun _ => True).
Proof. unfold rspec, alloc; cbn [fst snd]. split; [lia|auto]. Qed.

Lemma EEOF_neq : EEOF <> EFuel /\ EMalformed <> EFuel /\ ENegativeLen <> EFuel /\ ETooLarge <> EFuel /\ EUnknownType <> EFuel.
Proof. repeat split; discriminate. Qed.

Lemma mul_step C a a' : a' + 1 <= a -> C * a' + C <= C * a.
Proof. intros H. replace (C * a' + C) with (C * (a' + 1)) by lia. apply N.mul_le_mono_l; exact H. Qed.
Lemma mul_le C a a' : a' <= a -> C * a' <= C * a.
Proof. apply N.mul_le_mono_l. Qed.

(* reader state after an operation: same buffer size, nothing un-consumed *)
Definition rd_le (b b' : brd) : Prop := br_cap b' = br_cap b /\ avail b' <= avail b.

(* getNextInt16/32: k bytes allocated; success consumes at least one byte, which pays C >= k and
   leaves C - k of credit *)
Lemma get_uint_spec k b C D :
  1 <= k -> k <= C ->
  rspec 0 k (C * avail b + D) (get_uint k b)
        (fun r => C * avail (snd r) + (C - k) + D)
        (fun r => rd_le b (snd r)).
Proof.
  intros Hk HC. unfold get_uint, rspec, mbind, alloc, lift. cbn [fst snd].
  destruct (br_read_spec k b) as (d & e & b' & Hr & H1 & H2 & H3 & H4 & H5).
  rewrite Hr. cbn [fst snd]. destruct e; cbn [fst snd merr mret].
  - split; [discriminate|lia].
  - assert (1 <= len d) by (apply H4; auto; lia).
    assert (C * avail b' + C <= C * avail b) by (apply mul_step; lia).
    split; [lia|]. split; [exact H2|lia].
Qed.

Lemma to_int16_le v : (to_int16 v <= 32767)%Z.
Proof. unfold to_int16. cbv zeta. destruct (N.ltb_spec (v mod 65536) 32768); lia. Qed.
Lemma to_int32_le v : (to_int32 v <= 2147483647)%Z.
Proof. unfold to_int32. cbv zeta. destruct (N.ltb_spec (v mod 4294967296) 2147483648); lia. Qed.

Lemma get_int16_spec b C D :
  2 <= C ->
  rspec 0 2 (C * avail b + D) (get_int16 b)
        (fun r => C * avail (snd r) + (C - 2) + D)
        (fun r => rd_le b (snd r) /\ (fst r <= 32767)%Z).
Proof.
  intros HC. unfold get_int16.
  eapply rspec_bind'; [apply (get_uint_spec 2 b C D); lia | | | |].
  2: instantiate (1 := 0); lia. 2: lia. 2: instantiate (1 := 0); lia.
  intros [v b'] Hq. apply rspec_ret; [cbn [snd]; lia | cbn [fst snd]; split; [exact Hq | apply to_int16_le]].
Qed.

Lemma get_int32_spec b C D :
  4 <= C ->
  rspec 0 4 (C * avail b + D) (get_int32 b)
        (fun r => C * avail (snd r) + (C - 4) + D) (fun r => rd_le b (snd r)).
Proof.
  intros HC. unfold get_int32.
  eapply rspec_bind'; [apply (get_uint_spec 4 b C D); lia | | | |].
  2: instantiate (1 := 0); lia. 2: lia. 2: instantiate (1 := 0); lia.
  intros [v b'] Hq. apply rspec_ret; [cbn [snd]; lia | exact Hq].
Qed.

(* getNextString: ReadBytes allocates at most twice the line, the string conversion once more;
   success consumes the line (at least the terminator) *)
Lemma get_string_spec b C D :
  1 <= br_cap b -> 3 <= C ->
  rspec 0 0 (C * avail b + D) (get_string b)
        (fun r => C * avail (snd r) + D) (fun r => rd_le b (snd r)).
Proof.
  intros Hc HC. unfold get_string, rspec, mbind, alloc, lift. cbn [fst snd].
  destruct (br_read_bytes_spec 0 b Hc) as (buf & e & b' & a & Hr & H1 & H2 & H3 & H4).
  rewrite Hr. cbn [fst snd].
  assert (Hm : C * avail b' + C * len buf <= C * avail b).
  { replace (C * avail b' + C * len buf) with (C * (avail b' + len buf)) by lia. apply mul_le. lia. }
  assert (3 * len buf <= C * len buf) by (apply N.mul_le_mono_r; lia).
  destruct e; cbn [fst snd merr mret].
  - split; [discriminate|lia].
  - specialize (H4 eq_refl). destruct (N.eqb_spec (len buf) 0); [lia|].
    rewrite sub_ok by lia. cbn [fst snd]. rewrite len_take, len_drop.
    split; [lia|]. split; [exact H2|lia].
Qed.

Lemma rd_le_refl b : rd_le b b. Proof. split; [reflexivity|lia]. Qed.
Lemma rd_le_trans a b c : rd_le a b -> rd_le b c -> rd_le a c.
Proof. unfold rd_le. intros [H1 H2] [H3 H4]. split; [congruence|lia]. Qed.

Lemma read_int16s_spec k : forall b acc C D,
  2 <= C ->
  rspec 0 2 (C * avail b + D) (read_int16s k b acc)
        (fun r => C * avail (snd r) + D)
        (fun r => rd_le b (snd r) /\ length (fst r) = (length acc + k)%nat).
Proof.
  induction k as [|k IH]; intros b acc C D HC; cbn [read_int16s].
  - apply rspec_ret; [cbn [snd]; lia|]. cbn [fst snd]. split; [apply rd_le_refl|]. rewrite rev_length. lia.
  - eapply rspec_bind'; [apply (get_int16_spec b C D HC) | | | |].
    2: instantiate (1 := 0); lia. 2: lia. 2: instantiate (1 := 2); lia.
    intros [v b'] [Hq _]. cbn [snd] in *.
    eapply rspec_weaken; [apply (IH b' (v :: acc) C D HC) | lia | lia | lia |].
    intros [l b''] [H1 H2]. cbn [fst snd] in *. split; [lia|]. split; [eapply rd_le_trans; eauto|].
    rewrite H2. simpl. lia.
Qed.

Lemma read_int32s_spec k : forall b acc C D,
  8 <= C ->
  rspec 0 4 (C * avail b + D) (read_int32s k b acc)
        (fun r => C * avail (snd r) + D) (fun r => rd_le b (snd r)).
Proof.
  induction k as [|k IH]; intros b acc C D HC; cbn [read_int32s].
  - apply rspec_ret; [cbn [snd]; lia|]. cbn [snd]. apply rd_le_refl.
  - eapply rspec_bind'; [apply (get_int32_spec b C D); lia | | | |].
    2: instantiate (1 := 0); lia. 2: lia. 2: instantiate (1 := 4); lia.
    intros [v b'] Hq. cbn [snd] in *.
    eapply rspec_bind'; [apply (rspec_alloc_paid 4 (C * avail b' + (C - 8) + D) _ 0 0); lia | | | |].
    2: instantiate (1 := 0); lia. 2: lia. 2: instantiate (1 := 4); lia.
    intros u _. cbv beta.
    eapply rspec_weaken; [apply (IH b' (v :: acc) C D HC) | lia | lia | lia |].
    intros [l b''] H1. cbn [fst snd] in *. split; [lia|]. eapply rd_le_trans; eauto.
Qed.

Lemma rspec_alloc_then {A} n X phi K E (m : M A) phi' Q :
  X + n <= phi -> rspec K E X m phi' Q -> rspec K E phi (mbind (alloc n) (fun _ => m)) phi' Q.
Proof.
  intros H1 H2.
  eapply rspec_bind'; [apply (rspec_alloc_paid n X phi 0 0 H1) | | | |].
  - intros u _. exact H2.
  - lia.
  - lia.
  - lia.
Qed.

Lemma rspec_lift_ok {A B} (r : res A) a phi K E (f : A -> M B) phi' Q :
  r = Ok a -> rspec K E phi (f a) phi' Q -> rspec K E phi (mbind (lift r) f) phi' Q.
Proof.
  intros -> H. unfold rspec, mbind, lift in *. cbn [fst snd].
  destruct (f a) as [r2 n2]. cbn [fst snd] in *. destruct r2; auto.
Qed.

Definition extra (fixed : bool) (mx total : N) : N := if fixed then 0 else 2 * (mx - total).

Lemma bind_params_spec fixed mx k : forall i codes ftxt fbin total b acc D,
  1 <= br_cap b -> total <= mx ->
  (ftxt = false -> fbin = false -> (N.to_nat i + k = length codes)%nat) ->
  rspec 0 4 (20 * avail b + extra fixed mx total + D)
        (bind_params fixed mx k i codes ftxt fbin total b acc)
        (fun r => 20 * avail (snd r) + D) (fun r => rd_le b (snd r)).
Proof.
  induction k as [|k IH]; intros i codes ftxt fbin total b acc D Hc Ht Hi; cbn [bind_params].
  { apply rspec_ret; [cbn [snd]; lia | apply rd_le_refl]. }
  replace (20 * avail b + extra fixed mx total + D) with (20 * avail b + (extra fixed mx total + D)) by lia.
  eapply rspec_bind'; [apply (get_int32_spec b 20 (extra fixed mx total + D)); lia | | | |].
  2: instantiate (1 := 0); lia. 2: lia. 2: instantiate (1 := 4); lia.
  intros [plen b1] Hq. cbn [snd] in *. destruct Hq as [Hq1 Hq2].
  apply (rspec_alloc_then 16 (20 * avail b1 + extra fixed mx total + D)); [lia|].
  assert (Hrec : forall total' b2 p, total' <= mx -> rd_le b1 b2 ->
            rspec 0 4 (20 * avail b2 + extra fixed mx total' + D)
              (bind_params fixed mx k (i + 1) codes ftxt fbin total' b2 (p :: acc))
              (fun r => 20 * avail (snd r) + D) (fun r => rd_le b (snd r))).
  { intros total' b2 p Ht' [R1 R2].
    eapply rspec_weaken; [apply (IH (i + 1) codes ftxt fbin total' b2 (p :: acc) D) | lia | lia | lia |].
    - lia.
    - exact Ht'.
    - intros F1 F2. specialize (Hi F1 F2). lia.
    - intros [l b3] [R3 R4]. cbn [snd] in *. split; [lia|]. split; [congruence|lia]. }
  destruct (plen =? -1)%Z.
  { apply Hrec; [exact Ht | apply rd_le_refl]. }
  destruct (plen <? 0)%Z; [apply rspec_err; discriminate|].
  set (pl := Z.to_N plen).
  destruct (N.ltb_spec mx (total + pl)) as [Hm|Hm]; [apply rspec_err; discriminate|].
  destruct (fixed && (br_buffered b1 <? pl)) eqn:Ef; [apply rspec_err; discriminate|].
  destruct (br_read_spec pl b1) as (d & e & b2 & Hr & H1 & H2 & H3 & H4 & H5).
  (* the two allocations of pl bytes are paid by the bytes consumed (fixed) or by the budget
     that MaxMsgSize leaves (as found) *)
  assert (F1 : e = false -> 2 * pl + 20 * avail b2 + extra fixed mx (total + pl) <= 20 * avail b1 + extra fixed mx total).
  { intros He. unfold extra. destruct fixed; [|lia].
    cbn [andb] in Ef. unfold br_buffered in Ef. apply N.ltb_ge in Ef.
    destruct (N.eq_dec pl 0) as [Z|NZ]; [lia|].
    destruct (br_read_buffered pl b1) as (d' & b2' & Hr' & G1 & G2 & G3); [lia | lia |].
    rewrite Hr in Hr'. assert (b2 = b2') by congruence. subst b2'. lia. }
  assert (F0 : pl <= 20 * avail b1 + extra fixed mx total).
  { unfold extra. destruct fixed; [|lia].
    cbn [andb] in Ef. unfold br_buffered in Ef. apply N.ltb_ge in Ef. unfold avail. lia. }
  apply (rspec_alloc_then pl (20 * avail b1 + extra fixed mx total + D - pl)); [lia|].
  eapply rspec_lift_ok; [exact Hr|]. cbv beta iota.
  destruct e; [apply rspec_err; discriminate|].
  specialize (F1 eq_refl).
  assert (Hb2 : rd_le b1 b2) by (split; [exact H2|lia]).
  assert (Htxt : forall p, rspec 0 4 (20 * avail b1 + extra fixed mx total + D - pl)
            (dom _ <- alloc pl; bind_params fixed mx k (i + 1) codes ftxt fbin (total + pl) b2 (p :: acc))
            (fun r => 20 * avail (snd r) + D) (fun r => rd_le b (snd r))).
  { intros p. apply (rspec_alloc_then pl (20 * avail b2 + extra fixed mx (total + pl) + D)); [lia|].
    apply Hrec; auto. }
  assert (Hbin : forall p, rspec 0 4 (20 * avail b1 + extra fixed mx total + D - pl)
            (bind_params fixed mx k (i + 1) codes ftxt fbin (total + pl) b2 (p :: acc))
            (fun r => 20 * avail (snd r) + D) (fun r => rd_le b (snd r))).
  { intros p. eapply rspec_weaken; [apply (Hrec (total + pl) b2 p); auto | lia | lia | lia |].
    intros a Ha; split; [lia|exact Ha]. }
  destruct ftxt eqn:Eft; [apply Htxt|].
  destruct fbin eqn:Efb; [apply Hbin|].
  specialize (Hi eq_refl eq_refl).
  destruct (nth_error codes (N.to_nat i)) as [c|] eqn:En.
  2:{ apply nth_error_None in En. lia. }
  destruct (c =? 0)%Z; [apply Htxt|].
  destruct (c =? 1)%Z; [apply Hbin|].
  apply rspec_err; discriminate.
Qed.

(* sequencing with all success slacks 0 *)
Lemma rspec_step {A B} E1 E psi phi (m : M A) phi1 Q (f : A -> M B) phi2 R :
  rspec 0 E1 psi m phi1 Q -> psi <= phi -> E1 <= E ->
  (forall a, Q a -> rspec 0 E (phi1 a) (f a) phi2 R) ->
  rspec 0 E phi (mbind m f) phi2 R.
Proof.
  intros H1 Hp HE H2.
  eapply rspec_weaken; [eapply (rspec_bind 0 E1 0 E psi m phi1 Q f phi2 R H1 H2) | lia | lia | lia |].
  intros a Ha; split; [lia|exact Ha].
Qed.

Lemma rspec_ret_step {A B} (a : A) phi E (f : A -> M B) phi2 R :
  rspec 0 E phi (f a) phi2 R -> rspec 0 E phi (mbind (mret a) f) phi2 R.
Proof.
  unfold rspec, mbind, mret. cbn [fst snd]. destruct (f a) as [r n]. cbn [fst snd].
  destruct r; auto.
Qed.
Lemma rspec_err_step {A B} e phi E (f : A -> M B) phi2 R :
  e <> EFuel -> rspec 0 E phi (mbind (@merr A e) f) phi2 R.
Proof. unfold rspec, mbind, merr. cbn [fst snd]. intros; split; [auto|lia]. Qed.

Lemma new_reader_spec p X :
  rspec 0 0 (X + (len p + 16)) (new_reader p) (fun _ => X)
        (fun b => avail b = len p /\ 1 <= br_cap b).
Proof.
  unfold new_reader. apply (rspec_alloc_then (N.max (len p) 16) X); [lia|].
  apply rspec_ret; [lia | apply br_new_spec].
Qed.

(* ---------------- Bind ---------------- *)
Definition bind_phi (fixed : bool) (mx L : N) : N := 21 * L + 16 + 131068 + extra fixed mx 0.

Lemma bind_parse_spec fixed mx p :
  rspec 0 4 (bind_phi fixed mx (len p)) (bind_parse fixed mx p) (fun _ => 0) (fun _ => True).
Proof.
  unfold bind_parse, bind_phi.
  eapply rspec_step; [apply (new_reader_spec p (20 * len p + (extra fixed mx 0 + 131068))) | lia | lia |].
  intros b [Hb Hc]. rewrite <- Hb.
  eapply rspec_step; [apply (get_string_spec b 20 (extra fixed mx 0 + 131068) Hc); lia | lia | lia |].
  intros [portal b1] [C1 A1]. cbn [snd] in *.
  eapply rspec_step; [apply (get_string_spec b1 20 (extra fixed mx 0 + 131068)); lia | lia | lia |].
  intros [stmt b2] [C2 A2]. cbn [snd] in *.
  eapply rspec_step; [apply (get_int16_spec b2 20 (extra fixed mx 0 + 131068)); lia | lia | lia |].
  intros [nfc b3] [[C3 A3] Hn]. cbn [fst snd] in *.
  destruct (Z.ltb_spec nfc 0); [apply rspec_err; discriminate|].
  apply (rspec_alloc_then (2 * Z.to_N nfc) (20 * avail b3 + (extra fixed mx 0 + 65534))); [lia|].
  eapply rspec_step; [apply (read_int16s_spec (Z.to_nat nfc) b3 [] 20 (extra fixed mx 0 + 65534)); lia | lia | lia |].
  intros [codes b4] [[C4 A4] Hl]. cbn [fst snd] in *.
  eapply rspec_step; [apply (get_int16_spec b4 20 (extra fixed mx 0 + 65534)); lia | lia | lia |].
  intros [pcount b5] [[C5 A5] _]. cbn [fst snd] in *.
  (* the format-code switch *)
  assert (Hcont : forall ftxt fbin,
    (ftxt = false -> fbin = false -> (2 <= length codes)%nat) ->
    rspec 0 4 (20 * avail b5 + (20 - 2) + (extra fixed mx 0 + 65534))
      (let '(ftxt, fbin) := (ftxt, fbin) in
       let ncodes := N.of_nat (length codes) in
       if (1 <? ncodes) && negb (Z.of_N ncodes =? pcount)%Z then merr EMalformed else
       dom r <- bind_params fixed mx (Z.to_nat pcount) 0 codes ftxt fbin 0 b5 [];
       let '(params, b) := r in
       dom r0 <- get_int16 b;
       let '(nrc, b0) := r0 in
       if (nrc <? 0)%Z then merr EMalformed else
       dom _ <- alloc (2 * Z.to_N nrc);
       dom r1 <- read_int16s (Z.to_nat nrc) b0 [];
       let '(rcodes, _) := r1 in
       mret {| b_portal := portal; b_stmt := stmt; b_params := params; b_rcodes := rcodes |})
      (fun _ => 0) (fun _ => True)).
  { intros ftxt fbin Hlen. cbv zeta.
    destruct ((1 <? N.of_nat (length codes)) && negb (Z.of_N (N.of_nat (length codes)) =? pcount)%Z) eqn:Ec;
      [apply rspec_err; discriminate|].
    eapply rspec_step; [apply (bind_params_spec fixed mx (Z.to_nat pcount) 0 codes ftxt fbin 0 b5 [] 65534) | lia | lia |].
    - lia.
    - lia.
    - intros F1 F2. specialize (Hlen F1 F2).
      apply andb_false_iff in Ec. destruct Ec as [Ec|Ec].
      + apply N.ltb_ge in Ec. lia.
      + apply negb_false_iff in Ec. apply Z.eqb_eq in Ec. lia.
    - intros [params b6] [C6 A6]. cbn [snd] in *.
      eapply rspec_step; [apply (get_int16_spec b6 20 65534); lia | lia | lia |].
      intros [nrc b7] [[C7 A7] Hn7]. cbn [fst snd] in *.
      destruct (Z.ltb_spec nrc 0); [apply rspec_err; discriminate|].
      apply (rspec_alloc_then (2 * Z.to_N nrc) (20 * avail b7)); [lia|].
      eapply rspec_step; [apply (read_int16s_spec (Z.to_nat nrc) b7 [] 20 0); lia | lia | lia |].
      intros [rcodes b8] _. apply rspec_ret; [lia|auto]. }
  destruct codes as [|c [|c2 rest]].
  - apply rspec_ret_step. apply Hcont. discriminate.
  - destruct (c =? 0)%Z; [apply rspec_ret_step; apply Hcont; discriminate|].
    destruct (c =? 1)%Z; [apply rspec_ret_step; apply Hcont; discriminate|].
    apply rspec_err_step; discriminate.
  - apply rspec_ret_step. apply Hcont. intros _ _. simpl. lia.
Qed.

Theorem bind_parse_safe fixed mx p : msafe (bind_parse fixed mx p).
Proof. eapply rspec_safe. apply bind_parse_spec. Qed.

(* code as found: up to 2 * MaxMsgSize beyond a linear function of the message length *)
Theorem bind_parse_alloc mx p : snd (bind_parse false mx p) <= 2 * mx + 21 * len p + 131088.
Proof.
  pose proof (rspec_alloc_bound _ _ _ _ _ _ (bind_parse_spec false mx p)) as H.
  unfold bind_phi, extra in H. lia.
Qed.

(* repaired code: linear in the message length *)
Theorem bind_parse_fixed_alloc mx p : snd (bind_parse true mx p) <= 21 * len p + 131088.
Proof.
  pose proof (rspec_alloc_bound _ _ _ _ _ _ (bind_parse_spec true mx p)) as H.
  unfold bind_phi, extra in H. lia.
Qed.

(* the witness: an 11-byte Bind message announcing one 32 MiB text parameter makes the code as found
   allocate 64 MiB (the value, then its string copy) before the message is rejected; the repaired
   code rejects it after a few dozen bytes *)
Definition bind_witness : bytes := [0; 0; 0; 0; 0; 1; 2; 0; 0; 0; 7].
Theorem bind_alloc_refuted :
  exists p, len p <= 11 /\ 64 * 1048576 <= snd (bind_parse false (32 * 1048576) p) /\
            is_ok (fst (bind_parse false (32 * 1048576) p)) = false.
Proof. exists bind_witness. vm_compute. repeat split; discriminate. Qed.
Example bind_witness_fixed : snd (bind_parse true (32 * 1048576) bind_witness) = 42.
Proof. vm_compute. reflexivity. Qed.

(* ---------------- Parse, Execute ---------------- *)
Lemma parse_parse_spec p :
  rspec 0 4 (21 * len p + 16) (parse_parse p) (fun _ => 0) (fun _ => True).
Proof.
  unfold parse_parse.
  eapply rspec_step; [apply (new_reader_spec p (20 * len p + 0)) | lia | lia |].
  intros b [Hb Hc]. rewrite <- Hb.
  eapply rspec_step; [apply (get_string_spec b 20 0 Hc); lia | lia | lia |].
  intros [name b1] [C1 A1]. cbn [snd] in *.
  eapply rspec_step; [apply (get_string_spec b1 20 0); lia | lia | lia |].
  intros [q b2] [C2 A2]. cbn [snd] in *.
  eapply rspec_step; [apply (get_int16_spec b2 20 0); lia | lia | lia |].
  intros [pc b3] [[C3 A3] _]. cbn [fst snd] in *.
  eapply rspec_step; [apply (read_int32s_spec (Z.to_nat pc) b3 [] 20 0); lia | lia | lia |].
  intros [oids b4] _. apply rspec_ret; [lia|auto].
Qed.

Lemma execute_parse_spec p :
  rspec 0 4 (21 * len p + 16) (execute_parse p) (fun _ => 0) (fun _ => True).
Proof.
  unfold execute_parse.
  eapply rspec_step; [apply (new_reader_spec p (20 * len p + 0)) | lia | lia |].
  intros b [Hb Hc]. rewrite <- Hb.
  eapply rspec_step; [apply (get_string_spec b 20 0 Hc); lia | lia | lia |].
  intros [name b1] [C1 A1]. cbn [snd] in *.
  eapply rspec_step; [apply (get_int32_spec b1 20 0); lia | lia | lia |].
  intros [mr b2] _. apply rspec_ret; [lia|auto].
Qed.

(* ---------------- Describe, Query, PasswordMessage, CopyFail ---------------- *)
Lemma describe_parse_spec p :
  rspec 0 0 (len p) (describe_parse p) (fun _ => 0) (fun _ => True).
Proof.
  unfold describe_parse, rspec, mbind, lift, alloc, merr, mret.
  destruct (N.ltb_spec (len p) 2); cbn [fst snd]; [split; [discriminate|lia]|].
  destruct (at_ok p 0) as [t Ht]; [lia|]. rewrite Ht. cbn [fst snd].
  rewrite sub_ok by lia. cbn [fst snd]. rewrite len_take, len_drop. split; [lia|auto].
Qed.

Lemma cstring_parse_spec p :
  rspec 0 0 (len p) (cstring_parse p) (fun _ => 0) (fun _ => True).
Proof.
  unfold cstring_parse, rspec, mbind, lift, alloc, merr, mret.
  destruct (N.eqb_spec (len p) 0); cbn [fst snd]; [split; [discriminate|lia]|].
  rewrite sub_ok by lia. cbn [fst snd]. rewrite len_take, len_drop. split; [lia|auto].
Qed.

Lemma copyfail_parse_spec p :
  rspec 0 0 (len p) (copyfail_parse p) (fun _ => 0) (fun _ => True).
Proof.
  unfold copyfail_parse, rspec, mbind, lift, alloc, merr, mret. cbv zeta. cbn [fst snd].
  destruct (N.ltb_spec 0 (len p)).
  - destruct (at_ok p (len p - 1)) as [l Hl]; [lia|]. rewrite Hl. cbn [bind fst snd].
    destruct (l =? 0); cbn [fst snd].
    + rewrite sub_ok by lia. cbn [fst snd]. split; [lia|auto].
    + split; [lia|auto].
  - cbn [fst snd]. split; [lia|auto].
Qed.

(* ---------------- parseRawMessage ---------------- *)
Lemma rspec_map {A B} (m : M A) (g : A -> B) E phi :
  rspec 0 E phi m (fun _ => 0) (fun _ => True) ->
  rspec 0 E phi (mbind m (fun r => mret (g r))) (fun _ => 0) (fun _ => True).
Proof.
  intros H. eapply rspec_step; [exact H | lia | lia |].
  intros a _. apply rspec_ret; [lia|auto].
Qed.

Definition dispatch_phi (fixed : bool) (mx L : N) : N := bind_phi fixed mx L.

Lemma pg_dispatch_spec fixed mx t p :
  rspec 0 4 (dispatch_phi fixed mx (len p)) (pg_dispatch fixed mx t p) (fun _ => 0) (fun _ => True).
Proof.
  unfold pg_dispatch, dispatch_phi, bind_phi.
  assert (W : forall (m : M pgmsg) psi E, rspec 0 E psi m (fun _ => 0) (fun _ => True) ->
              psi <= 21 * len p + 16 + 131068 + extra fixed mx 0 -> E <= 4 ->
              rspec 0 4 (21 * len p + 16 + 131068 + extra fixed mx 0) m (fun _ => 0) (fun _ => True)).
  { intros m psi E H Hp HE. eapply rspec_weaken; [exact H | lia | lia | lia |]. intros a _; split; [lia|auto]. }
  assert (R0 : forall m : pgmsg, rspec 0 0 0 (mret m) (fun _ => 0) (fun _ => True)).
  { intros m. apply rspec_ret; [lia|auto]. }
  destruct (t =? 112); [refine (W _ _ _ (rspec_map _ _ _ _ (cstring_parse_spec p)) _ _); lia|].
  destruct (t =? 81); [refine (W _ _ _ (rspec_map _ _ _ _ (cstring_parse_spec p)) _ _); lia|].
  destruct (t =? 88); [refine (W _ _ _ (R0 _) _ _); lia|].
  destruct (t =? 80); [refine (W _ _ _ (rspec_map _ _ _ _ (parse_parse_spec p)) _ _); lia|].
  destruct (t =? 66); [refine (W _ _ _ (rspec_map _ _ _ _ (bind_parse_spec fixed mx p)) _ _); unfold bind_phi; lia|].
  destruct (t =? 68); [refine (W _ _ _ (rspec_map (describe_parse p) (fun r => MDescribe (fst r) (snd r)) _ _ (describe_parse_spec p)) _ _); lia|].
  destruct (t =? 83); [refine (W _ _ _ (R0 _) _ _); lia|].
  destruct (t =? 69); [refine (W _ _ _ (rspec_map (execute_parse p) (fun r => MExecute (fst r) (snd r)) _ _ (execute_parse_spec p)) _ _); lia|].
  destruct (t =? 72); [refine (W _ _ _ (R0 _) _ _); lia|].
  destruct (t =? 100); [refine (W _ _ _ (R0 _) _ _); lia|].
  destruct (t =? 99); [refine (W _ _ _ (R0 _) _ _); lia|].
  destruct (t =? 102); [refine (W _ _ _ (rspec_map _ _ _ _ (copyfail_parse_spec p)) _ _); lia|].
  apply rspec_err; discriminate.
Qed.

Theorem pg_dispatch_safe fixed mx t p : msafe (pg_dispatch fixed mx t p).
Proof. eapply rspec_safe. apply pg_dispatch_spec. Qed.

Theorem pg_dispatch_alloc mx t p : snd (pg_dispatch false mx t p) <= 2 * mx + 21 * len p + 131088.
Proof.
  pose proof (rspec_alloc_bound _ _ _ _ _ _ (pg_dispatch_spec false mx t p)) as H.
  unfold dispatch_phi, bind_phi, extra in H. lia.
Qed.

Theorem pg_dispatch_fixed_alloc mx t p : snd (pg_dispatch true mx t p) <= 21 * len p + 131088.
Proof.
  pose proof (rspec_alloc_bound _ _ _ _ _ _ (pg_dispatch_spec true mx t p)) as H.
  unfold dispatch_phi, bind_phi, extra in H. lia.
Qed.

(* ---------------- ReadRawMessage ---------------- *)
(* never panics; reserves at most 5 + MaxMsgSize bytes (the payload buffer is made before the
   bytes are read: the bound is the configured limit, not the input length); a returned message
   cost 5 + |payload| and payload ++ rest is what followed the 5-byte header *)
Theorem raw_read_safe mx conn :
  msafe (raw_read mx conn) /\ snd (raw_read mx conn) <= 5 + mx mod 4294967296 /\
  (forall t payload rest, fst (raw_read mx conn) = Ok (t, payload, rest) ->
     snd (raw_read mx conn) = 5 + len payload /\ len conn = 5 + len payload + len rest).
Proof.
  unfold raw_read, msafe, mbind, alloc, lift, merr, mret. cbn [fst snd].
  destruct (N.ltb_spec (len conn) 1); cbn [fst snd].
  { repeat split; try discriminate; lia. }
  destruct (at_ok conn 0) as [t Ht]; [lia|]. rewrite Ht. cbn [fst snd].
  destruct (negb (existsb (N.eqb t) pg_mtypes)); cbn [fst snd].
  { repeat split; try discriminate; lia. }
  destruct (N.ltb_spec (len conn) 5); cbn [fst snd].
  { repeat split; try discriminate; lia. }
  rewrite sub_ok by lia. cbn [fst snd].
  rewrite uint_ok by (rewrite len_take, len_drop; change (N.of_nat 4) with 4; lia). cbn [fst snd].
  set (l := be_dec (firstn 4 (take (5 - 1) (drop 1 conn)))).
  set (plen := (l + 4294967296 - 4) mod 4294967296).
  destruct (N.ltb_spec 2147483647 plen); cbn [fst snd].
  { repeat split; try discriminate; lia. }
  destruct (N.ltb_spec (mx mod 4294967296) plen); cbn [fst snd].
  { repeat split; try discriminate; lia. }
  destruct (N.ltb_spec (len conn - 5) plen); cbn [fst snd].
  { repeat split; try discriminate; lia. }
  rewrite sub_ok by lia. cbn [fst snd]. rewrite from_ok by lia. cbn [fst snd].
  split; [split; discriminate|]. split; [lia|].
  intros t' payload rest E.
  assert (payload = take (5 + plen - 5) (drop 5 conn)) by congruence.
  assert (rest = drop (5 + plen) conn) by congruence. subst.
  rewrite len_take, !len_drop. split; lia.
Qed.
