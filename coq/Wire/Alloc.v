(* Outcome of a Go function together with the number of bytes it asks the allocator for on the way
   (make, buffers of library calls, string conversions, appended elements) -- ALSO when the outcome
   is an error or a panic: a writer monad over Base.Res.res. *)
From V Require Export Base.Bytes.

Definition M (A : Type) : Type := (res A * N)%type.
Definition mret {A} (a : A) : M A := (Ok a, 0).
Definition mbind {A B} (m : M A) (f : A -> M B) : M B :=
  match fst m with
  | Ok a => let r := f a in (fst r, snd m + snd r)
  | Err e => (Err e, snd m)
  | Panic => (Panic, snd m)
  end.
Definition alloc (n : N) : M unit := (Ok tt, n).
Definition lift {A} (r : res A) : M A := (r, 0).
Definition merr {A} (e : N) : M A := (Err e, 0).
Notation "'dom' x <- r ; k" := (mbind r (fun x => k))
  (at level 200, x pattern, r at level 100, k at level 200, right associativity).

