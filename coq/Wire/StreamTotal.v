(* Totality and memory bounds of the pkg/stream receivers (Wire/Stream.v), for every list of
   chunks, i.e. for every byte string AND every way of cutting it into chunks. *)
From V Require Import Wire.Alloc Wire.Bufio Wire.Stream Store.Codec Store.CodecTotal Wire.BufioTotal Wire.AllocProofs.
From Coq Require Import ZifyN ZifyNat ZifyBool.

Lemma len_concat_cons (c : bytes) r : len (concat (c :: r)) = len c + len (concat r).
Proof. simpl. apply len_app. Qed.
Lemma len_repeat0 n : len (repeat 0 n) = N.of_nat n.
Proof. unfold len. rewrite repeat_length. reflexivity. Qed.

Lemma buffer_load_spec chunks : forall b n chunks' b' hit,
  buffer_load chunks b n = (chunks', b', hit) ->
  len b' + len (concat chunks') = len b + len (concat chunks) /\
  (hit = false -> n < len b') /\ (hit = true -> chunks' = [] /\ len b' <= n) /\
  len b <= len b'.
Proof.
  induction chunks as [|c r IH]; intros b n chunks' b' hit; cbn [buffer_load].
  - destruct (N.ltb_spec n (len b)); intros E.
    + assert (chunks' = []) by congruence. assert (b' = b) by congruence. assert (hit = false) by congruence.
      subst. repeat split; try lia; try discriminate.
    + assert (chunks' = []) by congruence. assert (b' = b) by congruence. assert (hit = true) by congruence.
      subst. repeat split; try lia; try discriminate.
  - destruct (N.ltb_spec n (len b)); intros E.
    + assert (chunks' = c :: r) by congruence. assert (b' = b) by congruence. assert (hit = false) by congruence.
      subst. repeat split; try lia; try discriminate.
    + apply IH in E. rewrite len_app in E. rewrite len_concat_cons. destruct E as (E1 & E2 & E3 & E4).
      repeat split; try lia; auto; try (apply E3; auto).
Qed.

(* state invariant of the receiver: 0 <= s <= tl *)
Definition mr_inv (r : mrecv) : Prop := (0 <= mr_sz r <= mr_tl r)%Z.

Lemma to_int64_range v : (- 9223372036854775808 <= to_int64 v <= 9223372036854775807)%Z.
Proof.
  unfold to_int64. cbv zeta.
  assert (v mod 18446744073709551616 < 18446744073709551616) by (apply N.mod_lt; lia).
  destruct (N.ltb_spec (v mod 18446744073709551616) 9223372036854775808); lia.
Qed.
Lemma to_int64_nonneg v : v mod 18446744073709551616 <= 9223372036854775807 -> (0 <= to_int64 v)%Z.
Proof.
  unfold to_int64. cbv zeta. intros H.
  destruct (N.ltb_spec (v mod 18446744073709551616) 9223372036854775808); lia.
Qed.

(* ---------------- msgReceiver.Read ---------------- *)
(* the part of one loop iteration behind the trailer initialisation, with the next iteration as a
   parameter *)
Definition mr_tail (n : N) (r : mrecv) (chunks : list bytes) (eof : bool) (tl : Z) (b : bytes)
    (rec : mrecv -> M (rdres * mrecv)) : M (rdres * mrecv) :=
  let sz := mr_sz r in
  if eof && (Z.of_N (len b) <? tl - sz)%Z then mret (REOF, mr_with r chunks b eof tl sz false) else
  if (tl - sz <=? Z.of_N n)%Z then
    let lms := (tl - sz)%Z in
    if negb (makeslice_ok lms) then (Panic, 0) else
    let m := Z.to_N lms in
    dom _ <- alloc m;
    if (len b =? 0) && negb (m =? 0) then
      mret (REOF, mr_with r chunks b eof tl sz false)
    else
      let d := takeN m b ++ repeat 0 (N.to_nat (m - N.min m (len b))) in
      mret (RD d, mr_with r chunks (dropN m b) eof 0%Z 0%Z true)
  else if n <? len b then
    mret (RD (takeN n b), mr_with r chunks (dropN n b) eof tl (sz + Z.of_N n)%Z false)
  else
    rec (mr_with r chunks b eof tl sz false).

Lemma mr_read_loop_unfold fixed f n r :
  mr_read_loop fixed (S f) n r =
  let '(chunks, b, hit) := buffer_load (s_chunks (mr_s r)) (mr_b r) n in
  if hit && negb (s_final_eof (mr_s r)) then merr ESTransport else
  let eof := mr_eof r || hit in
  dom tb <-
    (if (mr_tl r =? 0)%Z then
       dom _ <- alloc 8;
       if len b =? 0 then mret None else
       let trailer := takeN 8 b ++ repeat 0 (N.to_nat (8 - N.min 8 (len b))) in
       let u := be_dec trailer mod 18446744073709551616 in
       if fixed && (9223372036854775807 <? u) then merr ESInvalidLength else
       mret (Some (to_int64 u, dropN 8 b))
     else mret (Some (mr_tl r, b)));
  match tb with
  | None => mret (REOF, mr_with r chunks b eof (mr_tl r) (mr_sz r) false)
  | Some (tl, b) => mr_tail n r chunks eof tl b (mr_read_loop fixed f n)
  end.
Proof. reflexivity. Qed.

Definition rd_item_post (n avb : N) (al : N) (x : rdres) (r' : mrecv) : Prop :=
  match x with
  | REOF => True
  | RD d =>
      (0 < len d -> mr_avail r' + 1 <= avb) /\ len d <= n /\
      (mr_sent r' = true \/
       (mr_sent r' = false /\ len d = n /\ mr_tl r' <> 0%Z /\ n + mr_avail r' <= avb /\ al = 0))
  end.

(* outcome of the tail of an iteration; avb = bytes available behind the trailer *)
Definition tpost (n avb : N) (feof : bool) (tl : Z) (m : M (rdres * mrecv)) : Prop :=
  snd m <= n /\
  match fst m with
  | Ok (x, r') =>
      mr_inv r' /\ s_final_eof (mr_s r') = feof /\ mr_avail r' <= avb /\ rd_item_post n avb (snd m) x r'
  | Err e => e <> EFuel
  | Panic => (tl < 0)%Z
  end.

Lemma mr_avail_with r chunks b eof tl sz sent :
  mr_avail (mr_with r chunks b eof tl sz sent) = len b + len (concat chunks).
Proof. reflexivity. Qed.

Lemma mr_tail_spec n r chunks eof tl b rec :
  n <= 281474976710656 ->
  (0 <= mr_sz r)%Z -> (mr_sz r <= tl \/ tl < 0)%Z ->
  (eof = false -> len b <= n -> (Z.of_N n < tl - mr_sz r)%Z ->
     tpost n (len b + len (concat chunks)) (s_final_eof (mr_s r)) tl
           (rec (mr_with r chunks b eof tl (mr_sz r) false))) ->
  tpost n (len b + len (concat chunks)) (s_final_eof (mr_s r)) tl (mr_tail n r chunks eof tl b rec).
Proof.
  intros Hn Hs0 Hs1 Hrec. unfold mr_tail. cbv zeta.
  destruct (eof && (Z.of_N (len b) <? tl - mr_sz r)%Z) eqn:E1.
  { apply andb_prop in E1 as [Ee E1]. apply Z.ltb_lt in E1.
    unfold tpost, mret. cbn [fst snd]. split; [lia|]. unfold mr_inv. cbn [mr_with mr_sz mr_tl mr_s s_final_eof].
    rewrite mr_avail_with. repeat split; try lia. }
  destruct (Z.leb_spec (tl - mr_sz r) (Z.of_N n)) as [E2|E2].
  - unfold makeslice_ok.
    destruct (Z.leb_spec 0 (tl - mr_sz r)) as [E3|E3]; cbn [andb negb];
      [| unfold tpost; cbn [fst snd]; split; lia].
    destruct (Z.leb_spec (tl - mr_sz r) 281474976710656) as [E4|E4]; cbn [negb]; [|lia].
    set (m := Z.to_N (tl - mr_sz r)).
    assert (Hm : m <= n) by lia.
    unfold mbind, alloc. cbn [fst snd].
    destruct ((len b =? 0) && negb (m =? 0)) eqn:E5; cbn [fst snd mret].
    + apply andb_prop in E5 as [E5 E6]. apply N.eqb_eq in E5. apply negb_true_iff in E6. apply N.eqb_neq in E6.
      unfold tpost. cbn [fst snd]. split; [lia|]. unfold mr_inv. cbn [mr_with mr_sz mr_tl mr_s s_final_eof].
      rewrite mr_avail_with. repeat split; try lia.
    + assert (Hd : 0 < m -> 0 < len b).
      { intros Hd. apply andb_false_iff in E5. destruct E5 as [E5|E5].
        - apply N.eqb_neq in E5. lia.
        - apply negb_false_iff in E5. apply N.eqb_eq in E5. lia. }
      unfold tpost. cbn [fst snd]. split; [lia|]. unfold mr_inv, rd_item_post.
      cbn [mr_with mr_sz mr_tl mr_s s_final_eof mr_sent].
      rewrite !mr_avail_with, len_dropN, len_app, len_takeN, len_repeat0.
      repeat split; try lia; left; reflexivity.
  - destruct (N.ltb_spec n (len b)) as [E3|E3].
    + unfold tpost, mret. cbn [fst snd]. split; [lia|]. unfold mr_inv, rd_item_post.
      cbn [mr_with mr_sz mr_tl mr_s s_final_eof mr_sent].
      rewrite !mr_avail_with, len_dropN, len_takeN.
      repeat split; try lia; right; repeat split; try lia.
    + apply Hrec; try lia; destruct eof; auto; cbn [andb] in E1; apply Z.ltb_ge in E1; lia.
Qed.

Lemma tpost_ret_step {A} n avb fe tl (a : A) (f : A -> M (rdres * mrecv)) :
  tpost n avb fe tl (f a) -> tpost n avb fe tl (mbind (mret a) f).
Proof.
  unfold tpost, mbind, mret. cbn [fst snd]. destruct (f a) as [x y]. cbn [fst snd].
  replace (0 + y) with y by lia. destruct x as [[x r']| |]; auto.
Qed.

(* an iteration that starts with the length already known returns without a further iteration *)
Lemma mr_loop_known fixed f n r :
  mr_inv r -> n <= 281474976710656 -> mr_tl r <> 0%Z ->
  tpost n (mr_avail r) (s_final_eof (mr_s r)) (mr_tl r) (mr_read_loop fixed (S f) n r).
Proof.
  intros [I1 I2] Hn Htl. rewrite mr_read_loop_unfold.
  destruct (buffer_load (s_chunks (mr_s r)) (mr_b r) n) as [[chunks b] hit] eqn:E.
  apply buffer_load_spec in E as (E1 & E2 & E3 & E4).
  destruct (hit && negb (s_final_eof (mr_s r))).
  { unfold tpost, merr. cbn [fst snd]. split; [lia|discriminate]. }
  cbv zeta. destruct (Z.eqb_spec (mr_tl r) 0); [contradiction|].
  apply tpost_ret_step.
  replace (mr_avail r) with (len b + len (concat chunks)) by (unfold mr_avail; lia).
  apply mr_tail_spec; auto; try lia.
Qed.

Definition rd_post (fixed : bool) (n : N) (r : mrecv) (m : M (rdres * mrecv)) : Prop :=
  let T := if (mr_tl r =? 0)%Z then 8 else 0 in
  snd m <= T + n /\
  match fst m with
  | Ok (x, r') =>
      mr_inv r' /\ s_final_eof (mr_s r') = s_final_eof (mr_s r) /\ mr_avail r' <= mr_avail r /\
      match x with
      | REOF => True
      | RD d =>
          (0 < len d -> mr_avail r' + 1 <= mr_avail r) /\ len d <= n /\
          (mr_sent r' = true \/
           (mr_sent r' = false /\ len d = n /\ mr_tl r' <> 0%Z /\ n + mr_avail r' <= mr_avail r /\ snd m <= T))
      end
  | Err e => e <> EFuel
  | Panic => fixed = false
  end.

Lemma mr_loop_spec fixed f n r :
  mr_inv r -> n <= 281474976710656 ->
  rd_post fixed n r (mr_read_loop fixed (S (S f)) n r).
Proof.
  intros [I1 I2] Hn.
  destruct (Z.eq_dec (mr_tl r) 0) as [Htl|Htl].
  2:{ pose proof (mr_loop_known fixed (S f) n r (conj I1 I2) Hn Htl) as H.
      unfold tpost in H. unfold rd_post. cbv zeta. destruct (Z.eqb_spec (mr_tl r) 0); [contradiction|].
      destruct H as [H1 H2]. split; [lia|].
      destruct (fst (mr_read_loop fixed (S (S f)) n r)) as [[x r']| |]; auto.
      2: (exfalso; lia).
      destruct H2 as (A1 & A2 & A3 & A4).
      split; [exact A1|]. split; [exact A2|]. split; [exact A3|].
      destruct x as [d|]; auto. unfold rd_item_post in A4. destruct A4 as (B1 & B2 & B3).
      split; [exact B1|]. split; [exact B2|].
      destruct B3 as [B3|(C1 & C2 & C3 & C4 & C5)]; [left; auto|right].
      repeat split; auto; lia. }
  rewrite mr_read_loop_unfold. unfold rd_post. cbv zeta.
  destruct (buffer_load (s_chunks (mr_s r)) (mr_b r) n) as [[chunks b] hit] eqn:E.
  apply buffer_load_spec in E as (E1 & E2 & E3 & E4).
  destruct (Z.eqb_spec (mr_tl r) 0); [|contradiction].
  assert (Hsz : mr_sz r = 0%Z) by lia.
  destruct (hit && negb (s_final_eof (mr_s r))).
  { unfold merr. cbn [fst snd]. split; [lia|discriminate]. }
  match goal with |- context [mbind (mbind (alloc 8) ?g) ?k] => set (TB := mbind (alloc 8) g); set (K := k) end.
  destruct (N.eqb_spec (len b) 0) as [Hb|Hb].
  { assert (HTB : TB = (Ok None, 8)).
    { unfold TB, mbind, alloc, mret. cbn [fst snd]. destruct (N.eqb_spec (len b) 0); [reflexivity|contradiction]. }
    rewrite HTB. unfold mbind, K, mret. cbn [fst snd]. split; [lia|]. unfold mr_inv. cbn [mr_with mr_sz mr_tl mr_s s_final_eof].
    rewrite mr_avail_with. unfold mr_avail in *. repeat split; lia. }
  set (u := be_dec (takeN 8 b ++ repeat 0 (N.to_nat (8 - N.min 8 (len b)))) mod 18446744073709551616).
  destruct (fixed && (9223372036854775807 <? u)) eqn:Ef.
  { assert (HTB : TB = (Err ESInvalidLength, 8)).
    { unfold TB, mbind, alloc, mret, merr. cbn [fst snd]. destruct (N.eqb_spec (len b) 0); [contradiction|].
      cbv zeta. fold u. rewrite Ef. reflexivity. }
    rewrite HTB. unfold mbind. cbn [fst snd]. split; [lia|discriminate]. }
  assert (HTB : TB = (Ok (Some (to_int64 u, dropN 8 b)), 8)).
  { unfold TB, mbind, alloc, mret, merr. cbn [fst snd]. destruct (N.eqb_spec (len b) 0); [contradiction|].
    cbv zeta. fold u. rewrite Ef. reflexivity. }
  rewrite HTB. unfold mbind, K. cbn [fst snd].
  assert (Hnn : fixed = true -> (0 <= to_int64 u)%Z).
  { intros ->. cbn [andb] in Ef. apply N.ltb_ge in Ef. apply to_int64_nonneg.
    unfold u. rewrite N.mod_mod by lia. exact Ef. }
  pose proof (mr_tail_spec n r chunks (mr_eof r || hit) (to_int64 u) (dropN 8 b) (mr_read_loop fixed (S f) n) Hn) as HT.
  assert (HT' : tpost n (len (dropN 8 b) + len (concat chunks)) (s_final_eof (mr_s r)) (to_int64 u)
                  (mr_tail n r chunks (mr_eof r || hit) (to_int64 u) (dropN 8 b) (mr_read_loop fixed (S f) n))).
  { assert (G1 : (0 <= mr_sz r)%Z) by lia.
    assert (G2 : (mr_sz r <= to_int64 u \/ to_int64 u < 0)%Z) by lia.
    apply (HT G1 G2).
    - intros He Hlb Hlt.
      pose proof (mr_loop_known fixed f n (mr_with r chunks (dropN 8 b) (mr_eof r || hit) (to_int64 u) (mr_sz r) false)) as HK.
      rewrite mr_avail_with in HK. cbn [mr_with mr_s s_final_eof mr_tl] in HK.
      apply HK; auto; try lia. unfold mr_inv. cbn [mr_with mr_sz mr_tl]. lia. }
  clear HT. unfold tpost in HT'. rewrite len_dropN in HT'.
  destruct (mr_tail n r chunks (mr_eof r || hit) (to_int64 u) (dropN 8 b) (mr_read_loop fixed (S f) n)) as [res al].
  cbn [fst snd] in *. destruct HT' as [T1 T2]. split; [lia|].
  destruct res as [[x r']| |]; auto.
  - destruct T2 as (A1 & A2 & A3 & A4).
    assert (Hav : len b + len (concat chunks) = mr_avail r) by (unfold mr_avail; lia).
    split; [exact A1|]. split; [exact A2|]. split; [lia|].
    destruct x as [d|]; auto. unfold rd_item_post in A4. destruct A4 as (B1 & B2 & B3).
    split; [intros; lia|]. split; [lia|].
    destruct B3 as [B3|(C1 & C2 & C3 & C4 & C5)]; [left; auto|right]. repeat split; auto; lia.
  - destruct fixed; auto. specialize (Hnn eq_refl). lia.
Qed.

(* msgReceiver.Read: never out of fuel; never a panic once the length is validated; allocates at
   most 8 + len(data); the state invariant is kept; nothing is invented (bytes available only go down) *)
Theorem mr_read_spec fixed n r :
  mr_inv r -> n <= 281474976710656 ->
  let m := mr_read fixed n r in
  (mr_sent r = true -> snd m = 0 /\ exists r', fst m = Ok (RD [], r') /\ mr_sent r' = false /\
      mr_inv r' /\ mr_avail r' = mr_avail r /\ s_final_eof (mr_s r') = s_final_eof (mr_s r)) /\
  (mr_sent r = false -> rd_post fixed n r m).
Proof.
  intros HI Hn. unfold mr_read. cbv zeta. destruct (mr_sent r) eqn:Es.
  - split; [|discriminate]. intros _. unfold mret. cbn [fst snd]. split; [reflexivity|].
    eexists; split; [reflexivity|]. unfold mr_inv in *. cbn [mr_with mr_sent mr_sz mr_tl mr_s s_final_eof].
    rewrite mr_avail_with. unfold mr_avail. repeat split; lia.
  - split; [discriminate|]. intros _.
    destruct (mr_eof r && (len (mr_b r) =? 0)).
    + unfold rd_post, mret. cbn [fst snd]. split; [lia|]. unfold mr_inv in *. repeat split; auto; lia.
    + unfold mr_fuel. apply mr_loop_spec; auto.
Qed.

(* ---------------- ReadValue ---------------- *)
Definition rv_phi (bs : N) (r : mrecv) : N :=
  mr_avail r + (if mr_sent r then bs else 3 * bs + (if (mr_tl r =? 0)%Z then 8 else 0)).

Lemma len_overwrite d old : len d <= len (overwrite d old).
Proof. unfold overwrite. rewrite len_app. lia. Qed.

Definition rv_post (fixed : bool) (bs : N) (r : mrecv) (acc : bytes) (vl : N) (m : M (bytes * N * mrecv)) : Prop :=
  snd m <= rv_phi bs r /\
  match fst m with
  | Ok (acc', vl', r') =>
      snd m + mr_avail r' <= rv_phi bs r /\
      mr_inv r' /\ s_final_eof (mr_s r') = s_final_eof (mr_s r) /\ mr_avail r' <= mr_avail r /\
      vl <= vl' /\ (vl < vl' -> mr_avail r' + 1 <= mr_avail r) /\
      vl' + mr_avail r' <= vl + mr_avail r + (if mr_sent r then 0 else bs) /\
      (vl <= len acc -> vl' <= len acc')
  | Err e => e <> EFuel
  | Panic => fixed = false
  end.

Lemma rv_loop_spec fixed bs fuel : forall r chunk acc vl,
  mr_inv r -> bs <= 281474976710656 -> mr_avail r + 1 <= N.of_nat fuel ->
  rv_post fixed bs r acc vl (read_value_loop fixed fuel bs r chunk acc vl).
Proof.
  induction fuel as [|f IH]; intros r chunk acc vl HI Hbs Hf; [lia|].
  cbn [read_value_loop].
  pose proof (mr_read_spec fixed bs r HI Hbs) as [S1 S2]. cbv zeta in S1, S2.
  destruct (mr_read fixed bs r) as [res al] eqn:Em. cbn [fst snd] in S1, S2.
  unfold rv_post, rv_phi, mbind, alloc, mret. cbn [fst snd].
  destruct (mr_sent r) eqn:Es.
  - destruct (S1 eq_refl) as (Z1 & r' & Z2 & Z3 & Z4 & Z5 & Z6). subst res al. cbn [fst snd].
    replace (len (@nil N) =? 0) with true by reflexivity. cbn [fst snd].
    split; [lia|]. split; [lia|]. split; [exact Z4|]. repeat split; auto; try lia.
    intros H. rewrite len_app. pose proof (len_overwrite [] chunk). lia.
  - specialize (S2 eq_refl). unfold rd_post in S2. cbv zeta in S2. cbn [fst snd] in S2.
    destruct S2 as [A0 A1].
    destruct res as [[x r']| |]; cbn [fst snd]; [| split; [lia|exact A1] | split; [lia|exact A1]].
    destruct A1 as (B1 & B2 & B3 & B4).
    destruct x as [d|]; cbn [fst snd mret].
    2:{ split; [lia|]. split; [lia|]. split; [exact B1|]. repeat split; auto; try lia. intros H. rewrite len_app. lia. }
    destruct B4 as (C1 & C2 & C3).
    destruct (N.eqb_spec (len d) 0) as [Hd|Hd]; cbn [fst snd mret].
    { split; [lia|]. split; [lia|]. split; [exact B1|]. repeat split; auto; try lia. intros H. rewrite len_app. lia. }
    assert (Hav : mr_avail r' + 1 <= mr_avail r) by (apply C1; lia).
    specialize (IH r' (overwrite d chunk) (acc ++ overwrite d chunk) (vl + len d) B1 Hbs).
    assert (Hf' : mr_avail r' + 1 <= N.of_nat f) by lia. specialize (IH Hf').
    unfold rv_post, rv_phi in IH.
    destruct (read_value_loop fixed f bs r' (overwrite d chunk) (acc ++ overwrite d chunk) (vl + len d)) as [res2 al2].
    cbn [fst snd] in *. destruct IH as [I0 I1].
    assert (Hal : al + (bs + al2) <= mr_avail r + (3 * bs + (if (mr_tl r =? 0)%Z then 8 else 0))).
    { destruct C3 as [C3|(C3 & C4 & C5 & C6 & C7)]; rewrite C3 in I0.
      - lia.
      - destruct (Z.eqb_spec (mr_tl r') 0); [contradiction|]. lia. }
    split; [exact Hal|].
    destruct res2 as [[[acc' vl'] r'']| |]; auto.
    destruct I1 as (D0 & D1 & D2 & D3 & D4 & D5 & D6 & D7).
    split.
    { destruct C3 as [C3|(C3 & C4 & C5 & C6 & C7)]; rewrite C3 in D0.
      - lia.
      - destruct (Z.eqb_spec (mr_tl r') 0); [contradiction|]. lia. }
    split; [exact D1|]. split; [congruence|]. split; [lia|]. split; [lia|]. split; [intros; lia|].
    split.
    + destruct C3 as [C3|(C3 & C4 & C5 & C6 & C7)]; rewrite C3 in D6; lia.
    + intros H. apply D7. rewrite len_app. pose proof (len_overwrite d chunk). lia.
Qed.

Definition st_Q (r : mrecv) (r' : mrecv) : Prop :=
  mr_inv r' /\ s_final_eof (mr_s r') = s_final_eof (mr_s r) /\ mr_avail r' <= mr_avail r.

Lemma st_Q_refl r : mr_inv r -> st_Q r r.
Proof. unfold st_Q. intros H; split; [exact H|split; [reflexivity|lia]]. Qed.
Lemma st_Q_trans a b c : st_Q a b -> st_Q b c -> st_Q a c.
Proof. unfold st_Q. intros (A1 & A2 & A3) (B1 & B2 & B3). split; [exact B1|split; [congruence|lia]]. Qed.

(* ReadValue: allocation is paid by what the value consumes from the stream (factor 2) plus a
   constant in the buffer size *)
Lemma read_value_spec fixed bs r D :
  mr_inv r -> bs <= 281474976710656 ->
  rspecP (fixed = false) 0 0 (2 * mr_avail r + (5 * bs + 8) + D) (read_value fixed bs r)
    (fun x => 2 * mr_avail (snd x) + D)
    (fun x => st_Q r (snd x) /\
              (forall v, fst x = Some v -> 1 <= len v /\ mr_avail (snd x) + 1 <= mr_avail r)).
Proof.
  intros HI Hbs. unfold read_value.
  pose proof (rv_loop_spec fixed bs (rv_fuel r) r (repeat 0 (N.to_nat bs)) [] 0 HI Hbs) as HL.
  assert (Hf : mr_avail r + 1 <= N.of_nat (rv_fuel r)) by (unfold rv_fuel; lia).
  specialize (HL Hf). unfold rv_post, rv_phi in HL.
  destruct (read_value_loop fixed (rv_fuel r) bs r (repeat 0 (N.to_nat bs)) [] 0) as [res al].
  cbn [fst snd] in HL. destruct HL as [L0 L1].
  assert (Hk : (if mr_sent r then bs else 3 * bs + (if (mr_tl r =? 0)%Z then 8 else 0)) <= 3 * bs + 8).
  { destruct (mr_sent r); [lia|]. destruct (mr_tl r =? 0)%Z; lia. }
  unfold rspecP, mbind, alloc. cbn [fst snd].
  destruct res as [[[acc vl] r']| |]; cbn [fst snd].
  - destruct L1 as (D0 & D1 & D2 & D3 & D4 & D5 & D6 & D7).
    assert (Hs : (if mr_sent r then 0 else bs) <= bs) by (destruct (mr_sent r); lia).
    destruct (N.eqb_spec vl 0) as [Hv|Hv]; unfold mret; cbn [fst snd].
    + split; [lia|]. split; [split; [exact D1|split; [exact D2|exact D3]]|]. intros v; discriminate.
    + split; [lia|]. split; [split; [exact D1|split; [exact D2|exact D3]]|].
      intros v Ev. assert (v = takeN vl acc) by congruence. subst v.
      rewrite len_takeN. specialize (D7 ltac:(rewrite len_nil; lia)). split; [lia|]. apply D5. lia.
  - split; [exact L1|lia].
  - split; [exact L1|lia].
Qed.

Lemma read_value_e_spec fixed bs r D :
  mr_inv r -> bs <= 281474976710656 ->
  rspecP (fixed = false) 0 0 (2 * mr_avail r + (5 * bs + 8) + D) (read_value_e fixed bs r)
    (fun x => 2 * mr_avail (snd x) + D)
    (fun x => st_Q r (snd x) /\ 1 <= len (fst x) /\ mr_avail (snd x) + 1 <= mr_avail r).
Proof.
  intros HI Hbs. unfold read_value_e.
  eapply rspecP_step; [apply (read_value_spec fixed bs r D HI Hbs) | lia | lia |].
  intros [[v|] r'] [Q1 Q2]; cbn [fst snd] in *.
  - destruct (Q2 v eq_refl). apply rspecP_ret; [cbn [snd]; lia|]. cbn [fst snd]. auto.
  - apply rspecP_err; discriminate.
Qed.

(* ---------------- the typed receivers ---------------- *)
Definition W (bs : N) : N := 5 * bs + 8.    (* what one ReadValue costs beyond the bytes it consumes *)

Lemma kv_next_spec fixed bs r D :
  mr_inv r -> bs <= 281474976710656 ->
  rspecP (fixed = false) 0 0 (2 * mr_avail r + W bs + D) (kv_next fixed bs r)
    (fun x => 2 * mr_avail (snd x) + D)
    (fun x => st_Q r (snd x) /\ 1 <= len (fst x) /\ mr_avail (snd x) + 1 <= mr_avail r).
Proof. intros. unfold kv_next, W. apply read_value_e_spec; auto. Qed.

Lemma number_from_spec P b X :
  rspecP P 0 0 (X + 8) (number_from b) (fun _ => X) (fun _ => True).
Proof.
  unfold number_from. apply (rspecP_alloc_then P 8 X); [lia|].
  destruct (len b <? 8); [apply rspecP_err; discriminate | apply rspecP_ret; [lia|auto]].
Qed.

Lemma z_next_spec fixed bs r :
  mr_inv r -> bs <= 281474976710656 ->
  rspecP (fixed = false) 0 0 (2 * mr_avail r + 4 * W bs + 16) (z_next fixed bs r)
    (fun x => 2 * mr_avail (snd x)) (fun x => st_Q r (snd x)).
Proof.
  intros HI Hbs. unfold z_next, W.
  eapply rspecP_step; [apply (read_value_e_spec fixed bs r (3 * (5 * bs + 8) + 16) HI Hbs) | lia | lia |].
  intros [set r1] (Q1 & _ & _). cbn [snd] in *. pose proof Q1 as (I1 & _ & _).
  eapply rspecP_step; [apply (read_value_e_spec fixed bs r1 (2 * (5 * bs + 8) + 16) I1 Hbs) | lia | lia |].
  intros [key r2] (Q2 & _ & _). cbn [snd] in *. pose proof Q2 as (I2 & _ & _).
  eapply rspecP_step; [apply (read_value_e_spec fixed bs r2 (1 * (5 * bs + 8) + 16) I2 Hbs) | lia | lia |].
  intros [sc r3] (Q3 & _ & _). cbn [snd] in *. pose proof Q3 as (I3 & _ & _).
  eapply rspecP_step; [apply (read_value_e_spec fixed bs r3 16 I3 Hbs) | lia | lia |].
  intros [tx r4] (Q4 & _ & _). cbn [snd] in *.
  eapply rspecP_step; [apply (number_from_spec (fixed = false) sc (2 * mr_avail r4 + 8)) | lia | lia |].
  intros score _.
  eapply rspecP_step; [apply (number_from_spec (fixed = false) tx (2 * mr_avail r4)) | lia | lia |].
  intros attx _. apply rspecP_ret; [cbn [snd]; lia|]. cbn [snd].
  eapply st_Q_trans; [|exact Q4]. eapply st_Q_trans; [|exact Q3]. eapply st_Q_trans; [exact Q1|exact Q2].
Qed.

Lemma ventry_next_spec fixed bs r :
  mr_inv r -> bs <= 281474976710656 ->
  rspecP (fixed = false) 0 0 (2 * mr_avail r + 3 * W bs) (ventry_next fixed bs r)
    (fun x => 2 * mr_avail (snd x)) (fun x => st_Q r (snd x)).
Proof.
  intros HI Hbs. unfold ventry_next, W.
  eapply rspecP_step; [apply (read_value_e_spec fixed bs r (2 * (5 * bs + 8)) HI Hbs) | lia | lia |].
  intros [a r1] (Q1 & _ & _). cbn [snd] in *. pose proof Q1 as (I1 & _ & _).
  eapply rspecP_step; [apply (read_value_e_spec fixed bs r1 (1 * (5 * bs + 8)) I1 Hbs) | lia | lia |].
  intros [b r2] (Q2 & _ & _). cbn [snd] in *. pose proof Q2 as (I2 & _ & _).
  eapply rspecP_step; [apply (read_value_e_spec fixed bs r2 0 I2 Hbs) | lia | lia |].
  intros [c r3] (Q3 & _ & _). cbn [snd] in *.
  apply rspecP_ret; [cbn [snd]; lia|]. cbn [snd].
  eapply st_Q_trans; [|exact Q3]. eapply st_Q_trans; [exact Q1|exact Q2].
Qed.

Lemma mr_skip_trailer_Q n r : mr_inv r -> st_Q r (mr_skip_trailer n r).
Proof.
  intros HI. unfold mr_skip_trailer.
  destruct (buffer_load (s_chunks (mr_s r)) (mr_b r) n) as [[chunks b] hit] eqn:E.
  apply buffer_load_spec in E as (E1 & E2 & E3 & E4).
  unfold st_Q. split; [exact HI|]. split; [reflexivity|].
  rewrite mr_avail_with, len_dropN. unfold mr_avail. lia.
Qed.

Lemma execall_loop_spec fixed bs fuel : forall r,
  mr_inv r -> bs <= 281474976710656 -> mr_avail r + 1 <= N.of_nat fuel ->
  rspecP (fixed = false) 0 0 ((mr_avail r + 2) * W bs + 2 * mr_avail r)
    (execall_next_loop fixed fuel bs r) (fun _ => 0) (fun x => st_Q r (snd x)).
Proof.
  induction fuel as [|f IH]; intros r HI Hbs Hf; [lia|].
  cbn [execall_next_loop].
  assert (HW : (mr_avail r + 2) * W bs = (mr_avail r + 1) * W bs + W bs) by lia.
  eapply rspecP_step; [apply (read_value_e_spec fixed bs r ((mr_avail r + 1) * W bs) HI Hbs) | unfold W in *; lia | lia |].
  intros [t r1] (Q1 & Ht & Hav). cbn [fst snd] in *. pose proof Q1 as (I1 & _ & _).
  destruct (at_ok t 0) as [t0 Ht0]; [lia|]. rewrite Ht0.
  unfold lift at 1. apply (rspecP_ret_step (fixed = false) t0).
  assert (HM : (mr_avail r1 + 2) * W bs <= (mr_avail r + 1) * W bs) by (apply N.mul_le_mono_r; lia).
  assert (HM1 : (mr_avail r1 + 1) * W bs + W bs = (mr_avail r1 + 2) * W bs) by lia.
  destruct (t0 =? 1).
  { eapply rspecP_step; [apply (kv_next_spec fixed bs r1 (mr_avail r * W bs) I1 Hbs) | lia | lia |].
    intros [key r2] (Q2 & _ & _). cbn [snd] in *. apply rspecP_ret; [lia|]. cbn [snd].
    eapply st_Q_trans; eauto. }
  destruct (t0 =? 2).
  { pose proof (read_value_spec fixed bs r1 (mr_avail r * W bs) I1 Hbs) as HR.
    unfold rspecP in *. unfold W in *.
    destruct (read_value fixed bs r1) as [res al]. cbn [fst snd] in *.
    destruct res as [[raw r2]| |]; cbn [fst snd] in *.
    - destruct HR as [H1 [Q2 _]]. split; [lia|]. eapply st_Q_trans; eauto.
    - destruct HR as [H1 H2]. split; [lia|].
      destruct (e =? ESInvalidLength); [|exact Q1].
      eapply st_Q_trans; [exact Q1|apply mr_skip_trailer_Q; exact I1].
    - destruct HR as [H1 H2]. split; [exact H1|lia]. }
  destruct (t0 =? 4); [apply rspecP_err; discriminate|].
  eapply rspecP_weaken; [apply (IH r1 I1 Hbs) | lia | lia | lia |]; [lia|].
  intros [op r2] Q2. cbn [snd] in *. split; [lia|]. eapply st_Q_trans; eauto.
Qed.

(* ---------------- the property theorems about the receivers ---------------- *)
Lemma mr_new_inv s : mr_inv (mr_new s) /\ mr_avail (mr_new s) = len (concat (s_chunks s)).
Proof. unfold mr_inv, mr_avail, mr_new; cbn [mr_sz mr_tl mr_b mr_s]. rewrite len_nil. lia. Qed.

Definition st_total {A} (fixed : bool) (m : M A) (bound : N) : Prop :=
  fst m <> Err EFuel /\ (fixed = true -> fst m <> Panic) /\ snd m <= bound.

Lemma st_total_of {A} fixed K E phi (m : M A) phi' Q bound :
  rspecP (fixed = false) K E phi m phi' Q -> phi + N.max K E <= bound -> st_total fixed m bound.
Proof.
  intros H Hb. apply rspecP_facts in H as (H1 & H2 & H3). unfold st_total. repeat split; auto; try lia.
  intros ->. apply H2. discriminate.
Qed.

Theorem mr_read_total fixed n r :
  mr_inv r -> n <= 281474976710656 -> st_total fixed (mr_read fixed n r) (8 + n).
Proof.
  intros HI Hn. destruct (mr_read_spec fixed n r HI Hn) as [S1 S2]. unfold st_total.
  destruct (mr_sent r) eqn:Es.
  - destruct (S1 eq_refl) as (Z1 & r' & Z2 & _). rewrite Z2, Z1. repeat split; try discriminate; lia.
  - specialize (S2 eq_refl). unfold rd_post in S2. cbv zeta in S2. destruct S2 as [A0 A1].
    assert ((if (mr_tl r =? 0)%Z then 8 else 0) <= 8) by (destruct (mr_tl r =? 0)%Z; lia).
    destruct (fst (mr_read fixed n r)) as [[x r']|e|].
    + repeat split; try discriminate; lia.
    + repeat split; try discriminate; try lia; intros X; apply A1; congruence.
    + repeat split; try discriminate; try lia; intros ->; discriminate.
Qed.

Theorem read_value_total fixed bs r :
  mr_inv r -> bs <= 281474976710656 ->
  st_total fixed (read_value fixed bs r) (2 * mr_avail r + W bs).
Proof.
  intros HI Hbs. eapply st_total_of; [apply (read_value_spec fixed bs r 0 HI Hbs)|]. unfold W. lia.
Qed.

Theorem kv_next_total fixed bs r :
  mr_inv r -> bs <= 281474976710656 ->
  st_total fixed (kv_next fixed bs r) (2 * mr_avail r + W bs).
Proof.
  intros HI Hbs. eapply st_total_of; [apply (kv_next_spec fixed bs r 0 HI Hbs)|]. lia.
Qed.

Theorem z_next_total fixed bs r :
  mr_inv r -> bs <= 281474976710656 ->
  st_total fixed (z_next fixed bs r) (2 * mr_avail r + 4 * W bs + 16).
Proof.
  intros HI Hbs. eapply st_total_of; [apply (z_next_spec fixed bs r HI Hbs)|]. lia.
Qed.

Theorem ventry_next_total fixed bs r :
  mr_inv r -> bs <= 281474976710656 ->
  st_total fixed (ventry_next fixed bs r) (2 * mr_avail r + 3 * W bs).
Proof.
  intros HI Hbs. eapply st_total_of; [apply (ventry_next_spec fixed bs r HI Hbs)|]. lia.
Qed.

Theorem execall_next_total fixed bs r :
  mr_inv r -> bs <= 281474976710656 ->
  st_total fixed (execall_next fixed bs r) ((mr_avail r + 2) * W bs + 2 * mr_avail r).
Proof.
  intros HI Hbs. unfold execall_next.
  eapply st_total_of; [apply (execall_loop_spec fixed bs (rv_fuel r) r HI Hbs); unfold rv_fuel; lia|]. lia.
Qed.

(* ---------------- ReadFully ---------------- *)
Lemma rf_collect_spec chunks : forall acc msz acc' full,
  rf_collect chunks acc msz = (acc', full) ->
  len acc' <= len acc + len (concat chunks) /\ len acc <= len acc' /\ (full = true -> msz <= len acc').
Proof.
  induction chunks as [|c r IH]; intros acc msz acc' full; cbn [rf_collect].
  - destruct (N.leb_spec msz (len acc)); intros E.
    + assert (acc' = acc) by congruence. assert (full = true) by congruence. subst. simpl concat. rewrite len_nil. lia.
    + assert (acc' = acc) by congruence. assert (full = false) by congruence. subst. simpl concat. rewrite len_nil.
      repeat split; try lia; discriminate.
  - destruct (N.leb_spec msz (len acc)); intros E.
    + assert (acc' = acc) by congruence. assert (full = true) by congruence. subst. rewrite len_concat_cons. lia.
    + apply IH in E. rewrite len_app in E. rewrite len_concat_cons. destruct E as (E1 & E2 & E3).
      repeat split; try lia; exact E3.
Qed.

(* repaired ReadFully: never panics, allocates no more than it received *)
Theorem read_fully_fixed_total s :
  st_total true (read_fully true s) (len (concat (s_chunks s))).
Proof.
  unfold st_total, read_fully. destruct (s_chunks s) as [|c rest].
  { unfold merr. cbn [fst snd]. repeat split; try discriminate; try lia;
    destruct (s_final_eof s); discriminate. }
  rewrite len_concat_cons.
  destruct (N.ltb_spec (len c) 8).
  { unfold merr. cbn [fst snd]. repeat split; try discriminate; lia. }
  unfold mbind, lift. cbn [fst snd].
  rewrite uint_ok by (change (N.of_nat 8) with 8; lia). cbn [fst snd].
  rewrite from_ok by lia. cbn [fst snd].
  destruct (9223372036854775807 <? be_dec (firstn 8 c) mod 18446744073709551616).
  { unfold merr. cbn [fst snd]. repeat split; try discriminate; lia. }
  destruct (rf_collect rest (drop 8 c) (be_dec (firstn 8 c) mod 18446744073709551616)) as [acc full] eqn:E.
  apply rf_collect_spec in E as (E1 & E2 & E3). rewrite len_drop in E1.
  unfold alloc. cbn [fst snd].
  destruct full; unfold mret, merr; cbn [fst snd].
  - repeat split; try discriminate; lia.
  - repeat split; try discriminate; try lia; destruct (s_final_eof s); discriminate.
Qed.

(* ---------------- the code as found: witnesses ---------------- *)
Definition st_witness_neg : strm := {| s_chunks := [[128; 0; 0; 0; 0; 0; 0; 0]]; s_final_eof := true |}.
Definition st_witness_big : strm := {| s_chunks := [[0; 0; 0; 0; 16; 0; 0; 0; 1; 2; 3; 4]]; s_final_eof := true |}.

(* one chunk of 8 bytes announcing a message length with the top bit set crashes every receiver
   built on msgReceiver.Read (here: the first Read, and the key of a key/value stream) *)
Theorem mr_read_refuted :
  exists s, len (concat (s_chunks s)) = 8 /\
    fst (mr_read false 8 (mr_new s)) = Panic /\ fst (kv_next false 8 (mr_new s)) = Panic.
Proof. exists st_witness_neg. vm_compute. repeat split. Qed.
Example mr_read_witness_fixed :
  fst (mr_read true 8 (mr_new st_witness_neg)) = Err ESInvalidLength.
Proof. vm_compute. reflexivity. Qed.

(* ReadFully as found: the same chunk panics; a 12-byte chunk announcing 256 MiB makes it allocate
   256 MiB before it reports that the stream ended early *)
Theorem read_fully_refuted :
  fst (read_fully false st_witness_neg) = Panic /\
  (exists s, len (concat (s_chunks s)) = 12 /\ 268435456 <= snd (read_fully false s) /\
             is_ok (fst (read_fully false s)) = false).
Proof. split; [vm_compute; reflexivity|]. exists st_witness_big. vm_compute. repeat split; discriminate. Qed.
Example read_fully_witness_fixed :
  fst (read_fully true st_witness_neg) = Err ESInvalidLength /\ snd (read_fully true st_witness_big) = 4.
Proof. vm_compute. split; reflexivity. Qed.

(* what remains true of the code as found: it terminates and stays within the same memory bound;
   only the panic is possible (st_total false) *)

(* fresh receivers: every stream, i.e. every byte string and every way of chunking it *)
Corollary stream_fresh_total fixed bs s :
  bs <= 281474976710656 ->
  let L := len (concat (s_chunks s)) in
  st_total fixed (mr_read fixed bs (mr_new s)) (8 + bs) /\
  st_total fixed (kv_next fixed bs (mr_new s)) (2 * L + W bs) /\
  st_total fixed (z_next fixed bs (mr_new s)) (2 * L + 4 * W bs + 16) /\
  st_total fixed (ventry_next fixed bs (mr_new s)) (2 * L + 3 * W bs) /\
  st_total fixed (execall_next fixed bs (mr_new s)) ((L + 2) * W bs + 2 * L).
Proof.
  intros Hbs L. destruct (mr_new_inv s) as [HI HA]. unfold L. rewrite <- HA.
  repeat split.
  all: first [ apply mr_read_total | apply kv_next_total | apply z_next_total
             | apply ventry_next_total | apply execall_next_total ]; auto.
Qed.
