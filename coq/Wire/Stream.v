(* pkg/stream receivers, transliterated: receiver.go (msgReceiver.Read, ReadFully), kvparser.go
   (ReadValue), kvreceiver.go, zreceiver.go (+ NumberFromBytes), execall_receiver.go,
   ventryreceiver.go.
   The gRPC stream is a list of chunks (the Content of successive Recv() results) followed by
   io.EOF (final = true) or by another transport error (final = false).
   Message framing on the stream: 8-byte big-endian payload length, then the payload, messages
   concatenated and cut into chunks arbitrarily.
   `fixed` selects the code after fixes/C16-stream-message-length.diff. *)
From V Require Export Wire.Alloc Wire.Bufio Store.Codec.

Definition ESEOF : N := 20.          (* io.EOF *)
Definition ESTransport : N := 21.    (* error returned by Recv *)
Definition ESChunkTooSmall : N := 22.
Definition ESInvalidLength : N := 23.
Definition ESNotImplemented : N := 24.
Definition ESNumber : N := 25.       (* binary.Read: io.EOF / io.ErrUnexpectedEOF *)

(* int(binary.BigEndian.Uint64(b)) on a 64-bit platform *)
Definition to_int64 (v : N) : Z :=
  let w := v mod 18446744073709551616 in
  if w <? 9223372036854775808 then Z.of_N w else (Z.of_N w - 18446744073709551616)%Z.

(* runtime.makeslice: negative length or more than maxAlloc (2^48 on linux/amd64) elements panics
   "len out of range"; below that the runtime tries to get the memory *)
Definition makeslice_ok (n : Z) : bool := (0 <=? n)%Z && (n <=? 281474976710656)%Z.

(* ------------------------------------------------------------------ *)
(* the stream *)
Record strm := { s_chunks : list bytes; s_final_eof : bool }.

(* msgReceiver *)
Record mrecv := { mr_s : strm; mr_b : bytes; mr_eof : bool; mr_tl : Z; mr_sz : Z; mr_sent : bool }.

Definition mr_new (s : strm) : mrecv :=
  {| mr_s := s; mr_b := []; mr_eof := false; mr_tl := 0%Z; mr_sz := 0%Z; mr_sent := false |}.

(* bufferLoad: for r.b.Len() <= len(data) { chunk, err := Recv(); write; err: EOF -> eof, break }
   result: chunks left, buffer, reached end of stream? *)
Fixpoint buffer_load (chunks : list bytes) (b : bytes) (n : N) : list bytes * bytes * bool :=
  if n <? len b then (chunks, b, false) else
  match chunks with
  | [] => ([], b, true)
  | c :: r => buffer_load r (b ++ c) n
  end.

Definition mr_with (r : mrecv) chunks b eof tl sz sent : mrecv :=
  {| mr_s := {| s_chunks := chunks; s_final_eof := s_final_eof (mr_s r) |};
     mr_b := b; mr_eof := eof; mr_tl := tl; mr_sz := sz; mr_sent := sent |}.

(* msgReceiver.Read(data) with len(data) = n.  io.EOF is an ordinary outcome of this reader (its
   callers go on after it), so it is a value that carries the state the call leaves behind;
   RD d = "len d bytes copied into data[0:], nil error" (d = [] is the "0, nil" result). *)
Inductive rdres := RD (d : bytes) | REOF.

Fixpoint mr_read_loop (fixed : bool) (fuel : nat) (n : N) (r : mrecv) : M (rdres * mrecv) :=
  match fuel with
  | O => merr EFuel
  | S f =>
    let '(chunks, b, hit) := buffer_load (s_chunks (mr_s r)) (mr_b r) n in
    if hit && negb (s_final_eof (mr_s r)) then merr ESTransport else
    let eof := mr_eof r || hit in
    let sz := mr_sz r in
    (* trailer (message length) initialization *)
    dom tb <-
      (if (mr_tl r =? 0)%Z then
         dom _ <- alloc 8;                                 (* trailer := make([]byte, 8) *)
         if len b =? 0 then mret None else                 (* bytes.Buffer.Read on an empty buffer: io.EOF *)
         let trailer := takeN 8 b ++ repeat 0 (N.to_nat (8 - N.min 8 (len b))) in   (* short read: zeroes stay *)
         let u := be_dec trailer mod 18446744073709551616 in
         if fixed && (9223372036854775807 <? u) then merr ESInvalidLength else
         mret (Some (to_int64 u, dropN 8 b))
       else mret (Some (mr_tl r, b)));
    match tb with
    | None => mret (REOF, mr_with r chunks b eof (mr_tl r) sz false)
    | Some (tl, b) =>
      if eof && (Z.of_N (len b) <? tl - sz)%Z then mret (REOF, mr_with r chunks b eof tl sz false) else
      if (tl - sz <=? Z.of_N n)%Z then
        (* (msgInFirstChunk || lastRead) && !lastMessageSizeTooBig  ==  tl - s <= len(data) *)
        let lms := (tl - sz)%Z in
        if negb (makeslice_ok lms) then (Panic, 0) else       (* lmsg := make([]byte, lastMessageSize) *)
        let m := Z.to_N lms in
        dom _ <- alloc m;
        if (len b =? 0) && negb (m =? 0) then                 (* r.b.Read(lmsg) on an empty buffer: io.EOF *)
          mret (REOF, mr_with r chunks b eof tl sz false)
        else
          (* short read possible: lmsg keeps zeroes behind what was buffered; n := copy(data, lmsg) *)
          let d := takeN m b ++ repeat 0 (N.to_nat (m - N.min m (len b))) in
          mret (RD d, mr_with r chunks (dropN m b) eof 0%Z 0%Z true)
      else if n <? len b then
        (* n, err := r.b.Read(data); r.s += n *)
        mret (RD (takeN n b), mr_with r chunks (dropN n b) eof tl (sz + Z.of_N n)%Z false)
      else
        mr_read_loop fixed f n (mr_with r chunks b eof tl sz false)
    end
  end.

Definition mr_fuel (r : mrecv) : nat := S (S (length (s_chunks (mr_s r)))).

Definition mr_read (fixed : bool) (n : N) (r : mrecv) : M (rdres * mrecv) :=
  if mr_sent r then
    mret (RD [], mr_with r (s_chunks (mr_s r)) (mr_b r) (mr_eof r) (mr_tl r) (mr_sz r) false)
  else if mr_eof r && (len (mr_b r) =? 0) then mret (REOF, r)
  else mr_read_loop fixed (mr_fuel r) n r.

(* ------------------------------------------------------------------ *)
(* ReadValue(vr, bufferSize): the chunk buffer is written WHOLE into b after every Read (also the
   bytes a shorter Read did not overwrite); value = first vl bytes of b.
   Result None = (nil, io.EOF): nothing was read. *)
Definition overwrite (d old : bytes) : bytes := d ++ dropN (len d) old.

Fixpoint read_value_loop (fixed : bool) (fuel : nat) (bs : N) (r : mrecv) (chunk acc : bytes) (vl : N)
  : M (bytes * N * mrecv) :=
  match fuel with
  | O => merr EFuel
  | S f =>
    dom x <- mr_read fixed bs r;
    dom _ <- alloc bs;                                       (* b.Write(chunk) *)
    match x with
    | (REOF, r') => mret (acc ++ chunk, vl, r')              (* err == io.EOF: break *)
    | (RD d, r') =>
        let chunk' := overwrite d chunk in
        if len d =? 0 then mret (acc ++ chunk', vl, r')      (* l == 0: break *)
        else read_value_loop fixed f bs r' chunk' (acc ++ chunk') (vl + len d)
    end
  end.

(* bytes still to come: buffered + in the chunks *)
Definition mr_avail (r : mrecv) : N := len (mr_b r) + len (concat (s_chunks (mr_s r))).
Definition rv_fuel (r : mrecv) : nat := S (S (N.to_nat (mr_avail r))).

Definition read_value (fixed : bool) (bs : N) (r : mrecv) : M (option bytes * mrecv) :=
  dom _ <- alloc bs;                                         (* chunk := make([]byte, bufferSize) *)
  dom x <- read_value_loop fixed (rv_fuel r) bs r (repeat 0 (N.to_nat bs)) [] 0;
  let '(acc, vl, r') := x in
  if vl =? 0 then mret (None, r') else                       (* eof && vl == 0: nil, io.EOF *)
  dom _ <- alloc vl;                                         (* value = make([]byte, vl) *)
  mret (Some (takeN vl acc), r').

(* callers that stop at io.EOF *)
Definition read_value_e (fixed : bool) (bs : N) (r : mrecv) : M (bytes * mrecv) :=
  dom x <- read_value fixed bs r;
  match x with (Some v, r') => mret (v, r') | (None, _) => merr ESEOF end.

(* ------------------------------------------------------------------ *)
(* kvStreamReceiver.Next: the key (the value is read by the caller with ReadValue) *)
Definition kv_next (fixed : bool) (bs : N) (r : mrecv) : M (bytes * mrecv) := read_value_e fixed bs r.

(* NumberFromBytes(bs, &x) for an 8-byte number: binary.Read needs 8 bytes *)
Definition number_from (b : bytes) : M N :=
  dom _ <- alloc 8;
  if len b <? 8 then merr ESNumber else mret (be_dec (takeN 8 b) mod 18446744073709551616).

(* zStreamReceiver.Next: set, key, score bits, atTx *)
Definition z_next (fixed : bool) (bs : N) (r : mrecv) : M (bytes * bytes * N * N * mrecv) :=
  dom x <- read_value_e fixed bs r; let '(set, r) := x in
  dom x <- read_value_e fixed bs r; let '(key, r) := x in
  dom x <- read_value_e fixed bs r; let '(sc, r) := x in
  dom x <- read_value_e fixed bs r; let '(tx, r) := x in
  dom score <- number_from sc;
  dom attx <- number_from tx;
  mret (set, key, score, attx, r).

(* vEntryStreamReceiver.Next: three values *)
Definition ventry_next (fixed : bool) (bs : N) (r : mrecv) : M (bytes * bytes * bytes * mrecv) :=
  dom x <- read_value_e fixed bs r; let '(a, r) := x in
  dom x <- read_value_e fixed bs r; let '(b, r) := x in
  dom x <- read_value_e fixed bs r; let '(c, r) := x in
  mret (a, b, c, r).

(* state after msgReceiver.Read(data of n bytes) returned the invalid-length error: bufferLoad done,
   trailer consumed, r.tl still 0 *)
Definition mr_skip_trailer (n : N) (r : mrecv) : mrecv :=
  let '(chunks, b, hit) := buffer_load (s_chunks (mr_s r)) (mr_b r) n in
  mr_with r chunks (dropN 8 b) (mr_eof r || hit) (mr_tl r) (mr_sz r) false.

(* execAllStreamReceiver.Next *)
(* EZAdd raw dropped: the body (None: ReadValue gave none) and the class of the error ReadValue
   returned and the receiver dropped, if any *)
Inductive eaop := EKv (key : bytes) | EZAdd (raw : option bytes) (dropped : option N).

Fixpoint execall_next_loop (fixed : bool) (fuel : nat) (bs : N) (r : mrecv) : M (eaop * mrecv) :=
  match fuel with
  | O => merr EFuel
  | S f =>
    dom x <- read_value_e fixed bs r; let '(t, r) := x in
    dom t0 <- lift (at_ t 0);                                 (* t[0] *)
    if t0 =? 1 then
      dom y <- kv_next fixed bs r; let '(key, r) := y in mret (EKv key, r)
    else if t0 =? 2 then
      (* zaddm, err := ReadValue(...); err = proto.Unmarshal(zaddm, zr): the first error is dropped *)
      let m := read_value fixed bs r in
      match fst m with
      | Ok (raw, r') => (Ok (EZAdd raw None, r'), snd m)
      | Err e =>
          (* the dropped error leaves the receiver where the failed ReadValue left it. The length check
             fails in the first Read of a value, after the buffer was loaded and the 8 trailer bytes
             were taken from it; a transport error repeats itself whatever the state *)
          (Ok (EZAdd None (Some e), if e =? ESInvalidLength then mr_skip_trailer bs r else r), snd m)
      | Panic => (Panic, snd m)
      end
    else if t0 =? 4 then merr ESNotImplemented
    else execall_next_loop fixed f bs r
  end.

Definition execall_next (fixed : bool) (bs : N) (r : mrecv) : M (eaop * mrecv) :=
  execall_next_loop fixed (rv_fuel r) bs r.

(* ------------------------------------------------------------------ *)
(* msgReceiver.ReadFully *)
(* code as found: b := make([]byte, msgSize) first; chunks are copied in while read < msgSize *)
Fixpoint rf_collect (chunks : list bytes) (acc : bytes) (msz : N) : bytes * bool :=
  if msz <=? len acc then (acc, true) else
  match chunks with
  | [] => (acc, false)
  | c :: r => rf_collect r (acc ++ c) msz
  end.

Definition read_fully (fixed : bool) (s : strm) : M bytes :=
  match s_chunks s with
  | [] => merr (if s_final_eof s then ESEOF else ESTransport)
  | c :: rest =>
    if len c <? 8 then merr ESChunkTooSmall else
    dom h <- lift (uint_ 8 c);
    dom first <- lift (from_ c 8);
    if fixed then
      if 9223372036854775807 <? h mod 18446744073709551616 then merr ESInvalidLength else
      let msz := h mod 18446744073709551616 in
      (* b := make([]byte, 0, min(msgSize, len(first))); b = append(b, ...) for every chunk *)
      let '(acc, full) := rf_collect rest first msz in
      dom _ <- alloc (len acc);
      if full then mret (takeN msz acc)
      else merr (if s_final_eof s then ESEOF else ESTransport)
    else
      let msz := to_int64 h in
      if negb (makeslice_ok msz) then (Panic, 0) else        (* b := make([]byte, msgSize) *)
      dom _ <- alloc (Z.to_N msz);
      let '(acc, full) := rf_collect rest first (Z.to_N msz) in
      if full then mret (takeN (Z.to_N msz) acc)
      else merr (if s_final_eof s then ESEOF else ESTransport)
  end.
