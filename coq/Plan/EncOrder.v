(* C11 proofs, part 1: the key encoding of nullable integers preserves the engine's value order
   (NULL first), also through concatenation (the encodings are prefix-free). *)
From V Require Import Plan.Model.
From Coq Require Import ZifyN ZifyNat ZifyBool.

(* ---- the value order ---- *)
Lemma sv_cmp_refl x : sv_cmp x x = Eq.
Proof. destruct x; simpl; auto. apply Z.compare_refl. Qed.

Lemma sv_cmp_antisym x y : sv_cmp y x = CompOpp (sv_cmp x y).
Proof. destruct x, y; simpl; auto. apply Z.compare_antisym. Qed.

Lemma sv_cmp_eq x y : sv_cmp x y = Eq -> x = y.
Proof. destruct x, y; simpl; try discriminate; auto. intros H; apply Z.compare_eq in H; congruence. Qed.

Definition sv_le (x y : sval) : bool := match sv_cmp x y with Gt => false | _ => true end.

Lemma sv_le_refl x : sv_le x x = true.
Proof. unfold sv_le; rewrite sv_cmp_refl; auto. Qed.

Lemma sv_le_trans x y z : sv_le x y = true -> sv_le y z = true -> sv_le x z = true.
Proof.
  unfold sv_le. destruct x as [a|], y as [b|], z as [c|]; simpl; auto; try discriminate.
  destruct (Z.compare_spec a b), (Z.compare_spec b c), (Z.compare_spec a c); auto; try discriminate; lia.
Qed.

Lemma sv_le_antisym x y : sv_le x y = true -> sv_le y x = true -> x = y.
Proof.
  unfold sv_le. rewrite (sv_cmp_antisym x y).
  destruct (sv_cmp x y) eqn:E; simpl; try discriminate.
  intros _ _. apply sv_cmp_eq; auto.
Qed.

Lemma sv_le_total x y : sv_le x y = true \/ sv_le y x = true.
Proof. unfold sv_le. rewrite (sv_cmp_antisym x y). destruct (sv_cmp x y); simpl; auto. Qed.

(* ---- lexicographic order of tuples of values (the SQL order of an index's columns) ---- *)
Fixpoint tup_cmp (xs ys : list sval) : comparison :=
  match xs, ys with
  | [], [] => Eq
  | [], _ :: _ => Lt
  | _ :: _, [] => Gt
  | x :: xs', y :: ys' => match sv_cmp x y with Eq => tup_cmp xs' ys' | c => c end
  end.

Lemma tup_cmp_refl xs : tup_cmp xs xs = Eq.
Proof. induction xs; simpl; auto. rewrite sv_cmp_refl; auto. Qed.

Lemma tup_cmp_antisym xs ys : tup_cmp ys xs = CompOpp (tup_cmp xs ys).
Proof.
  revert ys; induction xs as [|x xs IH]; intros [|y ys]; simpl; auto.
  rewrite (sv_cmp_antisym x y). destruct (sv_cmp x y); simpl; auto.
Qed.

Lemma tup_cmp_app xs ys xs' ys' :
  length xs = length ys ->
  tup_cmp (xs ++ xs') (ys ++ ys') = match tup_cmp xs ys with Eq => tup_cmp xs' ys' | c => c end.
Proof.
  revert ys; induction xs as [|x xs IH]; intros [|y ys] H; simpl in *; try discriminate; auto.
  destruct (sv_cmp x y); auto.
Qed.

(* ---- encoding ---- *)
Lemma int64_bias z : int64_ok z = true -> ((z + 2 ^ 63) mod 2 ^ 64 = z + 2 ^ 63)%Z.
Proof.
  unfold int64_ok. intros H. apply andb_prop in H as [H1 H2].
  apply Z.leb_le in H1. apply Z.ltb_lt in H2.
  apply Z.mod_small.
  assert (E : (2 ^ 64 = 2 ^ 63 + 2 ^ 63)%Z) by reflexivity.
  rewrite E. lia.
Qed.

Definition bias (z : Z) : N := Z.to_N ((z + 2 ^ 63) mod 2 ^ 64)%Z.

Lemma bias_lt z : bias z < 256 ^ N.of_nat 8.
Proof.
  unfold bias.
  assert (H : (0 <= (z + 2 ^ 63) mod 2 ^ 64 < 2 ^ 64)%Z) by (apply Z.mod_pos_bound; reflexivity).
  assert (E : 256 ^ N.of_nat 8 = Z.to_N (2 ^ 64)%Z) by reflexivity.
  rewrite E. destruct H as [H1 H2]. apply Z2N.inj_lt; [exact H1 | discriminate | exact H2].
Qed.

Lemma bias_compare x y :
  int64_ok x = true -> int64_ok y = true -> N.compare (bias x) (bias y) = Z.compare x y.
Proof.
  intros Hx Hy. unfold bias. rewrite (int64_bias _ Hx), (int64_bias _ Hy).
  unfold int64_ok in *. apply andb_prop in Hx as [Hx1 Hx2]. apply andb_prop in Hy as [Hy1 Hy2].
  apply Z.leb_le in Hx1, Hy1.
  generalize dependent (2 ^ 63)%Z. intros p Hx1 Hx2 Hy1 Hy2.
  rewrite Z2N.inj_compare by lia.
  destruct (Z.compare_spec x y); [apply Z.compare_eq_iff | apply Z.compare_lt_iff | apply Z.compare_gt_iff]; lia.
Qed.

Lemma enc_int_cmp x y r1 r2 :
  int64_ok x = true -> int64_ok y = true ->
  bcmp (enc_int x ++ r1) (enc_int y ++ r2) =
  match Z.compare x y with Eq => bcmp r1 r2 | c => c end.
Proof.
  intros Hx Hy. unfold enc_int. fold (bias x). fold (bias y).
  rewrite <- !app_comm_cons. cbn [bcmp]. rewrite N.compare_refl.
  rewrite bcmp_app_eqlen by (rewrite !be_enc_length; reflexivity).
  rewrite bcmp_be_enc by apply bias_lt.
  rewrite bias_compare by assumption. reflexivity.
Qed.

Lemma enc_sval_cmp x y r1 r2 :
  sval_ok x = true -> sval_ok y = true ->
  bcmp (enc_sval x ++ r1) (enc_sval y ++ r2) =
  match sv_cmp x y with Eq => bcmp r1 r2 | c => c end.
Proof.
  intros Hx Hy. destruct x as [a|], y as [b|]; simpl sv_cmp.
  - apply enc_int_cmp; assumption.
  - reflexivity.
  - reflexivity.
  - reflexivity.
Qed.

(* first byte of an encoded value is below the 0xFF upper bound *)
Lemma enc_sval_head v : exists h t, enc_sval v = h :: t /\ h < KeyValPrefixUpperBound.
Proof.
  destruct v; simpl.
  - unfold enc_int. eexists; eexists; split; [reflexivity|]. reflexivity.
  - eexists; eexists; split; [reflexivity|]. reflexivity.
Qed.

Lemma enc_tuple_cmp xs ys r1 r2 :
  length xs = length ys ->
  forallb sval_ok xs = true -> forallb sval_ok ys = true ->
  bcmp (concat (map enc_sval xs) ++ r1) (concat (map enc_sval ys) ++ r2) =
  match tup_cmp xs ys with Eq => bcmp r1 r2 | c => c end.
Proof.
  revert ys; induction xs as [|x xs IH]; intros [|y ys] HL Hx Hy; simpl in HL; try discriminate.
  - reflexivity.
  - cbn [map concat tup_cmp]. rewrite <- !app_assoc.
    cbn [forallb] in Hx, Hy. apply andb_prop in Hx as [Hx1 Hx2]. apply andb_prop in Hy as [Hy1 Hy2].
    rewrite enc_sval_cmp by assumption.
    destruct (sv_cmp x y); auto.
Qed.

(* ---- mapped keys ---- *)
Definition col_vals (cs : list col) (r : row) : list sval := map (fun c => getcol c r) cs.
(* the SQL sort key of a row inside an index: its column values, then the primary key *)
Definition ix_tuple (cs : list col) (r : row) : list sval := col_vals cs r ++ [Some (r_id r)].

Lemma enc_cols_vals cs r : enc_cols cs r = concat (map enc_sval (col_vals cs r)).
Proof. unfold enc_cols, col_vals. rewrite map_map. reflexivity. Qed.

Lemma getcol_ok c r : row_ok r = true -> sval_ok (getcol c r) = true.
Proof.
  unfold row_ok. intros H. apply andb_prop in H as [H H3]. apply andb_prop in H as [H1 H2].
  destruct c; simpl; auto.
Qed.

Lemma col_vals_ok cs r : row_ok r = true -> forallb sval_ok (col_vals cs r) = true.
Proof.
  intros H. unfold col_vals. induction cs; simpl; auto. rewrite getcol_ok by assumption. auto.
Qed.

Lemma ix_tuple_ok cs r : row_ok r = true -> forallb sval_ok (ix_tuple cs r) = true.
Proof.
  intros H. unfold ix_tuple. rewrite forallb_app, col_vals_ok by assumption. simpl.
  pose proof (getcol_ok CId r H) as H1. simpl in H1. rewrite H1. reflexivity.
Qed.

Lemma mapped_key_tuple pfx cs r :
  mapped_key pfx cs r = pfx ++ concat (map enc_sval (ix_tuple cs r)).
Proof.
  unfold mapped_key, ix_tuple. rewrite enc_cols_vals, map_app, concat_app. cbn [map concat].
  rewrite app_nil_r. reflexivity.
Qed.

(* byte order of the mapped keys of one index = SQL order of (index columns, primary key) *)
Lemma mapped_key_cmp pfx cs r1 r2 :
  row_ok r1 = true -> row_ok r2 = true ->
  bcmp (mapped_key pfx cs r1) (mapped_key pfx cs r2) = tup_cmp (ix_tuple cs r1) (ix_tuple cs r2).
Proof.
  intros H1 H2. rewrite !mapped_key_tuple, bcmp_app_same.
  rewrite <- (app_nil_r (concat (map enc_sval (ix_tuple cs r1)))).
  rewrite <- (app_nil_r (concat (map enc_sval (ix_tuple cs r2)))).
  rewrite enc_tuple_cmp.
  - destruct (tup_cmp _ _); reflexivity.
  - unfold ix_tuple, col_vals. rewrite !app_length, !map_length. reflexivity.
  - apply ix_tuple_ok; assumption.
  - apply ix_tuple_ok; assumption.
Qed.

Lemma starts_with_app p k : starts_with p (p ++ k) = true.
Proof. induction p; simpl; auto. rewrite N.eqb_refl; auto. Qed.

Lemma mapped_key_prefix pfx cs r : starts_with pfx (mapped_key pfx cs r) = true.
Proof. unfold mapped_key. apply starts_with_app. Qed.
