(* C11 proofs, part 2: the per-column ranges derived from a WHERE clause (selectorRanges) are
   implied by it: every row satisfying the predicate has each ranged column inside its range. *)
From V Require Import Plan.Model Plan.EncOrder.

(* membership in a range with BOTH ends taken inclusive (this is how keyReaderSpecFrom uses
   ranges: InclusiveSeek/InclusiveEnd; exclusivity is left to the residual filter) *)
Definition in_range (rg : range) (v : sval) : bool :=
  (match lr rg with Some s => sv_le (sr_val s) v | None => true end) &&
  (match hr rg with Some s => sv_le v (sr_val s) | None => true end).

Definition ranges_sound (rs : ranges) (r : row) : Prop :=
  forall c rg, rs c = Some rg -> in_range rg (getcol c r) = true.

Lemma no_ranges_sound r : ranges_sound no_ranges r.
Proof. intros c rg H; discriminate. Qed.

Lemma max_semi_val a b : sr_val (max_semi a b) = sr_val a \/ sr_val (max_semi a b) = sr_val b.
Proof. unfold max_semi; simpl. destruct (sv_cmp _ _); auto. Qed.
Lemma min_semi_val a b : sr_val (min_semi a b) = sr_val a \/ sr_val (min_semi a b) = sr_val b.
Proof. unfold min_semi; simpl. destruct (sv_cmp _ _); auto. Qed.

Lemma min_semi_le a b :
  sv_le (sr_val (min_semi a b)) (sr_val a) = true /\ sv_le (sr_val (min_semi a b)) (sr_val b) = true.
Proof.
  unfold min_semi; simpl. destruct (sv_cmp (sr_val a) (sr_val b)) eqn:E.
  - split; [apply sv_le_refl | unfold sv_le; rewrite E; auto].
  - split; [apply sv_le_refl | unfold sv_le; rewrite E; auto].
  - split; [| apply sv_le_refl]. unfold sv_le. rewrite sv_cmp_antisym, E. reflexivity.
Qed.

Lemma max_semi_ge a b :
  sv_le (sr_val a) (sr_val (max_semi a b)) = true /\ sv_le (sr_val b) (sr_val (max_semi a b)) = true.
Proof.
  unfold max_semi; simpl. destruct (sv_cmp (sr_val a) (sr_val b)) eqn:E.
  - split; [apply sv_le_refl |]. unfold sv_le. rewrite sv_cmp_antisym, E. reflexivity.
  - split; [unfold sv_le; rewrite E; auto | apply sv_le_refl].
  - split; [apply sv_le_refl |]. unfold sv_le. rewrite sv_cmp_antisym, E. reflexivity.
Qed.

Lemma refine_with_sound r n v :
  in_range r v = true -> in_range n v = true -> in_range (refine_with r n) v = true.
Proof.
  unfold in_range, refine_with. intros H1 H2.
  apply andb_prop in H1 as [L1 U1]. apply andb_prop in H2 as [L2 U2]. cbn [lr hr].
  apply andb_true_intro; split.
  - destruct (lr r) as [a|]; [destruct (lr n) as [b|]|]; auto.
    destruct (max_semi_val a b) as [E|E]; rewrite E; auto.
  - destruct (hr r) as [a|]; [destruct (hr n) as [b|]|]; auto.
    destruct (min_semi_val a b) as [E|E]; rewrite E; auto.
Qed.

Lemma extend_with_sound r e v :
  in_range r v = true \/ in_range e v = true -> in_range (extend_with r e) v = true.
Proof.
  unfold in_range, extend_with. cbn [lr hr].
  destruct (lr r) as [a|], (lr e) as [b|], (hr r) as [a'|], (hr e) as [b'|]; intros H;
    apply andb_true_intro; split; auto.
  all: try (destruct (min_semi_le a b) as [Ha Hb]).
  all: try (destruct (max_semi_ge a' b') as [Ha' Hb']).
  all: destruct H as [H|H]; apply andb_prop in H as [L U];
    first [exact (sv_le_trans _ _ _ Ha L) | exact (sv_le_trans _ _ _ Hb L) | exact (sv_le_trans _ _ _ U Ha') | exact (sv_le_trans _ _ _ U Hb')].
Qed.

Lemma new_range_sound op v x nr :
  cmp_sat (sv_cmp x v) op = true -> new_range op v = Some nr -> in_range nr x = true.
Proof.
  intros Hs Hn. pose proof (sv_cmp_antisym x v) as An.
  destruct op; simpl in Hn; inversion Hn; subst; clear Hn;
    unfold in_range, sv_le; cbn [lr hr sr_val]; rewrite ?An;
    destruct (sv_cmp x v); simpl in *; auto; discriminate.
Qed.

Lemma col_eqb_eq a b : col_eqb a b = true <-> a = b.
Proof. destruct a, b; simpl; split; intros; auto; discriminate. Qed.
Lemma col_eqb_refl a : col_eqb a a = true.
Proof. destruct a; auto. Qed.

Lemma set_range_sound rs c rg r :
  ranges_sound rs r -> in_range rg (getcol c r) = true -> ranges_sound (set_range rs c rg) r.
Proof.
  intros H1 H2 x g. unfold set_range. destruct (col_eqb x c) eqn:E.
  - apply col_eqb_eq in E; subst. intros Hg; inversion Hg; subst; auto.
  - apply H1.
Qed.

Lemma update_range_for_sound c v op rs r :
  cmp_sat (sv_cmp (getcol c r) v) op = true -> ranges_sound rs r ->
  ranges_sound (update_range_for c v op rs) r.
Proof.
  intros Hs Hr. unfold update_range_for.
  destruct (new_range op v) as [nr|] eqn:En; auto.
  pose proof (new_range_sound _ _ _ _ Hs En) as Hn.
  destruct (rs c) as [cur|] eqn:Ec.
  - apply set_range_sound; auto. apply refine_with_sound; auto.
  - apply set_range_sound; auto.
Qed.

Lemma in_minmax_spec vs : forall mn mx mn' mx',
  in_minmax vs mn mx = (mn', mx') ->
  sv_le mn' mn = true /\ sv_le mx mx' = true /\
  (forall v, In v vs -> sv_le mn' v = true /\ sv_le v mx' = true).
Proof.
  induction vs as [|v vs IH]; intros mn mx mn' mx' H; cbn [in_minmax] in H.
  - inversion H; subst. repeat split; try apply sv_le_refl; destruct H0.
  - apply IH in H as (H1 & H2 & H3).
    assert (A : sv_le (match sv_cmp v mn with Lt => v | _ => mn end) mn = true /\
                sv_le (match sv_cmp v mn with Lt => v | _ => mn end) v = true).
    { destruct (sv_cmp v mn) eqn:E; split; try apply sv_le_refl;
        unfold sv_le; try rewrite E; auto; rewrite sv_cmp_antisym, E; auto. }
    assert (B : sv_le mx (match sv_cmp v mx with Gt => v | _ => mx end) = true /\
                sv_le v (match sv_cmp v mx with Gt => v | _ => mx end) = true).
    { destruct (sv_cmp v mx) eqn:E; split; try apply sv_le_refl;
        unfold sv_le; try rewrite E; auto; rewrite sv_cmp_antisym, E; auto. }
    destruct A as [A1 A2], B as [B1 B2].
    split; [eapply sv_le_trans; eauto|]. split; [eapply sv_le_trans; eauto|].
    intros w [Hw|Hw].
    + subst w. split; eapply sv_le_trans; eauto.
    + apply H3; auto.
Qed.

(* the OR branch of BinBoolExp.selectorRanges, column by column *)
Lemma or_merge_spec (lrs rrs rs : ranges) x :
  fold_left (fun acc c =>
               match lrs c, rrs c with
               | Some a, Some b => set_range acc c (extend_with a b)
               | _, _ => acc
               end) all_cols rs x =
  match lrs x, rrs x with
  | Some a, Some b => Some (extend_with a b)
  | _, _ => rs x
  end.
Proof.
  unfold all_cols. cbn [fold_left]. unfold set_range.
  destruct x; destruct (lrs CId), (rrs CId), (lrs CA), (rrs CA), (lrs CB), (rrs CB); reflexivity.
Qed.

Lemma sv_cmp_eq_le x y : is_eq (sv_cmp x y) = true -> sv_le x y = true /\ sv_le y x = true.
Proof.
  unfold is_eq, sv_le. rewrite (sv_cmp_antisym x y). destruct (sv_cmp x y); simpl; auto; discriminate.
Qed.

Theorem sel_ranges_sound p : forall rs r,
  eval p r = true -> ranges_sound rs r -> ranges_sound (sel_ranges p rs) r.
Proof.
  induction p as [|c op v|v op c|l IHl q IHq|l IHl q IHq|q IHq|neg c vs|neg q IHq];
    intros rs r He Hr; cbn [sel_ranges]; auto.
  - (* col op const *) apply update_range_for_sound; auto.
  - (* AND *) cbn [eval] in He. destruct (eval l r) eqn:El; try discriminate. auto.
  - (* OR *) cbn [eval] in He. intros x g. rewrite or_merge_spec.
    destruct (sel_ranges l no_ranges x) as [a|] eqn:Ea; [|apply Hr].
    destruct (sel_ranges q no_ranges x) as [b|] eqn:Eb; [|apply Hr].
    intros Hg; inversion Hg; subst; clear Hg. apply extend_with_sound.
    destruct (eval l r) eqn:El.
    + left. apply (IHl no_ranges r El (no_ranges_sound r) x a Ea).
    + right. apply (IHq no_ranges r He (no_ranges_sound r) x b Eb).
  - (* IN *) destruct neg; auto. destruct vs as [|v vs]; auto.
    destruct (in_minmax vs v v) as [mn mx] eqn:Em.
    cbn [eval] in He.
    destruct (existsb (fun v0 => is_eq (sv_cmp (getcol c r) v0)) (v :: vs)) eqn:Ex; [|discriminate].
    apply existsb_exists in Ex as (w & Hw & Heq).
    apply sv_cmp_eq_le in Heq as [Le1 Le2].
    apply in_minmax_spec in Em as (M1 & M2 & M3).
    assert (Hb : sv_le mn w = true /\ sv_le w mx = true).
    { destruct Hw as [Hw|Hw]; [subst w; split; auto | apply M3; auto]. }
    destruct Hb as [Hb1 Hb2].
    apply update_range_for_sound; [|apply update_range_for_sound; auto].
    + (* <= max *) assert (T : sv_le (getcol c r) mx = true) by (eapply sv_le_trans; eauto).
      unfold sv_le in T. destruct (sv_cmp (getcol c r) mx); simpl; auto; discriminate.
    + (* >= min *) assert (T : sv_le mn (getcol c r) = true) by (eapply sv_le_trans; eauto).
      unfold sv_le in T. rewrite sv_cmp_antisym in T.
      destruct (sv_cmp (getcol c r) mn); simpl in *; auto; discriminate.
Qed.

(* a unitary range pins the column to one value on every row satisfying the predicate *)
Lemma unitary_fixes rg v :
  unitary rg = true -> in_range rg v = true ->
  exists l, lr rg = Some l /\ v = sr_val l.
Proof.
  unfold unitary, in_range. destruct (lr rg) as [l|]; [|discriminate].
  destruct (hr rg) as [h|]; [|discriminate]. intros Hu Hi.
  apply andb_prop in Hu as [Hu _]. apply andb_prop in Hu as [Hu _].
  apply andb_prop in Hi as [H1 H2].
  exists l; split; auto.
  apply sv_le_antisym; auto.
  unfold is_eq in Hu. destruct (sv_cmp (sr_val l) (sr_val h)) eqn:E; try discriminate.
  apply sv_cmp_eq in E. rewrite E. auto.
Qed.
