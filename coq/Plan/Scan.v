(* C11 proofs, part 3: keyReaderSpecFrom bounds contain the key of every satisfying row; the
   range scan over the sorted index equals a filter; an index scan followed by the residual
   filter returns the rows of the table that satisfy the predicate, in index order. *)
From V Require Import Plan.Model Plan.EncOrder Plan.Ranges.
From Coq Require Import Sorting.Sorted Sorting.Permutation.

(* ------------------------------------------------------------------ well-formed constants *)
Definition range_ok (rg : range) : bool :=
  (match lr rg with Some s => sval_ok (sr_val s) | None => true end) &&
  (match hr rg with Some s => sval_ok (sr_val s) | None => true end).
Definition ranges_ok (rs : ranges) : Prop := forall c rg, rs c = Some rg -> range_ok rg = true.

Lemma no_ranges_ok : ranges_ok no_ranges.
Proof. intros c rg H; discriminate. Qed.

Lemma refine_with_ok r n : range_ok r = true -> range_ok n = true -> range_ok (refine_with r n) = true.
Proof.
  unfold range_ok, refine_with. cbn [lr hr]. intros H1 H2.
  apply andb_prop in H1 as [L1 U1]. apply andb_prop in H2 as [L2 U2].
  apply andb_true_intro; split.
  - destruct (lr r) as [a|]; [destruct (lr n) as [b|]|]; auto.
    destruct (max_semi_val a b) as [E|E]; rewrite E; auto.
  - destruct (hr r) as [a|]; [destruct (hr n) as [b|]|]; auto.
    destruct (min_semi_val a b) as [E|E]; rewrite E; auto.
Qed.

Lemma extend_with_ok r e : range_ok r = true -> range_ok e = true -> range_ok (extend_with r e) = true.
Proof.
  unfold range_ok, extend_with. cbn [lr hr]. intros H1 H2.
  apply andb_prop in H1 as [L1 U1]. apply andb_prop in H2 as [L2 U2].
  apply andb_true_intro; split.
  - destruct (lr r) as [a|]; [destruct (lr e) as [b|]|]; auto.
    destruct (min_semi_val a b) as [E|E]; rewrite E; auto.
  - destruct (hr r) as [a|]; [destruct (hr e) as [b|]|]; auto.
    destruct (max_semi_val a b) as [E|E]; rewrite E; auto.
Qed.

Lemma set_range_ok rs c rg : ranges_ok rs -> range_ok rg = true -> ranges_ok (set_range rs c rg).
Proof.
  intros H1 H2 x g. unfold set_range. destruct (col_eqb x c).
  - intros Hg; inversion Hg; subst; auto.
  - apply H1.
Qed.

Lemma update_range_for_ok c v op rs :
  sval_ok v = true -> ranges_ok rs -> ranges_ok (update_range_for c v op rs).
Proof.
  intros Hv Hr. unfold update_range_for.
  destruct (new_range op v) as [nr|] eqn:En; auto.
  assert (Hn : range_ok nr = true).
  { destruct op; simpl in En; inversion En; subst; unfold range_ok; cbn [lr hr sr_val];
      rewrite ?Hv; reflexivity. }
  destruct (rs c) as [cur|] eqn:Ec.
  - apply set_range_ok; auto. apply refine_with_ok; auto. apply (Hr c); auto.
  - apply set_range_ok; auto.
Qed.

Lemma in_minmax_in vs : forall mn mx mn' mx',
  in_minmax vs mn mx = (mn', mx') -> In mn' (mn :: vs) /\ In mx' (mx :: vs).
Proof.
  induction vs as [|v vs IH]; intros mn mx mn' mx' H; cbn [in_minmax] in H.
  - inversion H; subst. split; left; auto.
  - apply IH in H as [H1 H2]. split.
    + destruct H1 as [H1|H1]; [|right; right; auto].
      destruct (sv_cmp v mn); subst; simpl; auto.
    + destruct H2 as [H2|H2]; [|right; right; auto].
      destruct (sv_cmp v mx); subst; simpl; auto.
Qed.

Lemma sel_ranges_ok p : forall rs, pred_ok p = true -> ranges_ok rs -> ranges_ok (sel_ranges p rs).
Proof.
  induction p as [|c op v|v op c|l IHl q IHq|l IHl q IHq|q IHq|neg c vs|neg q IHq];
    intros rs Hp Hr; cbn [sel_ranges]; auto.
  - apply update_range_for_ok; auto.
  - cbn [pred_ok] in Hp. apply andb_prop in Hp as [H1 H2]. auto.
  - cbn [pred_ok] in Hp. apply andb_prop in Hp as [H1 H2].
    intros x g. rewrite or_merge_spec.
    destruct (sel_ranges l no_ranges x) as [a|] eqn:Ea; [|apply Hr].
    destruct (sel_ranges q no_ranges x) as [b|] eqn:Eb; [|apply Hr].
    intros Hg; inversion Hg; subst; clear Hg. apply extend_with_ok.
    + apply (IHl no_ranges H1 no_ranges_ok x a Ea).
    + apply (IHq no_ranges H2 no_ranges_ok x b Eb).
  - destruct neg; auto. destruct vs as [|v vs]; auto.
    destruct (in_minmax vs v v) as [mn mx] eqn:Em.
    apply in_minmax_in in Em as [M1 M2]. cbn [pred_ok] in Hp.
    rewrite forallb_forall in Hp.
    apply update_range_for_ok; [apply Hp; auto | apply update_range_for_ok; auto].
Qed.

(* ------------------------------------------------------------------ keyReaderSpecFrom *)
Fixpoint lo_suffix (cols : list col) (rs : ranges) : bytes :=
  match cols with
  | [] => []
  | c :: cs =>
      match rs c with
      | None => []
      | Some rg => match lr rg with
                   | None => []
                   | Some s => enc_sval (sr_val s) ++ lo_suffix cs rs
                   end
      end
  end.

Fixpoint hi_suffix (cols : list col) (rs : ranges) : bytes :=
  match cols with
  | [] => []
  | c :: cs =>
      match rs c with
      | None => []
      | Some rg => match hr rg with
                   | None => []
                   | Some s => enc_sval (sr_val s) ++ hi_suffix cs rs
                   end
      end
  end.

Lemma krs_loop_spec rs cols : forall lo hi loR hiR,
  krs_loop cols rs lo hi loR hiR =
  (lo ++ (if loR then [] else lo_suffix cols rs), hi ++ (if hiR then [] else hi_suffix cols rs)).
Proof.
  induction cols as [|c cs IH]; intros lo hi loR hiR; cbn [krs_loop lo_suffix hi_suffix].
  - destruct loR, hiR; rewrite !app_nil_r; reflexivity.
  - destruct (rs c) as [rg|].
    + destruct hiR, loR, (hr rg) as [h|], (lr rg) as [l|]; rewrite IH, ?app_nil_r, <- ?app_assoc; reflexivity.
    + destruct loR, hiR; rewrite !app_nil_r; reflexivity.
Qed.

Lemma key_reader_spec_eq pfx cols rs :
  key_reader_spec pfx cols rs =
  (pfx ++ lo_suffix cols rs, pfx ++ hi_suffix cols rs ++ [KeyValPrefixUpperBound]).
Proof.
  unfold key_reader_spec. rewrite krs_loop_spec. rewrite <- app_assoc. reflexivity.
Qed.

Lemma bcmp_nil_l b : bcmp [] b <> Gt.
Proof. destruct b; simpl; discriminate. Qed.

Lemma lo_suffix_le rs r cols rest :
  row_ok r = true -> ranges_ok rs -> ranges_sound rs r ->
  bcmp (lo_suffix cols rs) (enc_cols cols r ++ rest) <> Gt.
Proof.
  intros Hrow Hok Hs. induction cols as [|c cs IH]; cbn [lo_suffix].
  - apply bcmp_nil_l.
  - destruct (rs c) as [rg|] eqn:Ec; [|apply bcmp_nil_l].
    destruct (lr rg) as [s|] eqn:El; [|apply bcmp_nil_l].
    unfold enc_cols. cbn [map concat]. fold (enc_cols cs r). rewrite <- app_assoc.
    pose proof (Hok _ _ Ec) as Hrg. unfold range_ok in Hrg. rewrite El in Hrg.
    apply andb_prop in Hrg as [Hv _].
    rewrite enc_sval_cmp by (auto using getcol_ok).
    pose proof (Hs _ _ Ec) as Hin. unfold in_range in Hin. rewrite El in Hin.
    apply andb_prop in Hin as [Hle _]. unfold sv_le in Hle.
    destruct (sv_cmp (sr_val s) (getcol c r)); try discriminate; auto.
Qed.

Lemma bcmp_head_lt h t : h < KeyValPrefixUpperBound -> bcmp (h :: t) [KeyValPrefixUpperBound] = Lt.
Proof. intros H. cbn [bcmp]. apply N.compare_lt_iff in H. rewrite H. reflexivity. Qed.

Lemma hi_suffix_ge rs r cols h t :
  row_ok r = true -> ranges_ok rs -> ranges_sound rs r -> h < KeyValPrefixUpperBound ->
  bcmp (enc_cols cols r ++ h :: t) (hi_suffix cols rs ++ [KeyValPrefixUpperBound]) <> Gt.
Proof.
  intros Hrow Hok Hs Hh. induction cols as [|c cs IH]; cbn [hi_suffix].
  - unfold enc_cols; cbn [map concat app]. rewrite bcmp_head_lt by assumption. discriminate.
  - assert (Stop : bcmp (enc_cols (c :: cs) r ++ h :: t) ([] ++ [KeyValPrefixUpperBound]) <> Gt).
    { unfold enc_cols. cbn [map concat]. rewrite <- app_assoc.
      destruct (enc_sval_head (getcol c r)) as (h0 & t0 & E0 & L0). rewrite E0.
      cbn [app]. rewrite bcmp_head_lt by assumption. discriminate. }
    destruct (rs c) as [rg|] eqn:Ec; [|exact Stop].
    destruct (hr rg) as [s|] eqn:Eh; [|exact Stop].
    unfold enc_cols. cbn [map concat]. fold (enc_cols cs r). rewrite <- !app_assoc.
    pose proof (Hok _ _ Ec) as Hrg. unfold range_ok in Hrg. rewrite Eh in Hrg.
    apply andb_prop in Hrg as [_ Hv].
    rewrite enc_sval_cmp by (auto using getcol_ok).
    pose proof (Hs _ _ Ec) as Hin. unfold in_range in Hin. rewrite Eh in Hin.
    apply andb_prop in Hin as [_ Hle]. unfold sv_le in Hle.
    destruct (sv_cmp (getcol c r) (sr_val s)); try discriminate; auto.
Qed.

(* keys of every row satisfying the ranges lie inside [loKey, hiKey] *)
Lemma key_in_bounds pfx cols rs r :
  row_ok r = true -> ranges_ok rs -> ranges_sound rs r ->
  key_le (fst (key_reader_spec pfx cols rs)) (mapped_key pfx cols r) = true /\
  key_le (mapped_key pfx cols r) (snd (key_reader_spec pfx cols rs)) = true.
Proof.
  intros Hrow Hok Hs. rewrite key_reader_spec_eq. cbn [fst snd]. unfold key_le, mapped_key.
  rewrite !bcmp_app_same. split.
  - pose proof (lo_suffix_le rs r cols (enc_sval (Some (r_id r))) Hrow Hok Hs) as H.
    destruct (bcmp _ _); auto; congruence.
  - destruct (enc_sval_head (Some (r_id r))) as (h & t & E & L). rewrite E.
    pose proof (hi_suffix_ge rs r cols h t Hrow Hok Hs L) as H.
    destruct (bcmp _ _); auto; congruence.
Qed.

Theorem scan_range_complete_lemma pfx cols p r :
  row_ok r = true -> pred_ok p = true -> eval p r = true ->
  let '(lo, hi) := key_reader_spec pfx cols (sel_ranges p no_ranges) in
  key_le lo (mapped_key pfx cols r) = true /\ key_le (mapped_key pfx cols r) hi = true.
Proof.
  intros Hrow Hp He.
  pose proof (key_in_bounds pfx cols (sel_ranges p no_ranges) r Hrow
                (sel_ranges_ok p no_ranges Hp no_ranges_ok)
                (sel_ranges_sound p no_ranges r He (no_ranges_sound r))) as H.
  destruct (key_reader_spec pfx cols (sel_ranges p no_ranges)) as [lo hi]. exact H.
Qed.

(* premises are satisfiable, and the bounds are not trivial *)
Example scan_range_complete_example :
  let r := mkRow 7 (Some 5%Z) None None in
  let p := PAnd (PCmp CA OLe (Some 5%Z)) (PCmp CA OGt (Some (-3)%Z)) in
  row_ok r = true /\ pred_ok p = true /\ eval p r = true /\
  fst (key_reader_spec [77] [CA] (sel_ranges p no_ranges)) <> [77].
Proof. vm_compute. repeat split; discriminate. Qed.

(* ------------------------------------------------------------------ key order facts *)
Lemma key_le_refl a : key_le a a = true.
Proof. unfold key_le; rewrite bcmp_refl; auto. Qed.

Lemma bcmp_gt_lt a b : bcmp a b = Gt -> bcmp b a = Lt.
Proof. intros H. rewrite bcmp_antisym, H. reflexivity. Qed.

Lemma key_le_trans a b c : key_le a b = true -> key_le b c = true -> key_le a c = true.
Proof.
  unfold key_le. destruct (bcmp a b) eqn:E1; try discriminate; intros _;
    destruct (bcmp b c) eqn:E2; try discriminate; intros _.
  - apply bcmp_eq in E1, E2. subst. rewrite bcmp_refl. auto.
  - apply bcmp_eq in E1. subst. rewrite E2. auto.
  - apply bcmp_eq in E2. subst. rewrite E1. auto.
  - rewrite (bcmp_trans_lt _ _ _ E1 E2). auto.
Qed.

Lemma key_le_total a b : key_le a b = false -> key_le b a = true.
Proof.
  unfold key_le. destruct (bcmp a b) eqn:E; try discriminate. intros _.
  rewrite (bcmp_gt_lt _ _ E). auto.
Qed.

(* ------------------------------------------------------------------ sorted lists and scans *)
Lemma filter_all_true {A} (f : A -> bool) l : (forall y, In y l -> f y = true) -> filter f l = l.
Proof.
  induction l as [|x l IH]; intros H; cbn [filter]; auto.
  rewrite (H x) by (left; auto). rewrite IH; auto. intros y Hy; apply H; right; auto.
Qed.

Lemma filter_all_false {A} (f : A -> bool) l : (forall y, In y l -> f y = false) -> filter f l = [].
Proof.
  induction l as [|x l IH]; intros H; cbn [filter]; auto.
  rewrite (H x) by (left; auto). apply IH. intros y Hy; apply H; right; auto.
Qed.

Lemma filter_filter {A} (f g : A -> bool) l :
  filter f (filter g l) = filter (fun x => g x && f x) l.
Proof.
  induction l as [|x l IH]; cbn [filter]; auto.
  destruct (g x); cbn [filter andb]; [destruct (f x)|]; rewrite IH; reflexivity.
Qed.

Lemma filter_rev {A} (f : A -> bool) l : filter f (rev l) = rev (filter f l).
Proof.
  induction l as [|x l IH]; cbn [rev filter]; auto.
  rewrite filter_app, IH. cbn [filter]. destruct (f x); cbn [rev]; auto. rewrite app_nil_r; auto.
Qed.

Lemma StronglySorted_filter {A} (R : A -> A -> Prop) (f : A -> bool) l :
  StronglySorted R l -> StronglySorted R (filter f l).
Proof.
  induction 1 as [|x l Hs IH Hx]; cbn [filter]; [constructor|].
  destruct (f x); auto. constructor; auto.
  rewrite Forall_forall in *. intros y Hy. apply filter_In in Hy as [Hy _]. auto.
Qed.

Lemma StronglySorted_app_one {A} (R : A -> A -> Prop) l x :
  StronglySorted R l -> Forall (fun y => R y x) l -> StronglySorted R (l ++ [x]).
Proof.
  induction 1 as [|y l Hs IH Hy]; intros Hf; cbn [app].
  - constructor; constructor.
  - inversion Hf; subst. constructor; auto.
    rewrite Forall_forall in *. intros z Hz. apply in_app_or in Hz as [Hz|[Hz|[]]]; subst; auto.
Qed.

Lemma StronglySorted_rev {A} (R : A -> A -> Prop) l :
  StronglySorted R l -> StronglySorted (fun x y => R y x) (rev l).
Proof.
  induction 1 as [|x l Hs IH Hx]; cbn [rev]; [constructor|].
  apply StronglySorted_app_one; auto.
  rewrite Forall_forall in *. intros y Hy. apply in_rev in Hy. auto.
Qed.

Lemma StronglySorted_map {A B} (R : B -> B -> Prop) (f : A -> B) l :
  StronglySorted (fun x y => R (f x) (f y)) l -> StronglySorted R (map f l).
Proof.
  induction 1 as [|x l Hs IH Hx]; cbn [map]; constructor; auto.
  rewrite Forall_forall in *. intros y Hy. apply in_map_iff in Hy as (z & <- & Hz). auto.
Qed.

Lemma StronglySorted_weaken {A} (R R' : A -> A -> Prop) l :
  (forall x y, In x l -> In y l -> R x y -> R' x y) -> StronglySorted R l -> StronglySorted R' l.
Proof.
  intros H Hs. induction Hs as [|x l Hs IH Hx]; constructor.
  - apply IH. intros a b Ha Hb. apply H; right; auto.
  - rewrite Forall_forall in *. intros y Hy. apply H; [left; auto | right; auto | auto].
Qed.

Section SortedScan.
  Context {A : Type} (R : A -> A -> Prop).

  (* h is closed towards the front of the list *)
  Lemma take_while_sorted (h : A -> bool) l :
    StronglySorted R l -> (forall x y, h y = true -> R x y -> h x = true) ->
    take_while h l = filter h l.
  Proof.
    intros Hs Hh. induction Hs as [|x l Hs IH Hx]; cbn [take_while filter]; auto.
    destruct (h x) eqn:Ex; [rewrite IH; reflexivity|].
    symmetry. apply filter_all_false. rewrite Forall_forall in Hx. intros y Hy.
    destruct (h y) eqn:Ey; auto. rewrite (Hh x y Ey (Hx y Hy)) in Ex. discriminate.
  Qed.

  (* g is closed towards the back of the list *)
  Lemma drop_while_sorted (g : A -> bool) l :
    StronglySorted R l -> (forall x y, g x = true -> R x y -> g y = true) ->
    drop_while (fun x => negb (g x)) l = filter g l.
  Proof.
    intros Hs Hg. induction Hs as [|x l Hs IH Hx]; cbn [drop_while filter]; auto.
    destruct (g x) eqn:Ex; cbn [negb]; auto.
    f_equal. symmetry. apply filter_all_true. rewrite Forall_forall in Hx. intros y Hy.
    apply (Hg x y Ex (Hx y Hy)).
  Qed.

  Lemma scan_is_filter (g h : A -> bool) l :
    StronglySorted R l ->
    (forall x y, g x = true -> R x y -> g y = true) ->
    (forall x y, h y = true -> R x y -> h x = true) ->
    take_while h (drop_while (fun x => negb (g x)) l) = filter (fun x => g x && h x) l.
  Proof.
    intros Hs Hg Hh. rewrite drop_while_sorted by assumption.
    rewrite take_while_sorted; auto using StronglySorted_filter.
    apply filter_filter.
  Qed.
End SortedScan.

(* ------------------------------------------------------------------ index content *)
Definition ent_le (e1 e2 : entry) : Prop := key_le (fst e1) (fst e2) = true.

Lemma insert_entry_perm e l : Permutation (insert_entry e l) (e :: l).
Proof.
  induction l as [|x l IH]; cbn [insert_entry]; auto.
  destruct (key_le (fst e) (fst x)); auto.
  eapply perm_trans; [apply perm_skip; exact IH | apply perm_swap].
Qed.

Lemma insert_entry_sorted e l : StronglySorted ent_le l -> StronglySorted ent_le (insert_entry e l).
Proof.
  induction 1 as [|x l Hs IH Hx]; cbn [insert_entry].
  - constructor; constructor.
  - destruct (key_le (fst e) (fst x)) eqn:E.
    + constructor; [constructor; auto|]. constructor; [exact E|].
      rewrite Forall_forall in *. intros y Hy. unfold ent_le in *. eapply key_le_trans; eauto.
    + constructor; auto. rewrite Forall_forall in *. intros y Hy.
      apply (Permutation_in _ (insert_entry_perm e l)) in Hy as [<-|Hy]; auto.
      apply key_le_total; auto.
Qed.

Lemma index_entries_perm pfx cs t :
  Permutation (index_entries pfx cs t) (map (fun r => (mapped_key pfx cs r, r)) t).
Proof.
  unfold index_entries. induction t as [|r t IH]; cbn [map fold_right]; auto.
  eapply perm_trans; [apply insert_entry_perm|]. apply perm_skip; auto.
Qed.

Lemma index_entries_sorted pfx cs t : StronglySorted ent_le (index_entries pfx cs t).
Proof.
  unfold index_entries. induction t as [|r t IH]; cbn [map fold_right]; [constructor|].
  apply insert_entry_sorted; auto.
Qed.

Lemma index_entries_in pfx cs t e :
  In e (index_entries pfx cs t) -> In (snd e) t /\ fst e = mapped_key pfx cs (snd e).
Proof.
  intros H. apply (Permutation_in _ (index_entries_perm pfx cs t)) in H.
  apply in_map_iff in H as (r & <- & Hr). auto.
Qed.

Lemma index_entries_rows pfx cs t : Permutation (map snd (index_entries pfx cs t)) t.
Proof.
  eapply perm_trans; [apply Permutation_map; apply index_entries_perm|].
  rewrite map_map. cbn [snd]. rewrite map_id. auto.
Qed.

(* ------------------------------------------------------------------ raw scan = filter *)
Definition in_bounds (lo hi : bytes) (e : entry) : bool :=
  key_le lo (fst e) && key_le (fst e) hi.

Lemma raw_scan_asc pfx lo hi es :
  StronglySorted ent_le es ->
  raw_scan pfx lo hi false es = filter (fun e => starts_with pfx (fst e)) (filter (in_bounds lo hi) es).
Proof.
  intros Hs. unfold raw_scan. f_equal.
  apply (scan_is_filter ent_le (fun e => key_le lo (fst e)) (fun e => key_le (fst e) hi)); auto.
  - intros x y Hx Hxy. eapply key_le_trans; eauto.
  - intros x y Hy Hxy. eapply key_le_trans; eauto.
Qed.

Lemma raw_scan_desc pfx lo hi es :
  StronglySorted ent_le es ->
  raw_scan pfx hi lo true es =
  rev (filter (fun e => starts_with pfx (fst e)) (filter (in_bounds lo hi) es)).
Proof.
  intros Hs. unfold raw_scan.
  rewrite (scan_is_filter (fun x y => ent_le y x) (fun e => key_le (fst e) hi) (fun e => key_le lo (fst e))).
  - rewrite <- !filter_rev. f_equal. apply filter_ext. intros e. unfold in_bounds. apply andb_comm.
  - apply StronglySorted_rev; auto.
  - intros x y Hx Hxy. unfold ent_le in Hxy. eapply key_le_trans; eauto.
  - intros x y Hy Hxy. unfold ent_le in Hxy. eapply key_le_trans; eauto.
Qed.

(* ------------------------------------------------------------------ index scan = table filter *)
Definition table_ok (t : list row) : bool := forallb row_ok t.

Lemma filter_map_filter {A B} (f : B -> bool) (F : A -> bool) (m : A -> B) l :
  (forall e, In e l -> f (m e) = true -> F e = true) ->
  filter f (map m (filter F l)) = filter f (map m l).
Proof.
  induction l as [|x l IH]; intros H; cbn [filter map]; auto.
  destruct (F x) eqn:E; cbn [map filter].
  - rewrite IH; auto. intros e He; apply H; right; auto.
  - destruct (f (m x)) eqn:Ef.
    + rewrite (H x (or_introl eq_refl) Ef) in E. discriminate.
    + apply IH. intros e He; apply H; right; auto.
Qed.

(* the scanned-and-filtered rows, as a filter over the sorted index content *)
Lemma index_scan_filter pfx cs desc t p :
  table_ok t = true -> pred_ok p = true ->
  index_scan pfx cs desc t p =
  let l := filter (eval p) (map snd (index_entries pfx cs t)) in if desc then rev l else l.
Proof.
  intros Ht Hp. unfold index_scan.
  pose proof (sel_ranges_ok p no_ranges Hp no_ranges_ok) as Hok.
  destruct (key_reader_spec pfx cs (sel_ranges p no_ranges)) as [lo hi] eqn:Ek.
  set (es := index_entries pfx cs t).
  assert (Hin : forall e, In e es -> eval p (snd e) = true ->
                 (fun e => in_bounds lo hi e && starts_with pfx (fst e)) e = true).
  { intros e He Hev. apply index_entries_in in He as [Hr Hk].
    unfold table_ok in Ht. rewrite forallb_forall in Ht.
    pose proof (key_in_bounds pfx cs (sel_ranges p no_ranges) (snd e) (Ht _ Hr) Hok
                  (sel_ranges_sound p no_ranges _ Hev (no_ranges_sound _))) as [B1 B2].
    rewrite Ek in B1, B2. cbn [fst snd] in B1, B2.
    unfold in_bounds. rewrite Hk, B1, B2, mapped_key_prefix. reflexivity. }
  cbv zeta. destruct desc.
  - rewrite raw_scan_desc by apply index_entries_sorted. fold es.
    rewrite filter_filter, map_rev, filter_rev. f_equal.
    apply filter_map_filter. exact Hin.
  - rewrite raw_scan_asc by apply index_entries_sorted. fold es.
    rewrite filter_filter. apply filter_map_filter. exact Hin.
Qed.

Lemma Permutation_filter {A} (f : A -> bool) l l' :
  Permutation l l' -> Permutation (filter f l) (filter f l').
Proof.
  induction 1; cbn [filter]; auto.
  - destruct (f x); auto.
  - destruct (f x), (f y); auto. apply perm_swap.
  - eapply perm_trans; eauto.
Qed.

(* an index scan with the residual filter returns exactly the satisfying rows of the table *)
Theorem index_scan_perm pfx cs desc t p :
  table_ok t = true -> pred_ok p = true ->
  Permutation (index_scan pfx cs desc t p) (filter (eval p) t).
Proof.
  intros Ht Hp. rewrite index_scan_filter by assumption. cbv zeta.
  assert (H : Permutation (filter (eval p) (map snd (index_entries pfx cs t))) (filter (eval p) t))
    by (apply Permutation_filter, index_entries_rows).
  destruct desc; auto. eapply perm_trans; [apply Permutation_sym, Permutation_rev | exact H].
Qed.

Theorem index_scan_eq_pk_scan_lemma pfx1 pfx2 cs desc1 desc2 t p :
  table_ok t = true -> pred_ok p = true ->
  Permutation (index_scan pfx1 cs desc1 t p) (index_scan pfx2 [CId] desc2 t p) /\
  Permutation (index_scan pfx1 cs desc1 t p) (filter (eval p) t).
Proof.
  intros Ht Hp. split.
  - eapply perm_trans; [apply index_scan_perm; auto | apply Permutation_sym, index_scan_perm; auto].
  - apply index_scan_perm; auto.
Qed.

Example index_scan_example :
  let t := [mkRow 1 (Some 5%Z) None None; mkRow 2 None (Some 1%Z) None; mkRow 3 (Some (-4)%Z) None None] in
  let p := PCmp CA OLt (Some 5%Z) in
  table_ok t = true /\ pred_ok p = true /\
  map r_id (index_scan [1] [CA] false t p) = [2; 3]%Z /\ map r_id (index_scan [2] [CId] false t p) = [2; 3]%Z.
Proof. vm_compute. auto. Qed.

(* ------------------------------------------------------------------ index order = SQL order *)
(* SQL order of the index's columns (NULL first), ties broken by primary key *)
Definition row_le (cs : list col) (desc : bool) (r1 r2 : row) : Prop :=
  if desc then tup_cmp (ix_tuple cs r1) (ix_tuple cs r2) <> Lt
  else tup_cmp (ix_tuple cs r1) (ix_tuple cs r2) <> Gt.

Lemma entries_rows_sorted pfx cs t :
  table_ok t = true ->
  StronglySorted (row_le cs false) (map snd (index_entries pfx cs t)).
Proof.
  intros Ht. apply StronglySorted_map.
  eapply StronglySorted_weaken; [|apply index_entries_sorted].
  intros x y Hx Hy Hle. apply index_entries_in in Hx as [Hx1 Hx2]. apply index_entries_in in Hy as [Hy1 Hy2].
  unfold table_ok in Ht. rewrite forallb_forall in Ht.
  unfold ent_le, key_le in Hle. rewrite Hx2, Hy2 in Hle.
  rewrite mapped_key_cmp in Hle by auto.
  unfold row_le. destruct (tup_cmp _ _); congruence.
Qed.

Theorem index_order_lemma pfx cs desc t p :
  table_ok t = true -> pred_ok p = true ->
  StronglySorted (row_le cs desc) (index_scan pfx cs desc t p).
Proof.
  intros Ht Hp. rewrite index_scan_filter by assumption. cbv zeta.
  pose proof (StronglySorted_filter _ (eval p) _ (entries_rows_sorted pfx cs t Ht)) as H.
  destruct desc; auto.
  apply StronglySorted_rev in H.
  eapply StronglySorted_weaken; [|exact H].
  intros x y _ _ Hxy. unfold row_le in *. cbv beta in Hxy.
  rewrite tup_cmp_antisym. destruct (tup_cmp (ix_tuple cs y) (ix_tuple cs x)); simpl; congruence.
Qed.
