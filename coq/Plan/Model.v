(* C11 — executable model of the single-table SELECT planner/scanner of embedded/sql
   (stmt.go genScanSpecs / selectorRanges / updateRangeFor / refineWith / extendWith,
    catalog.go coversOrdCols / hasPrefix / sortableUsing / countEqualityCoveredCols /
    EncodeValueAsKey, engine.go indexEntryMapperFor, row_reader.go keyReaderSpecFrom,
    tbtree reader range scan, cond_row_reader.go, sort_reader.go comparator, offset/limit readers).

   Schema of the modelled fragment: t(id INTEGER PRIMARY KEY, a INTEGER NULL, b INTEGER NULL,
   s VARCHAR NULL); indexes over any sequence of the integer columns.
   This file contains definitions only (no proofs). It is a transliteration of the code that
   exists: in particular the engine compares with NULL as the LOWEST value (NULL = NULL holds,
   NULL < 5 holds): `TypedValue.Compare`, not SQL three-valued logic. *)
From V Require Export Base.Bytes.
From Coq Require Export ZArith.

(* ------------------------------------------------------------------ values and rows *)
Definition sval := option Z.                       (* NULL | INTEGER (int64) *)
Definition int64_ok (z : Z) : bool := ((- 2 ^ 63 <=? z) && (z <? 2 ^ 63))%Z.
Definition sval_ok (v : sval) : bool := match v with None => true | Some z => int64_ok z end.

Record row := mkRow { r_id : Z; r_a : sval; r_b : sval; r_s : option bytes }.
Inductive col := CId | CA | CB.

Definition col_eqb (x y : col) : bool :=
  match x, y with CId, CId | CA, CA | CB, CB => true | _, _ => false end.
Definition getcol (c : col) (r : row) : sval :=
  match c with CId => Some (r_id r) | CA => r_a r | CB => r_b r end.
Definition row_ok (r : row) : bool := int64_ok (r_id r) && sval_ok (r_a r) && sval_ok (r_b r).

(* Integer.Compare / NullValue.Compare (stmt.go): NULL is lowest, NULL == NULL *)
Definition sv_cmp (x y : sval) : comparison :=
  match x, y with
  | None, None => Eq
  | None, Some _ => Lt
  | Some _, None => Gt
  | Some a, Some b => Z.compare a b
  end.

(* ------------------------------------------------------------------ key encoding *)
(* EncodeValueAsKey for INTEGER: NULL -> [0x20]; v -> 0x80 :: BE64(uint64(v)) with the top bit
   flipped, i.e. BE64((v + 2^63) mod 2^64) *)
Definition KeyValPrefixNull : N := 32.
Definition KeyValPrefixNotNull : N := 128.
Definition KeyValPrefixUpperBound : N := 255.

Definition enc_int (z : Z) : bytes :=
  KeyValPrefixNotNull :: be_enc 8 (Z.to_N ((z + 2 ^ 63) mod 2 ^ 64)%Z).
Definition enc_sval (v : sval) : bytes :=
  match v with None => [KeyValPrefixNull] | Some z => enc_int z end.

(* an index: its id in the catalog (0 = primary) and its columns; the primary index is (0,[CId]) *)
Record index := mkIndex { ix_id : N; ix_cols : list col }.
Definition ix_primary (i : index) : bool := ix_id i =? 0.

Definition enc_cols (cs : list col) (r : row) : bytes :=
  concat (map (fun c => enc_sval (getcol c r)) cs).

(* indexEntryMapperFor: M.{tableID}{indexID} ({enc col})+ {enc pk} ; `pfx` is everything up to
   and including the index id (MapKey(sqlPrefix, MappedPrefix, EncodeID(table), EncodeID(index))) *)
Definition mapped_key (pfx : bytes) (cs : list col) (r : row) : bytes :=
  pfx ++ enc_cols cs r ++ enc_sval (Some (r_id r)).

(* ------------------------------------------------------------------ predicates *)
Inductive cmpop := OEq | ONe | OLt | OLe | OGt | OGe.

Inductive pred :=
| PTrue                                         (* no WHERE clause *)
| PCmp (c : col) (op : cmpop) (v : sval)        (* col op const;  `c IS NULL` = PCmp c OEq None,
                                                   `c IS NOT NULL` = PCmp c ONe None (sql_grammar.y) *)
| PCmpR (v : sval) (op : cmpop) (c : col)       (* const op col (never turned into a range) *)
| PAnd (l r : pred)
| POr (l r : pred)
| PNot (p : pred)
| PIn (neg : bool) (c : col) (vs : list sval)   (* col [NOT] IN (consts) *)
| PIsUnk (neg : bool) (p : pred).               (* (p) IS [NOT] NULL *)

(* cmpSatisfiesOp *)
Definition cmp_sat (c : comparison) (op : cmpop) : bool :=
  match c, op with
  | Eq, (OEq | OLe | OGe) => true
  | Lt, (ONe | OLt | OLe) => true
  | Gt, (ONe | OGt | OGe) => true
  | _, _ => false
  end.

Definition is_eq (c : comparison) : bool := match c with Eq => true | _ => false end.

(* CmpBoolExp.reduce / BinBoolExp.reduce / NotBoolExp.reduce / InListExp.reduce on a row: always
   a Bool for this fragment.  (p) IS NULL is CmpBoolExp{p, EQ, NULL}: Bool.Compare(NULL) = 1. *)
Fixpoint eval (p : pred) (r : row) : bool :=
  match p with
  | PTrue => true
  | PCmp c op v => cmp_sat (sv_cmp (getcol c r) v) op
  | PCmpR v op c => cmp_sat (sv_cmp v (getcol c r)) op
  | PAnd l q => if eval l r then eval q r else false
  | POr l q => if eval l r then true else eval q r
  | PNot q => negb (eval q r)
  | PIn neg c vs =>
      if existsb (fun v => is_eq (sv_cmp (getcol c r) v)) vs then negb neg else neg
  | PIsUnk neg q => cmp_sat Gt (if neg then ONe else OEq)
  end.

Fixpoint pred_ok (p : pred) : bool :=
  match p with
  | PTrue => true
  | PCmp _ _ v | PCmpR v _ _ => sval_ok v
  | PAnd l q | POr l q => pred_ok l && pred_ok q
  | PNot q | PIsUnk _ q => pred_ok q
  | PIn _ _ vs => forallb sval_ok vs
  end.

(* ------------------------------------------------------------------ selector ranges *)
Record semi := mkSemi { sr_val : sval; sr_incl : bool }.          (* typedValueSemiRange *)
Record range := mkRange { lr : option semi; hr : option semi }.   (* typedValueRange *)
Definition ranges := col -> option range.                          (* rangesByColID *)
Definition no_ranges : ranges := fun _ => None.
Definition set_range (rs : ranges) (c : col) (rg : range) : ranges :=
  fun x => if col_eqb x c then Some rg else rs x.

Definition unitary (rg : range) : bool :=
  match lr rg, hr rg with
  | Some l, Some h => is_eq (sv_cmp (sr_val l) (sr_val h)) && sr_incl l && sr_incl h
  | _, _ => false
  end.

Definition max_semi (a b : semi) : semi :=
  mkSemi (match sv_cmp (sr_val a) (sr_val b) with Lt => sr_val b | _ => sr_val a end)
         (sr_incl a && sr_incl b).
Definition min_semi (a b : semi) : semi :=
  mkSemi (match sv_cmp (sr_val a) (sr_val b) with Gt => sr_val b | _ => sr_val a end)
         (sr_incl a || sr_incl b).

Definition refine_with (r n : range) : range :=
  mkRange
    (match lr r with
     | None => lr n
     | Some a => match lr n with Some b => Some (max_semi a b) | None => Some a end
     end)
    (match hr r with
     | None => hr n
     | Some a => match hr n with Some b => Some (min_semi a b) | None => Some a end
     end).

Definition extend_with (r e : range) : range :=
  mkRange
    (match lr r, lr e with Some a, Some b => Some (min_semi a b) | _, _ => None end)
    (match hr r, hr e with Some a, Some b => Some (max_semi a b) | _, _ => None end).

Definition new_range (op : cmpop) (v : sval) : option range :=
  match op with
  | OEq => Some (mkRange (Some (mkSemi v true)) (Some (mkSemi v true)))
  | OLt => Some (mkRange None (Some (mkSemi v false)))
  | OLe => Some (mkRange None (Some (mkSemi v true)))
  | OGt => Some (mkRange (Some (mkSemi v false)) None)
  | OGe => Some (mkRange (Some (mkSemi v true)) None)
  | ONe => None
  end.

Definition update_range_for (c : col) (v : sval) (op : cmpop) (rs : ranges) : ranges :=
  match new_range op v with
  | None => rs
  | Some nr =>
      match rs c with
      | None => set_range rs c nr
      | Some cur => set_range rs c (refine_with cur nr)
      end
  end.

(* InListExp.selectorRanges: min / max of the constants *)
Fixpoint in_minmax (vs : list sval) (mn mx : sval) : sval * sval :=
  match vs with
  | [] => (mn, mx)
  | v :: r =>
      let mn' := match sv_cmp v mn with Lt => v | _ => mn end in
      let mx' := match sv_cmp v mx with Gt => v | _ => mx end in
      in_minmax r mn' mx'
  end.

Definition all_cols : list col := [CId; CA; CB].

Fixpoint sel_ranges (p : pred) (rs : ranges) : ranges :=
  match p with
  | PTrue => rs
  | PCmp c op v => update_range_for c v op rs
  | PCmpR _ _ _ => rs
  | PAnd l q => sel_ranges q (sel_ranges l rs)
  | POr l q =>
      let lrs := sel_ranges l no_ranges in
      let rrs := sel_ranges q no_ranges in
      fold_left (fun acc c =>
                   match lrs c, rrs c with
                   | Some a, Some b => set_range acc c (extend_with a b)
                   | _, _ => acc
                   end) all_cols rs
  | PNot _ => rs
  | PIn neg c vs =>
      if neg then rs else
      match vs with
      | [] => rs
      | v :: r =>
          let '(mn, mx) := in_minmax r v v in
          update_range_for c mx OLe (update_range_for c mn OGe rs)
      end
  | PIsUnk _ _ => rs
  end.

(* ------------------------------------------------------------------ keyReaderSpecFrom *)
(* the loop over scanSpecs.Index.cols, with its two ready flags and the `break` on the first
   column without a range *)
Fixpoint krs_loop (cols : list col) (rs : ranges) (lo hi : bytes) (loReady hiReady : bool)
  : bytes * bytes :=
  match cols with
  | [] => (lo, hi)
  | c :: cs =>
      match rs c with
      | None => (lo, hi)
      | Some rg =>
          let '(hi', hiReady') :=
            if hiReady then (hi, true) else
            match hr rg with
            | None => (hi, true)
            | Some s => (hi ++ enc_sval (sr_val s), false)
            end in
          let '(lo', loReady') :=
            if loReady then (lo, true) else
            match lr rg with
            | None => (lo, true)
            | Some s => (lo ++ enc_sval (sr_val s), false)
            end in
          krs_loop cs rs lo' hi' loReady' hiReady'
      end
  end.

(* (loKey, hiKey) *)
Definition key_reader_spec (pfx : bytes) (cols : list col) (rs : ranges) : bytes * bytes :=
  let '(lo, hi) := krs_loop cols rs pfx pfx false false in
  (lo, hi ++ [KeyValPrefixUpperBound]).

(* ------------------------------------------------------------------ index content and raw scan *)
Definition entry := (bytes * row)%type.

Definition key_le (a b : bytes) : bool := match bcmp a b with Gt => false | _ => true end.

Fixpoint insert_entry (e : entry) (l : list entry) : list entry :=
  match l with
  | [] => [e]
  | x :: l' => if key_le (fst e) (fst x) then e :: l else x :: insert_entry e l'
  end.

(* the live mapped keys of one index, in key order (what the index's B-tree holds) *)
Definition index_entries (pfx : bytes) (cs : list col) (t : list row) : list entry :=
  fold_right insert_entry [] (map (fun r => (mapped_key pfx cs r, r)) t).

Fixpoint drop_while {A} (f : A -> bool) (l : list A) : list A :=
  match l with [] => [] | x :: r => if f x then drop_while f r else l end.
Fixpoint take_while {A} (f : A -> bool) (l : list A) : list A :=
  match l with [] => [] | x :: r => if f x then x :: take_while f r else [] end.

Fixpoint starts_with (p k : bytes) : bool :=
  match p, k with
  | [], _ => true
  | x :: p', y :: k' => (x =? y) && starts_with p' k'
  | _ :: _, [] => false
  end.

(* tbtree Reader.Read with InclusiveSeek/InclusiveEnd: position on the first key >= seekKey
   (<= for DescOrder), stop at the first key beyond endKey, skip keys without the prefix *)
Definition raw_scan (pfx seek end_ : bytes) (desc : bool) (es : list entry) : list entry :=
  let run :=
    if desc
    then take_while (fun e => key_le end_ (fst e))
                    (drop_while (fun e => negb (key_le (fst e) seek)) (rev es))
    else take_while (fun e => key_le (fst e) end_)
                    (drop_while (fun e => negb (key_le seek (fst e))) es) in
  filter (fun e => starts_with pfx (fst e)) run.

(* rawRowReader + conditionalRowReader over one index *)
Definition index_scan (pfx : bytes) (cs : list col) (desc : bool) (t : list row) (p : pred)
  : list row :=
  let rs := sel_ranges p no_ranges in
  let '(lo, hi) := key_reader_spec pfx cs rs in
  let es := index_entries pfx cs t in
  let scanned := if desc then raw_scan pfx hi lo true es else raw_scan pfx lo hi false es in
  filter (eval p) (map snd scanned).

(* ------------------------------------------------------------------ ORDER BY *)
Inductive nulls_order := NDefault | NFirst | NLast.
Record ordexp := mkOrd { o_col : col; o_desc : bool; o_nulls : nulls_order }.

Definition same_direction (os : list ordexp) : bool :=
  match os with
  | [] => true
  | o :: r => forallb (fun e => Bool.eqb (o_desc e) (o_desc o)) r
  end.

Fixpoint has_prefix (cols : list col) (os : list ordexp) : bool :=
  match os with
  | [] => true
  | o :: os' =>
      match cols with
      | [] => false
      | c :: cols' => col_eqb (o_col o) c && has_prefix cols' os'
      end
  end.

Fixpoint sortable_loop (icols : list col) (first : col) (os : list ordexp) (rs : ranges) : bool :=
  match icols with
  | [] => false
  | c :: rest =>
      if col_eqb c first then has_prefix icols os
      else match rs c with
           | Some rg => if unitary rg then sortable_loop rest first os rs else false
           | None => false
           end
  end.

Definition sortable_using (icols : list col) (os : list ordexp) (rs : ranges) : bool :=
  match os with
  | [] => false    (* never called with an empty list (Go would index columns[0]) *)
  | o :: _ => sortable_loop icols (o_col o) os rs
  end.

(* an index scan yields NULLs first when read forward and last when read backward: it does not
   serve an explicit NULLS FIRST/LAST asking for the opposite placement (fix f375c29) *)
Definition nulls_served (o : ordexp) : bool :=
  match o_nulls o with
  | NLast => o_desc o
  | NFirst => negb (o_desc o)
  | NDefault => true
  end.

Definition covers_ord_cols (icols : list col) (os : list ordexp) (rs : ranges) : bool :=
  same_direction os && forallb nulls_served os &&
  (has_prefix icols os || sortable_using icols os rs).

(* sort_reader.go comparator *)
Definition nulls_first (o : ordexp) : bool :=
  match o_nulls o with NFirst => true | NLast => false | NDefault => negb (o_desc o) end.

Fixpoint ord_cmp (os : list ordexp) (r1 r2 : row) : comparison :=
  match os with
  | [] => Eq
  | o :: os' =>
      match getcol (o_col o) r1, getcol (o_col o) r2 with
      | None, None => ord_cmp os' r1 r2
      | None, Some _ => if nulls_first o then Lt else Gt
      | Some _, None => if nulls_first o then Gt else Lt
      | Some x, Some y =>
          match Z.compare x y with
          | Eq => ord_cmp os' r1 r2
          | c => if o_desc o then CompOpp c else c
          end
      end
  end.

Definition ord_le (os : list ordexp) (r1 r2 : row) : bool :=
  match ord_cmp os r1 r2 with Gt => false | _ => true end.

Fixpoint insert_row (os : list ordexp) (x : row) (l : list row) : list row :=
  match l with
  | [] => [x]
  | y :: l' => if ord_le os x y then x :: l else y :: insert_row os x l'
  end.
(* the explicit sort (sortRowReader); Go's sort.Slice is not stable: only "a sorted permutation
   of the input" is compared with the implementation *)
Definition sort_rows (os : list ordexp) (l : list row) : list row :=
  fold_right (insert_row os) [] l.

(* ------------------------------------------------------------------ index selection and execution *)
Record query := mkQuery {
  q_where : pred;
  q_order : list ordexp;
  q_limit : N;          (* 0 = no limit reader (LIMIT 0 / no LIMIT) *)
  q_offset : N;
  q_use : option (list col)     (* USE INDEX ON (...) *)
}.

Fixpoint cols_eqb (a b : list col) : bool :=
  match a, b with
  | [], [] => true
  | x :: a', y :: b' => col_eqb x y && cols_eqb a' b'
  | _, _ => false
  end.

(* countEqualityCoveredCols *)
Fixpoint count_eq_cov (icols : list col) (rs : ranges) : nat :=
  match icols with
  | [] => O
  | c :: r => match rs c with
              | Some rg => if unitary rg then S (count_eq_cov r rs) else O
              | None => O
              end
  end.

(* selectINLJIndex *)
Fixpoint select_inlj (idxs : list index) (rs : ranges) (best : option index) (bestn : nat)
  : option index :=
  match idxs with
  | [] => best
  | i :: r =>
      if ix_primary i then select_inlj r rs best bestn
      else let n := count_eq_cov (ix_cols i) rs in
           if Nat.ltb bestn n then select_inlj r rs (Some i) n else select_inlj r rs best bestn
  end.

Definition primary_of (idxs : list index) : index :=
  match find ix_primary idxs with Some i => i | None => mkIndex 0 [CId] end.

Record plan := mkPlan {
  p_index : index;
  p_lo : bytes; p_hi : bytes;
  p_desc : bool;
  p_sort : bool        (* an explicit sortRowReader is stacked on top *)
}.

(* genScanSpecs + keyReaderSpecFrom, single table, no GROUP BY; None when USE INDEX names no index *)
Definition gen_plan (pfx_of : index -> bytes) (idxs : list index) (q : query) : option plan :=
  let rs := sel_ranges (q_where q) no_ranges in
  let preferred :=
    match q_use q with
    | None => Some None
    | Some cs => match find (fun i => cols_eqb (ix_cols i) cs) idxs with
                 | Some i => Some (Some i)
                 | None => None
                 end
    end in
  match preferred with
  | None => None
  | Some pref =>
      let sorting :=
        match pref with
        | Some i => Some i
        | None => match q_order q with
                  | [] => None
                  | os => find (fun i => covers_ord_cols (ix_cols i) os rs) idxs
                  end
        end in
      let prim := primary_of idxs in
      let ix0 := match sorting with Some i => i | None => prim end in
      let ix := if ix_id ix0 =? ix_id prim
                then match select_inlj idxs rs None O with Some i => i | None => ix0 end
                else ix0 in
      let covers := match q_order q with
                    | [] => false
                    | os => covers_ord_cols (ix_cols ix) os rs
                    end in
      let desc := if covers then match q_order q with o :: _ => o_desc o | [] => false end
                  else false in
      let sort := match q_order q with [] => false | _ => negb covers end in
      let '(lo, hi) := key_reader_spec (pfx_of ix) (ix_cols ix) rs in
      Some (mkPlan ix lo hi desc sort)
  end.

Definition apply_offset (n : N) (l : list row) : list row := skipn (N.to_nat n) l.
Definition apply_limit (n : N) (l : list row) : list row :=
  if n =? 0 then l else firstn (N.to_nat n) l.

(* rows before OFFSET/LIMIT, from the content `es` of the plan's index *)
Definition exec_entries (pfx : bytes) (es : list entry) (q : query) (pl : plan) : list row :=
  let scanned :=
    if p_desc pl then raw_scan pfx (p_hi pl) (p_lo pl) true es
    else raw_scan pfx (p_lo pl) (p_hi pl) false es in
  let filtered := filter (eval (q_where q)) (map snd scanned) in
  if p_sort pl then sort_rows (q_order q) filtered else filtered.

Definition exec_plan (pfx_of : index -> bytes) (t : list row) (q : query) (pl : plan) : list row :=
  let ix := p_index pl in
  exec_entries (pfx_of ix) (index_entries (pfx_of ix) (ix_cols ix) t) q pl.

Definition exec (pfx_of : index -> bytes) (idxs : list index) (t : list row) (q : query)
  : option (list row) :=
  match gen_plan pfx_of idxs q with
  | None => None
  | Some pl => Some (apply_limit (q_limit q) (apply_offset (q_offset q) (exec_plan pfx_of t q pl)))
  end.

(* MapKey(sqlPrefix, "M.", EncodeID(table), EncodeID(index)) *)
Definition mk_pfx (base : bytes) (table_id : N) (i : index) : bytes :=
  base ++ be_enc 4 table_id ++ be_enc 4 (ix_id i).

(* ------------------------------------------------------------------ inside an open transaction *)
(* What a SELECT issued inside an open read-write transaction reads, as the engine does it
   (store.OngoingTx.set, sql doUpsert / deprecateIndexEntries / deleteIndexEntries):
   - through the PRIMARY index: the committed rows with the transaction's own writes and deletes
     applied (the row key R.{table}{pk} is written in the transaction; the primary index maps it);
   - through a SECONDARY index (its store index has a SourceEntryMapper, so OngoingTx.set does not
     map row writes into it): every entry committed before BEGIN is still there and still resolves
     to the committed row version -- deprecateIndexEntries puts its tombstone under a key without
     the primary-key suffix (encodedValues[i+3] overwrites the pk slot) and deleteIndexEntries only
     tombstones the primary row key -- plus ONE transient entry per distinct tuple of index-column
     values written by the transaction, under the key M.{table}{index}{enc cols} WITHOUT the pk
     suffix (doUpsert's smkey), holding the last row written with that tuple; no transient entry is
     written when the row existed and keeps its tuple (reusableIndexEntries). *)
Inductive txop := TxPut (r : row) | TxDel (id : Z).

Definition sval_eqb (x y : sval) : bool :=
  match x, y with
  | None, None => true
  | Some a, Some b => Z.eqb a b
  | _, _ => false
  end.

Definition same_tuple (cs : list col) (c w : row) : bool :=
  forallb (fun k => sval_eqb (getcol k c) (getcol k w)) cs.

Fixpoint put_row (w : row) (view : list row) : list row :=
  match view with
  | [] => [w]
  | c :: r => if Z.eqb (r_id c) (r_id w) then w :: r else c :: put_row w r
  end.

Fixpoint put_entry (k : bytes) (w : row) (tr : list entry) : list entry :=
  match tr with
  | [] => [(k, w)]
  | e :: r => match bcmp k (fst e) with Eq => (k, w) :: r | _ => e :: put_entry k w r end
  end.

(* smkey of doUpsert: no primary-key suffix *)
Definition transient_key (pfx : bytes) (cs : list col) (r : row) : bytes := pfx ++ enc_cols cs r.

(* (rows visible through the primary key, transient entries of the secondary index cs) *)
Fixpoint tx_run (pfx : bytes) (cs : list col) (ops : list txop) (view : list row) (tr : list entry)
  : list row * list entry :=
  match ops with
  | [] => (view, tr)
  | TxDel id :: r => tx_run pfx cs r (filter (fun c => negb (Z.eqb (r_id c) id)) view) tr
  | TxPut w :: r =>
      let reusable := match find (fun c => Z.eqb (r_id c) (r_id w)) view with
                      | Some c => same_tuple cs c w
                      | None => false
                      end in
      tx_run pfx cs r (put_row w view)
             (if reusable then tr else put_entry (transient_key pfx cs w) w tr)
  end.

Definition tx_entries (pfx_of : index -> bytes) (i : index) (committed : list row) (ops : list txop)
  : list entry :=
  let '(view, tr) := tx_run (pfx_of i) (ix_cols i) ops committed [] in
  if ix_primary i then index_entries (pfx_of i) (ix_cols i) view
  else fold_right insert_entry (index_entries (pfx_of i) (ix_cols i) committed) tr.

(* the table as the transaction should see it *)
Definition tx_table (committed : list row) (ops : list txop) : list row :=
  fst (tx_run [] [] ops committed []).

Definition exec_plan_in_tx (pfx_of : index -> bytes) (committed : list row) (ops : list txop)
           (q : query) (pl : plan) : list row :=
  let ix := p_index pl in
  exec_entries (pfx_of ix) (tx_entries pfx_of ix committed ops) q pl.
